/- Driver handlers for the C04 correspondence streams. -/
import Csvq.Model.Proto
import Csvq.Model.Group
import Csvq.Model.FormatFloat
import Csvq.Model.Aggregate
namespace Csvq.Drive
open Csvq Csvq.Proto

/-- key token: profile~ftext~trim  (ftext/trim: `x<hex>` or `-`) -/
structure KTok where
  p : Profile
  ftext : Option Bytes
  trim : Option Bytes

def parseKTok (s : String) : Option KTok :=
  match s.splitOn "~" with
  | [p, f, t] => do
    let p ← parseProfile p
    let f ← parseOpt parseHexX f
    let t ← parseOpt parseHexX t
    pure { p := p, ftext := f, trim := t }
  | _ => none

/-- the float text the implementation's strconv supplied with the token is the model's own
    (Model/FormatFloat.lean; `-` exactly when the value has no float reading) -/
def ktokFloatOK (k : KTok) : Bool :=
  match k.p.flt?, k.ftext with
  | some f, some t => t == FF.fmtF f
  | none, none => true
  | _, _ => false

/-- serialise one key; the float payload is the model's own strconv.FormatFloat (`FF.fmtF`, the instance
    `C04.keytext_ok` is about) — the text supplied with the token is only compared with it (`ktokFloatOK`) -/
def serTok (strict : Bool) (k : KTok) : Bytes :=
  let nk := if strict then normStrict k.p.raw (k.trim.getD []) else norm k.p
  let kt : KeyText := { itext := decText, ftext := FF.fmtF }
  serKey kt nk

def intercalateSep : List Bytes → Bytes
  | [] => []
  | [x] => x
  | x :: xs => x ++ sepByte :: intercalateSep xs

def rowKey (strict : Bool) (ks : List KTok) : Bytes := intercalateSep (ks.map (serTok strict))

def chunk {α} (n : Nat) : List α → List (List α)
  | [] => []
  | l => if n = 0 then [l] else
    let rec go (fuel : Nat) (l : List α) : List (List α) :=
      match fuel, l with
      | 0, _ => []
      | _, [] => []
      | f + 1, l => l.take n :: go f (l.drop n)
    go l.length l

def showIdx (l : List Nat) : String := String.intercalate "," (l.map toString)
def showBuckets (g : List (Bytes × List Nat)) : String :=
  if g.isEmpty then "-" else String.intercalate "|" (g.map fun b => showIdx b.2)

def keyedRows (strict : Bool) (ncols : Nat) (toks : List KTok) : List (Bytes × Nat) :=
  (chunk ncols toks).zipIdx.map fun (r, i) => (rowKey strict r, i)

/-! ### aggregates (Model/Aggregate.lean) -/

def showRes : Agg.Res → String
  | .null => "N"
  | .int i => "I" ++ toString i
  | .flt f => "F" ++ showF f
  | .str s => "S" ++ hex s
  | .cell p => showVal p.raw

def showCell : Option Profile → String
  | none => "N"
  | some p => showVal p.raw

/-- the cells the function sees: all of them, or the first of every comparison key (DISTINCT) -/
def aggCells (d : Nat) (ks : List KTok) : List Profile :=
  match d with
  | 0 => ks.map (·.p)
  | 1 => Agg.distinguish (ks.map (·.p))
  | _ => Agg.distinguishStrict (ks.map fun k => (k.p, k.trim.getD []))

/-- the texts LISTAGG joins are the model's own: decText (= strconv.FormatInt) and FF.fmtF
    (= strconv.FormatFloat(f, 'f', -1, 64) = value.Float64ToStr(f, false), Model/FormatFloat.lean) -/
def aggKeyText (_ : List KTok) : KeyText := { itext := decText, ftext := FF.fmtF }

/-- MEDIAN: sort.Float64s leaves the order of -0 and +0 open, so the sign of a zero result is not determined
    when zeros of both signs are among the values; both sides then print +0 -/
def showMedian (cells : List Profile) : String :=
  match Agg.median cells with
  | .flt f =>
    let vs := Agg.medianList cells
    if f.isZero && vs.contains .negz && vs.contains (.fin 0) then "F0" else "F" ++ showF f
  | r => showRes r

def aggOne (sep : Bytes) (cells : List Profile) (ks : List KTok) (fn : String) : Option String :=
  (fun r => fn ++ "=" ++ r) <$> (match fn with
  | "COUNT" => some (showRes (.int (Agg.count cells)))
  | "MAX" => some (showCell (Agg.maxAgg cells))
  | "MIN" => some (showCell (Agg.minAgg cells))
  | "SUM" => some (showRes (Agg.sum cells))
  | "AVG" => some (showRes (Agg.avg cells))
  | "STDEV" => some (showRes (Agg.stdev cells))
  | "STDEVP" => some (showRes (Agg.stdevp cells))
  | "VAR" => some (showRes (Agg.var cells))
  | "VARP" => some (showRes (Agg.varp cells))
  | "MEDIAN" => some (showMedian cells)
  | "LISTAGG" => some (showRes (Agg.listAgg (aggKeyText ks) sep cells))
  | "POW2" =>   -- math.Pow(x, 2) of every float cell, and math.Sqrt of it
    some (String.intercalate "," ((Agg.floatList cells).map fun f => showF (FVal.powTwo f) ++ "/" ++ showF (FVal.sqrt f)))
  | _ => none)

def c04 (cmd : String) (args : List String) : String :=
  let bad := "bad-op"
  match cmd, args with
  | "key", s :: toks =>
    match parseBool s, toks.mapM parseKTok with
    | some strict, some ks => if ks.all ktokFloatOK then hex (rowKey strict ks) else "float-text-differs"
    | _, _ => bad
  | "group", s :: nc :: w :: toks =>
    -- w = number of worker chunks the model cuts the rows into (result must not depend on it)
    match parseBool s, nc.toNat?, w.toNat?, toks.mapM parseKTok with
    | some strict, some ncols, some w, some ks =>
      let rows := keyedRows strict ncols ks
      let per := if w = 0 then rows.length else (rows.length + w - 1) / w
      showBuckets (groupImpl (chunk per rows))
    | _, _, _, _ => bad
  | "distinct", s :: nc :: toks =>
    match parseBool s, nc.toNat?, toks.mapM parseKTok with
    | some strict, some ncols, some ks => showIdx ((keepFirst (keyedRows strict ncols ks)).map Prod.snd)
    | _, _, _ => bad
  | "setop", op :: all :: s :: nc :: na :: toks =>
    -- rows 0..na-1 belong to the left operand, the rest to the right one
    match parseBool all, parseBool s, nc.toNat?, na.toNat?, toks.mapM parseKTok with
    | some all, some strict, some ncols, some na, some ks =>
      let rows := keyedRows strict ncols ks
      let a := rows.take na
      let b := rows.drop na
      let res := match op with
        | "union" => unionImpl all a b
        | "except" => exceptImpl all a b
        | "intersect" => intersectImpl all a b
        | _ => []
      showIdx (res.map Prod.snd)
    | _, _, _, _, _ => bad
  | "agg", fns :: d :: sep :: toks =>
    -- fns: comma-separated function names; d: 0 = all cells, 1 = DISTINCT, 2 = DISTINCT under --strict-equal;
    -- sep: the separator of LISTAGG (`x<hex>`); toks: the cells of the group in record order
    match d.toNat?, parseHexX sep, toks.mapM parseKTok with
    | some d, some sep, some ks =>
      match (fns.splitOn ",").mapM (aggOne sep (aggCells d ks) ks) with
      | some rs => String.intercalate "|" rs
      | none => bad
    | _, _, _ => bad
  | _, _ => bad

end Csvq.Drive
