/- Driver handlers of the C11 stream: the C10 / C11 commit and close sequences (Drive/C10), and the paths through the
   regenerated Handler.commit / Handler.close trees (Model/CommitPaths over Gen/CommitPaths).

   c11.hcommit <update|create|read> [#comment]     what EVERY successful path through Handler.commit leaves of the
   c11.hclose  <update|create|read> [#comment]     table's files (`old`/`new`/`missing` + `+temp` `+lock` `+rlock`);
                                                    several different outcomes are joined with `|`
   c11.startup <n>      the lib/file points a start-up passes that finds n csvq_env.json files, before the first
                        statement: from the kind of handler the regenerated prefix opens them with -/
import Csvq.Drive.C10
import Csvq.Model.CommitPaths
import Csvq.Gen.CommitPaths
import Csvq.Model.Startup
import Csvq.Gen.Startup
namespace Csvq.Drive
open Csvq.CommitPaths

/-- the driver runs a created handler that HAS created its file (the harness does): the guard of the removal holds -/
def knownDrv (k : Kind) (c : String) : Option Bool :=
  if c = "h.openType == ForCreate && h.created && Exists(h.path)" then some (match k with | .create => true | _ => false)
  else known k false c

def pathOutcomes (k : Kind) (n : Node) : String :=
  let rs := (runs (knownDrv k) n).filter (·.ok)
  let outs := rs.foldl (fun acc r =>
    let s := showState (finalState k false r) ++ (if r.failed then "+swallowed-error" else "")
    if acc.contains s then acc else acc ++ [s]) ([] : List String)
  if outs.isEmpty then "no-successful-path" else String.intercalate "|" outs

def c11 (cmd : String) (args : List String) : String :=
  match cmd, args.filter (fun a => !a.startsWith "#") with
  | "hcommit", [k] => (match kindOf k with | some k => pathOutcomes k Csvq.Gen.handlerCommitTree | none => "bad-op")
  | "hclose", [k] => (match kindOf k with | some k => pathOutcomes k Csvq.Gen.handlerCloseTree | none => "bad-op")
  | "startup", [n] => (match n.toNat? with
      | some n => String.intercalate "," (Csvq.Startup.startupPoints Csvq.Gen.startupOpens n)
      | none => "bad-op")
  | _, _ => c10 cmd args

end Csvq.Drive
