/- Stateful driver for the C01 / C20 correspondence streams: the session machine over integer tables. -/
import Csvq.Model.Session
import Csvq.Model.CreateTable
namespace Csvq.Drive
open Csvq.Session

/-- a hex-encoded ASCII text as characters -/
def unhexChars (s : String) : Option (List Char) :=
  let hv : Char → Option Nat := fun c =>
    if '0' ≤ c ∧ c ≤ '9' then some (c.toNat - 48) else if 'a' ≤ c ∧ c ≤ 'f' then some (c.toNat - 87) else none
  let rec go : List Char → List Char → Option (List Char)
    | [], acc => some acc.reverse
    | a :: b :: rest, acc => do
      let x ← hv a
      let y ← hv b
      go rest (Char.ofNat (x * 16 + y) :: acc)
    | _, _ => none
  go s.toList []

/-- a table as the driver sees it: the file attribute that decides how it is written (line break: 0 = LF,
    1 = CRLF, 2 = CR) and the rows.  The session model is polymorphic in the
    table type, so attributes travel with the cached view exactly as the rows do. -/
abbrev Tbl := Nat × List Int

def parseRows (s : String) : Option (List Int) :=
  if s = "e" then some [] else (s.splitOn ",").mapM String.toInt?

def parseTbl (s : String) : Option Tbl :=
  match s.splitOn "/" with
  | [a, r] => do
    let a ← a.toNat?
    let r ← parseRows r
    pure (a, r)
  | [r] => (parseRows r).map (fun r => (0, r))
  | _ => none

def showRows (t : List Int) : String := if t.isEmpty then "e" else String.intercalate "," (t.map toString)
def showTbl (t : Tbl) : String := toString t.1 ++ "/" ++ showRows t.2

def nFiles : Nat := 4
def nTemps : Nat := 3   -- tt0, tt1 and (number 2) the STDIN table

def showState (s : State Tbl) : String :=
  let files := (List.range nFiles).map fun p =>
    if s.created p then "new" else match s.disk p with | some c => showTbl c | none => "-"
  -- temporary tables: `h<k>/rows`, k = the current name (h0 / h1) of their second column
  let temps := (List.range nTemps).map fun t =>
    match s.temps t with | some x => "h" ++ toString x.cur.1 ++ "/" ++ showRows x.cur.2 | none => "-"
  let held := (List.range nFiles).filter (fun p => locked s p && (s.disk p).isSome)
  let locks := if held.isEmpty then "-" else String.intercalate "," (held.map toString)
  "disk:" ++ String.intercalate ";" files ++ "#L:" ++ locks ++ "|temps:" ++ String.intercalate ";" temps

def showOut : Out Tbl → String
  | .rows c => "rows:" ++ showRows c.2
  | .ok => "ok"
  | .failed => "failed"

def onRows (f : List Int → Option (List Int)) : Tbl → Option Tbl := fun c => (f c.2).map (fun r => (c.1, r))

/-- the data-changing statements the harness generates -/
def dmlFn (kind : String) (arg : Int) : Tbl → Option Tbl :=
  match kind with
  | "append" => onRows fun c => some (c ++ [arg])
  | "delwhere" => onRows fun c => some (c.filter (· ≠ arg))
  | "incr" => onRows fun c => some (c.map (· + 1))
  | "fail" => onRows fun c => if c.isEmpty then some c else none     -- UPDATE … SET v = 1 / (v - v)
  | "incrfail" => onRows fun c => if c.contains arg then none else some (c.map (· + 1))   -- fails part-way
  -- ALTER TABLE … SET LINE_BREAK TO LF|CRLF|CR (setting the current value is accepted with a notice)
  | "setlb" => fun c => some (arg.toNat % 2, c.2)
  -- ALTER TABLE tt RENAME h<arg> TO h<1-arg> (temporary tables): fails unless the column is called h<arg> now
  | "renhdr" => fun c => if c.1 = arg.toNat % 2 then some (1 - arg.toNat % 2, c.2) else none
  | _ => fun _ => none

def c01stepCore (s : State Tbl) (cmd : String) (args : List String) : State Tbl × String :=
  let bad := (s, "bad-op")
  let run := fun (op : Op Tbl) => let r := step s op; (r.1, showOut r.2 ++ "|" ++ showState r.1)
  match cmd, args with
  | "reset", fs =>
    match fs.mapM (fun f => if f = "-" then some none else (parseTbl f).map some) with
    | some l => let s' := fresh (fun p => (l[p]?).join); (s', showState s')
    | none => bad
  | "select", [p] => match p.toNat? with | some p => run (.select p) | none => bad
  | "selectfu", [p] => match p.toNat? with | some p => run (.selectForUpdate p) | none => bad
  | "dml", [p, k, a] => match p.toNat?, a.toInt? with | some p, some a => run (.dml p (dmlFn k a)) | _, _ => bad
  | "selectfu2", [p, q, form] =>
    -- SELECT v FROM p UNION|EXCEPT|INTERSECT SELECT v FROM q FOR UPDATE: both tables loaded for update, p first
    match p.toNat?, q.toNat? with
    | some p, some q =>
      match load s p true with
      | none => (s, showOut (Out.failed : Out Tbl) ++ "|" ++ showState s)
      | some (s1, cp) =>
        match load s1 q true with
        | none => (s1, showOut (Out.failed : Out Tbl) ++ "|" ++ showState s1)
        | some (s2, cq) =>
          let rows : Option (List Int) :=
            if form = "union" then some (cp.2 ++ cq.2).eraseDups
            else if form = "except" then some (cp.2.eraseDups.filter (fun x => !cq.2.contains x))
            else if form = "intersect" then some (cp.2.eraseDups.filter (fun x => cq.2.contains x))
            else none
          match rows with
          | some rows => (s2, showOut (Out.rows ((0, rows) : Tbl)) ++ "|" ++ showState s2)
          | none => bad
    | _, _ => bad
  | "selectfu2", [p, q] =>
    -- SELECT a.v FROM p a JOIN q b ON a.v = b.v FOR UPDATE: both tables are loaded for update, p first
    match p.toNat?, q.toNat? with
    | some p, some q =>
      match load s p true with
      | none => (s, showOut (Out.failed : Out Tbl) ++ "|" ++ showState s)
      | some (s1, cp) =>
        match load s1 q true with
        | none => (s1, showOut (Out.failed : Out Tbl) ++ "|" ++ showState s1)
        | some (s2, cq) =>
          let rows := cp.2.flatMap (fun x => (cq.2.filter (· = x)).map (fun _ => x))
          (s2, showOut (Out.rows ((0, rows) : Tbl)) ++ "|" ++ showState s2)
    | _, _ => bad
  | "deljoin", [p, q, a] =>
    -- DELETE a, b FROM p a LEFT JOIN q b ON a.v = b.v WHERE a.v = k: both files are taken for update (p first);
    -- rows k leave p, and — when p had such a row — the rows k of q.  Composed from the model's own `dml` steps.
    match p.toNat?, q.toNat?, a.toInt? with
    | some p, some q, some k =>
      match load s p true with
      | none => (s, showOut (Out.failed : Out Tbl) ++ "|" ++ showState s)
      | some (s1, cp) =>
        match load s1 q true with
        | none => (s1, showOut (Out.failed : Out Tbl) ++ "|" ++ showState s1)
        | some (_, _) =>
          let has := cp.2.contains k
          let s2 := (step s1 (.dml p (dmlFn "delwhere" k))).1
          let r := step s2 (.dml q (if has then dmlFn "delwhere" k else some))
          (r.1, showOut r.2 ++ "|" ++ showState r.1)
    | _, _, _ => bad
  | "createifne", [p] =>
    -- CREATE TABLE IF NOT EXISTS: a new table like CREATE TABLE; an existing one is only read (as by SELECT)
    match p.toNat? with
    | some p =>
      if (s.disk p).isSome || (s.cache p).isSome then
        let r := step s (.select p)
        (r.1, (match r.2 with | .failed => "failed" | _ => "ok") ++ "|" ++ showState r.1)
      else run (.create p (0, []))
    | none => bad
  | "create", [p] => match p.toNat? with | some p => run (.create p (0, [])) | none => bad
  | "dstdin", [c] =>
    -- data piped in at the start of the run: the STDIN table exists from now on, its restore point is the data
    match parseRows c with
    | some r => run (.declareTemp 2 (0, r))
    | none => bad
  | "dtemp", [t] => match t.toNat? with | some t => run (.declareTemp t (0, [])) | none => bad
  | "dmltemp", [t, k, a] => match t.toNat?, a.toInt? with | some t, some a => run (.dmlTemp t (dmlFn k a)) | _, _ => bad
  -- the format CREATE TABLE gives a new file of that name / the format a load of that file assumes (Model/CreateTable)
  | "createfmt", [h] =>
    match unhexChars h with
    | some cs => (s, (CreateTable.createFormat cs).name)
    | none => bad
  | "loadfmt", [h, d] =>
    match unhexChars h, CreateTable.Format.ofName d with
    | some cs, some dflt => (s, (CreateTable.loadFormat cs dflt).name)
    | _, _ => bad
  -- SET @@<output flag> TO …  /  the flag on the command line: what is printed changes, the transaction state does not
  -- (Props/C01Flags: `output_flags_never_change_state`)
  | "setflag", [_, _] => (s, "ok|" ++ showState s)
  | "commit", [] => run .commit
  | "rollback", [] => run .rollback
  | "other", [p, c] => match p.toNat?, parseTbl c with | some p, some c => run (.other p c) | _, _ => bad
  | "end", [how] =>
    let e : Option Ending := match how with
      | "normal" => some .normal | "error" => some .error | "exit" => some .exit | "interrupt" => some .interrupt | _ => none
    match e with
    | some e => let s' := finish s e; (s', showState s')
    | none => bad
  | _, _ => bad

def c01step (s : State Tbl) (cmd : String) (args : List String) : State Tbl × String :=
  -- `q…` commands (process-level replays): same step, no intermediate observation
  if cmd.startsWith "q" ∧ cmd ≠ "qend" then
    let r := c01stepCore s (cmd.drop 1).toString args
    (r.1, "-")
  else if cmd = "qend" then
    let r := c01stepCore s "end" args
    (r.1, (r.2.splitOn "|").headD "")
  else c01stepCore s cmd args

partial def c01loop (h out : IO.FS.Stream) (s : State Tbl) : IO Unit := do
  let line ← h.getLine
  if line.isEmpty then return ()
  let l := (line.dropEndWhile (fun c => c = '\n' || c = '\r')).toString
  let (s', res) := match l.splitOn " " with
    | [] => (s, "bad-op")
    | head :: args =>
      match head.splitOn "." with
      | [_, cmd] => c01step s cmd args
      | _ => (s, "bad-op")
  out.putStrLn res
  c01loop h out s'

def c01main : IO Unit := do
  let out ← IO.getStdout
  c01loop (← IO.getStdin) out (fresh fun _ => none)
  out.flush

end Csvq.Drive
