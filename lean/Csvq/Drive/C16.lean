/-
  Driver for the C16 correspondence stream: a STATEFUL loop (the cursor map of the current history is
  carried from line to line).  Rows are opaque tokens.

    c16.reset                         start a new history (empty scope)            → ok
    c16.declare N | dispose N | close N                                            → ok | E<code>
    c16.open N k row_1 … row_k        rows = result of the cursor's query now     → ok | E<code>
    c16.fetch N next|prior|first|last | abs n | rel n                              → row <tok> | none | E<code>
    c16.openfail N E<code>            OPEN when the query's source is gone (`stepOpenFailing`) → E11002 | E11004 | E<code>
    c16.fetchinto N k pos…           FETCH pos N INTO k variables (`stepFetchInto`; a row token `a,b` has 2 columns)
    c16.whileinto N k                WHILE v1..vk IN N (`stepWhileInto`)            → rows <n> tok… | E<code>
    c16.agg P k v1..vk ;; stmt , …   one call of an aggregate over the values, pseudo cursor P (`aggRun`) → trace
    c16.fetchbad N                    position number is not an integer            → E11008
    c16.isopen N [not] | inrange N [not]   CURSOR N IS [NOT] OPEN / IN RANGE (`cursorStatus`) → T | F | U | E<code>
    c16.count N                       → I<n> | E<code>
    c16.while N k|-                   WHILE IN, BREAK in the k-th iteration        → rows <n> tok… | E<code>
    c16.dml                           a data-changing statement                    → ok
    c16.loop N fuel item ; item ; …   WHILE … IN N with a body; item = a statement as above without the
                                      `c16.` prefix, or `{ g stmt , stmt , … }` (child block: g = k runs in
                                      iteration k only — IF @n = k —, g = * always — IF TRUE / function call)
                                      → trace `res | res | …` (row handed to the body, results of the body's
                                        statements, …, final none / E<code>)
    c16.nest N fuel pre , … ;; item ; … ;; post , …   IF TRUE THEN pre…; WHILE … IN N … END WHILE; post… END IF → trace
    c16.block stmt , stmt , …         IF TRUE THEN … END IF at top level            → trace
    c16.block2 pre , … ;; inner , … ;; post , …   outer block { pre…; inner block { inner… }; post… } at top level (`runNested`) → trace
    c16.openre N reps k row_1 … row_k ;; stmt , …   OPEN N whose query (result: the rows) calls, reps times, a function
                                      with these statements (`openRe`: N is still closed meanwhile)   → trace
    c16.conc L W                      W clients FETCH NEXT a fresh cursor of L rows until each has seen "no row"
                                      (`runSched` over a round-robin schedule)      → handed h twice a never b foreign 0 none c end p
    c16.concq L M                     M FETCH NEXT steps by 8 clients in turn on a fresh cursor of L rows   → the same tally
    c16.prog cond ;; id=row … ;; prog  a program around OPENs of cursors FOR a prepared statement `SELECT … FROM t WHERE cond`
                                      (`CursorStmt.runP`, started with NO surrounding frame); cond in prefix form: gt H | lt H |
                                      gtc n | and C C, H = ?k | :name; the rows of t now with their ids; prog: items
                                      `O N v[@name] … ;` (OPEN N [USING v [AS name], …]; v = n | ?k | :name | ?k+n | :name+n) | `A stmt ;` (a statement as above) |
                                      `X v[@name] … { prog }` (EXECUTE p USING …, p's statements in braces) |
                                      `F { prog }` (a statement calling a function with this body) | `S { prog }` (SOURCE)
                                      → trace `res | res | …` up to and including the first error (E13803: replace value not specified)
-/
import Csvq.Model.Cursor
import Csvq.Model.CursorStmt
namespace Csvq.Drive
open Csvq Csvq.Cursor

def showRes : Res String → String
  | .ok => "ok"
  | .err e => "E" ++ toString e.code
  | .row r => "row " ++ r
  | .none => "none"
  | .tern t => t.toStr
  | .int n => "I" ++ toString n
  | .rows l => String.intercalate " " ("rows" :: toString l.length :: l)

/-- the negated spelling of a status expression: `cursorStatus true` -/
def negStatus : Res String → Res String
  | .tern t => match cursorStatus true (.ok t) with | .ok t' => .tern t' | .error e => .err e
  | r => r

def parsePos : List String → Option Pos
  | ["next"] => some .next
  | ["prior"] => some .prior
  | ["first"] => some .first
  | ["last"] => some .last
  | ["abs", n] => n.toInt?.map .absolute
  | ["rel", n] => n.toInt?.map .relative
  | _ => none

def parseC16 (cmd : String) (args : List String) : Option (Op String) :=
  match cmd, args with
  | "declare", [n] => some (.declare n)
  | "dispose", [n] => some (.dispose n)
  | "close", [n] => some (.close n)
  | "open", n :: k :: rows => if k.toNat? = some rows.length then some (.open n rows) else none
  | "fetch", n :: pos => (parsePos pos).map (.fetch n)
  | "fetchbad", [n] => some (.fetchBad n)
  | "isopen", [n] => some (.isOpen n)
  | "isopen", [n, "not"] => some (.isOpen n)
  | "inrange", [n, "not"] => some (.isInRange n)
  | "inrange", [n] => some (.isInRange n)
  | "count", [n] => some (.count n)
  | "while", [n, "-"] => some (.whileIn n none)
  | "while", [n, k] => k.toNat?.map fun k => .whileIn n (some k)
  | "dml", [] => some .dml
  | _, _ => none

def splitBy (sep : String) (l : List String) : List (List String) :=
  let r := l.foldl (fun (acc : List (List String) × List String) t =>
    if t = sep then (acc.2.reverse :: acc.1, []) else (acc.1, t :: acc.2)) ([], [])
  (r.2.reverse :: r.1).reverse

def parseStmt : List String → Option (Op String)
  | cmd :: args => parseC16 cmd args
  | [] => none

def parseItem (toks : List String) : Option (Item String) :=
  match toks with
  | "{" :: g :: rest =>
    match rest.reverse with
    | "}" :: innerRev =>
      let groups := (splitBy "," innerRev.reverse).filter (fun x => !x.isEmpty)
      match groups.mapM parseStmt with
      | some ops =>
        if g = "*" then some (.sub none ops) else g.toNat?.map fun k => .sub (some k) ops
      | none => none
    | _ => none
  | _ => (parseStmt toks).map .act

def showTrace (rs : List (Res String)) (ended : Bool) : String :=
  String.intercalate " | " (rs.map showRes ++ (if ended then [] else ["FUEL"]))

/-- the structured commands: new top-level scope and the answer line -/
def structured (s : Scope String) (cmd : String) (args0 : List String) : Option (Scope String × String) :=
  let args := args0.filter (fun t => t ≠ "")
  match cmd, args with
  | "loop", name :: fuel :: rest =>
    match fuel.toNat?, ((splitBy ";" rest).filter (fun x => !x.isEmpty)).mapM parseItem with
    | some fuel, some body =>
      let r := loopS fuel 1 name body [s]
      some (r.1.headD [], showTrace r.2.1 r.2.2)
    | _, _ => none
  | "nest", name :: fuel :: rest =>
    match splitBy ";;" rest with
    | [pre, items, post] =>
      match fuel.toNat?, ((splitBy "," pre).filter (fun x => !x.isEmpty)).mapM parseStmt,
          ((splitBy ";" items).filter (fun x => !x.isEmpty)).mapM parseItem,
          ((splitBy "," post).filter (fun x => !x.isEmpty)).mapM parseStmt with
      | some fuel, some pre, some body, some post =>
        let r := nestS fuel pre name body post [s]
        some (r.1.headD [], showTrace r.2.1 r.2.2)
      | _, _, _, _ => none
    | _ => none
  | "block2", rest =>
    match splitBy ";;" rest with
    | [pre, inner, post] =>
      match ((splitBy "," pre).filter (fun x => !x.isEmpty)).mapM parseStmt,
          ((splitBy "," inner).filter (fun x => !x.isEmpty)).mapM parseStmt,
          ((splitBy "," post).filter (fun x => !x.isEmpty)).mapM parseStmt with
      | some pre, some inner, some post =>
        let r := runNested [s] pre inner post
        some (r.1.headD [], showTrace r.2.1 true)
      | _, _, _ => none
    | _ => none
  | "block", rest =>
    match ((splitBy "," rest).filter (fun x => !x.isEmpty)).mapM parseStmt with
    | some ops =>
      let r := runItem 0 [s] (.sub none ops)
      some (r.1.headD [], showTrace r.2.1 true)
    | none => none
  | _, _ => none

def width (tok : String) : Nat := (tok.splitOn ",").length

/-- commands on the variable count and the aggregates -/
def extra (s : Scope String) (cmd : String) (args : List String) : Option (Scope String × String) :=
  match cmd, args with
  | "fetchinto", n :: k :: pos =>
    match k.toNat?, parsePos pos with
    | some k, some p => let r := stepFetchInto width s n p k; some (r.1, showRes r.2)
    | _, _ => none
  | "whileinto", [n, k] =>
    match k.toNat? with
    | some k => let r := stepWhileInto width s n k; some (r.1, showRes r.2)
    | none => none
  | "agg", pname :: k :: rest =>
    match k.toNat?, splitBy ";;" rest with
    | some k, [vals, stmts] =>
      if vals.length ≠ k then none else
      match ((splitBy "," stmts).filter (fun x => !x.isEmpty)).mapM parseStmt with
      | some ops => let r := aggRun pname vals ops s; some (r.1, showTrace r.2.1 true)
      | none => none
    | _, _ => none
  | _, _ => none

/-- tally of a schedule on a fresh cursor over the rows 0 … L−1 -/
def concTally (l : Nat) (sched : List Nat) : String :=
  let r := runSched (CState.opened (List.range l) (-1) false) sched
  let counts := (handedOut r.2).foldl (fun (a : Array Nat) i => if i < a.size then a.set! i (a[i]! + 1) else a) (Array.replicate l 0)
  let handed := (handedOut r.2).length
  let twice := counts.foldl (fun n c => if c > 1 then n + 1 else n) 0
  let never := counts.foldl (fun n c => if c = 0 then n + 1 else n) 0
  let foreign := ((handedOut r.2).filter (fun i => l ≤ i)).length
  let none := (r.2.filter (fun e => e.2.isNone)).length
  let endp := match r.1 with | .opened _ i _ => toString i | .closed => "closed"
  s!"handed {handed} twice {twice} never {never} foreign {foreign} none {none} end {endp}"

def conc (cmd : String) (args : List String) : Option String :=
  match cmd, args.map String.toNat? with
  | "conc", [some l, some w] =>
    -- every client fetches until it has seen "no row": l + w steps, the clients in turn
    some (concTally l ((List.range (l + w)).map (· % (max w 1))))
  | "concq", [some l, some m] => some (concTally l ((List.range m).map (· % 8)))
  | _, _ => none

/-- OPEN with a function called by the cursor's query -/
def openReCmd (s : Scope String) (args : List String) : Option (Scope String × String) :=
  match args with
  | n :: reps :: k :: rest =>
    match reps.toNat?, k.toNat?, splitBy ";;" rest with
    | some reps, some k, [rows, stmts] =>
      if rows.length ≠ k then none else
      match ((splitBy "," stmts).filter (fun x => !x.isEmpty)).mapM parseStmt with
      | some body => let r := openRe [s] n rows reps body; some (r.1.headD [], showTrace r.2.1 true)
      | none => none
    | _, _, _ => none
  | _ => none

/-! cursors FOR a prepared statement: `c16.prog` -/

open Csvq.CursorStmt in
def parseHolder (t : String) : Option Holder :=
  match t.toList with
  | '?' :: r => (String.ofList r).toNat?.map Holder.pos
  | ':' :: r => some (Holder.named (String.ofList r))
  | _ => none

open Csvq.CursorStmt in
partial def parseCond : List String → Option (Cond × List String)
  | "gt" :: h :: rest => (parseHolder h).map fun h => (Cond.gtH h, rest)
  | "lt" :: h :: rest => (parseHolder h).map fun h => (Cond.ltH h, rest)
  | "gtc" :: n :: rest => n.toInt?.map fun n => (Cond.gtC n, rest)
  | "and" :: rest =>
    match parseCond rest with
    | some (a, r1) =>
      match parseCond r1 with
      | some (b, r2) => some (Cond.and a b, r2)
      | none => none
    | none => none
  | _ => none

open Csvq.CursorStmt in
/-- a USING item: `5`, `?1`, `:lo`, `?1+3`, `:lo+3` -/
def parseVExpr (t : String) : Option VExpr :=
  let atom (a : String) : Option VExpr :=
    match parseHolder a with
    | some h => some (VExpr.ph h)
    | none => a.toInt?.map VExpr.lit
  match t.splitOn "+" with
  | [a] => atom a
  | [a, k] =>
    match atom a, k.toInt? with
    | some e, some k => some (VExpr.plus e k)
    | _, _ => none
  | _ => none

open Csvq.CursorStmt in
def parseRV (t : String) : Option RV :=
  match t.splitOn "@" with
  | [v] => (parseVExpr v).map fun v => ⟨v, ""⟩
  | [v, n] => (parseVExpr v).map fun v => ⟨v, n⟩
  | _ => none

open Csvq.CursorStmt in
def parseRow (t : String) : Option Row :=
  match t.splitOn "=" with
  | [i, tok] => i.toInt?.map fun i => (i, tok)
  | _ => none

open Csvq.CursorStmt in
partial def parseProg (c : Cond) : List String → Option (Prog × List String)
  | [] => some (Prog.done, [])
  | "}" :: rest => some (Prog.done, "}" :: rest)
  | "O" :: n :: rest =>
    match (rest.takeWhile (· ≠ ";")).mapM parseRV, parseProg c ((rest.dropWhile (· ≠ ";")).drop 1) with
    | some us, some (p, r) => some (Prog.openC n c us p, r)
    | _, _ => none
  | "A" :: rest =>
    match parseStmt (rest.takeWhile (· ≠ ";")), parseProg c ((rest.dropWhile (· ≠ ";")).drop 1) with
    | some o, some (p, r) => some (Prog.act o p, r)
    | _, _ => none
  | k :: rest =>
    if k = "X" || k = "F" || k = "S" then
      match (rest.takeWhile (· ≠ "{")).mapM parseRV, parseProg c ((rest.dropWhile (· ≠ "{")).drop 1) with
      | some us, some (body, "}" :: r1) =>
        match parseProg c r1 with
        | some (p, r) =>
          if k = "X" then some (Prog.exec us body p, r)
          else if !us.isEmpty then none
          else if k = "F" then some (Prog.call body p, r) else some (Prog.source body p, r)
        | none => none
      | _, _ => none
    else none

open Csvq.CursorStmt in
def showORes : ORes → String
  | .res r => showRes r
  | .notSpecified => "E13803"

open Csvq.CursorStmt in
def progCmd (s : Scope String) (args : List String) : Option (Scope String × String) :=
  match splitBy ";;" args with
  | [cond, rows, prog] =>
    match parseCond cond, rows.mapM parseRow, (fun c => parseProg c prog) <$> (parseCond cond).map (·.1) with
    | some (_, []), some table, some (some (p, [])) =>
      let r := runP table Ctx.empty [s] p
      some (r.1.headD [], String.intercalate " | " (r.2.1.map showORes))
    | _, _, _ => none
  | _ => none

partial def c16Loop (h out : IO.FS.Stream) (s : Scope String) : IO Unit := do
  let line ← h.getLine
  if line.isEmpty then return ()
  let l := (line.dropEndWhile (fun c => c = '\n' || c = '\r')).toString
  match l.splitOn " " with
  | head :: args =>
    match head.splitOn "." with
    | [_, "reset"] =>
      out.putStrLn "ok"
      c16Loop h out []
    | [_, cmd] =>
      if cmd = "conc" || cmd = "concq" then
        out.putStrLn ((conc cmd (args.filter (fun t => t ≠ ""))).getD "bad-op")
        c16Loop h out s
      else
      if cmd = "prog" then
        match progCmd s (args.filter (fun t => t ≠ "")) with
        | some (s', line) =>
          out.putStrLn line
          c16Loop h out s'
        | none =>
          out.putStrLn "bad-op"
          c16Loop h out s
      else
      if cmd = "openre" then
        match openReCmd s (args.filter (fun t => t ≠ "")) with
        | some (s', line) =>
          out.putStrLn line
          c16Loop h out s'
        | none =>
          out.putStrLn "bad-op"
          c16Loop h out s
      else
      if cmd = "fetchinto" || cmd = "whileinto" || cmd = "agg" then
        match extra s cmd (args.filter (fun t => t ≠ "")) with
        | some (s', line) =>
          out.putStrLn line
          c16Loop h out s'
        | none =>
          out.putStrLn "bad-op"
          c16Loop h out s
      else
      if cmd = "openfail" then
        match args with
        | [n, code] =>
          out.putStrLn (match stepOpenFailing s n with | some e => "E" ++ toString e.code | none => code)
          c16Loop h out s
        | _ =>
          out.putStrLn "bad-op"
          c16Loop h out s
      else
      if cmd = "loop" || cmd = "block" || cmd = "nest" || cmd = "block2" then
        match structured s cmd args with
        | some (s', line) =>
          out.putStrLn line
          c16Loop h out s'
        | none =>
          out.putStrLn "bad-op"
          c16Loop h out s
      else
      match parseC16 cmd args with
      | some op =>
        let r := step s op
        let res := if args.getLast? = some "not" && (cmd = "isopen" || cmd = "inrange") then negStatus r.2 else r.2
        out.putStrLn (showRes res)
        c16Loop h out r.1
      | none =>
        out.putStrLn "bad-op"
        c16Loop h out s
    | _ =>
      out.putStrLn "bad-op"
      c16Loop h out s
  | [] =>
    out.putStrLn "bad-op"
    c16Loop h out s

def runC16 : IO Unit := do
  let out ← IO.getStdout
  c16Loop (← IO.getStdin) out []
  out.flush

end Csvq.Drive
