/-
  Driver for the C16 correspondence stream: a STATEFUL loop (the cursor map of the current history is
  carried from line to line).  Rows are opaque tokens.

    c16.reset                         start a new history (empty scope)            → ok
    c16.declare N | dispose N | close N                                            → ok | E<code>
    c16.open N k row_1 … row_k        rows = result of the cursor's query now     → ok | E<code>
    c16.fetch N next|prior|first|last | abs n | rel n                              → row <tok> | none | E<code>
    c16.fetchbad N                    position number is not an integer            → E11008
    c16.isopen N | inrange N          → T | F | U | E<code>
    c16.count N                       → I<n> | E<code>
    c16.while N k|-                   WHILE IN, BREAK in the k-th iteration        → rows <n> tok… | E<code>
    c16.dml                           a data-changing statement                    → ok
-/
import Csvq.Model.Cursor
namespace Csvq.Drive
open Csvq Csvq.Cursor

def showRes : Res String → String
  | .ok => "ok"
  | .err e => "E" ++ toString e.code
  | .row r => "row " ++ r
  | .none => "none"
  | .tern t => t.toStr
  | .int n => "I" ++ toString n
  | .rows l => String.intercalate " " ("rows" :: toString l.length :: l)

def parsePos : List String → Option Pos
  | ["next"] => some .next
  | ["prior"] => some .prior
  | ["first"] => some .first
  | ["last"] => some .last
  | ["abs", n] => n.toInt?.map .absolute
  | ["rel", n] => n.toInt?.map .relative
  | _ => none

def parseC16 (cmd : String) (args : List String) : Option (Op String) :=
  match cmd, args with
  | "declare", [n] => some (.declare n)
  | "dispose", [n] => some (.dispose n)
  | "close", [n] => some (.close n)
  | "open", n :: k :: rows => if k.toNat? = some rows.length then some (.open n rows) else none
  | "fetch", n :: pos => (parsePos pos).map (.fetch n)
  | "fetchbad", [n] => some (.fetchBad n)
  | "isopen", [n] => some (.isOpen n)
  | "inrange", [n] => some (.isInRange n)
  | "count", [n] => some (.count n)
  | "while", [n, "-"] => some (.whileIn n none)
  | "while", [n, k] => k.toNat?.map fun k => .whileIn n (some k)
  | "dml", [] => some .dml
  | _, _ => none

partial def c16Loop (h out : IO.FS.Stream) (s : Scope String) : IO Unit := do
  let line ← h.getLine
  if line.isEmpty then return ()
  let l := (line.dropEndWhile (fun c => c = '\n' || c = '\r')).toString
  match l.splitOn " " with
  | head :: args =>
    match head.splitOn "." with
    | [_, "reset"] =>
      out.putStrLn "ok"
      c16Loop h out []
    | [_, cmd] =>
      match parseC16 cmd args with
      | some op =>
        let r := step s op
        out.putStrLn (showRes r.2)
        c16Loop h out r.1
      | none =>
        out.putStrLn "bad-op"
        c16Loop h out s
    | _ =>
      out.putStrLn "bad-op"
      c16Loop h out s
  | [] =>
    out.putStrLn "bad-op"
    c16Loop h out s

def runC16 : IO Unit := do
  let out ← IO.getStdout
  c16Loop (← IO.getStdin) out []
  out.flush

end Csvq.Drive
