/- Driver handlers for the C02 correspondence streams (part of the trusted tie, not of the proofs).

   c02.enc csv   <delim> <LF|CRLF|CR> <encloseAll> <withoutHeader> <quoteLB> <ncols> <nrows> <hdr…> <cells…>
   c02.dec csv   <delim> <noHeader> <withoutNull> <allowUneven> <hex>
   c02.enc ltsv  <LF|CRLF|CR> <ncols> <nrows> <hdr…> <cells…>
   c02.dec ltsv  <withoutNull> <hex>
   c02.enc fixed <LF|CRLF|CR> <withoutHeader> <ncols> <nrows> <hdr…> <cells…>       (automatic positions)
   c02.encp fixed <LF|CRLF|CR> <withoutHeader> <npos> <pos…> <ncols> <nrows> <hdr…> <cells…>
   c02.dec fixed <noHeader> <withoutNull> <npos> <pos…> <hex>                       (explicit positions)
   c02.encs fixed <withoutHeader> <strip> <LF|CRLF|CR> <npos> <pos…> <ncols> <nrows> <hdr…> <cells…>   SINGLE-LINE file (`S[…]`),
                                                 as EncodeView writes it and as COMMIT / --out leave it (no ending line break)
   c02.decs fixed <withoutNull> <npos> <pos…> <hex>                                 the loader on a single-line file
   c02.fpos <noHeader> <hex>                     fixed-length, the automatic delimiter positions: `P p1 p2 …`
   c02.deca fixed <noHeader> <withoutNull> <hex>                                    (automatic positions)
   c02.tenc <ENCODING> <hex of the UTF-8 text>   the bytes the transform writer produces (hex)
   c02.tdec <ENCODING> <hex bytes>               the text the transform decoder produces (hex of its UTF-8) | E
   c02.jesc <0|1|2> <hex>                        JSON string escape (Backslash / HexDigits / AllWithHexDigits)
   c02.junesc <hex>                              JSON string unescape
   c02.jenc json|jsonl <esc> <pretty> <LF|CRLF|CR> <nprof> <lit=canon…> <ncols> <nrows> <hdr…> <cells…>
   c02.jdec json|jsonl <nprof> <lit=canon…> <hex>
       number profile: hex(literal)=hex(FormatFloat(ParseFloat literal)) or hex(literal)=! (ParseFloat fails) — recomputed by
       the model (modelCanon = FF.fmtF ∘ PF.parseFloat); the supplied pairs are only compared with it
       JSON cells: N | S<hex> | I<hex decimal text> | F<hex decimal text> | X (NaN/Inf) | B0 B1 | T0 T1 TU | D<hex>
   c02.jspell <ncols> <hdr…>                     column names as JSON paths: `spell` (no name is a prefix path of another, no
                                                 empty segment: the writers must carry them) | `refuse` (they must not write)
   c02.jlb <hex bytes>                           the line break of a JSON / JSON Lines file: LF | CRLF | CR | -
   c02.jsload json|jsonq <value>                 the structure mapping of the JSON loader (Csvq.Model.JsonStruct): LoadTable with the
                                                 empty query / the query `{}` on a decoded value; `-` alone = no value (empty text)
   c02.jslines <nlines> <line>…                  … of the JSON Lines loader; a line is `b` (blank) | `x<hex text>` (raw text: the
                                                 model scans and parses it) | a value
   c02.jswrite <ncols> <nrows> <hdr…> <cells…>   ConvertTableValueToJsonStructure: the array of nested objects as a value | E
   c02.jsrt <ncols> <nrows> <hdr…> <cells…>      load(structure(table)): `<JSON table> || <JSON Lines table>` | E (refused)
       a JSON value in prefix form: `n` | `t` | `f` | `s<hex>` | `d<hex number literal>` | `a<k>` item… | `o<k>` (`k<hex>` value)…
   c02.nop                                                                          (law-only case)

   delim = code point (decimal); booleans 0/1; text = hex of UTF-8; header tokens `S<hex>`;
   cell tokens `N` | `S<hex>` (String/Datetime) | `R<hex>` (number/boolean text), fixed-length cells
   carry the alignment `L|C|R` in front.  Answers: `E` (error) or hex of the UTF-8 bytes (enc);
   `E` or `T <ncols> <nrows> <detected line break> | h… | c… | c… …` (dec). -/
import Csvq.Model.Proto
import Csvq.Model.FormatFloat
import Csvq.Model.Csv
import Csvq.Model.Ltsv
import Csvq.Model.Fixed
import Csvq.Model.FixedAuto
import Csvq.Model.Json
import Csvq.Model.JsonPath
import Csvq.Model.JsonStruct
import Csvq.Model.Encoding
namespace Csvq.Drive
open Csvq Csvq.Proto

namespace C02

def toByteArray (b : Bytes) : ByteArray := ByteArray.mk (b.map (fun n => UInt8.ofNat n)).toArray

/-- hex of UTF-8 → characters (none if not hex or not valid UTF-8) -/
def unhexText (s : String) : Option (List Char) :=
  if s = "-" then some [] else
  match unhex s with
  | none => none
  | some b => (String.fromUTF8? (toByteArray b)).map (·.toList)

def hexText (cs : List Char) : String :=
  hex ((String.ofList cs).toUTF8.toList.map (·.toNat))

/-- the whole output of a writer: never the empty token -/
def hexOut (cs : List Char) : String := if cs.isEmpty then "-" else hexText cs

def parseLB (s : String) : Option Csv.LB :=
  if s = "LF" then some .lf else if s = "CRLF" then some .crlf else if s = "CR" then some .cr else none

def showLB : Option Csv.LB → String
  | none => "-" | some .lf => "LF" | some .crlf => "CRLF" | some .cr => "CR"

def parseDelim (s : String) : Option Char := s.toNat?.map Char.ofNat

def parseHdr (s : String) : Option (List Char) :=
  if s.front = 'S' then unhexText (s.drop 1).toString else none

def parseCell (s : String) : Option Csv.Cell :=
  if s = "N" then some .null
  else if s.front = 'S' then (unhexText (s.drop 1).toString).map .str
  else if s.front = 'R' then (unhexText (s.drop 1).toString).map .raw
  else none

def chunk {α} (n : Nat) (l : List α) (fuel : Nat) : List (List α) :=
  match fuel with
  | 0 => []
  | fuel + 1 => if l.isEmpty ∨ n = 0 then [] else l.take n :: chunk n (l.drop n) fuel

/-- `<ncols> <nrows> <hdr…> <cells…>` -/
def parseTable {γ} (pc : String → Option γ) (l : List String) : Option (List (List Char) × List (List γ)) :=
  match l with
  | nc :: nr :: rest =>
    match nc.toNat?, nr.toNat? with
    | some nc, some nr =>
      if rest.length ≠ nc + nc * nr then none
      else
        match (rest.take nc).mapM parseHdr, (rest.drop nc).mapM pc with
        | some h, some cs =>
          some (h, if nc = 0 then List.replicate nr [] else chunk nc cs (nr + 1))
        | _, _ => none
    | _, _ => none
  | _ => none

def showDCell : Csv.DCell → String
  | none => "N"
  | some s => "S" ++ hexText s

def showDTable (dlb : Option Csv.LB) (t : Csv.DTable) : String :=
  let h := String.intercalate " " (t.header.map fun s => "S" ++ hexText s)
  let rows := t.rows.map fun r => String.intercalate " " (r.map showDCell)
  String.intercalate " | " (("T " ++ toString t.header.length ++ " " ++ toString t.rows.length ++ " " ++ showLB dlb) :: h :: rows)

def encCsv (args : List String) : String :=
  match args with
  | d :: lb :: ea :: wh :: ql :: tbl =>
    match parseDelim d, parseLB lb, parseBool ea, parseBool wh, parseBool ql, parseTable parseCell tbl with
    | some d, some lb, some ea, some wh, some ql, some (h, rows) =>
      let o : Csv.Opts := { delim := d, lb := lb, encloseAll := ea, withoutHeader := wh, quoteLB := ql }
      match Csv.encodeCsv o ⟨h, rows⟩ with
      | .ok cs => hexOut cs
      | .error _ => "E"
    | _, _, _, _, _, _ => "bad-op"
  | _ => "bad-op"

def decCsv (args : List String) : String :=
  match args with
  | [d, nh, wn, au, hx] =>
    match parseDelim d, parseBool nh, parseBool wn, parseBool au, unhexText hx with
    | some d, some nh, some wn, some au, some inp =>
      let o : Csv.Opts := { delim := d, withoutHeader := nh, withoutNull := wn, allowUneven := au }
      match Csv.decodeCsv o inp with
      | .ok t => showDTable (Csv.detectLB o inp) t
      | .error _ => "E"
    | _, _, _, _, _ => "bad-op"
  | _ => "bad-op"

def encLtsv (args : List String) : String :=
  match args with
  | lb :: tbl =>
    match parseLB lb, parseTable parseCell tbl with
    | some lb, some (h, rows) =>
      match Ltsv.encodeLtsv { lb := lb } ⟨h, rows⟩ with
      | .ok cs => hexOut cs
      | .error _ => "E"
    | _, _ => "bad-op"
  | _ => "bad-op"

def decLtsv (args : List String) : String :=
  match args with
  | [wn, hx] =>
    match parseBool wn, unhexText hx with
    | some wn, some inp =>
      match Ltsv.decodeLtsv { withoutNull := wn } inp with
      | .ok t => showDTable (Ltsv.detectLB inp) t
      | .error _ => "E"
    | _, _ => "bad-op"
  | _ => "bad-op"

def parseFCell (s : String) : Option Fixed.Field :=
  let al : Option Fixed.Align :=
    match s.front with
    | 'L' => some .left | 'C' => some .center | 'R' => some .right | _ => none
  match al, parseCell (s.drop 1).toString with
  | some a, some c => some ⟨c.text, a⟩
  | _, _ => none

def wdUtf8 (c : Char) : Nat := c.utf8Size

/-- `<n> <p1> … <pn> rest…` -/
def parsePositions (l : List String) : Option (List Nat × List String) :=
  match l with
  | n :: rest =>
    match n.toNat? with
    | some n =>
      if rest.length < n then none
      else (rest.take n).mapM String.toNat? |>.map fun ps => (ps, rest.drop n)
    | none => none
  | [] => none

def encFixed (positions : Bool) (args : List String) : String :=
  match args with
  | lb :: wh :: rest =>
    let pr : Option (Option (List Nat) × List String) :=
      if positions then (parsePositions rest).map fun (ps, r) => (some ps, r) else some (none, rest)
    match parseLB lb, parseBool wh, pr with
    | some lb, some wh, some (ps, tbl) =>
      match parseTable parseFCell tbl with
      | some (h, rows) =>
        match Fixed.encodeFixed wdUtf8 { lb := lb, withoutHeader := wh, positions := ps } ⟨h, rows⟩ with
        | .ok cs => hexOut cs
        | .error _ => "E"
      | none => "bad-op"
    | _, _, _ => "bad-op"
  | _ => "bad-op"

def decFixed (args : List String) : String :=
  match args with
  | nh :: wn :: rest =>
    match parseBool nh, parseBool wn, parsePositions rest with
    | some nh, some wn, some (ps, [hx]) =>
      match unhexText hx with
      | some inp =>
        match Fixed.decodeFixed wdUtf8 { withoutHeader := nh, withoutNull := wn } ps inp with
        | .ok t => showDTable (Fixed.detectLB wdUtf8 ps inp) t
        | .error _ => "E"
      | none => "bad-op"
    | _, _, _ => "bad-op"
  | _ => "bad-op"

def encFixedS (args : List String) : String :=
  match args with
  | wh :: st :: lb :: rest =>
    match parseBool wh, parseBool st, parseLB lb, parsePositions rest with
    | some wh, some st, some lb, some (ps, tbl) =>
      match parseTable parseFCell tbl with
      | some (h, rows) =>
        match Fixed.fileFixedS wdUtf8 { lb := lb, withoutHeader := wh } ps st ⟨h, rows⟩ with
        | .ok cs => hexOut cs
        | .error _ => "E"
      | none => "bad-op"
    | _, _, _, _ => "bad-op"
  | _ => "bad-op"

def decFixedS (args : List String) : String :=
  match args with
  | wn :: rest =>
    match parseBool wn, parsePositions rest with
    | some wn, some (ps, [hx]) =>
      match unhexText hx with
      | some inp =>
        match Fixed.decodeFixedS wdUtf8 { withoutNull := wn } ps inp with
        | .ok t => showDTable (Fixed.detectLBS wdUtf8 ps inp) t
        | .error _ => "E"
      | none => "bad-op"
    | _, _ => "bad-op"
  | _ => "bad-op"

def fpos (args : List String) : String :=
  match args with
  | [nh, hx] =>
    match parseBool nh, unhexText hx with
    | some nh, some inp => String.intercalate " " ("P" :: (Fixed.delimit wdUtf8 nh inp).map toString)
    | _, _ => "bad-op"
  | _ => "bad-op"

def decFixedAuto (args : List String) : String :=
  match args with
  | [nh, wn, hx] =>
    match parseBool nh, parseBool wn, unhexText hx with
    | some nh, some wn, some inp =>
      let ps := Fixed.delimit wdUtf8 nh inp
      match Fixed.decodeFixed wdUtf8 { withoutHeader := nh, withoutNull := wn } ps inp with
      | .ok t => showDTable (Fixed.detectLB wdUtf8 ps inp) t
      | .error _ => "E"
    | _, _, _ => "bad-op"
  | _ => "bad-op"

def parseEncoding (s : String) : Option Enc.Encoding :=
  if s = "UTF8" then some .utf8 else if s = "UTF8M" then some .utf8m else if s = "UTF16" then some .utf16
  else if s = "UTF16BE" then some .utf16be else if s = "UTF16LE" then some .utf16le
  else if s = "UTF16BEM" then some .utf16bem else if s = "UTF16LEM" then some .utf16lem else none

def hexBytes (b : List Nat) : String := if b.isEmpty then "-" else hex b

def tenc (args : List String) : String :=
  match args with
  | [e, hx] =>
    match parseEncoding e, unhexText hx with
    | some e, some s => hexBytes (Enc.encode e s)
    | _, _ => "bad-op"
  | _ => "bad-op"

def tdec (args : List String) : String :=
  match args with
  | [e, hx] =>
    match parseEncoding e, (if hx = "-" then some [] else unhex hx) with
    | some e, some b =>
      match Enc.decode e b with
      | some s => hexBytes (Enc.encodeUtf8 s)
      | none => "E"
    | _, _ => "bad-op"
  | _ => "bad-op"

def parseEsc (s : String) : Option Json.Esc :=
  if s = "0" then some .backslash else if s = "1" then some .hex else if s = "2" then some .all else none

def parseJCell (s : String) : Option Json.JVal :=
  let rest := (s.drop 1).toString
  if s = "N" then some .null
  else if s = "X" then some .nonfinite
  else if s = "B0" then some (.bool false) else if s = "B1" then some (.bool true)
  else if s = "T0" then some (.tern (some false)) else if s = "T1" then some (.tern (some true))
  else if s = "TU" then some (.tern none)
  else match s.front with
    | 'S' => (unhexText rest).map .str
    | 'I' => (unhexText rest).map .int
    | 'F' => (unhexText rest).map .flt
    | 'D' => (unhexText rest).map .dt
    | _ => none

/-- what csvq makes of a JSON number literal when it shows or writes it again: strconv.ParseFloat, then
    strconv.FormatFloat(f, 'f', -1, 64); `none` when ParseFloat fails — by the model's own two functions -/
def modelCanon (lit : List Char) : Option (List Char) :=
  (PF.parseFloat (lit.map Char.toNat)).map fun f => (FF.fmtF f).map Char.ofNat

/-- `<n> <lit=canon>…  rest…` → the profile as a function, and the rest -/
def parseProfile (l : List String) : Option ((List Char → Option (List Char)) × List String) :=
  match l with
  | n :: rest =>
    match n.toNat? with
    | some n =>
      if rest.length < n then none
      else
        let pairs := (rest.take n).mapM fun (p : String) =>
          match p.splitOn "=" with
          | [a, b] =>
            match unhexText a with
            | some lit => if b = "!" then some (lit, none) else (unhexText b).map fun c => (lit, some c)
            | none => none
          | _ => none
        -- the canon is decided by the model: strconv.ParseFloat (Model/ParseFloat.lean) then FormatFloat 'f'
        -- (Model/FormatFloat.lean); what the Go side supplies for the literals it found is only compared with it,
        -- and a difference rejects the line
        pairs.bind fun ps =>
          if ps.all (fun p => modelCanon p.1 == p.2) then some (modelCanon, rest.drop n) else none
    | none => none
  | [] => none

def jesc (args : List String) : String :=
  match args with
  | [t, hx] =>
    match parseEsc t, unhexText hx with
    | some t, some s => hexOut (Json.escape t s)
    | _, _ => "bad-op"
  | _ => "bad-op"

def junesc (args : List String) : String :=
  match args with
  | [hx] =>
    match unhexText hx with
    | some s => hexOut (Json.unescape s)
    | none => "bad-op"
  | _ => "bad-op"

def jenc (args : List String) : String :=
  match args with
  | f :: t :: pr :: lb :: rest =>
    match parseEsc t, parseBool pr, parseLB lb, parseProfile rest with
    | some t, some pr, some lb, some (canon, tbl) =>
      match parseTable parseJCell tbl with
      | some (h, rows) =>
        -- column names are paths (`a.b`): Csvq.Model.JsonPath; `E` = refused
        let out (r : Option (List Char)) : String := match r with | some cs => hexOut cs | none => "E"
        if f = "json" then out (Json.encodeJsonP t canon (if pr then some lb else none) ⟨h, rows⟩)
        else if f = "jsonl" then out (Json.encodeJsonlP t canon lb ⟨h, rows⟩)
        else "bad-op"
      | none => "bad-op"
    | _, _, _, _ => "bad-op"
  | _ => "bad-op"

def jdec (args : List String) : String :=
  match args with
  | f :: rest =>
    match parseProfile rest with
    | some (canon, [hx]) =>
      match unhexText hx with
      | some inp =>
        let r := if f = "json" then Json.decodeJson canon inp else Json.decodeJsonl canon inp
        match r with
        | .ok t => showDTable none t
        | .error _ => "E"
      | none => "bad-op"
    | _ => "bad-op"
  | _ => "bad-op"

def jspell (args : List String) : String :=
  match args with
  | nc :: rest =>
    match nc.toNat?, rest.mapM parseHdr with
    | some nc, some names =>
      if names.length ≠ nc then "bad-op"
      else if Json.pathsSpellable names then "spell" else "refuse"
    | _, _ => "bad-op"
  | _ => "bad-op"

def jlb (args : List String) : String :=
  match args with
  | [hx] =>
    if hx = "-" then "-" else
    match unhex hx with
    | some b =>
      let r := Json.firstBreak false false b
      if r = "" then "-" else r
    | none => "bad-op"
  | _ => "bad-op"

/-! the structure mapping (Csvq.Model.JsonStruct) -/

mutual
/-- a JSON value in prefix form, and the remaining tokens -/
def parseJS : Nat → List String → Option (Json.JS × List String)
  | 0, _ => none
  | _, [] => none
  | n + 1, tok :: rest =>
    let body := (tok.drop 1).toString
    if tok = "n" then some (.null, rest)
    else if tok = "t" then some (.bool true, rest)
    else if tok = "f" then some (.bool false, rest)
    else match tok.front with
      | 's' => (unhexText body).map fun s => (.str s, rest)
      | 'd' => (unhexText body).map fun a => (.num a, rest)
      | 'a' =>
        match body.toNat? with
        | some k => (parseJSItems n k rest).map fun p => (.arr p.1, p.2)
        | none => none
      | 'o' =>
        match body.toNat? with
        | some k => (parseJSMembers n k rest).map fun p => (.obj p.1, p.2)
        | none => none
      | _ => none

def parseJSItems : Nat → Nat → List String → Option (List Json.JS × List String)
  | 0, _, _ => none
  | _ + 1, 0, rest => some ([], rest)
  | n + 1, k + 1, rest =>
    match parseJS n rest with
    | some (v, r) => (parseJSItems n k r).map fun p => (v :: p.1, p.2)
    | none => none

def parseJSMembers : Nat → Nat → List String → Option (List (List Char × Json.JS) × List String)
  | 0, _, _ => none
  | _ + 1, 0, rest => some ([], rest)
  | n + 1, k + 1, key :: rest =>
    if key.front = 'k' then
      match unhexText (key.drop 1).toString, parseJS n rest with
      | some ks, some (v, r) => (parseJSMembers n k r).map fun p => ((ks, v) :: p.1, p.2)
      | _, _ => none
    else none
  | _ + 1, _ + 1, [] => none
end

mutual
def showJS : Json.JS → List String
  | .null => ["n"]
  | .bool true => ["t"]
  | .bool false => ["f"]
  | .str s => ["s" ++ hexOut s]
  | .num a => ["d" ++ hexOut a]
  | .arr is => ("a" ++ toString is.length) :: showJSItems is
  | .obj ms => ("o" ++ toString ms.length) :: showJSMembers ms

def showJSItems : List Json.JS → List String
  | [] => []
  | x :: xs => showJS x ++ showJSItems xs

def showJSMembers : List (List Char × Json.JS) → List String
  | [] => []
  | (k, v) :: ms => ("k" ++ hexOut k) :: (showJS v ++ showJSMembers ms)
end

def showLoad : Except Csv.Err Csv.DTable → String
  | .ok t => showDTable none t
  | .error _ => "E"

def jsload (args : List String) : String :=
  match args with
  | q :: toks =>
    let v : Option (Option Json.JS) :=
      if toks = ["-"] then some none
      else match parseJS (2 * toks.length + 2) toks with
        | some (j, []) => some (some j)
        | _ => none
    match v with
    | some v =>
      if q = "json" then showLoad (Json.loadTable modelCanon v)
      else if q = "jsonq" then showLoad (Json.loadTableQ modelCanon v)
      else "bad-op"
    | none => "bad-op"
  | _ => "bad-op"

/-- the lines of a jslines op: `some (.ok v)` per line, `.error` = the raw text does not scan / parse -/
def parseJSLines : Nat → Nat → List String → Option (List (Except Csv.Err (Option Json.JS)))
  | 0, _, _ => none
  | _ + 1, 0, [] => some []
  | _ + 1, 0, _ :: _ => none
  | _ + 1, _ + 1, [] => none
  | n + 1, k + 1, tok :: rest =>
    if tok = "b" then (parseJSLines n k rest).map (.ok none :: ·)
    else if tok.front = 'x' then
      match unhexText (tok.drop 1).toString with
      | some txt => (parseJSLines n k rest).map (Json.decode modelCanon txt :: ·)
      | none => none
    else
      match parseJS (2 * rest.length + 4) (tok :: rest) with
      | some (j, r) => (parseJSLines n k r).map (.ok (some j) :: ·)
      | none => none

def jslines (args : List String) : String :=
  match args with
  | k :: toks =>
    match k.toNat? with
    | some k =>
      match parseJSLines (toks.length + 2) k toks with
      | some ls =>
        -- the reader stops at the first line that does not parse: an error wherever it stands
        match ls.mapM (fun (l : Except Csv.Err (Option Json.JS)) => match l with | .ok v => some v | .error _ => none) with
        | some vs => showLoad (Json.loadJsonLines modelCanon vs)
        | none => "E"
      | none => "bad-op"
    | none => "bad-op"
  | _ => "bad-op"

def jswrite (args : List String) : String :=
  match parseTable parseJCell args with
  | some (h, rows) =>
    match Json.tableStructure ⟨h, rows⟩ with
    | some js => String.intercalate " " (showJS (.arr js))
    | none => "E"
  | none => "bad-op"

def jsrt (args : List String) : String :=
  match parseTable parseJCell args with
  | some (h, rows) =>
    match Json.tableStructure ⟨h, rows⟩ with
    | some js => showLoad (Json.loadTable modelCanon (some (.arr js))) ++ " || " ++ showLoad (Json.loadJsonLines modelCanon (js.map some))
    | none => "E"
  | none => "bad-op"

end C02

def c02 (cmd : String) (args : List String) : String :=
  match cmd, args with
  | "enc", "csv" :: rest => C02.encCsv rest
  | "dec", "csv" :: rest => C02.decCsv rest
  | "enc", "ltsv" :: rest => C02.encLtsv rest
  | "dec", "ltsv" :: rest => C02.decLtsv rest
  | "enc", "fixed" :: rest => C02.encFixed false rest
  | "encp", "fixed" :: rest => C02.encFixed true rest
  | "dec", "fixed" :: rest => C02.decFixed rest
  | "deca", "fixed" :: rest => C02.decFixedAuto rest
  | "encs", "fixed" :: rest => C02.encFixedS rest
  | "decs", "fixed" :: rest => C02.decFixedS rest
  | "fpos", rest => C02.fpos rest
  | "tenc", rest => C02.tenc rest
  | "tdec", rest => C02.tdec rest
  | "jesc", rest => C02.jesc rest
  | "junesc", rest => C02.junesc rest
  | "jenc", rest => C02.jenc rest
  | "jdec", rest => C02.jdec rest
  | "jspell", rest => C02.jspell rest
  | "jlb", rest => C02.jlb rest
  | "jsload", rest => C02.jsload rest
  | "jslines", rest => C02.jslines rest
  | "jswrite", rest => C02.jswrite rest
  | "jsrt", rest => C02.jsrt rest
  | "nop", [] => "ok"     -- a case whose law is checked on the implementation alone
  | _, _ => "bad-op"

end Csvq.Drive
