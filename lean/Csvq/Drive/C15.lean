/-
  Driver handler for the C15 correspondence stream.

  op line:  c15.run <fuel> <program>   |   c15.runtx <fuel> <program>  (the answer ends with | commit or | nocommit)      (tokens separated by single spaces, prefix encoding)

    program := <n> stmt*n
    stmt    := D<x> expr            VAR @x := expr
             | A<x> expr            @x := expr
             | X<x>                 DISPOSE @x
             | P expr               PRINT expr
             | I <nb> (expr <n> stmt*n)*nb <ne> stmt*ne      IF / ELSEIF … / ELSE (ne = 0: no ELSE)
             | J expr <nb> (expr <n> stmt*n)*nb <ne> stmt*ne  CASE expr WHEN expr THEN … ELSE … END CASE
             | M1 | M0              EXIT 1 (forced exit) | TRIGGER ERROR
             | W expr <n> stmt*n    WHILE expr DO … END WHILE
             | E<x> <0|1> <nv> lit*nv <n> stmt*n             WHILE [VAR, when 1] @x IN cursor over the rows lit…
             | T<x>                 DECLARE tx VIEW (c1)   (a table is the variable x holding its number of rows;
                                    INSERT n rows = A<x> + v<x> i<n>, DELETE all = A<x> i0, DISPOSE VIEW = X<x>,
                                    (SELECT COUNT(*) FROM tx) = v<x>)
             | O<c> | S<c> | H<c> v<x>      OPEN / CLOSE / FETCH … INTO @x on the cursor that is variable c (≥ 200) holding its
                                    state; DECLARE c CURSOR over the rows off, off+1, off+2 is D<c> i<-off-1>
             | Z <n> stmt*n         SOURCE file / EXECUTE 'text' / EXECUTE prepared: the statements run in the current block
             | B | K | Q            BREAK | CONTINUE | EXIT
             | R expr               RETURN expr
             | F<f> <np> param*np <n> stmt*n                 DECLARE f FUNCTION (…) AS BEGIN … END
             | Y<f>                 DISPOSE FUNCTION f
    param   := p<x> | q<x> expr     (q: with DEFAULT expr)
    expr    := n | t | f | u | i<int> | v<x> | + e e | - e e | < e e | = e e | c<f> <na> expr*na
             | a<f> <s0> <na> expr*na      (SELECT f(<list>, args…) FROM …): aggregate f over the rows s0, s0+1, …
    stmt   += G<f> <c> <np> param*np <n> stmt*n            DECLARE f AGGREGATE (c, …) AS BEGIN … END

  answer:   <flow> | <printed values, oldest first> | <variables of every block left, innermost first, blocks
            separated by "/"> | <functions …, as name:number of parameters> | commit / nocommit (Processor.Execute
            with AutoCommit: are the changes of the run committed?)
  keyed ops:  c15.runk <fuel> <nn> ent*nn <program>   |   c15.runktx …      the names of the program as RAW TEXT
    ent     := v<num>:<hex> | t<num>:<hex> | c<num>:<hex> | f<num>:<hex>     variable / temporary table / cursor / function
               number <num> of the program is written <hex> (UTF-8) in the program text; what is one object is decided
               by `canon refKey` (Model/ScopeKeys.lean: variables by the exact text, the others by strings.ToUpper)
    answer:  as above, but the variables / functions of a block are reported PER LISTED NAME, ascending by number:
             `<num>=<value>` for every listed number whose name finds an object in that block (an object that two
             listed names reach is reported under both)
    flow    := N (Terminate) | X (Exit) | B | K | R<value> (Break / Continue / Return reaching the top level: only in
               syntax trees csvq's parser rejects) | E<csvq error number> | Efuel
    value   := N | I<int> | TT | TF | TU
-/
import Csvq.Model.ScopeKeys
import Csvq.Model.Proto
namespace Csvq.Drive
open Csvq Csvq.Scope

namespace C15

abbrev P (α : Type) := List String → Option (α × List String)

def natOf (s : String) : Option Nat := s.toNat?
def tagNat (tag : Char) (s : String) : Option Nat :=
  if s.length ≥ 2 && s.front == tag then (s.drop 1).toNat? else none

partial def pExpr : P Expr
  | [] => none
  | t :: ts =>
    match t with
    | "n" => some (.lit .null, ts)
    | "t" => some (.lit (.tern .T), ts)
    | "f" => some (.lit (.tern .F), ts)
    | "u" => some (.lit (.tern .U), ts)
    | "+" => pBin .add ts
    | "-" => pBin .sub ts
    | "<" => pBin .lt ts
    | "=" => pBin .eq ts
    | _ =>
      if t.front == 'i' then (t.drop 1).toInt?.map fun i => (.lit (.int i), ts)
      else if t.front == 'v' then (tagNat 'v' t).map fun x => (.var x, ts)
      else if t.front == 'a' then      -- a<f> <s0> <na> expr*na : aggregate f over the group that the pseudo-cursor state s0 stands for
        match tagNat 'a' t, ts with
        | some f, s0 :: n :: ts' =>
          match s0.toInt?, natOf n with
          | some s0, some n => (pExprs n ts').map fun (as, r) => (.acall f s0 as, r)
          | _, _ => none
        | _, _ => none
      else if t.front == 'c' then
        match tagNat 'c' t, ts with
        | some f, n :: ts' =>
          match natOf n with
          | some n => (pExprs n ts').map fun (as, r) => (.call f as, r)
          | none => none
        | _, _ => none
      else none
where
  pBin (op : BinOp) : P Expr := fun ts =>
    match pExpr ts with
    | some (a, ts1) =>
      match pExpr ts1 with
      | some (b, ts2) => some (.bin op a b, ts2)
      | none => none
    | none => none
  pExprs : Nat → P (List Expr)
    | 0, ts => some ([], ts)
    | n + 1, ts =>
      match pExpr ts with
      | some (e, ts1) => (pExprs n ts1).map fun (es, r) => (e :: es, r)
      | none => none

def pParam : P Param
  | [] => none
  | t :: ts =>
    if t.front == 'p' then (tagNat 'p' t).map fun x => (⟨x, none⟩, ts)
    else if t.front == 'q' then
      match tagNat 'q' t, pExpr ts with
      | some x, some (e, r) => some (⟨x, some e⟩, r)
      | _, _ => none
    else none

def pMany {α : Type} (p : P α) : Nat → P (List α)
  | 0, ts => some ([], ts)
  | n + 1, ts =>
    match p ts with
    | some (a, ts1) => (pMany p n ts1).map fun (as, r) => (a :: as, r)
    | none => none

def pCount : P Nat
  | [] => none
  | t :: ts => (natOf t).map fun n => (n, ts)

mutual
partial def pStmt : P Stmt
  | [] => none
  | t :: ts =>
    match t with
    | "P" => (pExpr ts).map fun (e, r) => (.print e, r)
    | "R" => (pExpr ts).map fun (e, r) => (.ret e, r)
    | "B" => some (.brk, ts)
    | "K" => some (.cont, ts)
    | "Q" => some (.exit, ts)
    | "Z" => (pBlock ts).map fun (b, r) => (.inline b, r)
    | "M0" => some (.raise false, ts)
    | "M1" => some (.raise true, ts)
    | "J" =>
      match pExpr ts with
      | some (e, ts0) =>
        match pCount ts0 with
        | some (nb, ts1) =>
          match pBranches nb ts1 with
          | some (bs, ts2) => (pBlock ts2).map fun (els, r) => (.caseOf e bs els, r)
          | none => none
        | none => none
      | none => none
    | "W" =>
      match pExpr ts with
      | some (c, ts1) => (pBlock ts1).map fun (b, r) => (.while c b, r)
      | none => none
    | "I" =>
      match pCount ts with
      | some (nb, ts1) =>
        match pBranches nb ts1 with
        | some (bs, ts2) => (pBlock ts2).map fun (els, r) => (.ifs bs els, r)
        | none => none
      | none => none
    | _ =>
      if t.front == 'D' then
        match tagNat 'D' t, pExpr ts with
        | some x, some (e, r) => some (.decl x e, r)
        | _, _ => none
      else if t.front == 'A' then
        match tagNat 'A' t, pExpr ts with
        | some x, some (e, r) => some (.assign x e, r)
        | _, _ => none
      else if t.front == 'E' then
        match tagNat 'E' t, ts with
        | some x, d :: ts1 =>
          match pCount ts1 with
          | some (nv, ts2) =>
            match pMany pExpr nv ts2 with
            | some (es, ts3) =>
              let vals := es.filterMap fun e => match e with | .lit v => some v | _ => none
              if vals.length == nv then (pBlock ts3).map fun (b, r) => (.foreach x (d == "1") vals b, r) else none
            | none => none
          | none => none
        | _, _ => none
      else if t.front == 'T' then (tagNat 'T' t).map fun x => (.declT x, ts)
      else if t.front == 'O' then (tagNat 'O' t).map fun c => (.cursor .open c 0, ts)
      else if t.front == 'S' then (tagNat 'S' t).map fun c => (.cursor .close c 0, ts)
      else if t.front == 'H' then
        match tagNat 'H' t, ts with
        | some c, v :: ts1 => (tagNat 'v' v).map fun x => (.cursor .fetch c x, ts1)
        | _, _ => none
      else if t.front == 'X' then (tagNat 'X' t).map fun x => (.dispose x, ts)
      else if t.front == 'Y' then (tagNat 'Y' t).map fun x => (.disposeFn x, ts)
      else if t.front == 'G' then      -- G<f> <c> <np> param*np <n> stmt*n : DECLARE f AGGREGATE (c, …)
        match tagNat 'G' t, ts with
        | some f, c :: ts0 =>
          match natOf c, pCount ts0 with
          | some c, some (np, ts1) =>
            match pMany pParam np ts1 with
            | some (ps, ts2) => (pBlock ts2).map fun (b, r) => (.declAgg f c ps b, r)
            | none => none
          | _, _ => none
        | _, _ => none
      else if t.front == 'F' then
        match tagNat 'F' t, pCount ts with
        | some f, some (np, ts1) =>
          match pMany pParam np ts1 with
          | some (ps, ts2) => (pBlock ts2).map fun (b, r) => (.declFn f ps b, r)
          | none => none
        | _, _ => none
      else none

partial def pBlock : P (List Stmt) := fun ts =>
  match pCount ts with
  | some (n, ts1) => pStmts n ts1
  | none => none

partial def pStmts : Nat → P (List Stmt)
  | 0, ts => some ([], ts)
  | n + 1, ts =>
    match pStmt ts with
    | some (s, ts1) => (pStmts n ts1).map fun (ss, r) => (s :: ss, r)
    | none => none

partial def pBranches : Nat → P (List (Expr × List Stmt))
  | 0, ts => some ([], ts)
  | n + 1, ts =>
    match pExpr ts with
    | some (c, ts1) =>
      match pBlock ts1 with
      | some (b, ts2) => (pBranches n ts2).map fun (bs, r) => ((c, b) :: bs, r)
      | none => none
    | none => none
end

def showVal : SVal → String
  | .null => "N"
  | .int i => "I" ++ toString i
  | .tern t => "T" ++ t.toStr

/-- a cursor variable: closed, or open with the number of rows passed (4: the end was hit) -/
def showCursor : SVal → String
  | .int s => if s < 0 then "C" else "O" ++ toString (s % 10)
  | _ => "C"

/-- csvq's error codes (lib/query/error_code.go) -/
def errCode : Err → String
  | .undeclaredVar => "10301"
  | .redeclaredVar => "10302"
  | .undeclaredFn => "10401"
  | .argCount => "10402"
  | .redeclaredFn => "10501"
  | .dupParam => "10503"
  | .redeclaredTable => "11501"
  | .cursorClosed => "11003"
  | .cursorOpen => "11004"
  | .pseudoCursor => "11006"
  | .forcedExit => "90640"
  | .userTriggered => "90650"
  | .fuel => "fuel"

def showOutcome : Outcome → String
  | .normal => "N"
  | .exit => "X"
  | .brk => "B"
  | .cont => "K"
  | .ret v => "R" ++ showVal v
  | .err e => "E" ++ errCode e

def insertSorted {α : Type} (k : Nat) (v : α) : List (Nat × α) → List (Nat × α)
  | [] => [(k, v)]
  | (k', v') :: rest => if k ≤ k' then (k, v) :: (k', v') :: rest else (k', v') :: insertSorted k v rest

def sortByKey {α : Type} (l : List (Nat × α)) : List (Nat × α) :=
  l.foldl (fun acc (k, v) => insertSorted k v acc) []

def joinOr (dflt : String) (l : List String) : String :=
  if l.isEmpty then dflt else String.intercalate "," l

def showRun (tx : Bool) (r : PRes) : String :=
  let vars := r.st.blocks.map fun b =>
    joinOr "-" ((sortByKey b.vars).map fun (k, v) => toString k ++ "=" ++ (if k ≥ 200 then showCursor v else showVal v))
  let funs := r.st.blocks.map fun b =>
    joinOr "-" ((sortByKey b.funs).map fun (k, d) => toString k ++ ":" ++ toString d.params.length)
  String.intercalate " | " [showOutcome r.outcome, joinOr "-" (r.st.out.reverse.map showVal),
    String.intercalate "/" vars, String.intercalate "/" funs] ++ (if tx then (if r.commits then " | commit" else " | nocommit") else "")

/-- `v3:4076` -/
def pEnt (t : String) : Option NameEnt :=
  match t.splitOn ":" with
  | [tag, hx] =>
    let kind : Option Kind := match tag.front with
      | 'v' => some .var | 't' => some .view | 'c' => some .cursor | 'f' => some .fn | _ => none
    match kind, (tag.drop 1).toNat?, Proto.unhex hx with
    | some k, some n, some raw => some ⟨n, k, raw⟩
    | _, _, _ => none
  | _ => none

def pEnts : Nat → P (List NameEnt)
  | 0, ts => some ([], ts)
  | _ + 1, [] => none
  | n + 1, t :: ts =>
    match pEnt t with
    | some e => (pEnts n ts).map fun (es, r) => (e :: es, r)
    | none => none

def listedNums (T : Names) : List Nat := (sortByKey (T.map fun e => (e.num, ()))).map Prod.fst

/-- the answer of a keyed run: per block, every listed name that finds an object there -/
def showRunK (tx : Bool) (p : KProg) (r : PRes) : String :=
  let vars := r.st.blocks.map fun b =>
    joinOr "-" ((listedNums p.Tv).filterMap fun n =>
      match aget (canon refKey p.Tv n) b.vars with
      | some v => some (toString n ++ "=" ++ (if n ≥ 200 then showCursor v else showVal v))
      | none => none)
  let funs := r.st.blocks.map fun b =>
    joinOr "-" ((listedNums p.Tf).filterMap fun n =>
      match aget (canon refKey p.Tf n) b.funs with
      | some d => some (toString n ++ ":" ++ toString d.params.length)
      | none => none)
  String.intercalate " | " [showOutcome r.outcome, joinOr "-" (r.st.out.reverse.map showVal),
    String.intercalate "/" vars, String.intercalate "/" funs] ++ (if tx then (if r.commits then " | commit" else " | nocommit") else "")

def runK (tx : Bool) (fuel : String) (rest : List String) : String :=
  match fuel.toNat?, pCount rest with
  | some fuel, some (nn, ts) =>
    match pEnts nn ts with
    | some (ents, ts1) =>
      match pBlock ts1 with
      | some (prog, []) =>
        let p : KProg := ⟨ents.filter (fun e => e.kind != .fn), ents.filter (fun e => e.kind == .fn), prog⟩
        if decide p.Tv.WF && decide p.Tf.WF then showRunK tx p (runKeyed refKey fuel p) else "bad-names"
      | _ => "bad-op"
    | none => "bad-op"
  | _, _ => "bad-op"

end C15

def c15 (cmd : String) (args : List String) : String :=
  match cmd, args with
  | "runk", fuel :: rest => C15.runK false fuel rest
  | "runktx", fuel :: rest => C15.runK true fuel rest
  | "run", fuel :: prog =>
    match fuel.toNat?, C15.pBlock prog with
    | some fuel, some (p, []) => C15.showRun false (executeI fuel p none St.init)
    | _, _ => "bad-op"
  | "runtx", fuel :: prog =>      -- the run also changed a file table: is it committed at the end?
    match fuel.toNat?, C15.pBlock prog with
    | some fuel, some (p, []) => C15.showRun true (executeI fuel p none St.init)
    | _, _ => "bad-op"
  | _, _ => "bad-op"

end Csvq.Drive
