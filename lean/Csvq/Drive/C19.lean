/- Driver handler of the C19 correspondence stream: the count checks of the function tables
   (Csvq/Gen/ErrFacts.lean, `argCountChecks`, regenerated from /repo) against the running code.

   c19.arity <table> <NAME> <count>  →  lenerr | pass | no-fact
     lenerr  the facts say the function answers with the argument-length error for that number of arguments
     pass    they say it does not (any other outcome: a value, NULL, another error)

   c19.sizeopen                      →  the numbers of the size obligations (Csvq/Gen/SizeFacts.lean) the uniform tactic did not
                                        prove, comma-separated (`-` = none)
   c19.sizesearch <n>                →  cex v0,v1,…   a valuation of the obligation's variables (small integers) that satisfies
                                                      every fact of the site and violates its goal — found by evaluating the
                                                      same IR the theorem is about (SCond.check, proved equal to SCond.holds)
                                        none          no such valuation in the boxes tried -/
import Csvq.Gen.ErrFacts
import Csvq.Gen.SizeFacts
namespace Csvq.Drive
open Csvq.ErrFacts
open Csvq.SizeFacts

def c19 (cmd : String) (args : List String) : String :=
  match cmd, args with
  | "arity", [table, name, count] =>
    match count.toNat? with
    | none => "bad-op"
    | some n =>
      match Csvq.Gen.argCountChecks.find? (fun c => c.table == table && c.name == name) with
      | none => "no-fact"
      | some c => if c.rejectsCount n then "lenerr" else "pass"
  | "sizeopen", [] =>
    let open_ := (Csvq.Gen.Size.sizeEntries.zipIdx.filter (fun (e, _) => !e.proof.isYes)).map (fun (_, i) => toString i)
    if open_.isEmpty then "-" else ",".intercalate open_
  | "sizesearch", [n] =>
    match n.toNat? with
    | none => "bad-op"
    | some k =>
      match Csvq.Gen.Size.sizeEntries[k]? with
      | none => "bad-op"
      | some e =>
        match e.site.counterexample with
        | none => "none"
        | some l => "cex " ++ ",".intercalate (l.map toString)
  | _, _ => "bad-op"

end Csvq.Drive
