/- Driver handler of the C19 correspondence stream: the count checks of the function tables
   (Csvq/Gen/ErrFacts.lean, `argCountChecks`, regenerated from /repo) against the running code.

   c19.arity <table> <NAME> <count>  →  lenerr | pass | no-fact
     lenerr  the facts say the function answers with the argument-length error for that number of arguments
     pass    they say it does not (any other outcome: a value, NULL, another error)

   c19.sizeopen                      →  the numbers of the size obligations (Csvq/Gen/SizeFacts.lean) the uniform tactic did not
                                        prove, comma-separated (`-` = none)
   c19.sizesearch <n>                →  cex v0,v1,…   a valuation of the obligation's variables (small integers) that satisfies
                                                      every fact of the site and violates its goal — found by evaluating the
                                                      same IR the theorem is about (SCond.check, proved equal to SCond.holds)
                                        none          no such valuation in the boxes tried
   c19.loopopen                      →  the numbers (in Gen.Loop.loopSites) of the loops without a measure whose back edges are all proved
   c19.loopedges <n>                 →  for loop n: per candidate measure `text=e1+e2+…` with a `!` behind every unproved entry
   c19.loopsearch <k>                →  like sizesearch, for entry k of Gen.Loop.loopEntries: a valuation of ONE iteration under
                                        which the measure does not decrease (or is negative at the head)
   c19.convopen / c19.convsearch <k> →  the same for the conversion obligations (Gen.Conv.convEntries)
   c19.libsizeopen / libsizesearch / libloopopen / libloopedges / libloopsearch / libconvopen / libconvsearch
                                     →  the same over the second group of generated files (Csvq/Gen/LibSizeFacts.lean, LibLoopFacts.lean,
                                        LibIntConvFacts.lean: lib/doc, lib/json, lib/value, lib/option, lib/file, lib/terminal, lib/syntax,
                                        lib/excmd, lib/cli, lib/action) -/
import Csvq.Gen.ErrFacts
import Csvq.Gen.SizeFacts
import Csvq.Gen.LoopFacts
import Csvq.Gen.IntConvFacts
import Csvq.Gen.LibSizeFacts
import Csvq.Gen.LibLoopFacts
import Csvq.Gen.LibIntConvFacts
namespace Csvq.Drive
open Csvq.ErrFacts
open Csvq.SizeFacts

def openOf (entries : List SizeEntry) : String :=
  let open_ := (entries.zipIdx.filter (fun (e, _) => !e.proof.isYes)).map (fun (_, i) => toString i)
  if open_.isEmpty then "-" else ",".intercalate open_

def searchIn (entries : List SizeEntry) (n : String) : String :=
  match n.toNat? with
  | none => "bad-op"
  | some k =>
    match entries[k]? with
    | none => "bad-op"
    | some e =>
      match e.site.counterexample with
      | none => "none"
      | some l => "cex " ++ ",".intercalate (l.map toString)

def loopOpenOf (sites : List LoopSite) (entries : List SizeEntry) : String :=
  let open_ := (sites.zipIdx.filter (fun (l, _) => !l.proved entries)).map (fun (_, i) => toString i)
  if open_.isEmpty then "-" else ",".intercalate open_

def loopEdgesOf (sites : List LoopSite) (entries : List SizeEntry) (n : String) : String :=
  match n.toNat? with
  | none => "bad-op"
  | some k =>
    match sites[k]? with
    | none => "bad-op"
    | some l =>
      let edge (i : Nat) : String := toString i ++ (match entries[i]? with | some e => if e.proof.isYes then "" else "!" | none => "?")
      if l.cands.isEmpty then "-" else ";".intercalate (l.cands.map (fun c => "+".intercalate (c.2.map edge)))

def c19 (cmd : String) (args : List String) : String :=
  match cmd, args with
  | "arity", [table, name, count] =>
    match count.toNat? with
    | none => "bad-op"
    | some n =>
      match Csvq.Gen.argCountChecks.find? (fun c => c.table == table && c.name == name) with
      | none => "no-fact"
      | some c => if c.rejectsCount n then "lenerr" else "pass"
  | "sizeopen", [] => openOf Csvq.Gen.Size.sizeEntries
  | "sizesearch", [n] => searchIn Csvq.Gen.Size.sizeEntries n
  | "convopen", [] => openOf Csvq.Gen.IntConv.convEntries
  | "convsearch", [n] => searchIn Csvq.Gen.IntConv.convEntries n
  | "loopsearch", [n] => searchIn Csvq.Gen.Loop.loopEntries n
  | "loopopen", [] =>
    let open_ := (Csvq.Gen.Loop.loopSites.zipIdx.filter (fun (l, _) => !l.proved Csvq.Gen.Loop.loopEntries)).map (fun (_, i) => toString i)
    if open_.isEmpty then "-" else ",".intercalate open_
  | "loopedges", [n] =>
    match n.toNat? with
    | none => "bad-op"
    | some k =>
      match Csvq.Gen.Loop.loopSites[k]? with
      | none => "bad-op"
      | some l =>
        let edge (i : Nat) : String := toString i ++ (match Csvq.Gen.Loop.loopEntries[i]? with | some e => if e.proof.isYes then "" else "!" | none => "?")
        if l.cands.isEmpty then "-" else ";".intercalate (l.cands.map (fun c => "+".intercalate (c.2.map edge)))
  | "libsizeopen", [] => openOf Csvq.Gen.LibSize.sizeEntries
  | "libsizesearch", [n] => searchIn Csvq.Gen.LibSize.sizeEntries n
  | "libconvopen", [] => openOf Csvq.Gen.LibIntConv.convEntries
  | "libconvsearch", [n] => searchIn Csvq.Gen.LibIntConv.convEntries n
  | "libloopsearch", [n] => searchIn Csvq.Gen.LibLoop.loopEntries n
  | "libloopopen", [] => loopOpenOf Csvq.Gen.LibLoop.loopSites Csvq.Gen.LibLoop.loopEntries
  | "libloopedges", [n] => loopEdgesOf Csvq.Gen.LibLoop.loopSites Csvq.Gen.LibLoop.loopEntries n
  | _, _ => "bad-op"

end Csvq.Drive
