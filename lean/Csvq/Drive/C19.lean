/- Driver handler of the C19 correspondence stream: the count checks of the function tables
   (Csvq/Gen/ErrFacts.lean, `argCountChecks`, regenerated from /repo) against the running code.

   c19.arity <table> <NAME> <count>  →  lenerr | pass | no-fact
     lenerr  the facts say the function answers with the argument-length error for that number of arguments
     pass    they say it does not (any other outcome: a value, NULL, another error) -/
import Csvq.Gen.ErrFacts
namespace Csvq.Drive
open Csvq.ErrFacts

def c19 (cmd : String) (args : List String) : String :=
  match cmd, args with
  | "arity", [table, name, count] =>
    match count.toNat? with
    | none => "bad-op"
    | some n =>
      match Csvq.Gen.argCountChecks.find? (fun c => c.table == table && c.name == name) with
      | none => "no-fact"
      | some c => if c.rejectsCount n then "lenerr" else "pass"
  | _, _ => "bad-op"

end Csvq.Drive
