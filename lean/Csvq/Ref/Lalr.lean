/-
  Csvq.Ref.Lalr — the reviewed text of the goyacc driver the model Csvq/Model/Lalr.lean mirrors.

  These are the statements of `func (yyrcvr *yyParserImpl) Parse(yylex yyLexer) int` (lib/parser/parser.go) outside the
  semantic-action `switch yynt {…}`, of `yylex1`, `yyParse`, the exported `Parse`, `(*Lexer).Lex` (lexer.go) and the
  declaration of the scanner's EOF / Uncategorized codes, as go/printer prints them, copied here after they were read
  and modelled statement by statement (which definition of the model mirrors which statement is noted beside each
  list).  `Csvq.C18.gen_driver_eq_ref` compares them with the text regenerated from /repo on every run: a new goyacc
  template, or a hand edit of the loop, fails the comparison instead of silently leaving the model behind.

  `nonPureActions`: the semantic actions that do more than `yyVAL.f = <composite literal / call / yyDollar[k].field>`,
  with what else they do (reviewed: none of them leaves the loop; the ones that can panic at run time are the 25
  type assertions without `ok` — they rely on the grammar for the dynamic type — and the two index expressions).
-/
namespace Csvq.Ref.Lalr

/-- model: `init` (the declarations up to `goto yystack`), `stepM` (yystack / yynewstate / the shift), `dfltStep` (yydefault, the yyExca loops: `excaFind`, `excaScan`), `errorStep` + `recoverLoop` (the `switch Errflag`), `reduce` + `gotoState` (from `yynt := yyn` to `goto yystack`) -/
def driverText : List String := [
  "func (*yyParserImpl) Parse(yylex yyLexer) int",
  "var yyn int",
  "var yyVAL yySymType",
  "var yyDollar []yySymType",
  "_ = yyDollar",
  "yyS := yyrcvr.stack[:]",
  "Nerrs := 0",
  "Errflag := 0",
  "yystate := 0",
  "yyrcvr.char = -1",
  "yytoken := -1",
  "defer func() {\n\n\tyystate = -1\n\tyyrcvr.char = -1\n\tyytoken = -1\n}()",
  "yyp := -1",
  "goto yystack",
  "ret0:\n\treturn 0",
  "ret1:\n\treturn 1",
  "yystack:\n\n\tif yyDebug >= 4 {\n\t\t__yyfmt__.Printf(\"char %v in %v\\n\", yyTokname(yytoken), yyStatname(yystate))\n\t}",
  "yyp++",
  "if yyp >= len(yyS) {\n\tnyys := make([]yySymType, len(yyS)*2)\n\tcopy(nyys, yyS)\n\tyyS = nyys\n}",
  "yyS[yyp] = yyVAL",
  "yyS[yyp].yys = yystate",
  "yynewstate:\n\tyyn = yyPact[yystate]",
  "if yyn <= yyFlag {\n\tgoto yydefault\n}",
  "if yyrcvr.char < 0 {\n\tyyrcvr.char, yytoken = yylex1(yylex, &yyrcvr.lval)\n}",
  "yyn += yytoken",
  "if yyn < 0 || yyn >= yyLast {\n\tgoto yydefault\n}",
  "yyn = yyAct[yyn]",
  "if yyChk[yyn] == yytoken {\n\tyyrcvr.char = -1\n\tyytoken = -1\n\tyyVAL = yyrcvr.lval\n\tyystate = yyn\n\tif Errflag > 0 {\n\t\tErrflag--\n\t}\n\tgoto yystack\n}",
  "yydefault:\n\n\tyyn = yyDef[yystate]",
  "if yyn == -2 {\n\tif yyrcvr.char < 0 {\n\t\tyyrcvr.char, yytoken = yylex1(yylex, &yyrcvr.lval)\n\t}\n\n\txi := 0\n\tfor {\n\t\tif yyExca[xi+0] == -1 && yyExca[xi+1] == yystate {\n\t\t\tbreak\n\t\t}\n\t\txi += 2\n\t}\n\tfor xi += 2; ; xi += 2 {\n\t\tyyn = yyExca[xi+0]\n\t\tif yyn < 0 || yyn == yytoken {\n\t\t\tbreak\n\t\t}\n\t}\n\tyyn = yyExca[xi+1]\n\tif yyn < 0 {\n\t\tgoto ret0\n\t}\n}",
  "if yyn == 0 {\n\n\tswitch Errflag {\n\tcase 0:\n\t\tyylex.Error(yyErrorMessage(yystate, yytoken))\n\t\tNerrs++\n\t\tif yyDebug >= 1 {\n\t\t\t__yyfmt__.Printf(\"%s\", yyStatname(yystate))\n\t\t\t__yyfmt__.Printf(\" saw %s\\n\", yyTokname(yytoken))\n\t\t}\n\t\tfallthrough\n\n\tcase 1, 2:\n\t\tErrflag = 3\n\n\t\tfor yyp >= 0 {\n\t\t\tyyn = yyPact[yyS[yyp].yys] + yyErrCode\n\t\t\tif yyn >= 0 && yyn < yyLast {\n\t\t\t\tyystate = yyAct[yyn]\n\t\t\t\tif yyChk[yystate] == yyErrCode {\n\t\t\t\t\tgoto yystack\n\t\t\t\t}\n\t\t\t}\n\n\t\t\tif yyDebug >= 2 {\n\t\t\t\t__yyfmt__.Printf(\"error recovery pops state %d\\n\", yyS[yyp].yys)\n\t\t\t}\n\t\t\tyyp--\n\t\t}\n\n\t\tgoto ret1\n\n\tcase 3:\n\t\tif yyDebug >= 2 {\n\t\t\t__yyfmt__.Printf(\"error recovery discards %s\\n\", yyTokname(yytoken))\n\t\t}\n\t\tif yytoken == yyEofCode {\n\t\t\tgoto ret1\n\t\t}\n\t\tyyrcvr.char = -1\n\t\tyytoken = -1\n\t\tgoto yynewstate\n\t}\n}",
  "if yyDebug >= 2 {\n\t__yyfmt__.Printf(\"reduce %v in:\\n\\t%v\\n\", yyn, yyStatname(yystate))\n}",
  "yynt := yyn",
  "yypt := yyp",
  "_ = yypt",
  "yyp -= yyR2[yyn]",
  "if yyp+1 >= len(yyS) {\n\tnyys := make([]yySymType, len(yyS)*2)\n\tcopy(nyys, yyS)\n\tyyS = nyys\n}",
  "yyVAL = yyS[yyp+1]",
  "yyn = yyR1[yyn]",
  "yyg := yyPgo[yyn]",
  "yyj := yyg + yyS[yyp].yys + 1",
  "if yyj >= yyLast {\n\tyystate = yyAct[yyg]\n} else {\n\tyystate = yyAct[yyj]\n\tif yyChk[yystate] != -yyn {\n\t\tyystate = yyAct[yyg]\n\t}\n}",
  "switch yynt { /* semantic actions */ }",
  "goto yystack"]

/-- model: `lex1`, `tok3Loop`, `lexOut` -/
def lex1Text : List String := [
  "func yylex1(lex yyLexer, lval *yySymType) (char, token int)",
  "token = 0",
  "char = lex.Lex(lval)",
  "if char <= 0 {\n\ttoken = yyTok1[0]\n\tgoto out\n}",
  "if char < len(yyTok1) {\n\ttoken = yyTok1[char]\n\tgoto out\n}",
  "if char >= yyPrivate {\n\tif char < yyPrivate+len(yyTok2) {\n\t\ttoken = yyTok2[char-yyPrivate]\n\t\tgoto out\n\t}\n}",
  "for i := 0; i < len(yyTok3); i += 2 {\n\ttoken = yyTok3[i+0]\n\tif token == char {\n\t\ttoken = yyTok3[i+1]\n\t\tgoto out\n\t}\n}",
  "out:\n\tif token == 0 {\n\t\ttoken = yyTok2[1]\n\t}",
  "if yyDebug >= 3 {\n\t__yyfmt__.Printf(\"lex %s(%d)\\n\", yyTokname(token), uint(char))\n}",
  "return char, token"]

/-- model: `run` starts from `init` -/
def yyParseText : List String := [
  "func yyParse(yylex yyLexer) int",
  "return yyNewParser().Parse(yylex)"]

/-- model: the token list is what `l.Scan()` returns, in order; the result is `l.err` -/
def parseText : List String := [
  "func Parse(s string, sourceFile string, forPrepared bool, ansiQuotes bool) ([]Statement, int, error)",
  "l := new(Lexer)",
  "l.Init(s, sourceFile, forPrepared, ansiQuotes)",
  "yyParse(l)",
  "return l.program, l.HolderNumber(), l.err"]

/-- model: `lexWrap` (and `ensureTok`, which records the index of `l.token`) -/
def lexText : List String := [
  "func (*Lexer) Lex(lval *yySymType) int",
  "tok, err := l.Scan()",
  "lval.token = tok",
  "l.token = lval.token",
  "if err != nil {\n\tl.Error(err.Error())\n}",
  "if lval.token.Token == Uncategorized {\n\n\treturn unknownCharacter\n}",
  "return lval.token.Token"]

/-- model: `genP.scanEOF = -1`, `genP.scanUncategorized = -2` -/
def scannerConstText : List String := [
  "const (\n\tEOF = -(iota + 1)\n\tUncategorized\n)"]

/-- the actions that are not plain constructions (production, what else occurs) -/
def nonPureActions : List (Nat × String) := [
  (106, "other(type assertion without ok)"),
  (203, "other(if; operator ==; type assertion without ok)"),
  (204, "other(assigns a local variable; if; local variable; operator ==; type assertion without ok)"),
  (223, "other(type assertion without ok)"),
  (224, "other(type assertion without ok)"),
  (228, "other(assigns a local variable; if; local variable; operator !=)"),
  (260, "other(assigns a local variable; if; index; local variable; operator ==; slice)"),
  (263, "other(method call)"),
  (276, "other(type assertion without ok)"),
  (277, "other(assigns a local variable; if; local variable; type assertion with ok)"),
  (299, "other(type assertion without ok)"),
  (329, "other(type assertion without ok)"),
  (330, "other(type assertion without ok)"),
  (331, "other(type assertion without ok)"),
  (332, "other(type assertion without ok)"),
  (333, "other(type assertion without ok)"),
  (334, "other(type assertion without ok)"),
  (335, "other(type assertion without ok)"),
  (336, "other(type assertion without ok)"),
  (337, "other(type assertion without ok)"),
  (338, "other(type assertion without ok)"),
  (339, "other(type assertion without ok)"),
  (340, "other(type assertion without ok)"),
  (349, "other(local variable)"),
  (351, "other(local variable)"),
  (352, "other(local variable)"),
  (386, "other(writes into yyDollar)"),
  (388, "other(writes into yyDollar)"),
  (401, "other(writes into yyDollar)"),
  (402, "other(writes into yyDollar)"),
  (403, "other(writes into yyDollar)"),
  (404, "other(writes into yyDollar)"),
  (405, "other(writes into yyDollar)"),
  (437, "other(type assertion without ok)"),
  (438, "other(type assertion without ok)"),
  (445, "other(type assertion without ok)"),
  (446, "other(type assertion without ok)"),
  (449, "other(type assertion without ok)"),
  (450, "other(type assertion without ok)"),
  (504, "other(assigns a local variable; if; index; local variable; operator <)"),
  (524, "other(writes into yyDollar)")]

end Csvq.Ref.Lalr
