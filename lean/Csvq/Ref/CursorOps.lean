/-
  Csvq.Ref.CursorOps — HAND-REVIEWED expectations for the effect lists that extract/cursorfetch (mode ops)
  regenerates from lib/query/cursor.go, processor.go and reference_scope.go.  Model/Cursor.lean was written
  against exactly these skeletons; the `gen_*_eq_ref` theorems of Props/C16.lean compare them with the
  current source on every run.

  How the model reads them:
  * fxWhileInCursor — `loopS`: inside the bare `for`, FIRST `ClearCurrentBlock()` unconditionally (plain and VAR
    form alike: what the body declared does not survive into the next iteration), the VAR form re-declares the
    loop variables, then `FetchCursor` BY NAME on the child scope with position NEXT; an error ends the program,
    `!success` (nothing fetched) ends the loop, otherwise the body runs (an error ends the program); BREAK ends
    the loop, EXIT / RETURN leave it, anything else (incl. CONTINUE) goes to the next iteration.
  * fxMap* — a CursorMap method finds the cursor under strings.ToUpper(name) (`key`) and delegates, or answers
    errUndeclaredCursor (`lookup … = none`); IsInRange / Count turn errCursorClosed into the "closed" error.
  * fxScope* — DECLARE goes to Blocks[0]; every other statement walks the blocks innermost-first and stops at the
    first block that does not answer errUndeclaredCursor (`stepS`, `lookupS`).
  * fxFetchCursor — `stepFetchInto` / `whileInto` / `Op.fetchBad`: no position = NEXT (number −1); the number is an
    expression, evaluated, converted with value.ToInteger, NULL → "invalid fetch position" BEFORE the cursor is touched;
    then the cursor is moved through the scope chain; nothing fetched → false (the variables keep their values);
    only then the number of variables is compared with the row ("fetch length" error, pointer already moved).
  * fxNewCursor — a declared cursor starts with view == nil (closed), not pseudo.
-/
namespace Csvq.Ref

/-- (*Processor).WhileInCursor, whole statement structure -/
def fxWhileInCursor : List String :=
  ["fetchPosition := parser.FetchPosition{Position: parser.Token{Token: parser.NEXT}}", "childProc := proc.NewChildProcessor()", "defer childProc.Close()", "for{", "childProc.ReferenceScope.ClearCurrentBlock()", "if[stmt.WithDeclaration]{", "assigns := make([]parser.VariableAssignment, len(stmt.Variables))", "range[i, v := stmt.Variables]{", "assigns[i] = parser.VariableAssignment{Variable: v}", "}", "decl := parser.VariableDeclaration{Assignments: assigns}", "if[err := childProc.ReferenceScope.DeclareVariable(ctx, decl); err != nil]{", "return TerminateWithError, err", "}", "}", "success, err := FetchCursor(ctx, childProc.ReferenceScope, stmt.Cursor, fetchPosition, stmt.Variables)", "if[err != nil]{", "return TerminateWithError, err", "}", "if[!success]{", "break", "}", "f, err := childProc.execute(ctx, stmt.Statements)", "if[err != nil]{", "return TerminateWithError, err", "}", "switch[f]{", "case[Break]{", "return Terminate, nil", "}", "case[Exit]{", "return Exit, nil", "}", "case[Return]{", "proc.returnVal = childProc.returnVal", "return Return, nil", "}", "}", "}", "return Terminate, nil"]

/-- fields NewCursor sets (view, index, fetched, isPseudo keep their zero values) -/
def fxNewCursor : List String :=
  ["Name: e.Cursor.Literal", "query: e.Query", "statement: e.Statement", "mtx: &sync.Mutex{}"]

/-- fields NewPseudoCursor sets -/
def fxNewPseudoCursor : List String :=
  ["Name: name", "view: view", "index: -1", "fetched: false", "isPseudo: true", "mtx: &sync.Mutex{}"]

/-- CursorMap.Store -/
def fxMapStore : List String :=
  ["m.store(strings.ToUpper(name), val)"]

/-- CursorMap.Load -/
def fxMapLoad : List String :=
  ["if[v, ok := m.load(strings.ToUpper(name)); ok]{", "return v.(*Cursor), true", "}", "return nil, false"]

/-- CursorMap.Delete -/
def fxMapDelete : List String :=
  ["m.delete(strings.ToUpper(name))"]

/-- CursorMap.Exists -/
def fxMapExists : List String :=
  ["return m.exists(strings.ToUpper(name))"]

/-- CursorMap.Open -/
def fxMapOpen : List String :=
  ["if[cur, ok := m.Load(name.Literal); ok]{", "return cur.Open(ctx, scope, name, values)", "}", "return errUndeclaredCursor"]

/-- CursorMap.Close -/
def fxMapClose : List String :=
  ["if[cur, ok := m.Load(name.Literal); ok]{", "return cur.Close(name)", "}", "return errUndeclaredCursor"]

/-- CursorMap.Fetch -/
def fxMapFetch : List String :=
  ["if[cur, ok := m.Load(name.Literal); ok]{", "return cur.Fetch(name, position, number)", "}", "return nil, errUndeclaredCursor"]

/-- CursorMap.IsOpen -/
def fxMapIsOpen : List String :=
  ["if[cur, ok := m.Load(name.Literal); ok]{", "return cur.IsOpen(), nil", "}", "return ternary.FALSE, errUndeclaredCursor"]

/-- CursorMap.IsInRange -/
def fxMapIsInRange : List String :=
  ["if[cur, ok := m.Load(name.Literal); ok]{", "t, err := cur.IsInRange()", "if[err == errCursorClosed]{", "return ternary.FALSE, NewCursorClosedError(name)", "}", "return t, nil", "}", "return ternary.FALSE, errUndeclaredCursor"]

/-- CursorMap.Count -/
def fxMapCount : List String :=
  ["if[cur, ok := m.Load(name.Literal); ok]{", "i, err := cur.Count()", "if[err != nil]{", "return 0, NewCursorClosedError(name)", "}", "return i, nil", "}", "return 0, errUndeclaredCursor"]

/-- (*ReferenceScope).DeclareCursor -/
def fxScopeDeclareCursor : List String :=
  ["return rs.Blocks[0].Cursors.Declare(expr)"]

/-- (*ReferenceScope).DisposeCursor -/
def fxScopeDisposeCursor : List String :=
  ["range[i := rs.Blocks]{", "err := rs.Blocks[i].Cursors.Dispose(name)", "if[err == nil]{", "return nil", "}", "if[err == errPseudoCursor]{", "return NewPseudoCursorError(name)", "}", "}", "return NewUndeclaredCursorError(name)"]

/-- (*ReferenceScope).OpenCursor -/
def fxScopeOpenCursor : List String :=
  ["var err error", "range[i := rs.Blocks]{", "err = rs.Blocks[i].Cursors.Open(ctx, rs, name, values)", "if[err == nil]{", "return nil", "}", "if[err != errUndeclaredCursor]{", "return err", "}", "}", "return NewUndeclaredCursorError(name)"]

/-- (*ReferenceScope).CloseCursor -/
def fxScopeCloseCursor : List String :=
  ["range[i := rs.Blocks]{", "err := rs.Blocks[i].Cursors.Close(name)", "if[err == nil]{", "return nil", "}", "if[err != errUndeclaredCursor]{", "return err", "}", "}", "return NewUndeclaredCursorError(name)"]

/-- (*ReferenceScope).FetchCursor -/
def fxScopeFetchCursor : List String :=
  ["var values []value.Primary", "var err error", "range[i := rs.Blocks]{", "values, err = rs.Blocks[i].Cursors.Fetch(name, position, number)", "if[err == nil]{", "return values, nil", "}", "if[err != errUndeclaredCursor]{", "return nil, err", "}", "}", "return nil, NewUndeclaredCursorError(name)"]

/-- (*ReferenceScope).CursorIsOpen -/
def fxScopeCursorIsOpen : List String :=
  ["range[i := rs.Blocks]{", "if[ok, err := rs.Blocks[i].Cursors.IsOpen(name); err == nil]{", "return ok, nil", "}", "}", "return ternary.FALSE, NewUndeclaredCursorError(name)"]

/-- (*ReferenceScope).CursorIsInRange -/
def fxScopeCursorIsInRange : List String :=
  ["var result ternary.Value", "var err error", "range[i := rs.Blocks]{", "result, err = rs.Blocks[i].Cursors.IsInRange(name)", "if[err == nil]{", "return result, nil", "}", "if[err != errUndeclaredCursor]{", "return result, err", "}", "}", "return ternary.FALSE, NewUndeclaredCursorError(name)"]

/-- (*ReferenceScope).CursorCount -/
def fxScopeCursorCount : List String :=
  ["var count int", "var err error", "range[i := rs.Blocks]{", "count, err = rs.Blocks[i].Cursors.Count(name)", "if[err == nil]{", "return count, nil", "}", "if[err != errUndeclaredCursor]{", "return 0, err", "}", "}", "return 0, NewUndeclaredCursorError(name)"]

/-- func FetchCursor (query.go): position / number, the cursor is moved, THEN the number of variables is compared -/
def fxFetchCursor : List String :=
  ["position := parser.NEXT", "number := -1", "if[!fetchPosition.Position.IsEmpty()]{", "position = fetchPosition.Position.Token", "if[fetchPosition.Number != nil]{", "p, err := Evaluate(ctx, scope, fetchPosition.Number)", "if[err != nil]{", "return false, err", "}", "i := value.ToInteger(p)", "if[value.IsNull(i)]{", "return false, NewInvalidFetchPositionError(fetchPosition)", "}", "number = int(i.(*value.Integer).Raw())", "value.Discard(i)", "}", "}", "primaries, err := scope.FetchCursor(name, position, number)", "if[err != nil]{", "return false, err", "}", "if[primaries == nil]{", "return false, nil", "}", "if[len(vars) != len(primaries)]{", "return false, NewCursorFetchLengthError(name, len(primaries))", "}", "range[i, v := vars]{", "_, err := scope.SubstituteVariableDirectly(v, primaries[i])", "if[err != nil]{", "return false, err", "}", "}", "return true, nil"]

end Csvq.Ref
