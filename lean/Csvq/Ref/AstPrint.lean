/-
  Csvq.Ref.AstPrint — the REVIEWED print sequences of the String() methods of lib/parser/ast.go (hand-maintained).

  One entry per printable node: its fields, the fields the printer reads, and the ordered parts of the method body
  (condition, destination, value, fields read by the value / by the condition) in the notation of
  /verif/extract/astprint.  `Csvq.C18.gen_print_sequences_eq_ref` states that what the extractor derives from the
  current source equals this list, so any change of a printer (a dropped clause, a changed condition, a changed
  order, a new field) has to be reviewed here.  Reviewed against: the grammar productions that build each node
  (Csvq.Gen.AstPrint.setters), the print -> parse -> tree comparison of stream c18 on the clean tree, and the known
  findings F20 (IGNORE NULLS inside the parentheses), F30 (function name unquoted), F32 (?{n}).
-/
import Csvq.Gen.AstPrint
namespace Csvq.Ref.AstPrint
open Csvq.Gen.AstPrint (Part Node)

def node_PrimitiveType : Node :=
  { name := "PrimitiveType",
    fields := [("BaseExpr", "*BaseExpr"), ("Literal", "string"), ("Value", "value.Primary")],
    reads := ["Literal", "Value"],
    parts := [
      ⟨"0 < len(e.Literal) && type(e.Value) in [*value.String, *value.Datetime]", "return", "option.QuoteString(e.Literal)", ["Literal"], ["Literal", "Value"]⟩,
      ⟨"0 < len(e.Literal) && !(type(e.Value) in [*value.String, *value.Datetime]) && default", "return", "e.Literal", ["Literal"], ["Literal", "Value"]⟩,
      ⟨"", "return", "e.Value.String()", ["Value"], []⟩] }

def node_Placeholder : Node :=
  { name := "Placeholder",
    fields := [("BaseExpr", "*BaseExpr"), ("Literal", "string"), ("Ordinal", "int"), ("Name", "string")],
    reads := ["Literal", "Name", "Ordinal"],
    parts := [
      ⟨"len(e.Name) < 1", "return", "fmt.Sprintf(\"%s{%d}\", e.Literal, e.Ordinal)", ["Literal", "Ordinal"], ["Name"]⟩,
      ⟨"", "return", "e.Literal", ["Literal"], []⟩] }

def node_Identifier : Node :=
  { name := "Identifier",
    fields := [("BaseExpr", "*BaseExpr"), ("Literal", "string"), ("Quoted", "bool")],
    reads := ["Literal", "Quoted"],
    parts := [
      ⟨"e.Quoted", "return", "option.QuoteIdentifier(e.Literal)", ["Literal"], ["Quoted"]⟩,
      ⟨"", "return", "e.Literal", ["Literal"], []⟩] }

def node_Constant : Node :=
  { name := "Constant",
    fields := [("BaseExpr", "*BaseExpr"), ("Space", "string"), ("Name", "string")],
    reads := ["Name", "Space"],
    parts := [
      ⟨"", "return", "strings.ToUpper(e.Space) + ConstantDelimiter + strings.ToUpper(e.Name)", ["Name", "Space"], []⟩] }

def node_FieldReference : Node :=
  { name := "FieldReference",
    fields := [("BaseExpr", "*BaseExpr"), ("View", "Identifier"), ("Column", "QueryExpression")],
    reads := ["Column", "View"],
    parts := [
      ⟨"", "s", "e.Column.String()", ["Column"], []⟩,
      ⟨"0 < len(e.View.Literal)", "s", "e.View.String() + \".\" + s", ["View"], ["View"]⟩,
      ⟨"", "return", "s", [], []⟩] }

def node_ColumnNumber : Node :=
  { name := "ColumnNumber",
    fields := [("BaseExpr", "*BaseExpr"), ("View", "Identifier"), ("Number", "*value.Integer")],
    reads := ["Number", "View"],
    parts := [
      ⟨"", "return", "e.View.String() + \".\" + e.Number.String()", ["Number", "View"], []⟩] }

def node_Parentheses : Node :=
  { name := "Parentheses",
    fields := [("BaseExpr", "*BaseExpr"), ("Expr", "QueryExpression")],
    reads := ["Expr"],
    parts := [
      ⟨"", "return", "putParentheses(e.Expr.String())", ["Expr"], []⟩] }

def node_RowValue : Node :=
  { name := "RowValue",
    fields := [("BaseExpr", "*BaseExpr"), ("Value", "QueryExpression")],
    reads := ["Value"],
    parts := [
      ⟨"", "return", "e.Value.String()", ["Value"], []⟩] }

def node_ValueList : Node :=
  { name := "ValueList",
    fields := [("BaseExpr", "*BaseExpr"), ("Values", "[]QueryExpression")],
    reads := ["Values"],
    parts := [
      ⟨"", "return", "putParentheses(listQueryExpressions(e.Values))", ["Values"], []⟩] }

def node_RowValueList : Node :=
  { name := "RowValueList",
    fields := [("BaseExpr", "*BaseExpr"), ("RowValues", "[]QueryExpression")],
    reads := ["RowValues"],
    parts := [
      ⟨"", "return", "putParentheses(listQueryExpressions(e.RowValues))", ["RowValues"], []⟩] }

def node_SelectQuery : Node :=
  { name := "SelectQuery",
    fields := [("BaseExpr", "*BaseExpr"), ("WithClause", "QueryExpression"), ("SelectEntity", "QueryExpression"), ("OrderByClause", "QueryExpression"), ("LimitClause", "QueryExpression"), ("Context", "Token")],
    reads := ["Context", "LimitClause", "OrderByClause", "SelectEntity", "WithClause"],
    parts := [
      ⟨"", "s", "make([]string, 0)", [], []⟩,
      ⟨"e.WithClause != nil", "s+", "e.WithClause.String()", ["WithClause"], ["WithClause"]⟩,
      ⟨"", "s+", "e.SelectEntity.String()", ["SelectEntity"], []⟩,
      ⟨"e.OrderByClause != nil", "s+", "e.OrderByClause.String()", ["OrderByClause"], ["OrderByClause"]⟩,
      ⟨"e.LimitClause != nil", "s+", "e.LimitClause.String()", ["LimitClause"], ["LimitClause"]⟩,
      ⟨"e.IsForUpdate()", "s+", "keyword(FOR)", [], ["Context"]⟩,
      ⟨"e.IsForUpdate()", "s+", "e.Context.String()", ["Context"], ["Context"]⟩,
      ⟨"", "return", "joinWithSpace(s)", [], []⟩] }

def node_SelectSet : Node :=
  { name := "SelectSet",
    fields := [("BaseExpr", "*BaseExpr"), ("LHS", "QueryExpression"), ("Operator", "Token"), ("All", "Token"), ("RHS", "QueryExpression")],
    reads := ["All", "LHS", "Operator", "RHS"],
    parts := [
      ⟨"", "s+", "e.LHS.String()", ["LHS"], []⟩,
      ⟨"", "s+", "e.Operator.String()", ["Operator"], []⟩,
      ⟨"!e.All.IsEmpty()", "s+", "e.All.String()", ["All"], ["All"]⟩,
      ⟨"", "s+", "e.RHS.String()", ["RHS"], []⟩,
      ⟨"", "return", "joinWithSpace(s)", [], []⟩] }

def node_SelectEntity : Node :=
  { name := "SelectEntity",
    fields := [("BaseExpr", "*BaseExpr"), ("SelectClause", "QueryExpression"), ("IntoClause", "QueryExpression"), ("FromClause", "QueryExpression"), ("WhereClause", "QueryExpression"), ("GroupByClause", "QueryExpression"), ("HavingClause", "QueryExpression")],
    reads := ["FromClause", "GroupByClause", "HavingClause", "IntoClause", "SelectClause", "WhereClause"],
    parts := [
      ⟨"", "s+", "e.SelectClause.String()", ["SelectClause"], []⟩,
      ⟨"e.IntoClause != nil", "s+", "e.IntoClause.String()", ["IntoClause"], ["IntoClause"]⟩,
      ⟨"e.FromClause != nil", "s+", "e.FromClause.String()", ["FromClause"], ["FromClause"]⟩,
      ⟨"e.WhereClause != nil", "s+", "e.WhereClause.String()", ["WhereClause"], ["WhereClause"]⟩,
      ⟨"e.GroupByClause != nil", "s+", "e.GroupByClause.String()", ["GroupByClause"], ["GroupByClause"]⟩,
      ⟨"e.HavingClause != nil", "s+", "e.HavingClause.String()", ["HavingClause"], ["HavingClause"]⟩,
      ⟨"", "return", "joinWithSpace(s)", [], []⟩] }

def node_SelectClause : Node :=
  { name := "SelectClause",
    fields := [("BaseExpr", "*BaseExpr"), ("Distinct", "Token"), ("Fields", "[]QueryExpression")],
    reads := ["Distinct", "Fields"],
    parts := [
      ⟨"", "s+", "keyword(SELECT)", [], []⟩,
      ⟨"e.IsDistinct()", "s+", "e.Distinct.String()", ["Distinct"], ["Distinct"]⟩,
      ⟨"", "s+", "listQueryExpressions(e.Fields)", ["Fields"], []⟩,
      ⟨"", "return", "joinWithSpace(s)", [], []⟩] }

def node_IntoClause : Node :=
  { name := "IntoClause",
    fields := [("BaseExpr", "*BaseExpr"), ("Variables", "[]Variable")],
    reads := ["Variables"],
    parts := [
      ⟨"", "vars", "make([]QueryExpression, 0, len(e.Variables))", ["Variables"], []⟩,
      ⟨"range e.Variables", "vars+", "v", [], ["Variables"]⟩,
      ⟨"", "return:joinWithSpace+", "keyword(INTO)", [], []⟩,
      ⟨"", "return:joinWithSpace+", "listQueryExpressions(vars)", [], []⟩] }

def node_FromClause : Node :=
  { name := "FromClause",
    fields := [("BaseExpr", "*BaseExpr"), ("Tables", "[]QueryExpression")],
    reads := ["Tables"],
    parts := [
      ⟨"", "s+", "keyword(FROM)", [], []⟩,
      ⟨"", "s+", "listQueryExpressions(e.Tables)", ["Tables"], []⟩,
      ⟨"", "return", "joinWithSpace(s)", [], []⟩] }

def node_WhereClause : Node :=
  { name := "WhereClause",
    fields := [("BaseExpr", "*BaseExpr"), ("Filter", "QueryExpression")],
    reads := ["Filter"],
    parts := [
      ⟨"", "s+", "keyword(WHERE)", [], []⟩,
      ⟨"", "s+", "e.Filter.String()", ["Filter"], []⟩,
      ⟨"", "return", "joinWithSpace(s)", [], []⟩] }

def node_GroupByClause : Node :=
  { name := "GroupByClause",
    fields := [("BaseExpr", "*BaseExpr"), ("Items", "[]QueryExpression")],
    reads := ["Items"],
    parts := [
      ⟨"", "s+", "keyword(GROUP)", [], []⟩,
      ⟨"", "s+", "keyword(BY)", [], []⟩,
      ⟨"", "s+", "listQueryExpressions(e.Items)", ["Items"], []⟩,
      ⟨"", "return", "joinWithSpace(s)", [], []⟩] }

def node_HavingClause : Node :=
  { name := "HavingClause",
    fields := [("BaseExpr", "*BaseExpr"), ("Filter", "QueryExpression")],
    reads := ["Filter"],
    parts := [
      ⟨"", "s+", "keyword(HAVING)", [], []⟩,
      ⟨"", "s+", "e.Filter.String()", ["Filter"], []⟩,
      ⟨"", "return", "joinWithSpace(s)", [], []⟩] }

def node_OrderByClause : Node :=
  { name := "OrderByClause",
    fields := [("BaseExpr", "*BaseExpr"), ("Items", "[]QueryExpression")],
    reads := ["Items"],
    parts := [
      ⟨"", "s+", "keyword(ORDER)", [], []⟩,
      ⟨"", "s+", "keyword(BY)", [], []⟩,
      ⟨"", "s+", "listQueryExpressions(e.Items)", ["Items"], []⟩,
      ⟨"", "return", "joinWithSpace(s)", [], []⟩] }

def node_LimitClause : Node :=
  { name := "LimitClause",
    fields := [("BaseExpr", "*BaseExpr"), ("Type", "Token"), ("Position", "Token"), ("Value", "QueryExpression"), ("Unit", "Token"), ("Restriction", "Token"), ("OffsetClause", "QueryExpression")],
    reads := ["OffsetClause", "Position", "Restriction", "Type", "Unit", "Value"],
    parts := [
      ⟨"", "s", "make([]string, 0, 6)", [], []⟩,
      ⟨"e.Type.Token == LIMIT", "s+", "e.Type.String()", ["Type"], ["Type"]⟩,
      ⟨"e.Type.Token == LIMIT", "s+", "e.Value.String()", ["Value"], ["Type"]⟩,
      ⟨"e.Type.Token == LIMIT && !e.Unit.IsEmpty()", "s+", "e.Unit.String()", ["Unit"], ["Type", "Unit"]⟩,
      ⟨"e.Type.Token == LIMIT && !e.Restriction.IsEmpty()", "s+...", "e.restrictionString()", ["Restriction"], ["Restriction", "Type"]⟩,
      ⟨"e.Type.Token == LIMIT && e.OffsetClause != nil", "s+", "e.OffsetClause.String()", ["OffsetClause"], ["OffsetClause", "Type"]⟩,
      ⟨"!(e.Type.Token == LIMIT) && e.Type.Token == FETCH && e.OffsetClause != nil", "s+", "e.OffsetClause.String()", ["OffsetClause"], ["OffsetClause", "Type"]⟩,
      ⟨"!(e.Type.Token == LIMIT) && e.Type.Token == FETCH", "s+", "e.Type.String()", ["Type"], ["Type"]⟩,
      ⟨"!(e.Type.Token == LIMIT) && e.Type.Token == FETCH", "s+", "e.Position.String()", ["Position"], ["Type"]⟩,
      ⟨"!(e.Type.Token == LIMIT) && e.Type.Token == FETCH", "s+", "e.Value.String()", ["Value"], ["Type"]⟩,
      ⟨"!(e.Type.Token == LIMIT) && e.Type.Token == FETCH", "s+", "e.Unit.String()", ["Unit"], ["Type"]⟩,
      ⟨"!(e.Type.Token == LIMIT) && e.Type.Token == FETCH && !e.Restriction.IsEmpty()", "s+...", "e.restrictionString()", ["Restriction"], ["Restriction", "Type"]⟩,
      ⟨"!(e.Type.Token == LIMIT) && !(e.Type.Token == FETCH) && e.OffsetClause != nil", "s+", "e.OffsetClause.String()", ["OffsetClause"], ["OffsetClause", "Type"]⟩,
      ⟨"", "return", "joinWithSpace(s)", [], []⟩] }

def node_OffsetClause : Node :=
  { name := "OffsetClause",
    fields := [("BaseExpr", "*BaseExpr"), ("Value", "QueryExpression"), ("Unit", "Token")],
    reads := ["Unit", "Value"],
    parts := [
      ⟨"", "s", "make([]string, 2, 3)", [], []⟩,
      ⟨"", "s[0]", "keyword(OFFSET)", [], []⟩,
      ⟨"", "s[1]", "e.Value.String()", ["Value"], []⟩,
      ⟨"!e.Unit.IsEmpty()", "s+", "e.Unit.String()", ["Unit"], ["Unit"]⟩,
      ⟨"", "return", "joinWithSpace(s)", [], []⟩] }

def node_WithClause : Node :=
  { name := "WithClause",
    fields := [("BaseExpr", "*BaseExpr"), ("InlineTables", "[]QueryExpression")],
    reads := ["InlineTables"],
    parts := [
      ⟨"", "s+", "keyword(WITH)", [], []⟩,
      ⟨"", "s+", "listQueryExpressions(e.InlineTables)", ["InlineTables"], []⟩,
      ⟨"", "return", "joinWithSpace(s)", [], []⟩] }

def node_InlineTable : Node :=
  { name := "InlineTable",
    fields := [("BaseExpr", "*BaseExpr"), ("Recursive", "Token"), ("Name", "Identifier"), ("Fields", "[]QueryExpression"), ("Query", "SelectQuery")],
    reads := ["Fields", "Name", "Query", "Recursive"],
    parts := [
      ⟨"", "s", "make([]string, 0)", [], []⟩,
      ⟨"!e.Recursive.IsEmpty()", "s+", "e.Recursive.String()", ["Recursive"], ["Recursive"]⟩,
      ⟨"", "s+", "e.Name.String()", ["Name"], []⟩,
      ⟨"e.Fields != nil", "s+", "putParentheses(listQueryExpressions(e.Fields))", ["Fields"], ["Fields"]⟩,
      ⟨"", "s+", "keyword(AS)", [], []⟩,
      ⟨"", "s+", "putParentheses(e.Query.String())", ["Query"], []⟩,
      ⟨"", "return", "joinWithSpace(s)", [], []⟩] }

def node_Subquery : Node :=
  { name := "Subquery",
    fields := [("BaseExpr", "*BaseExpr"), ("Query", "SelectQuery")],
    reads := ["Query"],
    parts := [
      ⟨"", "return", "putParentheses(e.Query.String())", ["Query"], []⟩] }

def node_Url : Node :=
  { name := "Url",
    fields := [("BaseExpr", "*BaseExpr"), ("Raw", "string")],
    reads := ["Raw"],
    parts := [
      ⟨"", "return", "e.Raw", ["Raw"], []⟩] }

def node_TableFunction : Node :=
  { name := "TableFunction",
    fields := [("BaseExpr", "*BaseExpr"), ("Name", "string"), ("Args", "[]QueryExpression")],
    reads := ["Args", "Name"],
    parts := [
      ⟨"", "return", "strings.ToUpper(e.Name) + ConstantDelimiter + putParentheses(listQueryExpressions(e.Args))", ["Args", "Name"], []⟩] }

def node_FormatSpecifiedFunction : Node :=
  { name := "FormatSpecifiedFunction",
    fields := [("BaseExpr", "*BaseExpr"), ("Type", "Token"), ("FormatElement", "QueryExpression"), ("Path", "QueryExpression"), ("Args", "[]QueryExpression")],
    reads := ["Args", "FormatElement", "Path", "Type"],
    parts := [
      ⟨"", "allArgs", "make([]QueryExpression, 0, len(e.Args)+2)", ["Args"], []⟩,
      ⟨"e.FormatElement != nil", "allArgs+", "e.FormatElement", ["FormatElement"], ["FormatElement"]⟩,
      ⟨"", "allArgs+", "e.Path", ["Path"], []⟩,
      ⟨"e.Args != nil", "allArgs+...", "e.Args", ["Args"], ["Args"]⟩,
      ⟨"", "return", "e.Type.String() + putParentheses(listQueryExpressions(allArgs))", ["Type"], []⟩] }

def node_JsonQuery : Node :=
  { name := "JsonQuery",
    fields := [("BaseExpr", "*BaseExpr"), ("JsonQuery", "Token"), ("Query", "QueryExpression"), ("JsonText", "QueryExpression")],
    reads := ["JsonQuery", "JsonText", "Query"],
    parts := [
      ⟨"", "return", "e.JsonQuery.String() + putParentheses(e.Query.String()+\", \"+e.JsonText.String())", ["JsonQuery", "JsonText", "Query"], []⟩] }

def node_Comparison : Node :=
  { name := "Comparison",
    fields := [("BaseExpr", "*BaseExpr"), ("LHS", "QueryExpression"), ("Operator", "Token"), ("RHS", "QueryExpression")],
    reads := ["LHS", "Operator", "RHS"],
    parts := [
      ⟨"", "s+", "e.LHS.String()", ["LHS"], []⟩,
      ⟨"", "s+", "e.Operator.String()", ["Operator"], []⟩,
      ⟨"", "s+", "e.RHS.String()", ["RHS"], []⟩,
      ⟨"", "return", "joinWithSpace(s)", [], []⟩] }

def node_Is : Node :=
  { name := "Is",
    fields := [("BaseExpr", "*BaseExpr"), ("LHS", "QueryExpression"), ("RHS", "QueryExpression"), ("Negation", "Token")],
    reads := ["LHS", "Negation", "RHS"],
    parts := [
      ⟨"", "s+", "e.LHS.String()", ["LHS"], []⟩,
      ⟨"", "s+", "keyword(IS)", [], []⟩,
      ⟨"e.IsNegated()", "s+", "e.Negation.String()", ["Negation"], ["Negation"]⟩,
      ⟨"", "s+", "e.RHS.String()", ["RHS"], []⟩,
      ⟨"", "return", "joinWithSpace(s)", [], []⟩] }

def node_Between : Node :=
  { name := "Between",
    fields := [("BaseExpr", "*BaseExpr"), ("LHS", "QueryExpression"), ("Low", "QueryExpression"), ("High", "QueryExpression"), ("Negation", "Token")],
    reads := ["High", "LHS", "Low", "Negation"],
    parts := [
      ⟨"", "s+", "e.LHS.String()", ["LHS"], []⟩,
      ⟨"e.IsNegated()", "s+", "e.Negation.String()", ["Negation"], ["Negation"]⟩,
      ⟨"", "s+", "keyword(BETWEEN)", [], []⟩,
      ⟨"", "s+", "e.Low.String()", ["Low"], []⟩,
      ⟨"", "s+", "keyword(AND)", [], []⟩,
      ⟨"", "s+", "e.High.String()", ["High"], []⟩,
      ⟨"", "return", "joinWithSpace(s)", [], []⟩] }

def node_In : Node :=
  { name := "In",
    fields := [("BaseExpr", "*BaseExpr"), ("LHS", "QueryExpression"), ("Values", "QueryExpression"), ("Negation", "Token")],
    reads := ["LHS", "Negation", "Values"],
    parts := [
      ⟨"", "s+", "e.LHS.String()", ["LHS"], []⟩,
      ⟨"e.IsNegated()", "s+", "e.Negation.String()", ["Negation"], ["Negation"]⟩,
      ⟨"", "s+", "keyword(IN)", [], []⟩,
      ⟨"", "s+", "e.Values.String()", ["Values"], []⟩,
      ⟨"", "return", "joinWithSpace(s)", [], []⟩] }

def node_All : Node :=
  { name := "All",
    fields := [("BaseExpr", "*BaseExpr"), ("LHS", "QueryExpression"), ("Operator", "Token"), ("Values", "QueryExpression")],
    reads := ["LHS", "Operator", "Values"],
    parts := [
      ⟨"", "s+", "e.LHS.String()", ["LHS"], []⟩,
      ⟨"", "s+", "e.Operator.String()", ["Operator"], []⟩,
      ⟨"", "s+", "keyword(ALL)", [], []⟩,
      ⟨"", "s+", "e.Values.String()", ["Values"], []⟩,
      ⟨"", "return", "joinWithSpace(s)", [], []⟩] }

def node_Any : Node :=
  { name := "Any",
    fields := [("BaseExpr", "*BaseExpr"), ("LHS", "QueryExpression"), ("Operator", "Token"), ("Values", "QueryExpression")],
    reads := ["LHS", "Operator", "Values"],
    parts := [
      ⟨"", "s+", "e.LHS.String()", ["LHS"], []⟩,
      ⟨"", "s+", "e.Operator.String()", ["Operator"], []⟩,
      ⟨"", "s+", "keyword(ANY)", [], []⟩,
      ⟨"", "s+", "e.Values.String()", ["Values"], []⟩,
      ⟨"", "return", "joinWithSpace(s)", [], []⟩] }

def node_Like : Node :=
  { name := "Like",
    fields := [("BaseExpr", "*BaseExpr"), ("LHS", "QueryExpression"), ("Pattern", "QueryExpression"), ("Negation", "Token")],
    reads := ["LHS", "Negation", "Pattern"],
    parts := [
      ⟨"", "s+", "e.LHS.String()", ["LHS"], []⟩,
      ⟨"e.IsNegated()", "s+", "e.Negation.String()", ["Negation"], ["Negation"]⟩,
      ⟨"", "s+", "keyword(LIKE)", [], []⟩,
      ⟨"", "s+", "e.Pattern.String()", ["Pattern"], []⟩,
      ⟨"", "return", "joinWithSpace(s)", [], []⟩] }

def node_Exists : Node :=
  { name := "Exists",
    fields := [("BaseExpr", "*BaseExpr"), ("Query", "Subquery")],
    reads := ["Query"],
    parts := [
      ⟨"", "s+", "keyword(EXISTS)", [], []⟩,
      ⟨"", "s+", "e.Query.String()", ["Query"], []⟩,
      ⟨"", "return", "joinWithSpace(s)", [], []⟩] }

def node_Arithmetic : Node :=
  { name := "Arithmetic",
    fields := [("BaseExpr", "*BaseExpr"), ("LHS", "QueryExpression"), ("Operator", "Token"), ("RHS", "QueryExpression")],
    reads := ["LHS", "Operator", "RHS"],
    parts := [
      ⟨"", "s+", "e.LHS.String()", ["LHS"], []⟩,
      ⟨"", "s+", "e.Operator.String()", ["Operator"], []⟩,
      ⟨"", "s+", "e.RHS.String()", ["RHS"], []⟩,
      ⟨"", "return", "joinWithSpace(s)", [], []⟩] }

def node_UnaryArithmetic : Node :=
  { name := "UnaryArithmetic",
    fields := [("BaseExpr", "*BaseExpr"), ("Operand", "QueryExpression"), ("Operator", "Token")],
    reads := ["Operand", "Operator"],
    parts := [
      ⟨"", "operand", "e.Operand.String()", ["Operand"], []⟩,
      ⟨"e.Operator.Token == '-' && strings.HasPrefix(operand, \"-\")", "return", "e.Operator.String() + \" \" + operand", ["Operator"], ["Operator"]⟩,
      ⟨"", "return", "e.Operator.String() + operand", ["Operator"], []⟩] }

def node_Logic : Node :=
  { name := "Logic",
    fields := [("BaseExpr", "*BaseExpr"), ("LHS", "QueryExpression"), ("Operator", "Token"), ("RHS", "QueryExpression")],
    reads := ["LHS", "Operator", "RHS"],
    parts := [
      ⟨"", "s+", "e.LHS.String()", ["LHS"], []⟩,
      ⟨"", "s+", "e.Operator.String()", ["Operator"], []⟩,
      ⟨"", "s+", "e.RHS.String()", ["RHS"], []⟩,
      ⟨"", "return", "joinWithSpace(s)", [], []⟩] }

def node_UnaryLogic : Node :=
  { name := "UnaryLogic",
    fields := [("BaseExpr", "*BaseExpr"), ("Operand", "QueryExpression"), ("Operator", "Token")],
    reads := ["Operand", "Operator"],
    parts := [
      ⟨"e.Operator.Token == NOT", "s+", "e.Operator.String()", ["Operator"], ["Operator"]⟩,
      ⟨"e.Operator.Token == NOT", "s+", "e.Operand.String()", ["Operand"], ["Operator"]⟩,
      ⟨"e.Operator.Token == NOT", "return", "joinWithSpace(s)", [], ["Operator"]⟩,
      ⟨"", "operand", "e.Operand.String()", ["Operand"], []⟩,
      ⟨"strings.HasPrefix(operand, \"!\") || strings.HasPrefix(operand, \":\")", "return", "e.Operator.String() + \" \" + operand", ["Operator"], []⟩,
      ⟨"", "return", "e.Operator.String() + operand", ["Operator"], []⟩] }

def node_Concat : Node :=
  { name := "Concat",
    fields := [("BaseExpr", "*BaseExpr"), ("Items", "[]QueryExpression")],
    reads := ["Items"],
    parts := [
      ⟨"", "s", "make([]string, len(e.Items))", ["Items"], []⟩,
      ⟨"range e.Items", "s[i]", "v.String()", [], ["Items"]⟩,
      ⟨"", "return", "strings.Join(s, \" || \")", [], []⟩] }

def node_Function : Node :=
  { name := "Function",
    fields := [("BaseExpr", "*BaseExpr"), ("Name", "string"), ("Args", "[]QueryExpression"), ("From", "Token"), ("For", "Token")],
    reads := ["Args", "For", "From", "Name"],
    parts := [
      ⟨"strings.EqualFold(e.Name, keyword(SUBSTRING)) && !e.From.IsEmpty()", "elems", "make([]string, 0, 5)", [], ["From", "Name"]⟩,
      ⟨"strings.EqualFold(e.Name, keyword(SUBSTRING)) && !e.From.IsEmpty()", "elems+", "e.Args[0].String()", ["Args"], ["From", "Name"]⟩,
      ⟨"strings.EqualFold(e.Name, keyword(SUBSTRING)) && !e.From.IsEmpty()", "elems+", "e.From.String()", ["From"], ["From", "Name"]⟩,
      ⟨"strings.EqualFold(e.Name, keyword(SUBSTRING)) && !e.From.IsEmpty()", "elems+", "e.Args[1].String()", ["Args"], ["From", "Name"]⟩,
      ⟨"strings.EqualFold(e.Name, keyword(SUBSTRING)) && !e.From.IsEmpty() && !e.For.IsEmpty()", "elems+", "e.For.String()", ["For"], ["For", "From", "Name"]⟩,
      ⟨"strings.EqualFold(e.Name, keyword(SUBSTRING)) && !e.From.IsEmpty() && !e.For.IsEmpty()", "elems+", "e.Args[2].String()", ["Args"], ["For", "From", "Name"]⟩,
      ⟨"strings.EqualFold(e.Name, keyword(SUBSTRING)) && !e.From.IsEmpty()", "args", "joinWithSpace(elems)", [], ["From", "Name"]⟩,
      ⟨"!(strings.EqualFold(e.Name, keyword(SUBSTRING)) && !e.From.IsEmpty())", "args", "listQueryExpressions(e.Args)", ["Args"], ["From", "Name"]⟩,
      ⟨"", "return", "strings.ToUpper(e.Name) + \"(\" + args + \")\"", ["Name"], []⟩] }

def node_AggregateFunction : Node :=
  { name := "AggregateFunction",
    fields := [("BaseExpr", "*BaseExpr"), ("Name", "string"), ("Distinct", "Token"), ("Args", "[]QueryExpression")],
    reads := ["Args", "Distinct", "Name"],
    parts := [
      ⟨"", "s", "make([]string, 0)", [], []⟩,
      ⟨"!e.Distinct.IsEmpty()", "s+", "e.Distinct.String()", ["Distinct"], ["Distinct"]⟩,
      ⟨"", "s+", "listQueryExpressions(e.Args)", ["Args"], []⟩,
      ⟨"", "return", "strings.ToUpper(e.Name) + \"(\" + joinWithSpace(s) + \")\"", ["Name"], []⟩] }

def node_Table : Node :=
  { name := "Table",
    fields := [("BaseExpr", "*BaseExpr"), ("Lateral", "Token"), ("Object", "QueryExpression"), ("As", "Token"), ("Alias", "QueryExpression")],
    reads := ["Alias", "As", "Lateral", "Object"],
    parts := [
      ⟨"", "s", "make([]string, 0, 4)", [], []⟩,
      ⟨"!e.Lateral.IsEmpty()", "s+", "e.Lateral.String()", ["Lateral"], ["Lateral"]⟩,
      ⟨"", "s+", "e.Object.String()", ["Object"], []⟩,
      ⟨"!e.As.IsEmpty()", "s+", "e.As.String()", ["As"], ["As"]⟩,
      ⟨"e.Alias != nil", "s+", "e.Alias.String()", ["Alias"], ["Alias"]⟩,
      ⟨"", "return", "joinWithSpace(s)", [], []⟩] }

def node_Join : Node :=
  { name := "Join",
    fields := [("BaseExpr", "*BaseExpr"), ("Table", "QueryExpression"), ("JoinTable", "QueryExpression"), ("Natural", "Token"), ("JoinType", "Token"), ("Direction", "Token"), ("Condition", "QueryExpression")],
    reads := ["Condition", "Direction", "JoinTable", "JoinType", "Natural", "Table"],
    parts := [
      ⟨"", "s+", "e.Table.String()", ["Table"], []⟩,
      ⟨"!e.Natural.IsEmpty()", "s+", "e.Natural.String()", ["Natural"], ["Natural"]⟩,
      ⟨"!e.Direction.IsEmpty()", "s+", "e.Direction.String()", ["Direction"], ["Direction"]⟩,
      ⟨"!e.JoinType.IsEmpty()", "s+", "e.JoinType.String()", ["JoinType"], ["JoinType"]⟩,
      ⟨"", "s+", "keyword(JOIN)", [], []⟩,
      ⟨"", "s+", "e.JoinTable.String()", ["JoinTable"], []⟩,
      ⟨"e.Condition != nil", "s+", "e.Condition.String()", ["Condition"], ["Condition"]⟩,
      ⟨"", "return", "joinWithSpace(s)", [], []⟩] }

def node_JoinCondition : Node :=
  { name := "JoinCondition",
    fields := [("BaseExpr", "*BaseExpr"), ("On", "QueryExpression"), ("Using", "[]QueryExpression")],
    reads := ["On", "Using"],
    parts := [
      ⟨"e.On != nil", "s+", "keyword(ON)", [], ["On"]⟩,
      ⟨"e.On != nil", "s+", "e.On.String()", ["On"], ["On"]⟩,
      ⟨"!(e.On != nil)", "s+", "keyword(USING)", [], ["On"]⟩,
      ⟨"!(e.On != nil)", "s+", "putParentheses(listQueryExpressions(e.Using))", ["Using"], ["On"]⟩,
      ⟨"", "return", "joinWithSpace(s)", [], []⟩] }

def node_Field : Node :=
  { name := "Field",
    fields := [("BaseExpr", "*BaseExpr"), ("Object", "QueryExpression"), ("As", "Token"), ("Alias", "QueryExpression")],
    reads := ["Alias", "As", "Object"],
    parts := [
      ⟨"", "s+", "e.Object.String()", ["Object"], []⟩,
      ⟨"!e.As.IsEmpty()", "s+", "e.As.String()", ["As"], ["As"]⟩,
      ⟨"e.Alias != nil", "s+", "e.Alias.String()", ["Alias"], ["Alias"]⟩,
      ⟨"", "return", "joinWithSpace(s)", [], []⟩] }

def node_AllColumns : Node :=
  { name := "AllColumns",
    fields := [("BaseExpr", "*BaseExpr")],
    reads := [],
    parts := [
      ⟨"", "return", "\"*\"", [], []⟩] }

def node_Dual : Node :=
  { name := "Dual",
    fields := [("BaseExpr", "*BaseExpr")],
    reads := [],
    parts := [
      ⟨"", "return", "keyword(DUAL)", [], []⟩] }

def node_Stdin : Node :=
  { name := "Stdin",
    fields := [("BaseExpr", "*BaseExpr")],
    reads := [],
    parts := [
      ⟨"", "return", "keyword(STDIN)", [], []⟩] }

def node_OrderItem : Node :=
  { name := "OrderItem",
    fields := [("BaseExpr", "*BaseExpr"), ("Value", "QueryExpression"), ("Direction", "Token"), ("NullsPosition", "Token")],
    reads := ["Direction", "NullsPosition", "Value"],
    parts := [
      ⟨"", "s+", "e.Value.String()", ["Value"], []⟩,
      ⟨"!e.Direction.IsEmpty()", "s+", "e.Direction.String()", ["Direction"], ["Direction"]⟩,
      ⟨"!e.NullsPosition.IsEmpty()", "s+", "keyword(NULLS)", [], ["NullsPosition"]⟩,
      ⟨"!e.NullsPosition.IsEmpty()", "s+", "e.NullsPosition.String()", ["NullsPosition"], ["NullsPosition"]⟩,
      ⟨"", "return", "joinWithSpace(s)", [], []⟩] }

def node_CaseExpr : Node :=
  { name := "CaseExpr",
    fields := [("BaseExpr", "*BaseExpr"), ("Value", "QueryExpression"), ("When", "[]QueryExpression"), ("Else", "QueryExpression")],
    reads := ["Else", "Value", "When"],
    parts := [
      ⟨"", "s+", "keyword(CASE)", [], []⟩,
      ⟨"e.Value != nil", "s+", "e.Value.String()", ["Value"], ["Value"]⟩,
      ⟨"range e.When", "s+", "v.String()", [], ["When"]⟩,
      ⟨"e.Else != nil", "s+", "e.Else.String()", ["Else"], ["Else"]⟩,
      ⟨"", "s+", "keyword(END)", [], []⟩,
      ⟨"", "return", "joinWithSpace(s)", [], []⟩] }

def node_CaseExprWhen : Node :=
  { name := "CaseExprWhen",
    fields := [("BaseExpr", "*BaseExpr"), ("Condition", "QueryExpression"), ("Result", "QueryExpression")],
    reads := ["Condition", "Result"],
    parts := [
      ⟨"", "s+", "keyword(WHEN)", [], []⟩,
      ⟨"", "s+", "e.Condition.String()", ["Condition"], []⟩,
      ⟨"", "s+", "keyword(THEN)", [], []⟩,
      ⟨"", "s+", "e.Result.String()", ["Result"], []⟩,
      ⟨"", "return", "joinWithSpace(s)", [], []⟩] }

def node_CaseExprElse : Node :=
  { name := "CaseExprElse",
    fields := [("BaseExpr", "*BaseExpr"), ("Result", "QueryExpression")],
    reads := ["Result"],
    parts := [
      ⟨"", "s+", "keyword(ELSE)", [], []⟩,
      ⟨"", "s+", "e.Result.String()", ["Result"], []⟩,
      ⟨"", "return", "joinWithSpace(s)", [], []⟩] }

def node_ListFunction : Node :=
  { name := "ListFunction",
    fields := [("BaseExpr", "*BaseExpr"), ("Name", "string"), ("Distinct", "Token"), ("Args", "[]QueryExpression"), ("OrderBy", "QueryExpression")],
    reads := ["Args", "Distinct", "Name", "OrderBy"],
    parts := [
      ⟨"", "args", "make([]string, 0, 3)", [], []⟩,
      ⟨"!e.Distinct.IsEmpty()", "args+", "e.Distinct.String()", ["Distinct"], ["Distinct"]⟩,
      ⟨"", "args+", "listQueryExpressions(e.Args)", ["Args"], []⟩,
      ⟨"", "s+", "strings.ToUpper(e.Name) + \"(\" + joinWithSpace(args) + \")\"", ["Name"], []⟩,
      ⟨"e.OrderBy != nil", "s+", "keyword(WITHIN)", [], ["OrderBy"]⟩,
      ⟨"e.OrderBy != nil", "s+", "keyword(GROUP)", [], ["OrderBy"]⟩,
      ⟨"e.OrderBy != nil", "s+", "\"(\" + e.OrderBy.String() + \")\"", ["OrderBy"], ["OrderBy"]⟩,
      ⟨"", "return", "joinWithSpace(s)", [], []⟩] }

def node_AnalyticFunction : Node :=
  { name := "AnalyticFunction",
    fields := [("BaseExpr", "*BaseExpr"), ("Name", "string"), ("Distinct", "Token"), ("Args", "[]QueryExpression"), ("IgnoreType", "Token"), ("AnalyticClause", "AnalyticClause")],
    reads := ["AnalyticClause", "Args", "Distinct", "IgnoreType", "Name"],
    parts := [
      ⟨"", "args", "make([]string, 0, 6)", [], []⟩,
      ⟨"!e.Distinct.IsEmpty()", "args+", "e.Distinct.String()", ["Distinct"], ["Distinct"]⟩,
      ⟨"e.Args != nil", "args+", "listQueryExpressions(e.Args)", ["Args"], ["Args"]⟩,
      ⟨"!e.IgnoreType.IsEmpty()", "args+", "keyword(IGNORE)", [], ["IgnoreType"]⟩,
      ⟨"!e.IgnoreType.IsEmpty()", "args+", "e.IgnoreType.String()", ["IgnoreType"], ["IgnoreType"]⟩,
      ⟨"", "s+", "strings.ToUpper(e.Name) + \"(\" + joinWithSpace(args) + \")\"", ["Name"], []⟩,
      ⟨"", "s+", "keyword(OVER)", [], []⟩,
      ⟨"", "s+", "\"(\" + e.AnalyticClause.String() + \")\"", ["AnalyticClause"], []⟩,
      ⟨"", "return", "joinWithSpace(s)", [], []⟩] }

def node_AnalyticClause : Node :=
  { name := "AnalyticClause",
    fields := [("BaseExpr", "*BaseExpr"), ("PartitionClause", "QueryExpression"), ("OrderByClause", "QueryExpression"), ("WindowingClause", "QueryExpression")],
    reads := ["OrderByClause", "PartitionClause", "WindowingClause"],
    parts := [
      ⟨"", "s", "make([]string, 0)", [], []⟩,
      ⟨"e.PartitionClause != nil", "s+", "e.PartitionClause.String()", ["PartitionClause"], ["PartitionClause"]⟩,
      ⟨"e.OrderByClause != nil", "s+", "e.OrderByClause.String()", ["OrderByClause"], ["OrderByClause"]⟩,
      ⟨"e.WindowingClause != nil", "s+", "e.WindowingClause.String()", ["WindowingClause"], ["WindowingClause"]⟩,
      ⟨"", "return", "joinWithSpace(s)", [], []⟩] }

def node_PartitionClause : Node :=
  { name := "PartitionClause",
    fields := [("BaseExpr", "*BaseExpr"), ("Values", "[]QueryExpression")],
    reads := ["Values"],
    parts := [
      ⟨"", "s+", "keyword(PARTITION)", [], []⟩,
      ⟨"", "s+", "keyword(BY)", [], []⟩,
      ⟨"", "s+", "listQueryExpressions(e.Values)", ["Values"], []⟩,
      ⟨"", "return", "joinWithSpace(s)", [], []⟩] }

def node_WindowingClause : Node :=
  { name := "WindowingClause",
    fields := [("BaseExpr", "*BaseExpr"), ("FrameLow", "QueryExpression"), ("FrameHigh", "QueryExpression")],
    reads := ["FrameHigh", "FrameLow"],
    parts := [
      ⟨"", "s+", "keyword(ROWS)", [], []⟩,
      ⟨"e.FrameHigh == nil", "s+", "e.FrameLow.String()", ["FrameLow"], ["FrameHigh"]⟩,
      ⟨"!(e.FrameHigh == nil)", "s+", "keyword(BETWEEN)", [], ["FrameHigh"]⟩,
      ⟨"!(e.FrameHigh == nil)", "s+", "e.FrameLow.String()", ["FrameLow"], ["FrameHigh"]⟩,
      ⟨"!(e.FrameHigh == nil)", "s+", "keyword(AND)", [], ["FrameHigh"]⟩,
      ⟨"!(e.FrameHigh == nil)", "s+", "e.FrameHigh.String()", ["FrameHigh"], ["FrameHigh"]⟩,
      ⟨"", "return", "joinWithSpace(s)", [], []⟩] }

def node_WindowFramePosition : Node :=
  { name := "WindowFramePosition",
    fields := [("BaseExpr", "*BaseExpr"), ("Direction", "Token"), ("Unbounded", "Token"), ("Offset", "int")],
    reads := ["Direction", "Offset", "Unbounded"],
    parts := [
      ⟨"", "s", "make([]string, 0, 2)", [], []⟩,
      ⟨"e.Direction.Token == CURRENT", "s+", "keyword(CURRENT)", [], ["Direction"]⟩,
      ⟨"e.Direction.Token == CURRENT", "s+", "keyword(ROW)", [], ["Direction"]⟩,
      ⟨"!(e.Direction.Token == CURRENT) && !e.Unbounded.IsEmpty()", "s+", "e.Unbounded.String()", ["Unbounded"], ["Direction", "Unbounded"]⟩,
      ⟨"!(e.Direction.Token == CURRENT) && !e.Unbounded.IsEmpty()", "s+", "e.Direction.String()", ["Direction"], ["Direction", "Unbounded"]⟩,
      ⟨"!(e.Direction.Token == CURRENT) && !(!e.Unbounded.IsEmpty())", "s+", "strconv.Itoa(e.Offset)", ["Offset"], ["Direction", "Unbounded"]⟩,
      ⟨"!(e.Direction.Token == CURRENT) && !(!e.Unbounded.IsEmpty())", "s+", "e.Direction.String()", ["Direction"], ["Direction", "Unbounded"]⟩,
      ⟨"", "return", "joinWithSpace(s)", [], []⟩] }

def node_Variable : Node :=
  { name := "Variable",
    fields := [("BaseExpr", "*BaseExpr"), ("Name", "string")],
    reads := ["Name"],
    parts := [
      ⟨"", "return", "string(VariableSign) + e.Name", ["Name"], []⟩] }

def node_VariableSubstitution : Node :=
  { name := "VariableSubstitution",
    fields := [("BaseExpr", "*BaseExpr"), ("Variable", "Variable"), ("Value", "QueryExpression")],
    reads := ["Value", "Variable"],
    parts := [
      ⟨"", "return:joinWithSpace+", "e.Variable.String()", ["Variable"], []⟩,
      ⟨"", "return:joinWithSpace+", "SubstitutionOperator", [], []⟩,
      ⟨"", "return:joinWithSpace+", "e.Value.String()", ["Value"], []⟩] }

def node_EnvironmentVariable : Node :=
  { name := "EnvironmentVariable",
    fields := [("BaseExpr", "*BaseExpr"), ("Name", "string"), ("Quoted", "bool")],
    reads := ["Name", "Quoted"],
    parts := [
      ⟨"", "name", "e.Name", ["Name"], []⟩,
      ⟨"e.Quoted", "name", "option.QuoteIdentifier(name)", [], ["Quoted"]⟩,
      ⟨"", "return", "string(VariableSign) + string(EnvironmentVariableSign) + name", [], []⟩] }

def node_RuntimeInformation : Node :=
  { name := "RuntimeInformation",
    fields := [("BaseExpr", "*BaseExpr"), ("Name", "string")],
    reads := ["Name"],
    parts := [
      ⟨"", "return", "string(VariableSign) + string(RuntimeInformationSign) + strings.ToUpper(e.Name)", ["Name"], []⟩] }

def node_Flag : Node :=
  { name := "Flag",
    fields := [("BaseExpr", "*BaseExpr"), ("Name", "string")],
    reads := ["Name"],
    parts := [
      ⟨"", "return", "string(VariableSign) + string(VariableSign) + strings.ToUpper(e.Name)", ["Name"], []⟩] }

def node_CursorStatus : Node :=
  { name := "CursorStatus",
    fields := [("BaseExpr", "*BaseExpr"), ("Cursor", "Identifier"), ("Negation", "Token"), ("Type", "Token")],
    reads := ["Cursor", "Negation", "Type"],
    parts := [
      ⟨"", "s+", "keyword(CURSOR)", [], []⟩,
      ⟨"", "s+", "e.Cursor.String()", ["Cursor"], []⟩,
      ⟨"", "s+", "keyword(IS)", [], []⟩,
      ⟨"!e.Negation.IsEmpty()", "s+", "e.Negation.String()", ["Negation"], ["Negation"]⟩,
      ⟨"e.Type.Token == RANGE", "s+", "keyword(IN)", [], ["Type"]⟩,
      ⟨"", "s+", "e.Type.String()", ["Type"], []⟩,
      ⟨"", "return", "joinWithSpace(s)", [], []⟩] }

def node_CursorAttrebute : Node :=
  { name := "CursorAttrebute",
    fields := [("BaseExpr", "*BaseExpr"), ("Cursor", "Identifier"), ("Attrebute", "Token")],
    reads := ["Attrebute", "Cursor"],
    parts := [
      ⟨"", "s+", "keyword(CURSOR)", [], []⟩,
      ⟨"", "s+", "e.Cursor.String()", ["Cursor"], []⟩,
      ⟨"", "s+", "e.Attrebute.String()", ["Attrebute"], []⟩,
      ⟨"", "return", "joinWithSpace(s)", [], []⟩] }

/-- the reviewed list, in the order of ast.go -/
def nodes : List Node := [node_PrimitiveType, node_Placeholder, node_Identifier, node_Constant, node_FieldReference, node_ColumnNumber, node_Parentheses, node_RowValue, node_ValueList, node_RowValueList, node_SelectQuery, node_SelectSet, node_SelectEntity, node_SelectClause, node_IntoClause, node_FromClause, node_WhereClause, node_GroupByClause, node_HavingClause, node_OrderByClause, node_LimitClause, node_OffsetClause, node_WithClause, node_InlineTable, node_Subquery, node_Url, node_TableFunction, node_FormatSpecifiedFunction, node_JsonQuery, node_Comparison, node_Is, node_Between, node_In, node_All, node_Any, node_Like, node_Exists, node_Arithmetic, node_UnaryArithmetic, node_Logic, node_UnaryLogic, node_Concat, node_Function, node_AggregateFunction, node_Table, node_Join, node_JoinCondition, node_Field, node_AllColumns, node_Dual, node_Stdin, node_OrderItem, node_CaseExpr, node_CaseExprWhen, node_CaseExprElse, node_ListFunction, node_AnalyticFunction, node_AnalyticClause, node_PartitionClause, node_WindowingClause, node_WindowFramePosition, node_Variable, node_VariableSubstitution, node_EnvironmentVariable, node_RuntimeInformation, node_Flag, node_CursorStatus, node_CursorAttrebute]


end Csvq.Ref.AstPrint
