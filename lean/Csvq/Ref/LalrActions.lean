/-
  Csvq.Ref.LalrActions — what was reviewed about the semantic actions beyond their typing.

  * `unguardedIndexSites`: the index / slice expressions of the actions that no length test in the same action guards.
    One: production 260 (`placeholder: PLACEHOLDER`) reads `yyDollar[1].token.Literal[0]`.  In range: the scanner
    gives every PLACEHOLDER token a non-empty literal, "?" or the holder name that starts with ':' — proved on the
    scanner model for all rune strings (`Csvq.C18.scan_placeholder_literal_nonempty`); a token of another kind cannot
    carry the PLACEHOLDER code since F94 (only ASCII characters stand for themselves).
    Every other index site (`items[0]`, `items[1]` of `constant`, `Literal[1:]` of `placeholder`) stands under a length
    test and is proved guarded by the extractor's guard analysis (Gen.Lalr.indexSites).
  * `externalCallees`: what the actions call outside lib/parser's own helpers.  Reviewed: `append`, `len` cannot
    panic; `strconv.Atoi`, `strconv.ParseInt`, `strings.Split` return errors / slices, never panic;
    `value.NewIntegerFromString`, `value.NewString` take a value from a pool and fill it (lib/value/type.go), no index,
    no assertion; `QueryExpression.GetBaseExpr` is a method call on an interface value — it is in the typing as an
    assertion "not nil" (production 263).
  * `helperPanicSites`: lib/parser's own helpers the actions call, with the panic sites of their bodies: none.
-/
namespace Csvq.Ref.Lalr

def unguardedIndexSites : List (Nat × String) := [
  (260, "yyDollar[1].token.Literal[0]")]

def externalCallees : List String := ["builtin append", "builtin len", "method QueryExpression.GetBaseExpr", "strconv.Atoi", "strconv.ParseInt", "strings.Split", "value.NewIntegerFromString", "value.NewString"]

def helperPanicSites : List (String × String) := [
  ("NewBaseExpr", "none"),
  ("NewFloatValueFromString", "none"),
  ("NewIntegerValue", "none"),
  ("NewNullValue", "none"),
  ("NewStringValue", "none"),
  ("NewTernaryValueFromString", "none")]

end Csvq.Ref.Lalr
