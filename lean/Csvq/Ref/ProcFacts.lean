/-
  Csvq.Ref.ProcFacts — reviewed expectations for the text facts of Gen/ProcFacts.lean (lib/query/processor.go,
  lib/action/run.go).  Reviewed means: read against the source and against what Model/ProcFrame.lean assumes —
  Execute does nothing that commits or rolls back besides the one auto-commit `if`; AutoCommit / AutoRollback are
  Tx.Commit / Tx.Rollback of the processor's own scope; only EXIT, BREAK, CONTINUE, RETURN set a flow;
  action.Run switches auto-commit on immediately before its single Execute call and returns that call's error.
-/
namespace Csvq.Ref

def executeStmts : List String :=
  ["if v := ctx.Value(StoringResultsContextKey); v != nil { if b, ok := v.(bool); ok && b { proc.storeResults = true } }",
   "proc.Tx.SelectedViews = nil",
   "proc.Tx.AffectedRows = 0",
   "flow, err := proc.execute(ctx, statements)",
   "if <autoCommitCond> { err = proc.AutoCommit(ctx) }",
   "return flow, err"]

def executeDefer : String :=
  "func() { if err == nil { if panicReport := recover(); panicReport != nil { flow = TerminateWithError err = NewFatalError(panicReport) } } }"

def flowAssignments : List String :=
  ["parser.CONTINUE: flow = Continue", "parser.BREAK: flow = Break", "parser.Exit: flow = TerminateWithError",
   "parser.Exit: flow = Exit", "parser.Return: flow = Return"]

/-- every statement kind of ExecuteStatement that runs a NESTED statement list hands the nested list's flow to the
    caller's loop (reviewed: seven call sites, each assigning its first result to `flow`) -/
def nestedFlowCalls : List (String × String × String) :=
  [("parser.ExecuteStatement", "execute", "flow"), ("parser.If", "IfStmt", "flow"), ("parser.Case", "Case", "flow"),
   ("parser.While", "While", "flow"), ("parser.WhileInCursor", "WhileInCursor", "flow"),
   ("parser.Source", "execute", "flow"), ("parser.Execute", "execute", "flow")]

def delegations : List String :=
  ["AutoCommit: return proc.Commit(ctx, nil)",
   "Commit: return proc.Tx.Commit(ctx, proc.ReferenceScope, expr)",
   "AutoRollback: return proc.Rollback(nil)",
   "Rollback: return proc.Tx.Rollback(proc.ReferenceScope, expr)",
   "ReleaseResources: return proc.Tx.ReleaseResources()",
   "ReleaseResourcesWithErrors: return proc.Tx.ReleaseResourcesWithErrors()"]

def runTail : List String :=
  ["proc.Tx.AutoCommit = true", "_, err = proc.Execute(ctx, statements)", "return err"]

end Csvq.Ref
