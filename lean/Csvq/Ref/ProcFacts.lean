/-
  Csvq.Ref.ProcFacts — reviewed expectations for the text facts of Gen/ProcFacts.lean (lib/query/processor.go,
  lib/action/run.go).  Reviewed means: read against the source and against what Model/ProcFrame.lean assumes —
  Execute does nothing that commits or rolls back besides the one auto-commit `if`; AutoCommit / AutoRollback are
  Tx.Commit / Tx.Rollback of the processor's own scope; only EXIT, BREAK, CONTINUE, RETURN set a flow;
  action.Run switches auto-commit on immediately before its single Execute call and returns that call's error.
-/
namespace Csvq.Ref

def executeStmts : List String :=
  ["if v := ctx.Value(StoringResultsContextKey); v != nil { if b, ok := v.(bool); ok && b { proc.storeResults = true } }",
   "proc.Tx.SelectedViews = nil",
   "proc.Tx.AffectedRows = 0",
   "flow, err := proc.execute(ctx, statements)",
   "if <autoCommitCond> { err = proc.AutoCommit(ctx) }",
   "return flow, err"]

def executeDefer : String :=
  "func() { if err == nil { if panicReport := recover(); panicReport != nil { flow = TerminateWithError err = NewFatalError(panicReport) } } }"

def flowAssignments : List String :=
  ["parser.CONTINUE: flow = Continue", "parser.BREAK: flow = Break", "parser.Exit: flow = TerminateWithError",
   "parser.Exit: flow = Exit", "parser.Return: flow = Return"]

/-- every statement kind of ExecuteStatement that runs a NESTED statement list hands the nested list's flow to the
    caller's loop (reviewed: seven call sites, each assigning its first result to `flow`) -/
def nestedFlowCalls : List (String × String × String) :=
  [("parser.ExecuteStatement", "execute", "flow"), ("parser.If", "IfStmt", "flow"), ("parser.Case", "Case", "flow"),
   ("parser.While", "While", "flow"), ("parser.WhileInCursor", "WhileInCursor", "flow"),
   ("parser.Source", "execute", "flow"), ("parser.Execute", "execute", "flow")]

def delegations : List String :=
  ["AutoCommit: return proc.Commit(ctx, nil)",
   "Commit: return proc.Tx.Commit(ctx, proc.ReferenceScope, expr)",
   "AutoRollback: return proc.Rollback(nil)",
   "Rollback: return proc.Tx.Rollback(proc.ReferenceScope, expr)",
   "ReleaseResources: return proc.Tx.ReleaseResources()",
   "ReleaseResourcesWithErrors: return proc.Tx.ReleaseResourcesWithErrors()"]

def runTail : List String :=
  ["proc.Tx.AutoCommit = true", "_, err = proc.Execute(ctx, statements)", "return err"]

/-! ## the end of a transaction: Transaction.Commit / Rollback, ReferenceScope.StoreTemporaryTable / RestoreTemporaryTable
    (Gen.txEndCalls).  Reviewed against the source: which callees change what the transaction holds or publishes, which only
    report or compute, and which names the conditions around the first kind may read. -/

/-- callees that change transaction state: the temp file being encoded, the handlers (commit = swap in / make permanent),
    the uncommitted sets, the temporary tables' restore points and contents, the STDIN table of the session, the locks -/
def txStateCalls : List String :=
  ["fp.Truncate", "fp.Seek", "EncodeView", "EncodeEndingLineBreak", "fp.Write", "tx.FileContainer.Commit",
   "tx.UncommittedViews.Unset", "scope.StoreTemporaryTable", "scope.RestoreTemporaryTable", "tx.UncommittedViews.Clean",
   "tx.UnlockStdin", "tx.ReleaseResources", "session.updateStdinView", "view.CreateRestorePoint", "view.Restore",
   "rs.Blocks[i].TemporaryTables.Delete", "rs.Blocks[i].TemporaryTables.Range", "tx.operationMutex.Lock",
   "tx.operationMutex.Unlock", "append"]

/-- callees that print, build a message or an error value, or only read -/
def txPrintOrPureCalls : List String :=
  ["ctx.Err", "ConvertContextError", "tx.UncommittedViews.UncommittedFiles", "make", "len", "tx.CachedViews.Get",
   "fileInfo.IdentifiedPath", "view.FileInfo.Handler.FileForUpdate", "NewSystemError", "err.Error", "file.VerifPoint",
   "fileInfo.ExportOptions", "NewCommitError", "NewRollbackError", "tx.LogNotice", "fmt.Sprintf", "strings.Join",
   "tx.quietForTemporaryViews", "tx.UncommittedViews.UncommittedTempViews", "view.FileInfo.IsStdin",
   "view.FileInfo.IsTemporaryTable", "view.Copy", "view.FileInfo.IdentifiedPath"]

/-- what a condition around a state-changing call, or a condition that can end the function early, may read: the
    uncommitted lists and their lengths, the failure of a file-system / encoding step, the cancellation of the context,
    the table's own attributes and STRIP_ENDING_LINE_BREAK (read by COMMIT on purpose: C01Session), whether a scope was
    handed in, the walk over the scope's temporary tables.  No output option, no function that reads one. -/
def txAllowedCondReads : List String :=
  ["createdFiles", "updatedFiles", "createFileInfo", "updateFileInfo", "len", "nil", "_", "err", "ok", "key", "string",
   "ctx", "ctx.Err", "fp", "fp.Truncate", "fp.Seek", "fp.Write", "io.SeekStart", "lb", "view", "EncodeView",
   "fileInfo.ExportOptions", "fileInfo.Format", "fileInfo.SingleLine", "option.FIXED", "tx", "tx.Palette",
   "tx.Flags.ExportOptions.StripEndingLineBreak", "tx.FileContainer.Commit", "f.Handler", "tx.ReleaseResources",
   "scope", "rs.Blocks", "uncomittedViews", "view.FileInfo.IsStdin", "view.FileInfo.IsTemporaryTable"]

/-- StoreTemporaryTable / RestoreTemporaryTable, call by call: a changed STDIN table is stored in the session (COMMIT) or
    dropped so that the next use reads the session's copy again (ROLLBACK); a changed temporary table gets a new restore
    point (COMMIT) or is put back to its restore point (ROLLBACK); both for every block of the scope -/
def storeRestoreCalls : List (String × String × List String × List String) := [
  ("StoreTemporaryTable", "make", [], []),
  ("StoreTemporaryTable", "len", [], []),
  ("StoreTemporaryTable", "rs.Blocks[i].TemporaryTables.Range", ["range rs.Blocks"], ["rs.Blocks"]),
  ("StoreTemporaryTable", "view.FileInfo.IsStdin", ["range rs.Blocks", "_, ok := uncomittedViews[key.(string)]; ok"], ["_", "key", "ok", "rs.Blocks", "string", "uncomittedViews"]),
  ("StoreTemporaryTable", "session.updateStdinView", ["range rs.Blocks", "_, ok := uncomittedViews[key.(string)]; ok", "view.FileInfo.IsStdin()"], ["_", "key", "ok", "rs.Blocks", "string", "uncomittedViews", "view.FileInfo.IsStdin"]),
  ("StoreTemporaryTable", "view.Copy", ["range rs.Blocks", "_, ok := uncomittedViews[key.(string)]; ok", "view.FileInfo.IsStdin()"], ["_", "key", "ok", "rs.Blocks", "string", "uncomittedViews", "view.FileInfo.IsStdin"]),
  ("StoreTemporaryTable", "append", ["range rs.Blocks", "_, ok := uncomittedViews[key.(string)]; ok", "view.FileInfo.IsStdin()"], ["_", "key", "ok", "rs.Blocks", "string", "uncomittedViews", "view.FileInfo.IsStdin"]),
  ("StoreTemporaryTable", "fmt.Sprintf", ["range rs.Blocks", "_, ok := uncomittedViews[key.(string)]; ok", "view.FileInfo.IsStdin()"], ["_", "key", "ok", "rs.Blocks", "string", "uncomittedViews", "view.FileInfo.IsStdin"]),
  ("StoreTemporaryTable", "view.FileInfo.IsTemporaryTable", ["range rs.Blocks", "_, ok := uncomittedViews[key.(string)]; ok", "!(view.FileInfo.IsStdin())"], ["_", "key", "ok", "rs.Blocks", "string", "uncomittedViews", "view.FileInfo.IsStdin"]),
  ("StoreTemporaryTable", "view.CreateRestorePoint", ["range rs.Blocks", "_, ok := uncomittedViews[key.(string)]; ok", "!(view.FileInfo.IsStdin())", "view.FileInfo.IsTemporaryTable()"], ["_", "key", "ok", "rs.Blocks", "string", "uncomittedViews", "view.FileInfo.IsStdin", "view.FileInfo.IsTemporaryTable"]),
  ("StoreTemporaryTable", "append", ["range rs.Blocks", "_, ok := uncomittedViews[key.(string)]; ok", "!(view.FileInfo.IsStdin())", "view.FileInfo.IsTemporaryTable()"], ["_", "key", "ok", "rs.Blocks", "string", "uncomittedViews", "view.FileInfo.IsStdin", "view.FileInfo.IsTemporaryTable"]),
  ("StoreTemporaryTable", "fmt.Sprintf", ["range rs.Blocks", "_, ok := uncomittedViews[key.(string)]; ok", "!(view.FileInfo.IsStdin())", "view.FileInfo.IsTemporaryTable()"], ["_", "key", "ok", "rs.Blocks", "string", "uncomittedViews", "view.FileInfo.IsStdin", "view.FileInfo.IsTemporaryTable"]),
  ("RestoreTemporaryTable", "make", [], []),
  ("RestoreTemporaryTable", "len", [], []),
  ("RestoreTemporaryTable", "rs.Blocks[i].TemporaryTables.Range", ["range rs.Blocks"], ["rs.Blocks"]),
  ("RestoreTemporaryTable", "view.FileInfo.IsStdin", ["range rs.Blocks", "_, ok := uncomittedViews[key.(string)]; ok"], ["_", "key", "ok", "rs.Blocks", "string", "uncomittedViews"]),
  ("RestoreTemporaryTable", "rs.Blocks[i].TemporaryTables.Delete", ["range rs.Blocks", "_, ok := uncomittedViews[key.(string)]; ok", "view.FileInfo.IsStdin()"], ["_", "key", "ok", "rs.Blocks", "string", "uncomittedViews", "view.FileInfo.IsStdin"]),
  ("RestoreTemporaryTable", "view.FileInfo.IdentifiedPath", ["range rs.Blocks", "_, ok := uncomittedViews[key.(string)]; ok", "view.FileInfo.IsStdin()"], ["_", "key", "ok", "rs.Blocks", "string", "uncomittedViews", "view.FileInfo.IsStdin"]),
  ("RestoreTemporaryTable", "append", ["range rs.Blocks", "_, ok := uncomittedViews[key.(string)]; ok", "view.FileInfo.IsStdin()"], ["_", "key", "ok", "rs.Blocks", "string", "uncomittedViews", "view.FileInfo.IsStdin"]),
  ("RestoreTemporaryTable", "fmt.Sprintf", ["range rs.Blocks", "_, ok := uncomittedViews[key.(string)]; ok", "view.FileInfo.IsStdin()"], ["_", "key", "ok", "rs.Blocks", "string", "uncomittedViews", "view.FileInfo.IsStdin"]),
  ("RestoreTemporaryTable", "view.FileInfo.IsTemporaryTable", ["range rs.Blocks", "_, ok := uncomittedViews[key.(string)]; ok", "!(view.FileInfo.IsStdin())"], ["_", "key", "ok", "rs.Blocks", "string", "uncomittedViews", "view.FileInfo.IsStdin"]),
  ("RestoreTemporaryTable", "view.Restore", ["range rs.Blocks", "_, ok := uncomittedViews[key.(string)]; ok", "!(view.FileInfo.IsStdin())", "view.FileInfo.IsTemporaryTable()"], ["_", "key", "ok", "rs.Blocks", "string", "uncomittedViews", "view.FileInfo.IsStdin", "view.FileInfo.IsTemporaryTable"]),
  ("RestoreTemporaryTable", "append", ["range rs.Blocks", "_, ok := uncomittedViews[key.(string)]; ok", "!(view.FileInfo.IsStdin())", "view.FileInfo.IsTemporaryTable()"], ["_", "key", "ok", "rs.Blocks", "string", "uncomittedViews", "view.FileInfo.IsStdin", "view.FileInfo.IsTemporaryTable"]),
  ("RestoreTemporaryTable", "fmt.Sprintf", ["range rs.Blocks", "_, ok := uncomittedViews[key.(string)]; ok", "!(view.FileInfo.IsStdin())", "view.FileInfo.IsTemporaryTable()"], ["_", "key", "ok", "rs.Blocks", "string", "uncomittedViews", "view.FileInfo.IsStdin", "view.FileInfo.IsTemporaryTable"])
]

/-- Container.createHandler when the registration fails: the NEW handler is closed by itself (closeIsolatedHandler closes
    its parameter with closeWithErrors) — no method of the container, which could only find a handler BY KEY -/
def createHandlerFailedAddCalls : List (String × String) := [("closeIsolatedHandler", "h, err")]
def closeIsolatedCalls : List (String × String) :=
  [("NewCompositeError", "ParseError(err), h.closeWithErrors()"), ("ParseError", "err"), ("h.closeWithErrors", "")]

end Csvq.Ref
