-- REVIEWED copy of the output of /verif/extract/copyfacts (`go run . ref`: line numbers left out).
-- How deep every Copy of lib/query / lib/option is, as reviewed: see Props/C08.lean, gen_copy_facts_eq_ref.
import Csvq.Model.CopyDepth

namespace Csvq.Ref
open Csvq.CopyDepth

/-- how every level of the value returned by every copy function / accessor / constructor is obtained -/
def copyFacts : List Fact :=
  [⟨"ExportOptions.Copy", "flags.go", "flags.go", 1, "", [], (.same "ops"), "", false, "", ""⟩,
   ⟨"ExportOptions.Copy", "flags.go", "flags.go", 1, "", [".DelimiterPositions"], (.fresh "make([]int,len(ops.DelimiterPositions))"), "", false, "", "src_nonnil"⟩,
   ⟨"ExportOptions.Copy", "flags.go", "flags.go", 1, "", [".DelimiterPositions", "[*]"], .scalar, "builtin_copy", true, "dp<-ops.DelimiterPositions", ""⟩,
   ⟨"FieldIndexCache.Copy", "reference_scope.go", "reference_scope.go", 1, "", [], (.fresh "&literal FieldIndexCache"), "", false, "", ""⟩,
   ⟨"FieldIndexCache.Copy", "reference_scope.go", "reference_scope.go", 1, "", [".exprs"], (.fresh "make([]parser.QueryExpression,len(c.exprs),cap(c.exprs))"), "", false, "", "!(c.m!=nil)"⟩,
   ⟨"FieldIndexCache.Copy", "reference_scope.go", "reference_scope.go", 1, "", [".exprs", "[*]"], (.same "c.exprs[*]"), "builtin_copy", true, "cp.exprs<-c.exprs", ""⟩,
   ⟨"FieldIndexCache.Copy", "reference_scope.go", "reference_scope.go", 1, "", [".indices"], (.fresh "make([]int,len(c.indices),cap(c.indices))"), "", false, "", "!(c.m!=nil)"⟩,
   ⟨"FieldIndexCache.Copy", "reference_scope.go", "reference_scope.go", 1, "", [".indices", "[*]"], .scalar, "builtin_copy", true, "cp.indices<-c.indices", ""⟩,
   ⟨"FieldIndexCache.Copy", "reference_scope.go", "reference_scope.go", 1, "", [".limitToUseSlice"], .scalar, "", false, "", ""⟩,
   ⟨"FieldIndexCache.Copy", "reference_scope.go", "reference_scope.go", 1, "", [".m"], (.fresh "make(map[parser.QueryExpression]int,len(c.m))"), "", false, "", "c.m!=nil"⟩,
   ⟨"FieldIndexCache.Copy", "reference_scope.go", "reference_scope.go", 1, "", [".m", "[*]"], .scalar, "loop", true, "0..len(c.m)", ""⟩,
   ⟨"Header.Copy", "header.go", "header.go", 1, "", [], (.fresh "make(Header,h.Len())"), "", false, "", ""⟩,
   ⟨"Header.Copy", "header.go", "header.go", 1, "", ["[*]"], (.same "h[i]"), "loop", true, "0..len(h)", ""⟩,
   ⟨"Header.Copy", "header.go", "header.go", 1, "", ["[*]", ".Aliases"], (.fresh "make([]string,len(h[i].Aliases))"), "", false, "", "src_nonnil"⟩,
   ⟨"Header.Copy", "header.go", "header.go", 1, "", ["[*]", ".Aliases", "[*]"], .scalar, "builtin_copy", true, "header[i].Aliases<-h[i].Aliases", ""⟩,
   ⟨"Header.Merge", "header.go", "header.go", 1, "", [], (.fresh "make(Header,len(h)+len(h2))"), "", false, "", ""⟩,
   ⟨"Header.Merge", "header.go", "header.go", 1, "", ["[*]"], (.same "h[i]"), "loop", false, "0..len(h)", ""⟩,
   ⟨"Header.Merge", "header.go", "header.go", 1, "", ["[*]"], (.same "h2[i]"), "index", false, "i+leftLen", ""⟩,
   ⟨"ImportOptions.Copy", "flags.go", "flags.go", 1, "", [], (.same "ops"), "", false, "", ""⟩,
   ⟨"ImportOptions.Copy", "flags.go", "flags.go", 1, "", [".DelimiterPositions"], (.fresh "make([]int,len(ops.DelimiterPositions))"), "", false, "", "src_nonnil"⟩,
   ⟨"ImportOptions.Copy", "flags.go", "flags.go", 1, "", [".DelimiterPositions", "[*]"], .scalar, "builtin_copy", true, "dp<-ops.DelimiterPositions", ""⟩,
   ⟨"NewCell", "record.go", "record.go", 1, "", [], (.fresh "literal []Primary"), "", false, "", ""⟩,
   ⟨"NewCell", "record.go", "record.go", 1, "", ["[*]"], (.same "val"), "literal", true, "all", ""⟩,
   ⟨"NewReferenceRecord", "reference_scope.go", "reference_scope.go", 1, "", [], (.fresh "literal ReferenceRecord"), "", false, "", ""⟩,
   ⟨"NewReferenceRecord", "reference_scope.go", "reference_scope.go", 1, "", [".cache"], (.other "NewFieldIndexCache(cacheLen,LimitToUseFieldIndexSliceChache)"), "", false, "", ""⟩,
   ⟨"NewReferenceRecord", "reference_scope.go", "reference_scope.go", 1, "", [".recordIndex"], .scalar, "", false, "", ""⟩,
   ⟨"NewReferenceRecord", "reference_scope.go", "reference_scope.go", 1, "", [".view"], (.same "view"), "", false, "", ""⟩,
   ⟨"Record.Copy", "record.go", "record.go", 1, "", [], (.fresh "make(Record,len(r))"), "", false, "", ""⟩,
   ⟨"Record.Copy", "record.go", "record.go", 1, "", ["[*]"], (.same "r[i]"), "loop", true, "0..len(r)", ""⟩,
   ⟨"RecordSet.Copy", "record.go", "record.go", 1, "", [], (.fresh "make(RecordSet,len(r))"), "", false, "", ""⟩,
   ⟨"RecordSet.Copy", "record.go", "record.go", 1, "", ["[*]"], (.call "Record.Copy"), "loop", true, "0..len(r)", ""⟩,
   ⟨"ReferenceRecord.copyForChildScope", "reference_scope.go", "reference_scope.go", 1, "", [], (.same "r"), "", false, "", ""⟩,
   ⟨"ReferenceRecord.copyForChildScope", "reference_scope.go", "reference_scope.go", 1, "", [".cache"], (.call "FieldIndexCache.Copy"), "", false, "", "src_nonnil"⟩,
   ⟨"ReferenceScope.GetTemporaryTable", "reference_scope.go", "reference_scope.go", 1, "err==nil", [], (.call "ViewMap.Get"), "", false, "", ""⟩,
   ⟨"ReferenceScope.GetTemporaryTable", "reference_scope.go", "reference_scope.go", 2, "", [], .nil, "", false, "", ""⟩,
   ⟨"ReferenceScope.GetTemporaryTableWithInternalId", "reference_scope.go", "reference_scope.go", 1, "err==nil", [], (.call "ViewMap.GetWithInternalId"), "", false, "", ""⟩,
   ⟨"ReferenceScope.GetTemporaryTableWithInternalId", "reference_scope.go", "reference_scope.go", 2, "!(err==nil)&&err!=errTableNotLoaded", [], .nil, "", false, "", ""⟩,
   ⟨"ReferenceScope.GetTemporaryTableWithInternalId", "reference_scope.go", "reference_scope.go", 3, "", [], .nil, "", false, "", ""⟩,
   ⟨"View.Copy", "view.go", "view.go", 1, "", [], (.fresh "&literal View"), "", false, "", ""⟩,
   ⟨"View.Copy", "view.go", "view.go", 1, "", [".FileInfo"], (.same "view.FileInfo"), "", false, "", ""⟩,
   ⟨"View.Copy", "view.go", "view.go", 1, "", [".Header"], (.call "Header.Copy"), "", false, "", ""⟩,
   ⟨"View.Copy", "view.go", "view.go", 1, "", [".RecordSet"], (.call "RecordSet.Copy"), "", false, "", ""⟩,
   ⟨"ViewMap.Get", "view_map.go", "view_map.go", 1, "ok", [], (.call "View.Copy"), "", false, "", ""⟩,
   ⟨"ViewMap.Get", "view_map.go", "view_map.go", 2, "", [], .nil, "", false, "", ""⟩,
   ⟨"ViewMap.GetWithInternalId", "view_map.go", "view_map.go", 1, "ok&&err!=nil", [], .nil, "", false, "", ""⟩,
   ⟨"ViewMap.GetWithInternalId", "view_map.go", "view_map.go", 2, "ok", [], (.call "View.Copy"), "", false, "", ""⟩,
   ⟨"ViewMap.GetWithInternalId", "view_map.go", "view_map.go", 2, "ok", [".Header"], (.call "Header.Merge"), "", false, "", ""⟩,
   ⟨"ViewMap.GetWithInternalId", "view_map.go", "view_map.go", 2, "ok", [".RecordSet", "[*]"], (.fresh "make(Record,len(ret.RecordSet[index])+1)"), "task_loop", true, "0..len(ret.RecordSet)", ""⟩,
   ⟨"ViewMap.GetWithInternalId", "view_map.go", "view_map.go", 2, "ok", [".RecordSet", "[*]", "[*]"], (.call "NewCell"), "index", false, "0", ""⟩,
   ⟨"ViewMap.GetWithInternalId", "view_map.go", "view_map.go", 2, "ok", [".RecordSet", "[*]", "[*]"], (.same "ret.RecordSet[index][i]"), "index", false, "i+1", ""⟩,
   ⟨"ViewMap.GetWithInternalId", "view_map.go", "view_map.go", 3, "", [], .nil, "", false, "", ""⟩,
   ⟨"loadView:*view.FileInfo", "load_view.go", "load_view.go", 1, "", [], (.fresh "struct copy of FileInfo"), "", false, "", ""⟩,
   ⟨"loadView:*view.FileInfo", "load_view.go", "load_view.go", 1, "", [".DelimiterPositions"], (.same "view.FileInfo.DelimiterPositions"), "", false, "", ""⟩,
   ⟨"loadView:*view.FileInfo", "load_view.go", "load_view.go", 1, "", [".Handler"], (.same "view.FileInfo.Handler"), "", false, "", ""⟩,
   ⟨"loadView:*view.FileInfo", "load_view.go", "load_view.go", 1, "", [".restorePointHeader"], (.same "view.FileInfo.restorePointHeader"), "", false, "", ""⟩,
   ⟨"loadView:*view.FileInfo", "load_view.go", "load_view.go", 1, "", [".restorePointRecordSet"], (.same "view.FileInfo.restorePointRecordSet"), "", false, "", ""⟩]

/-- every write into a part of a view that the data-changing functions (and the methods of View / Header / RecordSet /
    Record they call) perform: (function, file:line, target, level written) -/
def dmlWrites : List Write :=
  [⟨"AddColumns", "query.go", "query.go", "view.Header", "viewStruct"⟩,
   ⟨"AddColumns", "query.go", "query.go", "view.RecordSet", "viewStruct"⟩,
   ⟨"AddColumns", "query.go", "query.go", "view.FileInfo.DelimiterPositions", "fileInfo"⟩,
   ⟨"CreateTable", "query.go", "query.go", "fileInfo.Handler", "fileInfo"⟩,
   ⟨"CreateTable", "query.go", "query.go", "fileInfo.LineBreak", "fileInfo"⟩,
   ⟨"CreateTable", "query.go", "query.go", "fileInfo.EncloseAll", "fileInfo"⟩,
   ⟨"CreateTable", "query.go", "query.go", "fileInfo.NoHeader", "fileInfo"⟩,
   ⟨"CreateTable", "query.go", "query.go", "fileInfo.PrettyPrint", "fileInfo"⟩,
   ⟨"CreateTable", "query.go", "query.go", "fileInfo.ForUpdate", "fileInfo"⟩,
   ⟨"CreateTable", "query.go", "query.go", "view.FileInfo", "viewStruct"⟩,
   ⟨"Delete", "query.go", "query.go", "v.RecordSet", "viewStruct"⟩,
   ⟨"DropColumns", "query.go", "query.go", "view.selectFields", "viewStruct"⟩,
   ⟨"DropColumns", "query.go", "query.go", "view.selectFields", "viewStruct"⟩,
   ⟨"Header.Update", "header.go", "header.go", "h[i].View", "headerArray"⟩,
   ⟨"Header.Update", "header.go", "header.go", "h[i].Column", "headerArray"⟩,
   ⟨"Header.Update", "header.go", "header.go", "h[i].Aliases", "headerArray"⟩,
   ⟨"RenameColumn", "query.go", "query.go", "view.Header[idx].Column", "headerArray"⟩,
   ⟨"Update", "query.go", "query.go", "viewsToUpdate[viewref].RecordSet[internalId][fieldIdx]", "recordArray"⟩,
   ⟨"View.Fix", "view.go", "view.go", "view.RecordSet[index]", "recordSetArray"⟩,
   ⟨"View.Fix", "view.go", "view.go", "view.RecordSet[index]", "recordSetArray"⟩,
   ⟨"View.Fix", "view.go", "view.go", "view.RecordSet[index][i]", "recordArray"⟩,
   ⟨"View.Fix", "view.go", "view.go", "hfields[i]", "headerArray"⟩,
   ⟨"View.Fix", "view.go", "view.go", "hfields[i].Identifier", "headerArray"⟩,
   ⟨"View.Fix", "view.go", "view.go", "hfields[i].Aliases", "headerArray"⟩,
   ⟨"View.Fix", "view.go", "view.go", "hfields[i].Number", "headerArray"⟩,
   ⟨"View.Fix", "view.go", "view.go", "hfields[i].IsFromTable", "headerArray"⟩,
   ⟨"View.Fix", "view.go", "view.go", "hfields[i].IsJoinColumn", "headerArray"⟩,
   ⟨"View.Fix", "view.go", "view.go", "hfields[i].IsGroupKey", "headerArray"⟩,
   ⟨"View.Fix", "view.go", "view.go", "hfields[i].Column", "headerArray"⟩,
   ⟨"View.Fix", "view.go", "view.go", "view.Header", "viewStruct"⟩,
   ⟨"View.Fix", "view.go", "view.go", "view.selectFields", "viewStruct"⟩,
   ⟨"View.Fix", "view.go", "view.go", "view.selectLabels", "viewStruct"⟩,
   ⟨"View.Fix", "view.go", "view.go", "view.isGrouped", "viewStruct"⟩,
   ⟨"View.Fix", "view.go", "view.go", "view.comparisonKeysInEachRecord", "viewStruct"⟩,
   ⟨"View.Fix", "view.go", "view.go", "view.sortValuesInEachCell", "viewStruct"⟩,
   ⟨"View.Fix", "view.go", "view.go", "view.sortValuesInEachRecord", "viewStruct"⟩,
   ⟨"View.Fix", "view.go", "view.go", "view.sortDirections", "viewStruct"⟩,
   ⟨"View.Fix", "view.go", "view.go", "view.sortNullPositions", "viewStruct"⟩,
   ⟨"View.Fix", "view.go", "view.go", "view.offset", "viewStruct"⟩,
   ⟨"View.filter", "view.go", "view.go", "view.RecordSet[newIdx]", "recordSetArray"⟩,
   ⟨"View.filter", "view.go", "view.go", "view.RecordSet", "viewStruct"⟩,
   ⟨"View.insert", "view.go", "view.go", "view.RecordSet", "viewStruct"⟩,
   ⟨"View.replace", "view.go", "view.go", "view.RecordSet[index][fidx]", "recordArray"⟩,
   ⟨"View.replace", "view.go", "view.go", "view.RecordSet", "viewStruct"⟩]

/-- every struct copy of a FileInfo (`x := *fi`) in lib/query: (function, site, the expression copied, `dml` = inside a data-changing function or a view method it calls / `other`) -/
def fileInfoCopies : List Write :=
  [⟨"loadView", "load_view.go", "load_view.go", "*view.FileInfo", "other"⟩]

/-- every assignment of the data-changing functions (and the view methods they call) that gives a view ANOTHER FileInfo -/
def fileInfoInstalls : List Write :=
  [⟨"CreateTable", "query.go", "query.go", "view.FileInfo", "viewStruct"⟩]

/-- the functions that were described -/
def copyFunctions : List String :=
  ["ExportOptions.Copy", "FieldIndexCache.Copy", "Header.Copy", "Header.Merge", "ImportOptions.Copy", "NewCell", "NewReferenceRecord", "Record.Copy", "RecordSet.Copy", "ReferenceRecord.copyForChildScope", "ReferenceScope.GetTemporaryTable", "ReferenceScope.GetTemporaryTableWithInternalId", "View.Copy", "ViewMap.Get", "ViewMap.GetWithInternalId"]

end Csvq.Ref
