/-
  Csvq.Ref.PipeFacts — reviewed expectation for Gen/PipeFacts.lean: the order in which query.go applies the
  clauses of a SELECT and the primitive each View method is built on (read against the source).
-/
namespace Csvq.Ref

def selectPipeline : List (String × List String) := [
  ("Select", ["selectQuery"]),
  ("selectQuery", ["selectEntity", "query.OrderByClause => view.OrderBy", "limitClause.OffsetClause => view.Offset", "limitClause.Type => view.Limit", "view.Fix"]),
  ("selectEntity", ["selectSet", "LoadView", "entity.WhereClause => view.Where", "entity.GroupByClause => view.GroupBy", "entity.HavingClause => view.Having", "view.Select"]),
  ("selectSetEntity", ["Select", "selectEntity", "view.Fix"]),
  ("selectSet", ["selectSetEntity", "selectSetForRecursion", "selectSetEntity", "lview.Union", "lview.Except", "lview.Intersect"])
]

def viewMethodPrimitives : List (String × List String) := [
  ("Where", ["view.filter"]),
  ("GroupBy", ["view.group"]),
  ("Having", ["view.filter", "view.group", "view.filter"]),
  ("Select", ["view.evalColumn", "view.group", "view.GenerateComparisonKeys"]),
  ("OrderBy", ["view.evalColumn", "NewGoroutineTaskManager", "sort.Sort"]),
  ("Offset", []),
  ("Limit", []),
  ("Fix", ["NewGoroutineTaskManager"]),
  ("filter", ["EvaluateSequentially"]),
  ("group", ["view.groupAll", "NewGoroutineTaskManager", "NewGoroutineTaskManager"]),
  ("groupAll", ["NewGoroutineTaskManager"]),
  ("GenerateComparisonKeys", ["NewGoroutineTaskManager"])
]

end Csvq.Ref
