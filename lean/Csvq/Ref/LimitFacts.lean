/-
  Csvq.Ref.LimitFacts — HAND-REVIEWED expectations for what extract/limitfacts regenerates (reviewed 2026-09-25 on
  /repo 4afdd26).  Model/Sort.lean `offsetRows`, `limitRows`, `limitNumber`, `limitPercent`, `tiesLoop` were written
  against exactly these statement lists:
   * OFFSET: negative counts as 0; an offset at or beyond the row count leaves no row; else the rows from `offset` on.
   * LIMIT n: negative counts as 0.  LIMIT p PERCENT: NaN refused, clamped to [0, 100], taken of RecordLen()+offset —
     the row count BEFORE the offset was applied — and rounded up.
   * nothing is cut when the limit is not below the row count.
   * WITH TIES only when the clause says TIES (not ONLY), the QUERY has sort keys (`sortValuesInEachRecord != nil`)
     and the limit is positive: the limit grows while the next row's sort keys are EquivalentTo those of the last
     kept row (indices shifted by the offset, because the sort keys are not shifted with the records).
   * the sort state is set by View.OrderBy only, and reset to nil after an analytic function has used it for its own
     OVER (ORDER BY …) (evalAnalyticFunction) and in View.Fix — so a query without ORDER BY has no ties.
-/

namespace Csvq.Ref

/-- when a LIMIT clause counts as WITH TIES / PERCENT -/
def limitClausePredicates : List String :=
  ["LimitClause.WithTies: return e.Restriction.Token == TIES", "LimitClause.Percentage: return e.Unit.Token == PERCENT"]

/-- every assignment to the sort state of a View in lib/query, in source order: file:function:field:=nil|0|value -/
def sortStateWrites : List String :=
  ["analytic_function.go:Analyze:sortValuesInEachCell:=value", "view.go:View.Select:sortValuesInEachCell:=nil", "view.go:View.OrderBy:sortValuesInEachRecord:=value", "view.go:View.OrderBy:sortDirections:=value", "view.go:View.OrderBy:sortNullPositions:=value", "view.go:View.evalAnalyticFunction:sortValuesInEachCell:=value", "view.go:View.evalAnalyticFunction:sortValuesInEachRecord:=nil", "view.go:View.evalAnalyticFunction:sortDirections:=nil", "view.go:View.evalAnalyticFunction:sortNullPositions:=nil", "view.go:View.Offset:offset:=value", "view.go:View.Offset:offset:=0", "view.go:View.Fix:sortValuesInEachCell:=nil", "view.go:View.Fix:sortValuesInEachRecord:=nil", "view.go:View.Fix:sortDirections:=nil", "view.go:View.Fix:sortNullPositions:=nil", "view.go:View.Fix:offset:=0"]

/-- `View.Offset`, statement by statement -/
def fxViewOffset : List String :=
  ["val, err := Evaluate(ctx, scope, clause.Value)", "if(err != nil){", "return err", "}", "number := value.ToInteger(val)", "if(value.IsNull(number)){", "return NewInvalidOffsetNumberError(clause)", "}", "view.offset = int(number.(*value.Integer).Raw())", "value.Discard(number)", "if(view.offset < 0){", "view.offset = 0", "}", "if(view.RecordLen() <= view.offset){", "view.RecordSet = RecordSet{}", "}", "else{", "newSet := view.RecordSet[view.offset:]", "view.RecordSet = view.RecordSet[:len(newSet)]", "range(i over newSet){", "view.RecordSet[i] = newSet[i]", "}", "}", "return nil"]

/-- `View.Limit`, statement by statement -/
def fxViewLimit : List String :=
  ["val, err := Evaluate(ctx, scope, clause.Value)", "if(err != nil){", "return err", "}", "var limit int", "if(clause.Percentage()){", "number := value.ToFloat(val)", "if(value.IsNull(number)){", "return NewInvalidLimitPercentageError(clause)", "}", "percentage := number.(*value.Float).Raw()", "value.Discard(number)", "if(math.IsNaN(percentage)){", "return NewInvalidLimitPercentageError(clause)", "}", "if(100 < percentage){", "percentage = 100", "}", "else{", "if(percentage < 0){", "percentage = 0", "}", "}", "limit = int(math.Ceil(float64(view.RecordLen()+view.offset) * percentage / 100))", "}", "else{", "number := value.ToInteger(val)", "if(value.IsNull(number)){", "return NewInvalidLimitNumberError(clause)", "}", "limit = int(number.(*value.Integer).Raw())", "value.Discard(number)", "if(limit < 0){", "limit = 0", "}", "}", "if(view.RecordLen() <= limit){", "return nil", "}", "if(clause.WithTies() && view.sortValuesInEachRecord != nil && 0 < limit){", "bottomSortValues := view.sortValuesInEachRecord[view.offset+limit-1]", "for(limit < view.RecordLen()){", "if(!bottomSortValues.EquivalentTo(view.sortValuesInEachRecord[view.offset+limit])){", "break", "}", "limit++", "}", "}", "view.RecordSet = view.RecordSet[:limit]", "return nil"]

end Csvq.Ref
