/-
  Csvq.Ref.LimitFacts — HAND-REVIEWED expectations for what extract/limitfacts regenerates (reviewed 2026-09-25 on
  /repo 4afdd26).  Model/Sort.lean `offsetRows`, `limitRows`, `limitNumber`, `limitPercent`, `tiesLoop` were written
  against exactly these statement lists:
   * OFFSET: negative counts as 0; an offset at or beyond the row count leaves no row; else the rows from `offset` on.
   * LIMIT n: negative counts as 0.  LIMIT p PERCENT: NaN refused, clamped to [0, 100], taken of RecordLen()+offset —
     the row count BEFORE the offset was applied — and rounded up.
   * nothing is cut when the limit is not below the row count.
   * WITH TIES only when the clause says TIES (not ONLY), the QUERY has sort keys (`sortValuesInEachRecord != nil`)
     and the limit is positive: the limit grows while the next row's sort keys are EquivalentTo those of the last
     kept row (indices shifted by the offset, because the sort keys are not shifted with the records).
   * the sort state is set by View.OrderBy only, and reset to nil after an analytic function has used it for its own
     OVER (ORDER BY …) (evalAnalyticFunction) and in View.Fix — so a query without ORDER BY has no ties.
-/

namespace Csvq.Ref

/-- when a LIMIT clause counts as WITH TIES / PERCENT -/
def limitClausePredicates : List String :=
  ["LimitClause.WithTies: return e.Restriction.Token == TIES", "LimitClause.Percentage: return e.Unit.Token == PERCENT"]

/-- every assignment to the sort state of a View in lib/query, in source order: file:function:field:=nil|0|value -/
def sortStateWrites : List String :=
  ["analytic_function.go:Analyze:sortValuesInEachCell:=value", "view.go:View.Select:sortValuesInEachCell:=nil", "view.go:View.OrderBy:sortValuesInEachRecord:=value", "view.go:View.OrderBy:sortDirections:=value", "view.go:View.OrderBy:sortNullPositions:=value", "view.go:View.evalAnalyticFunction:sortValuesInEachCell:=value", "view.go:View.evalAnalyticFunction:sortValuesInEachRecord:=nil", "view.go:View.evalAnalyticFunction:sortDirections:=nil", "view.go:View.evalAnalyticFunction:sortNullPositions:=nil", "view.go:View.Offset:offset:=value", "view.go:View.Offset:offset:=0", "view.go:View.Fix:sortValuesInEachCell:=nil", "view.go:View.Fix:sortValuesInEachRecord:=nil", "view.go:View.Fix:sortDirections:=nil", "view.go:View.Fix:sortNullPositions:=nil", "view.go:View.Fix:offset:=0"]

/-- `View.Offset`, statement by statement -/
def fxViewOffset : List String :=
  ["val, err := Evaluate(ctx, scope, clause.Value)", "if(err != nil){", "return err", "}", "number := value.ToInteger(val)", "if(value.IsNull(number)){", "return NewInvalidOffsetNumberError(clause)", "}", "view.offset = int(number.(*value.Integer).Raw())", "value.Discard(number)", "if(view.offset < 0){", "view.offset = 0", "}", "if(view.RecordLen() <= view.offset){", "view.RecordSet = RecordSet{}", "}", "else{", "newSet := view.RecordSet[view.offset:]", "view.RecordSet = view.RecordSet[:len(newSet)]", "range(i over newSet){", "view.RecordSet[i] = newSet[i]", "}", "}", "return nil"]

/-- `View.Limit`, statement by statement -/
def fxViewLimit : List String :=
  ["val, err := Evaluate(ctx, scope, clause.Value)", "if(err != nil){", "return err", "}", "var limit int", "if(clause.Percentage()){", "number := value.ToFloat(val)", "if(value.IsNull(number)){", "return NewInvalidLimitPercentageError(clause)", "}", "percentage := number.(*value.Float).Raw()", "value.Discard(number)", "if(math.IsNaN(percentage)){", "return NewInvalidLimitPercentageError(clause)", "}", "if(100 < percentage){", "percentage = 100", "}", "else{", "if(percentage < 0){", "percentage = 0", "}", "}", "limit = int(math.Ceil(float64(view.RecordLen()+view.offset) * percentage / 100))", "}", "else{", "number := value.ToInteger(val)", "if(value.IsNull(number)){", "return NewInvalidLimitNumberError(clause)", "}", "limit = int(number.(*value.Integer).Raw())", "value.Discard(number)", "if(limit < 0){", "limit = 0", "}", "}", "if(view.RecordLen() <= limit){", "return nil", "}", "if(clause.WithTies() && view.sortValuesInEachRecord != nil && 0 < limit){", "bottomSortValues := view.sortValuesInEachRecord[view.offset+limit-1]", "for(limit < view.RecordLen()){", "if(!bottomSortValues.EquivalentTo(view.sortValuesInEachRecord[view.offset+limit])){", "break", "}", "limit++", "}", "}", "view.RecordSet = view.RecordSet[:limit]", "return nil"]

/-- `View.ExtendRecordCapacity`, statement by statement: every record gets its OWN allocation `make(Record, len, cap)`
    and the old cells are copied into it, index by index (content and indices unchanged) -/
def fxViewExtendRecordCapacity : List String :=
  ["fieldCap := view.FieldLen() + view.numberOfColumnsToBeAdded(exprs, funcs)", "if(0 < view.RecordLen() && fieldCap <= cap(view.RecordSet[0])){", "return nil", "}", "return NewGoroutineTaskManager(view.RecordLen(), -1, scope.Tx.Flags.CPU).Run(ctx, func(index int) error { record := make(Record, view.FieldLen(), fieldCap) copy(record, view.RecordSet[index]) view.RecordSet[index] = record return nil })"]

/-- `View.Swap`: the records, their sort keys and the per-cell sort-value cache move together -/
def fxViewSwap : List String :=
  ["view.RecordSet[i], view.RecordSet[j] = view.RecordSet[j], view.RecordSet[i]", "view.sortValuesInEachRecord[i], view.sortValuesInEachRecord[j] = view.sortValuesInEachRecord[j], view.sortValuesInEachRecord[i]", "if(view.sortValuesInEachCell != nil){", "view.sortValuesInEachCell[i], view.sortValuesInEachCell[j] = view.sortValuesInEachCell[j], view.sortValuesInEachCell[i]", "}"]

/-- the clause methods query.go calls on the view of a SELECT (selectEntity runs first, then selectQuery) -/
def clauseCallOrder : List String :=
  ["selectQuery:view.OrderBy", "selectQuery:view.Offset", "selectQuery:view.Limit", "selectQuery:view.Fix", "selectEntity:view.Where", "selectEntity:view.GroupBy", "selectEntity:view.Having", "selectEntity:view.Select"]

/-- functions that replace or move records of a view but run outside the lifetime of the per-cell sort-value cache:
    the cache is created by evalAnalyticFunction / Analyze (called from View.Select and View.OrderBy only) and is
    cleared by View.Fix at the end of every query — WHERE / GROUP BY / HAVING (filter, group, groupAll) run before
    View.Select (`clauseCallOrder`), the others work on a view that has been fixed or freshly built -/
def rebuildsOutsideCacheLifetime : List String :=
  ["query.go:Delete", "query.go:AddColumns", "view.go:NewViewFromGroupedRecord", "view.go:View.filter", "view.go:View.group",
   "view.go:View.groupAll", "view.go:View.insert", "view.go:View.replace", "view.go:View.Union", "view.go:View.Except",
   "view.go:View.Intersect", "view.go:View.Restore"]

/-- View.ExtendRecordCapacity replaces every record by a copy of itself at the same index (`fxViewExtendRecordCapacity`) -/
def rebuildsKeepingContent : List String := ["view.go:View.ExtendRecordCapacity"]

/-- View.Offset shifts the records and records the shift in `view.offset`, which View.Limit adds to every index into
    sortValuesInEachRecord (`fxViewLimit`); only View.Limit and View.Fix run after it (`clauseCallOrder`) -/
def rebuildsRecordedInOffset : List String := ["view.go:View.Offset"]

/-- the ways a Record gets its storage that keep its capacity window its own -/
def boundedRecordSources : List String :=
  ["alloc", "alloc-cap", "append-self", "slice3", "reslice-own", "move", "call:NewEmptyRecord"]

end Csvq.Ref
