/-
  Csvq.Ref.RelFacts — HAND-REVIEWED expectation for the token lists that extract/relfacts regenerates from
  lib/query/{header,view,load_view,join}.go on every run (property C03).  Model/Rel.lean was written against
  exactly these statements; Props/C03 compares them with the current source (`gen_*_eq_ref`).  A difference
  means the function was edited: review the edit against the model, then update this file.

  reviewed 2026-09-25 on 4afdd26; ContainsObject / equalFieldIdentifiers re-reviewed on 330acd2 (field references and
  column numbers still go through SearchIndex; a computed expression is found again by its formatted text, letter
  case ignored except inside string literals - evalColumn asks only for references and analytic functions):
  * FieldIndex takes `view` / the trimmed `column` from the reference, `idx := -1` directly before the loop;
  * FieldNumberIndex: numbers below 1 are not looked up; the first field with that view name and number is returned;
  * SearchIndex sends column numbers to FieldNumberIndex, everything else to FieldIndex; ContainsObject resolves
    field references through SearchIndex; Header.Update sets the view name of every field and clears its aliases;
  * View.Fix re-projects the records unless selectFields is the identity (every index compared with its position), then
    copies the selected header fields and clears Identifier, Aliases, IsJoinColumn, IsGroupKey, sets Number and
    IsFromTable, takes the select label as column name; IsJoinColumn is SET only by joinViews (USING / NATURAL merge)
    and CLEARED only by View.Fix; Aliases grow in evalColumn / AddHeaderField and are cleared by Fix and Update;
  * loadObject: stdin, data object, http object, inline file, recursive working view, CTE, temporary table, file;
  * joinViews: no join type = INNER without direction, OUTER with one; CROSS → CrossJoin, INNER → InnerJoin(condition),
    OUTER → OuterJoin(condition, direction); afterwards the USING / NATURAL column merge;
  * InnerJoin without condition is CrossJoin; OuterJoin has NO shortcut (it pads also without a condition); RIGHT swaps the
    views before the workers start and swaps them back before the header / record set are stored; FULL: per-worker
    joinViewMatches, OR-ed after the workers, unmatched inner records appended NULL-padded on the left;
  * (reviewed on f7faefc) createScope / CreateChild / CreateNode build ONE ReferenceScope literal each: Tx, the file-path
    cache, the statement's time stamp, RecursiveTable, RecursiveTmpView and RecursiveCount are copied from the receiver
    by all three (CreateNode only fills the cache / the time stamp when they are still unset); createScope keeps Blocks
    and nodes and takes the records it is given; CreateChild puts a new block in front and starts without nodes and
    records; CreateNode puts a new node in front and keeps Blocks and Records.  InlineTableMap.Set evaluates the
    definition in a node of its own and sets RecursiveTable there for WITH RECURSIVE (a second one inside: error);
    selectSet clears RecursiveTmpView after the anchor member was evaluated and hands over to selectSetForRecursion,
    which counts against --limit-recursion, stores the anchor's view (first round) / the step's view (later rounds)
    under the upper-cased name and the column list as RecursiveTmpView BEFORE the next step is evaluated in a fresh
    node, stops at the first empty step, merges with the operator.  (re-reviewed on fd70b7c, F101) selectSet runs a set operation as the
    recursion only when `scope.RecursiveTable != nil && scope.recursionRoot`; recursionRoot is a field of the scope
    that NONE of the three constructors copies (zero in every derived scope); it is written in one place, selectQuery,
    on the node that function derives for the query, from its parameter; selectQuery is called with `false` by Select
    (every sub-query, derived table, parenthesised set operand) and with `inlineTable.IsRecursive()` by
    InlineTableMap.Set - so only the set operator of the recursive table's own query is the recursion (a chain
    `a UNION ALL b UNION ALL c` nests on the left in that same scope, as before); a set operator in a sub-query, a
    derived table or a parenthesised right-hand side of a member is an ordinary one in a scope that still sees the
    working view.
-/
namespace Csvq.Ref

/-- `Header.FieldIndex` before the loop: how `view` and `column` are taken from the reference -/
def fieldIndexPrelude : List String :=
  ["varviewstring",
   "if(0<len(fieldRef.View.Literal)){",
   "view=fieldRef.View.Literal",
   "}",
   "col,ok:=fieldRef.Column.(parser.Identifier)",
   "if(!ok){",
   "return-1,errFieldAmbiguous",
   "}",
   "column:=strings.TrimSpace(col.Literal)",
   "idx:=-1"]

/-- `Header.SearchIndex` -/
def searchIndexBody : List String :=
  ["if(number,ok:=fieldRef.(parser.ColumnNumber);ok){",
   "returnh.FieldNumberIndex(number)",
   "}",
   "returnh.FieldIndex(fieldRef.(parser.FieldReference))"]

/-- `Header.ContainsObject` -/
def containsObjectBody : List String :=
  ["typeswitch(obj.(type)){",
   "case(parser.FieldReference,parser.ColumnNumber):",
   "if(n,err:=h.SearchIndex(obj);err==nil){",
   "returnn,true",
   "}else{",
   "return-1,false",
   "}",
   "}",
   "column:=FormatFieldIdentifier(obj)",
   "idx:=-1",
   "for(i,f:range:h){",
   "if(f.IsFromTable||len(f.Identifier)<1){",
   "continue",
   "}",
   "if(!equalFieldIdentifiers(f.Identifier,column)){",
   "continue",
   "}",
   "idx=i",
   "break",
   "}",
   "if(idx<0){",
   "return-1,false",
   "}",
   "returnidx,true"]

/-- `Header.Update` (a derived table / CTE / aliased table gets its alias as view name) -/
def headerUpdateBody : List String :=
  ["if(fields!=nil&&0<len(fields)){",
   "if(len(fields)!=h.Len()){",
   "returnNewFieldLengthNotMatchError(fields[0])",
   "}",
   "names:=make(map[string]bool,len(fields))",
   "for(i:range:fields){",
   "lit:=strings.ToUpper(fields[i].(parser.Identifier).Literal)",
   "if(_,ok:=names[lit];ok){",
   "returnNewDuplicateFieldNameError(fields[i].(parser.Identifier))",
   "}",
   "names[lit]=true",
   "}",
   "}",
   "for(i:range:h){",
   "h[i].View=reference",
   "if(fields!=nil&&0<len(fields)){",
   "h[i].Column=fields[i].(parser.Identifier).Literal",
   "}",
   "h[i].Aliases=nil",
   "}",
   "returnnil"]

/-- `View.Fix`: what is done to every field of the new header (loop over view.selectFields) -/
def fixHeaderEffects : List String :=
  ["colNumber++",
   "hfields[i]=view.Header[idx]",
   "hfields[i].Identifier=\"\"",
   "hfields[i].Aliases=nil",
   "hfields[i].Number=colNumber",
   "hfields[i].IsFromTable=true",
   "hfields[i].IsJoinColumn=false",
   "hfields[i].IsGroupKey=false",
   "if(0<len(view.selectLabels)){",
   "hfields[i].Column=view.selectLabels[i]",
   "}"]

/-- `View.Fix`: after the header loop -/
def fixViewResets : List String :=
  ["view.Header=hfields",
   "view.selectFields=nil",
   "view.selectLabels=nil",
   "view.isGrouped=false",
   "view.comparisonKeysInEachRecord=nil",
   "view.sortValuesInEachCell=nil",
   "view.sortValuesInEachRecord=nil",
   "view.sortDirections=nil",
   "view.sortNullPositions=nil",
   "view.offset=0",
   "returnnil"]

/-- `View.filter` -/
def filterBody : List String :=
  ["results:=make([]bool,view.RecordLen())",
   "if(err:=EvaluateSequentially(ctx,scope,view,func(seqScope*ReferenceScope,rIdxint)error{primary,e:=Evaluate(ctx,seqScope,condition)ife!=nil{returne}ifprimary.Ternary()==ternary.TRUE{results[rIdx]=true}returnnil});err!=nil){",
   "returnerr",
   "}",
   "newIdx:=0",
   "for(i,ok:range:results){",
   "if(ok){",
   "if(i!=newIdx){",
   "view.RecordSet[newIdx]=view.RecordSet[i]",
   "}",
   "newIdx++",
   "}",
   "}",
   "view.RecordSet=view.RecordSet[:newIdx]",
   "returnnil"]

/-- every place in lib/query (tests aside) that writes HeaderField.IsJoinColumn or .Aliases: file:function:statement -/
def headerFlagWrites : List String :=
  ["header.go:AddHeaderField:hfield.Aliases=append(hfield.Aliases,alias)",
   "header.go:Header.Copy:header[i].Aliases=make([]string,len(h[i].Aliases))",
   "header.go:Header.Update:h[i].Aliases=nil",
   "load_view.go:joinViews:view.Header[fidx].IsJoinColumn=true",
   "view.go:View.Fix:hfields[i].Aliases=nil",
   "view.go:View.Fix:hfields[i].IsJoinColumn=false",
   "view.go:View.evalColumn:view.Header[idx].Aliases=append(view.Header[idx].Aliases,alias)"]

/-- `loadObject` as a whole -/
def loadObjectBody : List String :=
  ["if(stdin,ok:=tablePath.(parser.Stdin);ok){",
   "returnloadObjectFromStdin(ctx,scope,stdin,tableName,forUpdate,useInternalId,options)",
   "}",
   "if(!isInlineObject){",
   "if(tableFunction,ok:=tablePath.(parser.TableFunction);ok&&strings.ToUpper(tableFunction.Name)==\"INLINE\"){",
   "isInlineObject=true",
   "}",
   "}",
   "originalTablePath:=tablePath",
   "tablePath,err:=NormalizeTableObject(ctx,scope,tablePath)",
   "if(err!=nil){",
   "returnnil,err",
   "}",
   "if(dataObject,ok:=tablePath.(DataObject);ok){",
   "returnloadDataObject(ctx,scope,dataObject,originalTablePath,tableName,options)",
   "}",
   "if(httpObject,ok:=tablePath.(HttpObject);ok){",
   "returnloadHttpObject(ctx,scope,httpObject,originalTablePath,tableName,options)",
   "}",
   "fileIdentifier:=tablePath.(parser.Identifier)",
   "if(isInlineObject){",
   "returnloadInlineObjectFromFile(ctx,scope,fileIdentifier,tableName,options)",
   "}",
   "if(scope.RecursiveTable!=nil&&strings.EqualFold(fileIdentifier.Literal,scope.RecursiveTable.Name.Literal)&&scope.RecursiveTmpView!=nil){",
   "view:=scope.RecursiveTmpView.Copy()",
   "if(!strings.EqualFold(scope.RecursiveTable.Name.Literal,tableName.Literal)){",
   "if(err:=view.Header.Update(tableName.Literal,nil);err!=nil){",
   "returnnil,err",
   "}",
   "}",
   "returnview,nil",
   "}",
   "if(scope.InlineTableExists(fileIdentifier)){",
   "if(err:=scope.AddAlias(tableName,\"\");err!=nil){",
   "returnnil,err",
   "}",
   "view,_:=scope.GetInlineTable(fileIdentifier)",
   "if(!strings.EqualFold(fileIdentifier.Literal,tableName.Literal)){",
   "if(err:=view.Header.Update(tableName.Literal,nil);err!=nil){",
   "returnnil,err",
   "}",
   "}",
   "returnview,nil",
   "}",
   "if(scope.TemporaryTableExists(fileIdentifier.Literal)){",
   "varview*View=nil",
   "varerrerror",
   "if(useInternalId){",
   "view,err=scope.GetTemporaryTableWithInternalId(ctx,fileIdentifier,scope.Tx.Flags)",
   "}else{",
   "view,err=scope.GetTemporaryTable(fileIdentifier)",
   "}",
   "if(err!=nil){",
   "returnnil,err",
   "}",
   "if(err:=scope.AddAlias(tableName,fileIdentifier.Literal);err!=nil){",
   "returnnil,err",
   "}",
   "if(!strings.EqualFold(FormatTableName(fileIdentifier.Literal),tableName.Literal)){",
   "if(err:=view.Header.Update(tableName.Literal,nil);err!=nil){",
   "returnnil,err",
   "}",
   "}",
   "returnview,nil",
   "}",
   "returnloadObjectFromFile(ctx,scope,fileIdentifier,tableName,forUpdate,useInternalId,options)"]

/-- `joinViews` before the dispatch: condition parsing and the default join type -/
def joinTypeDefault : List String :=
  ["condition,includeFields,excludeFields,err:=ParseJoinCondition(join,view,joinView)",
   "if(err!=nil){",
   "returnerr",
   "}",
   "joinType:=join.JoinType.Token",
   "if(join.JoinType.IsEmpty()){",
   "if(join.Direction.IsEmpty()){",
   "joinType=parser.INNER",
   "}else{",
   "joinType=parser.OUTER",
   "}",
   "}"]

/-- `joinViews`: join type → function(arguments) -/
def joinDispatch : List String :=
  ["parser.CROSS→CrossJoin(ctx,scope,view,joinView)",
   "parser.INNER→InnerJoin(ctx,scope,view,joinView,condition)",
   "parser.OUTER→OuterJoin(ctx,scope,view,joinView,condition,join.Direction.Token)"]

/-- `joinViews` as a whole (dispatch, then the USING / NATURAL column merge) -/
def joinViewsBody : List String :=
  ["condition,includeFields,excludeFields,err:=ParseJoinCondition(join,view,joinView)",
   "if(err!=nil){",
   "returnerr",
   "}",
   "joinType:=join.JoinType.Token",
   "if(join.JoinType.IsEmpty()){",
   "if(join.Direction.IsEmpty()){",
   "joinType=parser.INNER",
   "}else{",
   "joinType=parser.OUTER",
   "}",
   "}",
   "switch(joinType){",
   "case(parser.CROSS):",
   "if(err=CrossJoin(ctx,scope,view,joinView);err!=nil){",
   "returnerr",
   "}",
   "case(parser.INNER):",
   "if(err=InnerJoin(ctx,scope,view,joinView,condition);err!=nil){",
   "returnerr",
   "}",
   "case(parser.OUTER):",
   "if(err=OuterJoin(ctx,scope,view,joinView,condition,join.Direction.Token);err!=nil){",
   "returnerr",
   "}",
   "}",
   "if(includeFields!=nil){",
   "includeIndices:=NewUintPool(len(includeFields),LimitToUseUintSlicePool)",
   "excludeIndices:=NewUintPool(view.FieldLen()-len(includeFields),LimitToUseUintSlicePool)",
   "alternatives:=make(map[int]int)",
   "for(i:range:includeFields){",
   "idx,_:=view.Header.SearchIndex(includeFields[i])",
   "includeIndices.Add(uint(idx))",
   "eidx,_:=view.Header.SearchIndex(excludeFields[i])",
   "excludeIndices.Add(uint(eidx))",
   "alternatives[idx]=eidx",
   "}",
   "fieldIndices:=make([]int,0,view.FieldLen()-excludeIndices.Len())",
   "header:=make(Header,0,view.FieldLen()-excludeIndices.Len())",
   "_=includeIndices.Range(func(_int,fidxuint)error{view.Header[fidx].View=\"\"view.Header[fidx].Number=0view.Header[fidx].IsJoinColumn=trueheader=append(header,view.Header[fidx])fieldIndices=append(fieldIndices,int(fidx))returnnil})",
   "for(i:range:view.Header){",
   "if(excludeIndices.Exists(uint(i))||includeIndices.Exists(uint(i))){",
   "continue",
   "}",
   "header=append(header,view.Header[i])",
   "fieldIndices=append(fieldIndices,i)",
   "}",
   "view.Header=header",
   "fieldLen:=len(fieldIndices)",
   "if(err=NewGoroutineTaskManager(view.RecordLen(),-1,scope.Tx.Flags.CPU).Run(ctx,func(indexint)error{record:=make(Record,fieldLen)fori,idx:=rangefieldIndices{ifincludeIndices.Exists(uint(idx))&&value.IsNull(view.RecordSet[index][idx][0]){record[i]=view.RecordSet[index][alternatives[idx]]}else{record[i]=view.RecordSet[index][idx]}}view.RecordSet[index]=recordreturnnil});err!=nil){",
   "returnerr",
   "}",
   "}",
   "returnnil"]

/-- `CrossJoin`: the returns taken before any record is looked at -/
def crossJoinShortcuts : List String :=
  []

/-- `CrossJoin` as a whole -/
def crossJoinBody : List String :=
  ["mergedHeader:=view.Header.Merge(joinView.Header)",
   "records:=make(RecordSet,view.RecordLen()*joinView.RecordLen())",
   "if(err:=NewGoroutineTaskManager(view.RecordLen(),CalcMinimumRequired(view.RecordLen(),joinView.RecordLen(),MinimumRequiredPerCPUCore),scope.Tx.Flags.CPU).Run(ctx,func(indexint)error{start:=index*joinView.RecordLen()fori:=0;i<joinView.RecordLen();i++{records[start+i]=view.RecordSet[index].Merge(joinView.RecordSet[i],nil)}returnnil});err!=nil){",
   "returnerr",
   "}",
   "view.Header=mergedHeader",
   "view.RecordSet=records",
   "view.FileInfo=nil",
   "returnnil"]

/-- `InnerJoin`: the returns taken before any record is looked at -/
def innerJoinShortcuts : List String :=
  ["if(condition==nil){",
   "returnCrossJoin(ctx,scope,view,joinView)",
   "}"]

/-- `InnerJoin` as a whole -/
def innerJoinBody : List String :=
  ["if(condition==nil){",
   "returnCrossJoin(ctx,scope,view,joinView)",
   "}",
   "varrecordPool=&sync.Pool{New:func()interface{}{returnmake(Record,view.FieldLen()+joinView.FieldLen())},}",
   "mergedHeader:=view.Header.Merge(joinView.Header)",
   "gm:=NewGoroutineTaskManager(view.RecordLen(),CalcMinimumRequired(view.RecordLen(),joinView.RecordLen(),MinimumRequiredPerCPUCore),scope.Tx.Flags.CPU)",
   "recordsList:=make([]RecordSet,gm.Number)",
   "varjoinFn=func(thIdxint){deferfunc(){ifpanicReport:=recover();panicReport!=nil{gm.SetError(NewFatalError(panicReport))}if1<gm.Number{gm.Done()}}()ctx:=ctxstart,end:=gm.RecordRange(thIdx)records:=make(RecordSet,0,end-start)seqScope:=scope.CreateScopeForRecordEvaluation(&View{Header:mergedHeader,RecordSet:make(RecordSet,1),},0,)InnerJoinLoop:fori:=start;i<end;i++{forj:=0;j<joinView.RecordLen();j++{ifgm.HasError(){breakInnerJoinLoop}ifi&15==0&&ctx.Err()!=nil{breakInnerJoinLoop}mergedRecord:=view.RecordSet[i].Merge(joinView.RecordSet[j],recordPool)seqScope.Records[0].view.RecordSet[0]=mergedRecordprimary,e:=Evaluate(ctx,seqScope,condition)ife!=nil{gm.SetError(e)breakInnerJoinLoop}ifprimary.Ternary()==ternary.TRUE{records=append(records,mergedRecord)}else{fori:=rangemergedRecord{mergedRecord[i]=nil}recordPool.Put(mergedRecord)}}}recordsList[thIdx]=records}",
   "if(1<gm.Number){",
   "for(i:=0;i<gm.Number;i++){",
   "gm.Add()",
   "go:joinFn(i)",
   "}",
   "gm.Wait()",
   "}else{",
   "joinFn(0)",
   "}",
   "if(gm.HasError()){",
   "returngm.Err()",
   "}",
   "if(ctx.Err()!=nil){",
   "returnConvertContextError(ctx.Err())",
   "}",
   "view.Header=mergedHeader",
   "view.RecordSet=MergeRecordSetList(recordsList)",
   "view.FileInfo=nil",
   "returnnil"]

/-- `OuterJoin`: the returns taken before any record is looked at -/
def outerJoinShortcuts : List String :=
  []

/-- `OuterJoin` as a whole -/
def outerJoinBody : List String :=
  ["if(direction==parser.TokenUndefined){",
   "direction=parser.LEFT",
   "}",
   "varrecordPool=&sync.Pool{New:func()interface{}{returnmake(Record,view.FieldLen()+joinView.FieldLen())},}",
   "mergedHeader:=view.Header.Merge(joinView.Header)",
   "if(direction==parser.RIGHT){",
   "view,joinView=joinView,view",
   "}",
   "gm:=NewGoroutineTaskManager(view.RecordLen(),CalcMinimumRequired(view.RecordLen(),joinView.RecordLen(),MinimumRequiredPerCPUCore),scope.Tx.Flags.CPU)",
   "recordsList:=make([]RecordSet,gm.Number+1)",
   "joinViewMatchesList:=make([][]bool,gm.Number)",
   "varjoinFn=func(thIdxint){deferfunc(){ifpanicReport:=recover();panicReport!=nil{gm.SetError(NewFatalError(panicReport))}if1<gm.Number{gm.Done()}}()ctx:=ctxstart,end:=gm.RecordRange(thIdx)records:=make(RecordSet,0,end-start)seqScope:=scope.CreateScopeForRecordEvaluation(&View{Header:mergedHeader,RecordSet:make(RecordSet,1),},0,)joinViewMatches:=make([]bool,joinView.RecordLen())varleftViewFieldLenintifdirection==parser.RIGHT{leftViewFieldLen=joinView.FieldLen()}else{leftViewFieldLen=view.FieldLen()}OuterJoinLoop:fori:=start;i<end;i++{match:=falseforj:=0;j<joinView.RecordLen();j++{ifgm.HasError(){breakOuterJoinLoop}ifi&15==0&&ctx.Err()!=nil{breakOuterJoinLoop}varmergedRecordRecordswitchdirection{caseparser.RIGHT:mergedRecord=joinView.RecordSet[j].Merge(view.RecordSet[i],recordPool)default:mergedRecord=view.RecordSet[i].Merge(joinView.RecordSet[j],recordPool)}seqScope.Records[0].view.RecordSet[0]=mergedRecordprimary,e:=Evaluate(ctx,seqScope,condition)ife!=nil{gm.SetError(e)breakOuterJoinLoop}ifprimary.Ternary()==ternary.TRUE{ifdirection==parser.FULL&&!joinViewMatches[j]{joinViewMatches[j]=true}records=append(records,mergedRecord)match=true}else{fori:=rangemergedRecord{mergedRecord[i]=nil}recordPool.Put(mergedRecord)}}if!match{record:=recordPool.Get().(Record)switchdirection{caseparser.RIGHT:fork:=0;k<leftViewFieldLen;k++{record[k]=NewCell(value.NewNull())}fork:=rangeview.RecordSet[i]{record[k+leftViewFieldLen]=view.RecordSet[i][k]}default:fork:=rangeview.RecordSet[i]{record[k]=view.RecordSet[i][k]}fork:=0;k<joinView.FieldLen();k++{record[k+leftViewFieldLen]=NewCell(value.NewNull())}}records=append(records,record)}}recordsList[thIdx]=recordsjoinViewMatchesList[thIdx]=joinViewMatches}",
   "if(1<gm.Number){",
   "for(i:=0;i<gm.Number;i++){",
   "gm.Add()",
   "go:joinFn(i)",
   "}",
   "gm.Wait()",
   "}else{",
   "joinFn(0)",
   "}",
   "if(gm.HasError()){",
   "returngm.Err()",
   "}",
   "if(ctx.Err()!=nil){",
   "returnConvertContextError(ctx.Err())",
   "}",
   "if(direction==parser.FULL){",
   "appendIndices:=make([]int,0,joinView.RecordLen())",
   "for(i:=0;i<joinView.RecordLen();i++){",
   "match:=false",
   "for(_,joinViewMatches:range:joinViewMatchesList){",
   "if(joinViewMatches[i]){",
   "match=true",
   "break",
   "}",
   "}",
   "if(!match){",
   "appendIndices=append(appendIndices,i)",
   "}",
   "}",
   "recordsListIdx:=len(recordsList)-1",
   "recordsList[recordsListIdx]=make(RecordSet,len(appendIndices))",
   "viewFieldLen:=view.FieldLen()",
   "for(i,idx:range:appendIndices){",
   "record:=recordPool.Get().(Record)",
   "for(k:=0;k<viewFieldLen;k++){",
   "record[k]=NewCell(value.NewNull())",
   "}",
   "for(k:range:joinView.RecordSet[idx]){",
   "record[k+viewFieldLen]=joinView.RecordSet[idx][k]",
   "}",
   "recordsList[recordsListIdx][i]=record",
   "}",
   "}",
   "if(direction==parser.RIGHT){",
   "view,joinView=joinView,view",
   "}",
   "view.Header=mergedHeader",
   "view.RecordSet=MergeRecordSetList(recordsList)",
   "view.FileInfo=nil",
   "returnnil"]

/-- `OuterJoin`: the padding branch `if !match` -/
def outerPadding : List String :=
  ["appendIndices=append(appendIndices,i)"]

/-- `OuterJoin`: top-level `if direction == parser.RIGHT` statements (position: effect) -/
def outerRightSwaps : List String :=
  ["stmt3:view,joinView=joinView,view",
   "stmt12:view,joinView=joinView,view"]

/-- `View.Fix` before the header loop: when and how the records are re-projected onto the selected fields -/
def fixProjection : List String :=
  ["fieldLen:=len(view.selectFields)",
   "resize:=false",
   "if(fieldLen!=view.FieldLen()){",
   "resize=true",
   "}else{",
   "for(i:=0;i<view.FieldLen();i++){",
   "if(view.selectFields[i]!=i){",
   "resize=true",
   "break",
   "}",
   "}",
   "}",
   "if(resize){",
   "if(err:=NewGoroutineTaskManager(view.RecordLen(),-1,flags.CPU).Run(ctx,func(indexint)error{record:=make(Record,fieldLen)forj,idx:=rangeview.selectFields{record[j]=view.RecordSet[index][idx][:1]}iflen(view.RecordSet[index])<fieldLen{view.RecordSet[index]=make(Record,fieldLen)}elseiffieldLen<len(view.RecordSet[index]){view.RecordSet[index]=view.RecordSet[index][:fieldLen]}fori:=rangerecord{view.RecordSet[index][i]=record[i]}returnnil});err!=nil){",
   "returnerr",
   "}",
   "}",
   "hfields:=NewEmptyHeader(len(view.selectFields))",
   "colNumber:=0"]

/-- `equalFieldIdentifiers` (how `ContainsObject` compares the formatted text of computed expressions) -/
def equalFieldIdentifiersBody : List String :=
  ["if(a==b){",
   "returntrue",
   "}",
   "if(!strings.EqualFold(a,b)){",
   "returnfalse",
   "}",
   "ra,rb:=[]rune(a),[]rune(b)",
   "if(len(ra)!=len(rb)){",
   "returntrue",
   "}",
   "varquoterune=0",
   "escaped:=false",
   "for(i:range:ra){",
   "switch(){",
   "case(quote==0):",
   "if(ra[i]=='\\''||ra[i]=='`'){",
   "quote=ra[i]",
   "}",
   "case(quote=='\\''&&ra[i]!=rb[i]):",
   "returnfalse",
   "case(escaped):",
   "escaped=false",
   "case(ra[i]=='\\\\'):",
   "escaped=true",
   "case(ra[i]==quote):",
   "quote=0",
   "}",
   "}",
   "returntrue"]

/-- `View.evalColumn`: a select / ORDER BY item is looked up in the header only when it is a reference or an analytic function; everything else is calculated per record; then the alias is recorded -/
def evalColumnBody : List String :=
  ["varidx=-1",
   "varok=false",
   "typeswitch(obj.(type)){",
   "case(parser.FieldReference,parser.ColumnNumber,parser.AnalyticFunction):",
   "idx,ok=view.Header.ContainsObject(obj)",
   "typeswitch(obj.(type)){",
   "case(parser.FieldReference,parser.ColumnNumber):",
   "if(ok&&view.isGrouped&&view.Header[idx].IsFromTable&&!view.Header[idx].IsGroupKey){",
   "returnidx,NewFieldNotGroupKeyError(obj)",
   "}",
   "}",
   "}",
   "if(!ok){",
   "if(err:=EvaluateSequentially(ctx,scope,view,func(seqScope*ReferenceScope,rIdxint)error{primary,e:=Evaluate(ctx,seqScope,obj)ife!=nil{returne}view.RecordSet[rIdx]=append(view.RecordSet[rIdx],NewCell(primary))returnnil});err!=nil){",
   "returnidx,err",
   "}",
   "view.Header,idx=AddHeaderField(view.Header,FormatFieldIdentifier(obj),FormatFieldLabel(obj),alias)",
   "}",
   "if(0<len(alias)){",
   "if(!strings.EqualFold(view.Header[idx].Column,alias)&&!InStrSliceWithCaseInsensitive(alias,view.Header[idx].Aliases)){",
   "view.Header[idx].Aliases=append(view.Header[idx].Aliases,alias)",
   "}",
   "}",
   "returnidx,nil"]

/-- `FieldNumberIndex` with its two conditions named GUARD and MATCH: the first matching field is returned -/
def fieldNumberIndexShape : List String :=
  ["view:=number.View.Literal",
   "idx:=int(number.Number.Raw())",
   "if(GUARD){",
   "return-1,errFieldNotExist",
   "}",
   "for(i,f:range:h){",
   "if(MATCH){",
   "returni,nil",
   "}",
   "}",
   "return-1,errFieldNotExist"]

/-! reference_scope.go / query.go / inline_tables.go: the scope constructors and the recursion (reviewed on f7faefc) -/

/-- `ReferenceScope.createScope` as a whole -/
def createScopeBody : List String :=
  ["return&ReferenceScope{Tx:rs.Tx,Blocks:rs.Blocks,nodes:rs.nodes,cachedFilePath:rs.cachedFilePath,now:rs.now,Records:referenceRecords,RecursiveTable:rs.RecursiveTable,RecursiveTmpView:rs.RecursiveTmpView,RecursiveCount:rs.RecursiveCount,}"]

/-- `ReferenceScope.CreateChild` as a whole -/
def createChildBody : List String :=
  ["blocks:=make([]BlockScope,len(rs.Blocks)+1)",
   "blocks[0]=GetBlockScope()",
   "for(i:range:rs.Blocks){",
   "blocks[i+1]=rs.Blocks[i]",
   "}",
   "return&ReferenceScope{Tx:rs.Tx,Blocks:blocks,nodes:nil,cachedFilePath:rs.cachedFilePath,now:rs.now,RecursiveTable:rs.RecursiveTable,RecursiveTmpView:rs.RecursiveTmpView,RecursiveCount:rs.RecursiveCount,}"]

/-- `ReferenceScope.CreateNode` as a whole -/
def createNodeBody : List String :=
  ["nodes:=make([]NodeScope,len(rs.nodes)+1)",
   "nodes[0]=GetNodeScope()",
   "for(i:range:rs.nodes){",
   "nodes[i+1]=rs.nodes[i]",
   "}",
   "node:=&ReferenceScope{Tx:rs.Tx,Blocks:rs.Blocks,nodes:nodes,cachedFilePath:rs.cachedFilePath,now:rs.now,Records:rs.Records,RecursiveTable:rs.RecursiveTable,RecursiveTmpView:rs.RecursiveTmpView,RecursiveCount:rs.RecursiveCount,}",
   "if(node.cachedFilePath==nil){",
   "node.cachedFilePath=make(map[string]string)",
   "}",
   "if(node.now.IsZero()){",
   "node.now=option.Now(rs.Tx.Flags.GetTimeLocation())",
   "}",
   "returnnode"]

/-- `selectSet`: only the set operation of the recursive table's own query (scope.recursionRoot) is run as the recursion -/
def selectSetBody : List String :=
  ["lview,err:=selectSetEntity(ctx,scope,set.LHS,forUpdate)",
   "if(err!=nil){",
   "returnnil,err",
   "}",
   "if(scope.RecursiveTable!=nil&&scope.recursionRoot){",
   "scope.RecursiveTmpView=nil",
   "err:=selectSetForRecursion(ctx,scope,lview,set,forUpdate)",
   "if(err!=nil){",
   "returnnil,err",
   "}",
   "}else{",
   "queryScope:=scope.CreateNode()",
   "rview,err:=selectSetEntity(ctx,queryScope,set.RHS,forUpdate)",
   "queryScope.CloseCurrentNode()",
   "queryScope=nil",
   "if(err!=nil){",
   "returnnil,err",
   "}",
   "if(lview.FieldLen()!=rview.FieldLen()){",
   "returnnil,NewCombinedSetFieldLengthError(set.RHS,lview.FieldLen())",
   "}",
   "switch(set.Operator.Token){",
   "case(parser.UNION):",
   "if(err=lview.Union(ctx,scope.Tx.Flags,rview,!set.All.IsEmpty());err!=nil){",
   "returnnil,err",
   "}",
   "case(parser.EXCEPT):",
   "if(err=lview.Except(ctx,scope.Tx.Flags,rview,!set.All.IsEmpty());err!=nil){",
   "returnnil,err",
   "}",
   "case(parser.INTERSECT):",
   "if(err=lview.Intersect(ctx,scope.Tx.Flags,rview,!set.All.IsEmpty());err!=nil){",
   "returnnil,err",
   "}",
   "}",
   "}",
   "err=lview.SelectAllColumns(ctx,scope)",
   "returnlview,err"]

/-- `selectSetForRecursion`: the limit count, the working view (first the anchor's records, then the records of the step before), the step, the merge -/
def selectSetForRecursionBody : List String :=
  ["if(ctx.Err()!=nil){",
   "returnConvertContextError(ctx.Err())",
   "}",
   "if(-1<scope.Tx.Flags.LimitRecursion){",
   "if(scope.RecursiveCount==nil){",
   "scope.RecursiveCount=new(int64)",
   "}",
   "if(scope.Tx.Flags.LimitRecursion<atomic.AddInt64(scope.RecursiveCount,1)){",
   "returnNewRecursionExceededLimitError(set.RHS,scope.Tx.Flags.LimitRecursion)",
   "}",
   "}",
   "tmpViewName:=strings.ToUpper(scope.RecursiveTable.Name.Literal)",
   "if(scope.RecursiveTmpView==nil){",
   "err:=view.Header.Update(tmpViewName,scope.RecursiveTable.Fields)",
   "if(err!=nil){",
   "returnerr",
   "}",
   "scope.RecursiveTmpView=view",
   "}",
   "queryScope:=scope.CreateNode()",
   "rview,err:=selectSetEntity(ctx,queryScope,set.RHS,forUpdate)",
   "queryScope.CloseCurrentNode()",
   "queryScope=nil",
   "if(err!=nil){",
   "returnerr",
   "}",
   "if(view.FieldLen()!=rview.FieldLen()){",
   "returnNewCombinedSetFieldLengthError(set.RHS,view.FieldLen())",
   "}",
   "if(rview.RecordLen()<1){",
   "returnnil",
   "}",
   "switch(set.Operator.Token){",
   "case(parser.UNION):",
   "if(err=view.Union(ctx,scope.Tx.Flags,rview,!set.All.IsEmpty());err!=nil){",
   "returnerr",
   "}",
   "case(parser.EXCEPT):",
   "if(err=view.Except(ctx,scope.Tx.Flags,rview,!set.All.IsEmpty());err!=nil){",
   "returnerr",
   "}",
   "case(parser.INTERSECT):",
   "if(err=view.Intersect(ctx,scope.Tx.Flags,rview,!set.All.IsEmpty());err!=nil){",
   "returnerr",
   "}",
   "}",
   "if(err=rview.Header.Update(tmpViewName,scope.RecursiveTable.Fields);err!=nil){",
   "returnerr",
   "}",
   "scope.RecursiveTmpView=rview",
   "returnselectSetForRecursion(ctx,scope,view,set,forUpdate)"]

/-- `InlineTableMap.Set`: a node of its own, RecursiveTable for WITH RECURSIVE, the query, the header -/
def inlineTableSetBody : List String :=
  ["scope=scope.CreateNode()",
   "if(inlineTable.IsRecursive()){",
   "if(scope.RecursiveTable!=nil){",
   "returnNewNestedRecursionError(inlineTable.Name)",
   "}",
   "scope.RecursiveTable=&inlineTable",
   "}",
   "view,err:=selectQuery(ctx,scope,inlineTable.Query,inlineTable.IsRecursive())",
   "scope.CloseCurrentNode()",
   "if(err!=nil){",
   "returnerr",
   "}",
   "err=view.Header.Update(inlineTable.Name.Literal,inlineTable.Fields)",
   "if(err!=nil){",
   "if(_,ok:=err.(*FieldLengthNotMatchError);ok){",
   "returnNewInlineTableFieldLengthError(inlineTable.Query,inlineTable.Name,len(inlineTable.Fields))",
   "}",
   "returnerr",
   "}",
   "view.FileInfo=nil",
   "returnit.Store(inlineTable.Name,view)"]

/-- `selectQuery(ctx context.Context,scope *ReferenceScope,query parser.SelectQuery,recursionRoot bool)`: how the scope of the query is made (`Select` calls it with recursionRoot=false) -/
def selectQueryScope : List String :=
  ["queryScope:=scope.CreateNode()",
   "queryScope.recursionRoot=recursionRoot"]

/-- every call of selectQuery and every write of .recursionRoot in lib/query (tests aside): file:function:what -/
def recursionRootWrites : List String :=
  ["inline_tables.go:InlineTableMap.Set:selectQuery(ctx,scope,inlineTable.Query,inlineTable.IsRecursive())",
   "query.go:Select:selectQuery(ctx,scope,query,false)",
   "query.go:selectQuery:queryScope.recursionRoot=recursionRoot"]

/-! comparison.go / eval.go: LIKE (reviewed on e406f76, after the repairs F111 = e581029 + e406f76).
   Model/Like.lean was written against exactly these statements:
   * Like: a NULL operand or an operand value.ToString turns into NULL is UNKNOWN; both texts through strings.ToUpper;
     `str == pattern && !strings.Contains(pattern, "\\")` is TRUE at once (before e406f76: also with a backslash -
     the text `a\%` matched the pattern `a\%`, which stands for `a%`); an empty pattern is FALSE; matchText on []rune of both;
   * matchTextTail only keeps the (len text, len pattern) pairs that did not match - every call is made with tails of
     the one text and the one pattern, so the pair identifies the arguments; the memo changes no answer;
   * matchTextTailOnce: with a word, a text shorter than anyRunesMinLen fails, the word is searched with strings.Index
     in text[anyRunesMinLen:] and idx counts runes from the start of the text (before e581029 the search began at the
     start of the text and an earlier occurrence hid the one at the position the underscores fix: 'aa' LIKE '_a'); with
     anyRunesMaxLen < 0 the same pattern is tried on text[idx+1-anyRunesMinLen:] first (before: text[idx+1:], the
     dropped runes no longer counted: 'aa' LIKE '%_a'); then anyRunes = text[:idx] must number between min and max, an
     empty rest wants the word at the end, otherwise matchTextTail goes on behind the word;
   * matchCondition: wildcards before the word (`_`: min++ and max++ unless max is -1; `%`: max = -1), the word up to
     the next unescaped wildcard, `\%` `\_` give the character, a backslash before anything else or at the end stays;
   * evalLike evaluates both operands (no short-circuit), then Like, then ternary.Not for NOT LIKE. -/

/-- `Like`: NULL operands, value.ToString, strings.ToUpper, the shortcut for equal texts, the empty pattern, matchText on the runes (p1 value.Primary,p2 value.Primary) -/
def likeBody : List String :=
  ["if(value.IsNull(p1)||value.IsNull(p2)){",
   "returnternary.UNKNOWN",
   "}",
   "s1:=value.ToString(p1)",
   "if(value.IsNull(s1)){",
   "returnternary.UNKNOWN",
   "}",
   "str:=strings.ToUpper(s1.(*value.String).Raw())",
   "value.Discard(s1)",
   "s2:=value.ToString(p2)",
   "if(value.IsNull(s2)){",
   "returnternary.UNKNOWN",
   "}",
   "pattern:=strings.ToUpper(s2.(*value.String).Raw())",
   "value.Discard(s2)",
   "if(str==pattern&&!strings.Contains(pattern,\"\\\\\")){",
   "returnternary.TRUE",
   "}",
   "if(len(pattern)<1){",
   "returnternary.FALSE",
   "}",
   "returnmatchText([]rune(str),[]rune(pattern))"]

/-- `matchText` (text []rune,pattern []rune) -/
def matchTextBody : List String :=
  ["returnmatchTextTail(text,pattern,make(map[[2]int]bool))"]

/-- `matchTextTail`: the memo of failed (len text, len pattern) pairs around matchTextTailOnce (text []rune,pattern []rune,failed map[[2]int]bool) -/
def matchTextTailBody : List String :=
  ["key:=[2]int{len(text),len(pattern)}",
   "if(failed[key]){",
   "returnternary.FALSE",
   "}",
   "t:=matchTextTailOnce(text,pattern,failed)",
   "if(t!=ternary.TRUE){",
   "failed[key]=true",
   "}",
   "returnt"]

/-- `matchTextTailOnce`: one segment - where the word is searched, the retry, the bounds, the end / the rest (text []rune,pattern []rune,failed map[[2]int]bool) -/
def matchTextTailOnceBody : List String :=
  ["anyRunesMinLen,anyRunesMaxLen,searchWord,restPattern:=matchCondition(pattern)",
   "anyRunes:=text",
   "if(0<len(searchWord)){",
   "if(len(text)<anyRunesMinLen){",
   "returnternary.FALSE",
   "}",
   "tailStr:=string(text[anyRunesMinLen:])",
   "bidx:=strings.Index(tailStr,string(searchWord))",
   "if(bidx<0){",
   "returnternary.FALSE",
   "}",
   "idx:=anyRunesMinLen+utf8.RuneCountInString(tailStr[:bidx])",
   "if(anyRunesMaxLen<0&&matchTextTail(text[idx+1-anyRunesMinLen:],pattern,failed)==ternary.TRUE){",
   "returnternary.TRUE",
   "}",
   "anyRunes=text[:idx]",
   "}",
   "if(len(anyRunes)<anyRunesMinLen){",
   "returnternary.FALSE",
   "}",
   "if(-1<anyRunesMaxLen&&anyRunesMaxLen<len(anyRunes)){",
   "returnternary.FALSE",
   "}",
   "if(len(restPattern)<1){",
   "returnternary.ConvertFromBool(len(anyRunes)+len(searchWord)==len(text))",
   "}",
   "returnmatchTextTail(text[len(anyRunes)+len(searchWord):],restPattern,failed)"]

/-- `matchCondition`: the leading wildcards, the literal word with its escapes, the rest (pattern []rune) -/
def matchConditionBody : List String :=
  ["searchWord=make([]rune,0,len(pattern)+4)",
   "patternPos:=0",
   "escaped:=false",
   "for(i:=0;i<len(pattern);i++){",
   "r:=pattern[i]",
   "if(escaped){",
   "switch(r){",
   "case('%','_'):",
   "searchWord=append(searchWord,r)",
   "default:",
   "searchWord=append(searchWord,'\\\\',r)",
   "}",
   "patternPos++",
   "escaped=false",
   "continue",
   "}",
   "if((r=='%'||r=='_')&&0<len(searchWord)){",
   "break",
   "}",
   "patternPos++",
   "switch(r){",
   "case('%'):",
   "anyRunesMaxLen=-1",
   "case('_'):",
   "anyRunesMinLen++",
   "if(-1<anyRunesMaxLen){",
   "anyRunesMaxLen++",
   "}",
   "case('\\\\'):",
   "escaped=true",
   "default:",
   "searchWord=append(searchWord,r)",
   "}",
   "}",
   "if(escaped){",
   "searchWord=append(searchWord,'\\\\')",
   "}",
   "returnanyRunesMinLen,anyRunesMaxLen,searchWord,pattern[patternPos:]"]

/-- `evalLike`: both operands evaluated, Like, the negation for NOT LIKE -/
def evalLikeBody : List String :=
  ["lhs,err:=Evaluate(ctx,scope,expr.LHS)",
   "if(err!=nil){",
   "returnnil,err",
   "}",
   "pattern,err:=Evaluate(ctx,scope,expr.Pattern)",
   "if(err!=nil){",
   "returnnil,err",
   "}",
   "t:=Like(lhs,pattern)",
   "if(expr.IsNegated()){",
   "t=ternary.Not(t)",
   "}",
   "returnvalue.NewTernary(t),nil"]

/-! ## LATERAL (load_view.go loadView / LoadView) and the sub-query functions of eval.go

  reviewed 2026-09-24 on a4e4825 against Model/Lateral.lean and the sub-query forms of Model/Rel.lean:
  * `case parser.Join`: the left side is loaded first; the LATERAL branch is taken when the right-hand side is a
    parser.Table with LATERAL; RIGHT / FULL are refused before any record is looked at;
  * the callback (once per left record, through EvaluateSequentially = worker chunks): Select of the sub-query in the
    record's scope, alias, a one-record view of the left record, joinViews with the written join, `hfields` from
    record 0 only, the records into the slot of the record; afterwards the slots are appended in record order;
  * LoadView folds a comma-separated FROM list to the left into CROSS joins (no direction);
  * Evaluate sends In / Any / All / Exists / Subquery to evalIn / evalAny / evalAll / evalExists / evalSubqueryForValue;
    evalIn is `= ANY` resp. `<> ALL`; evalExists: FALSE iff no record; evalSubqueryForValue: too many fields, no field,
    too many records, NULL for no record, else the first cell; evalSubqueryForArray: the same field tests, the first
    cell of every record. -/

/-- `loadView`, `case parser.Join`: when the LATERAL branch is taken -/
def lateralGuard : List String :=
  ["t,ok:=join.JoinTable.(parser.Table)",
   "ok&&!t.Lateral.IsEmpty()"]

/-- `loadView`, `case parser.Join` as a whole (left side first, then LATERAL or the plain join) -/
def joinCaseBody : List String :=
  ["join:=table.Object.(parser.Join)",
   "view,err=loadView(ctx,scope,join.Table,forUpdate,useInternalId)",
   "if(err!=nil){",
   "returnnil,err",
   "}",
   "if(t,ok:=join.JoinTable.(parser.Table);ok&&!t.Lateral.IsEmpty()){",
   "switch(join.Direction.Token){",
   "case(parser.RIGHT,parser.FULL):",
   "returnnil,NewIncorrectLateralUsageError(t)",
   "}",
   "joinTableName,err:=ParseTableName(ctx,scope,t)",
   "if(err!=nil){",
   "returnnil,err",
   "}",
   "subquery:=t.Object.(parser.Subquery)",
   "varhfieldsHeader",
   "resultSetList:=make([]RecordSet,view.RecordLen())",
   "if(err:=EvaluateSequentially(ctx,scope,view,func(seqScope*ReferenceScope,rIdxint)error{appliedView,err:=Select(ctx,seqScope,subquery.Query)iferr!=nil{returnerr}if0<len(joinTableName.Literal){iferr=appliedView.Header.Update(joinTableName.Literal,nil);err!=nil{returnerr}}calcView:=NewView()calcView.Header=view.Header.Copy()calcView.RecordSet=RecordSet{view.RecordSet[rIdx].Copy()}iferr=joinViews(ctx,scope,calcView,appliedView,join);err!=nil{returnerr}ifrIdx==0{hfields=calcView.Header}resultSetList[rIdx]=calcView.RecordSetreturnnil});err!=nil){",
   "returnnil,err",
   "}",
   "resultSet:=make(RecordSet,0,view.RecordLen())",
   "for(i:range:resultSetList){",
   "resultSet=append(resultSet,resultSetList[i]...)",
   "}",
   "view.Header=hfields",
   "view.RecordSet=resultSet",
   "view.FileInfo=nil",
   "}else{",
   "joinView,err:=loadView(ctx,scope,join.JoinTable,forUpdate,useInternalId)",
   "if(err!=nil){",
   "returnnil,err",
   "}",
   "if(err=joinViews(ctx,scope,view,joinView,join);err!=nil){",
   "returnnil,err",
   "}",
   "}"]

/-- `loadView`, LATERAL: the statements before the records are evaluated -/
def lateralPrelude : List String :=
  ["switch(join.Direction.Token){",
   "case(parser.RIGHT,parser.FULL):",
   "returnnil,NewIncorrectLateralUsageError(t)",
   "}",
   "joinTableName,err:=ParseTableName(ctx,scope,t)",
   "if(err!=nil){",
   "returnnil,err",
   "}",
   "subquery:=t.Object.(parser.Subquery)",
   "varhfieldsHeader",
   "resultSetList:=make([]RecordSet,view.RecordLen())"]

/-- `loadView`, LATERAL: the callback run once per left record -/
def lateralCallback : List String :=
  ["appliedView,err:=Select(ctx,seqScope,subquery.Query)",
   "if(err!=nil){",
   "returnerr",
   "}",
   "if(0<len(joinTableName.Literal)){",
   "if(err=appliedView.Header.Update(joinTableName.Literal,nil);err!=nil){",
   "returnerr",
   "}",
   "}",
   "calcView:=NewView()",
   "calcView.Header=view.Header.Copy()",
   "calcView.RecordSet=RecordSet{view.RecordSet[rIdx].Copy()}",
   "if(err=joinViews(ctx,scope,calcView,appliedView,join);err!=nil){",
   "returnerr",
   "}",
   "if(rIdx==0){",
   "hfields=calcView.Header",
   "}",
   "resultSetList[rIdx]=calcView.RecordSet",
   "returnnil"]

/-- `loadView`, LATERAL: what is done with the per-record results -/
def lateralAssembly : List String :=
  ["resultSet:=make(RecordSet,0,view.RecordLen())",
   "for(i:range:resultSetList){",
   "resultSet=append(resultSet,resultSetList[i]...)",
   "}",
   "view.Header=hfields",
   "view.RecordSet=resultSet",
   "view.FileInfo=nil"]

/-- `loadView`, LATERAL: the per-record join and where its records go -/
def lateralJoinAndSlot : List String :=
  ["iferr=joinViews(ctx,scope,calcView,appliedView,join);err!=nil{returnerr}",
   "resultSetList[rIdx]=calcView.RecordSet"]

/-- `LoadView`: how a comma-separated FROM list becomes joins -/
def fromListLoop : List String :=
  ["for(i:=1;i<len(tables);i++){",
   "table=parser.Table{Object:parser.Join{Table:table,JoinTable:tables[i],JoinType:parser.Token{Token:parser.CROSS},},}",
   "}"]

/-- `Evaluate`: node type → the function that evaluates it, in source order -/
def evalDispatch : List String :=
  ["parser.PrimitiveType→(inline)",
   "parser.FieldReference,parser.ColumnNumber→evalFieldReference",
   "parser.Parentheses→Evaluate",
   "parser.Arithmetic→evalArithmetic",
   "parser.UnaryArithmetic→evalUnaryArithmetic",
   "parser.Concat→evalConcat",
   "parser.Comparison→evalComparison",
   "parser.Is→evalIs",
   "parser.Between→evalBetween",
   "parser.Like→evalLike",
   "parser.In→evalIn",
   "parser.Any→evalAny",
   "parser.All→evalAll",
   "parser.Exists→evalExists",
   "parser.Subquery→evalSubqueryForValue",
   "parser.Function→evalFunction",
   "parser.AggregateFunction→evalAggregateFunction",
   "parser.ListFunction→evalListFunction",
   "parser.AnalyticFunction→evalAnalyticFunction",
   "parser.CaseExpr→evalCaseExpr",
   "parser.Logic→evalLogic",
   "parser.UnaryLogic→evalUnaryLogic",
   "parser.Variable→scope.GetVariable",
   "parser.EnvironmentVariable→value.NewString",
   "parser.RuntimeInformation→GetRuntimeInformation",
   "parser.Constant→(inline)",
   "parser.Flag→(inline)",
   "parser.VariableSubstitution→scope.SubstituteVariable",
   "parser.CursorStatus→evalCursorStatus",
   "parser.CursorAttrebute→evalCursorAttribute",
   "parser.Placeholder→evalPlaceholder",
   "default→NewInvalidValueExpressionError"]

/-- `evalExists` as a whole -/
def existsOutcomeBody : List String :=
  ["view,err:=Select(ctx,scope,expr.Query.Query)",
   "if(err!=nil){",
   "returnnil,err",
   "}",
   "if(view.RecordLen()<1){",
   "returnvalue.NewTernary(ternary.FALSE),nil",
   "}",
   "returnvalue.NewTernary(ternary.TRUE),nil"]

/-- `evalSubqueryForValue` as a whole -/
def scalarOutcomeBody : List String :=
  ["view,err:=Select(ctx,scope,expr.Query)",
   "if(err!=nil){",
   "returnnil,err",
   "}",
   "if(1<view.FieldLen()){",
   "returnnil,NewSubqueryTooManyFieldsError(expr)",
   "}",
   "if(view.FieldLen()<1){",
   "returnnil,NewSubqueryNoFieldsError(expr)",
   "}",
   "if(1<view.RecordLen()){",
   "returnnil,NewSubqueryTooManyRecordsError(expr)",
   "}",
   "if(view.RecordLen()<1){",
   "returnvalue.NewNull(),nil",
   "}",
   "returnview.RecordSet[0][0][0],nil"]

/-- `evalSubqueryForArray` as a whole -/
def arrayOutcomeBody : List String :=
  ["view,err:=Select(ctx,scope,expr.Query)",
   "if(err!=nil){",
   "returnnil,err",
   "}",
   "if(1<view.FieldLen()){",
   "returnnil,NewSubqueryTooManyFieldsError(expr)",
   "}",
   "if(view.FieldLen()<1){",
   "returnnil,NewSubqueryNoFieldsError(expr)",
   "}",
   "if(view.RecordLen()<1){",
   "returnnil,nil",
   "}",
   "list:=make([]value.RowValue,view.RecordLen())",
   "for(i:range:view.RecordSet){",
   "list[i]=value.RowValue{view.RecordSet[i][0][0]}",
   "}",
   "returnlist,nil"]

/-- `evalIn` as a whole -/
def evalInBody : List String :=
  ["val,list,err:=valuesForRowValueListComparison(ctx,scope,expr.LHS,expr.Values)",
   "if(err!=nil){",
   "returnnil,err",
   "}",
   "vartternary.Value",
   "if(expr.IsNegated()){",
   "t,err=All(val,list,\"<>\",scope.Tx.Flags.DatetimeFormat,scope.Tx.Flags.GetTimeLocation())",
   "}else{",
   "t,err=Any(val,list,\"=\",scope.Tx.Flags.DatetimeFormat,scope.Tx.Flags.GetTimeLocation())",
   "}",
   "if(err!=nil){",
   "if(subquery,ok:=expr.Values.(parser.Subquery);ok){",
   "returnnil,NewSelectFieldLengthInComparisonError(subquery,len(val))",
   "}elseif(jsonQuery,ok:=expr.Values.(parser.JsonQuery);ok){",
   "returnnil,NewRowValueLengthInComparisonError(jsonQuery,len(val))",
   "}",
   "rvlist,_:=expr.Values.(parser.RowValueList)",
   "rverr,_:=err.(*RowValueLengthInListError)",
   "returnnil,NewRowValueLengthInComparisonError(rvlist.RowValues[rverr.Index],len(val))",
   "}",
   "returnvalue.NewTernary(t),nil"]

/-- `evalAny` as a whole -/
def evalAnyBody : List String :=
  ["val,list,err:=valuesForRowValueListComparison(ctx,scope,expr.LHS,expr.Values)",
   "if(err!=nil){",
   "returnnil,err",
   "}",
   "t,err:=Any(val,list,expr.Operator.Literal,scope.Tx.Flags.DatetimeFormat,scope.Tx.Flags.GetTimeLocation())",
   "if(err!=nil){",
   "if(subquery,ok:=expr.Values.(parser.Subquery);ok){",
   "returnnil,NewSelectFieldLengthInComparisonError(subquery,len(val))",
   "}elseif(jsonQuery,ok:=expr.Values.(parser.JsonQuery);ok){",
   "returnnil,NewRowValueLengthInComparisonError(jsonQuery,len(val))",
   "}",
   "rvlist,_:=expr.Values.(parser.RowValueList)",
   "rverr,_:=err.(*RowValueLengthInListError)",
   "returnnil,NewRowValueLengthInComparisonError(rvlist.RowValues[rverr.Index],len(val))",
   "}",
   "returnvalue.NewTernary(t),nil"]

/-- `evalAll` as a whole -/
def evalAllBody : List String :=
  ["val,list,err:=valuesForRowValueListComparison(ctx,scope,expr.LHS,expr.Values)",
   "if(err!=nil){",
   "returnnil,err",
   "}",
   "t,err:=All(val,list,expr.Operator.Literal,scope.Tx.Flags.DatetimeFormat,scope.Tx.Flags.GetTimeLocation())",
   "if(err!=nil){",
   "if(subquery,ok:=expr.Values.(parser.Subquery);ok){",
   "returnnil,NewSelectFieldLengthInComparisonError(subquery,len(val))",
   "}elseif(jsonQuery,ok:=expr.Values.(parser.JsonQuery);ok){",
   "returnnil,NewRowValueLengthInComparisonError(jsonQuery,len(val))",
   "}",
   "rvlist,_:=expr.Values.(parser.RowValueList)",
   "rverr,_:=err.(*RowValueLengthInListError)",
   "returnnil,NewRowValueLengthInComparisonError(rvlist.RowValues[rverr.Index],len(val))",
   "}",
   "returnvalue.NewTernary(t),nil"]

/-- `evalArray` as a whole -/
def evalArrayBody : List String :=
  ["vararray[]value.RowValue",
   "varerrerror",
   "typeswitch(expr.(type)){",
   "case(parser.Subquery):",
   "array,err=evalSubqueryForArray(ctx,scope,expr.(parser.Subquery))",
   "case(parser.JsonQuery):",
   "array,err=evalJsonQueryForArray(ctx,scope,expr.(parser.JsonQuery))",
   "case(parser.ValueList):",
   "values,e:=evalValueList(ctx,scope,expr.(parser.ValueList))",
   "if(e!=nil){",
   "returnarray,e",
   "}",
   "array=make([]value.RowValue,len(values))",
   "for(i,v:range:values){",
   "array[i]=value.RowValue{v}",
   "}",
   "case(parser.RowValue):",
   "array,err=evalArray(ctx,scope,expr.(parser.RowValue).Value)",
   "}",
   "returnarray,err"]

/-- `evalIn`: [negated form, plain form] as quantifier and operator -/
def inQuantifiers : List String :=
  ["All <>",
   "Any ="]

/-! ## the scope walk of field references (eval.go evalFieldReference) and the wildcards of the select list

  reviewed 2026-09-24 on a4e4825 against Model/RelNames.lean (`walkBy` / `walkStep`) and `starFields` / `viewStarFields`:
  * the records of the queries are visited from the innermost outwards; a scope whose header resolves the reference
    (SearchIndex: FieldIndex for names, FieldNumberIndex for `t.2`) answers and ends the walk, an ambiguous scope ends it
    with that error, any other failure passes on to the enclosing record; no scope: "field does not exist";
    the per-record cache only repeats an earlier successful SearchIndex of the same expression in the same scope;
  * `*` = Header.TableColumns (the IsFromTable fields in header order, qualified by their view when they have one),
    `view.*` = those of them whose view is spelled exactly like the qualifier. -/

/-- `evalFieldReference` as a whole -/
def evalFieldReferenceBody : List String :=
  ["varpvalue.Primary",
   "for(i:range:scope.Records){",
   "if(idx,ok:=scope.Records[i].cache.Get(expr);ok){",
   "if(scope.Records[i].IsInRange()){",
   "p=scope.Records[i].view.RecordSet[scope.Records[i].recordIndex][idx][0]",
   "}else{",
   "p=value.NewNull()",
   "}",
   "break",
   "}",
   "idx,err:=scope.Records[i].view.Header.SearchIndex(expr)",
   "if(err==nil){",
   "if(scope.Records[i].view.isGrouped&&scope.Records[i].view.Header[idx].IsFromTable&&!scope.Records[i].view.Header[idx].IsGroupKey){",
   "returnnil,NewFieldNotGroupKeyError(expr)",
   "}",
   "if(scope.Records[i].IsInRange()){",
   "p=scope.Records[i].view.RecordSet[scope.Records[i].recordIndex][idx][0]",
   "}else{",
   "p=value.NewNull()",
   "}",
   "scope.Records[i].cache.Add(expr,idx)",
   "break",
   "}elseif(err==errFieldAmbiguous){",
   "returnnil,NewFieldAmbiguousError(expr)",
   "}",
   "}",
   "if(p==nil){",
   "returnnil,NewFieldNotExistError(expr)",
   "}",
   "returnp,nil"]

/-- `View.Select`: the expansion of `*` and `view.*` into one field per table column -/
def parseWildcardBody : List String :=
  ["list:=make([]parser.Field,0,len(fields))",
   "columns:=view.Header.TableColumns()",
   "for(_,v:range:fields){",
   "field:=v.(parser.Field)",
   "if(_,ok:=field.Object.(parser.AllColumns);ok){",
   "for(_,c:range:columns){",
   "list=append(list,parser.Field{Object:c,})",
   "}",
   "continue",
   "}",
   "if(fieldReference,ok:=field.Object.(parser.FieldReference);ok){",
   "if(_,ok:=fieldReference.Column.(parser.AllColumns);ok){",
   "viewName:=fieldReference.View.Literal",
   "for(_,c:range:columns){",
   "cref:=c.(parser.FieldReference)",
   "if(cref.View.Literal!=viewName){",
   "continue",
   "}",
   "list=append(list,parser.Field{Object:c,})",
   "}",
   "continue",
   "}",
   "}",
   "list=append(list,field)",
   "}",
   "returnlist"]

/-- `Header.TableColumns`: the columns `*` stands for -/
def tableColumnsBody : List String :=
  ["columns:=make([]parser.QueryExpression,0,h.Len())",
   "for(_,f:range:h){",
   "if(!f.IsFromTable){",
   "continue",
   "}",
   "fieldRef:=parser.FieldReference{Column:parser.Identifier{Literal:f.Column},}",
   "if(0<len(f.View)){",
   "fieldRef.View=parser.Identifier{Literal:f.View}",
   "}",
   "columns=append(columns,fieldRef)",
   "}",
   "returncolumns"]

end Csvq.Ref
