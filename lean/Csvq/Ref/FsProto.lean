/-
  Csvq.Ref.FsProto — HAND-WRITTEN expectations for the effect lists that extract/fsproto regenerates
  from lib/file and lib/query/transaction.go.  The protocol model (Model/Lock.lean, Model/Commit.lean)
  was written against exactly these sequences; `gen_eq_ref` theorems compare them with the current
  source on every run.
-/
namespace Csvq.Ref

def fxTryCreateLockFile : List String :=
  ["lockExists(filePath)", "rLockExists(filePath)", "if[LockExists(filePath) || RLockExists(filePath)]{", "return", "}", "create_excl(lockFilePath)", "if{", "return", "}", "rLockExists(filePath)", "if[RLockExists(filePath)]{", "cf_close(lockFile)", "return", "}"]

def fxTryCreateRLockFile : List String :=
  ["lockExists(filePath)", "if[LockExists(filePath)]{", "return", "}", "create_excl(lockFilePath)", "if{", "return", "}", "create_excl(rlockFilePath)", "if{", "return", "}", "return", "deferred:", "cf_close(lockFile)"]

def fxTryCreateTempFile : List String :=
  ["create_excl(tempFilePath)", "if{", "return", "}"]

def fxControlFileClose : List String :=
  ["if{", "if{", "close(m.fp)", "if{", "return", "}", "}", "exists(m.path)", "if[Exists(m.path)]{", "remove(m.path)", "if{", "return", "}", "}", "}"]

def fxNewHandlerForRead : List String :=
  ["exists(h.path)", "if[!Exists(h.path)]{", "return", "}", "control_file(RLock)", "if{", "release_isolated", "return", "}", "open_shared(h.path)", "if{", "release_isolated", "return", "}"]

def fxNewHandlerForUpdate : List String :=
  ["exists(h.path)", "if[!Exists(h.path)]{", "return", "}", "control_file(Lock)", "if{", "release_isolated", "return", "}", "open_exclusive(path)", "if{", "release_isolated", "return", "}", "control_file(Temporary)", "if{", "release_isolated", "return", "}"]

def fxNewHandlerForCreate : List String :=
  ["exists(h.path)", "if[Exists(h.path)]{", "return", "}", "if{", "return", "}", "control_file(Lock)", "if{", "release_isolated", "return", "}", "create_excl(h.path)", "if{", "release_isolated", "return", "}"]

/-- reviewed 2026-09-25 after fix 1713f77: only a handler that created the file itself removes it -/
def fxHandlerClose : List String :=
  ["if[h.closed]{", "return", "}", "if{", "close(h.fp)", "if{", "return", "}", "}", "exists(h.path)", "if[h.openType == ForCreate && h.created && Exists(h.path)]{", "remove(h.path)", "if{", "return", "}", "}", "cf_close(h.tempFile)", "if{", "return", "}", "cf_close(h.lockFile)", "if{", "return", "}", "cf_close(h.rlockFile)", "if{", "return", "}"]

def fxHandlerCloseWithErrors : List String :=
  ["if[h.closed]{", "return", "}", "if{", "close(h.fp)", "}", "exists(h.path)", "if[h.openType == ForCreate && h.created && Exists(h.path)]{", "remove(h.path)", "}", "cf_close(h.tempFile)", "cf_close(h.lockFile)", "cf_close(h.rlockFile)"]

/-- reviewed 2026-09-24 after fix 305bbf1: the leading `if{ return }` is the refusal to commit under a cancelled
    context; nothing is written before it -/
def fxTransactionCommit : List String :=
  ["if{", "return", "}", "if{", "loop{", "truncate", "if{", "return", "}", "seek", "if{", "return", "}", "encode", "if{", "return", "}", "if{", "if{", "return", "}", "write", "if{", "return", "}", "}", "}", "}", "if{", "loop{", "truncate", "if{", "return", "}", "seek", "if{", "return", "}", "encode", "if{", "return", "}", "if{", "if{", "return", "}", "write", "if{", "return", "}", "}", "}", "}", "loop{", "handler_commit", "if{", "return", "}", "}", "loop{", "handler_commit", "if{", "return", "}", "}", "if{", "return", "}"]


/-! lib/file/container.go (reviewed 2026-09-25 on b50ddd1): a handler is taken out of the container only AFTER its close /
    commit succeeded (a failing close leaves it registered, so the final CloseAllWithErrors still reaches it);
    closeWithErrors always unregisters; a handler that cannot be registered is released on the spot; every
    NewHandlerFor… releases what it had acquired (`release_isolated`) on each of its error returns -/

def fxContainerCreateHandler : List String :=
  ["new_handler", "if{", "return", "}", "container_add", "if{", "release_isolated", "return", "}"]

def fxContainerClose : List String :=
  ["if{", "return", "}", "if{", "h.close", "if{", "return", "}", "container_remove", "}"]

def fxContainerCommit : List String :=
  ["if{", "return", "}", "if{", "h.commit", "if{", "return", "}", "container_remove", "}"]

def fxContainerCloseWithErrors : List String :=
  ["if{", "return", "}", "if{", "h.closeWithErrors", "container_remove", "}"]

def fxContainerCloseAll : List String :=
  ["loop{", "container_close(c.m[k])", "if{", "return", "}", "}"]

def fxContainerCloseAllWithErrors : List String :=
  ["loop{", "container_close_we(c.m[k])", "}"]

def fxContainerCreateHandlerForRead : List String :=
  ["create_handler(NewHandlerForRead)"]

def fxContainerCreateHandlerForUpdate : List String :=
  ["create_handler(NewHandlerForUpdate)"]

def fxContainerCreateHandlerForCreate : List String :=
  ["create_handler(newHandlerForCreate)"]

def fxContainerCreateHandlerWithoutLock : List String :=
  ["create_handler(NewHandlerWithoutLock)"]

def fxContainerAdd : List String :=
  ["if{", "return", "}", "container_store"]

def fxContainerRemove : List String :=
  ["if{", "container_delete", "}"]

end Csvq.Ref
