/-
  Csvq.Ref.DmlFacts — HAND-REVIEWED expectation for the statement skeletons that extract/dmlfacts regenerates from
  lib/query/query.go, processor.go and header.go on every run.  Model/Dml.lean (`body`, `publish`, `markAll`, `stmtImpl`)
  was written against exactly these sequences; Props/C05 and Props/C08 compare them with the current source.

  Reviewed 2026-09-26 on a2956b3:
  * every data-changing function takes the operation lock first (released by `defer`), loads its table(s) FOR UPDATE
    (`ids=true`: with internal record ids, Update / Delete), and works on what the load returned — a copy (view_map.go);
    Update and Delete write into further copies (`get_copy`) found by resolving the statement's table names;
  * every fallible step (with clause, lock, load, where, name resolution, evaluation, field lookup, the insert / replace
    helpers, Fix) comes BEFORE the first `publish_*`; the only `if(err)` near a publish is the one of RestoreHeaderReferences
    (= Header.Update(name, nil), which cannot fail: `fxHeaderUpdate`); Delete looks at the context once, before its loop;
  * a view is published by `ReplaceTemporaryTable` when its table is in memory (temporary table or STDIN), by
    `CachedViews.Set` when it is a file — the same guard in all seven functions; SetTableAttribute and CreateTable
    only ever hold files;
  * CreateTable closes (= removes) the new file's handler on every error return after it was created;
  * processor.go marks a table uncommitted only after the function returned without error; INSERT / REPLACE / UPDATE /
    DELETE only if the table's count is positive — per table inside the loop for the multi-table forms —, the ALTER
    statements and CREATE always; the stored affected-row number is the function's count (the sum for multi-table forms).
-/
namespace Csvq.Ref


/-- `Insert`, reviewed -/
def fxInsert : List String :=
  ["if{", "with_clause", "if(err){", "return", "}", "}", "lock", "if(err){", "return", "}", "defer:unlock", "load(forUpdate=true,ids=false)", "if(err){", "return", "}", "if(notUpdatable){", "return", "}", "if{", "}", "if(hasValues){", "insert_values", "if(err){", "return", "}", "}", "else{", "insert_query", "if(err){", "return", "}", "}", "restore_header(view)", "if(err){", "return", "}", "if(inMemory){", "publish_temp(view)", "}", "else{", "if(isFile){", "publish_file(view)", "}", "}", "return"]

/-- what `Insert` returns on success -/
def retInsert : String := "view.FileInfo;insertRecords;err"

/-- `Update`, reviewed -/
def fxUpdate : List String :=
  ["if{", "with_clause", "if(err){", "return", "}", "}", "if{", "}", "lock", "if(err){", "return", "}", "defer:unlock", "load(forUpdate=true,ids=true)", "if(err){", "return", "}", "if{", "where", "if(err){", "return", "}", "}", "loop(query.Tables){", "resolve_name", "if(err){", "return", "}", "if{", "return", "}", "resolve_name", "if(err){", "return", "}", "if{", "return", "}", "if{", "get_copy", "}", "else{", "get_copy", "if(err){", "return", "}", "}", "header_update(viewsToUpdate[viewKey])", "if(err){", "return", "}", "}", "loop(view.RecordSet){", "loop(query.SetList){", "evaluate", "if(err){", "return", "}", "field_lookup", "if(err){", "return", "}", "if{", "return", "}", "if{", "}", "else{", "internal_id", "if(err){", "return", "}", "}", "field_lookup", "if{", "}", "if{", "count_record", "}", "if{", "return", "}", "write_cell(viewsToUpdate[viewref])", "}", "}", "loop(viewsToUpdate){", "restore_header(v)", "if(err){", "return", "}", "if(inMemory){", "publish_temp(v)", "}", "else{", "if(isFile){", "publish_file(v)", "}", "}", "}", "return"]

/-- what `Update` returns on success -/
def retUpdate : String := "fileInfos;updateRecords;nil"

/-- `Replace`, reviewed -/
def fxReplace : List String :=
  ["if{", "with_clause", "if(err){", "return", "}", "}", "lock", "if(err){", "return", "}", "defer:unlock", "load(forUpdate=true,ids=false)", "if(err){", "return", "}", "if(notUpdatable){", "return", "}", "if{", "}", "if(hasValues){", "replace_values", "if(err){", "return", "}", "}", "else{", "replace_query", "if(err){", "return", "}", "}", "restore_header(view)", "if(err){", "return", "}", "if(inMemory){", "publish_temp(view)", "}", "else{", "if(isFile){", "publish_file(view)", "}", "}", "return"]

/-- what `Replace` returns on success -/
def retReplace : String := "view.FileInfo;replaceRecords;err"

/-- `Delete`, reviewed -/
def fxDelete : List String :=
  ["if{", "with_clause", "if(err){", "return", "}", "}", "if{", "if{", "return", "}", "}", "lock", "if(err){", "return", "}", "defer:unlock", "load(forUpdate=true,ids=true)", "if(err){", "return", "}", "if{", "where", "if(err){", "return", "}", "}", "loop(query.Tables){", "if{", "return", "}", "resolve_name", "if(err){", "return", "}", "if{", "return", "}", "resolve_name", "if(err){", "return", "}", "if{", "return", "}", "if{", "get_copy", "}", "else{", "get_copy", "if(err){", "return", "}", "}", "header_update(viewsToDelete[viewKey])", "if(err){", "return", "}", "}", "loop(view.RecordSet){", "if(ctx){", "return", "}", "loop(viewsToDelete){", "internal_id", "if(err){", "}", "if{", "}", "}", "}", "if(ctx){", "return", "}", "loop(viewsToDelete){", "loop(v.RecordSet){", "if{", "}", "}", "set_records(v)", "restore_header(v)", "if(err){", "return", "}", "if(inMemory){", "publish_temp(v)", "}", "else{", "if(isFile){", "publish_file(v)", "}", "}", "}", "return"]

/-- what `Delete` returns on success -/
def retDelete : String := "fileInfos;deletedCounts;nil"

/-- `CreateTable`, reviewed -/
def fxCreateTable : List String :=
  ["new_fileinfo", "if(err){", "return", "}", "create_handler", "if(err){", "return", "}", "if(hasQuery){", "select", "if(err){", "close_handler", "return", "}", "header_update(view)", "if(err){", "if{", "}", "close_handler", "return", "}", "}", "else{", "loop(query.Fields){", "if{", "close_handler", "return", "}", "}", "}", "set_fileinfo(view)", "publish_file(view)", "return"]

/-- what `CreateTable` returns on success -/
def retCreateTable : String := "view.FileInfo;nil"

/-- `AddColumns`, reviewed (since F99 / ebfcabd: the stored delimiter positions of a fixed-length table are reset
    AFTER the last step that can fail — the FileInfo is shared with the cached table) -/
def fxAddColumns : List String :=
  ["if{", "}", "lock", "if(err){", "return", "}", "defer:unlock", "load(forUpdate=true,ids=false)", "if(err){", "return", "}", "if(notUpdatable){", "return", "}", "switch{", "case{", "}", "case{", "}", "case{", "field_lookup", "if(err){", "return", "}", "switch{", "case{", "}", "case{", "}", "}", "}", "}", "loop(columnNames){", "}", "loop(query.Columns){", "if{", "return", "}", "}", "loop(view.Header){", "if{", "}", "else{", "}", "}", "loop(addHeader){", "}", "loop(header){", "}", "evaluate_each_record{", "loop(view.RecordSet[rIdx]){", "if{", "}", "else{", "}", "}", "loop(defaults){", "if{", "}", "evaluate", "if(err){", "return", "}", "}", "return", "}", "if(err){", "return", "}", "set_header(view)", "set_records(view)", "if{", "write_fileinfo_field(DelimiterPositions)", "}", "if(inMemory){", "publish_temp(view)", "}", "else{", "if(isFile){", "publish_file(view)", "}", "}", "return"]

/-- what `AddColumns` returns on success -/
def retAddColumns : String := "view.FileInfo;len(fields);err"

/-- `DropColumns`, reviewed -/
def fxDropColumns : List String :=
  ["lock", "if(err){", "return", "}", "defer:unlock", "load(forUpdate=true,ids=false)", "if(err){", "return", "}", "if(notUpdatable){", "return", "}", "loop(query.Columns){", "field_lookup", "if(err){", "return", "}", "if{", "}", "}", "set_select_fields(view)", "loop{", "if{", "set_select_fields(view)", "}", "}", "fix(view)", "if(err){", "return", "}", "if(inMemory){", "publish_temp(view)", "}", "else{", "if(isFile){", "publish_file(view)", "}", "}", "return"]

/-- what `DropColumns` returns on success -/
def retDropColumns : String := "view.FileInfo;dropIndices.Len();err"

/-- `RenameColumn`, reviewed -/
def fxRenameColumn : List String :=
  ["lock", "if(err){", "return", "}", "defer:unlock", "load(forUpdate=true,ids=false)", "if(err){", "return", "}", "if(notUpdatable){", "return", "}", "loop(columnNames){", "}", "if{", "return", "}", "field_lookup", "if(err){", "return", "}", "write_header(view)", "if(inMemory){", "publish_temp(view)", "}", "else{", "if(isFile){", "publish_file(view)", "}", "}", "return"]

/-- what `RenameColumn` returns on success -/
def retRenameColumn : String := "view.FileInfo;err"

/-- `SetTableAttribute`, reviewed -/
def fxSetTableAttribute : List String :=
  ["lock", "if(err){", "return", "}", "defer:unlock", "load(forUpdate=true,ids=false)", "if(err){", "return", "}", "if(notFile){", "return", "}", "if{", "}", "else{", "evaluate", "if(err){", "return", "}", "}", "switch{", "case{", "if{", "return", "}", "switch{", "case{", "set_attribute(fileInfo)", "}", "case{", "set_attribute(fileInfo)", "}", "case{", "set_attribute(fileInfo)", "}", "case{", "set_attribute(fileInfo)", "}", "case{", "set_attribute(fileInfo)", "}", "case{", "set_attribute(fileInfo)", "}", "}", "}", "case{", "if{", "return", "}", "switch{", "case{", "set_attribute(fileInfo)", "}", "case{", "set_attribute(fileInfo)", "}", "case{", "set_attribute(fileInfo)", "}", "}", "}", "case{", "return", "}", "}", "if(err){", "if{", "return", "}", "return", "}", "if{", "}", "else{", "if{", "if{", "}", "}", "}", "publish_file(view)", "return"]

/-- what `SetTableAttribute` returns on success -/
def retSetTableAttribute : String := "view.FileInfo;log;err"

/-- where the returned counts come from -/
def countSources : List String :=
  ["insertRecords:=view.InsertValues(ctx,queryScope,fields,query.ValuesList)", "insertRecords:=view.InsertFromQuery(ctx,queryScope,fields,query.Query.(parser.SelectQuery))", "replaceRecords:=view.ReplaceValues(ctx,queryScope,fields,query.ValuesList,query.Keys)", "replaceRecords:=view.ReplaceFromQuery(ctx,queryScope,fields,query.Query.(parser.SelectQuery),query.Keys)", "updateRecords:=make([]int,0)", "updateRecords:=append(updateRecords,updatedCount[k])", "deletedCounts:=make([]int,0)", "deletedCounts:=append(deletedCounts,len(deletedIndices[k]))", "dropIndices:=NewUintPool(len(query.Columns),LimitToUseUintSlicePool)"]

/-- the case `parser.InsertQuery` of Processor.ExecuteStatement -/
def fxProcInsertQuery : List String :=
  ["if{", "}", "run(Insert)", "if(ok){", "if(count>0){", "mark_updated(fileInfo)", "}", "log", "if(storeResults){", "store_affected(cnt)", "}", "}", "else{", "set_err", "}", "if{", "}"]

/-- the case `parser.UpdateQuery` of Processor.ExecuteStatement -/
def fxProcUpdateQuery : List String :=
  ["if{", "}", "run(Update)", "if(ok){", "loop(infos){", "if(count>0){", "mark_updated(info)", "}", "log", "}", "if(storeResults){", "store_affected(cntTotal)", "}", "}", "else{", "set_err", "}", "if{", "}"]

/-- the case `parser.ReplaceQuery` of Processor.ExecuteStatement -/
def fxProcReplaceQuery : List String :=
  ["if{", "}", "run(Replace)", "if(ok){", "if(count>0){", "mark_updated(fileInfo)", "}", "log", "if(storeResults){", "store_affected(cnt)", "}", "}", "else{", "set_err", "}", "if{", "}"]

/-- the case `parser.DeleteQuery` of Processor.ExecuteStatement -/
def fxProcDeleteQuery : List String :=
  ["if{", "}", "run(Delete)", "if(ok){", "loop(infos){", "if(count>0){", "mark_updated(info)", "}", "log", "}", "if(storeResults){", "store_affected(cntTotal)", "}", "}", "else{", "set_err", "}", "if{", "}"]

/-- the case `parser.CreateTable` of Processor.ExecuteStatement -/
def fxProcCreateTable : List String :=
  ["run(CreateTable)", "if(ok){", "mark_created(info)", "log", "}", "else{", "if{", "closure{", "if(err){", "return", "}", "load(forUpdate=false,ids=false)", "if(err){", "return", "}", "log", "if{", "if{", "return", "}", "loop(createTableStatement.Fields){", "if{", "return", "}", "}", "}", "return", "}", "if(err){", "set_err", "}", "}", "else{", "set_err", "}", "}"]

/-- the case `parser.AddColumns` of Processor.ExecuteStatement -/
def fxProcAddColumns : List String :=
  ["run(AddColumns)", "if(ok){", "mark_updated(info)", "log", "}", "else{", "set_err", "}"]

/-- the case `parser.DropColumns` of Processor.ExecuteStatement -/
def fxProcDropColumns : List String :=
  ["run(DropColumns)", "if(ok){", "mark_updated(info)", "log", "}", "else{", "set_err", "}"]

/-- the case `parser.RenameColumn` of Processor.ExecuteStatement -/
def fxProcRenameColumn : List String :=
  ["run(RenameColumn)", "if(ok){", "mark_updated(info)", "log", "}", "else{", "set_err", "}"]

/-- the case `parser.SetTableAttribute` of Processor.ExecuteStatement -/
def fxProcSetTableAttribute : List String :=
  ["run(SetTableAttribute)", "if(ok){", "mark_updated(info)", "log", "}", "else{", "if{", "log", "}", "else{", "set_err", "}", "}"]

/-- Header.Update (RestoreHeaderReferences = Header.Update(name, nil)) -/
def fxHeaderUpdate : List String :=
  ["if{", "if{", "return", "}", "loop(fields){", "if{", "return", "}", "}", "}", "loop(h){", "if{", "}", "}", "return"]

def headerUpdateGuard : String := "fields!=nil&&0<len(fields)"

def restoreHeaderBody : String := "{ return view.Header.Update(FormatTableName(view.FileInfo.Path), nil) }"

/-- `loadObjectFromFile`, reviewed 2026-09-27 on c38775f: after the cache was consulted / filled (cacheViewFromFile, which
    releases what IT acquired when IT fails) the statement gets a copy (with or without internal ids), the alias is
    registered, the header renamed.  Nothing here disposes a cached view or closes a handler: a failure of one of these
    later steps (a duplicate table name, a cancellation while the ids are attached) must leave a table that was already
    cached — possibly with uncommitted changes of earlier statements — exactly as it was. -/
def fxLoadObjectFromFile : List String :=
  ["cache_load", "if(err){", "return", "}", "if(ids){", "get_copy_with_ids", "if(err){", "if{", "}", "return", "}", "}", "else{", "get_copy", "if(err){", "return", "}", "}", "if{", "add_alias", "if(err){", "return", "}", "}", "if{", "header_update(view)", "if(err){", "return", "}", "}", "return"]

end Csvq.Ref
