/-
  Csvq.Ref.CacheFacts — HAND-WRITTEN expectation for the load branch of `cacheViewFromFile` that
  extract/cachefacts regenerates from lib/query/load_view.go.  Model/Session.lean `load` was written
  against exactly this sequence; Props/C20 compares it with the current source on every run.
-/
namespace Csvq.Ref

/-- reviewed 2026-09-25 on a2956b3: a cached view is disposed before it is loaded again; an update takes the
    handler that keeps the lock, a plain read a read handler that is closed again when the function returns;
    a failed load under the lock gives the lock back; the ForUpdate flag is set on EVERY load, directly before
    the view is put into the cache; the attributes of a table (header, JSON query, positions, …) are defaulted from
    the statement's options only when its FileInfo is made anew — a reload keeps the attributes of the first load -/
def fxCacheLoad : List String :=
  ["if(isCached){", "dispose", "if(err){", "return", "}", "defer:if(err){", "defer:cache_set", "defer:}", "}", "else{", "new_fileinfo", "if(err){", "return", "}", "set_default_attributes", "}",
   "if(forUpdate){", "handler_update", "if(err){", "return", "}", "}",
   "else{", "handler_read", "if(err){", "return", "}", "defer:close_handler(h)", "}",
   "seek", "if(err){", "return", "}",
   "load", "if(err){", "if{", "}", "if(forUpdate){", "close_handler(fileInfo.Handler)", "}", "return", "}",
   "set_forupdate(forUpdate)", "cache_set"]

end Csvq.Ref
