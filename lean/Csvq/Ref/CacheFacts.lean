/-
  Csvq.Ref.CacheFacts — HAND-WRITTEN expectation for the load branch of `cacheViewFromFile` that
  extract/cachefacts regenerates from lib/query/load_view.go.  Model/Session.lean `load` was written
  against exactly this sequence; Props/C20 compares it with the current source on every run.
-/
namespace Csvq.Ref

/-- reviewed 2026-09-25 on a2956b3: a cached view is disposed before it is loaded again; an update takes the
    handler that keeps the lock, a plain read a read handler that is closed again when the function returns;
    a failed load under the lock gives the lock back; the ForUpdate flag is set on EVERY load, directly before
    the view is put into the cache; the attributes of a table (header, JSON query, positions, …) are defaulted from
    the statement's options only when its FileInfo is made anew — a reload keeps the attributes of the first load -/
def fxCacheLoad : List String :=
  ["if(isCached){", "dispose", "if(err){", "return", "}", "defer:if(err){", "defer:cache_set", "defer:}", "}", "else{", "new_fileinfo", "if(err){", "return", "}", "set_default_attributes", "}",
   "if(forUpdate){", "handler_update", "if(err){", "return", "}", "}",
   "else{", "handler_read", "if(err){", "return", "}", "defer:close_handler(h)", "}",
   "seek", "if(err){", "return", "}",
   "load", "if(err){", "if{", "}", "if(forUpdate){", "close_handler(fileInfo.Handler)", "}", "return", "}",
   "set_forupdate(forUpdate)", "cache_set"]


/-! ## WHO may remove or replace an entry of the view cache (reviewed 2026-09-25 on the pinned tree) -/

/-- the methods of ViewMap / SyncMap that change the map -/
def viewMapMutators : List String :=
  ["Clean", "CleanWithErrors", "Clear", "Delete", "Dispose", "DisposeTemporaryTable", "Set", "Store", "delete", "store"]

/-- every call of one of them on Transaction.CachedViews, with the reason it is allowed:
    * `Set` in Insert / Update / Replace / Delete / CreateTable / AddColumns / DropColumns / RenameColumn /
      SetTableAttribute: the transaction's OWN change of a table it holds under the lock (the model's `dml` / `create`);
    * `Clean` / `CleanWithErrors` in Transaction.ReleaseResources(WithErrors): the END of the transaction (COMMIT,
      ROLLBACK, the end of the run) — `fresh_after_commit`, `fresh_after_rollback`;
    * in cacheViewFromFile: `Dispose` = the documented reload (first data-changing access to a table loaded by a plain
      SELECT), the first `Set` = the restore of that view when the reload fails, the second `Set` = the load itself.
    (DISPOSE of a temporary table works on the TemporaryTables maps of the scope, not on the cache.) -/
def cacheMutationSites : List String :=
  ["query.AddColumns:Set", "query.CreateTable:Set", "query.Delete:Set", "query.DropColumns:Set", "query.Insert:Set",
   "query.RenameColumn:Set", "query.Replace:Set", "query.SetTableAttribute:Set",
   "query.Transaction.ReleaseResources:Clean", "query.Transaction.ReleaseResourcesWithErrors:CleanWithErrors",
   "query.Update:Set", "query.cacheViewFromFile:Dispose", "query.cacheViewFromFile:Set", "query.cacheViewFromFile:Set"]

/-- one level up: the statement dispatcher for the data statements, COMMIT / ROLLBACK and the end of the run for the
    release, the table loader for cacheViewFromFile -/
def cacheMutatorCallers : List String :=
  ["cli.commandAction->ReleaseResourcesWithErrors", "query.Processor.ExecuteStatement->AddColumns",
   "query.Processor.ExecuteStatement->CreateTable", "query.Processor.ExecuteStatement->Delete",
   "query.Processor.ExecuteStatement->DropColumns", "query.Processor.ExecuteStatement->Insert",
   "query.Processor.ExecuteStatement->RenameColumn", "query.Processor.ExecuteStatement->Replace",
   "query.Processor.ExecuteStatement->SetTableAttribute", "query.Processor.ExecuteStatement->Update",
   "query.Processor.ReleaseResources->ReleaseResources",
   "query.Processor.ReleaseResourcesWithErrors->ReleaseResourcesWithErrors",
   "query.Transaction.Commit->ReleaseResources", "query.Transaction.Rollback->ReleaseResources",
   "query.loadObjectFromFile->cacheViewFromFile"]

/-- the statement kinds that reach a site other than a load: the data-changing statements and COMMIT / ROLLBACK -/
def cacheStmtKinds : List (String × String) :=
  [("parser.InsertQuery", "Insert"), ("parser.UpdateQuery", "Update"), ("parser.ReplaceQuery", "Replace"),
   ("parser.DeleteQuery", "Delete"), ("parser.CreateTable", "CreateTable"), ("parser.AddColumns", "AddColumns"),
   ("parser.DropColumns", "DropColumns"), ("parser.RenameColumn", "RenameColumn"),
   ("parser.SetTableAttribute", "SetTableAttribute"), ("parser.TransactionControl", "Commit,Rollback")]

/-- the statement kinds Model/Session.lean has as `Op` (SELECT, the data-changing statements, COMMIT / ROLLBACK, temporary tables) -/
def dataStmtCases : List String :=
  ["parser.SelectQuery", "parser.InsertQuery", "parser.UpdateQuery", "parser.ReplaceQuery", "parser.DeleteQuery",
   "parser.CreateTable", "parser.AddColumns", "parser.DropColumns", "parser.RenameColumn", "parser.SetTableAttribute",
   "parser.TransactionControl", "parser.ViewDeclaration", "parser.DisposeView"]

/-- statements that run OTHER statements (each of which is dispatched again) -/
def containerStmtCases : List String :=
  ["parser.If", "parser.Case", "parser.While", "parser.WhileInCursor", "parser.Source", "parser.Execute",
   "parser.ExecuteStatement", "default"]

end Csvq.Ref
