package main

// The scope constructors behind analytic evaluation (lib/query/reference_scope.go): CreateScopeForAnalytics (the
// scope in which windowValues / setNthValue / setLag / LISTAGG / JSON_AGG evaluate the function's first argument)
// and CreateScopeForRecordEvaluation (partition keys, sort keys, offset / default).  Their bodies are translated
// into "which record stands at records[j]": a new record on a view of the parent at a fixed position, a copy of a
// record of the parent, or a new record on the view handed in.  Anything outside the four statement shapes below
// makes the translator exit 1.

import (
	"fmt"
	"go/ast"
	"go/parser"
	"go/token"
	"path/filepath"
	"strconv"
	"strings"
)

func intLit(e ast.Expr) (int, bool) {
	switch v := e.(type) {
	case *ast.BasicLit:
		if v.Kind == token.INT {
			n, err := strconv.Atoi(v.Value)
			return n, err == nil
		}
	case *ast.UnaryExpr:
		if v.Op == token.SUB {
			n, ok := intLit(v.X)
			return -n, ok
		}
	case *ast.ParenExpr:
		return intLit(v.X)
	}
	return 0, false
}

// `i` → (true, 0); `i + 2` → (true, 2); `3` → (false, 3)
func idxExpr(e ast.Expr, loopVar string, where string) (bool, int) {
	if n, ok := intLit(e); ok {
		return false, n
	}
	if id, ok := e.(*ast.Ident); ok && loopVar != "" && id.Name == loopVar {
		return true, 0
	}
	if be, ok := e.(*ast.BinaryExpr); ok && be.Op == token.ADD {
		if id, ok := be.X.(*ast.Ident); ok && loopVar != "" && id.Name == loopVar {
			if n, ok := intLit(be.Y); ok {
				return true, n
			}
		}
	}
	die("%s: index %s is outside the subset (constant, loop variable, loop variable + constant)", where, src(e))
	return false, 0
}

// the Lean term for an index: constant or `j - dst + off` of the slot `j`
func leanIdx(dep bool, off int, dstOff int) string {
	if !dep {
		return strconv.Itoa(off)
	}
	return fmt.Sprintf("(j - %d + %d)", dstOff, off)
}

func leanInt(n int) string {
	if n < 0 {
		return "(" + strconv.Itoa(n) + ")"
	}
	return strconv.Itoa(n)
}

// rs.Records[E]
func parentRecord(e ast.Expr, loopVar, where string) (bool, int, bool) {
	ix, ok := e.(*ast.IndexExpr)
	if !ok || src(ix.X) != "rs.Records" {
		return false, 0, false
	}
	dep, off := idxExpr(ix.Index, loopVar, where)
	return dep, off, true
}

func slotOf(rhs ast.Expr, loopVar string, dstOff int, params map[string]bool, where string) string {
	call, ok := rhs.(*ast.CallExpr)
	if !ok {
		die("%s: %s is no call", where, src(rhs))
	}
	if sel, ok := call.Fun.(*ast.SelectorExpr); ok && sel.Sel.Name == "copyForChildScope" && len(call.Args) == 0 {
		dep, off, ok := parentRecord(sel.X, loopVar, where)
		if !ok {
			die("%s: copyForChildScope of %s, not of a record of the parent", where, src(sel.X))
		}
		return "RecSlot.copy " + leanIdx(dep, off, dstOff)
	}
	if id, ok := call.Fun.(*ast.Ident); ok && id.Name == "NewReferenceRecord" && len(call.Args) == 3 {
		viewSrc := src(call.Args[0])
		if src(call.Args[2]) != viewSrc+".FieldLen()" {
			die("%s: the cache length %s is not the field count of the record's view %s", where, src(call.Args[2]), viewSrc)
		}
		if vid, ok := call.Args[0].(*ast.Ident); ok && params[vid.Name] {
			if pid, ok := call.Args[1].(*ast.Ident); ok && params[pid.Name] {
				return "RecSlot.given none"
			}
			if n, ok := intLit(call.Args[1]); ok {
				return "RecSlot.given (some " + leanInt(n) + ")"
			}
			die("%s: position %s of the new record", where, src(call.Args[1]))
		}
		vsel, ok := call.Args[0].(*ast.SelectorExpr)
		if !ok || vsel.Sel.Name != "view" {
			die("%s: view %s of the new record", where, viewSrc)
		}
		dep, off, ok := parentRecord(vsel.X, loopVar, where)
		if !ok {
			die("%s: view %s of the new record is not the view of a record of the parent", where, viewSrc)
		}
		n, ok := intLit(call.Args[1])
		if !ok {
			die("%s: position %s of the new record is no integer literal", where, src(call.Args[1]))
		}
		return "RecSlot.fresh " + leanIdx(dep, off, dstOff) + " " + leanInt(n)
	}
	die("%s: %s is neither a copy of a record of the parent nor a new record", where, src(rhs))
	return ""
}

// records[D] = rhs
func recordsAssign(st ast.Stmt, loopVar string, where string) (bool, int, ast.Expr) {
	as, ok := st.(*ast.AssignStmt)
	if !ok || as.Tok != token.ASSIGN || len(as.Lhs) != 1 || len(as.Rhs) != 1 {
		die("%s: statement %s is outside the subset", where, src(st))
	}
	ix, ok := as.Lhs[0].(*ast.IndexExpr)
	if !ok || src(ix.X) != "records" {
		die("%s: statement %s does not assign an element of records", where, src(st))
	}
	dep, off := idxExpr(ix.Index, loopVar, where)
	return dep, off, as.Rhs[0]
}

func scopeCtor(o *strings.Builder, f *ast.File, goName, leanName string) {
	fd := findFunc(f, "ReferenceScope", goName)
	where := "ReferenceScope." + goName
	params := map[string]bool{}
	for _, p := range fd.Type.Params.List {
		for _, n := range p.Names {
			params[n.Name] = true
		}
	}
	body := fd.Body.List
	if len(body) < 3 {
		die("%s: %d statements", where, len(body))
	}
	// records := make([]ReferenceRecord, len(rs.Records)[+K])
	extra := -1
	if as, ok := body[0].(*ast.AssignStmt); ok && as.Tok == token.DEFINE && len(as.Lhs) == 1 && src(as.Lhs[0]) == "records" {
		s := src(as.Rhs[0])
		switch {
		case s == "make([]ReferenceRecord, len(rs.Records))":
			extra = 0
		case strings.HasPrefix(s, "make([]ReferenceRecord, len(rs.Records)+") && strings.HasSuffix(s, ")"):
			if n, err := strconv.Atoi(strings.TrimSuffix(strings.TrimPrefix(s, "make([]ReferenceRecord, len(rs.Records)+"), ")")); err == nil {
				extra = n
			}
		}
	}
	if extra < 0 {
		die("%s: first statement %s is not `records := make([]ReferenceRecord, len(rs.Records)[+K])`", where, src(body[0]))
	}
	last := body[len(body)-1]
	if src(last) != "return rs.createScope(records)" {
		die("%s: last statement %s is not `return rs.createScope(records)`", where, src(last))
	}
	// the statements in between, each as a guarded slot; a later statement overwrites an earlier one
	var guards []string
	for _, st := range body[1 : len(body)-1] {
		switch s := st.(type) {
		case *ast.AssignStmt:
			dep, off, rhs := recordsAssign(s, "", where)
			if dep {
				die("%s: %s", where, src(st))
			}
			guards = append(guards, fmt.Sprintf("if j = %d then some (%s)", off, slotOf(rhs, "", 0, params, where)))
		case *ast.RangeStmt:
			if src(s.X) != "rs.Records" || s.Key == nil || s.Value != nil || s.Tok != token.DEFINE || len(s.Body.List) != 1 {
				die("%s: loop %s is outside the subset", where, rangeHeader(s))
			}
			lv := src(s.Key)
			dep, off, rhs := recordsAssign(s.Body.List[0], lv, where)
			if !dep {
				die("%s: the loop assigns the fixed element records[%d]", where, off)
			}
			guards = append(guards, fmt.Sprintf("if %d ≤ j ∧ j < n + %d then some (%s)", off, off, slotOf(rhs, lv, off, params, where)))
		case *ast.ForStmt:
			// for i := A; i < len(rs.Records); i++
			init, ok := s.Init.(*ast.AssignStmt)
			if !ok || init.Tok != token.DEFINE || len(init.Lhs) != 1 || len(s.Body.List) != 1 {
				die("%s: loop %s is outside the subset", where, src(s))
			}
			lv := src(init.Lhs[0])
			from, ok := intLit(init.Rhs[0])
			if !ok || from < 0 || src(s.Cond) != lv+" < len(rs.Records)" || src(s.Post) != lv+"++" {
				die("%s: loop header `%s; %s; %s` is outside the subset", where, src(s.Init), src(s.Cond), src(s.Post))
			}
			dep, off, rhs := recordsAssign(s.Body.List[0], lv, where)
			if !dep {
				die("%s: the loop assigns the fixed element records[%d]", where, off)
			}
			guards = append(guards, fmt.Sprintf("if %d ≤ j ∧ j < n + %d then some (%s)", from+off, off, slotOf(rhs, lv, off, params, where)))
		default:
			die("%s: statement %s is outside the subset", where, src(st))
		}
	}
	fmt.Fprintf(o, "/-- reference_scope.go %s: len(records) - len(rs.Records) -/\ndef %sExtra : Nat := %d\n\n", goName, leanName, extra)
	fmt.Fprintf(o, "/-- reference_scope.go %s: the record stored at records[j] when the parent scope has n records (the LAST statement\n    that assigns the element decides) -/\ndef %sSlot (n j : Nat) : Option RecSlot :=\n", goName, leanName)
	for i := len(guards) - 1; i >= 0; i-- {
		fmt.Fprintf(o, "  %s else\n", guards[i])
	}
	o.WriteString("  none\n\n")
}

func analyticScopeFacts(o *strings.Builder, af *ast.File) {
	rf, err := parser.ParseFile(fset, filepath.Join(repo(), "lib", "query", "reference_scope.go"), nil, 0)
	if err != nil {
		die("%v", err)
	}
	o.WriteString("/-- one element of the Records of a scope made from the scope `rs`: a NEW record on the view of record `parentView` of\n    `rs` at a fixed position (-1: no row, every column reads NULL until the position is moved), a COPY of record\n    `parent` of `rs` (same view, same position, a field index cache of its own), or a new record on the view handed\n    to the constructor (position: the parameter = none, or a literal) -/\ninductive RecSlot\n  | fresh (parentView : Nat) (recordIndex : Int)\n  | copy (parent : Nat)\n  | given (recordIndex : Option Int)\n  deriving DecidableEq, Repr\n\n")
	scopeCtor(o, rf, "CreateScopeForAnalytics", "analyticScope")
	scopeCtor(o, rf, "CreateScopeForRecordEvaluation", "recordScope")
	// copyForChildScope keeps view and position: the only field it writes is the cache
	cp := findFunc(rf, "ReferenceRecord", "copyForChildScope")
	var st []string
	for _, s := range cp.Body.List {
		st = append(st, src(s))
	}
	fmt.Fprintf(o, "/-- reference_scope.go ReferenceRecord.copyForChildScope (value receiver): its statements -/\ndef copyForChildScopeBody : List String :=\n  %s\n\n", strList(st))
	// who evaluates in the analytic scope: the functions of analytic_function.go that call CreateScopeForAnalytics
	var callers []string
	for _, d := range af.Decls {
		fd, ok := d.(*ast.FuncDecl)
		if !ok || fd.Body == nil {
			continue
		}
		n := 0
		ast.Inspect(fd.Body, func(x ast.Node) bool {
			if c, ok := x.(*ast.CallExpr); ok {
				if sel, ok := c.Fun.(*ast.SelectorExpr); ok && sel.Sel.Name == "CreateScopeForAnalytics" {
					n++
				}
			}
			return true
		})
		if n > 0 {
			name := fd.Name.Name
			if fd.Recv != nil && len(fd.Recv.List) == 1 {
				name = src(fd.Recv.List[0].Type) + "." + name
			}
			callers = append(callers, q(fmt.Sprintf("%s:%d", name, n)))
		}
	}
	fmt.Fprintf(o, "/-- analytic_function.go: the functions that make the analytic scope (name:calls), in source order -/\ndef analyticScopeCallers : List String :=\n  [%s]\n\n", strings.Join(callers, ", "))
}
