// analyticfacts: translates the integer / branch code of lib/query/analytic_function.go into Lean
// definitions (Csvq/Gen/AnalyticFacts.lean, property C17), on every run of the check:
//
//	frameIndex (closure of WindowFrameSet)   → frameIndex     : Int → Int → Pos → Int
//	WindowFrameSet (its decision structure)   → windowFrameSet : Int → Bool → Bool → Bool → Pos → Pos → FrameSet
//	windowValues (capacity, loop header)      → windowCapacity, windowLoop
//	RowNumber / Rank / DenseRank .Execute     → rowNumberStep, rankStep, denseRankStep   (one round of the loop)
//	perseCumulativeGroups                     → groupStep
//	CumeDist / PercentRank .Execute           → cumeDistStep, percentRankStep (exact fractions)
//	NTile.Execute                             → ntileRejects, ntileParams, ntileStep
//	setNthValue                               → nthInit, nthCond, nthStep, nthMissing (+ loop post statement)
//	setLag                                    → lagIdx, lagInRange, lagScanInit/Cond/Step
//	Execute of FirstValue/LastValue/NthValue/Lag/Lead, CheckArgsLen of all, the AnalyticFunctions map,
//	the keyword classes of lib/parser/scanner.go and the analytic_function productions of parser.y
//	                                          → fact lists (registry, argLens, delegations, keywordClasses, grammarForms)
//
// Go `int` / `int64` are Lean `Int` (no overflow: all quantities are bounded by the partition length or are
// user offsets that are only compared); `float64(n)` of a count is the count, a float division is the
// exact fraction (numerator, denominator).  `/` and `%` are Int.tdiv / Int.tmod.
// Conditions and statements that are not integer code are NOT dropped: a condition becomes a Boolean
// parameter of the generated function and its source text is listed in `<fn>Conds`; a statement is
// listed, with the conditions it is nested under, in `<fn>Effects`.  Props/C17.lean pins both lists.
// Anything outside the subset (other statement forms, labelled branches, nested loops, assignments to a
// tracked variable from an untranslatable expression, …): exit 1.
package main

import (
	"bufio"
	"fmt"
	"go/ast"
	"go/parser"
	"go/printer"
	"go/token"
	"os"
	"path/filepath"
	"regexp"
	"sort"
	"strconv"
	"strings"
)

var fset = token.NewFileSet()

func die(format string, a ...interface{}) {
	fmt.Fprintf(os.Stderr, "analyticfacts: "+format+"\n", a...)
	os.Exit(1)
}

func pos(n ast.Node) string { return fset.Position(n.Pos()).String() }

func src(n ast.Node) string {
	var sb strings.Builder
	_ = printer.Fprint(&sb, fset, n)
	s := strings.Join(strings.Fields(sb.String()), " ")
	s = strings.ReplaceAll(s, "{ ", "{")
	s = strings.ReplaceAll(s, ", }", "}")
	s = strings.ReplaceAll(s, " }", "}")
	return s
}

func repo() string {
	if r := os.Getenv("VERIF_REPO"); r != "" {
		return r
	}
	return "/repo"
}

func q(s string) string { return strconv.Quote(s) }

func strList(l []string) string {
	qs := make([]string, len(l))
	for i, s := range l {
		qs[i] = q(s)
	}
	return "[" + strings.Join(qs, ", ") + "]"
}

// ---------- locating declarations ----------

func findFunc(f *ast.File, recv, name string) *ast.FuncDecl {
	for _, d := range f.Decls {
		fd, ok := d.(*ast.FuncDecl)
		if !ok || fd.Name.Name != name {
			continue
		}
		if recv == "" && fd.Recv == nil {
			return fd
		}
		if recv != "" && fd.Recv != nil && strings.TrimPrefix(src(fd.Recv.List[0].Type), "*") == recv {
			return fd
		}
	}
	die("function %s.%s not found", recv, name)
	return nil
}

// the only `for … range` / `for` statement directly in a statement list
func findLoop(list []ast.Stmt, what string) (ast.Stmt, int) {
	idx := -1
	for i, s := range list {
		switch s.(type) {
		case *ast.RangeStmt, *ast.ForStmt:
			if idx >= 0 {
				die("%s: more than one loop", what)
			}
			idx = i
		}
	}
	if idx < 0 {
		die("%s: loop not found", what)
	}
	return list[idx], idx
}

// ---------- the translator of integer code ----------

type tr struct {
	name    string
	ints    map[string]string // Go identifier / expression text → Lean Int expression (parameters and locals)
	fracs   map[string]string // Go identifier → Lean (Int × Int) expression
	bools   map[string]string // reviewed names of Boolean source expressions
	poss    map[string]string // Go identifier of a parser.WindowFramePosition → Lean Pos expression
	conds   []string          // "name: source text" of Boolean parameters, in order of first use
	condPar []string          // their names
	effects []string
	state   []string // tracked variables, in result order ("out" = value stored for the record)
	kinds   map[string]string
	floats  map[string]bool // Go variables of type float64 (their division is a fraction, not Int.tdiv)
}

func (t *tr) isFloat(e ast.Expr) bool {
	switch x := e.(type) {
	case *ast.ParenExpr:
		return t.isFloat(x.X)
	case *ast.Ident:
		return t.floats[x.Name]
	case *ast.CallExpr:
		return src(x.Fun) == "float64"
	case *ast.BinaryExpr:
		return t.isFloat(x.X) || t.isFloat(x.Y)
	}
	return false
}

func newTr(name string) *tr {
	return &tr{name: name, ints: map[string]string{}, fracs: map[string]string{}, bools: map[string]string{},
		poss: map[string]string{}, kinds: map[string]string{}, floats: map[string]bool{}}
}

func (t *tr) clone() *tr {
	c := *t
	c.ints, c.fracs = map[string]string{}, map[string]string{}
	for k, v := range t.ints {
		c.ints[k] = v
	}
	for k, v := range t.fracs {
		c.fracs[k] = v
	}
	return &c
}

// integer expression; ok=false if it is not integer code
func (t *tr) intExpr(e ast.Expr) (string, bool) {
	if v, ok := t.ints[src(e)]; ok {
		return v, true
	}
	switch x := e.(type) {
	case *ast.ParenExpr:
		return t.intExpr(x.X)
	case *ast.BasicLit:
		if x.Kind == token.INT {
			return x.Value, true
		}
	case *ast.UnaryExpr:
		if x.Op == token.SUB {
			if a, ok := t.intExpr(x.X); ok {
				return "(-" + a + ")", true
			}
		}
	case *ast.CallExpr:
		if id, ok := x.Fun.(*ast.Ident); ok && len(x.Args) == 1 {
			switch id.Name {
			case "float64", "int", "int64":
				return t.intExpr(x.Args[0])
			}
		}
	case *ast.BinaryExpr:
		a, ok1 := t.intExpr(x.X)
		b, ok2 := t.intExpr(x.Y)
		if ok1 && ok2 {
			switch x.Op {
			case token.ADD:
				return "(" + a + " + " + b + ")", true
			case token.SUB:
				return "(" + a + " - " + b + ")", true
			case token.MUL:
				return "(" + a + " * " + b + ")", true
			case token.QUO:
				if t.isFloat(x.X) || t.isFloat(x.Y) {
					return "", false
				}
				return "(Int.tdiv " + a + " " + b + ")", true
			case token.REM:
				return "(Int.tmod " + a + " " + b + ")", true
			}
		}
	}
	return "", false
}

// fraction-valued (float) expression
func (t *tr) fracExpr(e ast.Expr) (string, bool) {
	if v, ok := t.fracs[src(e)]; ok {
		return v, true
	}
	if b, ok := e.(*ast.BinaryExpr); ok && b.Op == token.QUO {
		x, ok1 := t.intExpr(b.X)
		y, ok2 := t.intExpr(b.Y)
		if ok1 && ok2 {
			return "(" + x + ", " + y + ")", true
		}
	}
	if a, ok := t.intExpr(e); ok {
		return "(" + a + ", 1)", true
	}
	return "", false
}

func (t *tr) opaque(e ast.Expr) string {
	text := src(e)
	name, ok := t.bools[text]
	if !ok {
		name = fmt.Sprintf("c%d", len(t.condPar))
		t.bools[text] = name
	}
	for _, n := range t.condPar {
		if n == name {
			return name
		}
	}
	t.condPar = append(t.condPar, name)
	t.conds = append(t.conds, name+": "+text)
	return name
}

var dirConst = map[string]string{"parser.CURRENT": ".current", "parser.PRECEDING": ".preceding", "parser.FOLLOWING": ".following"}

// Boolean expression: integer comparisons are translated, everything else becomes a named parameter
func (t *tr) cond(e ast.Expr) string {
	if name, ok := t.bools[src(e)]; ok && name != "" {
		return t.opaque(e)
	}
	switch x := e.(type) {
	case *ast.ParenExpr:
		return t.cond(x.X)
	case *ast.Ident:
		if x.Name == "true" || x.Name == "false" {
			return x.Name
		}
	case *ast.UnaryExpr:
		if x.Op == token.NOT {
			// !p.Unbounded.IsEmpty()
			if c, ok := x.X.(*ast.CallExpr); ok {
				if p, ok := t.posField(c.Fun, "Unbounded.IsEmpty"); ok && len(c.Args) == 0 {
					return p + ".unbounded"
				}
			}
			return "(!" + t.cond(x.X) + ")"
		}
	case *ast.CallExpr:
		if p, ok := t.posField(x.Fun, "Unbounded.IsEmpty"); ok && len(x.Args) == 0 {
			return "(!" + p + ".unbounded)"
		}
	case *ast.BinaryExpr:
		switch x.Op {
		case token.LAND:
			return "(" + t.cond(x.X) + " && " + t.cond(x.Y) + ")"
		case token.LOR:
			return "(" + t.cond(x.X) + " || " + t.cond(x.Y) + ")"
		case token.EQL, token.NEQ, token.LSS, token.LEQ, token.GTR, token.GEQ:
			if p, ok := t.posField(x.X, "Direction.Token"); ok {
				if d, ok := dirConst[src(x.Y)]; ok && (x.Op == token.EQL || x.Op == token.NEQ) {
					if x.Op == token.EQL {
						return "(" + p + ".dir == Dir" + d + ")"
					}
					return "(" + p + ".dir != Dir" + d + ")"
				}
			}
			a, ok1 := t.intExpr(x.X)
			b, ok2 := t.intExpr(x.Y)
			if ok1 && ok2 {
				op := map[token.Token]string{token.EQL: "=", token.NEQ: "≠", token.LSS: "<", token.LEQ: "≤", token.GTR: ">", token.GEQ: "≥"}[x.Op]
				return "decide (" + a + " " + op + " " + b + ")"
			}
		}
	}
	return t.opaque(e)
}

// `p.Direction.Token`, `p.Unbounded.IsEmpty`, `p.Offset` of a known frame position p
func (t *tr) posField(e ast.Expr, path string) (string, bool) {
	text := src(e)
	if !strings.HasSuffix(text, "."+path) {
		return "", false
	}
	p, ok := t.poss[strings.TrimSuffix(text, "."+path)]
	return p, ok
}

type leafFn func(t *tr, ctl string) string

func (t *tr) leaf(ctl string) string {
	parts := []string{"Ctl." + ctl}
	for _, v := range t.state {
		if t.kinds[v] == "frac" {
			parts = append(parts, t.fracs[v])
		} else {
			parts = append(parts, t.ints[v])
		}
	}
	if len(parts) == 1 {
		return parts[0]
	}
	return "(" + strings.Join(parts, ", ") + ")"
}

func (t *tr) tracked(name string) bool {
	for _, v := range t.state {
		if v == name {
			return true
		}
	}
	return false
}

func (t *tr) effect(path []string, s ast.Node) {
	p := ""
	if len(path) > 0 {
		p = strings.Join(path, " & ") + " ⊢ "
	}
	t.effects = append(t.effects, p+src(s))
}

// assignment of one value
func (t *tr) assign(lhs ast.Expr, rhs ast.Expr, path []string, whole ast.Node) {
	name := src(lhs)
	// list[idx] = value.NewInteger(e) / value.NewFloat(e) / val : the value stored for the record
	if ix, ok := lhs.(*ast.IndexExpr); ok && src(ix.X) == "list" && t.tracked("out") {
		if c, ok := rhs.(*ast.CallExpr); ok && len(c.Args) == 1 {
			switch src(c.Fun) {
			case "value.NewInteger":
				if a, ok := t.intExpr(c.Args[0]); ok && t.kinds["out"] != "frac" {
					t.ints["out"] = a
					return
				}
			case "value.NewFloat":
				if a, ok := t.fracExpr(c.Args[0]); ok && t.kinds["out"] == "frac" {
					t.fracs["out"] = a
					return
				}
			}
		}
		die("%s: %s: the value stored for the record, `%s`, is outside the translated subset", pos(whole), t.name, src(rhs))
	}
	if t.kinds[name] == "frac" || (t.fracs[name] != "" && !t.tracked(name)) {
		a, ok := t.fracExpr(rhs)
		if !ok {
			die("%s: %s: `%s` is assigned `%s`, which is not a translated fraction", pos(whole), t.name, name, src(rhs))
		}
		t.fracs[name] = a
		return
	}
	if _, known := t.ints[name]; known || t.tracked(name) {
		a, ok := t.intExpr(rhs)
		if !ok {
			die("%s: %s: `%s` is assigned `%s`, which is not translated integer code", pos(whole), t.name, name, src(rhs))
		}
		t.ints[name] = a
		if t.isFloat(rhs) {
			t.floats[name] = true
		}
		return
	}
	// a new local: integer if its value is integer code, a fraction if it is a float division, otherwise an effect
	if _, isIdent := lhs.(*ast.Ident); isIdent {
		if a, ok := t.intExpr(rhs); ok {
			t.ints[name] = a
			if t.isFloat(rhs) {
				t.floats[name] = true
			}
			return
		}
		if t.isFloat(rhs) {
			if a, ok := t.fracExpr(rhs); ok {
				t.fracs[name] = a
				return
			}
		}
	}
	t.effect(path, whole)
}

// exec translates a statement list into a Lean expression: nested if-then-else whose leaves are
// (control, state…).  `rest` is what follows the list (the continuation inside the same body).
func (t *tr) exec(list []ast.Stmt, path []string, ind string) string {
	if len(list) == 0 {
		return t.leaf("fall")
	}
	s, rest := list[0], list[1:]
	switch x := s.(type) {
	case *ast.IncDecStmt:
		name := src(x.X)
		a, ok := t.ints[name]
		if !ok {
			die("%s: %s: `%s` on an untracked variable", pos(s), t.name, src(s))
		}
		if x.Tok == token.INC {
			t.ints[name] = "(" + a + " + 1)"
		} else {
			t.ints[name] = "(" + a + " - 1)"
		}
		return t.exec(rest, path, ind)
	case *ast.AssignStmt:
		switch x.Tok {
		case token.ASSIGN, token.DEFINE:
			if len(x.Lhs) != len(x.Rhs) {
				// v, ok := m[k] and the like: an effect unless it touches tracked state
				for _, l := range x.Lhs {
					if t.tracked(src(l)) {
						die("%s: %s: multi-value assignment to `%s`", pos(s), t.name, src(l))
					}
				}
				t.effect(path, s)
				return t.exec(rest, path, ind)
			}
			// parallel assignment: evaluate all right-hand sides first
			snap := t.clone()
			for i := range x.Lhs {
				snap2 := *snap
				snap2.effects, snap2.conds, snap2.condPar = t.effects, t.conds, t.condPar
				tmp := &snap2
				tmp.ints, tmp.fracs = snap.ints, snap.fracs
				// evaluate in the snapshot, store in t
				name := src(x.Lhs[i])
				before := len(t.effects)
				saveInts, saveFracs := t.ints, t.fracs
				t.ints, t.fracs = map[string]string{}, map[string]string{}
				for k, v := range snap.ints {
					t.ints[k] = v
				}
				for k, v := range snap.fracs {
					t.fracs[k] = v
				}
				t.assign(x.Lhs[i], x.Rhs[i], path, s)
				newInt, hasInt := t.ints[name]
				newFrac, hasFrac := t.fracs[name]
				outInt, outFrac := t.ints["out"], t.fracs["out"]
				t.ints, t.fracs = saveInts, saveFracs
				if len(t.effects) == before {
					if _, isOut := x.Lhs[i].(*ast.IndexExpr); isOut {
						if t.kinds["out"] == "frac" {
							t.fracs["out"] = outFrac
						} else {
							t.ints["out"] = outInt
						}
					} else if hasFrac && (t.kinds[name] == "frac" || snap.fracs[name] != "" || !hasInt || newInt == snap.ints[name] && newFrac != snap.fracs[name]) {
						t.fracs[name] = newFrac
					} else if hasInt {
						t.ints[name] = newInt
					}
				}
			}
			return t.exec(rest, path, ind)
		case token.ADD_ASSIGN, token.SUB_ASSIGN:
			name := src(x.Lhs[0])
			op := " + "
			if x.Tok == token.SUB_ASSIGN {
				op = " - "
			}
			if a, ok := t.ints[name]; ok && t.kinds[name] != "frac" {
				b, ok := t.intExpr(x.Rhs[0])
				if !ok {
					die("%s: %s: `%s`", pos(s), t.name, src(s))
				}
				t.ints[name] = "(" + a + op + b + ")"
				return t.exec(rest, path, ind)
			}
			die("%s: %s: `%s` on an untracked variable", pos(s), t.name, src(s))
		}
		die("%s: %s: assignment `%s` outside the translated subset", pos(s), t.name, src(s))
	case *ast.DeclStmt:
		gd := x.Decl.(*ast.GenDecl)
		if gd.Tok != token.VAR {
			die("%s: %s: declaration", pos(s), t.name)
		}
		for _, sp := range gd.Specs {
			vs := sp.(*ast.ValueSpec)
			for i, n := range vs.Names {
				if len(vs.Values) == 0 {
					if vs.Type != nil && (src(vs.Type) == "int" || src(vs.Type) == "int64") {
						t.ints[n.Name] = "0"
						continue
					}
					t.effect(path, s)
					continue
				}
				if vs.Type != nil && src(vs.Type) == "float64" {
					a, ok := t.fracExpr(vs.Values[i])
					if !ok {
						die("%s: %s: float `%s`", pos(s), t.name, src(s))
					}
					t.fracs[n.Name] = a
					continue
				}
				t.assign(n, vs.Values[i], path, s)
			}
		}
		return t.exec(rest, path, ind)
	case *ast.RangeStmt:
		// `for _, idx := range group { list[idx] = value.NewFloat(dist) }`: the value stored for every record of the group
		if len(x.Body.List) == 1 {
			if as, ok := x.Body.List[0].(*ast.AssignStmt); ok && as.Tok == token.ASSIGN && len(as.Lhs) == 1 {
				if ix, ok := as.Lhs[0].(*ast.IndexExpr); ok && src(ix.X) == "list" && x.Value != nil && src(ix.Index) == src(x.Value) {
					t.effect(path, &ast.ExprStmt{X: &ast.Ident{Name: "[stored for every record] " + rangeHeader(x)}})
					t.assign(as.Lhs[0], as.Rhs[0], path, s)
					return t.exec(rest, path, ind)
				}
			}
		}
		die("%s: %s: nested loop `%s`", pos(s), t.name, rangeHeader(x))
	case *ast.ExprStmt:
		t.effect(path, s)
		return t.exec(rest, path, ind)
	case *ast.BranchStmt:
		if x.Label != nil {
			die("%s: %s: labelled %s", pos(s), t.name, x.Tok)
		}
		switch x.Tok {
		case token.CONTINUE:
			return t.leaf("cont")
		case token.BREAK:
			return t.leaf("brk")
		}
		die("%s: %s: %s", pos(s), t.name, x.Tok)
	case *ast.ReturnStmt:
		if len(x.Results) == 1 && t.tracked("ret") {
			a, ok := t.intExpr(x.Results[0])
			if !ok {
				die("%s: %s: return value `%s`", pos(s), t.name, src(x.Results[0]))
			}
			t.ints["ret"] = a
			return t.leaf("ret")
		}
		t.effect(path, s)
		return t.leaf("ret")
	case *ast.IfStmt:
		if x.Init != nil {
			// e.g. the memoised evaluation `if v, ok := valueCache[k]; ok { … } else { … }`: kept as an effect if
			// it neither leaves the loop round nor touches a tracked variable
			bad := ""
			ast.Inspect(x, func(n ast.Node) bool {
				switch y := n.(type) {
				case *ast.BranchStmt:
					bad = y.Tok.String()
				case *ast.IncDecStmt:
					if t.tracked(src(y.X)) {
						bad = src(y)
					}
				case *ast.AssignStmt:
					for _, l := range y.Lhs {
						if t.tracked(src(l)) {
							bad = src(y)
						}
					}
				case *ast.ForStmt, *ast.RangeStmt:
					bad = "loop"
				}
				return true
			})
			if bad != "" {
				die("%s: %s: if with an init statement containing `%s`", pos(s), t.name, bad)
			}
			t.effect(path, s)
			return t.exec(rest, path, ind)
		}
		c := t.cond(x.Cond)
		thenT, elseT := t.clone(), t.clone()
		thenS := thenT.exec(append(append([]ast.Stmt{}, x.Body.List...), rest...), append(append([]string{}, path...), c), ind+"  ")
		t.effects, t.conds, t.condPar = thenT.effects, thenT.conds, thenT.condPar
		elseT.effects, elseT.conds, elseT.condPar, elseT.bools = t.effects, t.conds, t.condPar, thenT.bools
		var elseList []ast.Stmt
		switch e := x.Else.(type) {
		case nil:
		case *ast.BlockStmt:
			elseList = e.List
		case *ast.IfStmt:
			elseList = []ast.Stmt{e}
		}
		elseS := elseT.exec(append(append([]ast.Stmt{}, elseList...), rest...), append(append([]string{}, path...), "!"+c), ind+"  ")
		t.effects, t.conds, t.condPar = dedupe(elseT.effects), elseT.conds, elseT.condPar
		if thenS == elseS {
			return thenS
		}
		return "(if " + c + " then\n" + ind + "  " + thenS + "\n" + ind + "else\n" + ind + "  " + elseS + ")"
	case *ast.SwitchStmt:
		if x.Init != nil {
			die("%s: %s: switch with an init statement", pos(s), t.name)
		}
		// rewrite into an if / else-if chain
		var chain, last *ast.IfStmt
		var deflt *ast.BlockStmt
		for _, cl := range x.Body.List {
			cc := cl.(*ast.CaseClause)
			for _, st := range cc.Body {
				if b, ok := st.(*ast.BranchStmt); ok && (b.Tok == token.FALLTHROUGH || b.Tok == token.BREAK) {
					die("%s: %s: %s inside switch", pos(st), t.name, b.Tok)
				}
			}
			if len(cc.List) == 0 {
				deflt = &ast.BlockStmt{List: cc.Body}
				continue
			}
			var c ast.Expr
			for _, e := range cc.List {
				var one ast.Expr = e
				if x.Tag != nil {
					one = &ast.BinaryExpr{X: x.Tag, Op: token.EQL, Y: e}
				}
				if c == nil {
					c = one
				} else {
					c = &ast.BinaryExpr{X: c, Op: token.LOR, Y: one}
				}
			}
			is := &ast.IfStmt{Cond: c, Body: &ast.BlockStmt{List: cc.Body}}
			if chain == nil {
				chain = is
			} else {
				last.Else = is
			}
			last = is
		}
		if chain == nil {
			die("%s: %s: switch without cases", pos(s), t.name)
		}
		if deflt != nil {
			last.Else = deflt
		}
		return t.exec(append([]ast.Stmt{chain}, rest...), path, ind)
	}
	die("%s: %s: statement `%s` outside the translated subset", pos(s), t.name, src(s))
	return ""
}

func dedupe(l []string) []string {
	seen := map[string]bool{}
	var out []string
	for _, s := range l {
		if !seen[s] {
			seen[s] = true
			out = append(out, s)
		}
	}
	return out
}

// ---------- emitting one generated function ----------

type param struct{ name, typ string }

func (t *tr) resultType() string {
	parts := []string{"Ctl"}
	for _, v := range t.state {
		if t.kinds[v] == "frac" {
			parts = append(parts, "(Int × Int)")
		} else {
			parts = append(parts, "Int")
		}
	}
	return strings.Join(parts, " × ")
}

func emitStep(o *strings.Builder, t *tr, doc string, params []param, body string) {
	ps := ""
	for _, p := range params {
		ps += " (" + p.name + " : " + p.typ + ")"
	}
	if len(t.condPar) > 0 {
		ps += " (" + strings.Join(t.condPar, " ") + " : Bool)"
	}
	fmt.Fprintf(o, "/-- %s\n    result: (control", doc)
	for _, v := range t.state {
		fmt.Fprintf(o, ", %s", v)
	}
	fmt.Fprintf(o, ") -/\ndef %s%s : %s :=\n  %s\n\n", t.name, ps, t.resultType(), body)
	fmt.Fprintf(o, "/-- the Boolean parameters of `%s`: name and source text -/\ndef %sConds : List String :=\n  %s\n\n", t.name, t.name, strList(t.conds))
	fmt.Fprintf(o, "/-- the statements of `%s` that are not integer code (with the conditions they are nested under) -/\ndef %sEffects : List String :=\n  %s\n\n", t.name, t.name, strList(dedupe(t.effects)))
}

func rangeHeader(s ast.Stmt) string {
	switch x := s.(type) {
	case *ast.RangeStmt:
		h := "for "
		if x.Key != nil {
			h += src(x.Key)
		}
		if x.Value != nil {
			h += ", " + src(x.Value)
		}
		return h + " := range " + src(x.X)
	case *ast.ForStmt:
		h := "for "
		if x.Init != nil {
			h += src(x.Init)
		}
		h += "; "
		if x.Cond != nil {
			h += src(x.Cond)
		}
		h += "; "
		if x.Post != nil {
			h += src(x.Post)
		}
		return h
	}
	return ""
}

func loopBody(s ast.Stmt) []ast.Stmt {
	switch x := s.(type) {
	case *ast.RangeStmt:
		return x.Body.List
	case *ast.ForStmt:
		return x.Body.List
	}
	return nil
}

// a counter loop `prologue; for … range partition { body }`: the prologue declares the tracked variables
func counterLoop(o *strings.Builder, fd *ast.FuncDecl, name string, state []string, kinds map[string]string,
	extra map[string]string, bools map[string]string, doc string) {
	loop, at := findLoop(fd.Body.List, name)
	t := newTr(name)
	t.state = state
	for k, v := range kinds {
		t.kinds[k] = v
	}
	for k, v := range bools {
		t.bools[k] = v
	}
	var params []param
	for _, v := range state {
		if v == "total" || v == "cumulative" || v == "denom" {
			t.floats[v] = true
		}
		if v == "out" {
			if t.kinds[v] == "frac" {
				t.fracs[v] = "(0, 1)"
			} else {
				t.ints[v] = "0"
			}
			continue
		}
		if t.kinds[v] == "frac" {
			t.fracs[v] = v
			params = append(params, param{v, "Int × Int"})
		} else {
			t.ints[v] = v
			params = append(params, param{v, "Int"})
		}
	}
	var keys []string
	for k := range extra {
		keys = append(keys, k)
	}
	sort.Strings(keys)
	for _, k := range keys {
		t.ints[k] = extra[k]
		params = append(params, param{extra[k], "Int"})
	}
	// the prologue must initialise every tracked variable the way the model starts it; emit it as facts
	pro := newTr(name + "Init")
	pro.state = nil
	for _, v := range state {
		if v != "out" {
			pro.state = append(pro.state, v)
			pro.kinds[v] = t.kinds[v]
		}
	}
	for _, k := range keys {
		pro.ints[k] = extra[k]
	}
	var proStmts []ast.Stmt
	for _, s := range fd.Body.List[:at] {
		switch s.(type) {
		case *ast.AssignStmt, *ast.DeclStmt:
			proStmts = append(proStmts, s)
		default:
			pro.effect(nil, s)
		}
	}
	for _, v := range pro.state {
		if pro.kinds[v] == "frac" {
			pro.fracs[v] = "(0, 0)"
		}
	}
	proBody := pro.exec(proStmts, nil, "  ")
	for _, v := range pro.state {
		if _, ok := pro.ints[v]; !ok && pro.kinds[v] != "frac" {
			die("%s: the tracked variable `%s` is not initialised before the loop", name, v)
		}
	}
	proBody = pro.leaf("fall")
	_ = proBody
	var pps []param
	for _, k := range keys {
		pps = append(pps, param{extra[k], "Int"})
	}
	emitStep(o, pro, "the values of the tracked variables of "+doc+" before the loop", pps, pro.leaf("fall"))
	fmt.Fprintf(o, "def %sLoop : String := %s\n\n", name, q(rangeHeader(loop)))
	body := t.exec(loopBody(loop), nil, "  ")
	emitStep(o, t, "one round of the loop of "+doc, params, body)
	// what follows the loop
	var after []string
	for _, s := range fd.Body.List[at+1:] {
		after = append(after, src(s))
	}
	fmt.Fprintf(o, "def %sAfter : List String := %s\n\n", name, strList(after))
}

func main() {
	path := filepath.Join(repo(), "lib", "query", "analytic_function.go")
	f, err := parser.ParseFile(fset, path, nil, 0)
	if err != nil {
		die("%v", err)
	}
	var o strings.Builder
	o.WriteString("-- GENERATED by /verif/extract/analyticfacts from lib/query/analytic_function.go, lib/parser/scanner.go,\n-- lib/parser/parser.y — do not edit.\n\nset_option linter.unusedVariables false\n\nnamespace Csvq.Gen.An\n\n")
	o.WriteString("/-- how a piece of a loop body ends: falls out of the body, `continue`, `break`, `return` -/\ninductive Ctl | fall | cont | brk | ret\n  deriving DecidableEq, Repr\n\n")
	o.WriteString("/-- parser.WindowFramePosition: Direction.Token ∈ {CURRENT, PRECEDING, FOLLOWING}, !Unbounded.IsEmpty(), Offset -/\ninductive Dir | current | preceding | following\n  deriving DecidableEq, Repr\n\nstructure Pos where\n  dir : Dir\n  unbounded : Bool\n  offset : Int\n  deriving DecidableEq, Repr\n\n")

	windowFrameSet(&o, f)
	windowValues(&o, f)

	counterLoop(&o, findFunc(f, "RowNumber", "Execute"), "rowNumberStep", []string{"number", "out"}, nil, nil, nil, "RowNumber.Execute")
	newGroup := map[string]string{
		"scope.Records[0].view.sortValuesInEachRecord == nil || !scope.Records[0].view.sortValuesInEachRecord[idx].EquivalentTo(currentRank)": "newGroup",
		"view.sortValuesInEachRecord == nil || !view.sortValuesInEachRecord[idx].EquivalentTo(currentRank)":                                     "newGroup",
		"scope.Records[0].view.sortValuesInEachRecord != nil": "hasOrder",
		"view.sortValuesInEachRecord != nil":                  "hasOrder",
	}
	counterLoop(&o, findFunc(f, "Rank", "Execute"), "rankStep", []string{"number", "rank", "out"}, nil, nil, newGroup, "Rank.Execute")
	counterLoop(&o, findFunc(f, "DenseRank", "Execute"), "denseRankStep", []string{"rank", "out"}, nil, nil, newGroup, "DenseRank.Execute")
	counterLoop(&o, findFunc(f, "", "perseCumulativeGroups"), "groupStep", nil, nil, nil, newGroup, "perseCumulativeGroups")
	counterLoop(&o, findFunc(f, "CumeDist", "Execute"), "cumeDistStep", []string{"total", "cumulative", "out"},
		map[string]string{"out": "frac"}, map[string]string{"len(partition)": "length", "len(group)": "groupLen"}, nil, "CumeDist.Execute (one group)")
	counterLoop(&o, findFunc(f, "PercentRank", "Execute"), "percentRankStep", []string{"denom", "cumulative", "out"},
		map[string]string{"out": "frac"}, map[string]string{"len(partition)": "length", "len(group)": "groupLen"}, nil, "PercentRank.Execute (one group)")
	ntile(&o, f)
	setNthValue(&o, f)
	setLag(&o, f)
	registry(&o, f)
	skeletons(&o, f)
	distinctFacts(&o, f)
	identifierScanner(&o)
	analyticScopeFacts(&o, f)
	o.WriteString("end Csvq.Gen.An\n")
	fmt.Print(o.String())
}

// ---------- WindowFrameSet ----------

func closureOf(list []ast.Stmt, name string) *ast.FuncLit {
	for _, s := range list {
		if ds, ok := s.(*ast.DeclStmt); ok {
			for _, sp := range ds.Decl.(*ast.GenDecl).Specs {
				vs := sp.(*ast.ValueSpec)
				if len(vs.Names) == 1 && vs.Names[0].Name == name && len(vs.Values) == 1 {
					if fl, ok := vs.Values[0].(*ast.FuncLit); ok {
						return fl
					}
				}
			}
		}
	}
	die("WindowFrameSet: closure %s not found", name)
	return nil
}

func windowFrameSet(o *strings.Builder, f *ast.File) {
	fd := findFunc(f, "", "WindowFrameSet")
	// --- frameIndex
	fi := closureOf(fd.Body.List, "frameIndex")
	var pn []string
	for _, p := range fi.Type.Params.List {
		for _, n := range p.Names {
			pn = append(pn, n.Name+":"+src(p.Type))
		}
	}
	if strings.Join(pn, ",") != "current:int,length:int,framePosition:parser.WindowFramePosition" {
		die("frameIndex: parameters changed: %v", pn)
	}
	t := newTr("frameIndex")
	t.state = []string{"ret"}
	t.ints["current"], t.ints["length"], t.ints["framePosition.Offset"] = "current", "length", "p.offset"
	t.ints["ret"] = "0"
	t.poss["framePosition"] = "p"
	body := t.exec(fi.Body.List, nil, "  ")
	if len(t.condPar) > 0 || len(t.effects) > 0 {
		die("frameIndex: is no longer pure integer code: %v %v", t.conds, t.effects)
	}
	fmt.Fprintf(o, "/-- `frameIndex` (closure of WindowFrameSet): the position of a frame bound for the row at `current` -/\ndef frameIndexC (current length : Int) (p : Pos) : Ctl × Int :=\n  %s\n\ndef frameIndex (current length : Int) (p : Pos) : Int := (frameIndexC current length p).2\n\n", body)

	// --- singleFrameSet
	sf := closureOf(fd.Body.List, "singleFrameSet")
	var single string
	ast.Inspect(sf, func(n ast.Node) bool {
		if cl, ok := n.(*ast.CompositeLit); ok && cl.Type != nil && src(cl.Type) == "[]WindowFrame" && len(cl.Elts) == 1 {
			single = "WindowFrame" + src(cl.Elts[0])
		}
		return true
	})
	m := regexp.MustCompile(`^WindowFrame\{Low: (.+), High: (.+), Records: (\w+)\}$`).FindStringSubmatch(single)
	if m == nil {
		die("singleFrameSet: frame literal `%s`", single)
	}
	ts := newTr("singleFrame")
	ts.ints["len(partition)"] = "length"
	lo, ok1 := ts.intExpr(mustExpr(m[1]))
	hi, ok2 := ts.intExpr(mustExpr(m[2]))
	if !ok1 || !ok2 {
		die("singleFrameSet: bounds `%s`, `%s`", m[1], m[2])
	}
	fmt.Fprintf(o, "/-- `singleFrameSet`: one frame (Low, High) for the whole partition; its records: %s -/\ndef singleFrame (length : Int) : Int × Int := (%s, %s)\n\ndef singleFrameSetText : String := %s\n\n", m[3], lo, hi, q(src(sf.Body)))

	// --- the decision structure
	fmt.Fprintf(o, "/-- what WindowFrameSet returns: the single frame, or one frame per row with bounds as functions of the row's position -/\ninductive FrameSet\n  | single\n  | perRow (low high : Int → Int)\n\n")
	w := &wfs{low: "low", high: "high"}
	var stmts []ast.Stmt
	for _, s := range fd.Body.List {
		if ds, ok := s.(*ast.DeclStmt); ok {
			if vs, ok := ds.Decl.(*ast.GenDecl).Specs[0].(*ast.ValueSpec); ok && len(vs.Values) == 1 {
				if _, ok := vs.Values[0].(*ast.FuncLit); ok {
					continue
				}
			}
		}
		stmts = append(stmts, s)
	}
	body = w.exec(stmts, "  ")
	fmt.Fprintf(o, "/-- the decision structure of WindowFrameSet (hasOrder: expr.OrderByClause != nil, hasWindow: expr.WindowingClause != nil,\n    hasHigh: its FrameHigh != nil, low / high: its FrameLow / FrameHigh) -/\ndef windowFrameSet (length : Int) (hasOrder hasWindow hasHigh : Bool) (low high : Pos) : FrameSet :=\n  %s\n\n", body)
	fmt.Fprintf(o, "/-- statements of WindowFrameSet that carry no decision -/\ndef windowFrameSetEffects : List String :=\n  %s\n\n", strList(w.effects))
}

func mustExpr(s string) ast.Expr {
	e, err := parser.ParseExpr(s)
	if err != nil {
		die("expression `%s`: %v", s, err)
	}
	return e
}

// symbolic state of the body of WindowFrameSet
type wfs struct {
	low, high   string // Lean Pos expressions of the user's clause
	clauseIsDef string // Lean Bool: windowClause is the default literal ("" = not yet assigned)
	defLow      string
	frameLow    string
	frameHigh   string
	effects     []string
	done        bool
}

func (w *wfs) posLit(e ast.Expr) string {
	cl, ok := e.(*ast.CompositeLit)
	if !ok || src(cl.Type) != "parser.WindowFramePosition" {
		die("%s: WindowFrameSet: frame position literal `%s`", pos(e), src(e))
	}
	dir, unb, off := "", "false", "0"
	for _, el := range cl.Elts {
		kv := el.(*ast.KeyValueExpr)
		switch src(kv.Key) {
		case "Direction":
			m := regexp.MustCompile(`^parser\.Token\{Token: (parser\.\w+)\}$`).FindStringSubmatch(src(kv.Value))
			if m == nil || dirConst[m[1]] == "" {
				die("%s: WindowFrameSet: direction `%s`", pos(kv), src(kv.Value))
			}
			dir = "Dir" + dirConst[m[1]]
		case "Unbounded":
			if src(kv.Value) != "parser.Token{Token: parser.UNBOUNDED}" {
				die("%s: WindowFrameSet: unbounded `%s`", pos(kv), src(kv.Value))
			}
			unb = "true"
		case "Offset":
			off = src(kv.Value)
		default:
			die("%s: WindowFrameSet: field %s", pos(kv), src(kv.Key))
		}
	}
	if dir == "" {
		die("%s: WindowFrameSet: frame position literal without direction", pos(e))
	}
	return "⟨" + dir + ", " + unb + ", " + off + "⟩"
}

func (w *wfs) cond(e ast.Expr) string {
	switch x := e.(type) {
	case *ast.ParenExpr:
		return w.cond(x.X)
	case *ast.BinaryExpr:
		if x.Op == token.LAND {
			return "(" + w.cond(x.X) + " && " + w.cond(x.Y) + ")"
		}
		if x.Op == token.LOR {
			return "(" + w.cond(x.X) + " || " + w.cond(x.Y) + ")"
		}
	}
	s := src(e)
	switch s {
	case "expr.OrderByClause == nil":
		return "(!hasOrder)"
	case "expr.WindowingClause == nil":
		return "(!hasWindow)"
	case "windowClause.FrameHigh == nil":
		if w.clauseIsDef == "" {
			die("WindowFrameSet: windowClause used before it is assigned")
		}
		return "(" + w.clauseIsDef + " || !hasHigh)"
	}
	t := newTr("WindowFrameSet")
	if w.frameLow != "" {
		t.poss["frameLow"] = w.frameLow
	}
	if w.frameHigh != "" {
		t.poss["frameHigh"] = w.frameHigh
	}
	c := t.cond(e)
	if len(t.condPar) > 0 {
		die("%s: WindowFrameSet: condition `%s` outside the translated subset", pos(e), s)
	}
	return c
}

func (w *wfs) bound(e ast.Expr) string {
	s := src(e)
	if s == "current" {
		return "fun current => current"
	}
	c, ok := e.(*ast.CallExpr)
	if ok && src(c.Fun) == "frameIndex" && len(c.Args) == 3 && src(c.Args[0]) == "current" && src(c.Args[1]) == "length" {
		switch src(c.Args[2]) {
		case "frameLow":
			return "fun current => frameIndex current length " + w.frameLow
		case "frameHigh":
			return "fun current => frameIndex current length " + w.frameHigh
		}
	}
	die("%s: WindowFrameSet: frame bound `%s` outside the translated subset", pos(e), s)
	return ""
}

func (w *wfs) exec(list []ast.Stmt, ind string) string {
	if len(list) == 0 {
		die("WindowFrameSet: a path ends without return")
	}
	s, rest := list[0], list[1:]
	switch x := s.(type) {
	case *ast.ReturnStmt:
		switch src(x) {
		case "return singleFrameSet(partition)":
			return "FrameSet.single"
		case "return frameSet":
			die("%s: WindowFrameSet: `return frameSet` on a path that built no frames", pos(s))
		}
		die("%s: WindowFrameSet: `%s`", pos(s), src(s))
	case *ast.IfStmt:
		if x.Init != nil {
			die("%s: WindowFrameSet: if with init", pos(s))
		}
		// the assignment of windowClause
		if src(x.Cond) == "expr.WindowingClause == nil" && x.Else != nil {
			th, el := x.Body.List, x.Else.(*ast.BlockStmt).List
			if len(th) == 1 && len(el) == 1 {
				a1, ok1 := th[0].(*ast.AssignStmt)
				a2, ok2 := el[0].(*ast.AssignStmt)
				if ok1 && ok2 && src(a1.Lhs[0]) == "windowClause" && src(a2) == "windowClause = expr.WindowingClause.(parser.WindowingClause)" {
					cl, ok := a1.Rhs[0].(*ast.CompositeLit)
					if !ok || src(cl.Type) != "parser.WindowingClause" || len(cl.Elts) != 1 || src(cl.Elts[0].(*ast.KeyValueExpr).Key) != "FrameLow" {
						die("%s: WindowFrameSet: the default windowing clause is no longer `{FrameLow: …}`", pos(a1))
					}
					w.clauseIsDef = "!hasWindow"
					w.defLow = w.posLit(cl.Elts[0].(*ast.KeyValueExpr).Value)
					return w.exec(rest, ind)
				}
			}
			die("%s: WindowFrameSet: the assignment of windowClause changed shape", pos(s))
		}
		c := w.cond(x.Cond)
		wt, we := *w, *w
		thenS := wt.exec(append(append([]ast.Stmt{}, x.Body.List...), rest...), ind+"  ")
		var elseList []ast.Stmt
		if x.Else != nil {
			elseList = x.Else.(*ast.BlockStmt).List
		}
		we.effects = wt.effects
		elseS := we.exec(append(append([]ast.Stmt{}, elseList...), rest...), ind+"  ")
		w.effects = dedupe(we.effects)
		return "(if " + c + " then\n" + ind + "  " + thenS + "\n" + ind + "else\n" + ind + "  " + elseS + ")"
	case *ast.AssignStmt:
		switch src(x) {
		case "frameLow := windowClause.FrameLow.(parser.WindowFramePosition)":
			w.frameLow = "(if " + w.clauseIsDef + " then " + w.defLow + " else " + w.low + ")"
			return w.exec(rest, ind)
		case "frameHigh := windowClause.FrameHigh.(parser.WindowFramePosition)":
			w.frameHigh = w.high
			return w.exec(rest, ind)
		}
		w.effects = append(w.effects, src(s))
		if strings.HasPrefix(src(s), "frameLow") || strings.HasPrefix(src(s), "frameHigh") || strings.HasPrefix(src(s), "windowClause") {
			die("%s: WindowFrameSet: `%s`", pos(s), src(s))
		}
		return w.exec(rest, ind)
	case *ast.DeclStmt:
		w.effects = append(w.effects, src(s))
		return w.exec(rest, ind)
	case *ast.ForStmt:
		if rangeHeader(x) != "for current := 0; current < length; current++" || len(x.Body.List) != 1 {
			die("%s: WindowFrameSet: loop `%s`", pos(s), rangeHeader(x))
		}
		m := regexp.MustCompile(`^frameSet = append\(frameSet, WindowFrame\{Low: (.+), High: (.+), Records: \[\]int\{partition\[current\]\}\}\)$`).FindStringSubmatch(src(x.Body.List[0]))
		if m == nil {
			die("%s: WindowFrameSet: loop body `%s`", pos(s), src(x.Body.List[0]))
		}
		if len(rest) != 1 || src(rest[0]) != "return frameSet" {
			die("%s: WindowFrameSet: the per-row loop is not followed by `return frameSet`", pos(s))
		}
		return "FrameSet.perRow (" + w.bound(mustExpr(m[1])) + ") (" + w.bound(mustExpr(m[2])) + ")"
	}
	die("%s: WindowFrameSet: statement `%s` outside the translated subset", pos(s), src(s))
	return ""
}

// ---------- windowValues ----------

func windowValues(o *strings.Builder, f *ast.File) {
	fd := findFunc(f, "", "windowValues")
	loop, at := findLoop(fd.Body.List, "windowValues")
	t := newTr("windowCapacity")
	t.state = []string{"capacity"}
	t.ints["frame.Low"], t.ints["frame.High"] = "low", "high"
	var pre []ast.Stmt
	for _, s := range fd.Body.List[:at] {
		if strings.HasPrefix(src(s), "capacity") || strings.HasPrefix(src(s), "if capacity") {
			pre = append(pre, s)
		} else {
			t.effect(nil, s)
		}
	}
	body := t.exec(pre, nil, "  ")
	if _, ok := t.ints["capacity"]; !ok {
		die("windowValues: `capacity` is no longer computed before the loop")
	}
	emitStep(o, t, "windowValues: the capacity handed to make(…, 0, capacity)", []param{{"low", "Int"}, {"high", "Int"}}, body)
	fmt.Fprintf(o, "def windowValuesLoop : String := %s\n\n", q(rangeHeader(loop)))
	ts := newTr("windowValuesStep")
	ts.ints["i"], ts.ints["len(partition)"] = "i", "length"
	sbody := ts.exec(loopBody(loop), nil, "  ")
	emitStep(o, ts, "one round of the loop of windowValues", []param{{"i", "Int"}, {"length", "Int"}}, sbody)
}

// ---------- NTILE ----------

func ntile(o *strings.Builder, f *ast.File) {
	fd := findFunc(f, "NTile", "Execute")
	loop, at := findLoop(fd.Body.List, "NTile.Execute")
	// the guard and the parameters
	t := newTr("ntileParams")
	t.state = []string{"perTile", "mod"}
	t.ints["tileNumber"], t.ints["len(partition)"] = "tileNumber", "length"
	guard := ""
	var pre []ast.Stmt
	started := false
	for _, s := range fd.Body.List[:at] {
		if is, ok := s.(*ast.IfStmt); ok && !started {
			if c, ok := t.intCondOnly(is.Cond); ok {
				if guard != "" {
					die("NTile.Execute: more than one integer guard before the parameters")
				}
				guard = c
				t.effect([]string{"guard"}, is.Body)
				continue
			}
		}
		if strings.HasPrefix(src(s), "total :=") {
			started = true
		}
		if started {
			pre = append(pre, s)
		} else {
			t.effect(nil, s)
		}
	}
	if guard == "" || !started {
		die("NTile.Execute: guard or `total := len(partition)` not found")
	}
	// statements after `total :=` that are not integer code (make(…), var tile, var count) are kept as effects by exec
	var ints []ast.Stmt
	for _, s := range pre {
		text := src(s)
		if strings.HasPrefix(text, "var tile") || strings.HasPrefix(text, "var count") || strings.HasPrefix(text, "list :=") {
			t.effect(nil, s)
			continue
		}
		ints = append(ints, s)
	}
	body := t.exec(ints, nil, "  ")
	fmt.Fprintf(o, "/-- NTile.Execute: the argument is rejected (\"must be greater than 0\") -/\ndef ntileRejects (tileNumber : Int) : Bool := %s\n\n", guard)
	emitStep(o, t, "NTile.Execute: rows per tile and the number of tiles that get one more", []param{{"tileNumber", "Int"}, {"length", "Int"}}, body)
	// initial tile / count
	init := newTr("ntileInit")
	init.state = []string{"tile", "count"}
	var ist []ast.Stmt
	for _, s := range pre {
		if strings.HasPrefix(src(s), "var tile") || strings.HasPrefix(src(s), "var count") {
			ist = append(ist, s)
		}
	}
	ibody := init.exec(ist, nil, "  ")
	emitStep(o, init, "NTile.Execute: tile and count before the loop", nil, ibody)
	fmt.Fprintf(o, "def ntileStepLoop : String := %s\n\n", q(rangeHeader(loop)))
	st := newTr("ntileStep")
	st.state = []string{"tile", "count", "mod", "out"}
	st.ints["tile"], st.ints["count"], st.ints["mod"], st.ints["perTile"], st.ints["out"] = "tile", "count", "mod", "perTile", "0"
	sbody := st.exec(loopBody(loop), nil, "  ")
	emitStep(o, st, "one round of the loop of NTile.Execute", []param{{"perTile", "Int"}, {"tile", "Int"}, {"count", "Int"}, {"mod", "Int"}}, sbody)
}

// a condition made of integer comparisons only
func (t *tr) intCondOnly(e ast.Expr) (string, bool) {
	c := t.clone()
	c.condPar, c.conds, c.bools = nil, nil, map[string]string{}
	s := c.cond(e)
	if len(c.condPar) > 0 {
		return "", false
	}
	return s, true
}

// ---------- setNthValue ----------

func setNthValue(o *strings.Builder, f *ast.File) {
	fd := findFunc(f, "", "setNthValue")
	var pn []string
	for _, p := range fd.Type.Params.List {
		for _, n := range p.Names {
			pn = append(pn, n.Name)
		}
	}
	if strings.Join(pn, ",") != "ctx,scope,partition,expr,n,fromLast" {
		die("setNthValue: parameters changed: %v", pn)
	}
	outer, _ := findLoop(fd.Body.List, "setNthValue")
	if rangeHeader(outer) != "for _, frame := range frameSet" {
		die("setNthValue: outer loop `%s`", rangeHeader(outer))
	}
	ob := loopBody(outer)
	var inner ast.Stmt
	at := -1
	for i, s := range ob {
		if _, ok := s.(*ast.ForStmt); ok {
			if at >= 0 {
				die("setNthValue: more than one for loop over the frame")
			}
			inner, at = s, i
		}
	}
	if at < 0 {
		die("setNthValue: the loop over the frame was not found")
	}
	fl, ok := inner.(*ast.ForStmt)
	if !ok || fl.Init != nil || fl.Cond == nil || fl.Post == nil {
		die("setNthValue: inner loop `%s`", rangeHeader(inner))
	}
	bools := map[string]string{"fromLast": "fromLast", "expr.IgnoreNulls()": "ign", "value.IsNull(val)": "isNull", "expr.IgnoreNulls() && value.IsNull(val)": "", "v, ok := valueCache[recordIdx]; ok": "cached"}
	delete(bools, "expr.IgnoreNulls() && value.IsNull(val)")
	// before the inner loop: val, count, i, step
	t := newTr("nthInit")
	t.state = []string{"count", "i", "step"}
	t.ints["frame.Low"], t.ints["frame.High"] = "low", "high"
	for k, v := range bools {
		t.bools[k] = v
	}
	body := t.exec(ob[:at], nil, "  ")
	emitStep(o, t, "setNthValue: count, i, step before the loop over the frame", []param{{"low", "Int"}, {"high", "Int"}}, body)
	// the loop condition and post statement
	tc := newTr("nthCond")
	tc.ints["frame.Low"], tc.ints["frame.High"], tc.ints["i"] = "low", "high", "i"
	c, ok := tc.intCondOnly(fl.Cond)
	if !ok {
		die("setNthValue: loop condition `%s`", src(fl.Cond))
	}
	fmt.Fprintf(o, "/-- setNthValue: the loop over the frame continues -/\ndef nthCond (low high i : Int) : Bool := %s\n\n", c)
	tp := newTr("nthPost")
	tp.state = []string{"i"}
	tp.ints["i"], tp.ints["step"] = "i", "step"
	pbody := tp.exec([]ast.Stmt{fl.Post}, nil, "  ")
	emitStep(o, tp, "setNthValue: the post statement of the loop over the frame", []param{{"i", "Int"}, {"step", "Int"}}, pbody)
	// the body: if-with-init (the value cache) is the only statement outside the integer subset; it reads the cell
	ts := newTr("nthStep")
	ts.state = []string{"count"}
	ts.ints["i"], ts.ints["len(partition)"], ts.ints["count"], ts.ints["n"] = "i", "length", "count", "n"
	for k, v := range bools {
		ts.bools[k] = v
	}
	var stmts []ast.Stmt
	for _, s := range loopBody(inner) {
		if is, ok := s.(*ast.IfStmt); ok && is.Init != nil {
			// the memoised evaluation of the argument: `val` becomes the cell of the record in both branches
			text := src(is)
			if !strings.Contains(text, "val = v") || !strings.Contains(text, "val = p") {
				die("%s: setNthValue: the cached evaluation no longer assigns val in both branches", pos(s))
			}
		}
		stmts = append(stmts, s)
	}
	sbody := ts.exec(stmts, nil, "  ")
	emitStep(o, ts, "one round of the loop of setNthValue over the frame (val := the cell at position i, unless out of range)", []param{{"i", "Int"}, {"length", "Int"}, {"count", "Int"}, {"n", "Int"}}, sbody)
	// after the loop
	tm := newTr("nthMissing")
	tm.ints["count"], tm.ints["n"] = "count", "n"
	missing := "false"
	var after []string
	for _, s := range ob[at+1:] {
		if is, ok := s.(*ast.IfStmt); ok && is.Init == nil && is.Else == nil && len(is.Body.List) == 1 && src(is.Body.List[0]) == "val = value.NewNull()" {
			c, ok := tm.intCondOnly(is.Cond)
			if !ok {
				die("%s: setNthValue: condition of the reset to NULL", pos(s))
			}
			missing = c
			continue
		}
		after = append(after, src(s))
	}
	fmt.Fprintf(o, "/-- setNthValue: after the loop the value is reset to NULL -/\ndef nthMissing (count n : Int) : Bool := %s\n\ndef nthAfter : List String := %s\n\n", missing, strList(after))
}

// ---------- setLag ----------

func setLag(o *strings.Builder, f *ast.File) {
	fd := findFunc(f, "", "setLag")
	outer, at := findLoop(fd.Body.List, "setLag")
	if rangeHeader(outer) != "for _, idx := range partition" {
		die("setLag: loop `%s`", rangeHeader(outer))
	}
	// offset default and arguments: the statements before the loop
	pre := newTr("lagOffsetDefault")
	pre.state = []string{"offset"}
	var first []ast.Stmt
	var other []string
	for i, s := range fd.Body.List[:at] {
		if i == 0 {
			first = append(first, s)
			continue
		}
		other = append(other, src(s))
	}
	pbody := pre.exec(first, nil, "  ")
	emitStep(o, pre, "setLag: the offset when the call has no second argument", nil, pbody)
	fmt.Fprintf(o, "def lagPrologue : List String := %s\n\n", strList(other))
	// body: … values = append(values, p); lagIdx := …; val := defaultValue; if inRange { for … } ; list[idx] = val
	ob := loopBody(outer)
	t := newTr("lagIdx")
	t.state = []string{"lagIdx"}
	t.ints["len(values)"], t.ints["offset"] = "lenValues", "offset"
	var ifs *ast.IfStmt
	var pieces []ast.Stmt
	for _, s := range ob {
		if as, ok := s.(*ast.AssignStmt); ok && src(as.Lhs[0]) == "lagIdx" {
			pieces = append(pieces, s)
			continue
		}
		if is, ok := s.(*ast.IfStmt); ok && is.Init == nil && strings.Contains(src(is.Cond), "lagIdx") {
			if ifs != nil {
				die("setLag: more than one test of lagIdx")
			}
			ifs = is
			continue
		}
		t.effect(nil, s)
	}
	if len(pieces) != 1 || ifs == nil || ifs.Else != nil {
		die("setLag: `lagIdx := …` / `if … lagIdx …` not found")
	}
	body := t.exec(pieces, nil, "  ")
	emitStep(o, t, "setLag: the position in `values` (oldest first, the current row last) where the scan starts", []param{{"lenValues", "Int"}, {"offset", "Int"}}, body)
	tc := newTr("lagInRange")
	tc.ints["lagIdx"], tc.ints["len(values)"] = "lagIdx", "lenValues"
	c, ok := tc.intCondOnly(ifs.Cond)
	if !ok {
		die("setLag: condition `%s`", src(ifs.Cond))
	}
	fmt.Fprintf(o, "/-- setLag: the scan takes place (otherwise the default value stays) -/\ndef lagInRange (lagIdx lenValues : Int) : Bool := %s\n\n", c)
	if len(ifs.Body.List) != 1 {
		die("setLag: the guarded block is no longer a single loop")
	}
	fl, ok := ifs.Body.List[0].(*ast.ForStmt)
	if !ok || fl.Init == nil || fl.Cond == nil || fl.Post == nil {
		die("setLag: the guarded block is no longer a for loop")
	}
	ti := newTr("lagScanInit")
	ti.state = []string{"i"}
	ti.ints["lagIdx"] = "lagIdx"
	ibody := ti.exec([]ast.Stmt{fl.Init}, nil, "  ")
	emitStep(o, ti, "setLag: start of the scan", []param{{"lagIdx", "Int"}}, ibody)
	tcc := newTr("lagScanCond")
	tcc.ints["i"] = "i"
	cc, ok := tcc.intCondOnly(fl.Cond)
	if !ok {
		die("setLag: scan condition `%s`", src(fl.Cond))
	}
	fmt.Fprintf(o, "def lagScanCond (i : Int) : Bool := %s\n\n", cc)
	tp := newTr("lagScanPost")
	tp.state = []string{"i"}
	tp.ints["i"] = "i"
	pb := tp.exec([]ast.Stmt{fl.Post}, nil, "  ")
	emitStep(o, tp, "setLag: post statement of the scan", []param{{"i", "Int"}}, pb)
	ts := newTr("lagScanStep")
	ts.bools["expr.IgnoreNulls()"], ts.bools["value.IsNull(values[i])"] = "ign", "isNull"
	sb := ts.exec(fl.Body.List, nil, "  ")
	emitStep(o, ts, "one round of the scan of setLag (`brk` = values[i] is taken)", nil, sb)
}

// ---------- registration tables ----------

func registry(o *strings.Builder, f *ast.File) {
	// var AnalyticFunctions = map[string]AnalyticFunction{ "NAME": Type{}, … }
	var reg []string
	for _, d := range f.Decls {
		gd, ok := d.(*ast.GenDecl)
		if !ok || gd.Tok != token.VAR {
			continue
		}
		for _, sp := range gd.Specs {
			vs := sp.(*ast.ValueSpec)
			if len(vs.Names) == 1 && vs.Names[0].Name == "AnalyticFunctions" {
				for _, el := range vs.Values[0].(*ast.CompositeLit).Elts {
					kv := el.(*ast.KeyValueExpr)
					name, _ := strconv.Unquote(src(kv.Key))
					reg = append(reg, "("+q(name)+", "+q(strings.TrimSuffix(src(kv.Value), "{}"))+")")
				}
			}
		}
	}
	if len(reg) == 0 {
		die("AnalyticFunctions not found")
	}
	fmt.Fprintf(o, "/-- the AnalyticFunctions map: SQL name ↦ implementing type -/\ndef registry : List (String × String) :=\n  [%s]\n\n", strings.Join(reg, ", "))
	// CheckArgsLen and Execute of every type in the map
	var lens, dels []string
	for _, d := range f.Decls {
		fd, ok := d.(*ast.FuncDecl)
		if !ok || fd.Recv == nil {
			continue
		}
		recv := strings.TrimPrefix(src(fd.Recv.List[0].Type), "*")
		switch fd.Name.Name {
		case "CheckArgsLen":
			if len(fd.Body.List) != 1 {
				die("%s.CheckArgsLen: body", recv)
			}
			m := regexp.MustCompile(`^return CheckArgsLen\(expr, \[\]int\{([0-9, ]*)\}\)$`).FindStringSubmatch(src(fd.Body.List[0]))
			if m == nil {
				die("%s.CheckArgsLen: `%s`", recv, src(fd.Body.List[0]))
			}
			lens = append(lens, "("+q(recv)+", ["+m[1]+"])")
		case "Execute":
			// the calls of the shared helpers, with what precedes them
			var calls []string
			ast.Inspect(fd.Body, func(n ast.Node) bool {
				if c, ok := n.(*ast.CallExpr); ok {
					switch src(c.Fun) {
					case "setNthValue", "setLag", "partition.Reverse", "perseCumulativeGroups", "WindowFrameSet", "ListAgg", "JsonAgg", "Distinguish":
						var args []string
						for _, a := range c.Args {
							switch src(a) {
							case "ctx", "scope", "partition", "expr", "scope.Records[0].view":
							default:
								args = append(args, src(a))
							}
						}
						calls = append(calls, src(c.Fun)+"("+strings.Join(args, ", ")+")")
					}
				}
				return true
			})
			dels = append(dels, "("+q(recv)+", "+strList(calls)+")")
		}
	}
	fmt.Fprintf(o, "/-- CheckArgsLen of every analytic function type: the admissible numbers of arguments ([n] exactly, [a, b] range) -/\ndef argLens : List (String × List Nat) :=\n  [%s]\n\n", strings.Join(lens, ", "))
	fmt.Fprintf(o, "/-- Execute of every analytic function type: the shared helpers it calls, in order, with their constant arguments -/\ndef delegations : List (String × List String) :=\n  [%s]\n\n", strings.Join(dels, ", "))
	// CheckArgsLen (the shared function)
	keywordClasses(o)
	grammarForms(o)
}

// ---------- Analyze, evalAnalyticFunction, SortValues.Serialize: list code, kept as text ----------

func stmtTexts(fd *ast.FuncDecl) []string {
	var out []string
	for _, s := range fd.Body.List {
		out = append(out, src(s))
	}
	return out
}

func skeletons(o *strings.Builder, f *ast.File) {
	an := findFunc(f, "", "Analyze")
	fmt.Fprintf(o, "/-- Analyze, statement by statement (function lookup and argument checks; the partition key of every record —\n    cached sort values, `SortValues.Serialize`; the partitions map in order of first appearance; the worker\n    function: Execute for analytic functions, frames × windowValues × aggregate for aggregates and user-defined\n    aggregates; the fan-out; the new header field) -/\ndef analyzeStatements : List String :=\n  %s\n\n", strList(stmtTexts(an)))
	fs := token.NewFileSet()
	_ = fs
	vf, err := parser.ParseFile(fset, filepath.Join(repo(), "lib", "query", "view.go"), nil, 0)
	if err != nil {
		die("%v", err)
	}
	ev := findFunc(vf, "View", "evalAnalyticFunction")
	fmt.Fprintf(o, "/-- View.evalAnalyticFunction: PARTITION BY columns evaluated, the view ordered by the clause's ORDER BY, Analyze,\n    the sort state discarded -/\ndef evalAnalyticFunctionStatements : List String :=\n  %s\n\n", strList(stmtTexts(ev)))
	sf, err := parser.ParseFile(fset, filepath.Join(repo(), "lib", "query", "sort_value.go"), nil, 0)
	if err != nil {
		die("%v", err)
	}
	nsv := findFunc(sf, "", "NewSortValue")
	fmt.Fprintf(o, "/-- NewSortValue, statement by statement: the ladder NULL / integer / float / datetime / boolean / text, and what\n    each kind stores (an integer its float64 image and its upper-cased trimmed TEXT, a float its text, …) -/\ndef newSortValueStatements : List String :=\n  %s\n\n", strList(stmtTexts(nsv)))
	ser := findFunc(sf, "SortValues", "Serialize")
	// for i, val := range values { if 0 < i {WriteByte(58)}; if val.SerializedKey != nil {…; continue}; switch val.Type { case …: call } }
	if len(ser.Body.List) != 1 {
		die("SortValues.Serialize: body is no longer a single loop")
	}
	rs, ok := ser.Body.List[0].(*ast.RangeStmt)
	if !ok {
		die("SortValues.Serialize: body is no longer a single loop")
	}
	var pre []string
	var cases []string
	for _, st := range rs.Body.List {
		sw, ok := st.(*ast.SwitchStmt)
		if !ok {
			pre = append(pre, src(st))
			continue
		}
		if src(sw.Tag) != "val.Type" {
			die("SortValues.Serialize: switch over `%s`", src(sw.Tag))
		}
		for _, cl := range sw.Body.List {
			cc := cl.(*ast.CaseClause)
			var ts, body []string
			for _, e := range cc.List {
				ts = append(ts, src(e))
			}
			for _, b := range cc.Body {
				body = append(body, src(b))
			}
			cases = append(cases, "("+q(strings.Join(ts, ", "))+", "+q(strings.Join(body, "; "))+")")
		}
	}
	if len(cases) == 0 {
		die("SortValues.Serialize: the switch over val.Type was not found")
	}
	fmt.Fprintf(o, "/-- SortValues.Serialize (the partition key): what is written before the typed part … -/\ndef serializePrologue : List String :=\n  %s\n\n/-- … and the serialiser of every sort value type -/\ndef serializeCases : List (String × String) :=\n  [%s]\n\n", strList(pre), strings.Join(cases, ", "))
}

// ---------- DISTINCT inside the analytic path: the gates, Distinguish, the mode dispatch of the comparison key ----------

// callFacts: every call in `n` whose function name matches `re`, as (name, [argument texts]) in source order
func callFacts(n ast.Node, re *regexp.Regexp) []string {
	var out []string
	ast.Inspect(n, func(x ast.Node) bool {
		if c, ok := x.(*ast.CallExpr); ok && re.MatchString(src(c.Fun)) {
			var args []string
			for _, a := range c.Args {
				args = append(args, src(a))
			}
			out = append(out, "("+q(src(c.Fun))+", "+strList(args)+")")
		}
		return true
	})
	return out
}

func blockTexts(b *ast.BlockStmt) []string {
	var out []string
	if b == nil {
		return out
	}
	for _, s := range b.List {
		out = append(out, src(s))
	}
	return out
}

func distinctFacts(o *strings.Builder, f *ast.File) {
	uf, err := parser.ParseFile(fset, filepath.Join(repo(), "lib", "query", "utils.go"), nil, 0)
	if err != nil {
		die("%v", err)
	}
	serRe := regexp.MustCompile(`^(Serialize\w*|serialize\w*)$`)
	// --- Distinguish: its statements, and the key writer called for every value of the list
	dg := findFunc(uf, "", "Distinguish")
	var first *ast.RangeStmt
	for _, s := range dg.Body.List {
		if rs, ok := s.(*ast.RangeStmt); ok && src(rs.X) == "list" {
			if first != nil {
				die("Distinguish: more than one loop over `list`")
			}
			first = rs
		}
	}
	if first == nil {
		die("Distinguish: the loop over `list` was not found")
	}
	fmt.Fprintf(o, "/-- utils.go Distinguish, statement by statement (a map key → index of the first value with that key, the keys in\n    order of first appearance; the result: the value at the recorded index of every key, in that order) -/\ndef distinguishStatements : List String :=\n  %s\n\n", strList(stmtTexts(dg)))
	fmt.Fprintf(o, "/-- Distinguish: the key-serialising calls made for every value `v` of the list (function, arguments) -/\ndef distinguishKeyCalls : List (String × List String) :=\n  [%s]\n\n", strings.Join(callFacts(first.Body, serRe), ", "))
	// --- SerializeComparisonKeys: the loop body and the dispatch on the session flag
	sk := findFunc(uf, "", "SerializeComparisonKeys")
	if len(sk.Body.List) != 1 {
		die("SerializeComparisonKeys: body is no longer a single loop")
	}
	rs, ok := sk.Body.List[0].(*ast.RangeStmt)
	if !ok {
		die("SerializeComparisonKeys: body is no longer a single loop")
	}
	var disp []string
	for _, st := range rs.Body.List {
		if is, ok := st.(*ast.IfStmt); ok && is.Else != nil {
			eb, ok := is.Else.(*ast.BlockStmt)
			if !ok {
				die("SerializeComparisonKeys: else-if chain")
			}
			disp = append(disp, "("+q(src(is.Cond))+", "+strList(blockTexts(is.Body))+", "+strList(blockTexts(eb))+")")
		}
	}
	fmt.Fprintf(o, "/-- SerializeComparisonKeys: the loop header and the statements of one round -/\ndef comparisonKeysLoop : String × List String :=\n  (%s, %s)\n\n", q(rangeHeader(rs)), strList(blockTexts(rs.Body)))
	fmt.Fprintf(o, "/-- SerializeComparisonKeys: the two-way decisions of one round (condition, statements if it holds, statements otherwise) -/\ndef comparisonKeysDispatch : List (String × List String × List String) :=\n  [%s]\n\n", strings.Join(disp, ", "))
	fmt.Fprintf(o, "/-- … and the key writers each of the two functions behind the dispatch is declared with (name, parameters) -/\ndef comparisonKeyWriters : List (String × List String) :=\n  [%s]\n\n", strings.Join([]string{sigOf(findFunc(uf, "", "SerializeKey")), sigOf(findFunc(uf, "", "SerializeIdenticalKey"))}, ", "))
	// --- the DISTINCT gates of the analytic path: (function, statements after its loop over the frame / partition)
	var gates []string
	for _, g := range [][2]string{{"", "windowValues"}, {"AnalyticListAgg", "Execute"}, {"AnalyticJsonAgg", "Execute"}} {
		fd := findFunc(f, g[0], g[1])
		last := -1
		for i, s := range fd.Body.List {
			switch s.(type) {
			case *ast.RangeStmt, *ast.ForStmt:
				if last < 0 || g[1] == "windowValues" {
					last = i
				}
			}
		}
		// the loop that collects the values is the first one (Execute has a second loop that stores the result)
		if last < 0 {
			die("%s.%s: loop not found", g[0], g[1])
		}
		var after []string
		for _, s := range fd.Body.List[last+1:] {
			after = append(after, src(s))
		}
		name := g[1]
		if g[0] != "" {
			name = g[0] + "." + g[1]
		}
		gates = append(gates, "("+q(name)+", "+strList(after)+")")
	}
	fmt.Fprintf(o, "/-- the statements that follow the loop collecting the values (windowValues: the frame's cells; AnalyticListAgg /\n    AnalyticJsonAgg: the partition's cells): the DISTINCT gate, then what is done with the values -/\ndef distinctGates : List (String × List String) :=\n  [%s]\n\n", strings.Join(gates, ",\n   "))
	// --- Analyze: what receives the values of windowValues (built-in aggregate with the session flags; user aggregate)
	an := findFunc(f, "", "Analyze")
	fmt.Fprintf(o, "/-- Analyze: the calls that produce and consume the values of a frame (function, arguments) -/\ndef frameValueCalls : List (String × List String) :=\n  [%s]\n\n", strings.Join(callFacts(an, regexp.MustCompile(`^(windowValues|aggfn|udfn\.ExecuteAggregate|WindowFrameSet)$`)), ", "))
}

// ---------- header.go equalFieldIdentifiers: the scanner that decides whether two printed expressions are one column ----------

// Fails closed: the function must consist of the three early returns, the two state variables, ONE loop over the runes
// of `a` whose body is ONE tagless switch, and `return true`; anything else is outside the modelled shape.
func identifierScanner(o *strings.Builder) {
	hf, err := parser.ParseFile(fset, filepath.Join(repo(), "lib", "query", "header.go"), nil, 0)
	if err != nil {
		die("%v", err)
	}
	fd := findFunc(hf, "", "equalFieldIdentifiers")
	loop, at := findLoop(fd.Body.List, "equalFieldIdentifiers")
	rs, ok := loop.(*ast.RangeStmt)
	if !ok {
		die("equalFieldIdentifiers: the loop is no longer a range loop")
	}
	if len(rs.Body.List) != 1 {
		die("equalFieldIdentifiers: the loop body is no longer a single switch (%d statements)", len(rs.Body.List))
	}
	sw, ok := rs.Body.List[0].(*ast.SwitchStmt)
	if !ok || sw.Tag != nil || sw.Init != nil {
		die("equalFieldIdentifiers: the loop body is no longer a tagless switch")
	}
	var cases []string
	for _, cl := range sw.Body.List {
		cc := cl.(*ast.CaseClause)
		if len(cc.List) != 1 {
			die("equalFieldIdentifiers: a case with %d conditions (default or list)", len(cc.List))
		}
		var body []string
		for _, b := range cc.Body {
			if _, ok := b.(*ast.BranchStmt); ok {
				die("equalFieldIdentifiers: fallthrough / break inside the switch")
			}
			body = append(body, src(b))
		}
		cases = append(cases, "("+q(src(cc.List[0]))+", "+q(strings.Join(body, "; "))+")")
	}
	var pre, post []string
	for _, st := range fd.Body.List[:at] {
		pre = append(pre, src(st))
	}
	for _, st := range fd.Body.List[at+1:] {
		post = append(post, src(st))
	}
	fmt.Fprintf(o, "/-- header.go equalFieldIdentifiers: the statements in front of the scanner (early returns, the runes, the state) -/\ndef identifierPrologue : List String :=\n  %s\n\n", strList(pre))
	fmt.Fprintf(o, "def identifierLoop : String := %s\n\n", q(rangeHeader(rs)))
	fmt.Fprintf(o, "/-- the cases of the scanner's switch IN ORDER (condition, statements); the first case that applies is taken -/\ndef identifierScannerCases : List (String × String) :=\n  [%s]\n\n", strings.Join(cases, ", "))
	fmt.Fprintf(o, "def identifierEpilogue : List String :=\n  %s\n\n", strList(post))
	// Header.ContainsObject: the comparison every candidate field goes through
	co := findFunc(hf, "Header", "ContainsObject")
	fmt.Fprintf(o, "/-- Header.ContainsObject: every call it makes to the identifier formatter and comparison (function, arguments) -/\ndef containsObjectCalls : List (String × List String) :=\n  [%s]\n\n", strings.Join(callFacts(co, regexp.MustCompile(`^(FormatFieldIdentifier|equalFieldIdentifiers|strings\\.EqualFold)$`)), ", "))
}

func sigOf(fd *ast.FuncDecl) string {
	var ps []string
	for _, p := range fd.Type.Params.List {
		for _, n := range p.Names {
			ps = append(ps, n.Name+" "+src(p.Type))
		}
	}
	return "(" + q(fd.Name.Name) + ", " + strList(ps) + ")"
}

func keywordClasses(o *strings.Builder) {
	fs := token.NewFileSet()
	f, err := parser.ParseFile(fs, filepath.Join(repo(), "lib", "parser", "scanner.go"), nil, 0)
	if err != nil {
		die("%v", err)
	}
	want := []string{"aggregateFunctions", "listFunctions", "analyticFunctions", "functionsNth", "functionsWithIgnoreNulls"}
	got := map[string][]string{}
	for _, d := range f.Decls {
		gd, ok := d.(*ast.GenDecl)
		if !ok || gd.Tok != token.VAR {
			continue
		}
		for _, sp := range gd.Specs {
			vs := sp.(*ast.ValueSpec)
			for _, w := range want {
				if len(vs.Names) == 1 && vs.Names[0].Name == w {
					for _, el := range vs.Values[0].(*ast.CompositeLit).Elts {
						s, _ := strconv.Unquote(el.(*ast.BasicLit).Value)
						got[w] = append(got[w], s)
					}
				}
			}
		}
	}
	var parts []string
	for _, w := range want {
		if got[w] == nil {
			die("scanner.go: keyword list %s not found", w)
		}
		parts = append(parts, "("+q(w)+", "+strList(got[w])+")")
	}
	// which token each list yields
	data, _ := os.ReadFile(filepath.Join(repo(), "lib", "parser", "scanner.go"))
	re1 := regexp.MustCompile(`s\.(is\w+)\(literal\)\s*\{\s*token = (\w+)`)
	re2 := regexp.MustCompile(`func \(s \*Scanner\) (is\w+)\(str string\) bool \{\s*for _, v := range (\w+)`)
	listOf := map[string]string{}
	for _, m := range re2.FindAllStringSubmatch(string(data), -1) {
		listOf[m[1]] = m[2]
	}
	var toks []string
	for _, m := range re1.FindAllStringSubmatch(string(data), -1) {
		for _, w := range want {
			if listOf[m[1]] == w {
				toks = append(toks, "("+q(w)+", "+q(m[2])+")")
			}
		}
	}
	if len(toks) != len(want) {
		die("scanner.go: the mapping keyword list → token changed shape (%d of %d found)", len(toks), len(want))
	}
	fmt.Fprintf(o, "/-- lib/parser/scanner.go: the keyword lists of the function-like tokens -/\ndef keywordClasses : List (String × List String) :=\n  [%s]\n\n/-- … and the token each list yields -/\ndef keywordTokens : List (String × String) :=\n  [%s]\n\n", strings.Join(parts, ", "), strings.Join(toks, ", "))
}

func grammarForms(o *strings.Builder) {
	fh, err := os.Open(filepath.Join(repo(), "lib", "parser", "parser.y"))
	if err != nil {
		die("%v", err)
	}
	defer fh.Close()
	sc := bufio.NewScanner(fh)
	sc.Buffer(make([]byte, 1<<20), 1<<20)
	rules := map[string][]string{}
	cur := ""
	depth := 0
	ruleRe := regexp.MustCompile(`^([a-z_]+)\s*$`)
	inRules := false
	for sc.Scan() {
		line := sc.Text()
		if strings.HasPrefix(line, "%%") {
			inRules = !inRules
			continue
		}
		if !inRules {
			continue
		}
		tl := strings.TrimSpace(line)
		if depth == 0 {
			if m := ruleRe.FindStringSubmatch(line); m != nil {
				cur = m[1]
				continue
			}
			if cur != "" && (strings.HasPrefix(tl, ":") || strings.HasPrefix(tl, "|")) {
				rules[cur] = append(rules[cur], strings.Join(strings.Fields(strings.TrimSpace(tl[1:])), " "))
				continue
			}
		}
		depth += strings.Count(line, "{") - strings.Count(line, "}")
	}
	for _, r := range []string{"analytic_function", "analytic_clause", "analytic_clause_with_windowing", "windowing_clause", "window_position", "window_relative_position", "window_frame_low", "window_frame_high"} {
		if len(rules[r]) == 0 {
			die("parser.y: rule %s not found", r)
		}
	}
	var parts []string
	for _, r := range []string{"analytic_function", "analytic_clause", "analytic_clause_with_windowing", "windowing_clause", "window_position", "window_relative_position", "window_frame_low", "window_frame_high"} {
		parts = append(parts, "("+q(r)+", "+strList(rules[r])+")")
	}
	// per head symbol of analytic_function: (some production carries IGNORE NULLS, some production carries a windowing clause)
	var heads []string
	ign, win := map[string]bool{}, map[string]bool{}
	for _, prod := range rules["analytic_function"] {
		ws := strings.Fields(prod)
		h := ws[0]
		if _, seen := ign[h]; !seen {
			heads = append(heads, h)
			ign[h], win[h] = false, false
		}
		for _, w := range ws {
			if w == "IGNORE" {
				ign[h] = true
			}
			if w == "analytic_clause_with_windowing" {
				win[h] = true
			}
		}
	}
	var rights []string
	for _, h := range heads {
		rights = append(rights, fmt.Sprintf("(%s, %v, %v)", q(h), ign[h], win[h]))
	}
	fmt.Fprintf(o, "/-- per head symbol of the productions of `analytic_function`: (IGNORE NULLS possible, windowing clause possible) -/\ndef grammarRights : List (String × Bool × Bool) :=\n  [%s]\n\n", strings.Join(rights, ", "))
	fmt.Fprintf(o, "/-- lib/parser/parser.y: the productions that decide which analytic function takes IGNORE NULLS, a windowing\n    clause, and which frame bounds exist -/\ndef grammarForms : List (String × List String) :=\n  [%s]\n\n", strings.Join(parts, ",\n   "))
}
