module analyticfacts

go 1.18
