module unitables

go 1.18
