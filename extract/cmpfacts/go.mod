module cmpfacts

go 1.18
