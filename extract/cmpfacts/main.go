// cmpfacts: translates the comparison core of lib/value/comparison.go into Lean definitions
// (Csvq/Gen/CmpFacts.lean, property C06):
//
//	compareInteger, compareFloat                  → Gen.compareInteger : Int → Int → Cmp, Gen.compareFloat : FVal → FVal → Cmp
//	the datetime / boolean / string rungs of CompareCombinedly → Gen.rungDatetime, Gen.rungBoolean, Gen.rungString
//	Equal … GreaterOrEqual                        → Gen.opEqual … : Cmp → Tern   (functions of CompareCombinedly's result)
//	CompareCombinedly                             → Gen.cmpLadder : the conversions tried, in order, and the NULL guard
//	Compare                                       → Gen.compareDispatch : operator text ↦ function
//	Equivalent                                    → Gen.equivalentShape
//
// Subset: if / return over ==, <, !=, &&, ||, !, math.IsNaN, time.Equal / Before, the ComparisonResult
// constants, ternary constants and ternary.ConvertFromBool.  Anything else: exit 1.
package main

import (
	"fmt"
	"go/ast"
	"go/parser"
	"go/printer"
	"go/token"
	"os"
	"path/filepath"
	"strings"
)

var fset = token.NewFileSet()

func die(format string, a ...interface{}) {
	fmt.Fprintf(os.Stderr, "cmpfacts: "+format+"\n", a...)
	os.Exit(1)
}

func src(n ast.Node) string {
	var sb strings.Builder
	_ = printer.Fprint(&sb, fset, n)
	return sb.String()
}

func repo() string {
	if r := os.Getenv("VERIF_REPO"); r != "" {
		return r
	}
	return "/repo"
}

func findFunc(f *ast.File, name string) *ast.FuncDecl {
	for _, d := range f.Decls {
		if fd, ok := d.(*ast.FuncDecl); ok && fd.Recv == nil && fd.Name.Name == name {
			return fd
		}
	}
	die("function %s not found", name)
	return nil
}

var cmpConst = map[string]string{"IsEqual": "Cmp.eq", "IsBoolEqual": "Cmp.boolEq", "IsNotEqual": "Cmp.ne",
	"IsLess": "Cmp.lt", "IsGreater": "Cmp.gt", "IsIncommensurable": "Cmp.incomm"}

// kind: "int" | "float" | "bytes" | "bool" | "cmp"
type tr struct {
	vars map[string]string // Go name → kind
	ren  map[string]string // Go name → Lean name
}

func (t *tr) atom(e ast.Expr) (string, string) {
	if id, ok := e.(*ast.Ident); ok {
		if k, ok := t.vars[id.Name]; ok {
			return t.ren[id.Name], k
		}
		if c, ok := cmpConst[id.Name]; ok {
			return c, "cmp"
		}
	}
	die("%s: `%s` is not a known operand", fset.Position(e.Pos()), src(e))
	return "", ""
}

func (t *tr) boolExpr(e ast.Expr) string {
	switch x := e.(type) {
	case *ast.ParenExpr:
		return "(" + t.boolExpr(x.X) + ")"
	case *ast.UnaryExpr:
		if x.Op == token.NOT {
			return "(!" + t.boolExpr(x.X) + ")"
		}
	case *ast.CallExpr:
		fn := src(x.Fun)
		if fn == "math.IsNaN" && len(x.Args) == 1 {
			a, k := t.atom(x.Args[0])
			if k == "float" {
				return a + ".isNaN"
			}
		}
		if s, ok := x.Fun.(*ast.SelectorExpr); ok && len(x.Args) == 1 {
			a, ka := t.atom(s.X)
			b, kb := t.atom(x.Args[0])
			if ka == "int" && kb == "int" { // time.Time values are instants (UnixNano) in the model
				switch s.Sel.Name {
				case "Equal":
					return "(" + a + " == " + b + ")"
				case "Before":
					return "decide (" + a + " < " + b + ")"
				}
			}
		}
	case *ast.BinaryExpr:
		switch x.Op {
		case token.LAND:
			return "(" + t.boolExpr(x.X) + " && " + t.boolExpr(x.Y) + ")"
		case token.LOR:
			return "(" + t.boolExpr(x.X) + " || " + t.boolExpr(x.Y) + ")"
		case token.EQL, token.NEQ, token.LSS:
			a, ka := t.atom(x.X)
			b, kb := t.atom(x.Y)
			if ka != kb {
				die("%s: comparison of different kinds", fset.Position(e.Pos()))
			}
			switch ka + x.Op.String() {
			case "int==", "bytes==", "bool==", "cmp==":
				return "(" + a + " == " + b + ")"
			case "cmp!=", "int!=", "bool!=":
				return "(" + a + " != " + b + ")"
			case "int<":
				return "decide (" + a + " < " + b + ")"
			case "float==":
				return "FVal.feq " + a + " " + b
			case "float<":
				return "FVal.flt " + a + " " + b
			case "bytes<":
				return "bytesLt " + a + " " + b
			}
		}
	}
	die("%s: boolean expression `%s` outside the translated subset", fset.Position(e.Pos()), src(e))
	return ""
}

func (t *tr) ret(e ast.Expr, tern bool) string {
	if tern {
		switch src(e) {
		case "ternary.UNKNOWN":
			return "Tern.U"
		case "ternary.TRUE":
			return "Tern.T"
		case "ternary.FALSE":
			return "Tern.F"
		}
		if c, ok := e.(*ast.CallExpr); ok && src(c.Fun) == "ternary.ConvertFromBool" {
			return "Tern.ofBool (" + t.boolExpr(c.Args[0]) + ")"
		}
		die("%s: result `%s`", fset.Position(e.Pos()), src(e))
	}
	a, k := t.atom(e)
	if k != "cmp" {
		die("%s: result `%s`", fset.Position(e.Pos()), src(e))
	}
	return a
}

// statements that return on every path: if / else-if / return
func (t *tr) stmts(list []ast.Stmt, tern bool, ind string) string {
	if len(list) == 0 {
		die("control falls off the end of a translated block")
	}
	switch x := list[0].(type) {
	case *ast.ReturnStmt:
		return t.ret(x.Results[0], tern)
	case *ast.IfStmt:
		if x.Init != nil {
			die("%s: if with init", fset.Position(x.Pos()))
		}
		var els string
		switch e := x.Else.(type) {
		case nil:
			els = t.stmts(list[1:], tern, ind+"  ")
		case *ast.BlockStmt:
			els = t.stmts(append(append([]ast.Stmt{}, e.List...), list[1:]...), tern, ind+"  ")
		case *ast.IfStmt:
			els = t.stmts(append([]ast.Stmt{e}, list[1:]...), tern, ind+"  ")
		}
		return "(if " + t.boolExpr(x.Cond) + " then " + t.stmts(append(append([]ast.Stmt{}, x.Body.List...), list[1:]...), tern, ind+"  ") + "\n" + ind + "else " + els + ")"
	}
	die("%s: statement `%s` outside the translated subset", fset.Position(list[0].Pos()), src(list[0]))
	return ""
}

func q(l []string) string {
	var o []string
	for _, s := range l {
		o = append(o, fmt.Sprintf("%q", s))
	}
	return "[" + strings.Join(o, ", ") + "]"
}

func main() {
	f, err := parser.ParseFile(fset, filepath.Join(repo(), "lib", "value", "comparison.go"), nil, 0)
	if err != nil {
		die("%v", err)
	}
	var o strings.Builder
	o.WriteString("-- GENERATED by /verif/extract/cmpfacts from lib/value/comparison.go — do not edit.\nimport Csvq.Model.Compare\n\nset_option linter.unusedVariables false\n\nnamespace Csvq.Gen\nopen Csvq\n\n")

	// the constants must still be in this order (iota): the harness reports them by number
	var consts []string
	for _, d := range f.Decls {
		gd, ok := d.(*ast.GenDecl)
		if !ok || gd.Tok != token.CONST {
			continue
		}
		for _, sp := range gd.Specs {
			for _, n := range sp.(*ast.ValueSpec).Names {
				if _, ok := cmpConst[n.Name]; ok {
					consts = append(consts, n.Name)
				}
			}
		}
	}
	if strings.Join(consts, ",") != "IsEqual,IsBoolEqual,IsNotEqual,IsLess,IsGreater,IsIncommensurable" {
		die("ComparisonResult constants changed: %v", consts)
	}

	for _, spec := range []struct{ name, kind, lean, typ string }{
		{"compareInteger", "int", "compareInteger", "Int"}, {"compareFloat", "float", "compareFloat", "FVal"}} {
		fd := findFunc(f, spec.name)
		t := &tr{vars: map[string]string{}, ren: map[string]string{}}
		var ps []string
		for _, p := range fd.Type.Params.List {
			for _, n := range p.Names {
				t.vars[n.Name] = spec.kind
				t.ren[n.Name] = n.Name
				ps = append(ps, n.Name)
			}
		}
		o.WriteString("/-- `" + spec.name + "` -/\ndef " + spec.lean + " (" + strings.Join(ps, " ") + " : " + spec.typ + ") : Cmp :=\n  " + t.stmts(fd.Body.List, false, "  ") + "\n\n")
	}

	// ---- CompareCombinedly ----
	{
		fd := findFunc(f, "CompareCombinedly")
		body := fd.Body.List
		first, ok := body[0].(*ast.IfStmt)
		if !ok || src(first.Cond) != "IsNull(p1) || IsNull(p2)" || src(first.Body.List[0]) != "return IsIncommensurable" {
			die("CompareCombinedly: the NULL guard is no longer the first statement")
		}
		if src(body[len(body)-1]) != "return IsIncommensurable" {
			die("CompareCombinedly: no longer ends with `return IsIncommensurable`")
		}
		var ladder []string
		for _, s := range body[1 : len(body)-1] {
			is, ok := s.(*ast.IfStmt)
			if !ok || is.Init == nil || is.Else != nil {
				die("%s: CompareCombinedly: rung form", fset.Position(s.Pos()))
			}
			as := is.Init.(*ast.AssignStmt)
			var conv string
			switch r := as.Rhs[0].(type) {
			case *ast.CallExpr:
				conv = src(r.Fun)
				if src(r.Args[0]) != "p1" || src(is.Cond) != "!IsNull("+src(as.Lhs[0])+")" {
					die("%s: CompareCombinedly: rung test", fset.Position(s.Pos()))
				}
			case *ast.TypeAssertExpr:
				conv = "is" + strings.TrimPrefix(src(r.Type), "*")
				if src(r.X) != "p1" || src(is.Cond) != "ok" {
					die("%s: CompareCombinedly: rung test", fset.Position(s.Pos()))
				}
			}
			// inner: the same conversion of p2
			var inner *ast.IfStmt
			for _, st := range is.Body.List {
				if x, ok := st.(*ast.IfStmt); ok {
					if inner != nil {
						die("%s: CompareCombinedly: two inner tests", fset.Position(st.Pos()))
					}
					inner = x
				} else if es, ok := st.(*ast.ExprStmt); !ok || !strings.HasPrefix(src(es.X), "Discard(") {
					die("%s: CompareCombinedly: statement `%s` in a rung", fset.Position(st.Pos()), src(st))
				}
			}
			if inner == nil || inner.Init == nil {
				die("%s: CompareCombinedly: inner test missing", fset.Position(s.Pos()))
			}
			ias := inner.Init.(*ast.AssignStmt)
			switch r := ias.Rhs[0].(type) {
			case *ast.CallExpr:
				if src(r.Fun) != conv || src(r.Args[0]) != "p2" {
					die("%s: CompareCombinedly: p2 is converted differently from p1", fset.Position(inner.Pos()))
				}
			case *ast.TypeAssertExpr:
				if "is"+strings.TrimPrefix(src(r.Type), "*") != conv || src(r.X) != "p2" {
					die("%s: CompareCombinedly: p2 is tested differently from p1", fset.Position(inner.Pos()))
				}
			}
			ladder = append(ladder, conv)

			// the result of the rung
			var lets []ast.Stmt
			var rest []ast.Stmt
			for _, st := range inner.Body.List {
				switch x := st.(type) {
				case *ast.AssignStmt:
					lets = append(lets, x)
				case *ast.ExprStmt:
					if !strings.HasPrefix(src(x.X), "Discard(") {
						die("%s: statement `%s`", fset.Position(st.Pos()), src(st))
					}
				default:
					rest = append(rest, st)
				}
			}
			switch conv {
			case "ToIntegerStrictly", "ToFloat":
				want := map[string]string{"ToIntegerStrictly": "return compareInteger(v1, v2)", "ToFloat": "return compareFloat(v1, v2)"}[conv]
				if len(rest) != 1 || src(rest[0]) != want {
					die("%s: the %s rung no longer ends in `%s`", fset.Position(inner.Pos()), conv, want)
				}
				raw := map[string]string{"ToIntegerStrictly": ".(*Integer).Raw()", "ToFloat": ".(*Float).Raw()"}[conv]
				if len(lets) != 2 || src(lets[0]) != "v1 := "+src(as.Lhs[0])+raw || src(lets[1]) != "v2 := "+src(ias.Lhs[0])+raw {
					die("%s: the %s rung no longer compares the two raw values", fset.Position(inner.Pos()), conv)
				}
			case "ToDatetime":
				if len(lets) != 2 || src(lets[0]) != "v1 := "+src(as.Lhs[0])+".(*Datetime).Raw()" || src(lets[1]) != "v2 := "+src(ias.Lhs[0])+".(*Datetime).Raw()" {
					die("%s: the datetime rung no longer compares the two raw values", fset.Position(inner.Pos()))
				}
				t := &tr{vars: map[string]string{"v1": "int", "v2": "int"}, ren: map[string]string{"v1": "v1", "v2": "v2"}}
				o.WriteString("/-- the datetime rung of `CompareCombinedly` (instants as UnixNano) -/\ndef rungDatetime (v1 v2 : Int) : Cmp :=\n  " + t.stmts(rest, false, "  ") + "\n\n")
			case "ToBoolean":
				b1, b2 := src(as.Lhs[0])+".(*Boolean).Raw()", src(ias.Lhs[0])+".(*Boolean).Raw()"
				t := &tr{vars: map[string]string{}, ren: map[string]string{}}
				// rewrite the two raw reads into variables
				text := src(&ast.BlockStmt{List: rest})
				text = strings.ReplaceAll(strings.ReplaceAll(text, b1, "v1"), b2, "v2")
				ff, err := parser.ParseFile(token.NewFileSet(), "", "package p\nfunc f() "+text, 0)
				if err != nil {
					die("boolean rung: %v", err)
				}
				t.vars["v1"], t.vars["v2"], t.ren["v1"], t.ren["v2"] = "bool", "bool", "v1", "v2"
				o.WriteString("/-- the boolean rung of `CompareCombinedly` -/\ndef rungBoolean (v1 v2 : Bool) : Cmp :=\n  " + t.stmts(ff.Decls[0].(*ast.FuncDecl).Body.List, false, "  ") + "\n\n")
			case "isString":
				norm := "strings.ToUpper(option.TrimSpace(%s.Raw()))"
				if len(lets) != 2 || src(lets[0]) != "v1 := "+fmt.Sprintf(norm, src(as.Lhs[0])) || src(lets[1]) != "v2 := "+fmt.Sprintf(norm, src(ias.Lhs[0])) {
					die("%s: the string rung no longer compares the upper-cased trimmed texts", fset.Position(inner.Pos()))
				}
				t := &tr{vars: map[string]string{"v1": "bytes", "v2": "bytes"}, ren: map[string]string{"v1": "v1", "v2": "v2"}}
				o.WriteString("/-- the string rung of `CompareCombinedly` (operands: upper-cased trimmed texts) -/\ndef rungString (v1 v2 : Bytes) : Cmp :=\n  " + t.stmts(rest, false, "  ") + "\n\n")
			default:
				die("CompareCombinedly: unknown rung %s", conv)
			}
		}
		o.WriteString("/-- `CompareCombinedly`: NULL guard first, then these conversions (of BOTH operands) in order, else incommensurable -/\ndef cmpLadder : List String :=\n  " + q(ladder) + "\n\n")
	}

	// ---- the six operators ----
	for _, name := range []string{"Equal", "NotEqual", "Less", "Greater", "LessOrEqual", "GreaterOrEqual"} {
		fd := findFunc(f, name)
		if len(fd.Body.List) != 2 || src(fd.Body.List[1]) != "return ternary.UNKNOWN" {
			die("%s: body is no longer `if r := CompareCombinedly(…); … { return … }; return ternary.UNKNOWN`", name)
		}
		is, ok := fd.Body.List[0].(*ast.IfStmt)
		if !ok || is.Init == nil || is.Else != nil || src(is.Init) != "r := CompareCombinedly(p1, p2, datetimeFormats, location)" {
			die("%s: body is no longer `if r := CompareCombinedly(p1, p2, …); …`", name)
		}
		t := &tr{vars: map[string]string{"r": "cmp"}, ren: map[string]string{"r": "r"}}
		o.WriteString("/-- `" + name + "` as a function of `CompareCombinedly`'s result -/\ndef op" + name + " (r : Cmp) : Tern :=\n  if " + t.boolExpr(is.Cond) + " then " + t.stmts(is.Body.List, true, "  ") + " else Tern.U\n\n")
	}

	// ---- Compare: dispatch ----
	{
		fd := findFunc(f, "Compare")
		sw, ok := fd.Body.List[0].(*ast.SwitchStmt)
		if !ok || src(sw.Tag) != "operator" || len(fd.Body.List) != 1 {
			die("Compare: body is no longer one switch over the operator")
		}
		var pairs []string
		for _, c := range sw.Body.List {
			cc := c.(*ast.CaseClause)
			if len(cc.Body) != 1 {
				die("Compare: case body")
			}
			call := cc.Body[0].(*ast.ReturnStmt).Results[0].(*ast.CallExpr)
			if src(call.Args[0]) != "p1" || src(call.Args[1]) != "p2" {
				die("Compare: operands swapped or changed in `%s`", src(call))
			}
			key := "default"
			if len(cc.List) > 0 {
				var ks []string
				for _, e := range cc.List {
					ks = append(ks, strings.Trim(src(e), "\""))
				}
				key = strings.Join(ks, " ")
			}
			pairs = append(pairs, fmt.Sprintf("(%q, %q)", key, src(call.Fun)))
		}
		o.WriteString("/-- `Compare`: operator ↦ function (operands always in the order p1, p2) -/\ndef compareDispatch : List (String × String) :=\n  [" + strings.Join(pairs, ", ") + "]\n\n")
	}

	// ---- Equivalent ----
	{
		fd := findFunc(f, "Equivalent")
		var toks []string
		for _, s := range fd.Body.List {
			toks = append(toks, strings.Join(strings.Fields(src(s)), " "))
		}
		o.WriteString("/-- `Equivalent`, statement by statement -/\ndef equivalentShape : List String :=\n  " + q(toks) + "\n\n")
	}

	// ---- Identical: the order of the type tests ----
	{
		fd := findFunc(f, "Identical")
		var order, types []string
		for _, s := range fd.Body.List {
			is, ok := s.(*ast.IfStmt)
			if !ok || is.Init == nil {
				continue
			}
			as, ok := is.Init.(*ast.AssignStmt)
			if !ok {
				continue
			}
			if ta, ok := as.Rhs[0].(*ast.TypeAssertExpr); ok && src(ta.X) == "p1" && src(is.Cond) == "ok" {
				// the inner test and result
				inner := is.Body.List[0].(*ast.IfStmt)
				types = append(types, strings.TrimPrefix(src(ta.Type), "*"))
				order = append(order, strings.TrimPrefix(src(ta.Type), "*")+": "+strings.Join(strings.Fields(src(inner.Body.List[0])), " "))
			}
		}
		o.WriteString("/-- `Identical`: the same-type tests in order with their results -/\ndef identicalLadder : List String :=\n  " + q(order) + "\n\n")
		o.WriteString("def identicalOrder : List String :=\n  " + q(types) + "\n\n")
	}
	genArithmetic(&o)
	o.WriteString("end Csvq.Gen\n")
	fmt.Print(o.String())
}

// ---- lib/query/arithmetic.go: calculateInteger, calculateFloat, the ladder of Calculate ----
//
// int64 arithmetic wraps: every integer result is passed through `wrap64`; `/` and `%` on integers are
// Int.tdiv / Int.tmod; the float operations are the parameters `fo.add …` of the model (IEEE-754 hardware),
// math.Mod is `fo.mod`.
func genArithmetic(o *strings.Builder) {
	f, err := parser.ParseFile(fset, filepath.Join(repo(), "lib", "query", "arithmetic.go"), nil, 0)
	if err != nil {
		die("%v", err)
	}
	charCode := func(e ast.Expr) string {
		bl, ok := e.(*ast.BasicLit)
		if !ok || bl.Kind != token.CHAR || len(bl.Value) != 3 {
			die("%s: operator case `%s` is not a character literal", fset.Position(e.Pos()), src(e))
		}
		return fmt.Sprint(int(bl.Value[1]))
	}
	arith := func(e ast.Expr, a, b string, float bool) string {
		if c, ok := e.(*ast.CallExpr); ok && float && src(c.Fun) == "math.Mod" && len(c.Args) == 2 && src(c.Args[0]) == a && src(c.Args[1]) == b {
			return "fo.mod " + a + " " + b
		}
		be, ok := e.(*ast.BinaryExpr)
		if !ok || src(be.X) != a || src(be.Y) != b {
			die("%s: `%s` is not an operation on the two operands in order", fset.Position(e.Pos()), src(e))
		}
		if float {
			switch be.Op {
			case token.ADD:
				return "fo.add " + a + " " + b
			case token.SUB:
				return "fo.sub " + a + " " + b
			case token.MUL:
				return "fo.mul " + a + " " + b
			case token.QUO:
				return "fo.div " + a + " " + b
			}
		} else {
			switch be.Op {
			case token.ADD:
				return "wrap64 (" + a + " + " + b + ")"
			case token.SUB:
				return "wrap64 (" + a + " - " + b + ")"
			case token.MUL:
				return "wrap64 (" + a + " * " + b + ")"
			case token.QUO:
				return "wrap64 (Int.tdiv " + a + " " + b + ")"
			case token.REM:
				return "wrap64 (Int.tmod " + a + " " + b + ")"
			}
		}
		die("%s: operator %s", fset.Position(e.Pos()), be.Op)
		return ""
	}
	for _, float := range []bool{false, true} {
		name, a, b := "calculateInteger", "i1", "i2"
		if float {
			name, a, b = "calculateFloat", "f1", "f2"
		}
		fd := findFunc(f, name)
		// `var result … = 0` / `result := 0.0`; switch operator { … }; return value.NewX(result)[, nil]
		if len(fd.Body.List) != 3 {
			die("%s: body is no longer `result := 0; switch operator {…}; return`", name)
		}
		sw, ok := fd.Body.List[1].(*ast.SwitchStmt)
		if !ok || src(sw.Tag) != "operator" {
			die("%s: no switch over the operator", name)
		}
		ret := src(fd.Body.List[2])
		if (!float && ret != "return value.NewInteger(result), nil") || (float && ret != "return value.NewFloat(result)") {
			die("%s: final `%s`", name, ret)
		}
		zero := "some 0"
		if float {
			zero = "FVal.fin 0"
		}
		out := zero
		// build the if-chain from the last case backwards
		for i := len(sw.Body.List) - 1; i >= 0; i-- {
			cc := sw.Body.List[i].(*ast.CaseClause)
			if len(cc.List) != 1 {
				die("%s: case list", name)
			}
			code := charCode(cc.List[0])
			body := cc.Body
			guard := ""
			if len(body) == 2 {
				is, ok := body[0].(*ast.IfStmt)
				if !ok || float || src(is.Cond) != b+" == 0" || len(is.Body.List) != 1 || src(is.Body.List[0]) != "return nil, errIntegerDevidedByZero" {
					die("%s: guard of case %s not recognised", name, src(cc.List[0]))
				}
				guard = "if " + b + " = 0 then none else "
				body = body[1:]
			}
			as, ok := body[0].(*ast.AssignStmt)
			if len(body) != 1 || !ok || src(as.Lhs[0]) != "result" {
				die("%s: body of case %s", name, src(cc.List[0]))
			}
			val := arith(as.Rhs[0], a, b, float)
			if !float {
				val = guard + "some (" + val + ")"
			}
			out = "if operator = " + code + " then " + val + "\n  else " + out
		}
		if float {
			o.WriteString("/-- `calculateFloat` (operator = the character code; fo = the float operations of the hardware) -/\ndef calculateFloat (fo : FloatOps) (f1 f2 : FVal) (operator : Nat) : FVal :=\n  " + out + "\n\n")
		} else {
			o.WriteString("/-- `calculateInteger` (operator = the character code); `none` = integer divided by zero -/\ndef calculateInteger (i1 i2 : Int) (operator : Nat) : Option Int :=\n  " + out + "\n\n")
		}
	}
	// Calculate: the ladder
	{
		fd := findFunc(f, "Calculate")
		var ladder []string
		for _, s := range fd.Body.List {
			switch x := s.(type) {
			case *ast.IfStmt:
				as := x.Init.(*ast.AssignStmt)
				conv := src(as.Rhs[0].(*ast.CallExpr).Fun)
				if src(as.Rhs[0].(*ast.CallExpr).Args[0]) != "p1" {
					die("Calculate: first operand")
				}
				inner, ok := x.Body.List[0].(*ast.IfStmt)
				if !ok || src(inner.Init.(*ast.AssignStmt).Rhs[0].(*ast.CallExpr).Fun) != conv || src(inner.Init.(*ast.AssignStmt).Rhs[0].(*ast.CallExpr).Args[0]) != "p2" {
					die("Calculate: the second operand is converted differently from the first")
				}
				var call string
				for _, st := range inner.Body.List {
					if r, ok := st.(*ast.ReturnStmt); ok {
						c := r.Results[0].(*ast.CallExpr)
						call = src(c.Fun) + "(" + src(c.Args[0]) + "," + src(c.Args[1]) + "," + src(c.Args[2]) + ")"
					}
				}
				// the raw values handed over are those of the two conversions, in order
				raw := map[string]string{"value.ToIntegerStrictly": ".(*value.Integer).Raw()", "value.ToFloat": ".(*value.Float).Raw()"}[conv]
				if src(inner.Body.List[0]) != "val1 := "+src(as.Lhs[0])+raw || src(inner.Body.List[1]) != "val2 := "+src(inner.Init.(*ast.AssignStmt).Lhs[0])+raw {
					die("Calculate: the %s rung no longer hands over the two raw values in order", conv)
				}
				ladder = append(ladder, conv+" -> "+call)
			case *ast.ReturnStmt:
				ladder = append(ladder, "else -> "+src(x.Results[0]))
			default:
				die("Calculate: statement `%s`", src(s))
			}
		}
		o.WriteString("/-- `Calculate`: the conversions tried (for BOTH operands) and what computes the result -/\ndef calcLadder : List String :=\n  " + q(ladder) + "\n\n")
	}
}
