// fsproto: reads lib/file/{control_file,handler}.go and lib/query/transaction.go of csvq and prints
// Csvq/Gen/FsProto.lean — the ordered file-system effects of the lock protocol, of Handler.commit /
// close / closeWithErrors and of Transaction.Commit, plus the protocol flags of Model/Lock.lean.
// Stdlib only.  Fails loudly (exit 1) on anything it does not recognise.
package main

import (
	"fmt"
	"go/ast"
	"go/parser"
	"go/printer"
	"go/token"
	"os"
	"path/filepath"
	"strings"
)

var fset = token.NewFileSet()

func die(format string, a ...interface{}) {
	fmt.Fprintf(os.Stderr, "fsproto: "+format+"\n", a...)
	os.Exit(1)
}

func src(n ast.Node) string {
	var sb strings.Builder
	_ = printer.Fprint(&sb, fset, n)
	return sb.String()
}

func parse(path string) *ast.File {
	f, err := parser.ParseFile(fset, path, nil, 0)
	if err != nil {
		die("%v", err)
	}
	return f
}

func findFunc(f *ast.File, recv, name string) *ast.FuncDecl {
	for _, d := range f.Decls {
		fd, ok := d.(*ast.FuncDecl)
		if !ok || fd.Name.Name != name {
			continue
		}
		r := ""
		if fd.Recv != nil && len(fd.Recv.List) == 1 {
			r = strings.TrimPrefix(src(fd.Recv.List[0].Type), "*")
		}
		if r == recv {
			return fd
		}
	}
	die("function %s.%s not found", recv, name)
	return nil
}

// effect maps a call expression to a file-system effect name, or "" if it is not one.
func effect(c *ast.CallExpr) string {
	fn := src(c.Fun)
	args := make([]string, len(c.Args))
	for i, a := range c.Args {
		args[i] = src(a)
	}
	a := strings.Join(args, ",")
	// lib/file/container.go and the release of a handler that was never registered
	switch fn {
	case "closeIsolatedHandler":
		return "release_isolated"
	case "c.m[key].close":
		return "h.close"
	case "c.m[key].commit":
		return "h.commit"
	case "c.m[key].closeWithErrors":
		return "h.closeWithErrors"
	case "c.Remove":
		return "container_remove"
	case "c.Add":
		return "container_add"
	case "fn":
		return "new_handler"
	case "c.Close":
		return "container_close(" + a + ")"
	case "c.CloseWithErrors":
		return "container_close_we(" + a + ")"
	case "delete":
		return "container_delete"
	case "c.createHandler":
		return "create_handler(" + args[len(args)-1] + ")"
	}
	switch fn {
	case "file.Close":
		return "close(" + a + ")"
	case "os.Remove":
		return "remove(" + a + ")"
	case "os.Rename":
		return "rename(" + a + ")"
	case "file.Create":
		return "create_excl(" + a + ")"
	case "os.Create", "os.OpenFile":
		return "create_nonexcl(" + a + ")"
	case "file.OpenToReadContext":
		return "open_shared(" + args[len(args)-1] + ")"
	case "file.OpenToUpdateContext":
		return "open_exclusive(" + args[len(args)-1] + ")"
	case "Exists", "LockExists", "RLockExists":
		return strings.ToLower(fn[:1]) + fn[1:] + "(" + a + ")"
	case "EncodeView":
		return "encode"
	case "fp.Truncate":
		return "truncate"
	case "fp.Write":
		return "write"
	case "fp.Seek":
		return "seek"
	}
	if strings.HasSuffix(fn, ".Close") || strings.HasSuffix(fn, ".CloseWithErrors") {
		return "cf_close(" + strings.TrimSuffix(strings.TrimSuffix(fn, ".CloseWithErrors"), ".Close") + ")"
	}
	if strings.HasSuffix(fn, ".CreateControlFileContext") && len(args) >= 2 {
		return "control_file(" + args[1] + ")"
	}
	if fn == "TryCreateLockFile" {
		return "control_file(Lock)"
	}
	if strings.HasSuffix(fn, "FileContainer.Commit") {
		return "handler_commit"
	}
	if strings.HasSuffix(fn, ".FileForUpdate") {
		return ""
	}
	// calls without an effect on the files of a table (reviewed); ANY OTHER call becomes a token of its own, so a
	// new helper that touches files (an in-place overwrite, a backup link, …) changes the regenerated list
	if harmless[fn] || strings.HasPrefix(fn, "New") && strings.HasSuffix(fn, "Error") {
		return ""
	}
	return "call(" + fn + ")"
}

var harmless = map[string]bool{
	"VerifPoint": true, "file.VerifPoint": true, "fmt.Sprintf": true, "err.Error": true,
	"append": true, "len": true, "make": true, "EncodeEndingLineBreak": true, "[]byte": true, "NewControlFile": true, "tx.LogNotice": true,
	"tx.UncommittedViews.Unset": true, "tx.CachedViews.Get": true, "fileInfo.LineBreak.Value": true,
	"fileInfo.IdentifiedPath": true, "fileInfo.ExportOptions": true, "ctx.Err": true, "cancel": true,
	"LockFilePath": true, "RLockFilePath": true, "TempFilePath": true, "GetTimeoutContext": true,
	"tx.quietForTemporaryViews": true, "tx.operationMutex.Unlock": true, "tx.operationMutex.Lock": true,
	"tx.UnlockStdin": true, "tx.UncommittedViews.UncommittedTempViews": true, "tx.UncommittedViews.UncommittedFiles": true,
	"tx.UncommittedViews.Clean": true, "tx.ReleaseResources": true, "strings.Join": true, "scope.StoreTemporaryTable": true,
	"filepath.Ext": true, "ConvertContextError": true, "NewCompositeError": true,
	"strings.ToUpper": true, "h.Path": true, "errors.New": true, "NewForcedUnlockError": true,
}

// walk lists the effects of a statement list in source order; an `if` becomes if[cond]{…}else{…} markers,
// `defer` effects are appended at the end of the function (they run last), loops are marked.
type walker struct {
	out      []string
	deferred []string
}

func (w *walker) exprEffects(n ast.Node) {
	if n == nil {
		return
	}
	ast.Inspect(n, func(x ast.Node) bool {
		switch v := x.(type) {
		case *ast.FuncLit:
			return false
		case *ast.CallExpr:
			// arguments first (evaluation order), then the call itself
			for _, a := range v.Args {
				w.exprEffects(a)
			}
			w.exprEffects(v.Fun)
			if e := effect(v); e != "" {
				w.out = append(w.out, e)
			}
			return false
		}
		return true
	})
}

func (w *walker) stmts(list []ast.Stmt) {
	for _, s := range list {
		w.stmt(s)
	}
}

func (w *walker) stmt(s ast.Stmt) {
	switch v := s.(type) {
	case *ast.IfStmt:
		if v.Init != nil {
			w.stmt(v.Init)
		}
		n0 := len(w.out)
		w.exprEffects(v.Cond)
		cond := src(v.Cond)
		// keep only conditions that matter to the protocol; error checks are elided
		keep := strings.Contains(cond, "openType") || strings.Contains(cond, "Exists") || strings.Contains(cond, "closed")
		inner := &walker{}
		inner.stmts(v.Body.List)
		var els *walker
		if v.Else != nil {
			els = &walker{}
			switch e := v.Else.(type) {
			case *ast.BlockStmt:
				els.stmts(e.List)
			default:
				els.stmt(e)
			}
		}
		if len(inner.out) == 0 && (els == nil || len(els.out) == 0) && len(inner.deferred) == 0 {
			if !keep {
				return
			}
			if len(w.out) == n0 {
				return
			}
			return
		}
		if keep {
			w.out = append(w.out, "if["+cond+"]{")
		} else {
			w.out = append(w.out, "if{")
		}
		w.out = append(w.out, inner.out...)
		w.deferred = append(w.deferred, inner.deferred...)
		if els != nil && len(els.out) > 0 {
			w.out = append(w.out, "}else{")
			w.out = append(w.out, els.out...)
			w.deferred = append(w.deferred, els.deferred...)
		}
		w.out = append(w.out, "}")
	case *ast.ForStmt:
		inner := &walker{}
		inner.stmts(v.Body.List)
		if len(inner.out) > 0 {
			w.out = append(w.out, "loop{")
			w.out = append(w.out, inner.out...)
			w.out = append(w.out, "}")
		}
	case *ast.RangeStmt:
		inner := &walker{}
		inner.stmts(v.Body.List)
		if len(inner.out) > 0 {
			w.out = append(w.out, "loop{")
			w.out = append(w.out, inner.out...)
			w.out = append(w.out, "}")
		}
	case *ast.DeferStmt:
		d := &walker{}
		if fl, ok := v.Call.Fun.(*ast.FuncLit); ok {
			d.stmts(fl.Body.List)
		} else {
			d.exprEffects(v.Call)
		}
		w.deferred = append(d.out, w.deferred...)
	case *ast.BlockStmt:
		w.stmts(v.List)
	case *ast.SwitchStmt:
		w.out = append(w.out, "switch["+src(v.Tag)+"]{")
		for _, c := range v.Body.List {
			cc := c.(*ast.CaseClause)
			labels := make([]string, len(cc.List))
			for i, l := range cc.List {
				labels[i] = src(l)
			}
			inner := &walker{}
			inner.stmts(cc.Body)
			w.out = append(w.out, "case["+strings.Join(labels, ",")+"]:")
			w.out = append(w.out, inner.out...)
		}
		w.out = append(w.out, "}")
	case *ast.ReturnStmt:
		for _, r := range v.Results {
			w.exprEffects(r)
		}
		w.out = append(w.out, "return")
	case *ast.AssignStmt:
		w.exprEffects(s)
		for _, l := range v.Lhs {
			if src(l) == "c.m[key]" {
				w.out = append(w.out, "container_store")
			}
		}
	default:
		w.exprEffects(s)
	}
}

func effectsOf(fd *ast.FuncDecl) []string {
	w := &walker{}
	w.stmts(fd.Body.List)
	out := append([]string{}, w.out...)
	if len(w.deferred) > 0 {
		out = append(out, "deferred:")
		out = append(out, w.deferred...)
	}
	// drop a trailing bare "return"
	for len(out) > 0 && out[len(out)-1] == "return" {
		out = out[:len(out)-1]
	}
	return out
}

func leanList(xs []string) string {
	q := make([]string, len(xs))
	for i, x := range xs {
		q[i] = fmt.Sprintf("%q", x)
	}
	return "[" + strings.Join(q, ", ") + "]"
}

func indexOf(xs []string, pred func(string) bool, from int) int {
	for i := from; i < len(xs); i++ {
		if pred(xs[i]) {
			return i
		}
	}
	return -1
}

func has(prefix string) func(string) bool {
	return func(s string) bool { return strings.HasPrefix(s, prefix) }
}

func boolLit(b bool) string {
	if b {
		return "true"
	}
	return "false"
}

// branch returns the effects of one arm of the first `if[...openType == ForUpdate]{ … }else{ … }` block,
// surrounded by what precedes and follows it.
func splitOnOpenType(xs []string) (update, other []string) {
	start := indexOf(xs, func(s string) bool { return strings.HasPrefix(s, "if[") && strings.Contains(s, "openType == ForUpdate") }, 0)
	if start < 0 {
		die("no `if h.openType == ForUpdate` in Handler.commit")
	}
	depth, els, end := 0, -1, -1
	for i := start; i < len(xs); i++ {
		s := xs[i]
		if strings.HasSuffix(s, "{") && s != "}else{" {
			depth++
		}
		if s == "}else{" && depth == 1 {
			els = i
		}
		if s == "}" {
			depth--
			if depth == 0 {
				end = i
				break
			}
		}
	}
	if end < 0 {
		die("unbalanced block in Handler.commit")
	}
	pre, post := xs[:start], xs[end+1:]
	var thenArm, elseArm []string
	if els >= 0 {
		thenArm, elseArm = xs[start+1:els], xs[els+1:end]
	} else {
		thenArm = xs[start+1 : end]
	}
	update = append(append(append([]string{}, pre...), thenArm...), post...)
	other = append(append(append([]string{}, pre...), elseArm...), post...)
	return
}

// flat keeps only real effects (drops block markers, guards, returns)
func flat(xs []string) []string {
	out := []string{}
	for _, s := range xs {
		if strings.HasSuffix(s, "{") || s == "}" || s == "}else{" || s == "return" || s == "deferred:" || strings.HasPrefix(s, "case[") {
			continue
		}
		if strings.HasPrefix(s, "exists(") || strings.HasPrefix(s, "lockExists(") || strings.HasPrefix(s, "rLockExists(") {
			continue
		}
		out = append(out, s)
	}
	return out
}

func main() {
	if len(os.Args) > 1 && os.Args[1] == "-paths" {
		pathsMain() // paths.go: Handler.commit / close, ControlFile.Close as trees with their control flow → Gen/CommitPaths.lean
		return
	}
	if len(os.Args) > 1 && os.Args[1] == "-retry" {
		retryMain() // retry.go: the waiting side (typed IRs of Model/Retry.lean) → Gen/RetryLoop.lean
		return
	}
	repo := os.Getenv("VERIF_REPO")
	if repo == "" {
		repo = "/repo"
	}
	cf := parse(filepath.Join(repo, "lib/file/control_file.go"))
	hd := parse(filepath.Join(repo, "lib/file/handler.go"))
	tx := parse(filepath.Join(repo, "lib/query/transaction.go"))

	lockFn := effectsOf(findFunc(cf, "", "TryCreateLockFile"))
	rlockFn := effectsOf(findFunc(cf, "", "TryCreateRLockFile"))
	tempFn := effectsOf(findFunc(cf, "", "TryCreateTempFile"))
	cfClose := effectsOf(findFunc(cf, "ControlFile", "Close"))
	forRead := effectsOf(findFunc(hd, "", "NewHandlerForRead"))
	forUpdate := effectsOf(findFunc(hd, "", "NewHandlerForUpdate"))
	forCreate := effectsOf(findFunc(hd, "", "NewHandlerForCreate"))
	commit := effectsOf(findFunc(hd, "Handler", "commit"))
	closeFn := effectsOf(findFunc(hd, "Handler", "close"))
	closeErr := effectsOf(findFunc(hd, "Handler", "closeWithErrors"))
	txCommit := effectsOf(findFunc(tx, "Transaction", "Commit"))
	ct := parse(filepath.Join(repo, "lib/file/container.go"))
	type named struct {
		name, doc string
		fx        []string
	}
	var container []named
	for _, n := range []string{"createHandler", "Close", "Commit", "CloseWithErrors", "CloseAll", "CloseAllWithErrors", "CreateHandlerForRead", "CreateHandlerForUpdate", "CreateHandlerForCreate", "CreateHandlerWithoutLock", "Add", "Remove"} {
		container = append(container, named{"fxContainer" + strings.ToUpper(n[:1]) + n[1:], "effects of Container." + n, effectsOf(findFunc(ct, "Container", n))})
	}

	// ---- protocol flags (Model/Lock.lean) ----
	createIdx := indexOf(lockFn, func(s string) bool { return strings.HasPrefix(s, "create_") }, 0)
	if createIdx < 0 {
		die("TryCreateLockFile creates no file")
	}
	lockExclusive := strings.HasPrefix(lockFn[createIdx], "create_excl(")
	firstCheck := indexOf(lockFn[:createIdx], has("lockExists("), 0) >= 0 && indexOf(lockFn[:createIdx], has("rLockExists("), 0) >= 0
	// the re-check must look for rlock files after the create and release the lock (cf_close) when it finds one
	re := indexOf(lockFn, has("rLockExists("), createIdx+1)
	writerRechecks := re >= 0 && indexOf(lockFn, has("cf_close("), re+1) >= 0

	c1 := indexOf(rlockFn, func(s string) bool { return strings.HasPrefix(s, "create_") }, 0)
	c2 := -1
	if c1 >= 0 {
		c2 = indexOf(rlockFn, func(s string) bool { return strings.HasPrefix(s, "create_") }, c1+1)
	}
	readerTakesLock := c1 >= 0 && c2 >= 0 && strings.Contains(rlockFn[c1], "lockFilePath") && strings.HasPrefix(rlockFn[c1], "create_excl(") && strings.Contains(rlockFn[c2], "rlockFilePath")
	if c1 < 0 {
		die("TryCreateRLockFile creates no file")
	}
	readerReleases := false
	if d := indexOf(rlockFn, func(s string) bool { return s == "deferred:" }, 0); d >= 0 {
		readerReleases = indexOf(rlockFn, has("cf_close(lockFile"), d) >= 0
	}
	readerChecks := indexOf(rlockFn[:c1], has("lockExists("), 0) >= 0
	_ = readerChecks

	upd, oth := splitOnOpenType(commit)

	fmt.Println("-- GENERATED by /verif/extract/fsproto from lib/file/control_file.go, lib/file/handler.go,")
	fmt.Println("-- lib/query/transaction.go — do not edit.")
	fmt.Println("import Csvq.Model.Lock")
	fmt.Println("namespace Csvq.Gen")
	fmt.Println()
	fmt.Println("/-- protocol flags read off TryCreateLockFile / TryCreateRLockFile -/")
	fmt.Printf("def lockFlags : Csvq.Lock.Flags :=\n  { lockExclusive := %s, writerRechecks := %s, writerChecksFirst := %s,\n    readerTakesLock := %s, readerReleasesLock := %s }\n\n",
		boolLit(lockExclusive), boolLit(writerRechecks), boolLit(firstCheck), boolLit(readerTakesLock), boolLit(readerReleases))
	emit := func(name, doc string, xs []string) {
		fmt.Printf("/-- %s -/\ndef %s : List String :=\n  %s\n\n", doc, name, leanList(xs))
	}
	emit("fxTryCreateLockFile", "effects of TryCreateLockFile in source order", lockFn)
	emit("fxTryCreateRLockFile", "effects of TryCreateRLockFile in source order", rlockFn)
	emit("fxTryCreateTempFile", "effects of TryCreateTempFile", tempFn)
	emit("fxControlFileClose", "effects of ControlFile.Close", cfClose)
	emit("fxNewHandlerForRead", "effects of NewHandlerForRead", forRead)
	emit("fxNewHandlerForUpdate", "effects of NewHandlerForUpdate", forUpdate)
	emit("fxNewHandlerForCreate", "effects of NewHandlerForCreate", forCreate)
	emit("fxHandlerCommit", "effects of Handler.commit (structured)", commit)
	emit("fxHandlerClose", "effects of Handler.close (structured)", closeFn)
	emit("fxHandlerCloseWithErrors", "effects of Handler.closeWithErrors (structured)", closeErr)
	emit("fxTransactionCommit", "effects of Transaction.Commit (structured)", txCommit)
	for _, c := range container {
		emit(c.name, c.doc, c.fx)
	}
	emit("commitUpdateOps", "Handler.commit for a handler opened for update: the file-system operations in order", flat(upd))
	emit("commitOtherOps", "Handler.commit for other handlers (created files, read handlers)", flat(oth))
	emit("closeOps", "Handler.close: the file-system operations in order", flat(closeFn))
	emit("closeWithErrorsOps", "Handler.closeWithErrors: the file-system operations in order", flat(closeErr))
	fmt.Println("end Csvq.Gen")
}
