// fsproto -retry: translates the WAITING side of the lock protocol into the typed IRs of
// Csvq/Model/Retry.lean and prints Csvq/Gen/RetryLoop.lean:
//
//	TryCreateLockFile / TryCreateRLockFile / TryCreateTempFile   → List TStmt
//	tryCreateControlFile (the dispatch on the file type)         → tryOf
//	CreateControlFileContext (the retry loop)                    → Loop (statements IN SOURCE ORDER)
//	Handler.CreateControlFileContext (records the control file)  → List HStmt
//	NewHandlerForRead / NewHandlerForUpdate                      → List NStmt
//
// go/ast only; every statement that is not one of the recognised shapes ends the run with exit 1.
package main

import (
	"fmt"
	"go/ast"
	"go/token"
	"os"
	"path/filepath"
	"strings"
)

func isIdent(e ast.Expr, name string) bool {
	id, ok := e.(*ast.Ident)
	return ok && id.Name == name
}

func callName(e ast.Expr) (string, *ast.CallExpr) {
	c, ok := e.(*ast.CallExpr)
	if !ok {
		return "", nil
	}
	return src(c.Fun), c
}

func isVerifPoint(s ast.Stmt) bool {
	es, ok := s.(*ast.ExprStmt)
	if !ok {
		return false
	}
	n, _ := callName(es.X)
	return n == "VerifPoint"
}

var cfOfPathFn = map[string]string{"LockFilePath": ".lock", "RLockFilePath": ".rlock", "TempFilePath": ".temp"}
var cfOfType = map[string]string{"Lock": ".lock", "RLock": ".rlock", "Temporary": ".temp"}
var cfOfField = map[string]string{"lockFile": ".lock", "rlockFile": ".rlock", "tempFile": ".temp"}

// errReturn: `return nil, X` with X not nil
func isNilErrReturn(r *ast.ReturnStmt) bool {
	return len(r.Results) == 2 && isIdent(r.Results[0], "nil") && !isIdent(r.Results[1], "nil")
}

// alwaysReturnsNilErr: a block made of `if … { … }` statements (no else) and returns, ending in a return, every
// return being `return nil, <error>`
func alwaysReturnsNilErr(fn string, list []ast.Stmt) {
	if len(list) == 0 {
		die("%s: an empty block where a return of an error is expected", fn)
	}
	for i, s := range list {
		switch v := s.(type) {
		case *ast.ReturnStmt:
			if !isNilErrReturn(v) {
				die("%s: return %s where `return nil, <error>` is expected", fn, src(v))
			}
			if i != len(list)-1 {
				die("%s: statements behind a return", fn)
			}
		case *ast.IfStmt:
			if v.Else != nil || v.Init != nil {
				die("%s: unsupported if in an error block: %s", fn, src(v))
			}
			alwaysReturnsNilErr(fn, v.Body.List)
			if i == len(list)-1 {
				die("%s: an error block that may fall through: %s", fn, src(v))
			}
		default:
			die("%s: unsupported statement in an error block: %s", fn, src(s))
		}
	}
}

// ---------------------------------------------------------------- TryCreate…File

func translateTry(fd *ast.FuncDecl) []string {
	fn := fd.Name.Name
	if len(fd.Type.Params.List) != 1 || len(fd.Type.Params.List[0].Names) != 1 {
		die("%s: one parameter expected", fn)
	}
	param := fd.Type.Params.List[0].Names[0].Name
	pathVar := map[string]string{} // lockFilePath → .lock
	fpVar := map[string]string{}   // fp → .lock (the descriptor returned by the create)
	cfVar := map[string]string{}   // lockFile → .lock
	var out []string
	list := fd.Body.List

	existsCond := func(e ast.Expr) (lock, rlock, ok bool) {
		var walk func(e ast.Expr) bool
		walk = func(e ast.Expr) bool {
			switch v := e.(type) {
			case *ast.BinaryExpr:
				return v.Op == token.LOR && walk(v.X) && walk(v.Y)
			case *ast.ParenExpr:
				return walk(v.X)
			case *ast.CallExpr:
				n := src(v.Fun)
				if len(v.Args) != 1 || !isIdent(v.Args[0], param) {
					return false
				}
				switch n {
				case "LockExists":
					lock = true
				case "RLockExists":
					rlock = true
				default:
					return false
				}
				return true
			}
			return false
		}
		ok = walk(e)
		return
	}

	// the control files closed inside an error block (`… v.Close() …`), in order
	closesIn := func(list []ast.Stmt) []string {
		var cl []string
		for _, s := range list {
			ast.Inspect(s, func(n ast.Node) bool {
				if c, ok := n.(*ast.CallExpr); ok {
					f := src(c.Fun)
					if strings.HasSuffix(f, ".Close") || strings.HasSuffix(f, ".CloseWithErrors") {
						v := strings.TrimSuffix(strings.TrimSuffix(f, ".CloseWithErrors"), ".Close")
						k, ok := cfVar[v]
						if !ok {
							die("%s: Close of %s, which is not a control file of this function", fn, v)
						}
						cl = append(cl, k)
					}
				}
				return true
			})
		}
		return cl
	}

	// an error block of a Try function: assignments to an error variable / declarations of it, then `return nil, <error>`
	errBlock := func(list []ast.Stmt) []string {
		if len(list) == 0 {
			die("%s: empty error block", fn)
		}
		r, ok := list[len(list)-1].(*ast.ReturnStmt)
		if !ok || !isNilErrReturn(r) {
			die("%s: error block does not end in `return nil, <error>`: %s", fn, src(list[len(list)-1]))
		}
		for _, s := range list[:len(list)-1] {
			a, ok := s.(*ast.AssignStmt)
			if !ok || len(a.Lhs) != 1 || !(isIdent(a.Lhs[0], "err") || isIdent(a.Lhs[0], "e")) {
				die("%s: unsupported statement in an error block: %s", fn, src(s))
			}
		}
		return closesIn(list)
	}

	for i := 0; i < len(list); i++ {
		s := list[i]
		if isVerifPoint(s) {
			continue
		}
		switch v := s.(type) {
		case *ast.AssignStmt:
			// xPath := XFilePath(param)
			if len(v.Lhs) == 1 && len(v.Rhs) == 1 {
				n, c := callName(v.Rhs[0])
				if k, ok := cfOfPathFn[n]; ok && len(c.Args) == 1 && isIdent(c.Args[0], param) {
					pathVar[src(v.Lhs[0])] = k
					continue
				}
				if n == "NewControlFile" && len(c.Args) == 2 {
					k, ok := pathVar[src(c.Args[0])]
					if !ok || fpVar[src(c.Args[1])] != k {
						die("%s: %s: path and descriptor of different files", fn, src(v))
					}
					cfVar[src(v.Lhs[0])] = k
					continue
				}
			}
			// fp, err := file.Create(xPath)   followed by   if err != nil { return nil, <error> }
			if len(v.Lhs) == 2 && len(v.Rhs) == 1 {
				n, c := callName(v.Rhs[0])
				excl := ""
				switch n {
				case "file.Create":
					excl = "true"
				case "os.Create", "os.OpenFile":
					excl = "false"
				}
				if excl != "" && len(c.Args) >= 1 {
					k, ok := pathVar[src(c.Args[0])]
					if !ok {
						die("%s: create of an unknown path: %s", fn, src(v))
					}
					ev := src(v.Lhs[1])
					if i+1 >= len(list) {
						die("%s: create without error check", fn)
					}
					ifs, ok := list[i+1].(*ast.IfStmt)
					if !ok || ifs.Init != nil || ifs.Else != nil || src(ifs.Cond) != ev+" != nil" {
						die("%s: the create is not followed by `if %s != nil`: %s", fn, ev, src(list[i+1]))
					}
					if cl := errBlock(ifs.Body.List); len(cl) != 0 {
						die("%s: a close in the error block of a failed create", fn)
					}
					fpVar[src(v.Lhs[0])] = k
					out = append(out, fmt.Sprintf(".create %s %s", k, excl))
					i++
					continue
				}
			}
			die("%s: unsupported assignment: %s", fn, src(v))
		case *ast.IfStmt:
			if v.Init != nil || v.Else != nil {
				die("%s: unsupported if: %s", fn, src(v))
			}
			l, r, ok := existsCond(v.Cond)
			if !ok {
				die("%s: unsupported condition: %s", fn, src(v.Cond))
			}
			cl := errBlock(v.Body.List)
			out = append(out, fmt.Sprintf(".failIfExists %s %s [%s]", boolLit(l), boolLit(r), strings.Join(cl, ", ")))
		case *ast.DeferStmt:
			fl, ok := v.Call.Fun.(*ast.FuncLit)
			if !ok || len(fl.Body.List) != 1 {
				die("%s: unsupported defer: %s", fn, src(v))
			}
			a, ok := fl.Body.List[0].(*ast.AssignStmt)
			if !ok || len(a.Lhs) != 1 || !isIdent(a.Lhs[0], "err") {
				die("%s: unsupported defer body: %s", fn, src(v))
			}
			cl := closesIn(fl.Body.List)
			if len(cl) != 1 {
				die("%s: a deferred function that closes %d control files", fn, len(cl))
			}
			out = append(out, ".deferClose "+cl[0])
		case *ast.ReturnStmt:
			if len(v.Results) != 2 || !isIdent(v.Results[1], "nil") {
				die("%s: unsupported return: %s", fn, src(v))
			}
			k := ""
			if id, ok := v.Results[0].(*ast.Ident); ok {
				k = cfVar[id.Name]
			} else if n, c := callName(v.Results[0]); n == "NewControlFile" && len(c.Args) == 2 {
				k = pathVar[src(c.Args[0])]
				if fpVar[src(c.Args[1])] != k {
					die("%s: %s: path and descriptor of different files", fn, src(v))
				}
			}
			if k == "" {
				die("%s: unsupported return value: %s", fn, src(v))
			}
			out = append(out, ".returnFile "+k)
			if i != len(list)-1 {
				die("%s: statements behind the final return", fn)
			}
		default:
			die("%s: unsupported statement: %s", fn, src(s))
		}
	}
	return out
}

// tryCreateControlFile: `if len(filePath) < 1 { return nil, NewLockError(…) }` and the switch on the file type
func translateDispatch(fd *ast.FuncDecl) map[string]string {
	fn := fd.Name.Name
	res := map[string]string{}
	for _, s := range fd.Body.List {
		switch v := s.(type) {
		case *ast.IfStmt:
			if src(v.Cond) != "len(filePath) < 1" || v.Else != nil || len(v.Body.List) != 1 {
				die("%s: unsupported if: %s", fn, src(v))
			}
			r, ok := v.Body.List[0].(*ast.ReturnStmt)
			if !ok || !isNilErrReturn(r) || !strings.HasPrefix(src(r.Results[1]), "NewLockError(") {
				die("%s: unsupported return: %s", fn, src(v.Body.List[0]))
			}
		case *ast.SwitchStmt:
			if src(v.Tag) != "fileType" || v.Init != nil {
				die("%s: unsupported switch", fn)
			}
			for _, c := range v.Body.List {
				cc := c.(*ast.CaseClause)
				if len(cc.Body) != 1 {
					die("%s: unsupported case body", fn)
				}
				r, ok := cc.Body[0].(*ast.ReturnStmt)
				if !ok || len(r.Results) != 1 {
					die("%s: unsupported case body: %s", fn, src(cc.Body[0]))
				}
				n, call := callName(r.Results[0])
				if call == nil || len(call.Args) != 1 || !isIdent(call.Args[0], "filePath") || !strings.HasPrefix(n, "TryCreate") {
					die("%s: unsupported case body: %s", fn, src(cc.Body[0]))
				}
				if cc.List == nil {
					for _, k := range []string{".lock", ".rlock", ".temp"} {
						if _, ok := res[k]; !ok {
							res[k] = n
						}
					}
					continue
				}
				for _, l := range cc.List {
					k, ok := cfOfType[src(l)]
					if !ok {
						die("%s: unknown file type %s", fn, src(l))
					}
					res[k] = n
				}
			}
		default:
			die("%s: unsupported statement: %s", fn, src(s))
		}
	}
	if len(res) != 3 {
		die("%s: the switch does not cover the three file types", fn)
	}
	return res
}

// ---------------------------------------------------------------- CreateControlFileContext

func translateLoopStmts(fn string, list []ast.Stmt, inLoop bool) (stmts []string, body []string, hasLoop bool) {
	fvar, evar := "", ""
	for i, s := range list {
		switch v := s.(type) {
		case *ast.ForStmt:
			if inLoop || v.Init != nil || v.Cond != nil || v.Post != nil || i != len(list)-1 {
				die("%s: unsupported for statement", fn)
			}
			b, _, _ := translateLoopStmts(fn, v.Body.List, true)
			return stmts, b, true
		case *ast.AssignStmt:
			n, c := callName(v.Rhs[0])
			if !inLoop || len(v.Lhs) != 2 || len(v.Rhs) != 1 || v.Tok != token.DEFINE || n != "tryCreateControlFile" ||
				len(c.Args) != 2 || !isIdent(c.Args[0], "filePath") || !isIdent(c.Args[1], "fileType") {
				die("%s: unsupported assignment: %s", fn, src(v))
			}
			fvar, evar = src(v.Lhs[0]), src(v.Lhs[1])
			stmts = append(stmts, ".attempt")
		case *ast.IfStmt:
			if v.Else != nil {
				die("%s: unsupported if/else: %s", fn, src(v))
			}
			cond := src(v.Cond)
			switch {
			case v.Init == nil && cond == "ctx.Err() != nil":
				alwaysReturnsNilErr(fn, v.Body.List)
				stmts = append(stmts, ".ifRet .ctxDone .nilErr")
			case v.Init == nil && evar != "" && cond == evar+" == nil":
				if len(v.Body.List) != 1 {
					die("%s: unsupported success block: %s", fn, src(v))
				}
				r, ok := v.Body.List[0].(*ast.ReturnStmt)
				if !ok || len(r.Results) != 2 || !isIdent(r.Results[0], fvar) || !isIdent(r.Results[1], "nil") {
					die("%s: unsupported success return: %s", fn, src(v.Body.List[0]))
				}
				stmts = append(stmts, ".ifRet .attemptOk .fileNil")
			case v.Init != nil && evar != "" && src(v.Init) == "_, ok := "+evar+".(*LockError)" && cond == "!ok":
				alwaysReturnsNilErr(fn, v.Body.List)
				stmts = append(stmts, ".ifRet .attemptHard .nilErr")
			default:
				die("%s: unsupported if: %s", fn, src(v))
			}
		case *ast.SelectStmt:
			if !inLoop || len(v.Body.List) != 2 {
				die("%s: unsupported select", fn)
			}
			seenDone, seenTimer := false, false
			for _, c := range v.Body.List {
				cc := c.(*ast.CommClause)
				comm := ""
				if cc.Comm != nil {
					comm = src(cc.Comm)
				}
				switch comm {
				case "<-ctx.Done()":
					alwaysReturnsNilErr(fn, cc.Body)
					seenDone = true
				case "<-time.After(retryDelay)":
					if len(cc.Body) != 0 {
						die("%s: statements in the timer case", fn)
					}
					seenTimer = true
				default:
					die("%s: unsupported select case: %s", fn, comm)
				}
			}
			if !seenDone || !seenTimer {
				die("%s: select without ctx.Done() / timer", fn)
			}
			stmts = append(stmts, ".selectCtxOrTimer .nilErr")
		default:
			die("%s: unsupported statement: %s", fn, src(s))
		}
	}
	return stmts, nil, false
}

// ---------------------------------------------------------------- Handler.CreateControlFileContext

func translateHandlerCreate(fd *ast.FuncDecl) []string {
	fn := "Handler." + fd.Name.Name
	var out []string
	called := false
	for i, s := range fd.Body.List {
		switch v := s.(type) {
		case *ast.SwitchStmt:
			if src(v.Tag) != "fileType" || v.Init != nil {
				die("%s: unsupported switch", fn)
			}
			var pairs []string
			kind := ""
			covered := map[string]bool{}
			for _, c := range v.Body.List {
				cc := c.(*ast.CaseClause)
				if len(cc.Body) != 1 {
					die("%s: unsupported case body", fn)
				}
				var keys []string
				if cc.List == nil {
					keys = nil // default: filled below
				}
				for _, l := range cc.List {
					k, ok := cfOfType[src(l)]
					if !ok {
						die("%s: unknown file type %s", fn, src(l))
					}
					keys = append(keys, k)
				}
				field, k2 := "", ""
				switch b := cc.Body[0].(type) {
				case *ast.IfStmt:
					c := src(b.Cond)
					if b.Init != nil || b.Else != nil || !strings.HasPrefix(c, "h.") || !strings.HasSuffix(c, " != nil") || len(b.Body.List) != 1 {
						die("%s: unsupported guard: %s", fn, src(b))
					}
					r, ok := b.Body.List[0].(*ast.ReturnStmt)
					if !ok || len(r.Results) != 1 || isIdent(r.Results[0], "nil") {
						die("%s: unsupported guard return: %s", fn, src(b))
					}
					field, k2 = strings.TrimSuffix(strings.TrimPrefix(c, "h."), " != nil"), "guard"
				case *ast.AssignStmt:
					if len(b.Lhs) != 1 || len(b.Rhs) != 1 || !isIdent(b.Rhs[0], "f") || !strings.HasPrefix(src(b.Lhs[0]), "h.") || b.Tok != token.ASSIGN {
						die("%s: unsupported recording: %s", fn, src(b))
					}
					field, k2 = strings.TrimPrefix(src(b.Lhs[0]), "h."), "record"
				default:
					die("%s: unsupported case body: %s", fn, src(cc.Body[0]))
				}
				fk, ok := cfOfField[field]
				if !ok {
					die("%s: unknown handler field %s", fn, field)
				}
				if kind != "" && kind != k2 {
					die("%s: a switch that mixes guards and recordings", fn)
				}
				kind = k2
				if cc.List == nil {
					for _, k := range []string{".lock", ".rlock", ".temp"} {
						covered[k] = covered[k] || false
					}
					pairs = append(pairs, "default:"+fk)
					continue
				}
				for _, k := range keys {
					covered[k] = true
					pairs = append(pairs, fmt.Sprintf("(%s, %s)", k, fk))
				}
			}
			// resolve the default clause: every file type without a case of its own
			var resolved []string
			for _, p := range pairs {
				if strings.HasPrefix(p, "default:") {
					for _, k := range []string{".lock", ".rlock", ".temp"} {
						if !covered[k] {
							resolved = append(resolved, fmt.Sprintf("(%s, %s)", k, strings.TrimPrefix(p, "default:")))
						}
					}
				} else {
					resolved = append(resolved, p)
				}
			}
			if kind == "guard" {
				if called {
					die("%s: a guard behind the call", fn)
				}
				out = append(out, ".guardHeld ["+strings.Join(resolved, ", ")+"]")
			} else {
				out = append(out, ".record ["+strings.Join(resolved, ", ")+"]")
			}
		case *ast.AssignStmt:
			n, c := callName(v.Rhs[0])
			if len(v.Lhs) != 2 || !isIdent(v.Lhs[0], "f") || !isIdent(v.Lhs[1], "err") || n != "CreateControlFileContext" || len(c.Args) != 4 ||
				src(c.Args[0]) != "ctx" || src(c.Args[1]) != "h.path" || src(c.Args[2]) != "fileType" {
				die("%s: unsupported assignment: %s", fn, src(v))
			}
			called = true
			out = append(out, ".callRetry")
		case *ast.IfStmt:
			if v.Init != nil || v.Else != nil || src(v.Cond) != "err != nil" || len(v.Body.List) != 1 || src(v.Body.List[0]) != "return err" {
				die("%s: unsupported if: %s", fn, src(v))
			}
			out = append(out, ".ifErrReturn")
		case *ast.ReturnStmt:
			if len(v.Results) != 1 || !isIdent(v.Results[0], "nil") || i != len(fd.Body.List)-1 {
				die("%s: unsupported return: %s", fn, src(v))
			}
			out = append(out, ".returnNil")
		default:
			die("%s: unsupported statement: %s", fn, src(s))
		}
	}
	return out
}

// ---------------------------------------------------------------- NewHandlerForRead / NewHandlerForUpdate

// errorReturnOfHandler: `return h, closeIsolatedHandler(h, err)` (released) or `return h, <error>` (not released)
func handlerErrReturn(fn string, list []ast.Stmt) (released bool) {
	if len(list) != 1 {
		die("%s: unsupported error block", fn)
	}
	r, ok := list[0].(*ast.ReturnStmt)
	if !ok || len(r.Results) != 2 || !isIdent(r.Results[0], "h") || isIdent(r.Results[1], "nil") {
		die("%s: unsupported error return: %s", fn, src(list[0]))
	}
	n, c := callName(r.Results[1])
	if n == "closeIsolatedHandler" {
		if len(c.Args) != 2 || !isIdent(c.Args[0], "h") {
			die("%s: closeIsolatedHandler of something else: %s", fn, src(r))
		}
		return true
	}
	return false
}

func translateNewHandler(fd *ast.FuncDecl) []string {
	fn := fd.Name.Name
	var out []string
	list := fd.Body.List
	for i := 0; i < len(list); i++ {
		s := list[i]
		if isVerifPoint(s) {
			continue
		}
		switch v := s.(type) {
		case *ast.DeferStmt:
			if src(v.Call) != "cancel()" {
				die("%s: unsupported defer: %s", fn, src(v))
			}
		case *ast.AssignStmt:
			l, r := src(v.Lhs[0]), src(v.Rhs[0])
			switch {
			case len(v.Lhs) == 2 && strings.HasPrefix(r, "GetTimeoutContext("):
			case len(v.Lhs) == 1 && l == "h" && strings.HasPrefix(r, "&Handler{"):
				if strings.Contains(r, "File") {
					die("%s: the handler starts with a control file: %s", fn, r)
				}
			case len(v.Lhs) == 1 && l == "h.fp" && r == "fp":
			case len(v.Lhs) == 2 && (strings.HasPrefix(r, "file.OpenToReadContext(") || strings.HasPrefix(r, "file.OpenToUpdateContext(")):
				if i+1 >= len(list) {
					die("%s: open without error check", fn)
				}
				ifs, ok := list[i+1].(*ast.IfStmt)
				if !ok || ifs.Init != nil || ifs.Else != nil || src(ifs.Cond) != "err != nil" {
					die("%s: the open is not followed by `if err != nil`", fn)
				}
				out = append(out, ".openData "+boolLit(handlerErrReturn(fn, ifs.Body.List)))
				i++
			default:
				die("%s: unsupported assignment: %s", fn, src(v))
			}
		case *ast.IfStmt:
			if v.Else != nil {
				die("%s: unsupported if/else", fn)
			}
			cond := src(v.Cond)
			switch {
			case v.Init == nil && cond == "!Exists(h.path)":
				if handlerErrReturn(fn, v.Body.List) {
					die("%s: release in the existence check", fn)
				}
				out = append(out, ".existenceReturn")
			case v.Init != nil && cond == "err != nil":
				a, ok := v.Init.(*ast.AssignStmt)
				if !ok || len(a.Lhs) != 1 || !isIdent(a.Lhs[0], "err") {
					die("%s: unsupported if: %s", fn, src(v))
				}
				n, c := callName(a.Rhs[0])
				if n != "h.CreateControlFileContext" || len(c.Args) != 3 || src(c.Args[0]) != "tctx" {
					die("%s: unsupported if: %s", fn, src(v))
				}
				k, ok := cfOfType[src(c.Args[1])]
				if !ok {
					die("%s: unknown file type %s", fn, src(c.Args[1]))
				}
				out = append(out, fmt.Sprintf(".controlFile %s %s", k, boolLit(handlerErrReturn(fn, v.Body.List))))
			default:
				die("%s: unsupported if: %s", fn, src(v))
			}
		case *ast.ReturnStmt:
			if len(v.Results) != 2 || !isIdent(v.Results[0], "h") || !isIdent(v.Results[1], "nil") || i != len(list)-1 {
				die("%s: unsupported return: %s", fn, src(v))
			}
			out = append(out, ".returnOk")
		default:
			die("%s: unsupported statement: %s", fn, src(s))
		}
	}
	return out
}

// ---------------------------------------------------------------- the release side

// relTr translates Handler.close / closeWithErrors / commit (and ControlFile.Close / CloseWithErrors) into the ordered
// list of their release steps with what happens to the error of each step (stop / collect / ignore).
type relTr struct {
	fn         string
	recv       string // "h" or "m"
	updateArm  bool   // which arm of `if h.openType == ForUpdate { … } else { … }` is followed
	out        []string
	sawForUpd  bool
	finalKinds []string
}

const createdGuard = "h.openType == ForCreate && h.created && Exists(h.path)"

func (t *relTr) classify(call ast.Expr, inCreated, inExists bool) string {
	c := src(call)
	if t.recv == "m" {
		switch c {
		case "file.Close(m.fp)":
			return ".closeFd"
		case "os.Remove(m.path)":
			if !inExists {
				die("%s: os.Remove(m.path) outside `if Exists(m.path)`", t.fn)
			}
			return ".removeFile"
		}
		return ""
	}
	switch c {
	case "file.Close(h.fp)":
		return ".closeFp"
	case "file.Close(h.tempFile.fp)":
		return ".closeTempFp"
	case "os.Rename(h.tempFile.path, h.path)":
		return ".renameTemp"
	case "os.Remove(h.path)":
		if !inCreated {
			die("%s: os.Remove(h.path) outside `if %s`", t.fn, createdGuard)
		}
		return ".removeCreated"
	}
	for f, k := range cfOfField {
		if c == "h."+f+".Close()" || c == "h."+f+".CloseWithErrors()" {
			return ".closeCF " + k
		}
	}
	return ""
}

func (t *relTr) isBookkeeping(s ast.Stmt) bool {
	a, ok := s.(*ast.AssignStmt)
	if !ok || len(a.Lhs) != 1 || len(a.Rhs) != 1 {
		return false
	}
	l, r := src(a.Lhs[0]), src(a.Rhs[0])
	switch l {
	case "h.fp", "h.tempFile", "h.lockFile", "h.rlockFile", "h.tempFile.fp":
		return r == "nil"
	case "h.closed":
		return r == "true"
	}
	return false
}

func (t *relTr) stmts(list []ast.Stmt, inCreated, inExists bool) {
	for _, s := range list {
		if isVerifPoint(s) || t.isBookkeeping(s) {
			continue
		}
		switch v := s.(type) {
		case *ast.DeclStmt:
			if src(v) != "var errs []error" {
				die("%s: unsupported declaration: %s", t.fn, src(v))
			}
		case *ast.ReturnStmt:
			r := src(v)
			if r != "return nil" && r != "return NewForcedUnlockError(errs)" && r != "return errs" {
				die("%s: unsupported return: %s", t.fn, r)
			}
			t.finalKinds = append(t.finalKinds, r)
		case *ast.ExprStmt:
			if op := t.classify(v.X, inCreated, inExists); op != "" {
				t.out = append(t.out, "⟨"+op+", .ignore⟩")
				continue
			}
			die("%s: unsupported statement: %s", t.fn, src(v))
		case *ast.AssignStmt:
			if len(v.Lhs) == 1 && isIdent(v.Lhs[0], "_") && len(v.Rhs) == 1 {
				if op := t.classify(v.Rhs[0], inCreated, inExists); op != "" {
					t.out = append(t.out, "⟨"+op+", .ignore⟩")
					continue
				}
			}
			die("%s: unsupported assignment: %s", t.fn, src(v))
		case *ast.IfStmt:
			cond := src(v.Cond)
			if v.Init == nil {
				switch {
				case cond == "h.closed":
					if v.Else != nil || len(v.Body.List) != 1 || src(v.Body.List[0]) != "return nil" {
						die("%s: unsupported `if h.closed`", t.fn)
					}
				case cond == "h.fp != nil" || cond == "h.tempFile.fp != nil" || cond == "m != nil" || cond == "m.fp != nil":
					if v.Else != nil {
						die("%s: unsupported else of `if %s`", t.fn, cond)
					}
					t.stmts(v.Body.List, inCreated, inExists)
				case cond == createdGuard:
					if v.Else != nil {
						die("%s: unsupported else of `if %s`", t.fn, cond)
					}
					t.stmts(v.Body.List, true, inExists)
				case cond == "Exists(m.path)":
					if v.Else != nil {
						die("%s: unsupported else of `if %s`", t.fn, cond)
					}
					t.stmts(v.Body.List, inCreated, true)
				case cond == "h.openType == ForUpdate":
					t.sawForUpd = true
					if t.updateArm {
						t.stmts(v.Body.List, inCreated, inExists)
					} else if v.Else != nil {
						b, ok := v.Else.(*ast.BlockStmt)
						if !ok {
							die("%s: unsupported else-if", t.fn)
						}
						t.stmts(b.List, inCreated, inExists)
					}
				default:
					die("%s: unsupported if: %s", t.fn, cond)
				}
				continue
			}
			// if err := CALL; err != nil { return err | errs = append(errs, err…) } [else { bookkeeping }]
			a, ok := v.Init.(*ast.AssignStmt)
			if !ok || len(a.Lhs) != 1 || len(a.Rhs) != 1 || cond != src(a.Lhs[0])+" != nil" {
				die("%s: unsupported if: %s", t.fn, src(v))
			}
			ev := src(a.Lhs[0])
			op := t.classify(a.Rhs[0], inCreated, inExists)
			if op == "" {
				die("%s: a call that is not a release step: %s", t.fn, src(a.Rhs[0]))
			}
			if len(v.Body.List) != 1 {
				die("%s: unsupported error block: %s", t.fn, src(v.Body))
			}
			how := ""
			switch b := src(v.Body.List[0]); b {
			case "return " + ev:
				how = ".stop"
			case "errs = append(errs, " + ev + ")", "errs = append(errs, " + ev + "...)":
				how = ".collect"
			default:
				die("%s: unsupported error block: %s", t.fn, b)
			}
			if v.Else != nil {
				b, ok := v.Else.(*ast.BlockStmt)
				if !ok {
					die("%s: unsupported else-if", t.fn)
				}
				for _, e := range b.List {
					if !t.isBookkeeping(e) {
						die("%s: unsupported statement in an else block: %s", t.fn, src(e))
					}
				}
			}
			t.out = append(t.out, "⟨"+op+", "+how+"⟩")
		default:
			die("%s: unsupported statement: %s", t.fn, src(s))
		}
	}
}

func translateRelease(fd *ast.FuncDecl, recv string, updateArm bool) []string {
	t := &relTr{fn: fd.Name.Name, recv: recv, updateArm: updateArm}
	t.stmts(fd.Body.List, false, false)
	if len(t.finalKinds) == 0 {
		die("%s: no final return", t.fn)
	}
	return t.out
}

func leanTerms(xs []string) string {
	return "[" + strings.Join(xs, ", ") + "]"
}

func retryMain() {
	repo := os.Getenv("VERIF_REPO")
	if repo == "" {
		repo = "/repo"
	}
	cf := parse(filepath.Join(repo, "lib/file/control_file.go"))
	hd := parse(filepath.Join(repo, "lib/file/handler.go"))
	tx := parse(filepath.Join(repo, "lib/query/transaction.go"))

	tries := map[string][]string{}
	for _, n := range []string{"TryCreateLockFile", "TryCreateRLockFile", "TryCreateTempFile"} {
		tries[n] = translateTry(findFunc(cf, "", n))
	}
	dispatch := translateDispatch(findFunc(cf, "", "tryCreateControlFile"))
	for _, n := range dispatch {
		if _, ok := tries[n]; !ok {
			die("tryCreateControlFile calls %s, which is not translated", n)
		}
	}
	loopFn := findFunc(cf, "", "CreateControlFileContext")
	pre, body, hasLoop := translateLoopStmts("CreateControlFileContext", loopFn.Body.List, false)
	if !hasLoop {
		die("CreateControlFileContext: no `for { … }`")
	}
	hcreate := translateHandlerCreate(findFunc(hd, "Handler", "CreateControlFileContext"))
	forRead := translateNewHandler(findFunc(hd, "", "NewHandlerForRead"))
	forUpdate := translateNewHandler(findFunc(hd, "", "NewHandlerForUpdate"))

	fmt.Println("-- GENERATED by /verif/extract/fsproto -retry from lib/file/control_file.go, lib/file/handler.go and lib/query/transaction.go — do not edit.")
	fmt.Println("import Csvq.Model.Retry")
	fmt.Println("import Csvq.Model.Release")
	fmt.Println("import Csvq.Model.TxLocks")
	fmt.Println("namespace Csvq.Gen.Retry")
	fmt.Println("open Csvq.Retry Csvq.Retry.CF Csvq.Release")
	fmt.Println()
	emit := func(name, typ, doc string, xs []string) {
		fmt.Printf("/-- %s -/\ndef %s : List %s :=\n  %s\n\n", doc, name, typ, leanTerms(xs))
	}
	emit("tryCreateLockFile", "TStmt", "TryCreateLockFile, statement by statement", tries["TryCreateLockFile"])
	emit("tryCreateRLockFile", "TStmt", "TryCreateRLockFile, statement by statement", tries["TryCreateRLockFile"])
	emit("tryCreateTempFile", "TStmt", "TryCreateTempFile, statement by statement", tries["TryCreateTempFile"])
	lower := func(s string) string { return strings.ToLower(s[:1]) + s[1:] }
	fmt.Println("/-- tryCreateControlFile: the attempt made for each file type -/")
	fmt.Println("def tryOf : CF → List TStmt")
	for _, k := range []string{".lock", ".rlock", ".temp"} {
		fmt.Printf("  | %s => %s\n", k, lower(dispatch[k]))
	}
	fmt.Println()
	fmt.Println("/-- CreateControlFileContext: the statements in front of the loop and the loop body, in source order -/")
	fmt.Printf("def retryLoop : Loop :=\n  { pre := %s,\n    body := %s }\n\n", leanTerms(pre), leanTerms(body))
	emit("handlerCreate", "HStmt", "Handler.CreateControlFileContext", hcreate)
	emit("newHandlerForRead", "NStmt", "NewHandlerForRead", forRead)
	emit("newHandlerForUpdate", "NStmt", "NewHandlerForUpdate", forUpdate)
	emit("newHandlerForCreate", "CStmt", "NewHandlerForCreate (does not wait)", translateNewHandlerCreate(findFunc(hd, "", "NewHandlerForCreate")))
	emit("releaseClose", "RStep", "Handler.close: the release steps in source order, with what an error of the step does", translateRelease(findFunc(hd, "Handler", "close"), "h", false))
	emit("releaseCloseWithErrors", "RStep", "Handler.closeWithErrors", translateRelease(findFunc(hd, "Handler", "closeWithErrors"), "h", false))
	emit("releaseCommitUpdate", "RStep", "Handler.commit of a handler opened for update", translateRelease(findFunc(hd, "Handler", "commit"), "h", true))
	emit("releaseCommitOther", "RStep", "Handler.commit of any other handler", translateRelease(findFunc(hd, "Handler", "commit"), "h", false))
	emit("cfClose", "CStep", "ControlFile.Close", translateRelease(findFunc(cf, "ControlFile", "Close"), "m", false))
	emit("cfCloseWithErrors", "CStep", "ControlFile.CloseWithErrors", translateRelease(findFunc(cf, "ControlFile", "CloseWithErrors"), "m", false))
	fmt.Println("open Csvq.TxLocks in")
	emit("txCommit", "Seg", "Transaction.Commit at the level of lock ownership: encodes, publications, releasing calls and error returns in source order", translateTx(findFunc(tx, "Transaction", "Commit")))
	fmt.Println("open Csvq.TxLocks in")
	emit("txRollback", "Seg", "Transaction.Rollback", translateTx(findFunc(tx, "Transaction", "Rollback")))
	fmt.Println("end Csvq.Gen.Retry")
}

// NewHandlerForCreate: no waiting — one TryCreateLockFile, then the table's file
func translateNewHandlerCreate(fd *ast.FuncDecl) []string {
	fn := fd.Name.Name
	var out []string
	list := fd.Body.List
	tryFns := map[string]string{"TryCreateLockFile": ".lock", "TryCreateRLockFile": ".rlock", "TryCreateTempFile": ".temp"}
	cfVar := map[string]string{}
	errCheck := func(i int) bool {
		if i+1 >= len(list) {
			die("%s: a call without error check", fn)
		}
		ifs, ok := list[i+1].(*ast.IfStmt)
		if !ok || ifs.Init != nil || ifs.Else != nil || src(ifs.Cond) != "err != nil" {
			die("%s: the call is not followed by `if err != nil`: %s", fn, src(list[i+1]))
		}
		return handlerErrReturn(fn, ifs.Body.List)
	}
	for i := 0; i < len(list); i++ {
		s := list[i]
		if isVerifPoint(s) {
			continue
		}
		switch v := s.(type) {
		case *ast.AssignStmt:
			l, r := src(v.Lhs[0]), src(v.Rhs[0])
			n, c := callName(v.Rhs[0])
			switch {
			case len(v.Lhs) == 1 && l == "h" && strings.HasPrefix(r, "&Handler{"):
				if strings.Contains(r, "File") || strings.Contains(r, "created") {
					die("%s: the handler starts with a control file or as created: %s", fn, r)
				}
			case len(v.Lhs) == 2 && tryFns[n] != "" && len(c.Args) == 1 && src(c.Args[0]) == "h.path":
				cfVar[l] = tryFns[n]
				out = append(out, fmt.Sprintf(".tryDirect %s %s", tryFns[n], boolLit(errCheck(i))))
				i++
			case len(v.Lhs) == 1 && strings.HasPrefix(l, "h.") && cfOfField[strings.TrimPrefix(l, "h.")] != "":
				k := cfOfField[strings.TrimPrefix(l, "h.")]
				if cfVar[r] != k {
					die("%s: %s: the field and the control file are of different kinds", fn, src(v))
				}
				out = append(out, ".recordDirect "+k)
			case len(v.Lhs) == 2 && r == "file.Create(h.path)":
				out = append(out, ".createData "+boolLit(errCheck(i)))
				i++
			case len(v.Lhs) == 1 && l == "h.fp" && r == "fp":
			case len(v.Lhs) == 1 && l == "h.created" && r == "true":
				out = append(out, ".markCreated")
			default:
				die("%s: unsupported assignment: %s", fn, src(v))
			}
		case *ast.IfStmt:
			if v.Else != nil || v.Init != nil {
				die("%s: unsupported if: %s", fn, src(v))
			}
			cond := src(v.Cond)
			switch {
			case cond == "Exists(h.path)":
				if handlerErrReturn(fn, v.Body.List) {
					die("%s: release in the existence check", fn)
				}
				out = append(out, ".existsReturn")
			case strings.HasPrefix(cond, "h.") && strings.HasSuffix(cond, " != nil") && cfOfField[strings.TrimSuffix(strings.TrimPrefix(cond, "h."), " != nil")] != "":
				if len(v.Body.List) != 1 {
					die("%s: unsupported guard: %s", fn, src(v))
				}
				r, ok := v.Body.List[0].(*ast.ReturnStmt)
				if !ok || len(r.Results) != 2 || isIdent(r.Results[1], "nil") {
					die("%s: unsupported guard: %s", fn, src(v))
				}
				out = append(out, ".heldGuard "+cfOfField[strings.TrimSuffix(strings.TrimPrefix(cond, "h."), " != nil")])
			default:
				die("%s: unsupported if: %s", fn, src(v))
			}
		case *ast.ReturnStmt:
			if len(v.Results) != 2 || !isIdent(v.Results[0], "h") || !isIdent(v.Results[1], "nil") || i != len(list)-1 {
				die("%s: unsupported return: %s", fn, src(v))
			}
			out = append(out, ".returnOk")
		default:
			die("%s: unsupported statement: %s", fn, src(s))
		}
	}
	return out
}

// ---------------------------------------------------------------- Transaction.Commit / Rollback: lock ownership

var txHarmless = map[string]bool{
	"tx.operationMutex.Lock": true, "tx.operationMutex.Unlock": true, "ctx.Err": true, "ConvertContextError": true,
	"tx.UncommittedViews.UncommittedFiles": true, "tx.UncommittedViews.UncommittedTempViews": true, "tx.UncommittedViews.Unset": true,
	"tx.UncommittedViews.Clean": true, "make": true, "len": true, "append": true, "tx.CachedViews.Get": true, "fileInfo.IdentifiedPath": true,
	"view.FileInfo.Handler.FileForUpdate": true, "fp.Truncate": true, "fp.Seek": true, "fp.Write": true, "err.Error": true,
	"file.VerifPoint": true, "fileInfo.ExportOptions": true, "EncodeEndingLineBreak": true, "tx.LogNotice": true, "fmt.Sprintf": true,
	"scope.StoreTemporaryTable": true, "scope.RestoreTemporaryTable": true, "strings.Join": true, "tx.quietForTemporaryViews": true,
	"tx.UnlockStdin": true,
}

type txTr struct {
	fn      string
	inRelIf bool // inside `if err := <releasing call>; err != nil { … }`
}

func (t *txTr) callEvent(c *ast.CallExpr) string {
	fn := src(c.Fun)
	switch {
	case fn == "EncodeView":
		return ".encode"
	case fn == "tx.FileContainer.Commit":
		return ".commitTable"
	case fn == "tx.ReleaseResources" || fn == "tx.ReleaseResourcesWithErrors":
		return ".releaseAll"
	case strings.HasPrefix(fn, "tx.CachedViews.") && !txHarmless[fn]:
		switch m := strings.TrimPrefix(fn, "tx.CachedViews."); m {
		case "Dispose", "DisposeExcept", "Clean", "CleanWithErrors":
			return fmt.Sprintf(".releaseViews %q", "CachedViews."+m)
		default:
			die("%s: tx.CachedViews.%s is not reviewed (can it close handlers?)", t.fn, m)
		}
	case strings.HasPrefix(fn, "tx.FileContainer."):
		switch m := strings.TrimPrefix(fn, "tx.FileContainer."); m {
		case "Close", "CloseAll", "CloseWithErrors", "CloseAllWithErrors":
			return fmt.Sprintf(".releaseViews %q", "FileContainer."+m)
		default:
			die("%s: tx.FileContainer.%s is not reviewed", t.fn, m)
		}
	}
	if txHarmless[fn] || (strings.HasPrefix(fn, "New") && strings.HasSuffix(fn, "Error")) {
		return ""
	}
	die("%s: call of %s is not reviewed (can it release a held table?)", t.fn, fn)
	return ""
}

func (t *txTr) exprEvents(n ast.Node, out *[]string) {
	if n == nil {
		return
	}
	ast.Inspect(n, func(x ast.Node) bool {
		switch v := x.(type) {
		case *ast.FuncLit:
			die("%s: function literal", t.fn)
		case *ast.CallExpr:
			for _, a := range v.Args {
				t.exprEvents(a, out)
			}
			if e := t.callEvent(v); e != "" {
				*out = append(*out, e)
			}
			return false
		}
		return true
	})
}

func hasLoop(n ast.Node) bool {
	found := false
	ast.Inspect(n, func(x ast.Node) bool {
		switch x.(type) {
		case *ast.ForStmt, *ast.RangeStmt:
			found = true
		}
		return !found
	})
	return found
}

// events of a statement without loops, in source order (an `if` is flattened: init, condition, body, else)
func (t *txTr) stmtEvents(s ast.Stmt, out *[]string) {
	switch v := s.(type) {
	case *ast.ReturnStmt:
		if len(v.Results) != 1 {
			die("%s: unsupported return: %s", t.fn, src(v))
		}
		if isIdent(v.Results[0], "nil") {
			*out = append(*out, ".returnNil")
			return
		}
		t.exprEvents(v.Results[0], out)
		if t.inRelIf {
			*out = append(*out, ".relErrReturn")
		} else {
			*out = append(*out, ".errReturn")
		}
	case *ast.IfStmt:
		n0 := len(*out)
		if v.Init != nil {
			t.stmtEvents(v.Init, out)
		}
		t.exprEvents(v.Cond, out)
		saved := t.inRelIf
		t.inRelIf = false
		for _, e := range (*out)[n0:] {
			if strings.HasPrefix(e, ".release") {
				// the error return of a releasing call: the `if` tests the error of that call and nothing else
				if _, ok := v.Init.(*ast.AssignStmt); ok && strings.HasSuffix(src(v.Cond), " != nil") && len(v.Body.List) == 1 {
					t.inRelIf = true
				}
			}
		}
		for _, b := range v.Body.List {
			t.stmtEvents(b, out)
		}
		t.inRelIf = saved
		if v.Else != nil {
			t.stmtEvents(v.Else, out)
		}
	case *ast.BlockStmt:
		for _, b := range v.List {
			t.stmtEvents(b, out)
		}
	case *ast.ForStmt, *ast.RangeStmt:
		die("%s: nested loop", t.fn)
	case *ast.DeferStmt:
		if src(v.Call) != "tx.operationMutex.Unlock()" {
			die("%s: unsupported defer: %s", t.fn, src(v))
		}
	case *ast.AssignStmt, *ast.ExprStmt, *ast.DeclStmt, *ast.IncDecStmt:
		t.exprEvents(s, out)
	default:
		die("%s: unsupported statement: %s", t.fn, src(s))
	}
}

func (t *txTr) segs(list []ast.Stmt, out *[]string) {
	for _, s := range list {
		switch v := s.(type) {
		case *ast.RangeStmt:
			var evs []string
			t.exprEvents(v.X, &evs)
			if len(evs) != 0 {
				die("%s: events in a range expression", t.fn)
			}
			for _, b := range v.Body.List {
				t.stmtEvents(b, &evs)
			}
			*out = append(*out, ".loop ["+strings.Join(evs, ", ")+"]")
			continue
		case *ast.ForStmt:
			die("%s: unsupported for statement", t.fn)
		case *ast.IfStmt:
			if hasLoop(v) {
				if v.Init != nil || v.Else != nil {
					die("%s: unsupported if around a loop", t.fn)
				}
				var evs []string
				t.exprEvents(v.Cond, &evs)
				for _, e := range evs {
					*out = append(*out, ".one "+e)
				}
				t.segs(v.Body.List, out)
				continue
			}
		}
		var evs []string
		t.stmtEvents(s, &evs)
		for _, e := range evs {
			*out = append(*out, ".one ("+strings.TrimPrefix(e, "")+")")
		}
	}
}

func translateTx(fd *ast.FuncDecl) []string {
	t := &txTr{fn: "Transaction." + fd.Name.Name}
	var out []string
	t.segs(fd.Body.List, &out)
	return out
}
