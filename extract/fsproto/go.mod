module fsproto

go 1.18
