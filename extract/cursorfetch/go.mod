module cursorfetch

go 1.21
