// Mode `ops`: the rest of the cursor code that Model/Cursor.lean mirrors.
//
//	go run . ops <lib/query>/cursor.go <lib/query>/processor.go <lib/query>/eval.go <lib/query>/reference_scope.go <lib/query>/query.go
//
// Emitted (Gen/CursorOps.lean):
//
//   - Lean DEFINITIONS where the code is branch / assignment code over the cursor's fields
//     (*Cursor).Open, Close    state function: error constructor, or the new (view == nil, index, fetched)
//     (*Cursor).IsOpen, Pointer
//     CursorMap.Declare, AddPseudoCursor, Dispose   decision code over `m.Exists(..)` / `m.Load(..)` / `cur.isPseudo`
//     evalCursorStatus         switch over OPEN / RANGE, error propagation, negation
//     Calls that are not reviewed here (Select, m.Store, NewCursor, …) appear as tokens / parameters.
//   - structured EFFECT LISTS where it is a skeleton: WhileInCursor (the whole statement structure: what
//     is inside the `for`, inside which `if`), the delegating CursorMap methods, the key helpers
//     (strings.ToUpper), NewCursor / NewPseudoCursor, the block walks of ReferenceScope.
//
// Fail-closed: any statement or expression form outside the small subset exits 1.
package main

import (
	"fmt"
	"go/ast"
	"go/token"
	"os"
	"strings"
)

// ---------- strict rendering ----------

func strict(e ast.Expr) string {
	s := loose(e)
	if strings.Contains(s, "<*ast.") {
		fail(e, "expression form %s", s)
	}
	return s
}

// fx: structured rendering of a statement list
func fx(stmts []ast.Stmt) []string {
	var out []string
	for _, s := range stmts {
		switch x := s.(type) {
		case *ast.AssignStmt, *ast.ExprStmt, *ast.DeferStmt, *ast.ReturnStmt:
			t := looseStmt(s)
			if strings.Contains(t, "<*ast.") {
				fail(s, "statement form %s", t)
			}
			out = append(out, t)
		case *ast.DeclStmt:
			gd, ok := x.Decl.(*ast.GenDecl)
			if !ok || gd.Tok != token.VAR {
				fail(s, "declaration form")
			}
			for _, sp := range gd.Specs {
				vs := sp.(*ast.ValueSpec)
				if len(vs.Values) != 0 {
					fail(s, "var with initial value")
				}
				names := make([]string, len(vs.Names))
				for i, n := range vs.Names {
					names[i] = n.Name
				}
				out = append(out, "var "+strings.Join(names, ", ")+" "+strict(vs.Type))
			}
		case *ast.BranchStmt:
			if x.Label != nil {
				fail(s, "labelled branch")
			}
			out = append(out, x.Tok.String())
		case *ast.IfStmt:
			out = append(out, fxIf(x)...)
		case *ast.ForStmt:
			if x.Init != nil || x.Cond != nil || x.Post != nil {
				fail(s, "for with clauses")
			}
			out = append(out, "for{")
			out = append(out, fx(x.Body.List)...)
			out = append(out, "}")
		case *ast.RangeStmt:
			h := "range["
			if x.Key != nil {
				h += strict(x.Key)
			}
			if x.Value != nil {
				h += ", " + strict(x.Value)
			}
			out = append(out, h+" "+x.Tok.String()+" "+strict(x.X)+"]{")
			out = append(out, fx(x.Body.List)...)
			out = append(out, "}")
		case *ast.SwitchStmt:
			if x.Init != nil || x.Tag == nil {
				fail(s, "switch form")
			}
			out = append(out, "switch["+strict(x.Tag)+"]{")
			for _, c0 := range x.Body.List {
				cc := c0.(*ast.CaseClause)
				if cc.List == nil {
					out = append(out, "default{")
				} else {
					l := make([]string, len(cc.List))
					for i, e := range cc.List {
						l[i] = strict(e)
					}
					out = append(out, "case["+strings.Join(l, ", ")+"]{")
				}
				out = append(out, fx(cc.Body)...)
				out = append(out, "}")
			}
			out = append(out, "}")
		default:
			fail(s, "statement %T", s)
		}
	}
	return out
}

func fxIf(x *ast.IfStmt) []string {
	h := "if["
	if x.Init != nil {
		t := looseStmt(x.Init)
		if strings.Contains(t, "<*ast.") {
			fail(x, "if init form")
		}
		h += t + "; "
	}
	out := []string{h + strict(x.Cond) + "]{"}
	out = append(out, fx(x.Body.List)...)
	out = append(out, "}")
	switch el := x.Else.(type) {
	case nil:
	case *ast.BlockStmt:
		out = append(out, "else{")
		out = append(out, fx(el.List)...)
		out = append(out, "}")
	case *ast.IfStmt:
		out = append(out, "else")
		out = append(out, fxIf(el)...)
	default:
		fail(x, "else form")
	}
	return out
}

// ---------- state functions: (*Cursor).Open / Close ----------

// stateFn compiles a method of *Cursor that checks guards and assigns view / index / fetched into
//
//	def name (isPseudo viewNil : Bool) (index : Int) (fetched : Bool) (evalFails : Bool) : StateOut
//
// `evalFails`: the region that evaluates the cursor's query (opaque here: it must not touch the
// receiver's fields) returned an error.
func stateFn(d *ast.FuncDecl, leanName string) string {
	recv := d.Recv.List[0].Names[0].Name
	f := &fn{name: d.Name.Name, recv: recv, intPar: map[string]bool{}}
	var b strings.Builder
	b.WriteString("def " + leanName + " (isPseudo viewNil : Bool) (index : Int) (fetched : Bool) (evalFails : Bool) : StateOut :=\n")
	ind := "  "
	closes := 0
	guard := func(cond, res string) {
		b.WriteString(ind + "if " + cond + " then\n" + ind + "  " + res + "\n" + ind + "else\n")
		ind += "  "
		closes++
	}
	stmts := d.Body.List
	done := false
	for i, s := range stmts {
		if done {
			fail(s, "%s: statement after the final return", d.Name.Name)
		}
		switch x := s.(type) {
		case *ast.ExprStmt:
			if !isMutexCall(recv, x.X) {
				fail(s, "%s: expression statement %s", d.Name.Name, loose(x.X))
			}
		case *ast.DeferStmt:
			if !isMutexCall(recv, x.Call) {
				fail(s, "%s: defer %s", d.Name.Name, loose(x.Call))
			}
		case *ast.DeclStmt:
			// local variables of the opaque region
		case *ast.IfStmt:
			if x.Init == nil && x.Else == nil && len(x.Body.List) == 1 {
				if r, ok := x.Body.List[0].(*ast.ReturnStmt); ok && len(r.Results) == 1 {
					switch loose(x.Cond) {
					case recv + ".isPseudo":
						guard("isPseudo = true", "StateOut.err \""+ctorName(r.Results[0])+"\"")
						continue
					case recv + ".view != nil":
						guard("viewNil = false", "StateOut.err \""+ctorName(r.Results[0])+"\"")
						continue
					case recv + ".view == nil":
						guard("viewNil = true", "StateOut.err \""+ctorName(r.Results[0])+"\"")
						continue
					case "err != nil":
						if loose(r.Results[0]) != "err" {
							fail(s, "%s: `if err != nil` does not return err", d.Name.Name)
						}
						guard("evalFails = true", "StateOut.err \"err\"")
						continue
					}
				}
			}
			// opaque region (evaluation of the query): no receiver field may be written, every return is an error
			ast.Inspect(x, func(n ast.Node) bool {
				switch y := n.(type) {
				case *ast.AssignStmt:
					for _, l := range y.Lhs {
						if strings.HasPrefix(loose(l), recv+".") {
							fail(y, "%s: receiver field written inside the query-evaluation region", d.Name.Name)
						}
					}
				case *ast.ReturnStmt:
					if len(y.Results) != 1 || loose(y.Results[0]) == "nil" {
						fail(y, "%s: non-error return inside the query-evaluation region", d.Name.Name)
					}
				case *ast.IncDecStmt, *ast.GoStmt, *ast.FuncLit:
					fail(y, "%s: %T inside the query-evaluation region", d.Name.Name, y)
				}
				return true
			})
			guard("evalFails = true", "StateOut.err \"err\"")
		case *ast.AssignStmt:
			if len(x.Lhs) != 1 || len(x.Rhs) != 1 || x.Tok != token.ASSIGN {
				fail(s, "%s: assignment form", d.Name.Name)
			}
			switch loose(x.Lhs[0]) {
			case recv + ".view":
				switch loose(x.Rhs[0]) {
				case "nil":
					b.WriteString(ind + "let viewNil := true\n")
				case "view":
					b.WriteString(ind + "let viewNil := false\n")
				default:
					fail(s, "%s: %s.view = %s", d.Name.Name, recv, loose(x.Rhs[0]))
				}
			case recv + ".index":
				b.WriteString(ind + "let index := " + f.intExpr(x.Rhs[0]) + "\n")
			case recv + ".fetched":
				b.WriteString(ind + "let fetched := " + f.boolExpr(x.Rhs[0]) + "\n")
			default:
				fail(s, "%s: assignment to %s", d.Name.Name, loose(x.Lhs[0]))
			}
		case *ast.ReturnStmt:
			if len(x.Results) != 1 || loose(x.Results[0]) != "nil" || i != len(stmts)-1 {
				fail(s, "%s: final return form", d.Name.Name)
			}
			b.WriteString(ind + "StateOut.ok viewNil index fetched\n")
			done = true
		default:
			fail(s, "%s: statement %T", d.Name.Name, s)
		}
	}
	if !done {
		fail(d, "%s: no final `return nil`", d.Name.Name)
	}
	return b.String()
}

func ctorName(e ast.Expr) string {
	switch x := e.(type) {
	case *ast.CallExpr:
		if id, ok := x.Fun.(*ast.Ident); ok {
			return id.Name
		}
	case *ast.Ident:
		return x.Name
	}
	fail(e, "returned error is neither a constructor call nor a variable: %s", loose(e))
	return ""
}

// ---------- decision code of CursorMap ----------

// decisionFn: `if C { … return X }` chains over reviewed conditions; effects (calls) become tokens.
//
//	def name (params : Bool) : List String × String     -- effects, returned error ("nil" = none)
func decisionFn(d *ast.FuncDecl, leanName string) string {
	params := []string{}
	seen := map[string]bool{}
	use := func(p string) string {
		if !seen[p] {
			seen[p] = true
			params = append(params, p)
		}
		return p
	}
	var comp func(stmts []ast.Stmt, eff []string, ind string) string
	cond := func(x *ast.IfStmt) string {
		if x.Init != nil {
			// cur, ok := m.Load(name.Literal); ok
			if a, ok := x.Init.(*ast.AssignStmt); ok && a.Tok == token.DEFINE && len(a.Lhs) == 2 && len(a.Rhs) == 1 &&
				strings.HasPrefix(loose(a.Rhs[0]), "m.Load(") && loose(a.Lhs[1]) == "ok" && loose(x.Cond) == "ok" {
				return use("found")
			}
			fail(x, "%s: if-init form %s", d.Name.Name, looseStmt(x.Init))
		}
		c := loose(x.Cond)
		switch {
		case strings.HasPrefix(c, "m.Exists(") && strings.HasSuffix(c, ")"):
			return use("present")
		case c == "cur.isPseudo":
			return use("isPseudo")
		}
		fail(x, "%s: condition %s", d.Name.Name, c)
		return ""
	}
	comp = func(stmts []ast.Stmt, eff []string, ind string) string {
		if len(stmts) == 0 {
			return ""
		}
		s, rest := stmts[0], stmts[1:]
		switch x := s.(type) {
		case *ast.ReturnStmt:
			if len(x.Results) != 1 {
				fail(s, "%s: return arity", d.Name.Name)
			}
			r := "nil"
			if loose(x.Results[0]) != "nil" {
				r = ctorName(x.Results[0])
			}
			return ind + "(" + leanStrList(eff) + ", \"" + r + "\")\n"
		case *ast.ExprStmt:
			if _, ok := x.X.(*ast.CallExpr); !ok {
				fail(s, "%s: expression statement", d.Name.Name)
			}
			return comp(rest, append(append([]string{}, eff...), strict(x.X)), ind)
		case *ast.IfStmt:
			if x.Else != nil {
				fail(s, "%s: else", d.Name.Name)
			}
			c := cond(x)
			body := x.Body.List
			if _, ok := body[len(body)-1].(*ast.ReturnStmt); !ok {
				fail(s, "%s: if body does not end in return", d.Name.Name)
			}
			return ind + "if " + c + " = true then\n" + comp(body, eff, ind+"  ") + ind + "else\n" + comp(rest, eff, ind+"  ")
		}
		fail(s, "%s: statement %T", d.Name.Name, s)
		return ""
	}
	body := comp(d.Body.List, nil, "  ")
	if body == "" {
		fail(d, "%s: control falls off the end", d.Name.Name)
	}
	sig := ""
	for _, p := range []string{"present", "found", "isPseudo"} {
		if seen[p] {
			sig += " (" + p + " : Bool)"
		}
	}
	return "def " + leanName + sig + " : List String × String :=\n" + body
}

// ---------- evalCursorStatus ----------

// Shape translated (anything else exits 1):
//
//	var t ternary.Value; var err error
//	switch expr.Type.Token { case parser.X: t, err = scope.M(expr.Cursor); if err != nil { return nil, err } … }
//	if !expr.Negation.IsEmpty() { t = ternary.Not(t) }
//	return value.NewTernary(t), nil
func statusFn(d *ast.FuncDecl) string {
	st := d.Body.List
	if len(st) != 5 {
		fail(d, "evalCursorStatus: %d top-level statements, 5 expected (var t, var err, switch, negation, return)", len(st))
	}
	if got := fx(st[:2]); strings.Join(got, "|") != "var t ternary.Value|var err error" {
		fail(st[0], "evalCursorStatus: declarations %v", got)
	}
	sw, ok := st[2].(*ast.SwitchStmt)
	if !ok || sw.Init != nil || loose(sw.Tag) != "expr.Type.Token" {
		fail(st[2], "evalCursorStatus: switch over expr.Type.Token expected")
	}
	var toks, alts []string
	for _, c0 := range sw.Body.List {
		cc := c0.(*ast.CaseClause)
		if len(cc.List) != 1 || !strings.HasPrefix(loose(cc.List[0]), "parser.") {
			fail(cc, "evalCursorStatus: case label")
		}
		tok := strings.TrimPrefix(loose(cc.List[0]), "parser.")
		got := fx(cc.Body)
		if len(got) != 4 || got[1] != "if[err != nil]{" || got[2] != "return nil, err" || got[3] != "}" {
			fail(cc, "evalCursorStatus: case body is not `t, err = scope.M(expr.Cursor); if err != nil { return nil, err }`: %v", got)
		}
		var par string
		switch got[0] {
		case "t, err = scope.CursorIsOpen(expr.Cursor)":
			par = "cursorIsOpen"
		case "t, err = scope.CursorIsInRange(expr.Cursor)":
			par = "cursorIsInRange"
		default:
			fail(cc, "evalCursorStatus: %s", got[0])
		}
		toks = append(toks, tok)
		alts = append(alts, "    | StatusTok."+tok+" => "+par+"\n")
	}
	neg := fx(st[3:4])
	if len(neg) != 3 || neg[0] != "if[!expr.Negation.IsEmpty()]{" || neg[2] != "}" {
		fail(st[3], "evalCursorStatus: negation statement %v", neg)
	}
	var negTerm string
	switch neg[1] {
	case "t = ternary.Not(t)":
		negTerm = "Tern.not t"
	default:
		fail(st[3], "evalCursorStatus: the negated spelling is computed by `%s` (reviewed: ternary.Not(t))", neg[1])
	}
	if got := fx(st[4:]); got[0] != "return value.NewTernary(t), nil" {
		fail(st[4], "evalCursorStatus: %s", got[0])
	}
	var b strings.Builder
	b.WriteString("inductive StatusTok\n")
	for _, t := range toks {
		b.WriteString("  | " + t + "\n")
	}
	b.WriteString("  | other\n  deriving DecidableEq, Repr\n\n")
	b.WriteString("/-- `none`: the error of the scope call is returned; `tZero`: the zero value of ternary.Value -/\n")
	b.WriteString("def evalCursorStatus (tok : StatusTok) (negation : Bool) (cursorIsOpen cursorIsInRange : Option Tern) (tZero : Tern) : Option Tern :=\n")
	b.WriteString("  match (match tok with\n" + strings.Join(alts, "") + "    | StatusTok.other => some tZero) with\n")
	b.WriteString("  | none => none\n  | some t => some (if negation = true then " + negTerm + " else t)\n")
	return b.String()
}

// ---------- main ----------

func compositeFields(d *ast.FuncDecl) []string {
	var out []string
	for _, s := range d.Body.List {
		r, ok := s.(*ast.ReturnStmt)
		if !ok {
			continue
		}
		if len(r.Results) != 1 {
			fail(r, "%s: return arity", d.Name.Name)
		}
		u, ok := r.Results[0].(*ast.UnaryExpr)
		if !ok || u.Op != token.AND {
			fail(r, "%s: does not return &Cursor{…}", d.Name.Name)
		}
		cl, ok := u.X.(*ast.CompositeLit)
		if !ok || loose(cl.Type) != "Cursor" {
			fail(r, "%s: does not return &Cursor{…}", d.Name.Name)
		}
		for _, e := range cl.Elts {
			out = append(out, strict(e))
		}
	}
	if out == nil {
		fail(d, "%s: no &Cursor{…} returned", d.Name.Name)
	}
	return out
}

func mainOps(args []string) {
	if len(args) != 5 {
		fmt.Fprintln(os.Stderr, "usage: cursorfetch ops <cursor.go> <processor.go> <eval.go> <reference_scope.go> <query.go>")
		os.Exit(2)
	}
	cur, proc, eval, rsf, qry := parseOrDie(args[0]), parseOrDie(args[1]), parseOrDie(args[2]), parseOrDie(args[3]), parseOrDie(args[4])

	var b strings.Builder
	b.WriteString("/-\n  GENERATED by /verif/extract/cursorfetch (mode ops) from lib/query/cursor.go, processor.go, eval.go,\n  reference_scope.go — do not edit.\n-/\n")
	b.WriteString("import Csvq.Model.Basic\nnamespace Csvq.Gen.CursorOps\nopen Csvq\n\n")
	b.WriteString("/-- outcome of a state-changing method of *Cursor: the error constructor, or the new\n    (view == nil, index, fetched) -/\n")
	b.WriteString("inductive StateOut\n  | err (ctor : String)\n  | ok (viewNil : Bool) (index : Int) (fetched : Bool)\n  deriving DecidableEq, Repr\n\n")
	b.WriteString(stateFn(findFunc(cur, "Cursor", "Open"), "cursorOpen") + "\n")
	b.WriteString(stateFn(findFunc(cur, "Cursor", "Close"), "cursorClose") + "\n")

	// IsOpen: return ternary.ConvertFromBool(c.view != nil)
	io := findFunc(cur, "Cursor", "IsOpen")
	if got := fx(io.Body.List); len(got) != 1 || got[0] != "return ternary.ConvertFromBool("+io.Recv.List[0].Names[0].Name+".view != nil)" {
		fail(io, "IsOpen: %v", got)
	}
	b.WriteString("def cursorIsOpen (viewNil : Bool) : Bool := (!viewNil)\n\n")
	pt := findFunc(cur, "Cursor", "Pointer")
	if got := fx(pt.Body.List); len(got) != 1 || got[0] != "return "+pt.Recv.List[0].Names[0].Name+".index, nil" {
		fail(pt, "Pointer: %v", got)
	}
	b.WriteString("def cursorPointer (index : Int) : Int := index\n\n")

	b.WriteString(decisionFn(findFunc(cur, "CursorMap", "Declare"), "mapDeclare") + "\n")
	b.WriteString(decisionFn(findFunc(cur, "CursorMap", "AddPseudoCursor"), "mapAddPseudoCursor") + "\n")
	b.WriteString(decisionFn(findFunc(cur, "CursorMap", "Dispose"), "mapDispose") + "\n")

	b.WriteString(statusFn(findFunc(eval, "", "evalCursorStatus")) + "\n")

	list := func(name, doc string, l []string) {
		b.WriteString("/-- " + doc + " -/\ndef " + name + " : List String := " + leanStrList(l) + "\n\n")
	}
	list("fxWhileInCursor", "(*Processor).WhileInCursor, whole statement structure", fx(findFunc(proc, "Processor", "WhileInCursor").Body.List))
	list("fxFetchCursor", "func FetchCursor (query.go): position / number, the cursor is moved, THEN the number of variables is compared", fx(findFunc(qry, "", "FetchCursor").Body.List))
	list("fxNewCursor", "fields NewCursor sets (view, index, fetched, isPseudo keep their zero values)", compositeFields(findFunc(cur, "", "NewCursor")))
	list("fxNewPseudoCursor", "fields NewPseudoCursor sets", compositeFields(findFunc(cur, "", "NewPseudoCursor")))
	for _, m := range []string{"Store", "Load", "Delete", "Exists", "Open", "Close", "Fetch", "IsOpen", "IsInRange", "Count"} {
		list("fxMap"+m, "CursorMap."+m, fx(findFunc(cur, "CursorMap", m).Body.List))
	}
	for _, m := range []string{"DeclareCursor", "DisposeCursor", "OpenCursor", "CloseCursor", "FetchCursor", "CursorIsOpen", "CursorIsInRange", "CursorCount"} {
		list("fxScope"+m, "(*ReferenceScope)."+m, fx(findFunc(rsf, "ReferenceScope", m).Body.List))
	}
	b.WriteString("end Csvq.Gen.CursorOps\n")
	fmt.Print(b.String())
}
