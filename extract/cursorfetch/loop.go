// Mode `loop`: facts about how WHILE … IN reaches the cursor.
//
//	go run . loop <lib/query>/processor.go <lib/query>/query.go <lib/query>/reference_scope.go
//
// Emitted (Gen/CursorLoop.lean), as rendered source text in source order:
//
//	whileInPre    the statements of (*Processor).WhileInCursor in front of its `for`
//	whileInLoop   every call inside that `for`
//	whileInPost   the statements after the `for`
//	fetchCursor   the cursor-related calls of func FetchCursor (query.go)
//	scopeFetch    the loop header and the calls of (*ReferenceScope).FetchCursor
//
// The theorem C16.gen_while_in_looks_up_by_name compares them with what the model assumes: the cursor
// is fetched BY NAME through the scope chain inside the loop, after the loop's block was cleared; no
// cursor object is obtained in front of the loop.
package main

import (
	"fmt"
	"go/ast"
	"go/parser"
	"os"
	"strings"
)

// loose renders any expression; constructs the tight printer `src` does not know become their node type.
func loose(e ast.Expr) string {
	switch x := e.(type) {
	case nil:
		return ""
	case *ast.Ident:
		return x.Name
	case *ast.BasicLit:
		return x.Value
	case *ast.SelectorExpr:
		return loose(x.X) + "." + x.Sel.Name
	case *ast.CallExpr:
		args := make([]string, len(x.Args))
		for i, a := range x.Args {
			args[i] = loose(a)
		}
		return loose(x.Fun) + "(" + strings.Join(args, ", ") + ")"
	case *ast.UnaryExpr:
		return x.Op.String() + loose(x.X)
	case *ast.BinaryExpr:
		return loose(x.X) + " " + x.Op.String() + " " + loose(x.Y)
	case *ast.IndexExpr:
		return loose(x.X) + "[" + loose(x.Index) + "]"
	case *ast.ParenExpr:
		return "(" + loose(x.X) + ")"
	case *ast.ArrayType:
		return "[" + loose(x.Len) + "]" + loose(x.Elt)
	case *ast.StarExpr:
		return "*" + loose(x.X)
	case *ast.MapType:
		return "map[" + loose(x.Key) + "]" + loose(x.Value)
	case *ast.TypeAssertExpr:
		return loose(x.X) + ".(" + loose(x.Type) + ")"
	case *ast.KeyValueExpr:
		return loose(x.Key) + ": " + loose(x.Value)
	case *ast.CompositeLit:
		el := make([]string, len(x.Elts))
		for i, a := range x.Elts {
			el[i] = loose(a)
		}
		return loose(x.Type) + "{" + strings.Join(el, ", ") + "}"
	}
	return fmt.Sprintf("<%T>", e)
}

func looseStmt(s ast.Stmt) string {
	switch x := s.(type) {
	case *ast.AssignStmt:
		l := make([]string, len(x.Lhs))
		for i := range x.Lhs {
			l[i] = loose(x.Lhs[i])
		}
		r := make([]string, len(x.Rhs))
		for i := range x.Rhs {
			r[i] = loose(x.Rhs[i])
		}
		return strings.Join(l, ", ") + " " + x.Tok.String() + " " + strings.Join(r, ", ")
	case *ast.DeferStmt:
		return "defer " + loose(x.Call)
	case *ast.ExprStmt:
		return loose(x.X)
	case *ast.ReturnStmt:
		r := make([]string, len(x.Results))
		for i := range x.Results {
			r[i] = loose(x.Results[i])
		}
		return "return " + strings.Join(r, ", ")
	case *ast.IfStmt:
		// rendered with the calls it contains: an `if` in front of the loop is where a cursor could be obtained
		return "if " + looseStmtOpt(x.Init) + loose(x.Cond) + " {" + strings.Join(callsIn(x.Body), "; ") + "}"
	}
	return fmt.Sprintf("<%T>", s)
}

func looseStmtOpt(s ast.Stmt) string {
	if s == nil {
		return ""
	}
	return looseStmt(s) + "; "
}

func callsIn(n ast.Node) []string {
	out := []string{}
	ast.Inspect(n, func(m ast.Node) bool {
		if c, ok := m.(*ast.CallExpr); ok {
			out = append(out, loose(c))
		}
		return true
	})
	return out
}

func findFunc(file *ast.File, recv, name string) *ast.FuncDecl {
	var found *ast.FuncDecl
	for _, d := range file.Decls {
		fd, ok := d.(*ast.FuncDecl)
		if !ok || fd.Name.Name != name || fd.Body == nil {
			continue
		}
		r := ""
		if fd.Recv != nil && len(fd.Recv.List) == 1 {
			if st, ok := fd.Recv.List[0].Type.(*ast.StarExpr); ok {
				r = loose(st.X)
			} else {
				r = loose(fd.Recv.List[0].Type)
			}
		}
		if r == recv {
			if found != nil {
				fail(fd, "%s.%s declared twice", recv, name)
			}
			found = fd
		}
	}
	if found == nil {
		fail(nil, "function %s.%s not found", recv, name)
	}
	return found
}

func parseOrDie(path string) *ast.File {
	f, err := parser.ParseFile(fset, path, nil, 0)
	if err != nil {
		fmt.Fprintln(os.Stderr, "cursorfetch:", err)
		os.Exit(1)
	}
	return f
}

func filterCursor(calls []string) []string {
	out := []string{}
	for _, c := range calls {
		if strings.Contains(c, "Cursor") || strings.Contains(c, ".Fetch(") {
			out = append(out, c)
		}
	}
	return out
}

func mainLoop(args []string) {
	if len(args) != 3 {
		fmt.Fprintln(os.Stderr, "usage: cursorfetch loop <processor.go> <query.go> <reference_scope.go>")
		os.Exit(2)
	}
	proc, qry, rsf := parseOrDie(args[0]), parseOrDie(args[1]), parseOrDie(args[2])

	w := findFunc(proc, "Processor", "WhileInCursor")
	var pre, post, loopCalls []string
	seenFor := false
	for _, s := range w.Body.List {
		if f, ok := s.(*ast.ForStmt); ok {
			if seenFor {
				fail(s, "WhileInCursor: second for statement")
			}
			if f.Init != nil || f.Cond != nil || f.Post != nil {
				fail(s, "WhileInCursor: the loop is not a bare `for {`")
			}
			seenFor = true
			loopCalls = callsIn(f.Body)
			continue
		}
		if _, ok := s.(*ast.RangeStmt); ok {
			fail(s, "WhileInCursor: range statement at top level")
		}
		if seenFor {
			post = append(post, looseStmt(s))
		} else {
			pre = append(pre, looseStmt(s))
		}
	}
	if !seenFor {
		fail(w, "WhileInCursor: no for statement")
	}

	fc := findFunc(qry, "", "FetchCursor")
	fetchCalls := filterCursor(callsIn(fc.Body))

	sf := findFunc(rsf, "ReferenceScope", "FetchCursor")
	var scopeFetch []string
	for _, s := range sf.Body.List {
		switch x := s.(type) {
		case *ast.RangeStmt:
			scopeFetch = append(scopeFetch, "for "+loose(x.Key)+" := range "+loose(x.X))
			scopeFetch = append(scopeFetch, callsIn(x.Body)...)
		case *ast.ForStmt:
			fail(s, "ReferenceScope.FetchCursor: for statement form")
		default:
			scopeFetch = append(scopeFetch, callsIn(s)...)
		}
	}

	var b strings.Builder
	b.WriteString("/-\n  GENERATED by /verif/extract/cursorfetch (mode loop) from lib/query/processor.go, query.go,\n  reference_scope.go — do not edit.  How WHILE … IN reaches its cursor, as rendered source text.\n-/\n")
	b.WriteString("namespace Csvq.Gen.CursorLoop\n\n")
	b.WriteString("/-- statements of (*Processor).WhileInCursor in front of its `for` -/\ndef whileInPre : List String := " + leanStrList(pre) + "\n\n")
	b.WriteString("/-- every call inside the `for`, in source order -/\ndef whileInLoop : List String := " + leanStrList(loopCalls) + "\n\n")
	b.WriteString("/-- statements after the `for` -/\ndef whileInPost : List String := " + leanStrList(post) + "\n\n")
	b.WriteString("/-- cursor-related calls of FetchCursor (query.go) -/\ndef fetchCursor : List String := " + leanStrList(fetchCalls) + "\n\n")
	b.WriteString("/-- loop header and calls of (*ReferenceScope).FetchCursor -/\ndef scopeFetch : List String := " + leanStrList(scopeFetch) + "\n\n")
	b.WriteString("end Csvq.Gen.CursorLoop\n")
	fmt.Print(b.String())
}
