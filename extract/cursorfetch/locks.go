// Mode `locks`: the lock discipline of lib/query/cursor.go.
//
//	go run . locks <lib/query>/cursor.go
//
// For every function / method of the file: the structured sequence of the mutex operations and the
// returns (`lock`, `unlock`, `defer-unlock`, `return`, with `if{ … }`, `else{ … }`, `switch{`, `case{`,
// `for{`), and the list of its control-flow PATHS (every branch combination; loop bodies zero times and
// once) as flat token lists ending at a `return` / the end of the body.  The theorem
// C16.gen_cursor_locks_balanced checks every path: no return while the mutex is held unless the unlock
// is deferred, no double lock, no unlock of an unlocked mutex.
//
// Fail-closed: goto, labels, select, go statements, function literals, a mutex operation that is not
// `<recv>.mtx.Lock()` / `<recv>.mtx.Unlock()` as a statement of its own, more than 4096 paths → exit 1.
package main

import (
	"fmt"
	"go/ast"
	"os"
	"sort"
	"strings"
)

func lockTok(e ast.Expr) string {
	c, ok := e.(*ast.CallExpr)
	if !ok {
		return ""
	}
	s := loose(c)
	switch {
	case strings.HasSuffix(s, ".mtx.Lock()"):
		return "lock"
	case strings.HasSuffix(s, ".mtx.Unlock()"):
		return "unlock"
	}
	return ""
}

// mentionsMutex: a mutex operation hidden inside an expression / another statement form
func mentionsMutex(n ast.Node) bool {
	found := false
	ast.Inspect(n, func(m ast.Node) bool {
		if s, ok := m.(*ast.SelectorExpr); ok && (s.Sel.Name == "Lock" || s.Sel.Name == "Unlock" || s.Sel.Name == "RLock" || s.Sel.Name == "RUnlock" || s.Sel.Name == "TryLock") {
			found = true
		}
		return !found
	})
	return found
}

type lpath struct {
	toks []string
	done bool // ended in a return
}

func extend(ps []lpath, tok string, done bool) []lpath {
	out := make([]lpath, 0, len(ps))
	for _, p := range ps {
		if p.done {
			out = append(out, p)
			continue
		}
		q := lpath{toks: append(append([]string{}, p.toks...), tok), done: done}
		out = append(out, q)
	}
	return out
}

// walk: structured tokens + paths
func lockWalk(stmts []ast.Stmt, ps []lpath, st *[]string) []lpath {
	for _, s := range stmts {
		if len(ps) > 4096 {
			fail(s, "more than 4096 control-flow paths")
		}
		switch x := s.(type) {
		case *ast.ExprStmt:
			if t := lockTok(x.X); t != "" {
				*st = append(*st, t)
				ps = extend(ps, t, false)
			} else if mentionsMutex(x) {
				fail(s, "mutex operation inside an expression: %s", loose(x.X))
			}
		case *ast.DeferStmt:
			if t := lockTok(x.Call); t == "unlock" {
				*st = append(*st, "defer-unlock")
				ps = extend(ps, "defer-unlock", false)
			} else if t != "" || mentionsMutex(x) {
				fail(s, "deferred mutex operation other than Unlock: %s", loose(x.Call))
			}
		case *ast.ReturnStmt:
			if mentionsMutex(x) {
				fail(s, "mutex operation inside a return")
			}
			*st = append(*st, "return")
			ps = extend(ps, "return", true)
		case *ast.IfStmt:
			if (x.Init != nil && mentionsMutex(x.Init)) || mentionsMutex(x.Cond) {
				fail(s, "mutex operation inside an if header")
			}
			var live, rest []lpath
			for _, p := range ps {
				if p.done {
					rest = append(rest, p)
				} else {
					live = append(live, p)
				}
			}
			*st = append(*st, "if{")
			a := lockWalk(x.Body.List, live, st)
			*st = append(*st, "}")
			var b []lpath
			switch el := x.Else.(type) {
			case nil:
				b = live
			case *ast.BlockStmt:
				*st = append(*st, "else{")
				b = lockWalk(el.List, live, st)
				*st = append(*st, "}")
			case *ast.IfStmt:
				*st = append(*st, "else{")
				b = lockWalk([]ast.Stmt{el}, live, st)
				*st = append(*st, "}")
			}
			ps = append(append(rest, a...), b...)
		case *ast.SwitchStmt, *ast.TypeSwitchStmt:
			var body *ast.BlockStmt
			if sw, ok := x.(*ast.SwitchStmt); ok {
				body = sw.Body
				if (sw.Init != nil && mentionsMutex(sw.Init)) || (sw.Tag != nil && mentionsMutex(sw.Tag)) {
					fail(s, "mutex operation inside a switch header")
				}
			} else {
				body = x.(*ast.TypeSwitchStmt).Body
			}
			var live, rest []lpath
			for _, p := range ps {
				if p.done {
					rest = append(rest, p)
				} else {
					live = append(live, p)
				}
			}
			*st = append(*st, "switch{")
			hasDefault := false
			out := rest
			for _, c0 := range body.List {
				cc := c0.(*ast.CaseClause)
				if cc.List == nil {
					hasDefault = true
				}
				for _, b := range cc.Body {
					if br, ok := b.(*ast.BranchStmt); ok && br.Tok.String() == "fallthrough" {
						fail(b, "fallthrough")
					}
				}
				*st = append(*st, "case{")
				out = append(out, lockWalk(cc.Body, live, st)...)
				*st = append(*st, "}")
			}
			*st = append(*st, "}")
			if !hasDefault {
				out = append(out, live...)
			}
			ps = out
		case *ast.ForStmt, *ast.RangeStmt:
			var body *ast.BlockStmt
			if f, ok := x.(*ast.ForStmt); ok {
				body = f.Body
			} else {
				body = x.(*ast.RangeStmt).Body
			}
			var live, rest []lpath
			for _, p := range ps {
				if p.done {
					rest = append(rest, p)
				} else {
					live = append(live, p)
				}
			}
			*st = append(*st, "for{")
			once := lockWalk(body.List, live, st)
			*st = append(*st, "}")
			// zero times and once (break / continue inside: the path goes on after the loop)
			ps = append(append(rest, live...), once...)
		case *ast.BlockStmt:
			ps = lockWalk(x.List, ps, st)
		case *ast.BranchStmt:
			if x.Label != nil || x.Tok.String() == "goto" {
				fail(s, "goto / labelled branch")
			}
			// break / continue: over-approximated by going on with the statements that follow
		case *ast.AssignStmt, *ast.DeclStmt, *ast.IncDecStmt, *ast.EmptyStmt:
			if mentionsMutex(x) {
				fail(s, "mutex operation inside %T", s)
			}
		default:
			fail(s, "statement %T", s)
		}
	}
	return ps
}

func mainLocks(args []string) {
	if len(args) != 1 {
		fmt.Fprintln(os.Stderr, "usage: cursorfetch locks <cursor.go>")
		os.Exit(2)
	}
	file := parseOrDie(args[0])
	var b strings.Builder
	b.WriteString("/-\n  GENERATED by /verif/extract/cursorfetch (mode locks) from lib/query/cursor.go — do not edit.\n")
	b.WriteString("  Per function: the structured sequence of mutex operations and returns, and every control-flow path.\n-/\n")
	b.WriteString("namespace Csvq.Gen.CursorLocks\n\n")
	var names []string
	structs := map[string][]string{}
	paths := map[string][][]string{}
	for _, d := range file.Decls {
		fd, ok := d.(*ast.FuncDecl)
		if !ok || fd.Body == nil {
			continue
		}
		ast.Inspect(fd.Body, func(n ast.Node) bool {
			switch n.(type) {
			case *ast.FuncLit, *ast.GoStmt, *ast.SelectStmt, *ast.LabeledStmt:
				if mentionsMutex(n) {
					fail(n, "%s: mutex operation under %T", fd.Name.Name, n)
				}
			}
			return true
		})
		name := fd.Name.Name
		if fd.Recv != nil && len(fd.Recv.List) == 1 {
			t := fd.Recv.List[0].Type
			if st, ok := t.(*ast.StarExpr); ok {
				t = st.X
			}
			name = loose(t) + "." + name
		}
		if _, dup := structs[name]; dup {
			fail(fd, "%s declared twice", name)
		}
		var st []string
		ps := lockWalk(fd.Body.List, []lpath{{}}, &st)
		seen := map[string]bool{}
		var pl [][]string
		for _, p := range ps {
			k := strings.Join(p.toks, " ")
			if !seen[k] {
				seen[k] = true
				pl = append(pl, p.toks)
			}
		}
		sort.Slice(pl, func(i, j int) bool { return strings.Join(pl[i], " ") < strings.Join(pl[j], " ") })
		names = append(names, name)
		structs[name] = st
		paths[name] = pl
	}
	if len(names) == 0 {
		fail(nil, "no function found in %s", args[0])
	}
	b.WriteString("/-- (function, structured mutex operations and returns) -/\ndef skeleton : List (String × List String) := [\n")
	for i, n := range names {
		sep := ","
		if i == len(names)-1 {
			sep = ""
		}
		b.WriteString("  (\"" + n + "\", " + leanStrList(structs[n]) + ")" + sep + "\n")
	}
	b.WriteString("]\n\n/-- (function, every control-flow path as the mutex operations met, ending at a return or the end of the body) -/\n")
	b.WriteString("def paths : List (String × List (List String)) := [\n")
	for i, n := range names {
		sep := ","
		if i == len(names)-1 {
			sep = ""
		}
		pl := make([]string, len(paths[n]))
		for j, p := range paths[n] {
			pl[j] = leanStrList(p)
		}
		b.WriteString("  (\"" + n + "\", [" + strings.Join(pl, ", ") + "])" + sep + "\n")
	}
	b.WriteString("]\n")
	b.WriteString(traceSection(file))
	b.WriteString("\nend Csvq.Gen.CursorLocks\n")
	fmt.Print(b.String())
}
