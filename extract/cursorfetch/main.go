// cursorfetch: translate the cursor state machine of lib/query/cursor.go into Lean.
//
//	go run . /repo/lib/query/cursor.go  > lean/Csvq/Gen/CursorFetch.lean
//
// Translated (methods of *Cursor):
//
//	Fetch      the whole body: closed check, `fetched`, the switch over the position constants, the
//	           additions/subtractions (Go int, emitted as wrap64), the clamping ifs, the row that is returned
//	IsInRange  the whole body
//	Count      the whole body
//	Open/Close the guards that return an error and the assignments to receiver fields, as facts
//
// The supported subset of Go is deliberately tiny.  ANY construct outside it makes the program exit
// non-zero with a message naming the source position: the check then reports an undischarged
// obligation, never "holds".
package main

import (
	"fmt"
	"go/ast"
	"go/parser"
	"go/token"
	"os"
	"strings"
)

var fset = token.NewFileSet()

func fail(n ast.Node, format string, a ...interface{}) {
	pos := "?"
	if n != nil {
		pos = fset.Position(n.Pos()).String()
	}
	fmt.Fprintf(os.Stderr, "cursorfetch: %s: unsupported: %s\n", pos, fmt.Sprintf(format, a...))
	os.Exit(1)
}

// src renders an expression in a canonical Go-like spelling (used to recognise fixed patterns).
func src(e ast.Expr) string {
	switch x := e.(type) {
	case *ast.Ident:
		return x.Name
	case *ast.BasicLit:
		return x.Value
	case *ast.SelectorExpr:
		return src(x.X) + "." + x.Sel.Name
	case *ast.CallExpr:
		args := make([]string, len(x.Args))
		for i, a := range x.Args {
			args[i] = src(a)
		}
		return src(x.Fun) + "(" + strings.Join(args, ", ") + ")"
	case *ast.UnaryExpr:
		return x.Op.String() + src(x.X)
	case *ast.BinaryExpr:
		return src(x.X) + " " + x.Op.String() + " " + src(x.Y)
	case *ast.IndexExpr:
		return src(x.X) + "[" + src(x.Index) + "]"
	case *ast.ParenExpr:
		return "(" + src(x.X) + ")"
	case *ast.ArrayType:
		if x.Len != nil {
			fail(e, "array type with length")
		}
		return "[]" + src(x.Elt)
	case *ast.StarExpr:
		return "*" + src(x.X)
	}
	fail(e, "expression %T", e)
	return ""
}

// ---------- one method being translated ----------

type fn struct {
	name    string
	recv    string            // receiver identifier
	intPar  map[string]bool   // parameters of type int
	tagPar  string            // parameter used as switch tag (becomes PosTok), "" if none
	outType string            // Lean result type
	ret     func(f *fn, r *ast.ReturnStmt) string
	tokens  []string          // constants named in the switch, in source order
	hasTail bool
}

// intExpr: Go int expression -> Lean Int term.  `+` and `-` wrap as Go's int (64 bit) does.
func (f *fn) intExpr(e ast.Expr) string {
	switch x := e.(type) {
	case *ast.BasicLit:
		if x.Kind != token.INT {
			fail(e, "literal %s", x.Value)
		}
		for _, c := range x.Value {
			if c < '0' || c > '9' {
				fail(e, "non-decimal literal %s", x.Value)
			}
		}
		return x.Value
	case *ast.ParenExpr:
		return f.intExpr(x.X)
	case *ast.UnaryExpr:
		if lit, ok := x.X.(*ast.BasicLit); ok && x.Op == token.SUB && lit.Kind == token.INT {
			return "(-" + f.intExpr(lit) + ")"
		}
		fail(e, "unary %s in integer expression", x.Op)
	case *ast.Ident:
		if f.intPar[x.Name] && x.Name != f.tagPar {
			return x.Name
		}
		fail(e, "identifier %s in integer expression", x.Name)
	case *ast.SelectorExpr:
		switch src(x) {
		case f.recv + ".index":
			return "index"
		case "math.MaxInt", "math.MaxInt64": // Go int is 64 bit on the platforms csvq is built for
			return "9223372036854775807"
		case "math.MinInt", "math.MinInt64":
			return "(-9223372036854775808)"
		}
		fail(e, "selector %s in integer expression", src(x))
	case *ast.CallExpr:
		if src(x) == f.recv+".view.RecordLen()" {
			return "recordLen"
		}
		fail(e, "call %s in integer expression", src(x))
	case *ast.BinaryExpr:
		switch x.Op {
		case token.ADD:
			return "wrap64 (" + f.intExpr(x.X) + " + " + f.intExpr(x.Y) + ")"
		case token.SUB:
			return "wrap64 (" + f.intExpr(x.X) + " - " + f.intExpr(x.Y) + ")"
		}
		fail(e, "integer operator %s", x.Op)
	}
	fail(e, "integer expression %T", e)
	return ""
}

// boolExpr: Go bool expression -> Lean Bool term.
func (f *fn) boolExpr(e ast.Expr) string {
	switch x := e.(type) {
	case *ast.ParenExpr:
		return f.boolExpr(x.X)
	case *ast.Ident:
		if x.Name == "true" || x.Name == "false" {
			return x.Name
		}
		fail(e, "identifier %s in boolean expression", x.Name)
	case *ast.SelectorExpr:
		if src(x) == f.recv+".fetched" {
			return "fetched"
		}
		fail(e, "selector %s in boolean expression", src(x))
	case *ast.UnaryExpr:
		if x.Op == token.NOT {
			return "(!" + f.boolExpr(x.X) + ")"
		}
		fail(e, "unary %s in boolean expression", x.Op)
	case *ast.BinaryExpr:
		s := src(x)
		if s == f.recv+".view == nil" {
			return "viewNil"
		}
		if s == f.recv+".view != nil" {
			return "(!viewNil)"
		}
		switch x.Op {
		case token.LAND:
			return "(" + f.boolExpr(x.X) + " && " + f.boolExpr(x.Y) + ")"
		case token.LOR:
			return "(" + f.boolExpr(x.X) + " || " + f.boolExpr(x.Y) + ")"
		case token.LSS:
			return "decide (" + f.intExpr(x.X) + " < " + f.intExpr(x.Y) + ")"
		case token.LEQ:
			return "decide (" + f.intExpr(x.X) + " ≤ " + f.intExpr(x.Y) + ")"
		case token.GTR:
			return "decide (" + f.intExpr(x.Y) + " < " + f.intExpr(x.X) + ")"
		case token.GEQ:
			return "decide (" + f.intExpr(x.Y) + " ≤ " + f.intExpr(x.X) + ")"
		case token.EQL:
			return "decide (" + f.intExpr(x.X) + " = " + f.intExpr(x.Y) + ")"
		case token.NEQ:
			return "(!decide (" + f.intExpr(x.X) + " = " + f.intExpr(x.Y) + "))"
		}
		fail(e, "boolean operator %s", x.Op)
	}
	fail(e, "boolean expression %T", e)
	return ""
}

// propExpr: Go bool expression used as an `if` condition -> Lean decidable Prop.
func (f *fn) propExpr(e ast.Expr) string {
	switch x := e.(type) {
	case *ast.ParenExpr:
		return f.propExpr(x.X)
	case *ast.UnaryExpr:
		if x.Op == token.NOT {
			return "¬ (" + f.propExpr(x.X) + ")"
		}
	case *ast.BinaryExpr:
		s := src(x)
		if s == f.recv+".view == nil" || s == f.recv+".view != nil" {
			break
		}
		switch x.Op {
		case token.LAND:
			return "(" + f.propExpr(x.X) + " ∧ " + f.propExpr(x.Y) + ")"
		case token.LOR:
			return "(" + f.propExpr(x.X) + " ∨ " + f.propExpr(x.Y) + ")"
		case token.LSS:
			return f.intExpr(x.X) + " < " + f.intExpr(x.Y)
		case token.LEQ:
			return f.intExpr(x.X) + " ≤ " + f.intExpr(x.Y)
		case token.GTR:
			return f.intExpr(x.Y) + " < " + f.intExpr(x.X)
		case token.GEQ:
			return f.intExpr(x.Y) + " ≤ " + f.intExpr(x.X)
		case token.EQL:
			return f.intExpr(x.X) + " = " + f.intExpr(x.Y)
		case token.NEQ:
			return "¬ (" + f.intExpr(x.X) + " = " + f.intExpr(x.Y) + ")"
		}
	}
	return f.boolExpr(e) + " = true"
}

// assign: `c.index = e` / `c.fetched = e` -> (state variable, Lean term)
func (f *fn) assign(s ast.Stmt) (string, string) {
	a, ok := s.(*ast.AssignStmt)
	if !ok || a.Tok != token.ASSIGN || len(a.Lhs) != 1 || len(a.Rhs) != 1 {
		fail(s, "statement %T where an assignment to a receiver field is expected", s)
	}
	switch src(a.Lhs[0]) {
	case f.recv + ".index":
		return "index", f.intExpr(a.Rhs[0])
	case f.recv + ".fetched":
		return "fetched", f.boolExpr(a.Rhs[0])
	}
	fail(s, "assignment to %s", src(a.Lhs[0]))
	return "", ""
}

// caseValue: the body of a case clause — one assignment, or an if / else-if / else chain of such
// bodies that all assign the same field — as (field, Lean term).
func (f *fn) caseValue(at ast.Node, stmts []ast.Stmt) (string, string) {
	if len(stmts) != 1 {
		fail(at, "case / branch body must be a single assignment or a single if-else chain")
	}
	if ifs, ok := stmts[0].(*ast.IfStmt); ok {
		if ifs.Init != nil || ifs.Else == nil {
			fail(ifs, "if in a case body needs an else (every path must assign the field)")
		}
		v1, e1 := f.caseValue(ifs, ifs.Body.List)
		var v2, e2 string
		switch el := ifs.Else.(type) {
		case *ast.BlockStmt:
			v2, e2 = f.caseValue(el, el.List)
		case *ast.IfStmt:
			v2, e2 = f.caseValue(el, []ast.Stmt{el})
		default:
			fail(ifs, "else form")
		}
		if v1 != v2 {
			fail(ifs, "branches assign different fields")
		}
		return v1, "(if " + f.propExpr(ifs.Cond) + " then " + e1 + " else " + e2 + ")"
	}
	return f.assign(stmts[0])
}

func isMutexCall(recv string, e ast.Expr) bool {
	s := src(e)
	return s == recv+".mtx.Lock()" || s == recv+".mtx.Unlock()"
}

const rowTail0 = "list := make([]value.Primary, len(%s.view.RecordSet[%s.index]))"
const rowTail1 = "for i := range %s.view.RecordSet[%s.index] { list[i] = %s.view.RecordSet[%s.index][i][0] }"
const rowTail2 = "return list, nil"

func stmtSrc(s ast.Stmt) string {
	switch x := s.(type) {
	case *ast.AssignStmt:
		l := make([]string, len(x.Lhs))
		for i := range x.Lhs {
			l[i] = src(x.Lhs[i])
		}
		r := make([]string, len(x.Rhs))
		for i := range x.Rhs {
			r[i] = src(x.Rhs[i])
		}
		return strings.Join(l, ", ") + " " + x.Tok.String() + " " + strings.Join(r, ", ")
	case *ast.RangeStmt:
		if x.Value != nil || x.Key == nil || x.Tok != token.DEFINE {
			fail(s, "range statement form")
		}
		b := make([]string, len(x.Body.List))
		for i := range x.Body.List {
			b[i] = stmtSrc(x.Body.List[i])
		}
		return "for " + src(x.Key) + " := range " + src(x.X) + " { " + strings.Join(b, "; ") + " }"
	case *ast.ReturnStmt:
		r := make([]string, len(x.Results))
		for i := range x.Results {
			r[i] = src(x.Results[i])
		}
		return "return " + strings.Join(r, ", ")
	}
	fail(s, "statement %T", s)
	return ""
}

// compile a statement list whose every path ends in a return into a Lean term.
func (f *fn) compile(stmts []ast.Stmt, ind string) string {
	if len(stmts) == 0 {
		fail(nil, "%s: control falls off the end of a block", f.name)
	}
	s, rest := stmts[0], stmts[1:]
	switch x := s.(type) {
	case *ast.ExprStmt:
		if isMutexCall(f.recv, x.X) {
			return f.compile(rest, ind)
		}
		fail(s, "expression statement %s", src(x.X))
	case *ast.DeferStmt:
		if isMutexCall(f.recv, x.Call) {
			return f.compile(rest, ind)
		}
		fail(s, "defer %s", src(x.Call))
	case *ast.ReturnStmt:
		if len(rest) != 0 {
			fail(rest[0], "statement after return")
		}
		return ind + f.ret(f, x) + "\n"
	case *ast.AssignStmt:
		if x.Tok == token.DEFINE {
			// the only local definition supported: the tail that copies the addressed record
			if f.name != "Fetch" || len(stmts) != 3 {
				fail(s, "local definition")
			}
			r := f.recv
			if stmtSrc(stmts[0]) != fmt.Sprintf(rowTail0, r, r) || stmtSrc(stmts[1]) != fmt.Sprintf(rowTail1, r, r, r, r) || stmtSrc(stmts[2]) != rowTail2 {
				fail(s, "the tail of Fetch is not `copy the first cell of every field of view.RecordSet[c.index]; return it`:\n  %s\n  %s\n  %s",
					stmtSrc(stmts[0]), stmtSrc(stmts[1]), stmtSrc(stmts[2]))
			}
			f.hasTail = true
			return ind + "FetchOut.row index fetched\n"
		}
		v, e := f.assign(s)
		return ind + "let " + v + " := " + e + "\n" + f.compile(rest, ind)
	case *ast.IfStmt:
		if x.Init != nil || x.Else != nil {
			fail(s, "if with init or else")
		}
		c := f.propExpr(x.Cond)
		body := x.Body.List
		if len(body) == 0 {
			fail(s, "empty if body")
		}
		if _, isRet := body[len(body)-1].(*ast.ReturnStmt); isRet {
			return ind + "if " + c + " then\n" + f.compile(body, ind+"  ") + ind + "else\n" + f.compile(rest, ind+"  ")
		}
		if len(body) != 1 {
			fail(s, "if body without return must be a single assignment")
		}
		v, e := f.assign(body[0])
		return ind + "let " + v + " := if " + c + " then " + e + " else " + v + "\n" + f.compile(rest, ind)
	case *ast.SwitchStmt:
		if x.Init != nil {
			fail(s, "switch with init")
		}
		tag, ok := x.Tag.(*ast.Ident)
		if !ok || tag.Name != f.tagPar {
			fail(s, "switch tag is not the position parameter")
		}
		if len(f.tokens) != 0 {
			fail(s, "second switch")
		}
		target := ""
		var alts []string
		def := ""
		for _, cc0 := range x.Body.List {
			cc := cc0.(*ast.CaseClause)
			v, e := f.caseValue(cc, cc.Body)
			if target == "" {
				target = v
			} else if target != v {
				fail(cc, "cases assign different fields")
			}
			if cc.List == nil {
				if def != "" {
					fail(cc, "two default clauses")
				}
				def = e
				continue
			}
			if len(cc.List) != 1 {
				fail(cc, "case with several values")
			}
			sel, ok := cc.List[0].(*ast.SelectorExpr)
			if !ok || src(sel.X) != "parser" {
				fail(cc, "case label %s is not a parser constant", src(cc.List[0]))
			}
			for _, t := range f.tokens {
				if t == sel.Sel.Name {
					fail(cc, "duplicate case %s", t)
				}
			}
			f.tokens = append(f.tokens, sel.Sel.Name)
			alts = append(alts, ind+"    | PosTok."+sel.Sel.Name+" => "+e+"\n")
		}
		if def == "" {
			def = target // no default clause: the field keeps its value
		}
		if target == "" {
			fail(s, "empty switch")
		}
		out := ind + "let " + target + " := (match " + f.tagPar + " with\n" + strings.Join(alts, "") + ind + "    | PosTok.other => " + def + ")\n"
		return out + f.compile(rest, ind)
	}
	fail(s, "statement %T", s)
	return ""
}

func retFetch(f *fn, r *ast.ReturnStmt) string {
	switch stmtSrc(r) {
	case "return nil, NewCursorClosedError(name)":
		return "FetchOut.closedError"
	case "return nil, nil":
		return "FetchOut.noRow index fetched"
	}
	fail(r, "return form in Fetch: %s", stmtSrc(r))
	return ""
}

func retInRange(f *fn, r *ast.ReturnStmt) string {
	if len(r.Results) != 2 {
		fail(r, "return arity")
	}
	a, b := r.Results[0], src(r.Results[1])
	switch {
	case src(a) == "ternary.FALSE" && b == "errCursorClosed":
		return "RangeOut.closedError"
	case src(a) == "ternary.UNKNOWN" && b == "nil":
		return "RangeOut.unknown"
	case b == "nil":
		if c, ok := a.(*ast.CallExpr); ok && src(c.Fun) == "ternary.ConvertFromBool" && len(c.Args) == 1 {
			return "RangeOut.bool " + f.boolExpr(c.Args[0])
		}
	}
	fail(r, "return form in IsInRange: %s", stmtSrc(r))
	return ""
}

func retCount(f *fn, r *ast.ReturnStmt) string {
	if len(r.Results) != 2 {
		fail(r, "return arity")
	}
	a, b := r.Results[0], src(r.Results[1])
	switch {
	case src(a) == "0" && b == "errCursorClosed":
		return "CountOut.closedError"
	case b == "nil":
		return "CountOut.value " + f.intExpr(a)
	}
	fail(r, "return form in Count: %s", stmtSrc(r))
	return ""
}

func newFn(d *ast.FuncDecl) *fn {
	f := &fn{name: d.Name.Name, intPar: map[string]bool{}}
	f.recv = d.Recv.List[0].Names[0].Name
	for _, p := range d.Type.Params.List {
		if id, ok := p.Type.(*ast.Ident); ok && id.Name == "int" {
			for _, n := range p.Names {
				f.intPar[n.Name] = true
			}
		}
	}
	return f
}

// facts of Open / Close: error-returning guards and receiver-field assignments at the top level
func facts(d *ast.FuncDecl) (guards, assigns []string) {
	recv := d.Recv.List[0].Names[0].Name
	for _, s := range d.Body.List {
		switch x := s.(type) {
		case *ast.IfStmt:
			if x.Init == nil && x.Else == nil && len(x.Body.List) == 1 {
				if r, ok := x.Body.List[0].(*ast.ReturnStmt); ok && len(r.Results) == 1 {
					if c, ok := r.Results[0].(*ast.CallExpr); ok {
						guards = append(guards, strings.Replace(src(x.Cond), recv+".", "c.", -1)+" => "+src(c.Fun))
						continue
					}
					if src(x.Cond) == "err != nil" && src(r.Results[0]) == "err" {
						guards = append(guards, "err != nil => err")
						continue
					}
				}
			}
			// other ifs (the two ways of evaluating the query) must not touch the receiver's fields
			ast.Inspect(x, func(n ast.Node) bool {
				if a, ok := n.(*ast.AssignStmt); ok {
					for _, l := range a.Lhs {
						if strings.HasPrefix(src(l), recv+".") {
							fail(a, "%s: assignment to a receiver field inside a nested block", d.Name.Name)
						}
					}
				}
				return true
			})
		case *ast.AssignStmt:
			if len(x.Lhs) == 1 && len(x.Rhs) == 1 && x.Tok == token.ASSIGN && strings.HasPrefix(src(x.Lhs[0]), recv+".") {
				assigns = append(assigns, strings.TrimPrefix(src(x.Lhs[0]), recv+".")+" = "+src(x.Rhs[0]))
			} else {
				for _, l := range x.Lhs {
					if strings.HasPrefix(src(l), recv+".") {
						fail(x, "%s: assignment form", d.Name.Name)
					}
				}
			}
		case *ast.ExprStmt:
			if !isMutexCall(recv, x.X) {
				fail(s, "%s: expression statement %s", d.Name.Name, src(x.X))
			}
		case *ast.DeferStmt:
			if !isMutexCall(recv, x.Call) {
				fail(s, "%s: defer %s", d.Name.Name, src(x.Call))
			}
		case *ast.DeclStmt, *ast.ReturnStmt:
		default:
			fail(s, "%s: statement %T", d.Name.Name, s)
		}
	}
	return
}

func leanStrList(l []string) string {
	q := make([]string, len(l))
	for i, s := range l {
		q[i] = "\"" + strings.NewReplacer("\\", "\\\\", "\"", "\\\"").Replace(s) + "\""
	}
	return "[" + strings.Join(q, ", ") + "]"
}

func main() {
	if len(os.Args) > 1 && os.Args[1] == "loop" {
		mainLoop(os.Args[2:])
		return
	}
	if len(os.Args) > 1 && os.Args[1] == "locks" {
		mainLocks(os.Args[2:])
		return
	}
	if len(os.Args) > 1 && os.Args[1] == "prepctx" {
		mainPrepCtx(os.Args[2:])
		return
	}
	if len(os.Args) > 1 && os.Args[1] == "ops" {
		mainOps(os.Args[2:])
		return
	}
	if len(os.Args) != 2 {
		fmt.Fprintln(os.Stderr, "usage: cursorfetch <path to lib/query/cursor.go>")
		os.Exit(2)
	}
	file, err := parser.ParseFile(fset, os.Args[1], nil, 0)
	if err != nil {
		fmt.Fprintln(os.Stderr, "cursorfetch:", err)
		os.Exit(1)
	}
	methods := map[string]*ast.FuncDecl{}
	for _, d := range file.Decls {
		fd, ok := d.(*ast.FuncDecl)
		if !ok || fd.Recv == nil || len(fd.Recv.List) != 1 || len(fd.Recv.List[0].Names) != 1 {
			continue
		}
		if st, ok := fd.Recv.List[0].Type.(*ast.StarExpr); ok {
			if id, ok := st.X.(*ast.Ident); ok && id.Name == "Cursor" {
				if methods[fd.Name.Name] != nil {
					fail(fd, "method %s declared twice", fd.Name.Name)
				}
				methods[fd.Name.Name] = fd
			}
		}
	}
	for _, n := range []string{"Fetch", "IsInRange", "Count", "Open", "Close"} {
		if methods[n] == nil || methods[n].Body == nil {
			fail(nil, "method (*Cursor).%s not found in %s", n, os.Args[1])
		}
	}

	// Fetch(name parser.Identifier, position int, number int)
	fd := methods["Fetch"]
	ff := newFn(fd)
	ff.ret, ff.outType = retFetch, "FetchOut"
	if !ff.intPar["position"] || !ff.intPar["number"] || len(ff.intPar) != 2 {
		fail(fd, "Fetch: parameters are not (name, position int, number int)")
	}
	ff.tagPar = "position"
	fetchBody := ff.compile(fd.Body.List, "  ")
	if !ff.hasTail || len(ff.tokens) == 0 {
		fail(fd, "Fetch: no switch over the position or no record-returning tail")
	}

	fi := newFn(methods["IsInRange"])
	fi.ret = retInRange
	if len(fi.intPar) != 0 {
		fail(methods["IsInRange"], "IsInRange: unexpected parameters")
	}
	rangeBody := fi.compile(methods["IsInRange"].Body.List, "  ")

	fc := newFn(methods["Count"])
	fc.ret = retCount
	if len(fc.intPar) != 0 {
		fail(methods["Count"], "Count: unexpected parameters")
	}
	countBody := fc.compile(methods["Count"].Body.List, "  ")

	og, oa := facts(methods["Open"])
	cg, ca := facts(methods["Close"])

	var b strings.Builder
	b.WriteString("/-\n  GENERATED by /verif/extract/cursorfetch from lib/query/cursor.go — do not edit.\n")
	b.WriteString("  (*Cursor).Fetch / IsInRange / Count as Lean functions over Int with Go's 64-bit wrap-around;\n")
	b.WriteString("  Open / Close as facts (error guards, assignments to receiver fields, in source order).\n-/\n")
	b.WriteString("import Csvq.Model.Basic\nnamespace Csvq.Gen.CursorFetch\nopen Csvq\n\n")
	b.WriteString("/-- the parser constants the `switch position` of Fetch names; anything else takes the default clause -/\n")
	b.WriteString("inductive PosTok\n")
	for _, t := range ff.tokens {
		b.WriteString("  | " + t + "\n")
	}
	b.WriteString("  | other\n  deriving DecidableEq, Repr\n\n")
	b.WriteString("/-- outcome of Fetch: error, nothing returned, or the record at `index` returned -/\n")
	b.WriteString("inductive FetchOut\n  | closedError\n  | noRow (index : Int) (fetched : Bool)\n  | row (index : Int) (fetched : Bool)\n  deriving DecidableEq, Repr\n\n")
	b.WriteString("inductive RangeOut\n  | closedError\n  | unknown\n  | bool (b : Bool)\n  deriving DecidableEq, Repr\n\n")
	b.WriteString("inductive CountOut\n  | closedError\n  | value (n : Int)\n  deriving DecidableEq, Repr\n\n")
	b.WriteString("def fetch (viewNil : Bool) (position : PosTok) (number index recordLen : Int) (fetched : Bool) : FetchOut :=\n")
	b.WriteString(fetchBody + "\n")
	b.WriteString("def isInRange (viewNil : Bool) (index recordLen : Int) (fetched : Bool) : RangeOut :=\n")
	b.WriteString(rangeBody + "\n")
	b.WriteString("def count (viewNil : Bool) (recordLen : Int) : CountOut :=\n")
	b.WriteString(countBody + "\n")
	b.WriteString("def openGuards : List String := " + leanStrList(og) + "\n")
	b.WriteString("def openAssigns : List String := " + leanStrList(oa) + "\n")
	b.WriteString("def closeGuards : List String := " + leanStrList(cg) + "\n")
	b.WriteString("def closeAssigns : List String := " + leanStrList(ca) + "\n\n")
	b.WriteString("end Csvq.Gen.CursorFetch\n")
	fmt.Print(b.String())
}
