// Mode `prepctx`: how the context of a prepared statement is built, everywhere.
//
//	go run . prepctx <lib/query directory>
//
// Emitted (Gen/CursorPrepCtx.lean):
//
//   - `contextFn`     the statements of ContextForPreparedStatement(ctx, values) in the IR of Model/CursorStmt.lean
//     (`return e`, `if c { return e }`, `values.Outer = x`; e: `ctx` / `context.WithValue(a, b, c)`; c: emptiness tests of values.Values);
//     anything else becomes `.other "<source>"`, which the model's interpreter refuses.
//   - `contextFnParams`  its parameter names.
//   - `callSites`     every call of ContextForPreparedStatement in the non-test files of lib/query: file, enclosing
//     function, the two arguments, and the whole statement the call stands in.
//   - `newValuesSites`  every call of NewReplaceValues: file, function, argument.
//   - `keyUses`       every mention of StatementReplaceValuesContextKey outside its declaration: file, function, and
//     the call expression it is an argument of (who writes the frame, who reads it).
//   - `openCursorSites`  every call of a method named OpenCursor / Open with a `Values` / `values` argument: how the
//     USING list of the OPEN statement reaches Cursor.Open.
//   - `fxEvalPlaceholder`, `fxNewReplaceValues`  the whole statement structure of the reader and of the constructor.
package main

import (
	"fmt"
	"go/ast"
	"go/token"
	"os"
	"path/filepath"
	"sort"
	"strings"
)

func leanQ(s string) string {
	return "\"" + strings.NewReplacer("\\", "\\\\", "\"", "\\\"").Replace(s) + "\""
}

func ctxExpr(e ast.Expr) string {
	e = stripParens(e)
	if id, ok := e.(*ast.Ident); ok && id.Name == "ctx" {
		return ".ctx"
	}
	if c, ok := e.(*ast.CallExpr); ok && loose(c.Fun) == "context.WithValue" && len(c.Args) == 3 {
		return fmt.Sprintf("(.withValue %s %s %s)", leanQ(loose(c.Args[0])), leanQ(loose(c.Args[1])), leanQ(loose(c.Args[2])))
	}
	return "(.other " + leanQ(loose(e)) + ")"
}

func ctxCond(e ast.Expr) string {
	s := strings.ReplaceAll(loose(stripParens(e)), " ", "")
	switch s {
	case "len(values.Values)<1", "len(values.Values)==0", "0==len(values.Values)", "1>len(values.Values)", "len(values.Values)<=0":
		return ".valuesEmpty"
	case "len(values.Values)>0", "0<len(values.Values)", "len(values.Values)!=0", "len(values.Values)>=1", "1<=len(values.Values)":
		return ".valuesNonEmpty"
	}
	return "(.other " + leanQ(loose(e)) + ")"
}

func ctxStmts(stmts []ast.Stmt) []string {
	var out []string
	for _, s := range stmts {
		switch x := s.(type) {
		case *ast.ReturnStmt:
			if len(x.Results) == 1 {
				out = append(out, "(.ret "+ctxExpr(x.Results[0])+")")
				continue
			}
		case *ast.IfStmt:
			if x.Init == nil && x.Else == nil && len(x.Body.List) == 1 {
				if r, ok := x.Body.List[0].(*ast.ReturnStmt); ok && len(r.Results) == 1 {
					out = append(out, "(.ifRet "+ctxCond(x.Cond)+" "+ctxExpr(r.Results[0])+")")
					continue
				}
			}
		case *ast.AssignStmt:
			// `values.Outer = <expr>`: the frame records the context it is written in
			if x.Tok == token.ASSIGN && len(x.Lhs) == 1 && len(x.Rhs) == 1 && loose(x.Lhs[0]) == "values.Outer" {
				out = append(out, "(.setOuter "+leanQ(loose(x.Rhs[0]))+")")
				continue
			}
		}
		out = append(out, "(.other "+leanQ(strings.Join(fx([]ast.Stmt{s}), " "))+")")
	}
	return out
}

func funcName(fd *ast.FuncDecl) string {
	if fd.Recv != nil && len(fd.Recv.List) == 1 {
		t := fd.Recv.List[0].Type
		if st, ok := t.(*ast.StarExpr); ok {
			t = st.X
		}
		return loose(t) + "." + fd.Name.Name
	}
	return fd.Name.Name
}

// enclosingStmt: the innermost simple statement (assignment, expression statement, return, …) that contains pos
func enclosingStmt(fd *ast.FuncDecl, pos token.Pos) string {
	var best ast.Stmt
	ast.Inspect(fd.Body, func(n ast.Node) bool {
		if n == nil {
			return false
		}
		if s, ok := n.(ast.Stmt); ok && s.Pos() <= pos && pos < s.End() {
			switch s.(type) {
			case *ast.AssignStmt, *ast.ExprStmt, *ast.ReturnStmt, *ast.DeferStmt, *ast.GoStmt:
				best = s
			}
		}
		return true
	})
	if best == nil {
		return "?"
	}
	return looseStmt(best)
}

func mainPrepCtx(args []string) {
	if len(args) != 1 {
		fmt.Fprintln(os.Stderr, "usage: cursorfetch prepctx <lib/query directory>")
		os.Exit(2)
	}
	paths, err := filepath.Glob(filepath.Join(args[0], "*.go"))
	if err != nil || len(paths) == 0 {
		fmt.Fprintln(os.Stderr, "cursorfetch: no Go files in", args[0])
		os.Exit(1)
	}
	sort.Strings(paths)
	var ctxFn, evalPh, newRV *ast.FuncDecl
	var callSites, newSites, keyUses, openSites []string
	keyDecls := 0
	for _, p := range paths {
		if strings.HasSuffix(p, "_test.go") {
			continue
		}
		base := filepath.Base(p)
		file := parseOrDie(p)
		for _, d := range file.Decls {
			if gd, ok := d.(*ast.GenDecl); ok {
				ast.Inspect(gd, func(n ast.Node) bool {
					if id, ok := n.(*ast.Ident); ok && id.Name == "StatementReplaceValuesContextKey" {
						keyDecls++
					}
					return true
				})
				continue
			}
			fd, ok := d.(*ast.FuncDecl)
			if !ok || fd.Body == nil {
				continue
			}
			fn := funcName(fd)
			switch fn {
			case "ContextForPreparedStatement":
				if ctxFn != nil {
					fail(fd, "ContextForPreparedStatement declared twice")
				}
				ctxFn = fd
			case "evalPlaceholder":
				evalPh = fd
			case "NewReplaceValues":
				newRV = fd
			}
			// calls nested in other calls are visited too
			var parents []ast.Node
			ast.Inspect(fd.Body, func(n ast.Node) bool {
				if n == nil {
					parents = parents[:len(parents)-1]
					return false
				}
				parents = append(parents, n)
				switch x := n.(type) {
				case *ast.CallExpr:
					switch f := loose(x.Fun); {
					case f == "ContextForPreparedStatement":
						if len(x.Args) != 2 {
							fail(x, "ContextForPreparedStatement with %d arguments", len(x.Args))
						}
						callSites = append(callSites, fmt.Sprintf("(%s, %s, %s, %s, %s)", leanQ(base), leanQ(fn), leanQ(loose(x.Args[0])), leanQ(loose(x.Args[1])), leanQ(enclosingStmt(fd, x.Pos()))))
					case f == "NewReplaceValues":
						if len(x.Args) != 1 {
							fail(x, "NewReplaceValues with %d arguments", len(x.Args))
						}
						newSites = append(newSites, fmt.Sprintf("(%s, %s, %s)", leanQ(base), leanQ(fn), leanQ(loose(x.Args[0]))))
					case strings.HasSuffix(f, ".OpenCursor") || (strings.HasSuffix(f, ".Open") && len(x.Args) == 4):
						openSites = append(openSites, fmt.Sprintf("(%s, %s, %s)", leanQ(base), leanQ(fn), leanQ(loose(x))))
					}
				case *ast.Ident:
					if x.Name == "StatementReplaceValuesContextKey" {
						// the innermost call this mention is an argument of
						use := "?"
						for i := len(parents) - 2; i >= 0; i-- {
							if c, ok := parents[i].(*ast.CallExpr); ok {
								use = loose(c)
								break
							}
						}
						keyUses = append(keyUses, fmt.Sprintf("(%s, %s, %s)", leanQ(base), leanQ(fn), leanQ(use)))
					}
				}
				return true
			})
		}
	}
	if ctxFn == nil || evalPh == nil || newRV == nil {
		fail(nil, "ContextForPreparedStatement / evalPlaceholder / NewReplaceValues not found in %s", args[0])
	}
	if keyDecls != 1 {
		fail(nil, "StatementReplaceValuesContextKey appears %d times in declarations (expected its one const)", keyDecls)
	}
	var params []string
	for _, f := range ctxFn.Type.Params.List {
		for _, n := range f.Names {
			params = append(params, n.Name)
		}
	}

	var b strings.Builder
	b.WriteString("/-\n  GENERATED by /verif/extract/cursorfetch (mode prepctx) from the non-test files of lib/query — do not edit.\n-/\n")
	b.WriteString("import Csvq.Model.CursorStmt\nnamespace Csvq.Gen.CursorPrepCtx\nopen Csvq.CursorStmt\n\n")
	b.WriteString("/-- the statements of ContextForPreparedStatement -/\ndef contextFn : List CtxStmt := [" + strings.Join(ctxStmts(ctxFn.Body.List), ", ") + "]\n\n")
	b.WriteString("def contextFnParams : List String := " + leanStrList(params) + "\n\n")
	b.WriteString("/-- every call of ContextForPreparedStatement: file, function, context argument, values argument, the statement it stands in -/\n")
	b.WriteString("def callSites : List (String × String × String × String × String) := [" + strings.Join(callSites, ",\n  ") + "]\n\n")
	b.WriteString("/-- every call of NewReplaceValues: file, function, argument -/\n")
	b.WriteString("def newValuesSites : List (String × String × String) := [" + strings.Join(newSites, ",\n  ") + "]\n\n")
	b.WriteString("/-- every mention of StatementReplaceValuesContextKey in a function body: file, function, the call it is an argument of -/\n")
	b.WriteString("def keyUses : List (String × String × String) := [" + strings.Join(keyUses, ",\n  ") + "]\n\n")
	b.WriteString("/-- how the USING list of an OPEN statement reaches Cursor.Open: file, function, call -/\n")
	b.WriteString("def openCursorSites : List (String × String × String) := [" + strings.Join(openSites, ",\n  ") + "]\n\n")
	b.WriteString("/-- evalPlaceholder (eval.go), whole statement structure -/\ndef fxEvalPlaceholder : List String := " + leanStrList(fx(evalPh.Body.List)) + "\n\n")
	// in which context the value expression is evaluated: every `return Evaluate(X, scope, replace.Values[idx])` of
	// evalPlaceholder with the condition of the `if` it stands in ("" : at the top level of the function)
	var evalIn []string
	evalCall := func(r *ast.ReturnStmt) (string, bool) {
		if len(r.Results) != 1 {
			return "", false
		}
		c, ok := r.Results[0].(*ast.CallExpr)
		if !ok || loose(c.Fun) != "Evaluate" || len(c.Args) != 3 {
			return "", false
		}
		return loose(c.Args[0]) + " | " + loose(c.Args[2]), true
	}
	for _, st := range evalPh.Body.List {
		switch x := st.(type) {
		case *ast.ReturnStmt:
			if a, ok := evalCall(x); ok {
				evalIn = append(evalIn, fmt.Sprintf("(%s, %s)", leanQ(""), leanQ(a)))
			}
		case *ast.IfStmt:
			ast.Inspect(x.Body, func(n ast.Node) bool {
				if r, ok := n.(*ast.ReturnStmt); ok {
					if a, ok := evalCall(r); ok {
						evalIn = append(evalIn, fmt.Sprintf("(%s, %s)", leanQ(loose(x.Cond)), leanQ(a)))
					}
				}
				return true
			})
		}
	}
	b.WriteString("/-- evalPlaceholder: the condition under which, and `context | expression` with which, Evaluate is called -/\n")
	b.WriteString("def evalIn : List (String × String) := [" + strings.Join(evalIn, ", ") + "]\n\n")
	b.WriteString("/-- NewReplaceValues (prepared_statement.go), whole statement structure -/\ndef fxNewReplaceValues : List String := " + leanStrList(fx(newRV.Body.List)) + "\n\n")
	b.WriteString("end Csvq.Gen.CursorPrepCtx\n")
	fmt.Print(b.String())
}
