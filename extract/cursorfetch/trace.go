// Mode `locks`, second part: the ACCESS TRACE of every method of *Cursor.
//
// For every method with a receiver of type Cursor / *Cursor: every control-flow path (same path
// enumeration as lockWalk: every branch combination, loop bodies zero times and once) as the list of
//
//	lock / unlock / defer-unlock / return      the mutex operations and returns (as in `paths`)
//	rd:<field> / wr:<field>                     a read / an assignment of a field of the receiver, in evaluation order
//	view==nil / view!=nil                       the branch taken at an `if <recv>.view == nil` / `!= nil`
//	eval                                        a call of Select(…): the evaluation of a query
//	call:<method>                               a call of another method of the receiver
//
// The theorems of Props/C16.lean read from it: which method evaluates a query while it holds the
// mutex (Open), that every method a query can reach re-entrantly tests the closed state BEFORE it takes the
// mutex, which fields are read outside the mutex, that no field is written outside it, that Fetch moves the
// pointer and reads the row in ONE critical section, and that no method calls another (so the per-method
// paths are the whole story).
//
// Fail-closed: a function literal / go statement / select mentioning the receiver, a deferred call other
// than Unlock, a statement form lockWalk does not know, more than 4096 paths.
package main

import (
	"go/ast"
	"go/token"
	"sort"
	"strings"
)

type tracer struct {
	recv   string
	fields map[string]bool
}

func stripParens(e ast.Expr) ast.Expr {
	for {
		p, ok := e.(*ast.ParenExpr)
		if !ok {
			return e
		}
		e = p.X
	}
}

// recvField: e is `<recv>.<field>`
func (t *tracer) recvField(e ast.Expr) (string, bool) {
	s, ok := stripParens(e).(*ast.SelectorExpr)
	if !ok {
		return "", false
	}
	id, ok := s.X.(*ast.Ident)
	if !ok || id.Name != t.recv {
		return "", false
	}
	if t.fields[s.Sel.Name] {
		return s.Sel.Name, true
	}
	return "", false
}

// expr: the tokens of an expression in evaluation order
func (t *tracer) expr(e ast.Expr, out *[]string) {
	switch x := e.(type) {
	case nil:
	case *ast.Ident, *ast.BasicLit:
	case *ast.ParenExpr:
		t.expr(x.X, out)
	case *ast.SelectorExpr:
		if f, ok := t.recvField(x); ok {
			*out = append(*out, "rd:"+f)
			return
		}
		if id, ok := x.X.(*ast.Ident); ok && id.Name == t.recv {
			fail(e, "selector %s.%s is neither a field of the receiver nor a call", t.recv, x.Sel.Name)
		}
		t.expr(x.X, out)
	case *ast.CallExpr:
		if lockTok(x) != "" || mentionsMutex(x.Fun) {
			fail(e, "mutex operation inside an expression: %s", loose(x))
		}
		if s, ok := x.Fun.(*ast.SelectorExpr); ok {
			if id, ok := s.X.(*ast.Ident); ok && id.Name == t.recv && !t.fields[s.Sel.Name] {
				for _, a := range x.Args {
					t.expr(a, out)
				}
				*out = append(*out, "call:"+s.Sel.Name)
				return
			}
			t.expr(s.X, out)
		} else {
			t.expr(x.Fun, out)
		}
		for _, a := range x.Args {
			t.expr(a, out)
		}
		if fn := loose(x.Fun); fn == "Select" || strings.HasSuffix(fn, ".Select") {
			*out = append(*out, "eval")
		}
	case *ast.UnaryExpr:
		t.expr(x.X, out)
	case *ast.StarExpr:
		t.expr(x.X, out)
	case *ast.BinaryExpr:
		t.expr(x.X, out)
		t.expr(x.Y, out)
	case *ast.IndexExpr:
		t.expr(x.X, out)
		t.expr(x.Index, out)
	case *ast.SliceExpr:
		t.expr(x.X, out)
		t.expr(x.Low, out)
		t.expr(x.High, out)
		t.expr(x.Max, out)
	case *ast.TypeAssertExpr:
		t.expr(x.X, out)
	case *ast.KeyValueExpr:
		t.expr(x.Value, out)
	case *ast.CompositeLit:
		for _, el := range x.Elts {
			t.expr(el, out)
		}
	case *ast.ArrayType, *ast.MapType, *ast.InterfaceType, *ast.FuncType, *ast.StructType, *ast.ChanType:
	case *ast.FuncLit:
		if t.mentionsRecv(x) || mentionsMutex(x) {
			fail(e, "function literal using the receiver")
		}
	default:
		fail(e, "expression %T", e)
	}
}

func (t *tracer) mentionsRecv(n ast.Node) bool {
	found := false
	ast.Inspect(n, func(m ast.Node) bool {
		if id, ok := m.(*ast.Ident); ok && id.Name == t.recv {
			found = true
		}
		return !found
	})
	return found
}

// lhs: the tokens of an assignment target
func (t *tracer) lhs(e ast.Expr, out *[]string) {
	if f, ok := t.recvField(e); ok {
		*out = append(*out, "wr:"+f)
		return
	}
	// a store THROUGH a field (c.view.RecordSet[i] = …): reads on the way, then a write of the root field
	root := stripParens(e)
	for {
		switch x := root.(type) {
		case *ast.IndexExpr:
			root = stripParens(x.X)
			continue
		case *ast.SelectorExpr:
			if _, ok := t.recvField(x); !ok {
				root = stripParens(x.X)
				continue
			}
		case *ast.StarExpr:
			root = stripParens(x.X)
			continue
		}
		break
	}
	if f, ok := t.recvField(root); ok {
		var tmp []string
		t.expr(e, &tmp)
		for _, k := range tmp {
			if k != "rd:"+f {
				*out = append(*out, k)
			}
		}
		*out = append(*out, "wr:"+f)
		return
	}
	if id, ok := stripParens(e).(*ast.Ident); ok && id.Name == t.recv {
		fail(e, "assignment to the receiver itself")
	}
	if _, ok := stripParens(e).(*ast.Ident); ok {
		return
	}
	t.expr(e, out)
}

func extendAll(ps []lpath, toks []string) []lpath {
	for _, k := range toks {
		ps = extend(ps, k, false)
	}
	return ps
}

func splitLive(ps []lpath) (live, rest []lpath) {
	for _, p := range ps {
		if p.done {
			rest = append(rest, p)
		} else {
			live = append(live, p)
		}
	}
	return
}

// viewNilTest: cond is `<recv>.view == nil` (→ "view==nil", "view!=nil") or `!= nil` (the other way round)
func (t *tracer) viewNilTest(cond ast.Expr) (thenTok, elseTok string) {
	b, ok := stripParens(cond).(*ast.BinaryExpr)
	if !ok || (b.Op != token.EQL && b.Op != token.NEQ) {
		return "", ""
	}
	f, isF := t.recvField(b.X)
	other := b.Y
	if !isF {
		f, isF = t.recvField(b.Y)
		other = b.X
	}
	id, isNil := stripParens(other).(*ast.Ident)
	if !isF || f != "view" || !isNil || id.Name != "nil" {
		return "", ""
	}
	if b.Op == token.EQL {
		return "view==nil", "view!=nil"
	}
	return "view!=nil", "view==nil"
}

func (t *tracer) walk(stmts []ast.Stmt, ps []lpath) []lpath {
	for _, s := range stmts {
		if len(ps) > 4096 {
			fail(s, "more than 4096 control-flow paths")
		}
		var toks []string
		switch x := s.(type) {
		case *ast.ExprStmt:
			if k := lockTok(x.X); k != "" {
				ps = extend(ps, k, false)
				continue
			}
			t.expr(x.X, &toks)
			ps = extendAll(ps, toks)
		case *ast.DeferStmt:
			if k := lockTok(x.Call); k == "unlock" {
				ps = extend(ps, "defer-unlock", false)
			} else {
				fail(s, "deferred call other than Unlock: %s", loose(x.Call))
			}
		case *ast.ReturnStmt:
			for _, r := range x.Results {
				t.expr(r, &toks)
			}
			ps = extendAll(ps, toks)
			ps = extend(ps, "return", true)
		case *ast.AssignStmt:
			for _, r := range x.Rhs {
				t.expr(r, &toks)
			}
			for _, l := range x.Lhs {
				if x.Tok != token.ASSIGN && x.Tok != token.DEFINE {
					t.expr(l, &toks) // op-assignment reads its target
				}
				t.lhs(l, &toks)
			}
			ps = extendAll(ps, toks)
		case *ast.IncDecStmt:
			t.expr(x.X, &toks)
			t.lhs(x.X, &toks)
			ps = extendAll(ps, toks)
		case *ast.DeclStmt:
			if gd, ok := x.Decl.(*ast.GenDecl); ok {
				for _, sp := range gd.Specs {
					if vs, ok := sp.(*ast.ValueSpec); ok {
						for _, v := range vs.Values {
							t.expr(v, &toks)
						}
					}
				}
			}
			ps = extendAll(ps, toks)
		case *ast.EmptyStmt:
		case *ast.BlockStmt:
			ps = t.walk(x.List, ps)
		case *ast.BranchStmt:
			if x.Label != nil || x.Tok.String() == "goto" {
				fail(s, "goto / labelled branch")
			}
		case *ast.IfStmt:
			live, rest := splitLive(ps)
			if x.Init != nil {
				live = t.walk([]ast.Stmt{x.Init}, live)
			}
			t.expr(x.Cond, &toks)
			live = extendAll(live, toks)
			thenTok, elseTok := t.viewNilTest(x.Cond)
			a, b := live, live
			if thenTok != "" {
				a, b = extend(live, thenTok, false), extend(live, elseTok, false)
			}
			a = t.walk(x.Body.List, a)
			switch el := x.Else.(type) {
			case nil:
			case *ast.BlockStmt:
				b = t.walk(el.List, b)
			case *ast.IfStmt:
				b = t.walk([]ast.Stmt{el}, b)
			}
			ps = append(append(rest, a...), b...)
		case *ast.SwitchStmt:
			live, rest := splitLive(ps)
			if x.Init != nil {
				live = t.walk([]ast.Stmt{x.Init}, live)
			}
			t.expr(x.Tag, &toks)
			live = extendAll(live, toks)
			out := rest
			hasDefault := false
			for _, c0 := range x.Body.List {
				cc := c0.(*ast.CaseClause)
				if cc.List == nil {
					hasDefault = true
				}
				var ct []string
				for _, ce := range cc.List {
					t.expr(ce, &ct)
				}
				for _, b := range cc.Body {
					if br, ok := b.(*ast.BranchStmt); ok && br.Tok.String() == "fallthrough" {
						fail(b, "fallthrough")
					}
				}
				out = append(out, t.walk(cc.Body, extendAll(live, ct))...)
			}
			if !hasDefault {
				out = append(out, live...)
			}
			ps = out
		case *ast.ForStmt:
			live, rest := splitLive(ps)
			if x.Init != nil {
				live = t.walk([]ast.Stmt{x.Init}, live)
			}
			t.expr(x.Cond, &toks)
			live = extendAll(live, toks)
			once := t.walk(x.Body.List, live)
			if x.Post != nil {
				once = t.walk([]ast.Stmt{x.Post}, once)
			}
			ps = append(append(rest, live...), once...)
		case *ast.RangeStmt:
			live, rest := splitLive(ps)
			t.expr(x.X, &toks)
			live = extendAll(live, toks)
			once := t.walk(x.Body.List, live)
			ps = append(append(rest, live...), once...)
		default:
			fail(s, "statement %T", s)
		}
	}
	return ps
}

// cursorFields: the field names of `type Cursor struct`
func cursorFields(file *ast.File) []string {
	var out []string
	for _, d := range file.Decls {
		gd, ok := d.(*ast.GenDecl)
		if !ok {
			continue
		}
		for _, sp := range gd.Specs {
			ts, ok := sp.(*ast.TypeSpec)
			if !ok || ts.Name.Name != "Cursor" {
				continue
			}
			st, ok := ts.Type.(*ast.StructType)
			if !ok {
				fail(ts, "type Cursor is not a struct")
			}
			for _, f := range st.Fields.List {
				if len(f.Names) == 0 {
					fail(f, "embedded field in struct Cursor")
				}
				for _, n := range f.Names {
					out = append(out, n.Name)
				}
			}
		}
	}
	if len(out) == 0 {
		fail(nil, "type Cursor struct not found")
	}
	return out
}

// traceSection: the Lean text of `fields` and `trace`
func traceSection(file *ast.File) string {
	fields := cursorFields(file)
	fm := map[string]bool{}
	for _, f := range fields {
		fm[f] = true
	}
	var b strings.Builder
	b.WriteString("\n/-- the fields of `type Cursor struct` -/\ndef fields : List String := " + leanStrList(fields) + "\n\n")
	b.WriteString("/-- (method of *Cursor, every control-flow path: mutex operations, returns, reads `rd:f` / writes `wr:f` of receiver\n")
	b.WriteString("    fields in evaluation order, the branch taken at a `view == nil` test, `eval` = a call of Select, `call:m` = a call\n")
	b.WriteString("    of another method of the receiver) -/\ndef trace : List (String × List (List String)) := [\n")
	var entries, callEntries []string
	for _, d := range file.Decls {
		fd, ok := d.(*ast.FuncDecl)
		if !ok || fd.Body == nil || fd.Recv == nil || len(fd.Recv.List) != 1 {
			continue
		}
		rt := fd.Recv.List[0].Type
		if st, ok := rt.(*ast.StarExpr); ok {
			rt = st.X
		}
		if loose(rt) != "Cursor" {
			continue
		}
		if len(fd.Recv.List[0].Names) != 1 {
			fail(fd, "method %s without a receiver name", fd.Name.Name)
		}
		t := &tracer{recv: fd.Recv.List[0].Names[0].Name, fields: fm}
		ast.Inspect(fd.Body, func(n ast.Node) bool {
			switch n.(type) {
			case *ast.GoStmt, *ast.SelectStmt, *ast.LabeledStmt:
				fail(n, "%s: %T in a method of Cursor", fd.Name.Name, n)
			}
			return true
		})
		ps := t.walk(fd.Body.List, []lpath{{}})
		seen := map[string]bool{}
		var pl []string
		for _, p := range ps {
			k := leanStrList(p.toks)
			if !seen[k] {
				seen[k] = true
				pl = append(pl, k)
			}
		}
		sort.Strings(pl)
		entries = append(entries, "  (\"Cursor."+fd.Name.Name+"\", [\n    "+strings.Join(pl, ",\n    ")+"])")
		// the other methods of the receiver this one calls (on any path)
		cs := map[string]bool{}
		for _, p := range ps {
			for _, k := range p.toks {
				if strings.HasPrefix(k, "call:") {
					cs[strings.TrimPrefix(k, "call:")] = true
				}
			}
		}
		var cl []string
		for k := range cs {
			cl = append(cl, k)
		}
		sort.Strings(cl)
		callEntries = append(callEntries, "  (\"Cursor."+fd.Name.Name+"\", "+leanStrList(cl)+")")
	}
	if len(entries) == 0 {
		fail(nil, "no method of Cursor found")
	}
	b.WriteString(strings.Join(entries, ",\n") + "\n]\n\n")
	b.WriteString("/-- (method of *Cursor, the other methods of its receiver it calls) -/\ndef ownCalls : List (String × List String) := [\n")
	b.WriteString(strings.Join(callEntries, ",\n") + "\n]\n")
	return b.String()
}
