module timefacts

go 1.18
