// timefacts: reads lib/value/conv.go of csvq and prints Csvq/Gen/TimeFacts.lean — what value.StrToTime does with
// the user-defined datetime formats and which state it can touch:
//   strToTimeHead     the statements of StrToTime before the built-in dispatch (`if 8 <= len(s) …`), as source text
//   strToTimeGlobals  every use of a package-level variable of package value inside StrToTime (`Var.Method` / `Var`)
//   strToTimeAssigns  every identifier StrToTime assigns to with `=` (not `:=`), incl. `x.f = …` as `x.f`
//   formatMapFields   the fields of DatetimeFormatMap (the process-wide cache behind DatetimeFormats)
//   formatMapMethods  its methods, in source order
//   formatMapGet      the statements of DatetimeFormatMap.Get
// Props/C12Time.lean states what these must be for Model/ParseTimeUser.lean to be the code.  Stdlib only; fails
// loudly (exit 1) when a declaration is missing.
package main

import (
	"fmt"
	"go/ast"
	"go/parser"
	"go/printer"
	"go/token"
	"os"
	"path/filepath"
	"sort"
	"strings"
)

var fset = token.NewFileSet()

func die(format string, a ...interface{}) {
	fmt.Fprintf(os.Stderr, "timefacts: "+format+"\n", a...)
	os.Exit(1)
}

func src(n ast.Node) string {
	var sb strings.Builder
	_ = printer.Fprint(&sb, fset, n)
	return strings.Join(strings.Fields(sb.String()), " ")
}

func lit(s string) string {
	return "\"" + strings.ReplaceAll(strings.ReplaceAll(s, "\\", "\\\\"), "\"", "\\\"") + "\""
}

func list(xs []string) string {
	q := make([]string, len(xs))
	for i, x := range xs {
		q[i] = lit(x)
	}
	return "[" + strings.Join(q, ", ") + "]"
}

func main() {
	repo := os.Getenv("VERIF_REPO")
	if repo == "" {
		repo = "/repo"
	}
	dir := filepath.Join(repo, "lib/value")
	pkgs, err := parser.ParseDir(fset, dir, func(fi os.FileInfo) bool { return !strings.HasSuffix(fi.Name(), "_test.go") }, 0)
	if err != nil {
		die("%v", err)
	}
	pkg := pkgs["value"]
	if pkg == nil {
		die("package value not found in %s", dir)
	}
	// package-level variables of package value
	globals := map[string]bool{}
	var strToTime *ast.FuncDecl
	var mapType *ast.StructType
	var mapMethods []*ast.FuncDecl
	names := make([]string, 0, len(pkg.Files))
	for n := range pkg.Files {
		names = append(names, n)
	}
	sort.Strings(names)
	for _, n := range names {
		for _, d := range pkg.Files[n].Decls {
			switch x := d.(type) {
			case *ast.GenDecl:
				for _, sp := range x.Specs {
					switch s := sp.(type) {
					case *ast.ValueSpec:
						if x.Tok == token.VAR {
							for _, id := range s.Names {
								globals[id.Name] = true
							}
						}
					case *ast.TypeSpec:
						if s.Name.Name == "DatetimeFormatMap" {
							if st, ok := s.Type.(*ast.StructType); ok {
								mapType = st
							}
						}
					}
				}
			case *ast.FuncDecl:
				if x.Recv == nil && x.Name.Name == "StrToTime" {
					strToTime = x
				}
				if x.Recv != nil && strings.Contains(src(x.Recv.List[0].Type), "DatetimeFormatMap") {
					mapMethods = append(mapMethods, x)
				}
			}
		}
	}
	if strToTime == nil || mapType == nil {
		die("StrToTime or DatetimeFormatMap not found")
	}

	// the statements before the built-in dispatch
	var head []string
	dispatch := -1
	for i, st := range strToTime.Body.List {
		if ifs, ok := st.(*ast.IfStmt); ok && strings.HasPrefix(src(ifs.Cond), "8 <= len(s)") {
			dispatch = i
			break
		}
		head = append(head, src(st))
	}
	if dispatch < 0 {
		die("StrToTime: the built-in dispatch `if 8 <= len(s) …` not found")
	}

	// parameters and locals shadow package-level names
	local := map[string]bool{}
	for _, f := range strToTime.Type.Params.List {
		for _, id := range f.Names {
			local[id.Name] = true
		}
	}
	ast.Inspect(strToTime.Body, func(n ast.Node) bool {
		switch x := n.(type) {
		case *ast.AssignStmt:
			if x.Tok == token.DEFINE {
				for _, l := range x.Lhs {
					if id, ok := l.(*ast.Ident); ok {
						local[id.Name] = true
					}
				}
			}
		case *ast.RangeStmt:
			if x.Tok == token.DEFINE {
				for _, l := range []ast.Expr{x.Key, x.Value} {
					if id, ok := l.(*ast.Ident); ok {
						local[id.Name] = true
					}
				}
			}
		}
		return true
	})
	useSet := map[string]bool{}
	var uses []string
	add := func(s string) {
		if !useSet[s] {
			useSet[s] = true
			uses = append(uses, s)
		}
	}
	selBase := map[*ast.Ident]bool{}
	ast.Inspect(strToTime.Body, func(n ast.Node) bool {
		switch x := n.(type) {
		case *ast.SelectorExpr:
			if id, ok := x.X.(*ast.Ident); ok && globals[id.Name] && !local[id.Name] {
				selBase[id] = true
				add(id.Name + "." + x.Sel.Name)
			}
		case *ast.Ident:
			if globals[x.Name] && !local[x.Name] && !selBase[x] {
				add(x.Name)
			}
		}
		return true
	})
	assignSet := map[string]bool{}
	var assigns []string
	ast.Inspect(strToTime.Body, func(n ast.Node) bool {
		switch x := n.(type) {
		case *ast.AssignStmt:
			if x.Tok != token.DEFINE {
				for _, l := range x.Lhs {
					if s := src(l); !assignSet[s] {
						assignSet[s] = true
						assigns = append(assigns, s)
					}
				}
			}
		case *ast.IncDecStmt:
			if s := src(x.X); !assignSet[s] {
				assignSet[s] = true
				assigns = append(assigns, s)
			}
		}
		return true
	})

	var fields []string
	for _, f := range mapType.Fields.List {
		for _, id := range f.Names {
			fields = append(fields, id.Name+" "+src(f.Type))
		}
		if len(f.Names) == 0 {
			fields = append(fields, src(f.Type))
		}
	}
	var methods, get []string
	for _, m := range mapMethods {
		methods = append(methods, m.Name.Name)
		if m.Name.Name == "Get" {
			for _, st := range m.Body.List {
				get = append(get, src(st))
			}
		}
	}
	if get == nil {
		die("DatetimeFormatMap.Get not found")
	}

	var b strings.Builder
	p := func(format string, a ...interface{}) { fmt.Fprintf(&b, format, a...) }
	p("/- GENERATED by extract/timefacts from lib/value/conv.go — do not edit. -/\nnamespace Csvq.Gen\n\n")
	p("/-- the statements of value.StrToTime before the built-in dispatch -/\ndef strToTimeHead : List String := %s\n\n", list(head))
	p("/-- every use of a package-level variable of package value inside StrToTime -/\ndef strToTimeGlobals : List String := %s\n\n", list(uses))
	p("/-- everything StrToTime assigns to with `=` -/\ndef strToTimeAssigns : List String := %s\n\n", list(assigns))
	p("/-- the fields of DatetimeFormatMap -/\ndef formatMapFields : List String := %s\n\n", list(fields))
	p("/-- the methods of DatetimeFormatMap, in source order -/\ndef formatMapMethods : List String := %s\n\n", list(methods))
	p("/-- the statements of DatetimeFormatMap.Get -/\ndef formatMapGet : List String := %s\n\n", list(get))
	p("end Csvq.Gen\n")
	fmt.Print(b.String())
}
