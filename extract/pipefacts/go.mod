module pipefacts

go 1.18
