// pipefacts: reads lib/query/query.go and lib/query/view.go of csvq and prints Csvq/Gen/PipeFacts.lean —
// the ORDER in which a SELECT applies its clauses (the calls Select / selectEntity / selectSetEntity make on the
// view, in source order, each with the clause field that guards it) and, for every View method in that pipeline,
// which parallel primitive it is built on (GoroutineTaskManager.Run slots, EvaluateSequentially + compaction,
// per-worker group maps, sequential code).  Props/C12Pipe.lean maps these onto the stages of Model/Pipeline.lean.
// Stdlib only.  Fails loudly (exit 1) when a function is missing.
package main

import (
	"fmt"
	"go/ast"
	"go/parser"
	"go/printer"
	"go/token"
	"os"
	"path/filepath"
	"strings"
)

var fset = token.NewFileSet()

func die(format string, a ...interface{}) {
	fmt.Fprintf(os.Stderr, "pipefacts: "+format+"\n", a...)
	os.Exit(1)
}

func src(n ast.Node) string {
	var sb strings.Builder
	_ = printer.Fprint(&sb, fset, n)
	return strings.Join(strings.Fields(sb.String()), " ")
}

func lit(s string) string {
	return "\"" + strings.ReplaceAll(strings.ReplaceAll(s, "\\", "\\\\"), "\"", "\\\"") + "\""
}

func list(xs []string) string {
	q := make([]string, len(xs))
	for i, x := range xs {
		q[i] = lit(x)
	}
	return "[" + strings.Join(q, ", ") + "]"
}

func fn(f *ast.File, recv, name string) *ast.FuncDecl {
	for _, d := range f.Decls {
		if x, ok := d.(*ast.FuncDecl); ok && x.Name.Name == name {
			if recv == "" && x.Recv == nil {
				return x
			}
			if recv != "" && x.Recv != nil && strings.Contains(src(x.Recv.List[0].Type), recv) {
				return x
			}
		}
	}
	die("%s.%s not found", recv, name)
	return nil
}

// the pipeline calls of a query.go function: calls on `view`/`lview` and calls of the loader / entity functions,
// in source order, each prefixed by the innermost enclosing `if <field> != nil` / `if !…IsEmpty()` guard
func pipeline(fd *ast.FuncDecl) []string {
	var out []string
	var walk func(n ast.Node, guard string)
	walk = func(n ast.Node, guard string) {
		switch x := n.(type) {
		case *ast.IfStmt:
			g := guard
			c := src(x.Cond)
			if strings.HasSuffix(c, "!= nil") && !strings.HasPrefix(c, "err") {
				g = strings.TrimSuffix(c, " != nil")
			} else if strings.HasPrefix(c, "!") && strings.HasSuffix(c, ".IsEmpty()") {
				g = strings.TrimSuffix(strings.TrimPrefix(c, "!"), ".IsEmpty()")
			}
			if x.Init != nil {
				walk(x.Init, g)
			}
			walk(x.Body, g)
			if x.Else != nil {
				walk(x.Else, guard)
			}
			return
		case *ast.FuncLit:
			return
		case *ast.CallExpr:
			name := src(x.Fun)
			keep := false
			switch {
			case strings.HasPrefix(name, "view.") || strings.HasPrefix(name, "lview."):
				m := name[strings.Index(name, ".")+1:]
				switch m {
				case "Where", "GroupBy", "Having", "Select", "OrderBy", "Offset", "Limit", "Fix", "Union", "Except", "Intersect":
					keep = true
				}
			case name == "LoadView" || name == "selectEntity" || name == "selectSet" || name == "selectSetEntity" || name == "Select" || name == "selectQuery" || name == "selectSetForRecursion":
				keep = true
			}
			if keep {
				if guard != "" {
					out = append(out, guard+" => "+name)
				} else {
					out = append(out, name)
				}
			}
		}
		// generic descent
		ast.Inspect(n, func(m ast.Node) bool {
			if m == n || m == nil {
				return true
			}
			walk(m, guard)
			return false
		})
	}
	walk(fd.Body, "")
	return out
}

var primitives = []string{"NewGoroutineTaskManager", "EvaluateSequentially", "view.filter", "view.group", "view.groupAll",
	"sort.Sort", "view.GenerateComparisonKeys", "Distinguish", "view.evalColumn", "gm.Run"}

func prims(fd *ast.FuncDecl) []string {
	var out []string
	ast.Inspect(fd.Body, func(n ast.Node) bool {
		if c, ok := n.(*ast.CallExpr); ok {
			name := src(c.Fun)
			for _, p := range primitives {
				if name == p {
					out = append(out, p)
				}
			}
		}
		return true
	})
	return out
}

// the statements of the block of View.Offset that declares `newSet` (the rows after the offset) — the in-place move
func offsetShift(fd *ast.FuncDecl) []string {
	var out []string
	found := 0
	ast.Inspect(fd.Body, func(n ast.Node) bool {
		blk, ok := n.(*ast.BlockStmt)
		if !ok {
			return true
		}
		for _, st := range blk.List {
			if as, ok := st.(*ast.AssignStmt); ok && as.Tok == token.DEFINE && len(as.Lhs) == 1 && src(as.Lhs[0]) == "newSet" {
				found++
				for _, s := range blk.List {
					out = append(out, src(s))
				}
				return false
			}
		}
		return true
	})
	if found != 1 {
		die("View.Offset: expected exactly one block that declares newSet, found %d", found)
	}
	return out
}

func main() {
	repo := os.Getenv("VERIF_REPO")
	if repo == "" {
		repo = "/repo"
	}
	q, err := parser.ParseFile(fset, filepath.Join(repo, "lib/query/query.go"), nil, 0)
	if err != nil {
		die("%v", err)
	}
	v, err := parser.ParseFile(fset, filepath.Join(repo, "lib/query/view.go"), nil, 0)
	if err != nil {
		die("%v", err)
	}
	var b strings.Builder
	p := func(format string, a ...interface{}) { fmt.Fprintf(&b, format, a...) }
	p("/- GENERATED by extract/pipefacts from lib/query/query.go and lib/query/view.go — do not edit. -/\nnamespace Csvq.Gen\n\n")
	p("/-- the clause pipeline: for each function of query.go the calls it makes on the view, in source order (`guard => call`) -/\n")
	p("def selectPipeline : List (String × List String) := [\n")
	names := []string{"Select", "selectQuery", "selectEntity", "selectSetEntity", "selectSet"}
	for i, n := range names {
		sep := ","
		if i == len(names)-1 {
			sep = ""
		}
		p("  (%s, %s)%s\n", lit(n), list(pipeline(fn(q, "", n))), sep)
	}
	p("]\n\n")
	p("/-- the parallel primitives each View method of the pipeline is built on, in source order -/\n")
	p("def viewMethodPrimitives : List (String × List String) := [\n")
	ms := []string{"Where", "GroupBy", "Having", "Select", "OrderBy", "Offset", "Limit", "Fix", "filter", "group", "groupAll", "GenerateComparisonKeys"}
	for i, n := range ms {
		sep := ","
		if i == len(ms)-1 {
			sep = ""
		}
		p("  (%s, %s)%s\n", lit(n), list(prims(fn(v, "View", n))), sep)
	}
	p("]\n\n")
	p("/-- View.Offset: the statements of the branch that keeps the rows after the offset (the in-place shift of Model/Shift.lean) -/\n")
	p("def offsetShift : List String := %s\n", list(offsetShift(fn(v, "View", "Offset"))))
	p("\nend Csvq.Gen\n")
	fmt.Print(b.String())
}
