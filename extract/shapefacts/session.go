package main

// session.go — the census of writes to session-wide state: every assignment, ++/--, atomic add / store, map insert,
// delete, append and sync.Map / atomic.Value store whose target lies behind a field of query.Transaction,
// query.Session or option.Flags, or is a package-level variable of lib/query, lib/value or lib/option; with the
// enclosing function and whether that function can be reached from the body of a worker (static call graph over the
// three packages: direct calls, methods of interfaces by name and arity, calls through function values to every
// function whose value is taken and whose signature is the same).

import (
	"go/ast"
	"go/token"
	"go/types"
	"path/filepath"
	"sort"
	"strconv"
	"strings"
)

const modPath = "github.com/mithrandie/csvq/lib/"

var sessionTypes = map[string]bool{modPath + "query.Transaction": true, modPath + "query.Session": true, modPath + "option.Flags": true}

type sessWrite struct {
	pkg, fn, target, op string
	reach               bool
	pos                 string
}

type cgFunc struct {
	p    *Pkg
	fd   *ast.FuncDecl
	key  string
	sig  string
	call map[string]bool // static callees (keys)
	dyn  map[string]bool // signatures called through function values
	ifc  map[string]bool // name/arity of interface methods called
}

func sigString(s *types.Signature) string {
	return types.TypeString(types.NewSignatureType(nil, nil, nil, s.Params(), s.Results(), s.Variadic()), nil)
}

func calleesOf(p *Pkg, body ast.Node, f *cgFunc, taken map[string]bool) {
	inCall := map[ast.Expr]bool{}
	ast.Inspect(body, func(n ast.Node) bool {
		c, ok := n.(*ast.CallExpr)
		if !ok {
			return true
		}
		fun := unparen(c.Fun)
		inCall[fun] = true
		if tv, ok := p.Info.Types[fun]; ok && tv.IsType() {
			return true
		}
		var obj types.Object
		switch v := fun.(type) {
		case *ast.Ident:
			obj = p.Info.Uses[v]
		case *ast.SelectorExpr:
			obj = p.Info.Uses[v.Sel]
			inCall[v.Sel] = true
		}
		if fo, ok := obj.(*types.Func); ok {
			if sg, ok := fo.Type().(*types.Signature); ok && sg.Recv() != nil {
				if _, isI := sg.Recv().Type().Underlying().(*types.Interface); isI {
					f.ifc[fo.Name()+"/"+itoa(sg.Params().Len())] = true
					return true
				}
			}
			f.call[fo.FullName()] = true
			return true
		}
		if _, isB := obj.(*types.Builtin); isB {
			return true
		}
		if tv, ok := p.Info.Types[fun]; ok {
			if sg, ok := tv.Type.Underlying().(*types.Signature); ok {
				f.dyn[sigString(sg)] = true
			}
		}
		return true
	})
	// functions whose value is taken
	ast.Inspect(body, func(n ast.Node) bool {
		switch v := n.(type) {
		case *ast.Ident:
			if inCall[v] {
				return true
			}
			if fo, ok := p.Info.Uses[v].(*types.Func); ok {
				taken[fo.FullName()] = true
			}
		}
		return true
	})
}

func itoa(i int) string { return strconv.Itoa(i) }

func (a *an) sessionCensus(fans []*fanout) []sessWrite {
	pkgs := []*Pkg{a.p,
		loadPkg(filepath.Join(repoRoot(), "lib", "value"), modPath+"value"),
		loadPkg(filepath.Join(repoRoot(), "lib", "option"), modPath+"option")}
	funcs := map[string]*cgFunc{}
	taken := map[string]bool{}
	var order []string
	for _, p := range pkgs {
		for _, file := range p.Files {
			for _, d := range file.Decls {
				switch v := d.(type) {
				case *ast.FuncDecl:
					if v.Body == nil {
						continue
					}
					fo := p.Info.Defs[v.Name].(*types.Func)
					f := &cgFunc{p: p, fd: v, key: fo.FullName(), sig: sigString(fo.Type().(*types.Signature)), call: map[string]bool{}, dyn: map[string]bool{}, ifc: map[string]bool{}}
					calleesOf(p, v.Body, f, taken)
					funcs[f.key] = f
					order = append(order, f.key)
				case *ast.GenDecl:
					// initialisers of package-level variables: tables of functions
					dummy := &cgFunc{call: map[string]bool{}, dyn: map[string]bool{}, ifc: map[string]bool{}}
					calleesOf(p, v, dummy, taken)
				}
			}
		}
	}
	sort.Strings(order)
	// roots: the bodies of the workers
	reach := map[string]bool{}
	var queue []string
	push := func(k string) {
		if !reach[k] && funcs[k] != nil {
			reach[k] = true
			queue = append(queue, k)
		}
	}
	var rootDyn, rootIfc = map[string]bool{}, map[string]bool{}
	for _, fo := range fans {
		for _, w := range fo.workers {
			if w.driver {
				push(a.p.Info.Defs[w.node.(*ast.FuncDecl).Name].(*types.Func).FullName())
				continue
			}
			tmp := &cgFunc{call: map[string]bool{}, dyn: map[string]bool{}, ifc: map[string]bool{}}
			calleesOf(a.p, w.body, tmp, taken)
			for k := range tmp.call {
				push(k)
			}
			for k := range tmp.dyn {
				rootDyn[k] = true
			}
			for k := range tmp.ifc {
				rootIfc[k] = true
			}
		}
	}
	expand := func(dyn, ifc map[string]bool) {
		for k, f := range funcs {
			if reach[k] {
				continue
			}
			if taken[k] && dyn[f.sig] {
				push(k)
				continue
			}
			if f.fd.Recv != nil {
				sg := f.p.Info.Defs[f.fd.Name].(*types.Func).Type().(*types.Signature)
				if ifc[f.fd.Name.Name+"/"+itoa(sg.Params().Len())] {
					push(k)
				}
			}
		}
	}
	expand(rootDyn, rootIfc)
	for len(queue) > 0 {
		k := queue[0]
		queue = queue[1:]
		f := funcs[k]
		for c := range f.call {
			push(c)
		}
		if len(f.dyn) > 0 || len(f.ifc) > 0 {
			expand(f.dyn, f.ifc)
		}
	}

	lastCG = cgResult{funcs: funcs, order: order, reach: reach} // stateful.go reads the same call graph

	// the writes
	var out []sessWrite
	for _, k := range order {
		f := funcs[k]
		p := f.p
		label := funcLabel(f.fd)
		pkgName := p.Types.Name()
		ownObjs := map[types.Object]bool{}
		ast.Inspect(f.fd.Body, func(n ast.Node) bool {
			if as, ok := n.(*ast.AssignStmt); ok && as.Tok == token.DEFINE && len(as.Lhs) == len(as.Rhs) {
				for i, l := range as.Lhs {
					id, ok := l.(*ast.Ident)
					if !ok {
						continue
					}
					r := unparen(as.Rhs[i])
					if u, ok := r.(*ast.UnaryExpr); ok && u.Op == token.AND {
						r = unparen(u.X)
					}
					fresh := false
					switch v := r.(type) {
					case *ast.CompositeLit:
						fresh = true
					case *ast.CallExpr:
						if fid, ok := v.Fun.(*ast.Ident); ok && fid.Name == "new" {
							fresh = true
						}
					}
					if fresh {
						ownObjs[p.Info.Defs[id]] = true
					}
				}
			}
			return true
		})
		target := func(x ast.Expr) (string, bool, bool) { // name, is session state, object made in this function
			var sels []*ast.SelectorExpr
			e := x
			for {
				e = unparen(e)
				switch v := e.(type) {
				case *ast.SelectorExpr:
					if id, ok := v.X.(*ast.Ident); ok {
						if _, isPkg := p.Info.Uses[id].(*types.PkgName); isPkg {
							if vo, ok := p.Info.Uses[v.Sel].(*types.Var); ok && vo.Parent() == vo.Pkg().Scope() {
								return vo.Pkg().Name() + "." + vo.Name(), true, false
							}
							return "", false, false
						}
					}
					sels = append(sels, v)
					e = v.X
				case *ast.IndexExpr:
					e = v.X
				case *ast.SliceExpr:
					e = v.X
				case *ast.StarExpr:
					e = v.X
				case *ast.TypeAssertExpr:
					e = v.X
				case *ast.UnaryExpr:
					if v.Op != token.AND {
						return "", false, false
					}
					e = v.X
				case *ast.Ident:
					vo, ok := p.Info.Uses[v].(*types.Var)
					if !ok {
						if d, ok2 := p.Info.Defs[v].(*types.Var); ok2 {
							vo, ok = d, true
						}
					}
					if !ok {
						return "", false, false
					}
					if vo.Pkg() != nil && vo.Parent() == vo.Pkg().Scope() {
						name := vo.Pkg().Name() + "." + vo.Name()
						for i := len(sels) - 1; i >= 0; i-- {
							name += "." + sels[i].Sel.Name
						}
						return name, true, false
					}
					// deepest field of a session type on the path
					for i := 0; i < len(sels); i++ { // sels[0] is the outermost (last) selector
						s := p.Info.Selections[sels[i]]
						if s == nil || s.Kind() != types.FieldVal {
							continue
						}
						owner := namedType(s.Recv())
						if sessionTypes[owner] {
							name := shortType(owner) + "." + sels[i].Sel.Name
							for j := i - 1; j >= 0; j-- {
								name += "." + sels[j].Sel.Name
							}
							return name, true, ownObjs[vo]
						}
					}
					return "", false, false
				default:
					return "", false, false
				}
			}
		}
		isConst := func(x ast.Expr) bool {
			switch v := unparen(x).(type) {
			case *ast.BasicLit:
				return true
			case *ast.Ident:
				return v.Name == "nil" || v.Name == "true" || v.Name == "false"
			}
			return false
		}
		add := func(x ast.Expr, op string, at ast.Node) {
			name, ok, own := target(x)
			if !ok {
				return
			}
			if own {
				op = "perEvaluationOnly"
			}
			out = append(out, sessWrite{pkg: pkgName, fn: label, target: name, op: op, reach: reach[k], pos: p.at(at.Pos())})
		}
		hasMapIndex := func(x ast.Expr) bool {
			found := false
			ast.Inspect(x, func(n ast.Node) bool {
				if ix, ok := n.(*ast.IndexExpr); ok {
					if tv, ok := p.Info.Types[ix.X]; ok {
						if _, isMap := tv.Type.Underlying().(*types.Map); isMap {
							found = true
						}
					}
				}
				return true
			})
			return found
		}
		ast.Inspect(f.fd.Body, func(n ast.Node) bool {
			switch v := n.(type) {
			case *ast.AssignStmt:
				if v.Tok == token.DEFINE {
					return true
				}
				for i, l := range v.Lhs {
					op := "assign"
					switch {
					case v.Tok != token.ASSIGN:
						op = "counter"
					case hasMapIndex(l):
						op = "mapInsert"
					case len(v.Lhs) == len(v.Rhs) && isConst(v.Rhs[i]):
						op = "reset"
					case len(v.Lhs) == len(v.Rhs):
						if c, ok := unparen(v.Rhs[i]).(*ast.CallExpr); ok {
							if id, ok := c.Fun.(*ast.Ident); ok && id.Name == "append" {
								op = "append"
							}
						}
					}
					add(l, op, v)
				}
			case *ast.IncDecStmt:
				add(v.X, "counter", v)
			case *ast.CallExpr:
				switch fun := unparen(v.Fun).(type) {
				case *ast.Ident:
					if fun.Name == "delete" && len(v.Args) == 2 {
						if _, isB := p.Info.Uses[fun].(*types.Builtin); isB {
							add(v.Args[0], "mapInsert", v)
						}
					}
				case *ast.SelectorExpr:
					if id, ok := fun.X.(*ast.Ident); ok {
						if pn, isPkg := p.Info.Uses[id].(*types.PkgName); isPkg && pn.Imported().Path() == "sync/atomic" && len(v.Args) > 0 {
							switch {
							case strings.HasPrefix(fun.Sel.Name, "Add"):
								add(v.Args[0], "counter", v)
							case strings.HasPrefix(fun.Sel.Name, "Store") && len(v.Args) == 2 && isConst(v.Args[1]):
								add(v.Args[0], "reset", v)
							case atomicWrites[fun.Sel.Name]:
								add(v.Args[0], "assign", v)
							}
							return true
						}
					}
					if s := p.Info.Selections[fun]; s != nil && s.Kind() == types.MethodVal {
						switch namedType(p.Info.Types[fun.X].Type) {
						case "sync.Map":
							switch fun.Sel.Name {
							case "Store", "Delete", "LoadOrStore", "LoadAndDelete", "Swap", "CompareAndSwap", "CompareAndDelete":
								add(fun.X, "mapInsert", v)
							}
						case "sync/atomic.Value":
							if fun.Sel.Name != "Load" {
								add(fun.X, "assign", v)
							}
						}
					}
				}
			}
			return true
		})
	}
	sort.SliceStable(out, func(i, j int) bool {
		x, y := out[i], out[j]
		return x.pkg+"\x00"+x.fn+"\x00"+x.target+"\x00"+x.op < y.pkg+"\x00"+y.fn+"\x00"+y.target+"\x00"+y.op
	})
	return out
}
