// shapefacts — generator of lean/Csvq/Gen/ShapeFacts.lean (property C12).
//
// Finds every place where lib/query fans work out to goroutines and classifies, for every variable a worker
// shares with the enclosing function and WRITES, how it is written:
//
//	slot        indexed by the worker's own record index                      (x[index] = …, x[index] = append(x[index], …))
//	slotAffine  indexed by an arithmetic expression over the own index         (x[index*n+i] = …)
//	slotVia     indexed by a value looked up through the own index             (x[idx] for idx in partitions[keys[i]])
//	perWorker   indexed by the worker number                                   (pieces[thIdx] = …)
//	singleWriter  written only under `ownIndex == constant`
//	role        written by one of several DIFFERENT goroutines (producer / consumer) that is the only one to touch it
//	chan        channel send / close (how: singleSender | multiSender)
//	guardedAppend / guardedAssign / guardedMapInsert / guardedCount   under a mutex
//	atomic      sync/atomic store / add
//	pool        sync.Pool Get / Put;   syncMap  any sync.Map method;   extCall  a method of a type outside lib/query
//	other       anything else
//
// and, for the enclosing function, how per-worker pieces are used after the join (combine facts), which reads a
// worker makes of a slot-written variable at an index that is not its own (cross reads), the loops of the two
// drivers (GoroutineTaskManager.run, evaluateSequentialRoutine) that decide what "own index" means, and every
// `range` over a map in lib/query.
//
// What is compared in Lean never contains line numbers or the names of variables local to a worker: positions and
// source texts go into separate lists that no theorem mentions.
//
// Standard library only.  Fails closed: a `go` statement, a Run / EvaluateSequentially call or a statement form
// without a rule makes the program exit with status 1 (the obligation then stays undischarged).
package main

import (
	"fmt"
	"go/ast"
	"go/token"
	"go/types"
	"os"
	"path/filepath"
	"sort"
	"strings"
)

const queryPkg = "github.com/mithrandie/csvq/lib/query"

func namedType(t types.Type) string {
	for {
		if p, ok := t.(*types.Pointer); ok {
			t = p.Elem()
			continue
		}
		break
	}
	if n, ok := t.(*types.Named); ok {
		if n.Obj().Pkg() != nil {
			return n.Obj().Pkg().Path() + "." + n.Obj().Name()
		}
		return n.Obj().Name()
	}
	return ""
}

func shortType(n string) string {
	n = strings.TrimPrefix(n, queryPkg+".")
	if i := strings.LastIndex(n, "/"); i >= 0 {
		n = n[i+1:]
	}
	return n
}

type level int

const (
	lvNone level = iota
	lvMixed
	lvTh
	lvOwn
	lvAffine
	lvVia
)

func (l level) String() string {
	return [...]string{"foreign", "mixed", "worker", "own", "affine", "via"}[l]
}

type elem struct {
	kind    string // sel | index | slice | deref
	name    string
	lv      level
	contMap bool
	text    string
}

type resolved struct {
	root     types.Object
	rootName string
	path     []elem
	captured bool
	ok       bool
	paramRef bool // root is a by-value parameter of a driver function
}

type worker struct {
	encl    *ast.FuncDecl
	node    ast.Node // the FuncLit (or, for a driver, the FuncDecl) whose body a goroutine runs
	body    *ast.BlockStmt
	own     map[types.Object]bool
	th      types.Object
	role    int
	fanKind string
	fanOrd  int
	driver  bool
}

type env struct {
	w      *worker
	parent *env
	subst  map[types.Object]ast.Expr
	lv     map[types.Object]level
	alias  map[types.Object]ast.Expr
	held   []string
	conds  int
	via    []string
	depth  int
	scope  ast.Node
	stack  []types.Object
}

type fact struct {
	fn, fan, v, kind, how, via string
	pos, detail                string
	role                       int
	rootObj                    types.Object
	isChan                     bool
}

type an struct {
	p          *Pkg
	decls      map[types.Object]*ast.FuncDecl
	initLits   map[types.Object]*ast.FuncLit
	mutates    map[types.Object]bool
	facts      []fact
	cross      []fact
	reads      map[int]map[types.Object]bool // role → root objects referenced
	curReads   []readRec
	scopeCalls map[string]bool
	aliasBusy  map[types.Object]bool
	enclAl     map[types.Object]ast.Expr
	enclDone   map[types.Object]bool
}

// enclAlias: a variable of the enclosing function that is defined once, as a slice / element / field of other data
// (x := y.f[a:]), is another name for that data
func (a *an) enclAlias(o types.Object) ast.Expr {
	if a.enclDone[o] {
		return a.enclAl[o]
	}
	a.enclDone[o] = true
	if !isRefType(o.Type()) {
		return nil
	}
	var def ast.Expr
	n := 0
	for _, f := range a.p.Files {
		if !(f.Pos() <= o.Pos() && o.Pos() < f.End()) {
			continue
		}
		ast.Inspect(f, func(m ast.Node) bool {
			as, ok := m.(*ast.AssignStmt)
			if !ok {
				return true
			}
			for i, l := range as.Lhs {
				id, ok := l.(*ast.Ident)
				if !ok || a.objOf(id) != o {
					continue
				}
				n++
				if len(as.Lhs) == len(as.Rhs) {
					def = as.Rhs[i]
				} else {
					def = nil
					n++
				}
			}
			return true
		})
	}
	if n != 1 || def == nil {
		return nil
	}
	switch unparen(def).(type) {
	case *ast.SliceExpr, *ast.IndexExpr, *ast.SelectorExpr:
		a.enclAl[o] = def
		return def
	}
	return nil
}

type readRec struct {
	name string
	lv   level
	text string
	pos  string
}

func (a *an) text(n ast.Node) string {
	return strings.Join(strings.Fields(types.ExprString(n.(ast.Expr))), " ")
}

func unparen(e ast.Expr) ast.Expr {
	for {
		p, ok := e.(*ast.ParenExpr)
		if !ok {
			return e
		}
		e = p.X
	}
}

func (a *an) objOf(id *ast.Ident) types.Object {
	if o := a.p.Info.Uses[id]; o != nil {
		return o
	}
	return a.p.Info.Defs[id]
}

func within(o types.Object, n ast.Node) bool {
	return o.Pos() != token.NoPos && n.Pos() <= o.Pos() && o.Pos() < n.End()
}

func (a *an) isLocal(o types.Object, e *env) bool {
	if _, ok := o.(*types.Var); !ok {
		return true
	}
	if e.parent != nil {
		return within(o, e.scope)
	}
	if e.w.driver {
		return within(o, e.w.body)
	}
	return within(o, e.w.node)
}

func isRefType(t types.Type) bool {
	switch t.Underlying().(type) {
	case *types.Pointer, *types.Slice, *types.Map, *types.Chan, *types.Interface:
		return true
	}
	return false
}

// ---- levels -------------------------------------------------------------------------------------------------

func (a *an) identLevel(id *ast.Ident, e *env) level {
	o := a.objOf(id)
	if o == nil {
		return lvNone
	}
	for x := e; x != nil; x = x.parent {
		if ex, ok := x.subst[o]; ok {
			if x.parent == nil {
				return lvNone
			}
			return a.levelOf(ex, x.parent)
		}
		if l, ok := x.lv[o]; ok {
			return l
		}
	}
	if e.w.own[o] {
		return lvOwn
	}
	if e.w.th != nil && o == e.w.th {
		return lvTh
	}
	return lvNone
}

func (a *an) taintInside(n ast.Node, e *env) level {
	res := lvNone
	ast.Inspect(n, func(m ast.Node) bool {
		if id, ok := m.(*ast.Ident); ok {
			l := a.identLevel(id, e)
			if l == lvMixed {
				res = lvMixed
			} else if l >= lvOwn && res != lvMixed {
				res = lvVia
			}
		}
		return true
	})
	return res
}

func (a *an) levelOf(x ast.Expr, e *env) level {
	x = unparen(x)
	switch v := x.(type) {
	case *ast.Ident:
		return a.identLevel(v, e)
	case *ast.BasicLit:
		return lvNone
	case *ast.BinaryExpr:
		if v.Op == token.ADD || v.Op == token.SUB || v.Op == token.MUL {
			l, r := a.levelOf(v.X, e), a.levelOf(v.Y, e)
			switch {
			case l == lvMixed || r == lvMixed:
				return lvMixed
			case l == lvVia || r == lvVia:
				return lvVia
			case l >= lvOwn || r >= lvOwn:
				return lvAffine
			}
			return lvNone
		}
	}
	return a.taintInside(x, e)
}

// computeLevels: the level of every variable declared inside body, by iteration to a fixed point
func (a *an) computeLevels(body ast.Node, e *env) {
	if e.lv == nil {
		e.lv = map[types.Object]level{}
	}
	for iter := 0; iter < 12; iter++ {
		defs := map[types.Object][]level{}
		add := func(lhs ast.Expr, l level) {
			id, ok := unparen(lhs).(*ast.Ident)
			if !ok || id.Name == "_" {
				return
			}
			o := a.objOf(id)
			if o == nil || !within(o, body) {
				return
			}
			defs[o] = append(defs[o], l)
		}
		ast.Inspect(body, func(n ast.Node) bool {
			switch s := n.(type) {
			case *ast.AssignStmt:
				if s.Tok != token.DEFINE && s.Tok != token.ASSIGN {
					for _, l := range s.Lhs {
						add(l, a.levelOf(&ast.BinaryExpr{X: l, Op: token.ADD, Y: s.Rhs[0]}, e))
					}
					return true
				}
				if len(s.Lhs) == len(s.Rhs) {
					for i := range s.Lhs {
						add(s.Lhs[i], a.levelOf(s.Rhs[i], e))
					}
				} else {
					l := a.levelOf(s.Rhs[0], e)
					if l >= lvOwn {
						l = lvVia
					}
					for i := range s.Lhs {
						add(s.Lhs[i], l)
					}
				}
			case *ast.ValueSpec:
				for i, nm := range s.Names {
					if i < len(s.Values) {
						add(nm, a.levelOf(s.Values[i], e))
					} else if len(s.Values) == 0 {
						add(nm, lvNone)
					}
				}
			case *ast.RangeStmt:
				l := a.levelOf(s.X, e)
				if l >= lvOwn {
					l = lvVia
				}
				if s.Key != nil {
					add(s.Key, l)
				}
				if s.Value != nil {
					add(s.Value, l)
				}
			}
			return true
		})
		changed := false
		for o, ls := range defs {
			var j level
			none, tainted := false, lvNone
			for _, l := range ls {
				switch {
				case l == lvNone || l == lvTh:
					none = true
				case l == lvMixed:
					none, tainted = true, lvVia
				case l > tainted:
					tainted = l
				}
			}
			switch {
			case tainted == lvNone:
				j = lvNone
			case none:
				j = lvMixed
			default:
				j = tainted
			}
			if e.w.own[o] {
				continue
			}
			if old, ok := e.lv[o]; !ok || old != j {
				if !ok && j == lvNone {
					e.lv[o] = j
					continue
				}
				e.lv[o] = j
				changed = true
			}
		}
		if !changed {
			return
		}
	}
	fatal("levels of %s do not reach a fixed point", a.p.at(body.Pos()))
}

// ---- paths --------------------------------------------------------------------------------------------------

func (a *an) resolve(x ast.Expr, e *env) resolved {
	var path []elem
	for {
		x = unparen(x)
		switch v := x.(type) {
		case *ast.SelectorExpr:
			if id, ok := v.X.(*ast.Ident); ok {
				if _, isPkg := a.p.Info.Uses[id].(*types.PkgName); isPkg {
					o := a.p.Info.Uses[v.Sel]
					if _, isVar := o.(*types.Var); !isVar {
						return resolved{}
					}
					return resolved{root: o, rootName: id.Name + "." + v.Sel.Name, path: rev(path), captured: true, ok: true}
				}
			}
			path = append(path, elem{kind: "sel", name: v.Sel.Name})
			x = v.X
			continue
		case *ast.IndexExpr:
			tv := a.p.Info.Types[v.X]
			_, isMap := tv.Type.Underlying().(*types.Map)
			path = append(path, elem{kind: "index", lv: a.levelOf(v.Index, e), contMap: isMap, text: a.text(v.Index)})
			x = v.X
			continue
		case *ast.SliceExpr:
			sh := ""
			if v.Low != nil {
				if bl, ok := unparen(v.Low).(*ast.BasicLit); !ok || bl.Value != "0" {
					sh = "shift"
				}
			}
			path = append(path, elem{kind: "slice", name: sh})
			x = v.X
			continue
		case *ast.StarExpr:
			path = append(path, elem{kind: "deref"})
			x = v.X
			continue
		case *ast.UnaryExpr:
			if v.Op == token.AND {
				x = v.X
				continue
			}
			return resolved{}
		case *ast.TypeAssertExpr:
			x = v.X
			continue
		case *ast.Ident:
			o := a.objOf(v)
			if o == nil {
				return resolved{}
			}
			if _, isVar := o.(*types.Var); !isVar {
				return resolved{}
			}
			p := rev(path)
			if ex, ok := e.subst[o]; ok {
				if e.parent == nil {
					return resolved{}
				}
				r := a.resolve(ex, e.parent)
				if !r.ok {
					return r
				}
				r.path = append(append([]elem{}, r.path...), p...)
				return r
			}
			if ex, ok := e.alias[o]; ok {
				r := a.resolve(ex, e)
				if !r.ok {
					return r
				}
				r.path = append(append([]elem{}, r.path...), p...)
				return r
			}
			if a.isLocal(o, e) {
				return resolved{root: o, rootName: v.Name, path: p, ok: true}
			}
			if ex := a.enclAlias(o); ex != nil && !a.aliasBusy[o] {
				a.aliasBusy[o] = true
				r := a.resolve(ex, &env{w: e.w})
				a.aliasBusy[o] = false
				if r.ok && r.captured {
					r.path = append(append([]elem{}, r.path...), p...)
					return r
				}
			}
			r := resolved{root: o, rootName: v.Name, path: p, captured: true, ok: true}
			if e.parent == nil && e.w.driver && within(o, e.w.node) && !isRefType(o.Type()) {
				r.paramRef = true
			}
			return r
		default:
			return resolved{}
		}
	}
}

func rev(p []elem) []elem {
	out := make([]elem, len(p))
	for i := range p {
		out[len(p)-1-i] = p[i]
	}
	return out
}

// canonical name: root and selectors up to the first index; the first index element (nil when there is none)
func canon(r resolved) (string, *elem) {
	name := r.rootName
	shifted := false
	for i := range r.path {
		switch r.path[i].kind {
		case "sel":
			name += "." + r.path[i].name
		case "slice":
			if r.path[i].name == "shift" {
				shifted = true
			}
		case "index":
			el := r.path[i]
			if shifted && el.lv == lvOwn {
				// the own index into a slice that does not start at element 0 is another element
				el.lv = lvAffine
			}
			if shifted {
				el.text = "(shifted slice) " + el.text
			}
			return name, &el
		}
	}
	return name, nil
}

// ---- facts --------------------------------------------------------------------------------------------------

func (a *an) emit(e *env, r resolved, op string, at ast.Node, forcedKind string) {
	name, first := canon(r)
	kind := forcedKind
	how := op
	if kind == "" {
		switch {
		case first != nil && !first.contMap && first.lv == lvOwn:
			kind = "slot"
		case first != nil && !first.contMap && first.lv == lvAffine:
			kind = "slotAffine"
		case first != nil && !first.contMap && first.lv == lvVia:
			kind = "slotVia"
		case first != nil && !first.contMap && first.lv == lvTh:
			kind = "perWorker"
		default:
			if first != nil && first.contMap {
				how = "mapInsert"
			}
			switch {
			case op == "atomic":
				kind = "atomic"
			case op == "send" || op == "close":
				kind = "chan"
			case e.conds > 0:
				kind = "singleWriter"
			case len(e.held) > 0:
				switch how {
				case "append":
					kind = "guardedAppend"
				case "mapInsert":
					kind = "guardedMapInsert"
				case "count":
					kind = "guardedCount"
				default:
					kind = "guardedAssign"
				}
			default:
				kind = "other"
			}
		}
	}
	detail := ""
	if ex, ok := at.(ast.Expr); ok {
		detail = a.text(ex)
	} else {
		detail = fmt.Sprintf("%T", at)
	}
	if first != nil {
		detail += "   [index " + first.text + ": " + first.lv.String() + "]"
	}
	if len(e.held) > 0 {
		detail += "   [holds " + strings.Join(e.held, ",") + "]"
	}
	a.facts = append(a.facts, fact{
		fn: funcLabel(e.w.encl), fan: e.w.fanKind, v: name, kind: kind, how: how, via: strings.Join(e.via, ">"),
		pos: fmt.Sprintf("%s#%d", a.p.at(at.Pos()), e.w.fanOrd), detail: detail, role: e.w.role, rootObj: r.root,
		isChan: kind == "chan",
	})
}

func (a *an) write(lhs ast.Expr, op string, e *env, at ast.Node) {
	if id, ok := unparen(lhs).(*ast.Ident); ok && id.Name == "_" {
		return
	}
	r := a.resolve(lhs, e)
	if !r.ok || !r.captured {
		return
	}
	if r.paramRef {
		// a by-value parameter of a driver function: the worker's own copy (fields of a struct copy included)
		ref := false
		for _, el := range r.path {
			if el.kind == "index" || el.kind == "deref" {
				ref = true
			}
		}
		if !ref {
			return
		}
	}
	a.emit(e, r, op, at, "")
}

func sameText(a *an, x, y ast.Expr) bool { return a.text(x) == a.text(y) }

// ---- statements ---------------------------------------------------------------------------------------------

func copyHeld(h []string) []string { return append([]string{}, h...) }

func (a *an) stmts(list []ast.Stmt, e *env) {
	for _, s := range list {
		a.stmt(s, e)
	}
}

func (a *an) block(list []ast.Stmt, e *env) {
	saved := copyHeld(e.held)
	a.stmts(list, e)
	e.held = saved
}

func (a *an) ownEqConst(c ast.Expr, e *env) bool {
	b, ok := unparen(c).(*ast.BinaryExpr)
	if !ok || b.Op != token.EQL {
		return false
	}
	isLit := func(x ast.Expr) bool { _, ok := unparen(x).(*ast.BasicLit); return ok }
	return (a.levelOf(b.X, e) == lvOwn && isLit(b.Y)) || (a.levelOf(b.Y, e) == lvOwn && isLit(b.X))
}

func (a *an) stmt(s ast.Stmt, e *env) {
	switch v := s.(type) {
	case nil:
	case *ast.ExprStmt:
		a.expr(v.X, e)
	case *ast.AssignStmt:
		for _, r := range v.Rhs {
			a.expr(r, e)
		}
		for i, l := range v.Lhs {
			if v.Tok == token.DEFINE {
				if id, ok := l.(*ast.Ident); ok {
					if o := a.p.Info.Defs[id]; o != nil {
						// a new local: remember what it aliases when it is a reference into shared data
						if len(v.Lhs) == len(v.Rhs) && isRefType(o.Type()) {
							if r := a.resolve(v.Rhs[i], e); r.ok && r.captured {
								if e.alias == nil {
									e.alias = map[types.Object]ast.Expr{}
								}
								e.alias[o] = v.Rhs[i]
							}
						}
						continue
					}
				}
			}
			op := "assign"
			switch {
			case v.Tok != token.ASSIGN && v.Tok != token.DEFINE:
				op = "count"
			case len(v.Lhs) == len(v.Rhs):
				if c, ok := unparen(v.Rhs[i]).(*ast.CallExpr); ok {
					if id, ok := c.Fun.(*ast.Ident); ok && id.Name == "append" && len(c.Args) > 0 && sameText(a, c.Args[0], l) {
						if _, isB := a.p.Info.Uses[id].(*types.Builtin); isB {
							op = "append"
						}
					}
				}
			}
			a.lhsIndexCalls(l, e)
			a.write(l, op, e, l)
		}
	case *ast.IncDecStmt:
		a.lhsIndexCalls(v.X, e)
		a.write(v.X, "count", e, v.X)
	case *ast.SendStmt:
		a.expr(v.Value, e)
		a.write(v.Chan, "send", e, v.Chan)
	case *ast.DeferStmt:
		if fl, ok := v.Call.Fun.(*ast.FuncLit); ok {
			a.block(fl.Body.List, e)
			return
		}
		if sel, ok := v.Call.Fun.(*ast.SelectorExpr); ok && (sel.Sel.Name == "Unlock" || sel.Sel.Name == "RUnlock") {
			return // held until the function returns
		}
		a.expr(v.Call, e)
	case *ast.GoStmt:
		fatal("%s: a goroutine is started inside a worker", a.p.at(v.Pos()))
	case *ast.IfStmt:
		saved := copyHeld(e.held)
		a.stmt(v.Init, e)
		a.expr(v.Cond, e)
		if a.ownEqConst(v.Cond, e) {
			e.conds++
			a.block(v.Body.List, e)
			e.conds--
		} else {
			a.block(v.Body.List, e)
		}
		if v.Else != nil {
			a.stmt(v.Else, e)
		}
		e.held = saved
	case *ast.ForStmt:
		saved := copyHeld(e.held)
		a.stmt(v.Init, e)
		if v.Cond != nil {
			a.expr(v.Cond, e)
		}
		a.stmt(v.Post, e)
		a.block(v.Body.List, e)
		e.held = saved
	case *ast.RangeStmt:
		a.expr(v.X, e)
		if v.Tok == token.ASSIGN {
			if v.Key != nil {
				a.write(v.Key, "assign", e, v.Key)
			}
			if v.Value != nil {
				a.write(v.Value, "assign", e, v.Value)
			}
		}
		a.block(v.Body.List, e)
	case *ast.BlockStmt:
		a.block(v.List, e)
	case *ast.LabeledStmt:
		a.stmt(v.Stmt, e)
	case *ast.SwitchStmt:
		saved := copyHeld(e.held)
		a.stmt(v.Init, e)
		if v.Tag != nil {
			a.expr(v.Tag, e)
		}
		for _, c := range v.Body.List {
			cc := c.(*ast.CaseClause)
			for _, x := range cc.List {
				a.expr(x, e)
			}
			a.block(cc.Body, e)
		}
		e.held = saved
	case *ast.TypeSwitchStmt:
		saved := copyHeld(e.held)
		a.stmt(v.Init, e)
		a.stmt(v.Assign, e)
		for _, c := range v.Body.List {
			a.block(c.(*ast.CaseClause).Body, e)
		}
		e.held = saved
	case *ast.SelectStmt:
		for _, c := range v.Body.List {
			cc := c.(*ast.CommClause)
			saved := copyHeld(e.held)
			a.stmt(cc.Comm, e)
			a.stmts(cc.Body, e)
			e.held = saved
		}
	case *ast.ReturnStmt:
		for _, r := range v.Results {
			a.expr(r, e)
		}
	case *ast.DeclStmt:
		gd, ok := v.Decl.(*ast.GenDecl)
		if !ok {
			fatal("%s: declaration without a rule", a.p.at(v.Pos()))
		}
		for _, sp := range gd.Specs {
			if vs, ok := sp.(*ast.ValueSpec); ok {
				for _, x := range vs.Values {
					a.expr(x, e)
				}
			}
		}
	case *ast.BranchStmt, *ast.EmptyStmt:
	default:
		fatal("%s: statement %T without a rule", a.p.at(s.Pos()), s)
	}
}

// calls inside the index expressions of a left-hand side
func (a *an) lhsIndexCalls(l ast.Expr, e *env) {
	ast.Inspect(l, func(n ast.Node) bool {
		if ix, ok := n.(*ast.IndexExpr); ok {
			a.expr(ix.Index, e)
		}
		return true
	})
}

// expr: every call inside x (and every read of shared indexed data, for the cross-read facts)
func (a *an) expr(x ast.Expr, e *env) {
	if x == nil {
		return
	}
	ast.Inspect(x, func(n ast.Node) bool {
		switch v := n.(type) {
		case *ast.CallExpr:
			a.call(v, e)
			return false
		case *ast.FuncLit:
			a.block(v.Body.List, e)
			return false
		case *ast.IndexExpr:
			a.noteRead(v, e)
		case *ast.UnaryExpr:
			if v.Op == token.AND {
				if _, isLit := unparen(v.X).(*ast.CompositeLit); !isLit {
					if r := a.resolve(v.X, e); r.ok && r.captured && !r.paramRef {
						a.emit(e, r, "addressTaken", v, "other")
					}
				}
			}
		}
		return true
	})
}

func (a *an) noteRead(ix *ast.IndexExpr, e *env) {
	r := a.resolve(ix, e)
	if !r.ok || !r.captured {
		return
	}
	name, first := canon(r)
	if first == nil || first.contMap {
		return
	}
	a.curReads = append(a.curReads, readRec{name: name, lv: first.lv, text: first.text, pos: a.p.at(ix.Pos())})
}

var atomicWrites = map[string]bool{"AddInt32": true, "AddInt64": true, "AddUint32": true, "AddUint64": true, "AddUintptr": true,
	"StoreInt32": true, "StoreInt64": true, "StoreUint32": true, "StoreUint64": true, "StorePointer": true, "StoreUintptr": true,
	"SwapInt32": true, "SwapInt64": true, "SwapUint32": true, "SwapUint64": true, "SwapPointer": true,
	"CompareAndSwapInt32": true, "CompareAndSwapInt64": true, "CompareAndSwapUint32": true, "CompareAndSwapUint64": true, "CompareAndSwapPointer": true}

var atomicReads = map[string]bool{"LoadInt32": true, "LoadInt64": true, "LoadUint32": true, "LoadUint64": true, "LoadPointer": true, "LoadUintptr": true}

// methods of types outside lib/query that only read their receiver (reviewed by reading the dependency's source)
var readOnlyExt = map[string]bool{
	"context.Context.Err":  true,
	"context.Context.Done": true,
	// go-text/json: type Object struct{ Members []ObjectMember }; both are loops over Members that compare keys
	"github.com/mithrandie/go-text/json.Object.Exists": true,
	"github.com/mithrandie/go-text/json.Object.Value":  true,
}

func (a *an) args(c *ast.CallExpr, e *env) {
	for _, x := range c.Args {
		a.expr(x, e)
	}
}

func (a *an) call(c *ast.CallExpr, e *env) {
	fun := unparen(c.Fun)
	if tv, ok := a.p.Info.Types[fun]; ok && tv.IsType() {
		a.args(c, e)
		return
	}
	switch f := fun.(type) {
	case *ast.FuncLit:
		a.args(c, e)
		a.block(f.Body.List, e)
		return
	case *ast.Ident:
		o := a.objOf(f)
		switch ob := o.(type) {
		case *types.Builtin:
			switch ob.Name() {
			case "copy":
				a.write(c.Args[0], "copyInto", e, c)
			case "delete":
				a.write(&ast.IndexExpr{X: c.Args[0], Index: c.Args[1]}, "mapInsert", e, c)
			case "close":
				a.write(c.Args[0], "close", e, c)
			}
			a.args(c, e)
			return
		case *types.Var:
			a.args(c, e)
			if fl := a.initLits[o]; fl != nil {
				a.inline(o, fl, fl.Type, fl.Body, nil, nil, c, e, "closure:"+f.Name)
			}
			// a parameter of function type (the callback of a driver) is reported by the driver facts
			return
		case *types.Func:
			a.args(c, e)
			return
		}
		a.args(c, e)
		return
	case *ast.SelectorExpr:
		if id, ok := f.X.(*ast.Ident); ok {
			if pn, isPkg := a.p.Info.Uses[id].(*types.PkgName); isPkg {
				if pn.Imported().Path() == "sync/atomic" {
					switch {
					case atomicWrites[f.Sel.Name]:
						if u, ok := unparen(c.Args[0]).(*ast.UnaryExpr); ok && u.Op == token.AND {
							a.write(u.X, "atomic", e, c)
						} else {
							a.write(c.Args[0], "atomic", e, c)
						}
						for _, x := range c.Args[1:] {
							a.expr(x, e)
						}
						return
					case atomicReads[f.Sel.Name]:
						return
					}
					fatal("%s: sync/atomic.%s without a rule", a.p.at(c.Pos()), f.Sel.Name)
				}
				a.args(c, e)
				return
			}
		}
		sel := a.p.Info.Selections[f]
		if sel == nil || sel.Kind() != types.MethodVal {
			// a field of function type
			a.expr(f.X, e)
			a.args(c, e)
			return
		}
		a.expr(f.X, e)
		a.args(c, e)
		r := a.resolve(f.X, e)
		if strings.HasPrefix(f.Sel.Name, "CreateScopeFor") && e.parent == nil {
			a.scopeCalls[funcLabel(e.w.encl)+"|"+e.w.fanKind+"|"+f.Sel.Name] = true
		}
		if !r.ok || !r.captured {
			return
		}
		recvT := namedType(a.p.Info.Types[f.X].Type)
		name, _ := canon(r)
		switch recvT {
		case "sync.Mutex", "sync.RWMutex":
			switch f.Sel.Name {
			case "Lock", "RLock":
				e.held = append(e.held, name)
			case "Unlock", "RUnlock":
				for i := len(e.held) - 1; i >= 0; i-- {
					if e.held[i] == name {
						e.held = append(e.held[:i:i], e.held[i+1:]...)
						break
					}
				}
			default:
				fatal("%s: %s.%s without a rule", a.p.at(c.Pos()), recvT, f.Sel.Name)
			}
			return
		case "sync.WaitGroup":
			return
		case "sync.Pool":
			a.emit(e, r, "", c, "pool")
			return
		case "sync.Map":
			a.emit(e, r, f.Sel.Name, c, "syncMap")
			return
		case "sync.Once", "sync.Cond":
			a.emit(e, r, f.Sel.Name, c, "other")
			return
		}
		mo := sel.Obj()
		if fd := a.decls[mo]; fd != nil {
			if a.mutates[mo] {
				a.inline(mo, fd, fd.Type, fd.Body, fd.Recv, f.X, c, e, shortType(recvT)+"."+f.Sel.Name)
			}
			return
		}
		if it, ok := a.p.Info.Types[f.X].Type.Underlying().(*types.Interface); ok && strings.HasPrefix(recvT, queryPkg+".") {
			// an interface of lib/query: every implementation in the package is looked at
			mut := false
			sc := a.p.Types.Scope()
			for _, nm := range sc.Names() {
				tn, ok := sc.Lookup(nm).(*types.TypeName)
				if !ok {
					continue
				}
				for _, t := range []types.Type{tn.Type(), types.NewPointer(tn.Type())} {
					if _, isI := tn.Type().Underlying().(*types.Interface); isI || !types.Implements(t, it) {
						continue
					}
					if mo, _, _ := types.LookupFieldOrMethod(t, true, a.p.Types, f.Sel.Name); mo != nil && a.mutates[mo] {
						mut = true
					}
				}
			}
			if !mut {
				return
			}
		}
		key := recvT + "." + f.Sel.Name
		if recvT == "" {
			key = types.TypeString(a.p.Info.Types[f.X].Type, nil) + "." + f.Sel.Name
		}
		if readOnlyExt[key] {
			return
		}
		a.emit(e, r, shortType(key), c, "extCall")
		return
	}
	a.expr(fun, e)
	a.args(c, e)
}

func (a *an) inline(o types.Object, node ast.Node, ft *ast.FuncType, body *ast.BlockStmt, recv *ast.FieldList, recvExpr ast.Expr, c *ast.CallExpr, e *env, label string) {
	if body == nil {
		return
	}
	for _, s := range e.stack {
		if s == o {
			return
		}
	}
	if e.depth >= 5 {
		fatal("%s: calls nested deeper than 5 below a worker (%s)", a.p.at(c.Pos()), label)
	}
	ne := &env{w: e.w, parent: e, subst: map[types.Object]ast.Expr{}, held: copyHeld(e.held), conds: e.conds,
		via: append(append([]string{}, e.via...), label), depth: e.depth + 1, scope: node, stack: append(append([]types.Object{}, e.stack...), o)}
	if recv != nil && len(recv.List) == 1 && len(recv.List[0].Names) == 1 {
		ne.subst[a.p.Info.Defs[recv.List[0].Names[0]]] = recvExpr
	}
	i := 0
	for _, f := range ft.Params.List {
		for _, nm := range f.Names {
			if i < len(c.Args) {
				if po := a.p.Info.Defs[nm]; po != nil {
					ne.subst[po] = c.Args[i]
				}
			}
			i++
		}
	}
	a.computeLevels(body, ne)
	a.stmts(body.List, ne)
}

// ---- which methods write through their receiver ------------------------------------------------------------

func (a *an) computeMutates() {
	a.mutates = map[types.Object]bool{}
	recvObj := func(fd *ast.FuncDecl) types.Object {
		if fd.Recv == nil || len(fd.Recv.List) != 1 || len(fd.Recv.List[0].Names) != 1 {
			return nil
		}
		return a.p.Info.Defs[fd.Recv.List[0].Names[0]]
	}
	rootIs := func(x ast.Expr, ro types.Object) (bool, bool) { // rooted at the receiver; through a reference
		ref := false
		for {
			x = unparen(x)
			switch v := x.(type) {
			case *ast.SelectorExpr:
				if tv, ok := a.p.Info.Types[v.X]; ok {
					if _, isPtr := tv.Type.Underlying().(*types.Pointer); isPtr {
						ref = true
					}
				}
				x = v.X
			case *ast.IndexExpr:
				ref = true
				x = v.X
			case *ast.SliceExpr:
				x = v.X
			case *ast.StarExpr:
				ref = true
				x = v.X
			case *ast.Ident:
				return a.objOf(v) == ro, ref
			default:
				return false, false
			}
		}
	}
	for changed := true; changed; {
		changed = false
		for mo, fd := range a.decls {
			if a.mutates[mo] || fd.Body == nil {
				continue
			}
			ro := recvObj(fd)
			if ro == nil {
				continue
			}
			_, ptrRecv := ro.Type().Underlying().(*types.Pointer)
			hit := false
			w := func(x ast.Expr) {
				if is, ref := rootIs(x, ro); is && (ref || ptrRecv) {
					if id, ok := unparen(x).(*ast.Ident); ok && a.objOf(id) == ro {
						return // the receiver variable itself is reassigned: local
					}
					hit = true
				}
			}
			ast.Inspect(fd.Body, func(n ast.Node) bool {
				switch v := n.(type) {
				case *ast.AssignStmt:
					for _, l := range v.Lhs {
						w(l)
					}
				case *ast.IncDecStmt:
					w(v.X)
				case *ast.CallExpr:
					if id, ok := v.Fun.(*ast.Ident); ok && (id.Name == "copy" || id.Name == "delete") && len(v.Args) > 0 {
						w(v.Args[0])
					}
					if se, ok := v.Fun.(*ast.SelectorExpr); ok {
						if s := a.p.Info.Selections[se]; s != nil && s.Kind() == types.MethodVal {
							if is, _ := rootIs(se.X, ro); is {
								if a.mutates[s.Obj()] {
									hit = true
								}
								switch namedType(a.p.Info.Types[se.X].Type) {
								case "sync.Pool", "sync.Map":
									hit = true
								}
							}
						}
					}
				}
				return true
			})
			if hit {
				a.mutates[mo] = true
				changed = true
			}
		}
	}
}

// ---- fan-outs -----------------------------------------------------------------------------------------------

type fanout struct {
	fn      *ast.FuncDecl
	kind    string
	ord     int
	end     token.Pos // everything after this position in fn runs after the workers were started
	workers []*worker
}

func (a *an) findFanouts() []*fanout {
	var out []*fanout
	for _, f := range a.p.Files {
		for _, d := range f.Decls {
			fd, ok := d.(*ast.FuncDecl)
			if !ok || fd.Body == nil {
				continue
			}
			var fans []*fanout
			var roles *fanout
			var stack []ast.Node
			ast.Inspect(fd.Body, func(n ast.Node) bool {
				if n == nil {
					stack = stack[:len(stack)-1]
					return true
				}
				stack = append(stack, n)
				switch v := n.(type) {
				case *ast.CallExpr:
					name, isRun := a.fanCall(v)
					if !isRun {
						return true
					}
					cb := unparen(v.Args[len(v.Args)-1])
					var fl *ast.FuncLit
					switch c := cb.(type) {
					case *ast.FuncLit:
						fl = c
					case *ast.Ident:
						fl = a.initLits[a.objOf(c)]
					}
					if fl == nil {
						if id, ok := cb.(*ast.Ident); ok {
							if _, isParam := a.objOf(id).(*types.Var); isParam && within(a.objOf(id), fd.Type) {
								return true // a driver passing its own callback on
							}
						}
						fatal("%s: the callback of %s is not a function literal", a.p.at(v.Pos()), name)
					}
					w := &worker{encl: fd, node: fl, body: fl.Body, own: map[types.Object]bool{}, fanKind: name}
					pi := 0
					if name == "evalseq" {
						pi = 1
					}
					k := 0
					for _, p := range fl.Type.Params.List {
						for _, nm := range p.Names {
							if k == pi {
								w.own[a.p.Info.Defs[nm]] = true
							}
							k++
						}
					}
					if len(w.own) != 1 {
						fatal("%s: callback of %s without an index parameter", a.p.at(v.Pos()), name)
					}
					fans = append(fans, &fanout{fn: fd, kind: name, end: v.End(), workers: []*worker{w}})
				case *ast.GoStmt:
					inLoop := false
					for _, s := range stack {
						switch s.(type) {
						case *ast.ForStmt, *ast.RangeStmt:
							inLoop = true
						}
					}
					switch fn := unparen(v.Call.Fun).(type) {
					case *ast.FuncLit:
						if inLoop || len(v.Call.Args) != 0 {
							fatal("%s: goroutine literal started in a loop or with arguments: no rule", a.p.at(v.Pos()))
						}
						if roles == nil {
							roles = &fanout{fn: fd, kind: "roles"}
							fans = append(fans, roles)
						}
						roles.end = v.End()
						roles.workers = append(roles.workers, &worker{encl: fd, node: fn, body: fn.Body, own: map[types.Object]bool{}, fanKind: "roles", role: len(roles.workers)})
					case *ast.Ident:
						fl := a.initLits[a.objOf(fn)]
						if !inLoop || (fl != nil && len(v.Call.Args) != 1) {
							fatal("%s: go %s(...): no rule", a.p.at(v.Pos()), fn.Name)
						}
						if fl != nil {
							w := &worker{encl: fd, node: fl, body: fl.Body, own: map[types.Object]bool{}, fanKind: "workers"}
							a.workerIndices(w, fl.Type, 0)
							fans = append(fans, &fanout{fn: fd, kind: "workers", end: v.End(), workers: []*worker{w}})
						} else if decl := a.decls[a.objOf(fn)]; decl != nil {
							a.driverFan(&fans, fd, decl, v)
						} else {
							fatal("%s: go %s(...): unknown callee", a.p.at(v.Pos()), fn.Name)
						}
					case *ast.SelectorExpr:
						s := a.p.Info.Selections[fn]
						if s == nil || a.decls[s.Obj()] == nil || !inLoop {
							fatal("%s: go %s(...): no rule", a.p.at(v.Pos()), a.text(fn))
						}
						a.driverFan(&fans, fd, a.decls[s.Obj()], v)
					default:
						fatal("%s: go statement without a rule", a.p.at(v.Pos()))
					}
				}
				return true
			})
			for i, fo := range fans {
				fo.ord = i
				for _, w := range fo.workers {
					w.fanOrd = i
				}
			}
			out = append(out, fans...)
		}
	}
	return out
}

// driverFan: `go f(…, i, …)` in a loop where f is a declared function: the worker is f's body; the argument that is
// the loop variable is the worker number
func (a *an) driverFan(fans *[]*fanout, fd, decl *ast.FuncDecl, g *ast.GoStmt) {
	w := &worker{encl: fd, node: decl, body: decl.Body, own: map[types.Object]bool{}, fanKind: "driver", driver: true}
	k := 0
	thPos := -1
	for i, x := range g.Call.Args {
		if id, ok := unparen(x).(*ast.Ident); ok {
			if b, isBasic := a.objOf(id).Type().Underlying().(*types.Basic); isBasic && b.Kind() == types.Int {
				thPos = i
			}
		}
	}
	if thPos < 0 {
		fatal("%s: no worker-number argument", a.p.at(g.Pos()))
	}
	a.workerIndices(w, decl.Type, thPos)
	_ = k
	*fans = append(*fans, &fanout{fn: fd, kind: "driver:" + funcLabel(decl), end: g.End(), workers: []*worker{w}})
	w.fanKind = "driver:" + funcLabel(decl)
}

// workerIndices: parameter number thPos is the worker number; the loop variable of
// `for i := start; i < end; i++` with `start, end := X.RecordRange(worker number)` is the own record index
func (a *an) workerIndices(w *worker, ft *ast.FuncType, thPos int) {
	k := 0
	for _, p := range ft.Params.List {
		for _, nm := range p.Names {
			if k == thPos {
				w.th = a.p.Info.Defs[nm]
			}
			k++
		}
	}
	if w.th == nil {
		fatal("%s: worker without a worker-number parameter", a.p.at(w.node.Pos()))
	}
	var start, end types.Object
	ast.Inspect(w.body, func(n ast.Node) bool {
		as, ok := n.(*ast.AssignStmt)
		if !ok || len(as.Lhs) != 2 || len(as.Rhs) != 1 {
			return true
		}
		c, ok := as.Rhs[0].(*ast.CallExpr)
		if !ok {
			return true
		}
		se, ok := c.Fun.(*ast.SelectorExpr)
		if !ok || se.Sel.Name != "RecordRange" || len(c.Args) != 1 {
			return true
		}
		if id, ok := c.Args[0].(*ast.Ident); !ok || a.objOf(id) != w.th {
			fatal("%s: RecordRange of something else than the worker number", a.p.at(c.Pos()))
		}
		start, end = a.objOf(as.Lhs[0].(*ast.Ident)), a.objOf(as.Lhs[1].(*ast.Ident))
		return true
	})
	if start == nil {
		return
	}
	ast.Inspect(w.body, func(n ast.Node) bool {
		fs, ok := n.(*ast.ForStmt)
		if !ok || fs.Init == nil || fs.Cond == nil || fs.Post == nil {
			return true
		}
		in, ok := fs.Init.(*ast.AssignStmt)
		if !ok || in.Tok != token.DEFINE || len(in.Lhs) != 1 {
			return true
		}
		if id, ok := in.Rhs[0].(*ast.Ident); !ok || a.objOf(id) != start {
			return true
		}
		iv := a.p.Info.Defs[in.Lhs[0].(*ast.Ident)]
		cond, ok := fs.Cond.(*ast.BinaryExpr)
		if !ok || cond.Op != token.LSS {
			return true
		}
		if id, ok := cond.X.(*ast.Ident); !ok || a.objOf(id) != iv {
			return true
		}
		if id, ok := cond.Y.(*ast.Ident); !ok || a.objOf(id) != end {
			return true
		}
		if inc, ok := fs.Post.(*ast.IncDecStmt); !ok || inc.Tok != token.INC {
			return true
		}
		w.own[iv] = true
		return true
	})
}

func (a *an) fanCall(c *ast.CallExpr) (string, bool) {
	switch f := unparen(c.Fun).(type) {
	case *ast.Ident:
		if f.Name == "EvaluateSequentially" {
			if fo, ok := a.objOf(f).(*types.Func); ok && fo.Pkg() != nil && fo.Pkg().Path() == queryPkg {
				return "evalseq", true
			}
		}
	case *ast.SelectorExpr:
		if f.Sel.Name == "Run" {
			if tv, ok := a.p.Info.Types[f.X]; ok && namedType(tv.Type) == queryPkg+".GoroutineTaskManager" {
				return "run", true
			}
		}
	}
	return "", false
}

// ---- combine facts ------------------------------------------------------------------------------------------

// uses of the variable `name` (canonical text) after position `after` in fd; depth: follow one call into lib/query
func (a *an) usesAfter(fd *ast.FuncDecl, body ast.Node, match func(ast.Expr) bool, after token.Pos, depth int) []string {
	set := map[string]bool{}
	ranged := map[ast.Node]bool{}
	ast.Inspect(body, func(n ast.Node) bool {
		if n == nil || n.End() <= after {
			return n != nil && n.End() > after || false
		}
		switch v := n.(type) {
		case *ast.RangeStmt:
			if v.Pos() > after && match(v.X) {
				if _, isMap := a.p.Info.Types[v.X].Type.Underlying().(*types.Map); isMap {
					set["rangeMap"] = true
				} else {
					set["rangeIndex"] = true
				}
				ranged[v.X] = true
			}
			if v.Pos() > after {
				// range over an element of the pieces
				if ix, ok := unparen(v.X).(*ast.IndexExpr); ok && match(ix.X) {
					if _, isMap := a.p.Info.Types[v.X].Type.Underlying().(*types.Map); isMap {
						set["rangeMapOfPiece"] = true
					} else {
						set["rangeOfPiece"] = true
					}
				}
			}
		case *ast.CallExpr:
			if v.Pos() <= after {
				return true
			}
			for i, arg := range v.Args {
				if !match(arg) {
					continue
				}
				ranged[arg] = true
				name := a.text(v.Fun)
				if id, ok := v.Fun.(*ast.Ident); ok {
					if _, isB := a.objOf(id).(*types.Builtin); isB {
						set["builtin:"+id.Name] = true
						continue
					}
					if decl := a.decls[a.objOf(id)]; decl != nil && depth > 0 {
						var po types.Object
						k := 0
						for _, p := range decl.Type.Params.List {
							for _, nm := range p.Names {
								if k == i {
									po = a.p.Info.Defs[nm]
								}
								k++
							}
						}
						sub := a.usesAfter(decl, decl.Body, func(x ast.Expr) bool {
							id, ok := unparen(x).(*ast.Ident)
							return ok && a.objOf(id) == po
						}, token.NoPos, depth-1)
						set["call:"+name+"("+strings.Join(sub, ",")+")"] = true
						continue
					}
				}
				if strings.HasPrefix(name, "sort.") {
					set["sorted"] = true
					continue
				}
				set["call:"+name] = true
			}
		case *ast.IndexExpr:
			if v.Pos() > after && match(v.X) {
				ranged[v.X] = true
				switch ix := unparen(v.Index).(type) {
				case *ast.BasicLit:
					set["index:"+ix.Value] = true
				default:
					set["index:var"] = true
				}
			}
		case *ast.AssignStmt:
			if v.Pos() > after {
				for _, r := range v.Rhs {
					if match(r) {
						set["assignedTo:"+a.text(v.Lhs[0])] = true
						ranged[r] = true
					}
				}
			}
		}
		return true
	})
	// len(x) and the like are covered by builtin:len
	var out []string
	for k := range set {
		out = append(out, k)
	}
	sort.Strings(out)
	return out
}

// ---- main ---------------------------------------------------------------------------------------------------

func main() {
	p := loadPkg(filepath.Join(repoRoot(), "lib", "query"), queryPkg)
	a := &an{p: p, decls: map[types.Object]*ast.FuncDecl{}, initLits: map[types.Object]*ast.FuncLit{}, reads: map[int]map[types.Object]bool{},
		scopeCalls: map[string]bool{}, aliasBusy: map[types.Object]bool{}, enclAl: map[types.Object]ast.Expr{}, enclDone: map[types.Object]bool{}}
	for _, f := range p.Files {
		for _, d := range f.Decls {
			if fd, ok := d.(*ast.FuncDecl); ok {
				a.decls[p.Info.Defs[fd.Name]] = fd
			}
		}
		ast.Inspect(f, func(n ast.Node) bool {
			bind := func(id *ast.Ident, val ast.Expr) {
				o := p.Info.Defs[id]
				if o == nil || val == nil {
					return
				}
				if fl, ok := unparen(val).(*ast.FuncLit); ok {
					a.initLits[o] = fl
				}
			}
			switch v := n.(type) {
			case *ast.AssignStmt:
				if v.Tok == token.DEFINE && len(v.Lhs) == len(v.Rhs) {
					for i := range v.Lhs {
						if id, ok := v.Lhs[i].(*ast.Ident); ok {
							bind(id, v.Rhs[i])
						}
					}
				}
				if v.Tok == token.ASSIGN {
					// a function variable that is assigned a second time is not a fixed closure
					for _, l := range v.Lhs {
						if id, ok := l.(*ast.Ident); ok {
							if o := p.Info.Uses[id]; o != nil && a.initLits[o] != nil {
								fatal("%s: the closure variable %s is reassigned", p.at(v.Pos()), id.Name)
							}
						}
					}
				}
			case *ast.ValueSpec:
				if len(v.Names) == len(v.Values) {
					for i := range v.Names {
						bind(v.Names[i], v.Values[i])
					}
				}
			}
			return true
		})
	}
	a.computeMutates()

	fans := a.findFanouts()
	type crossKey struct{ fn, fan, v, lv string }
	crossSet := map[crossKey]string{}
	type combKey struct{ fn, v string }
	comb := map[combKey][]string{}
	var fanList []string
	for _, fo := range fans {
		fanList = append(fanList, funcLabel(fo.fn)+"|"+fo.kind)
		firstFact := len(a.facts)
		roleRefs := map[int]map[types.Object]bool{}
		for _, w := range fo.workers {
			a.curReads = nil
			e := &env{w: w}
			a.computeLevels(w.body, e)
			a.stmts(w.body.List, e)
			if fo.kind == "workers" {
				k := "ownLoop"
				if len(w.own) == 0 {
					k = "noOwnLoop"
				}
				a.facts = append(a.facts, fact{fn: funcLabel(fo.fn), fan: fo.kind, v: "(loop over RecordRange)", kind: k, pos: a.p.at(w.node.Pos())})
			}
			if fo.kind == "roles" {
				refs := map[types.Object]bool{}
				ast.Inspect(w.body, func(n ast.Node) bool {
					if id, ok := n.(*ast.Ident); ok {
						if o, ok := a.objOf(id).(*types.Var); ok && !o.IsField() && !within(o, w.node) {
							refs[o] = true
						}
					}
					return true
				})
				roleRefs[w.role] = refs
			}
			// cross reads: a read of a slot-written variable at an index that is neither the own index nor the text of
			// one of the indices it is written at
			written := map[string]map[string]bool{}
			for _, f := range a.facts[firstFact:] {
				if strings.HasPrefix(f.kind, "slot") {
					if written[f.v] == nil {
						written[f.v] = map[string]bool{}
					}
					if i := strings.Index(f.detail, "[index "); i >= 0 {
						t := f.detail[i+7:]
						t = t[:strings.LastIndex(t[:strings.Index(t, "]")], ":")]
						written[f.v][t] = true
					}
				}
			}
			for _, r := range a.curReads {
				if ws := written[r.name]; ws != nil && r.lv != lvOwn && !ws[r.text] {
					crossSet[crossKey{funcLabel(fo.fn), fo.kind, r.name, r.lv.String()}] = r.pos + " index " + r.text
				}
			}
		}
		if fo.kind == "roles" {
			// a variable only one role refers to is that role's own
			for i := firstFact; i < len(a.facts); i++ {
				f := &a.facts[i]
				n := 0
				for _, refs := range roleRefs {
					if refs[f.rootObj] {
						n++
					}
				}
				if n <= 1 {
					f.kind, f.how, f.via = "role", "", ""
				} else if f.isChan {
					senders := map[int]bool{}
					for _, g := range a.facts[firstFact:] {
						if g.isChan && g.rootObj == f.rootObj {
							senders[g.role] = true
						}
					}
					if len(senders) == 1 {
						f.how = "singleSender"
					} else {
						f.how = "multiSender"
					}
				}
			}
		}
		// combine facts for the per-worker pieces
		for _, f := range a.facts[firstFact:] {
			if f.kind != "perWorker" {
				continue
			}
			root := f.rootObj
			name := f.v
			match := func(x ast.Expr) bool {
				r := a.resolve(x, &env{w: &worker{encl: fo.fn, node: fo.fn, body: fo.fn.Body, own: map[types.Object]bool{}}, scope: fo.fn, parent: nil})
				if !r.ok || r.root != root {
					return false
				}
				n, first := canon(r)
				return n == name && first == nil
			}
			k := combKey{funcLabel(fo.fn), name}
			comb[k] = a.usesAfter(fo.fn, fo.fn.Body, match, fo.end, 1)
		}
	}

	// every range over a map in lib/query
	type mr struct{ fn, x, pos string }
	var mapRanges []mr
	for _, f := range p.Files {
		for _, d := range f.Decls {
			fd, ok := d.(*ast.FuncDecl)
			if !ok || fd.Body == nil {
				continue
			}
			ast.Inspect(fd.Body, func(n ast.Node) bool {
				if rs, ok := n.(*ast.RangeStmt); ok {
					if tv, ok := p.Info.Types[rs.X]; ok {
						if _, isMap := tv.Type.Underlying().(*types.Map); isMap {
							mapRanges = append(mapRanges, mr{funcLabel(fd), a.text(rs.X), p.at(rs.Pos())})
						}
					}
				}
				return true
			})
		}
	}
	sort.SliceStable(mapRanges, func(i, j int) bool {
		if mapRanges[i].fn != mapRanges[j].fn {
			return mapRanges[i].fn < mapRanges[j].fn
		}
		return mapRanges[i].x < mapRanges[j].x
	})

	// canonical fact list: deduplicated, sorted, no positions
	type key struct{ fn, fan, v, kind, how, via string }
	seen := map[key][]string{}
	var keys []key
	for _, f := range a.facts {
		k := key{f.fn, f.fan, f.v, f.kind, f.how, f.via}
		if _, ok := seen[k]; !ok {
			keys = append(keys, k)
		}
		seen[k] = append(seen[k], f.pos+"  "+f.detail)
	}
	sort.Slice(keys, func(i, j int) bool {
		x, y := keys[i], keys[j]
		return strings.Join([]string{x.fn, x.fan, x.v, x.kind, x.how, x.via}, "\x00") < strings.Join([]string{y.fn, y.fan, y.v, y.kind, y.how, y.via}, "\x00")
	})
	sort.Strings(fanList)

	var b strings.Builder
	w := func(format string, args ...interface{}) { fmt.Fprintf(&b, format, args...) }
	w("/- GENERATED by extract/shapefacts from lib/query — do not edit. -/\nnamespace Csvq.Gen.Shape\n\n")
	w("/-- every fan-out of lib/query: enclosing function, kind (run = GoroutineTaskManager.Run callback, evalseq = EvaluateSequentially\n    callback, workers = `go f(i)` over a local closure, driver:F = `go F(…, i, …)` over a declared function, roles = different\n    goroutine literals joined by a WaitGroup) -/\n")
	w("def fanOuts : List (String × String) := [\n")
	for i, s := range fanList {
		parts := strings.SplitN(s, "|", 2)
		w("  (%s, %s)%s\n", leanStr(parts[0]), leanStr(parts[1]), comma(i, len(fanList)))
	}
	w("]\n\n")
	w("/-- (function, fan-out kind, shared variable, write class, operation, through which call) for every write a worker makes\n    to a variable it shares; deduplicated and sorted, without positions or worker-local names -/\n")
	w("def workerFacts : List (String × String × String × String × String × String) := [\n")
	for i, k := range keys {
		w("  (%s, %s, %s, %s, %s, %s)%s\n", leanStr(k.fn), leanStr(k.fan), leanStr(k.v), leanStr(k.kind), leanStr(k.how), leanStr(k.via), comma(i, len(keys)))
	}
	w("]\n\n")
	w("/-- where the facts come from (positions and statement texts; not compared by any theorem) -/\n")
	w("def workerFactSites : List (String × List String) := [\n")
	for i, k := range keys {
		sort.Strings(seen[k])
		var sites []string
		for _, x := range seen[k] {
			if len(sites) == 0 || sites[len(sites)-1] != x {
				sites = append(sites, x)
			}
		}
		q := make([]string, len(sites))
		for j, s := range sites {
			q[j] = leanStr(s)
		}
		w("  (%s, [%s])%s\n", leanStr(k.fn+" "+k.v+" "+k.kind), strings.Join(q, ", "), comma(i, len(keys)))
	}
	w("]\n\n")
	var cks []combKey
	for k := range comb {
		cks = append(cks, k)
	}
	sort.Slice(cks, func(i, j int) bool { return cks[i].fn+"\x00"+cks[i].v < cks[j].fn+"\x00"+cks[j].v })
	w("/-- how the per-worker pieces are used after the workers were joined: (function, variable, uses) -/\n")
	w("def combineFacts : List (String × String × List String) := [\n")
	for i, k := range cks {
		q := make([]string, len(comb[k]))
		for j, s := range comb[k] {
			q[j] = leanStr(s)
		}
		w("  (%s, %s, [%s])%s\n", leanStr(k.fn), leanStr(k.v), strings.Join(q, ", "), comma(i, len(cks)))
	}
	w("]\n\n")
	var crs []crossKey
	for k := range crossSet {
		crs = append(crs, k)
	}
	sort.Slice(crs, func(i, j int) bool {
		return crs[i].fn+"\x00"+crs[i].v+"\x00"+crs[i].lv < crs[j].fn+"\x00"+crs[j].v+"\x00"+crs[j].lv
	})
	w("/-- reads a worker makes of a variable it writes slot-wise, at an index that is not its own: (function, fan-out kind, variable, index class) -/\n")
	w("def crossReads : List (String × String × String × String) := [\n")
	for i, k := range crs {
		w("  (%s, %s, %s, %s)%s\n", leanStr(k.fn), leanStr(k.fan), leanStr(k.v), leanStr(k.lv), comma(i, len(crs)))
	}
	w("]\n\n")
	w("def crossReadSites : List String := [")
	for i, k := range crs {
		if i > 0 {
			w(", ")
		}
		w("%s", leanStr(crossSet[k]))
	}
	w("]\n\n")
	w("/-- the two drivers: what a worker does with its number, as source text (range, loop, call of the callback) -/\n")
	w("def driverLoops : List (String × List String) := [\n")
	dl := a.driverLoops()
	for i, d := range dl {
		q := make([]string, len(d.lines))
		for j, s := range d.lines {
			q[j] = leanStr(s)
		}
		w("  (%s, [%s])%s\n", leanStr(d.name), strings.Join(q, ", "), comma(i, len(dl)))
	}
	w("]\n\n")
	w("/-- the scopes workers make for themselves: (function, fan-out kind, ReferenceScope method) -/\n")
	w("def workerScopeCalls : List (String × String × String) := [\n")
	{
		var ks []string
		for k := range a.scopeCalls {
			ks = append(ks, k)
		}
		sort.Strings(ks)
		for i, k := range ks {
			p := strings.Split(k, "|")
			w("  (%s, %s, %s)%s\n", leanStr(p[0]), leanStr(p[1]), leanStr(p[2]), comma(i, len(ks)))
		}
	}
	w("]\n\n")
	w("/-- where the records of such a scope come from: for every ReferenceScope.CreateScopeFor… method the calls whose results\n    become elements of the new scope's record list (or the method it delegates to) -/\n")
	w("def scopeRecordSources : List (String × List String) := [\n")
	{
		var names []string
		byName := map[string]*ast.FuncDecl{}
		for _, d := range a.decls {
			if strings.HasPrefix(funcLabel(d), "ReferenceScope.CreateScopeFor") {
				names = append(names, d.Name.Name)
				byName[d.Name.Name] = d
			}
		}
		sort.Strings(names)
		for i, nm := range names {
			set := map[string]bool{}
			ast.Inspect(byName[nm].Body, func(n ast.Node) bool {
				switch v := n.(type) {
				case *ast.AssignStmt:
					for j, l := range v.Lhs {
						if _, ok := l.(*ast.IndexExpr); ok && j < len(v.Rhs) {
							if c, ok := v.Rhs[j].(*ast.CallExpr); ok {
								switch f := c.Fun.(type) {
								case *ast.Ident:
									set[f.Name] = true
								case *ast.SelectorExpr:
									set[f.Sel.Name] = true
								}
							} else {
								set["expr:"+a.text(v.Rhs[j])] = true
							}
						}
					}
				case *ast.ReturnStmt:
					for _, r := range v.Results {
						if c, ok := r.(*ast.CallExpr); ok {
							if se, ok := c.Fun.(*ast.SelectorExpr); ok && strings.HasPrefix(se.Sel.Name, "CreateScopeFor") {
								set["delegates:"+se.Sel.Name] = true
							}
						}
					}
				}
				return true
			})
			var q []string
			for k := range set {
				q = append(q, k)
			}
			sort.Strings(q)
			for j := range q {
				q[j] = leanStr(q[j])
			}
			w("  (%s, [%s])%s\n", leanStr(nm), strings.Join(q, ", "), comma(i, len(names)))
		}
	}
	w("]\n\n")
	w("/-- the function that concatenates the per-worker record sets, statement by statement (source text) -/\n")
	w("def mergeRecordSetList : List String := [")
	{
		var fd *ast.FuncDecl
		for _, d := range a.decls {
			if funcLabel(d) == "MergeRecordSetList" {
				fd = d
			}
		}
		if fd == nil {
			fatal("MergeRecordSetList not found")
		}
		for i, s := range a.flatStmts(fd.Body.List) {
			if i > 0 {
				w(", ")
			}
			w("%s", leanStr(s))
		}
	}
	w("]\n\n")
	w("/-- every `range` over a map in lib/query: (function, ranged expression) -/\n")
	w("def mapRanges : List (String × String) := [\n")
	for i, m := range mapRanges {
		w("  (%s, %s)%s\n", leanStr(m.fn), leanStr(m.x), comma(i, len(mapRanges)))
	}
	w("]\n\n")
	{
		sw := a.sessionCensus(fans)
		type sk struct{ pkg, fn, target, op string }
		seenS := map[sk]int{}
		var ks []sk
		sites := map[sk][]string{}
		for _, x := range sw {
			k := sk{x.pkg, x.fn, x.target, x.op}
			if _, ok := seenS[k]; !ok {
				ks = append(ks, k)
				seenS[k] = 0
			}
			if x.reach {
				seenS[k] = 1
			}
			sites[k] = append(sites[k], x.pos)
		}
		w("/-- the census of writes to session-wide state (fields of query.Transaction, query.Session, option.Flags; package-level\n    variables of lib/query, lib/value, lib/option): (package, function, target, operation, reachable from a worker body) -/\n")
		w("def sessionWrites : List (String × String × String × String × Bool) := [\n")
		for i, k := range ks {
			r := "false"
			if seenS[k] == 1 {
				r = "true"
			}
			w("  (%s, %s, %s, %s, %s)%s\n", leanStr(k.pkg), leanStr(k.fn), leanStr(k.target), leanStr(k.op), r, comma(i, len(ks)))
		}
		w("]\n\n")
		w("def sessionWriteSites : List String := [")
		for i, k := range ks {
			if i > 0 {
				w(", ")
			}
			w("%s", leanStr(k.fn+" "+k.target+": "+strings.Join(sites[k], " ")))
		}
		w("]\n\n")
	}
	{
		su := statefulCensus()
		type uk struct{ fn, typ, recv, op, held string }
		seenU := map[uk]bool{}
		var ks []uk
		sites := map[uk][]string{}
		for _, x := range su {
			k := uk{x.fn, x.typ, x.recv, x.op, x.held}
			if _, ok := seenU[k]; !ok {
				ks = append(ks, k)
			}
			seenU[k] = seenU[k] || x.reach
			sites[k] = append(sites[k], x.pos)
		}
		w("/-- the census of uses of objects with hidden mutable state (reviewed type list in extract/shapefacts/stateful.go) that\n    derive from session-wide state: (function, type, expression, operation, mutexes held, reachable from a worker body) -/\n")
		w("def statefulUses : List (String × String × String × String × String × Bool) := [\n")
		for i, k := range ks {
			r := "false"
			if seenU[k] {
				r = "true"
			}
			w("  (%s, %s, %s, %s, %s, %s)%s\n", leanStr(k.fn), leanStr(k.typ), leanStr(k.recv), leanStr(k.op), leanStr(k.held), r, comma(i, len(ks)))
		}
		w("]\n\n")
		w("def statefulUseSites : List String := [")
		for i, k := range ks {
			if i > 0 {
				w(", ")
			}
			w("%s", leanStr(k.fn+" "+k.recv+" "+k.op+": "+strings.Join(sites[k], " ")))
		}
		w("]\n\n")
	}
	w("def mapRangeSites : List String := [")
	for i, m := range mapRanges {
		if i > 0 {
			w(", ")
		}
		w("%s", leanStr(m.pos))
	}
	w("]\n\nend Csvq.Gen.Shape\n")
	fmt.Print(b.String())
	_ = os.Stdout
}

func comma(i, n int) string {
	if i+1 < n {
		return ","
	}
	return ""
}

type driverLoop struct {
	name  string
	lines []string
}

// driverLoops: for GoroutineTaskManager.run and evaluateSequentialRoutine: the RecordRange statement, the header of the
// loop and the call of the callback, as normalised source text
func (a *an) driverLoops() []driverLoop {
	var out []driverLoop
	for _, want := range []string{"GoroutineTaskManager.run", "evaluateSequentialRoutine"} {
		var fd *ast.FuncDecl
		for _, d := range a.decls {
			if funcLabel(d) == want {
				fd = d
			}
		}
		if fd == nil {
			fatal("driver %s not found", want)
		}
		var cb types.Object
		for _, p := range fd.Type.Params.List {
			if _, ok := p.Type.(*ast.FuncType); ok && len(p.Names) == 1 {
				cb = a.p.Info.Defs[p.Names[0]]
			}
		}
		if cb == nil {
			fatal("driver %s has no callback parameter", want)
		}
		var lines []string
		ast.Inspect(fd.Body, func(n ast.Node) bool {
			switch v := n.(type) {
			case *ast.AssignStmt:
				if len(v.Rhs) == 1 {
					if c, ok := v.Rhs[0].(*ast.CallExpr); ok {
						if se, ok := c.Fun.(*ast.SelectorExpr); ok && se.Sel.Name == "RecordRange" {
							lines = append(lines, "range: "+a.stmtText(v))
						}
					}
				}
				for _, r := range v.Rhs {
					ast.Inspect(r, func(m ast.Node) bool {
						if sl, ok := m.(*ast.SliceExpr); ok {
							lines = append(lines, "slice: "+a.text(sl))
						}
						return true
					})
				}
			case *ast.ForStmt:
				h := "for "
				if v.Init != nil {
					h += a.stmtText(v.Init)
				}
				h += "; "
				if v.Cond != nil {
					h += a.text(v.Cond)
				}
				h += "; "
				if v.Post != nil {
					h += a.stmtText(v.Post)
				}
				lines = append(lines, "loop: "+h)
			case *ast.RangeStmt:
				lines = append(lines, "loop: range "+a.text(v.X))
			case *ast.CallExpr:
				if id, ok := v.Fun.(*ast.Ident); ok && a.objOf(id) == cb {
					lines = append(lines, "call: "+a.text(v))
				}
			}
			return true
		})
		out = append(out, driverLoop{want, lines})
	}
	return out
}

func (a *an) stmtText(s ast.Stmt) string {
	switch v := s.(type) {
	case *ast.AssignStmt:
		var l, r []string
		for _, x := range v.Lhs {
			l = append(l, a.text(x))
		}
		for _, x := range v.Rhs {
			r = append(r, a.text(x))
		}
		return strings.Join(l, ", ") + " " + v.Tok.String() + " " + strings.Join(r, ", ")
	case *ast.IncDecStmt:
		return a.text(v.X) + v.Tok.String()
	case *ast.ExprStmt:
		return a.text(v.X)
	}
	return fmt.Sprintf("%T", s)
}

// flatStmts: a statement list as one line per simple statement, compound statements as header … `end`
func (a *an) flatStmts(list []ast.Stmt) []string {
	var out []string
	for _, s := range list {
		switch v := s.(type) {
		case *ast.IfStmt:
			out = append(out, "if "+a.text(v.Cond))
			out = append(out, a.flatStmts(v.Body.List)...)
			if v.Else != nil {
				out = append(out, "else")
				if b, ok := v.Else.(*ast.BlockStmt); ok {
					out = append(out, a.flatStmts(b.List)...)
				} else {
					out = append(out, a.flatStmts([]ast.Stmt{v.Else})...)
				}
			}
			out = append(out, "end")
		case *ast.RangeStmt:
			h := "for "
			if v.Key != nil {
				h += a.text(v.Key)
			}
			if v.Value != nil {
				h += ", " + a.text(v.Value)
			}
			out = append(out, h+" := range "+a.text(v.X))
			out = append(out, a.flatStmts(v.Body.List)...)
			out = append(out, "end")
		case *ast.DeclStmt:
			gd := v.Decl.(*ast.GenDecl)
			for _, sp := range gd.Specs {
				vs, ok := sp.(*ast.ValueSpec)
				if !ok || len(vs.Values) != 0 {
					fatal("%s: declaration without a rule", a.p.at(v.Pos()))
				}
				for _, nm := range vs.Names {
					out = append(out, "var "+nm.Name+" "+a.text(vs.Type))
				}
			}
		case *ast.ReturnStmt:
			var r []string
			for _, x := range v.Results {
				r = append(r, a.text(x))
			}
			out = append(out, "return "+strings.Join(r, ", "))
		case *ast.AssignStmt, *ast.IncDecStmt, *ast.ExprStmt:
			out = append(out, a.stmtText(v))
		default:
			fatal("%s: statement %T without a rule", a.p.at(s.Pos()), s)
		}
	}
	return out
}
