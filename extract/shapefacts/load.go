package main

import (
	"fmt"
	"go/ast"
	"go/build"
	"go/importer"
	"go/parser"
	"go/token"
	"go/types"
	"os"
	"path/filepath"
	"sort"
	"strings"
)

// Pkg is one parsed and type-checked package directory of the repository under analysis.
type Pkg struct {
	Fset  *token.FileSet
	Files []*ast.File
	Info  *types.Info
	Types *types.Package
	Dir   string
}

func fatal(format string, a ...interface{}) {
	fmt.Fprintf(os.Stderr, "shapefacts: "+format+"\n", a...)
	os.Exit(1)
}

func repoRoot() string {
	if r := os.Getenv("VERIF_REPO"); r != "" {
		return r
	}
	return "/repo"
}

// loadPkg parses the non-test files of dir and type-checks them with the source importer (offline: the
// dependencies are in the module cache; the importer resolves them relative to the process's cwd,
// which therefore has to be inside the module).
var sharedFset = token.NewFileSet()

// one source importer for every package loaded by one run: the dependencies are type-checked once
var sharedImporter = importer.ForCompiler(sharedFset, "source", nil)

func loadPkg(dir string, importPath string) *Pkg {
	if err := os.Chdir(repoRoot()); err != nil {
		fatal("chdir %s: %v", repoRoot(), err)
	}
	fset := sharedFset // one file set for every package loaded, so positions of all of them can be printed alike
	// the files a plain `go build` compiles: no tests, build constraints honoured (no `verif` tag, so the
	// harness hooks are seen in their switched-off form)
	pkgs, err := parser.ParseDir(fset, dir, func(fi os.FileInfo) bool {
		if strings.HasSuffix(fi.Name(), "_test.go") {
			return false
		}
		ok, err := build.Default.MatchFile(dir, fi.Name())
		return err == nil && ok
	}, parser.ParseComments)
	if err != nil {
		fatal("parse %s: %v", dir, err)
	}
	if len(pkgs) != 1 {
		fatal("expected one package in %s, found %d", dir, len(pkgs))
	}
	p := &Pkg{Fset: fset, Dir: dir}
	for name, ap := range pkgs {
		var names []string
		for fn := range ap.Files {
			names = append(names, fn)
		}
		sort.Strings(names)
		for _, fn := range names {
			p.Files = append(p.Files, ap.Files[fn])
		}
		p.Info = &types.Info{
			Uses:       map[*ast.Ident]types.Object{},
			Defs:       map[*ast.Ident]types.Object{},
			Types:      map[ast.Expr]types.TypeAndValue{},
			Selections: map[*ast.SelectorExpr]*types.Selection{},
		}
		var terrs []string
		conf := types.Config{Importer: sharedImporter, Error: func(e error) { terrs = append(terrs, e.Error()) }}
		_ = name
		tp, _ := conf.Check(importPath, fset, p.Files, p.Info)
		if len(terrs) > 0 {
			fatal("type-checking %s failed:\n%s", dir, strings.Join(terrs, "\n"))
		}
		p.Types = tp
	}
	return p
}

func (p *Pkg) base(pos token.Pos) string { return filepath.Base(p.Fset.Position(pos).Filename) }
func (p *Pkg) line(pos token.Pos) int    { return p.Fset.Position(pos).Line }
func (p *Pkg) at(pos token.Pos) string   { return fmt.Sprintf("%s:%d", p.base(pos), p.line(pos)) }

func exprText(e ast.Expr) string { return types.ExprString(e) }

// funcLabel: "Recv.Name" for methods, "Name" for functions.
func funcLabel(fd *ast.FuncDecl) string {
	if fd.Recv != nil && len(fd.Recv.List) == 1 {
		t := fd.Recv.List[0].Type
		if s, ok := t.(*ast.StarExpr); ok {
			t = s.X
		}
		if id, ok := t.(*ast.Ident); ok {
			return id.Name + "." + fd.Name.Name
		}
	}
	return fd.Name.Name
}

func leanStr(s string) string {
	var b strings.Builder
	b.WriteByte('"')
	for _, r := range s {
		switch {
		case r == '"':
			b.WriteString("\\\"")
		case r == '\\':
			b.WriteString("\\\\")
		case r == '\n':
			b.WriteString("\\n")
		case r == '\t':
			b.WriteString("\\t")
		case r < 0x20 || r == 0x7f:
			fmt.Fprintf(&b, "\\x%02x", r)
		default:
			b.WriteRune(r)
		}
	}
	b.WriteByte('"')
	return b.String()
}
