package main

// stateful.go — the census of USES of objects with hidden mutable state (a file position, a read buffer, a scanner, a
// hash, a random source, a text transformer ...) that are reached from session-wide state.  A method call on a shared
// *os.File is a write to its position although no field is assigned; session.go cannot see it.
//
// A use is (a) a call of a method of a value whose type is in the reviewed list `statefulTypes` (methods in
// `pureMethods` excepted), or (b) passing such a value to a function (the callee works with it during the call).  A use
// is recorded when the value DERIVES FROM SESSION-WIDE STATE: somewhere on the chain of selectors / method receivers /
// the local variables it was assigned from there is a value of type query.Transaction, query.Session,
// file.Container, query.ViewMap ... or a package-level variable - and it is not only made by a creator (a function
// whose name begins with New / Create / Open) in the same function.  For every use: the function, the type, the
// expression, the operation, the mutexes held at that point (Lock / Unlock / defer Unlock followed in source order;
// an Unlock inside a branch counts as released from there on), whether a worker body reaches the function.

import (
	"go/ast"
	"go/token"
	"go/types"
	"sort"
	"strings"
)

var statefulTypes = map[string]bool{
	"os.File": true, "bufio.Reader": true, "bufio.Scanner": true, "bufio.Writer": true, "bufio.ReadWriter": true,
	"encoding/csv.Reader": true, "encoding/csv.Writer": true, "encoding/json.Decoder": true, "encoding/json.Encoder": true,
	"hash.Hash": true, "hash.Hash32": true, "hash.Hash64": true, "math/rand.Rand": true,
	"strings.Builder": true, "strings.Reader": true, "bytes.Buffer": true, "bytes.Reader": true, "time.Timer": true, "time.Ticker": true,
	"golang.org/x/text/transform.Transformer": true, "golang.org/x/text/transform.Reader": true, "golang.org/x/text/transform.Writer": true,
	"golang.org/x/text/cases.Caser": true, "golang.org/x/text/encoding.Decoder": true, "golang.org/x/text/encoding.Encoder": true,
	"github.com/mithrandie/go-text/csv.Reader": true, "github.com/mithrandie/go-text/csv.Writer": true,
	"github.com/mithrandie/go-text/fixedlen.Reader": true, "github.com/mithrandie/go-text/fixedlen.Writer": true,
	"github.com/mithrandie/go-text/ltsv.Reader": true, "github.com/mithrandie/go-text/ltsv.Writer": true,
	"github.com/mithrandie/go-text/json.Decoder": true, "github.com/mithrandie/go-text/jsonl.Reader": true,
	"github.com/mithrandie/go-text/color.Palette": false,
}

// methods that neither read nor change the hidden state
var pureMethods = map[string]bool{"Name": true, "Fd": true, "Stat": true, "ReadAt": true, "WriteAt": true, "Len": true, "Cap": true, "String": true,
	"Bytes": true, "Size": true, "BlockSize": true, "Buffered": true, "Available": true}

// the roots of session-wide state
var sessionRoots = map[string]bool{modPath + "query.Transaction": true, modPath + "query.Session": true, modPath + "option.Flags": true,
	modPath + "file.Container": true, modPath + "query.ViewMap": true, modPath + "query.FileInfo": false}

type statefulUse struct {
	fn, typ, recv, op, held string
	reach                   bool
	pos                     string
}

type cgResult struct {
	funcs map[string]*cgFunc
	order []string
	reach map[string]bool
}

var lastCG cgResult // set by sessionCensus

func isCreator(name string) bool {
	return strings.HasPrefix(name, "New") || strings.HasPrefix(name, "Create") || strings.HasPrefix(name, "Open") || name == "new" || name == "make"
}

func statefulCensus() []statefulUse {
	var out []statefulUse
	for _, k := range lastCG.order {
		f := lastCG.funcs[k]
		p := f.p
		label := funcLabel(f.fd)
		// assignments to local variables: variable -> right-hand sides
		rhs := map[types.Object][]ast.Expr{}
		ast.Inspect(f.fd.Body, func(n ast.Node) bool {
			as, ok := n.(*ast.AssignStmt)
			if !ok {
				return true
			}
			for i, l := range as.Lhs {
				id, ok := l.(*ast.Ident)
				if !ok || id.Name == "_" {
					continue
				}
				o := p.Info.Defs[id]
				if o == nil {
					o = p.Info.Uses[id]
				}
				if o == nil {
					continue
				}
				if len(as.Lhs) == len(as.Rhs) {
					rhs[o] = append(rhs[o], as.Rhs[i])
				} else if len(as.Rhs) == 1 {
					rhs[o] = append(rhs[o], as.Rhs[0])
				}
			}
			return true
		})
		// origin of an expression: does it derive from session-wide state / only from creators
		var origin func(e ast.Expr, seen map[types.Object]bool) (session, fresh bool)
		origin = func(e ast.Expr, seen map[types.Object]bool) (bool, bool) {
			e = unparen(e)
			if tv, ok := p.Info.Types[e]; ok && sessionRoots[namedType(tv.Type)] {
				return true, false
			}
			switch v := e.(type) {
			case *ast.Ident:
				o := p.Info.Uses[v]
				if o == nil {
					o = p.Info.Defs[v]
				}
				vo, ok := o.(*types.Var)
				if !ok {
					return false, false
				}
				if vo.Pkg() != nil && vo.Parent() == vo.Pkg().Scope() {
					return true, false
				}
				if seen[vo] {
					return false, false
				}
				seen[vo] = true
				s, fr := false, false
				for _, r := range rhs[vo] {
					s1, f1 := origin(r, seen)
					s, fr = s || s1, fr || f1
				}
				return s, fr
			case *ast.SelectorExpr:
				if id, ok := v.X.(*ast.Ident); ok {
					if _, isPkg := p.Info.Uses[id].(*types.PkgName); isPkg {
						if vo, ok := p.Info.Uses[v.Sel].(*types.Var); ok && vo.Parent() == vo.Pkg().Scope() {
							return true, false
						}
						return false, false
					}
				}
				return origin(v.X, seen)
			case *ast.CallExpr:
				fun := unparen(v.Fun)
				switch fv := fun.(type) {
				case *ast.Ident:
					if isCreator(fv.Name) {
						return false, true
					}
				case *ast.SelectorExpr:
					if isCreator(fv.Sel.Name) {
						return false, true
					}
					if s := p.Info.Selections[fv]; s != nil {
						return origin(fv.X, seen)
					}
				}
				return false, false
			case *ast.IndexExpr:
				return origin(v.X, seen)
			case *ast.StarExpr:
				return origin(v.X, seen)
			case *ast.UnaryExpr:
				return origin(v.X, seen)
			case *ast.TypeAssertExpr:
				return origin(v.X, seen)
			case *ast.CompositeLit:
				return false, true
			}
			return false, false
		}
		mutexName := func(x ast.Expr) string {
			x = unparen(x)
			if se, ok := x.(*ast.SelectorExpr); ok {
				if s := p.Info.Selections[se]; s != nil && s.Kind() == types.FieldVal {
					return shortType(namedType(s.Recv())) + "." + se.Sel.Name
				}
			}
			return types.ExprString(x)
		}
		var held []string
		deferred := map[*ast.CallExpr]bool{}
		record := func(x ast.Expr, op string, at ast.Node) {
			tv, ok := p.Info.Types[x]
			if !ok {
				return
			}
			tn := namedType(tv.Type)
			if !statefulTypes[tn] {
				return
			}
			s, fr := origin(x, map[types.Object]bool{})
			if !s {
				return
			}
			how := types.ExprString(x)
			if fr {
				how += " (or newly opened)"
			}
			out = append(out, statefulUse{fn: label, typ: tn, recv: how, op: op, held: strings.Join(held, "+"), reach: lastCG.reach[k], pos: p.at(at.Pos())})
		}
		ast.Inspect(f.fd.Body, func(n ast.Node) bool {
			switch v := n.(type) {
			case *ast.FuncLit:
				return false // closures run later, under other locks: the fan-out analysis covers the workers
			case *ast.DeferStmt:
				deferred[v.Call] = true
			case *ast.CallExpr:
				fun := unparen(v.Fun)
				if se, ok := fun.(*ast.SelectorExpr); ok {
					if s := p.Info.Selections[se]; s != nil && s.Kind() == types.MethodVal {
						switch namedType(p.Info.Types[se.X].Type) {
						case "sync.Mutex", "sync.RWMutex":
							name := mutexName(se.X)
							switch se.Sel.Name {
							case "Lock", "RLock":
								held = append(held, name)
							case "Unlock", "RUnlock":
								if !deferred[v] {
									for i := len(held) - 1; i >= 0; i-- {
										if held[i] == name {
											held = append(held[:i:i], held[i+1:]...)
											break
										}
									}
								}
							}
							return true
						}
						if !pureMethods[se.Sel.Name] {
							record(se.X, se.Sel.Name, v)
						}
					}
				}
				callee := types.ExprString(fun)
				if tv, ok := p.Info.Types[fun]; ok && tv.IsType() {
					return true
				}
				for _, arg := range v.Args {
					record(arg, "passed to "+callee, v)
				}
			}
			return true
		})
		_ = token.NoPos
	}
	sort.SliceStable(out, func(i, j int) bool {
		x, y := out[i], out[j]
		return x.fn+"\x00"+x.typ+"\x00"+x.recv+"\x00"+x.op+"\x00"+x.held < y.fn+"\x00"+y.typ+"\x00"+y.recv+"\x00"+y.op+"\x00"+y.held
	})
	return out
}
