module shapefacts

go 1.23
