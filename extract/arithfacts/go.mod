module arithfacts

go 1.18
