module astprint

go 1.18
