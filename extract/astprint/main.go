// astprint: reads lib/parser/ast.go and lib/parser/parser.y of csvq and prints Csvq/Gen/AstPrint.lean —
//
//   nodes    for every struct type of ast.go that has a String() method:
//              * its fields (name, type text),
//              * the fields its String() method reads (directly, or through a method of the same type it calls —
//                followed one level),
//              * the ordered list of PARTS of the method body: every value assigned, appended, indexed-assigned or
//                returned, in source order, with the condition under which the statement runs (the conjunction of the
//                enclosing if / else / switch-case / type-switch / range headers), the fields the value reads and the
//                fields the condition reads.  The receiver is renamed to `e`; calls that are not understood are kept as
//                source text (nothing is dropped).
//   setters  for every production of parser.y whose action builds one of those nodes with a composite literal:
//              which field is set to which expression, and which grammar symbols ($k) the expression uses.
//
// Stdlib only (go/ast for ast.go and for the Go code of the actions).  VERIF_REPO (default /repo).  Exits 1 on any
// statement form outside the subset.
package main

import (
	"fmt"
	"go/ast"
	"go/parser"
	"go/printer"
	"go/token"
	"os"
	"path/filepath"
	"regexp"
	"sort"
	"strings"
)

var fset = token.NewFileSet()

func die(format string, a ...interface{}) {
	fmt.Fprintf(os.Stderr, "astprint: "+format+"\n", a...)
	os.Exit(1)
}

var reWS = regexp.MustCompile(`\s+`)

func src(n ast.Node) string {
	var sb strings.Builder
	_ = printer.Fprint(&sb, fset, n)
	return reWS.ReplaceAllString(sb.String(), " ")
}

func repo() string {
	if r := os.Getenv("VERIF_REPO"); r != "" {
		return r
	}
	return "/repo"
}

type part struct {
	guard, target, expr string
	reads, guardReads   []string
}

type node struct {
	name   string
	fields [][2]string
	reads  []string
	parts  []part
}

type method struct {
	recv string // receiver variable name
	decl *ast.FuncDecl
}

var structs = map[string]*ast.StructType{}
var funcs = map[string]*ast.FuncDecl{} // top-level functions of ast.go (the helpers of the printers)
var methods = map[string]map[string]method{} // type -> method name -> decl

func fieldNames(st *ast.StructType) [][2]string {
	var out [][2]string
	for _, f := range st.Fields.List {
		t := src(f.Type)
		if len(f.Names) == 0 {
			out = append(out, [2]string{strings.TrimPrefix(t, "*"), t})
			continue
		}
		for _, n := range f.Names {
			out = append(out, [2]string{n.Name, t})
		}
	}
	return out
}

func isField(typ, name string) bool {
	for _, f := range fieldNames(structs[typ]) {
		if f[0] == name {
			return true
		}
	}
	return false
}

// fieldsRead: fields of `typ` read in n through the receiver `recv`; calls of methods of the same type are followed
// one level.
func fieldsRead(typ, recv string, n ast.Node, follow bool) []string {
	set := map[string]bool{}
	ast.Inspect(n, func(x ast.Node) bool {
		se, ok := x.(*ast.SelectorExpr)
		if !ok {
			return true
		}
		id, ok := se.X.(*ast.Ident)
		if !ok || id.Name != recv {
			return true
		}
		if isField(typ, se.Sel.Name) {
			set[se.Sel.Name] = true
			return true
		}
		if m, ok := methods[typ][se.Sel.Name]; ok {
			if follow && m.decl.Body != nil {
				for _, f := range fieldsRead(typ, m.recv, m.decl.Body, false) {
					set[f] = true
				}
			}
			return true
		}
		// a method promoted from an embedded field (e.BaseExpr methods are not used by printers)
		die("%s: %s.%s is neither a field nor a method of the type", typ, recv, se.Sel.Name)
		return true
	})
	out := make([]string, 0, len(set))
	for f := range set {
		out = append(out, f)
	}
	sort.Strings(out)
	return out
}

func renameRecv(n ast.Node, recv string) {
	ast.Inspect(n, func(x ast.Node) bool {
		if id, ok := x.(*ast.Ident); ok && id.Name == recv {
			id.Name = "e"
		}
		return true
	})
}

type walker struct {
	typ   string
	parts []part
}

func and(g, c string) string {
	if g == "" {
		return c
	}
	return g + " && " + c
}

func (w *walker) emit(guard, target string, e ast.Expr, guardNodes []ast.Node) {
	var gr []string
	set := map[string]bool{}
	for _, gn := range guardNodes {
		for _, f := range fieldsRead(w.typ, "e", gn, true) {
			if !set[f] {
				set[f] = true
				gr = append(gr, f)
			}
		}
	}
	sort.Strings(gr)
	w.parts = append(w.parts, part{guard, target, src(e), fieldsRead(w.typ, "e", e, true), gr})
}

func (w *walker) stmts(list []ast.Stmt, guard string, gn []ast.Node) {
	for _, s := range list {
		w.stmt(s, guard, gn)
	}
}

func (w *walker) stmt(s ast.Stmt, guard string, gn []ast.Node) {
	switch x := s.(type) {
	case *ast.DeclStmt:
		gd, ok := x.Decl.(*ast.GenDecl)
		if !ok || gd.Tok != token.VAR {
			die("%s: declaration %s", w.typ, src(x))
		}
		for _, sp := range gd.Specs {
			vs := sp.(*ast.ValueSpec)
			for i, v := range vs.Values {
				w.emit(guard, vs.Names[i].Name, v, gn)
			}
		}
	case *ast.AssignStmt:
		if len(x.Lhs) != len(x.Rhs) {
			die("%s: assignment %s", w.typ, src(x))
		}
		for i := range x.Lhs {
			target := src(x.Lhs[i])
			rhs := x.Rhs[i]
			if call, ok := rhs.(*ast.CallExpr); ok {
				if id, ok := call.Fun.(*ast.Ident); ok && id.Name == "append" && len(call.Args) >= 1 && src(call.Args[0]) == target {
					for k, a := range call.Args[1:] {
						if call.Ellipsis.IsValid() && k == len(call.Args)-2 {
							w.emit(guard, target+"+...", a, gn)
						} else {
							w.emit(guard, target+"+", a, gn)
						}
					}
					continue
				}
				if id, ok := call.Fun.(*ast.Ident); ok && id.Name == "make" {
					w.emit(guard, target, rhs, gn)
					continue
				}
			}
			if cl, ok := rhs.(*ast.CompositeLit); ok {
				if at, ok := cl.Type.(*ast.ArrayType); ok && at.Len == nil {
					if len(cl.Elts) == 0 {
						w.emit(guard, target, rhs, gn)
					}
					for _, el := range cl.Elts {
						w.emit(guard, target+"+", el, gn)
					}
					continue
				}
			}
			w.emit(guard, target, rhs, gn)
		}
	case *ast.ReturnStmt:
		if len(x.Results) != 1 {
			die("%s: return %s", w.typ, src(x))
		}
		r := x.Results[0]
		// return f(…[]string{a, b}…): the elements are parts of their own
		if call, ok := r.(*ast.CallExpr); ok && len(call.Args) == 1 {
			if cl, ok := call.Args[0].(*ast.CompositeLit); ok {
				if at, ok := cl.Type.(*ast.ArrayType); ok && at.Len == nil {
					for _, el := range cl.Elts {
						w.emit(guard, "return:"+src(call.Fun)+"+", el, gn)
					}
					return
				}
			}
		}
		w.emit(guard, "return", r, gn)
	case *ast.IfStmt:
		if x.Init != nil {
			w.stmt(x.Init, guard, gn)
		}
		c := src(x.Cond)
		w.stmts(x.Body.List, and(guard, c), append(append([]ast.Node{}, gn...), x.Cond))
		if x.Else != nil {
			ng := and(guard, "!("+c+")")
			ngn := append(append([]ast.Node{}, gn...), x.Cond)
			switch el := x.Else.(type) {
			case *ast.BlockStmt:
				w.stmts(el.List, ng, ngn)
			case *ast.IfStmt:
				w.stmt(el, ng, ngn)
			default:
				die("%s: else %s", w.typ, src(x.Else))
			}
		}
	case *ast.SwitchStmt:
		if x.Init != nil {
			die("%s: switch with init", w.typ)
		}
		tag := ""
		var tagNode []ast.Node
		if x.Tag != nil {
			tag = src(x.Tag) + " == "
			tagNode = []ast.Node{x.Tag}
		}
		neg := ""
		ngn := append(append([]ast.Node{}, gn...), tagNode...)
		for _, cc := range x.Body.List {
			cl := cc.(*ast.CaseClause)
			var cs []string
			for _, e := range cl.List {
				cs = append(cs, tag+src(e))
				ngn = append(ngn, e)
			}
			c := strings.Join(cs, " || ")
			if cl.List == nil {
				c = "default"
			}
			g := and(guard, and(neg, c))
			if neg == "" {
				g = and(guard, c)
			}
			w.stmts(cl.Body, g, append([]ast.Node{}, ngn...))
			if cl.List != nil {
				neg = and(neg, "!("+c+")")
			}
		}
	case *ast.TypeSwitchStmt:
		as, ok := x.Assign.(*ast.ExprStmt)
		if !ok {
			die("%s: type switch %s", w.typ, src(x.Assign))
		}
		ta := as.X.(*ast.TypeAssertExpr)
		subj := src(ta.X)
		neg := ""
		ngn := append(append([]ast.Node{}, gn...), ta.X)
		for _, cc := range x.Body.List {
			cl := cc.(*ast.CaseClause)
			var cs []string
			for _, e := range cl.List {
				cs = append(cs, src(e))
			}
			c := "type(" + subj + ") in [" + strings.Join(cs, ", ") + "]"
			if cl.List == nil {
				c = "default"
			}
			g := and(guard, and(neg, c))
			if neg == "" {
				g = and(guard, c)
			}
			w.stmts(cl.Body, g, ngn)
			if cl.List != nil {
				neg = and(neg, "!("+c+")")
			}
		}
	case *ast.RangeStmt:
		h := "range " + src(x.X)
		w.stmts(x.Body.List, and(guard, h), append(append([]ast.Node{}, gn...), x.X))
	case *ast.ForStmt:
		h := "for " + src(x.Cond)
		w.stmts(x.Body.List, and(guard, h), append(append([]ast.Node{}, gn...), x.Cond))
	case *ast.BlockStmt:
		w.stmts(x.List, guard, gn)
	default:
		die("%s.String(): statement outside the supported subset: %s", w.typ, src(s))
	}
}

// ---------- Field.Name(): the label of a select item ----------

// nameCases: the body of Field.Name() as an ordered list of (guard, target, expression).  A comma-ok type assertion in
// the init of an if statement becomes the guard `X.(T) as v`; assignments are kept as `let` parts (so that a changed
// subject of the type tests shows in the pinned list instead of stopping the extractor); anything else is refused.
func nameCases(list []ast.Stmt, guard string, out *[][3]string) {
	for _, s := range list {
		switch x := s.(type) {
		case *ast.ReturnStmt:
			if len(x.Results) != 1 {
				die("Field.Name(): return %s", src(x))
			}
			*out = append(*out, [3]string{guard, "return", src(x.Results[0])})
		case *ast.AssignStmt:
			if len(x.Lhs) != 1 || len(x.Rhs) != 1 {
				die("Field.Name(): assignment %s", src(x))
			}
			*out = append(*out, [3]string{guard, "let " + src(x.Lhs[0]), src(x.Rhs[0])})
		case *ast.IfStmt:
			if x.Else != nil {
				die("Field.Name(): if with else: %s", src(x))
			}
			c := src(x.Cond)
			if x.Init != nil {
				as, ok := x.Init.(*ast.AssignStmt)
				if !ok || len(as.Lhs) != 2 || len(as.Rhs) != 1 || src(as.Lhs[1]) != c {
					die("Field.Name(): if init %s", src(x.Init))
				}
				ta, ok := as.Rhs[0].(*ast.TypeAssertExpr)
				if !ok || ta.Type == nil {
					die("Field.Name(): if init %s", src(x.Init))
				}
				c = src(ta.X) + ".(" + src(ta.Type) + ") as " + src(as.Lhs[0])
			}
			nameCases(x.Body.List, and(guard, c), out)
		default:
			die("Field.Name(): statement outside the supported subset: %s", src(s))
		}
	}
}

// ---------- parser.y ----------

type setter struct {
	node, lhs string
	rhs       []string
	sets      [][3]string // field, expression, symbols used
}

var reDollar = regexp.MustCompile(`\$(\$|[0-9]+)`)

func zeroExpr(s string) bool {
	switch s {
	case "Token{}", "nil", `""`, "false", "0":
		return true
	}
	return false
}

func parseY(path string, printable map[string]bool) []setter {
	b, err := os.ReadFile(path)
	if err != nil {
		die("%v", err)
	}
	parts := strings.Split(string(b), "\n%%")
	if len(parts) < 2 {
		die("parser.y: no %%%% separator")
	}
	rs := []rune(parts[1])
	var out []setter
	i := 0
	lhs := ""
	var syms []string
	skip := func() {
		for i < len(rs) && (rs[i] == ' ' || rs[i] == '\t' || rs[i] == '\n' || rs[i] == '\r') {
			i++
		}
	}
	word := func() string {
		j := i
		if i < len(rs) && rs[i] == '\'' {
			i++
			for i < len(rs) && rs[i] != '\'' {
				if rs[i] == '\\' {
					i++
				}
				i++
			}
			i++
			return string(rs[j:i])
		}
		for i < len(rs) && (rs[i] == '_' || rs[i] == '%' || rs[i] >= 'a' && rs[i] <= 'z' || rs[i] >= 'A' && rs[i] <= 'Z' || rs[i] >= '0' && rs[i] <= '9') {
			i++
		}
		return string(rs[j:i])
	}
	action := func() string {
		j, depth := i, 0
		for i < len(rs) {
			switch rs[i] {
			case '{':
				depth++
			case '}':
				depth--
				if depth == 0 {
					i++
					return string(rs[j:i])
				}
			case '"', '`':
				q := rs[i]
				i++
				for i < len(rs) && rs[i] != q {
					if rs[i] == '\\' && q == '"' {
						i++
					}
					i++
				}
			case '\'':
				i++
				for i < len(rs) && rs[i] != '\'' {
					if rs[i] == '\\' {
						i++
					}
					i++
				}
			}
			i++
		}
		die("parser.y: unterminated action")
		return ""
	}
	handle := func(act string) {
		code := reDollar.ReplaceAllStringFunc(act, func(m string) string {
			if m == "$$" {
				return "yyVAL"
			}
			return "yyD" + m[1:]
		})
		f, err := parser.ParseFile(token.NewFileSet(), "action.go", "package p\nfunc _() "+code, 0)
		if err != nil {
			die("parser.y: action of %s: %v\n%s", lhs, err, act)
		}
		ast.Inspect(f, func(x ast.Node) bool {
			cl, ok := x.(*ast.CompositeLit)
			if !ok {
				return true
			}
			id, ok := cl.Type.(*ast.Ident)
			if !ok || !printable[id.Name] {
				return true
			}
			st := setter{node: id.Name, lhs: lhs, rhs: append([]string{}, syms...)}
			for _, el := range cl.Elts {
				kv, ok := el.(*ast.KeyValueExpr)
				if !ok {
					die("parser.y: %s: %s built with positional fields", lhs, id.Name)
				}
				expr := src(kv.Value)
				var used []string
				for _, m := range regexp.MustCompile(`yyD([0-9]+)`).FindAllStringSubmatch(expr, -1) {
					k := 0
					fmt.Sscanf(m[1], "%d", &k)
					if k < 1 || k > len(syms) {
						die("parser.y: %s: $%d out of range", lhs, k)
					}
					used = append(used, syms[k-1])
				}
				expr = regexp.MustCompile(`yyD([0-9]+)`).ReplaceAllString(expr, "$$$1")
				st.sets = append(st.sets, [3]string{src(kv.Key), expr, strings.Join(used, " ")})
			}
			out = append(out, st)
			return true
		})
	}
	for {
		skip()
		if i >= len(rs) {
			break
		}
		switch {
		case rs[i] == '{':
			handle(action())
		case rs[i] == '|':
			i++
			syms = nil
		case rs[i] == ':':
			i++
			syms = nil
		case rs[i] == ';':
			i++
		case rs[i] == '/' && i+1 < len(rs) && rs[i+1] == '/':
			for i < len(rs) && rs[i] != '\n' {
				i++
			}
		default:
			w := word()
			if w == "" {
				die("parser.y: unexpected %q", string(rs[i]))
			}
			if w == "%prec" {
				skip()
				word()
				continue
			}
			k := i
			skip()
			if i < len(rs) && rs[i] == ':' {
				lhs = w
				syms = nil
				continue
			}
			i = k
			syms = append(syms, w)
		}
	}
	return out
}

// nameUses: the statements of lib/query (non-test files) that call .Name() on a parser.Field
func nameUses() []string {
	dir := filepath.Join(repo(), "lib", "query")
	files, err := filepath.Glob(filepath.Join(dir, "*.go"))
	if err != nil {
		die("%v", err)
	}
	sort.Strings(files)
	var out []string
	for _, fn := range files {
		if strings.HasSuffix(fn, "_test.go") {
			continue
		}
		b, err := os.ReadFile(fn)
		if err != nil {
			die("%v", err)
		}
		for _, line := range strings.Split(string(b), "\n") {
			t := strings.TrimSpace(line)
			if strings.Contains(t, "field.Name()") || strings.Contains(t, "selectLabels") {
				out = append(out, filepath.Base(fn)+": "+t)
			}
		}
	}
	if len(out) == 0 {
		die("no use of Field.Name() found in lib/query")
	}
	return out
}

// ---------- output ----------

func q(s string) string { return fmt.Sprintf("%q", s) }

func qs(l []string) string {
	o := make([]string, len(l))
	for i, s := range l {
		o[i] = q(s)
	}
	return "[" + strings.Join(o, ", ") + "]"
}

func main() {
	dir := filepath.Join(repo(), "lib", "parser")
	f, err := parser.ParseFile(fset, filepath.Join(dir, "ast.go"), nil, 0)
	if err != nil {
		die("%v", err)
	}
	var order []string
	for _, d := range f.Decls {
		switch x := d.(type) {
		case *ast.GenDecl:
			for _, sp := range x.Specs {
				if ts, ok := sp.(*ast.TypeSpec); ok {
					if st, ok := ts.Type.(*ast.StructType); ok {
						structs[ts.Name.Name] = st
						order = append(order, ts.Name.Name)
					}
				}
			}
		case *ast.FuncDecl:
			if x.Recv == nil {
				funcs[x.Name.Name] = x
				continue
			}
			if len(x.Recv.List) != 1 {
				continue
			}
			rt := x.Recv.List[0].Type
			if st, ok := rt.(*ast.StarExpr); ok {
				rt = st.X
			}
			id, ok := rt.(*ast.Ident)
			if !ok {
				continue
			}
			recv := "_"
			if len(x.Recv.List[0].Names) == 1 {
				recv = x.Recv.List[0].Names[0].Name
			}
			if methods[id.Name] == nil {
				methods[id.Name] = map[string]method{}
			}
			methods[id.Name][x.Name.Name] = method{recv, x}
		}
	}
	var nodes []node
	printable := map[string]bool{}
	for _, name := range order {
		m, ok := methods[name]["String"]
		if !ok {
			continue
		}
		if m.decl.Type.Params.NumFields() != 0 || m.decl.Type.Results.NumFields() != 1 || src(m.decl.Type.Results.List[0].Type) != "string" {
			die("%s.String has an unexpected signature", name)
		}
		printable[name] = true
	}
	for _, name := range order {
		if !printable[name] {
			continue
		}
		// rename the receiver to e in the String method and in the methods it may call
		for _, m := range methods[name] {
			if m.recv != "_" && m.recv != "e" {
				renameRecv(m.decl, m.recv)
			}
		}
		for k, m := range methods[name] {
			if m.recv != "_" {
				m.recv = "e"
				methods[name][k] = m
			}
		}
		m := methods[name]["String"]
		w := &walker{typ: name}
		w.stmts(m.decl.Body.List, "", nil)
		nodes = append(nodes, node{name, fieldNames(structs[name]), fieldsRead(name, "e", m.decl.Body, true), w.parts})
	}
	if len(nodes) == 0 {
		die("no printable node found")
	}
	setters := parseY(filepath.Join(dir, "parser.y"), printable)

	var o strings.Builder
	p := func(format string, a ...interface{}) { fmt.Fprintf(&o, format, a...) }
	p("-- GENERATED by /verif/extract/astprint from lib/parser/ast.go and lib/parser/parser.y — do not edit.\n\nnamespace Csvq.Gen.AstPrint\n\n")
	p("/-- one value a String() method assigns, appends or returns: the condition under which the statement runs, where the\n    value goes, its source text, the fields it reads and the fields the condition reads -/\n")
	p("structure Part where\n  guard : String\n  target : String\n  expr : String\n  reads : List String\n  guardReads : List String\n  deriving DecidableEq, Repr\n\n")
	p("structure Node where\n  name : String\n  fields : List (String × String)\n  reads : List String\n  parts : List Part\n  deriving DecidableEq, Repr\n\n")
	p("/-- a composite literal of a printable node in an action of parser.y: (field, expression, grammar symbols used) -/\n")
	p("structure Setter where\n  node : String\n  lhs : String\n  rhs : List String\n  sets : List (String × String × String)\n  deriving DecidableEq, Repr\n\n")
	for _, n := range nodes {
		p("def node_%s : Node :=\n  { name := %s,\n    fields := [", n.name, q(n.name))
		for i, f := range n.fields {
			if i > 0 {
				p(", ")
			}
			p("(%s, %s)", q(f[0]), q(f[1]))
		}
		p("],\n    reads := %s,\n    parts := [", qs(n.reads))
		for i, pt := range n.parts {
			if i > 0 {
				p(",")
			}
			p("\n      ⟨%s, %s, %s, %s, %s⟩", q(pt.guard), q(pt.target), q(pt.expr), qs(pt.reads), qs(pt.guardReads))
		}
		p("] }\n\n")
	}
	p("/-- every struct type of ast.go that has a String() method, in source order -/\ndef nodes : List Node := [")
	for i, n := range nodes {
		if i > 0 {
			p(", ")
		}
		p("node_%s", n.name)
	}
	p("]\n\n/-- the composite literals of printable nodes in the actions of parser.y, in source order -/\ndef setters : List Setter := [")
	for i, s := range setters {
		if i > 0 {
			p(",")
		}
		p("\n  ⟨%s, %s, %s, [", q(s.node), q(s.lhs), qs(s.rhs))
		for k, st := range s.sets {
			if k > 0 {
				p(", ")
			}
			p("(%s, %s, %s)", q(st[0]), q(st[1]), q(st[2]))
		}
		p("]⟩")
	}
	p("]\n\n")
	// Field.Name()
	nm, ok := methods["Field"]["Name"]
	if !ok || nm.decl.Body == nil || nm.decl.Type.Params.NumFields() != 0 || nm.decl.Type.Results.NumFields() != 1 || src(nm.decl.Type.Results.List[0].Type) != "string" {
		die("Field.Name() string not found")
	}
	var ncs [][3]string
	nameCases(nm.decl.Body.List, "", &ncs)
	p("/-- the body of Field.Name() (the label of a select item): guard, target, expression, in source order; the receiver is `e` -/\ndef fieldNameCases : List (String × String × String) := [")
	for i, c := range ncs {
		if i > 0 {
			p(",")
		}
		p("\n  (%s, %s, %s)", q(c[0]), q(c[1]), q(c[2]))
	}
	p("]\n\n/-- where the label goes: every use of Field.Name() in lib/query (file: statement) -/\ndef fieldNameUses : List String := %s\n\n", qs(nameUses()))
	// the helper functions of the printers
	p("/-- the helper functions every String() method ends in: name, signature, body -/\ndef helpers : List (String × String × String) := [")
	for i, h := range []string{"putParentheses", "joinWithSpace", "listQueryExpressions", "keyword"} {
		fd, ok := funcs[h]
		if !ok || fd.Body == nil {
			die("helper %s not found in ast.go", h)
		}
		if i > 0 {
			p(",")
		}
		var body []string
		for _, st := range fd.Body.List {
			body = append(body, src(st))
		}
		p("\n  (%s, %s, %s)", q(h), q(src(fd.Type)), q(strings.Join(body, "; ")))
	}
	p("]\n\nend Csvq.Gen.AstPrint\n")
	fmt.Print(o.String())
}
