// loader.go: the ORDER in which one call of cacheViewFromFile takes the loading mutex, looks the cache up, reads the
// file and stores the view — the step list the concurrent loader machine of Model/ParLoad.lean runs — and what its
// caller does with the cache afterwards.  Fails closed: every mention of the mutex and every access to the cache has
// to be one of the recognised steps, at the recognised nesting.
package main

import (
	"go/ast"
	"strings"
)

func mentions(n ast.Node, what string) int {
	k := 0
	ast.Inspect(n, func(x ast.Node) bool {
		if s, ok := x.(*ast.SelectorExpr); ok && s.Sel.Name == what {
			k++
		}
		return true
	})
	return k
}

func mutexCall(e ast.Expr) string {
	c, ok := e.(*ast.CallExpr)
	if !ok || len(c.Args) != 0 {
		return ""
	}
	switch src(c.Fun) {
	case "scope.Tx.viewLoadingMutex.Lock":
		return "mutex_lock"
	case "scope.Tx.viewLoadingMutex.Unlock":
		return "mutex_unlock"
	}
	return ""
}

// cache accesses of a node in source order (closures called on the spot included, deferred ones excluded)
func cacheSteps(n ast.Node, out *[]string) {
	ast.Inspect(n, func(x ast.Node) bool {
		switch c := x.(type) {
		case *ast.DeferStmt:
			return false // the restore of a failed reload: error path, pinned by gen_failed_reload_restores_cache
		case *ast.CallExpr:
			if _, lit := c.Fun.(*ast.FuncLit); lit {
				return true // a closure called on the spot: its body runs here
			}
			fn := src(c.Fun)
			switch {
			case fn == "loadViewFromFile":
				*out = append(*out, "load")
			case strings.HasSuffix(fn, "CachedViews.Set"):
				*out = append(*out, "store")
			case strings.HasSuffix(fn, "CachedViews.Load"):
				*out = append(*out, "lookup")
			case strings.HasSuffix(fn, "CachedViews.Dispose"):
				*out = append(*out, "dispose")
			case strings.Contains(fn, "CachedViews."):
				die("cacheViewFromFile: unrecognised access to the cache `%s`", fn)
			}
		}
		return true
	})
}

// loaderSteps returns the step list of cacheViewFromFile: top-level statements in order.
func loaderSteps(fd *ast.FuncDecl, loadIf *ast.IfStmt) []string {
	var out []string
	seenMutex := 0
	for _, s := range fd.Body.List {
		switch x := s.(type) {
		case *ast.ExprStmt:
			if t := mutexCall(x.X); t != "" {
				out = append(out, t)
				seenMutex++
				continue
			}
		case *ast.DeferStmt:
			if t := mutexCall(x.Call); t == "mutex_unlock" {
				out = append(out, "defer:mutex_unlock")
				seenMutex++
				continue
			}
			die("cacheViewFromFile: a top-level defer other than the release of the loading mutex")
		case *ast.IfStmt:
			if x == loadIf {
				var in []string
				cacheSteps(x.Body, &in)
				// inside the branch: [dispose] load store, the dispose only for a cached view
				var core []string
				for _, t := range in {
					if t != "dispose" {
						core = append(core, t)
					}
				}
				if strings.Join(core, " ") != "load store" {
					die("cacheViewFromFile: the load branch is not `load` followed by one `store` (found %v)", in)
				}
				out = append(out, "load", "store")
				continue
			}
		}
		// any other statement: the lookup closure (only CachedViews.Load) or nothing about cache and mutex
		var in []string
		cacheSteps(s, &in)
		if len(in) > 0 {
			for _, t := range in {
				if t != "lookup" {
					die("cacheViewFromFile: `%s` outside the load branch", t)
				}
			}
			if as, ok := s.(*ast.AssignStmt); !ok || len(as.Lhs) != 4 || src(as.Lhs[2]) != "isCached" {
				die("cacheViewFromFile: a cache lookup that does not assign `isCached`")
			}
			out = append(out, "lookup")
		}
		if mentions(s, "viewLoadingMutex") > 0 {
			die("cacheViewFromFile: the loading mutex is used inside a nested statement")
		}
	}
	if mentions(fd, "viewLoadingMutex") != seenMutex {
		die("cacheViewFromFile: a use of the loading mutex that is not a top-level Lock() / Unlock() / defer Unlock()")
	}
	n := 0
	for _, t := range out {
		if t == "lookup" {
			n++
		}
	}
	if n != 1 {
		die("cacheViewFromFile: %d statements look the cache up (the decision must rest on one)", n)
	}
	return append(out, "return")
}

// loaderCaller: loadObjectFromFile calls cacheViewFromFile and then takes the view out of the cache.
func loaderCaller(fd *ast.FuncDecl) []string {
	var out []string
	ast.Inspect(fd.Body, func(x ast.Node) bool {
		c, ok := x.(*ast.CallExpr)
		if !ok {
			return true
		}
		fn := src(c.Fun)
		switch {
		case fn == "cacheViewFromFile":
			out = append(out, "call(cacheViewFromFile)")
		case strings.HasSuffix(fn, "CachedViews.Get"), strings.HasSuffix(fn, "CachedViews.GetWithInternalId"):
			if len(out) == 0 || out[len(out)-1] != "cache_get" {
				out = append(out, "cache_get") // the two spellings sit in the branches of one if / else
			}
		case strings.Contains(fn, "CachedViews."):
			die("loadObjectFromFile: unrecognised access to the cache `%s`", fn)
		}
		return true
	})
	if mentions(fd, "viewLoadingMutex") != 0 {
		die("loadObjectFromFile: uses the loading mutex")
	}
	return out
}

// restoredView: WHAT the deferred restore of a failed reload puts back into the cache.  "saved_copy(view)" when the
// argument of the deferred CachedViews.Set is a variable assigned once, from `view`, directly before the defer (the
// view found by the lookup — `view` itself is overwritten by the load); anything else is printed as it stands.
func restoredView(loadIf *ast.IfStmt) string {
	var block []ast.Stmt
	for _, s := range loadIf.Body.List {
		if is, ok := s.(*ast.IfStmt); ok && src(is.Cond) == "isCached" {
			block = is.Body.List
		}
	}
	if block == nil {
		die("cacheViewFromFile: no `if isCached` block in the load branch")
	}
	for i, s := range block {
		d, ok := s.(*ast.DeferStmt)
		if !ok {
			continue
		}
		arg := ""
		ast.Inspect(d, func(x ast.Node) bool {
			if c, ok := x.(*ast.CallExpr); ok && strings.HasSuffix(src(c.Fun), "CachedViews.Set") && len(c.Args) == 1 {
				arg = src(c.Args[0])
			}
			return true
		})
		if arg == "" {
			continue
		}
		if i > 0 {
			if as, ok := block[i-1].(*ast.AssignStmt); ok && len(as.Lhs) == 1 && len(as.Rhs) == 1 &&
				src(as.Lhs[0]) == arg && arg != "view" && src(as.Rhs[0]) == "view" {
				// no other assignment to the saved variable anywhere in the branch
				n := 0
				ast.Inspect(loadIf, func(x ast.Node) bool {
					if a, ok := x.(*ast.AssignStmt); ok {
						for _, l := range a.Lhs {
							if src(l) == arg {
								n++
							}
						}
					}
					return true
				})
				if n == 1 {
					return "saved_copy(view)"
				}
			}
		}
		return "live(" + arg + ")"
	}
	return "none"
}
