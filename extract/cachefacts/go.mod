module cachefacts

go 1.18
