// cachefacts: reads lib/query/load_view.go and lib/query/transaction.go of csvq and prints
// Csvq/Gen/CacheFacts.lean — the decision logic of the per-transaction table cache (property C20):
//
//   - reloadCond            the condition under which cacheViewFromFile (re)loads a file, as a Bool function
//   - forUpdateAfterLoad    what is stored into view.FileInfo.ForUpdate after a load
//   - fxCacheLoad           the structured effects of the (re)load branch
//   - fxCacheTail           what follows the branch
//   - fxReleaseResources    the effects of Transaction.ReleaseResources (cache cleared at commit / rollback)
//   - fxRollbackTail / fxCommitTail   where Commit and Rollback release the resources
//   - loaderSteps / loaderCaller      the order of mutex, cache lookup, load and store in one call (loader.go)
//
// Stdlib only.  Fails loudly (exit 1) on anything it does not recognise.
package main

import (
	"fmt"
	"go/ast"
	"go/parser"
	"go/printer"
	"go/token"
	"os"
	"path/filepath"
	"strings"
)

var fset = token.NewFileSet()

func die(format string, a ...interface{}) {
	fmt.Fprintf(os.Stderr, "cachefacts: "+format+"\n", a...)
	os.Exit(1)
}

func src(n ast.Node) string {
	var sb strings.Builder
	_ = printer.Fprint(&sb, fset, n)
	return sb.String()
}

func repo() string {
	if r := os.Getenv("VERIF_REPO"); r != "" {
		return r
	}
	return "/repo"
}

func parse(rel string) *ast.File {
	f, err := parser.ParseFile(fset, filepath.Join(repo(), rel), nil, 0)
	if err != nil {
		die("%v", err)
	}
	return f
}

func findFunc(f *ast.File, recv, name string) *ast.FuncDecl {
	for _, d := range f.Decls {
		fd, ok := d.(*ast.FuncDecl)
		if !ok || fd.Name.Name != name {
			continue
		}
		r := ""
		if fd.Recv != nil && len(fd.Recv.List) == 1 {
			r = strings.TrimPrefix(src(fd.Recv.List[0].Type), "*")
		}
		if r == recv {
			return fd
		}
	}
	die("function %s.%s not found", recv, name)
	return nil
}

// boolean expression over the three atoms of the reload decision
func boolExpr(e ast.Expr) string {
	switch x := e.(type) {
	case *ast.ParenExpr:
		return "(" + boolExpr(x.X) + ")"
	case *ast.UnaryExpr:
		if x.Op == token.NOT {
			return "(!" + boolExpr(x.X) + ")"
		}
	case *ast.BinaryExpr:
		switch x.Op {
		case token.LAND:
			return "(" + boolExpr(x.X) + " && " + boolExpr(x.Y) + ")"
		case token.LOR:
			return "(" + boolExpr(x.X) + " || " + boolExpr(x.Y) + ")"
		}
	case *ast.Ident:
		switch x.Name {
		case "isCached", "forUpdate":
			return x.Name
		case "true", "false":
			return x.Name
		}
	case *ast.SelectorExpr:
		if src(x) == "view.FileInfo.ForUpdate" {
			return "cachedForUpdate"
		}
	}
	die("%s: `%s` is not a boolean expression over isCached, forUpdate, view.FileInfo.ForUpdate", fset.Position(e.Pos()), src(e))
	return ""
}

// effect of a call, "" = none (reviewed as harmless), "call(fn)" = not reviewed
func effect(c *ast.CallExpr) string {
	fn := src(c.Fun)
	switch {
	case strings.HasSuffix(fn, "CachedViews.Dispose"):
		return "dispose"
	case strings.HasSuffix(fn, "CachedViews.Set"):
		return "cache_set"
	case strings.HasSuffix(fn, "CachedViews.Clean"), strings.HasSuffix(fn, "CachedViews.CleanWithErrors"):
		return "cache_clean"
	case strings.HasSuffix(fn, "FileContainer.CloseAll"), strings.HasSuffix(fn, "FileContainer.CloseAllWithErrors"):
		return "close_all_handlers"
	case fn == "NewFileInfo":
		return "new_fileinfo"
	case strings.HasSuffix(fn, ".SetDefaultFileInfoAttributes"):
		return "set_default_attributes"
	case strings.HasSuffix(fn, "FileContainer.CreateHandlerForUpdate"):
		return "handler_update"
	case strings.HasSuffix(fn, "FileContainer.CreateHandlerForRead"):
		return "handler_read"
	case strings.HasSuffix(fn, "FileContainer.Close"):
		return "close_handler(" + src(c.Args[0]) + ")"
	case fn == "loadViewFromFile":
		return "load"
	case fn == "fp.Seek":
		return "seek"
	case strings.HasSuffix(fn, "UncommittedViews.Clean"):
		return "uncommitted_clean"
	case strings.HasSuffix(fn, ".ReleaseResources"), strings.HasSuffix(fn, ".ReleaseResourcesWithErrors"):
		return "release_resources"
	case strings.HasSuffix(fn, "FileContainer.Commit"):
		return "handler_commit"
	case strings.HasSuffix(fn, ".RestoreTemporaryTable"), strings.HasSuffix(fn, ".StoreTemporaryTable"):
		return "temp_tables"
	case fn == "EncodeView":
		return "encode"
	}
	if harmless[fn] || strings.HasPrefix(fn, "New") && strings.HasSuffix(fn, "Error") || strings.HasSuffix(fn, ".Lock") || strings.HasSuffix(fn, ".Unlock") {
		return ""
	}
	return "call(" + fn + ")"
}

var harmless = map[string]bool{
	"ConvertFileHandlerError": true, "appendCompositeError": true,
	"h.File": true, "scope.FilePathExists": true, "scope.StoreFilePath": true, "fileInfo.IdentifiedPath": true,
	"err.Error": true, "tx.UnlockStdin": true, "tx.ClearUrlCache": true, "append": true, "len": true, "make": true,
	"file.NewForcedUnlockError": true, "tx.LogNotice": true, "fmt.Sprintf": true, "ctx.Err": true,
	"ConvertContextError": true, "tx.UncommittedViews.UncommittedFiles": true, "tx.UncommittedViews.UncommittedTempViews": true,
	"tx.CachedViews.Get": true, "view.FileInfo.Handler.FileForUpdate": true, "fileInfo.ExportOptions": true,
	"fileInfo.LineBreak.Value": true, "fp.Truncate": true, "fp.Write": true, "file.VerifPoint": true,
	"EncodeEndingLineBreak": true, "tx.quietForTemporaryViews": true, "tx.UncommittedViews.Unset": true,
	"scope.StoreTemporaryTable": true, "[]byte": true, "scope.LoadFilePath": true, "scope.Tx.CachedViews.Load": true,
	"strings.ToUpper": true, "strings.Join": true, "CreateFilePath": true, "SearchFilePath": true, "e.Error": true, "tx.UncommittedViews.IsEmpty": true,
}

type walker struct{ out []string }

func (w *walker) emit(s string) {
	if s != "" {
		w.out = append(w.out, s)
	}
}

func (w *walker) calls(n ast.Node) {
	ast.Inspect(n, func(x ast.Node) bool {
		switch c := x.(type) {
		case *ast.FuncLit:
			return false
		case *ast.CallExpr:
			for _, a := range c.Args {
				w.calls(a)
			}
			if fl, ok := c.Fun.(*ast.FuncLit); ok { // a closure called on the spot: its body runs here
				w.emit("closure{")
				w.stmts(fl.Body.List)
				w.emit("}")
				return false
			}
			w.emit(effect(c))
			return false
		}
		return true
	})
}

func condToken(e ast.Expr) string {
	s := src(e)
	switch s {
	case "forUpdate", "isCached", "!forUpdate", "!isCached":
		return "if(" + s + "){"
	}
	if strings.HasSuffix(s, "!= nil") && (strings.HasPrefix(s, "err") || strings.HasPrefix(s, "e ")) {
		return "if(err){"
	}
	return "if{"
}

func (w *walker) stmts(list []ast.Stmt) {
	for _, s := range list {
		w.stmt(s)
	}
}

func (w *walker) stmt(s ast.Stmt) {
	switch x := s.(type) {
	case *ast.IfStmt:
		if x.Init != nil {
			w.stmt(x.Init)
		}
		w.calls(x.Cond)
		w.emit(condToken(x.Cond))
		w.stmts(x.Body.List)
		w.emit("}")
		if x.Else != nil {
			w.emit("else{")
			switch e := x.Else.(type) {
			case *ast.BlockStmt:
				w.stmts(e.List)
			default:
				w.stmt(e)
			}
			w.emit("}")
		}
	case *ast.BlockStmt:
		w.stmts(x.List)
	case *ast.ForStmt:
		w.emit("loop{")
		w.stmts(x.Body.List)
		w.emit("}")
	case *ast.RangeStmt:
		w.emit("loop{")
		w.stmts(x.Body.List)
		w.emit("}")
	case *ast.ReturnStmt:
		for _, r := range x.Results {
			w.calls(r)
		}
		w.emit("return")
	case *ast.DeferStmt:
		sub := &walker{}
		if fl, ok := x.Call.Fun.(*ast.FuncLit); ok {
			sub.stmts(fl.Body.List)
		} else {
			sub.calls(x.Call)
		}
		for _, t := range sub.out {
			w.emit("defer:" + t)
		}
	case *ast.AssignStmt:
		for _, r := range x.Rhs {
			if fl, ok := r.(*ast.FuncLit); ok {
				_ = fl // closures are analysed where they are called
				continue
			}
			w.calls(r)
		}
		if len(x.Lhs) == 1 && src(x.Lhs[0]) == "view.FileInfo.ForUpdate" {
			w.emit("set_forupdate(" + boolExpr(x.Rhs[0]) + ")")
		}
	case *ast.ExprStmt:
		w.calls(x.X)
	case *ast.DeclStmt, *ast.IncDecStmt, *ast.BranchStmt, *ast.EmptyStmt:
	case *ast.SwitchStmt, *ast.TypeSwitchStmt, *ast.SelectStmt, *ast.GoStmt, *ast.LabeledStmt:
		die("%s: statement kind %T is outside the translated subset", fset.Position(s.Pos()), s)
	default:
		die("%s: statement kind %T is outside the translated subset", fset.Position(s.Pos()), s)
	}
}

func leanList(l []string) string {
	q := make([]string, len(l))
	for i, s := range l {
		q[i] = fmt.Sprintf("%q", s)
	}
	return "[" + strings.Join(q, ", ") + "]"
}

func containsCall(n ast.Node, name string) bool {
	found := false
	ast.Inspect(n, func(x ast.Node) bool {
		if c, ok := x.(*ast.CallExpr); ok && src(c.Fun) == name {
			found = true
		}
		return !found
	})
	return found
}

func main() {
	lv := parse("lib/query/load_view.go")
	fd := findFunc(lv, "", "cacheViewFromFile")

	// the parameters the model speaks about must still be there
	hasForUpdate := false
	for _, p := range fd.Type.Params.List {
		for _, n := range p.Names {
			if n.Name == "forUpdate" && src(p.Type) == "bool" {
				hasForUpdate = true
			}
		}
	}
	if !hasForUpdate {
		die("cacheViewFromFile: parameter `forUpdate bool` not found")
	}

	// the top-level `if` whose body loads the file
	var loadIf *ast.IfStmt
	var tail []ast.Stmt
	var head []ast.Stmt
	for i, s := range fd.Body.List {
		if is, ok := s.(*ast.IfStmt); ok && containsCall(is.Body, "loadViewFromFile") {
			if loadIf != nil {
				die("cacheViewFromFile: two branches call loadViewFromFile")
			}
			loadIf = is
			head = fd.Body.List[:i]
			tail = fd.Body.List[i+1:]
		}
	}
	if loadIf == nil {
		die("cacheViewFromFile: no top-level `if` calling loadViewFromFile")
	}
	if loadIf.Else != nil || loadIf.Init != nil {
		die("cacheViewFromFile: the load branch has an else / init part")
	}
	// nothing before the branch may load or store cache entries except the lookup closure (Load only)
	hw := &walker{}
	hw.stmts(head)
	for _, t := range hw.out {
		if t == "load" || t == "cache_set" || t == "dispose" || strings.HasPrefix(t, "call(") {
			die("cacheViewFromFile: `%s` before the load branch", t)
		}
	}
	// the lookup closure: isCached must be the `ok` of CachedViews.Load on every path
	lookupOK := false
	ast.Inspect(fd, func(n ast.Node) bool {
		as, ok := n.(*ast.AssignStmt)
		if !ok || len(as.Lhs) != 4 || len(as.Rhs) != 1 {
			return true
		}
		if src(as.Lhs[2]) != "isCached" || src(as.Lhs[1]) != "view" {
			return true
		}
		call, ok := as.Rhs[0].(*ast.CallExpr)
		if !ok {
			return true
		}
		fl, ok := call.Fun.(*ast.FuncLit)
		if !ok {
			return true
		}
		good := true
		ast.Inspect(fl.Body, func(m ast.Node) bool {
			r, ok := m.(*ast.ReturnStmt)
			if !ok || len(r.Results) != 4 {
				return true
			}
			v, c := src(r.Results[1]), src(r.Results[2])
			switch {
			case v == "nil" && c == "false": // error paths
			case v == "v" && (c == "true" || c == "ok"): // the view found by CachedViews.Load and its flag
			default:
				good = false
			}
			return true
		})
		if !containsCall(fl.Body, "scope.Tx.CachedViews.Load") {
			good = false
		}
		lookupOK = good
		return true
	})
	if !lookupOK {
		die("cacheViewFromFile: `view, isCached` are no longer the result of CachedViews.Load on every path of the lookup closure")
	}

	cond := boolExpr(loadIf.Cond)
	bw := &walker{}
	bw.stmts(loadIf.Body.List)
	tw := &walker{}
	tw.stmts(tail)

	var fu string
	for _, t := range bw.out {
		if strings.HasPrefix(t, "set_forupdate(") {
			if fu != "" {
				die("cacheViewFromFile: view.FileInfo.ForUpdate assigned twice in the load branch")
			}
			fu = strings.TrimSuffix(strings.TrimPrefix(t, "set_forupdate("), ")")
		}
	}
	if fu == "" {
		die("cacheViewFromFile: view.FileInfo.ForUpdate is not assigned in the load branch")
	}
	for _, t := range tw.out {
		if strings.HasPrefix(t, "set_forupdate(") {
			die("cacheViewFromFile: view.FileInfo.ForUpdate assigned after the load branch")
		}
	}

	tx := parse("lib/query/transaction.go")
	rw := &walker{}
	rw.stmts(findFunc(tx, "Transaction", "ReleaseResources").Body.List)
	rew := &walker{}
	rew.stmts(findFunc(tx, "Transaction", "ReleaseResourcesWithErrors").Body.List)
	cw := &walker{}
	cw.stmts(findFunc(tx, "Transaction", "Commit").Body.List)
	rbw := &walker{}
	rbw.stmts(findFunc(tx, "Transaction", "Rollback").Body.List)

	var o strings.Builder
	o.WriteString("-- GENERATED by /verif/extract/cachefacts from lib/query/load_view.go and lib/query/transaction.go — do not edit.\n\nnamespace Csvq.Gen\n\n")
	o.WriteString("/-- `cacheViewFromFile`: the condition of the branch that loads the file (isCached = CachedViews.Load found the path,\n    cachedForUpdate = view.FileInfo.ForUpdate of the cached view) -/\n")
	o.WriteString("def reloadCond (isCached forUpdate cachedForUpdate : Bool) : Bool := " + cond + "\n\n")
	o.WriteString("/-- what the branch stores into `view.FileInfo.ForUpdate` before caching the view -/\n")
	o.WriteString("def forUpdateAfterLoad (isCached forUpdate cachedForUpdate : Bool) : Bool := " + fu + "\n\n")
	o.WriteString("/-- structured effects of the load branch -/\ndef fxCacheLoad : List String :=\n  " + leanList(bw.out) + "\n\n")
	o.WriteString("/-- effects after the branch -/\ndef fxCacheTail : List String :=\n  " + leanList(tw.out) + "\n\n")
	o.WriteString("def fxReleaseResources : List String :=\n  " + leanList(rw.out) + "\n\n")
	o.WriteString("def fxReleaseResourcesWithErrors : List String :=\n  " + leanList(rew.out) + "\n\n")
	o.WriteString("/-- Transaction.Commit, cache-relevant effects only -/\ndef fxCommitCache : List String :=\n  " + leanList(filter(cw.out)) + "\n\n")
	o.WriteString("/-- Transaction.Rollback, cache-relevant effects only -/\ndef fxRollbackCache : List String :=\n  " + leanList(filter(rbw.out)) + "\n\n")
	o.WriteString("/-- ONE call of cacheViewFromFile as the steps that touch the loading mutex, the cache and the file, in the ORDER of the\n    source (top-level statements; `defer:` = registered there, runs at `return`) -/\ndef loaderSteps : List String :=\n  " + leanList(loaderSteps(fd, loadIf)) + "\n\n")
	o.WriteString("/-- its caller loadObjectFromFile: the view handed to the statement is taken out of the cache after the call -/\ndef loaderCaller : List String :=\n  " + leanList(loaderCaller(findFunc(lv, "", "loadObjectFromFile"))) + "\n\n")
	o.WriteString("/-- what the deferred restore of a FAILED reload puts back into the cache -/\ndef restoredView : String := " + fmt.Sprintf("%q", restoredView(loadIf)) + "\n\n")
	muts, sites, callers, kinds := evictionFacts()
	o.WriteString("/-- the methods of ViewMap / SyncMap that change the map -/\ndef viewMapMutators : List String :=\n  " + leanList(muts) + "\n\n")
	o.WriteString("/-- EVERY call of such a method on Transaction.CachedViews in the tree, as pkg.Func:Method -/\ndef cacheMutationSites : List String :=\n  " + leanList(sites) + "\n\n")
	o.WriteString("/-- one level through the call graph (by name): the calls of the functions that hold such a site -/\ndef cacheMutatorCallers : List String :=\n  " + leanList(callers) + "\n\n")
	var ks []string
	for _, k := range kinds {
		ks = append(ks, fmt.Sprintf("(%q, %q)", k[0], k[1]))
	}
	o.WriteString("/-- the cases of Processor.ExecuteStatement from which a site other than the load in cacheViewFromFile is reached (by name) -/\ndef cacheStmtKinds : List (String × String) :=\n  [" + strings.Join(ks, ",\n   ") + "]\n\n")
	o.WriteString("/-- every statement type Processor.ExecuteStatement dispatches on -/\ndef stmtCases : List String :=\n  " + leanList(stmtCases) + "\n\n")
	o.WriteString("end Csvq.Gen\n")
	fmt.Print(o.String())
}

// keep what matters for the cache: clearing, releasing, returns and unknown calls
func filter(l []string) []string {
	var out []string
	for _, t := range l {
		switch {
		case t == "release_resources", t == "cache_clean", t == "uncommitted_clean", t == "handler_commit",
			strings.HasPrefix(t, "call("), strings.HasPrefix(t, "defer:"):
			out = append(out, t)
		}
	}
	return out
}
