// evict.go: WHO may remove or replace an entry of the per-transaction view cache (Transaction.CachedViews).
//
//   - viewMapMutators     the methods of ViewMap / SyncMap that change the map (fixpoint over their bodies)
//   - cacheMutationSites  EVERY call of such a method on a `.CachedViews` receiver, in all packages of the tree, as
//     "pkg.Func:Method" (one entry per call)
//   - cacheMutatorCallers one level through the call graph, by name: every call of a function that holds such a site
//   - cacheStmtKinds      the cases of Processor.ExecuteStatement that call (by name) a function from which a site
//     other than the load inside cacheViewFromFile can be reached
//
// Fails closed: a `.CachedViews` that is not the receiver of a direct method call (stored in a variable, passed on),
// a method that is not declared on ViewMap / SyncMap, a sync.Map method outside the classified ones: exit 1.
package main

import (
	"go/ast"
	"go/parser"
	"os"
	"path/filepath"
	"sort"
	"strings"
)

type fnDecl struct {
	pkg, recv, name string
	decl            *ast.FuncDecl
	file            *ast.File
}

func (f fnDecl) label() string {
	if f.recv != "" {
		return f.pkg + "." + f.recv + "." + f.name
	}
	return f.pkg + "." + f.name
}

func parseTree() []fnDecl {
	var out []fnDecl
	var dirs []string
	_ = filepath.Walk(repo(), func(p string, info os.FileInfo, err error) error {
		if err != nil {
			return nil
		}
		if info.IsDir() {
			b := info.Name()
			if p != repo() && (strings.HasPrefix(b, ".") || b == "testdata" || b == "vendor" || b == "docs") {
				return filepath.SkipDir
			}
			dirs = append(dirs, p)
		}
		return nil
	})
	sort.Strings(dirs)
	for _, d := range dirs {
		ents, _ := os.ReadDir(d)
		for _, e := range ents {
			n := e.Name()
			if e.IsDir() || !strings.HasSuffix(n, ".go") || strings.HasSuffix(n, "_test.go") {
				continue
			}
			f, err := parser.ParseFile(fset, filepath.Join(d, n), nil, 0)
			if err != nil {
				die("%v", err)
			}
			for _, dc := range f.Decls {
				fd, ok := dc.(*ast.FuncDecl)
				if !ok || fd.Body == nil {
					continue
				}
				r := ""
				if fd.Recv != nil && len(fd.Recv.List) == 1 {
					r = strings.TrimPrefix(src(fd.Recv.List[0].Type), "*")
				}
				out = append(out, fnDecl{pkg: f.Name.Name, recv: r, name: fd.Name.Name, decl: fd, file: f})
			}
		}
	}
	return out
}

var syncMapReaders = map[string]bool{"Load": true, "Range": true}
var syncMapWriters = map[string]bool{"Store": true, "Delete": true, "LoadOrStore": true, "LoadAndDelete": true, "Swap": true,
	"CompareAndSwap": true, "CompareAndDelete": true, "Clear": true}

// methods of ViewMap / SyncMap that change the map
func viewMapMutators(decls []fnDecl) (mut map[string]bool, all map[string]bool) {
	mut, all = map[string]bool{}, map[string]bool{}
	var ms []fnDecl
	for _, d := range decls {
		if d.pkg == "query" && (d.recv == "ViewMap" || d.recv == "SyncMap") {
			ms = append(ms, d)
			all[d.name] = true
		}
	}
	if len(ms) == 0 {
		die("no methods of ViewMap / SyncMap found")
	}
	for changed := true; changed; {
		changed = false
		for _, d := range ms {
			if mut[d.name] {
				continue
			}
			rn := ""
			if len(d.decl.Recv.List[0].Names) == 1 {
				rn = d.decl.Recv.List[0].Names[0].Name
			}
			hit := false
			ast.Inspect(d.decl.Body, func(x ast.Node) bool {
				c, ok := x.(*ast.CallExpr)
				if !ok {
					return true
				}
				s, ok := c.Fun.(*ast.SelectorExpr)
				if !ok {
					return true
				}
				switch src(s.X) {
				case rn + ".m": // the sync.Map itself
					switch {
					case syncMapWriters[s.Sel.Name]:
						hit = true
					case syncMapReaders[s.Sel.Name]:
					default:
						die("%s: sync.Map method `%s` is not classified", fset.Position(c.Pos()), s.Sel.Name)
					}
				case rn, rn + ".SyncMap":
					if mut[s.Sel.Name] {
						hit = true
					}
				}
				return true
			})
			if hit {
				mut[d.name] = true
				changed = true
			}
		}
	}
	return
}

type site struct {
	fn     fnDecl
	method string
}

// every `.CachedViews` in the tree: the receiver of a direct method call, or the field itself
func cacheSites(decls []fnDecl, mut, all map[string]bool) []site {
	var out []site
	for _, d := range decls {
		var stack []ast.Node
		ast.Inspect(d.decl, func(x ast.Node) bool {
			if x == nil {
				stack = stack[:len(stack)-1]
				return true
			}
			stack = append(stack, x)
			s, ok := x.(*ast.SelectorExpr)
			if !ok || s.Sel.Name != "CachedViews" {
				return true
			}
			// parent must be a selector (method) whose parent is the call
			if len(stack) >= 3 {
				if ps, ok := stack[len(stack)-2].(*ast.SelectorExpr); ok && ps.X == s {
					if pc, ok := stack[len(stack)-3].(*ast.CallExpr); ok && pc.Fun == ps {
						if !all[ps.Sel.Name] {
							die("%s: `%s` is not a method of ViewMap / SyncMap", fset.Position(ps.Pos()), ps.Sel.Name)
						}
						if mut[ps.Sel.Name] {
							out = append(out, site{d, ps.Sel.Name})
						}
						return true
					}
				}
			}
			die("%s: the view cache is used other than as the receiver of a method call (`%s`)", fset.Position(s.Pos()), src(stack[len(stack)-2]))
			return true
		})
	}
	// the composite literal in NewTransaction (`CachedViews: NewViewMap()`) is a KeyValueExpr with an Ident key: not a selector
	return out
}

// names called in a body: functions (plain or package-qualified) and methods (any receiver), by name
var treePkgs = map[string]bool{}

// every statement type Processor.ExecuteStatement dispatches on
var stmtCases []string

func calledNames(d fnDecl) (funcs, methods map[string]bool) {
	funcs, methods = map[string]bool{}, map[string]bool{}
	imports := map[string]bool{}
	for _, im := range d.file.Imports {
		p := strings.Trim(im.Path.Value, "\"")
		n := p[strings.LastIndex(p, "/")+1:]
		if im.Name != nil {
			n = im.Name.Name
		}
		imports[n] = true
	}
	ast.Inspect(d.decl.Body, func(x ast.Node) bool {
		c, ok := x.(*ast.CallExpr)
		if !ok {
			return true
		}
		switch f := c.Fun.(type) {
		case *ast.Ident:
			funcs[f.Name] = true
		case *ast.SelectorExpr:
			if id, ok := f.X.(*ast.Ident); ok && imports[id.Name] {
				if treePkgs[id.Name] { // strings.Replace is not query.Replace
					funcs[f.Sel.Name] = true
				}
			} else {
				methods[f.Sel.Name] = true
			}
		}
		return true
	})
	return
}

func callsAny(d fnDecl, fs, ms map[string]bool) []string {
	cf, cm := calledNames(d)
	var hit []string
	for n := range cf {
		if fs[n] {
			hit = append(hit, n)
		}
	}
	for n := range cm {
		if ms[n] {
			hit = append(hit, n)
		}
	}
	sort.Strings(hit)
	return hit
}

func evictionFacts() (mutators, sites, callers []string, kinds [][2]string) {
	decls := parseTree()
	for _, d := range decls {
		treePkgs[d.pkg] = true
	}
	mut, all := viewMapMutators(decls)
	for n := range mut {
		mutators = append(mutators, n)
	}
	sort.Strings(mutators)

	ss := cacheSites(decls, mut, all)
	holderF, holderM := map[string]bool{}, map[string]bool{}
	for _, s := range ss {
		sites = append(sites, s.fn.label()+":"+s.method)
		if s.fn.recv == "" {
			holderF[s.fn.name] = true
		} else {
			holderM[s.fn.name] = true
		}
	}
	sort.Strings(sites)

	// one level: who calls a function that holds a site
	for _, d := range decls {
		for _, n := range callsAny(d, holderF, holderM) {
			callers = append(callers, d.label()+"->"+n)
		}
	}
	sort.Strings(callers)

	// closure (by name) of the functions from which a site OTHER than the load in cacheViewFromFile is reached;
	// the statement dispatcher itself is looked at case by case instead
	ef, em := map[string]bool{}, map[string]bool{}
	for _, s := range ss {
		if s.fn.name == "cacheViewFromFile" {
			continue
		}
		if s.fn.recv == "" {
			ef[s.fn.name] = true
		} else {
			em[s.fn.name] = true
		}
	}
	var hub *fnDecl
	// ONE round: the holders of a site and the functions that call one of them (names collide too often for more:
	// `Execute`, `Set`, … are methods of unrelated types)
	{
		var addF, addM []string
		for i, d := range decls {
			if d.pkg == "query" && d.recv == "Processor" && d.name == "ExecuteStatement" {
				hub = &decls[i]
				continue
			}
			if (d.recv == "" && ef[d.name]) || (d.recv != "" && em[d.name]) {
				continue
			}
			if h := callsAny(d, ef, em); len(h) > 0 {
				if os.Getenv("CF_DEBUG") != "" {
					println("closure:", d.label(), "<-", strings.Join(h, ","))
				}
				if d.recv == "" {
					addF = append(addF, d.name)
				} else {
					addM = append(addM, d.name)
				}
			}
		}
		for _, n := range addF {
			ef[n] = true
		}
		for _, n := range addM {
			em[n] = true
		}
	}
	if hub == nil {
		die("Processor.ExecuteStatement not found")
	}
	var sw *ast.TypeSwitchStmt
	for _, s := range hub.decl.Body.List {
		if t, ok := s.(*ast.TypeSwitchStmt); ok {
			if sw != nil {
				die("ExecuteStatement: two type switches")
			}
			sw = t
		}
	}
	if sw == nil {
		die("ExecuteStatement: no type switch over the statement")
	}
	// outside the switch the dispatcher must not reach the cache
	for _, s := range hub.decl.Body.List {
		if s == ast.Stmt(sw) {
			continue
		}
		tmp := fnDecl{decl: &ast.FuncDecl{Body: &ast.BlockStmt{List: []ast.Stmt{s}}}, file: hub.file}
		if h := callsAny(tmp, ef, em); len(h) > 0 {
			die("ExecuteStatement: %v reached outside the statement switch", h)
		}
	}
	for _, c := range sw.Body.List {
		cc := c.(*ast.CaseClause)
		var ts []string
		for _, e := range cc.List {
			ts = append(ts, src(e))
		}
		if len(ts) == 0 {
			ts = []string{"default"}
		}
		stmtCases = append(stmtCases, ts...)
		tmp := fnDecl{decl: &ast.FuncDecl{Body: &ast.BlockStmt{List: cc.Body}}, file: hub.file}
		if h := callsAny(tmp, ef, em); len(h) > 0 {
			kinds = append(kinds, [2]string{strings.Join(ts, ","), strings.Join(h, ",")})
		}
	}
	return
}
