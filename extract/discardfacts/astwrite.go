package main

// Assignments of lib/query whose target is reached through a value of a parser.* type.
//
// A syntax-tree node is a struct handed around BY VALUE; its slices (argument lists, clause lists),
// maps and pointers are shared with the stored program.  A write `root.f.g[i].h = v` therefore changes
// the shared tree iff the chain passes an index of a slice/map, a pointer dereference or a selection
// through a pointer ("indirect"); a chain of plain field selections on a local struct variable writes
// the local copy only.  Writes whose root is a local made in the same function by a composite
// literal / make / new / zero declaration, with one step of indirection, go to fresh memory.

import (
	"fmt"
	"go/ast"
	"go/token"
	"go/types"
	"path/filepath"
	"sort"
	"strings"
)

func isParserType(t types.Type, depth int) bool {
	if t == nil || depth > 4 {
		return false
	}
	switch x := t.(type) {
	case *types.Named:
		return x.Obj().Pkg() != nil && x.Obj().Pkg().Path() == parserPkg
	case *types.Pointer:
		return isParserType(x.Elem(), depth+1)
	case *types.Slice:
		return isParserType(x.Elem(), depth+1)
	case *types.Array:
		return isParserType(x.Elem(), depth+1)
	case *types.Map:
		return isParserType(x.Elem(), depth+1) // a map keyed by syntax nodes is a cache about them, not part of a tree
	}
	return false
}

type awfact struct {
	file, fn, lhs string
	line          int
	how           string
}

func genAstWriteFacts() {
	p := loadPkg(filepath.Join(repoRoot(), "lib", "query"), queryPkg)
	var shared, local, cellw []awfact
	for _, f := range p.Files {
		for _, decl := range f.Decls {
			fd, ok := decl.(*ast.FuncDecl)
			if !ok || fd.Body == nil {
				continue
			}
			// locals made fresh in this function: every definition is a composite literal / make / new / zero value
			defs := map[types.Object][]ast.Expr{}
			zero := map[types.Object]bool{}
			ast.Inspect(fd.Body, func(n ast.Node) bool {
				switch x := n.(type) {
				case *ast.AssignStmt:
					for i, l := range x.Lhs {
						id, ok := l.(*ast.Ident)
						if !ok {
							continue
						}
						o := p.Info.Defs[id]
						if o == nil {
							o = p.Info.Uses[id]
						}
						if o == nil {
							continue
						}
						if len(x.Lhs) == len(x.Rhs) {
							defs[o] = append(defs[o], x.Rhs[i])
						} else {
							defs[o] = append(defs[o], nil)
						}
					}
				case *ast.ValueSpec:
					for i, nm := range x.Names {
						o := p.Info.Defs[nm]
						if o == nil {
							continue
						}
						if len(x.Values) == 0 {
							zero[o] = true
						} else if len(x.Values) == len(x.Names) {
							defs[o] = append(defs[o], x.Values[i])
						} else {
							defs[o] = append(defs[o], nil)
						}
					}
				case *ast.RangeStmt:
					for _, l := range []ast.Expr{x.Key, x.Value} {
						if id, ok := l.(*ast.Ident); ok {
							if o := p.Info.Defs[id]; o != nil {
								defs[o] = append(defs[o], nil)
							}
						}
					}
				}
				return true
			})
			var freshLocal func(o types.Object) bool
			// a call of a local function literal whose every result is memory made inside that literal
			freshClosureCall := func(x *ast.CallExpr) bool {
				id, ok := x.Fun.(*ast.Ident)
				if !ok {
					return false
				}
				fo := p.Info.Uses[id]
				if fo == nil || !(fd.Body.Pos() <= fo.Pos() && fo.Pos() < fd.Body.End()) || len(defs[fo]) != 1 {
					return false
				}
				fl, ok := defs[fo][0].(*ast.FuncLit)
				if !ok || fl.Type.Results == nil || fl.Type.Results.NumFields() != 1 {
					return false
				}
				okAll, nret := true, 0
				ast.Inspect(fl.Body, func(n ast.Node) bool {
					if inner, isLit := n.(*ast.FuncLit); isLit && inner != fl {
						return false
					}
					if r, isRet := n.(*ast.ReturnStmt); isRet {
						nret++
						if len(r.Results) != 1 {
							okAll = false
							return true
						}
						switch y := r.Results[0].(type) {
						case *ast.CompositeLit:
						case *ast.Ident:
							ro := p.Info.Uses[y]
							if ro == nil || !(fl.Body.Pos() <= ro.Pos() && ro.Pos() < fl.Body.End()) || !freshLocal(ro) {
								okAll = false
							}
						default:
							okAll = false
						}
					}
					return true
				})
				return okAll && nret > 0
			}
			freshLocal = func(o types.Object) bool {
				if o == nil || !(fd.Body.Pos() <= o.Pos() && o.Pos() < fd.Body.End()) {
					return false
				}
				ds := defs[o]
				if len(ds) == 0 {
					return zero[o]
				}
				for _, d := range ds {
					switch x := d.(type) {
					case *ast.CompositeLit:
					case *ast.UnaryExpr:
						if _, ok := x.X.(*ast.CompositeLit); !ok || x.Op != token.AND {
							return false
						}
					case *ast.CallExpr:
						id, ok := x.Fun.(*ast.Ident)
						if !ok {
							return false
						}
						if b, ok := p.Info.Uses[id].(*types.Builtin); !ok || (b.Name() != "make" && b.Name() != "new") {
							if !freshClosureCall(x) {
								return false
							}
						}
					default:
						return false
					}
				}
				return true
			}
			// fields of a local struct copy that the function re-points to fresh memory:
			//   fn.Args = make(…) / []T{…} / append([]T{…}, …) / append([]T(nil), …)   or   fn.Args = <fresh local>
			isFreshExpr := func(e ast.Expr) bool {
				switch x := e.(type) {
				case *ast.CompositeLit:
					return true
				case *ast.Ident:
					o := p.Info.Uses[x]
					return freshLocal(o)
				case *ast.CallExpr:
					id, ok := x.Fun.(*ast.Ident)
					if !ok {
						return false
					}
					b, ok := p.Info.Uses[id].(*types.Builtin)
					if !ok {
						return false
					}
					switch b.Name() {
					case "make", "new":
						return true
					case "append":
						if len(x.Args) == 0 {
							return false
						}
						switch a0 := x.Args[0].(type) {
						case *ast.CompositeLit:
							return true
						case *ast.CallExpr: // conversion []T(nil)
							if tv, ok := p.Info.Types[a0.Fun]; ok && tv.IsType() && len(a0.Args) == 1 {
								if nid, ok := a0.Args[0].(*ast.Ident); ok && nid.Name == "nil" {
									return true
								}
							}
						case *ast.Ident:
							return freshLocal(p.Info.Uses[a0])
						}
					}
				}
				return false
			}
			type repoint struct {
				path  string
				pos   token.Pos
				block ast.Node
			}
			var repoints []repoint
			par := parents(fd)
			ast.Inspect(fd.Body, func(n ast.Node) bool {
				as, ok := n.(*ast.AssignStmt)
				if !ok || as.Tok != token.ASSIGN || len(as.Lhs) != len(as.Rhs) {
					return true
				}
				for i, l := range as.Lhs {
					if _, isSel := l.(*ast.SelectorExpr); isSel && isFreshExpr(as.Rhs[i]) {
						repoints = append(repoints, repoint{exprText(l), as.End(), par[as]})
					}
				}
				return true
			})
			repointed := func(lhs ast.Expr) bool {
				ix, ok := lhs.(*ast.IndexExpr)
				if !ok {
					return false
				}
				base := exprText(ix.X)
				for _, r := range repoints {
					if r.path != base || r.pos > lhs.Pos() {
						continue
					}
					// the re-pointing statement's block must enclose the write
					for n := ast.Node(lhs); n != nil; n = par[n] {
						if n == r.block {
							return true
						}
					}
				}
				return false
			}
			check := func(lhs ast.Expr) {
				if _, ok := lhs.(*ast.Ident); ok {
					return
				}
				through := false
				indirections := 0
				e := lhs
				var root *ast.Ident
				for e != nil {
					var x ast.Expr
					switch y := e.(type) {
					case *ast.ParenExpr:
						e = y.X
						continue
					case *ast.SelectorExpr:
						if sel := p.Info.Selections[y]; sel == nil {
							// package-qualified identifier: a package-level variable of another package
							e = nil
							continue
						} else if sel.Indirect() {
							indirections++
						} else if tv, ok := p.Info.Types[y.X]; ok {
							if _, isPtr := tv.Type.Underlying().(*types.Pointer); isPtr {
								indirections++
							}
						}
						x = y.X
					case *ast.IndexExpr:
						if tv, ok := p.Info.Types[y.X]; ok {
							switch tv.Type.Underlying().(type) {
							case *types.Slice, *types.Map, *types.Pointer:
								indirections++
							}
						}
						x = y.X
					case *ast.StarExpr:
						indirections++
						x = y.X
					case *ast.Ident:
						root = y
						e = nil
						continue
					case *ast.CallExpr, *ast.TypeAssertExpr:
						// result of a call / assertion: conservatively shared
						indirections++
						if c, ok := y.(*ast.TypeAssertExpr); ok {
							x = c.X
						} else {
							e = nil
							continue
						}
					default:
						fatal("%s: assignment target of an unsupported form: %s", p.at(lhs.Pos()), exprText(lhs))
					}
					if tv, ok := p.Info.Types[x]; ok && isParserType(tv.Type, 0) {
						through = true
					} else if id, ok := x.(*ast.Ident); ok {
						if o := p.Info.Uses[id]; o != nil && isParserType(o.Type(), 0) {
							through = true
						}
					}
					e = x
				}
				if !through {
					return
				}
				fact := awfact{file: p.base(lhs.Pos()), fn: funcLabel(fd), lhs: exprText(lhs), line: p.line(lhs.Pos())}
				var ro types.Object
				if root != nil {
					ro = p.Info.Uses[root]
					if ro == nil {
						ro = p.Info.Defs[root]
					}
				}
				switch {
				case indirections == 0:
					fact.how = "field of a local struct copy"
					local = append(local, fact)
				case indirections == 1 && repointed(lhs):
					fact.how = "element of a field of a local struct copy that this function re-pointed to fresh memory"
					local = append(local, fact)
				case indirections == 1 && freshLocal(ro):
					fact.how = "memory made in this function (composite literal / make / new)"
					local = append(local, fact)
				default:
					fact.how = fmt.Sprintf("%d indirection(s) from %s", indirections, func() string {
						if root != nil {
							return root.Name
						}
						return "a call result"
					}())
					shared = append(shared, fact)
				}
			}
			// writes INTO an existing cell: `…[i] = v` where the indexed thing is a query.Cell that this function did
			// not make itself.  Cells are shared by every shallow copy of a table (View.Copy, Record.Copy, cursors,
			// temporary views, the restore point of a transaction): a new value must come as a new cell (NewCell).
			checkCell := func(lhs ast.Expr) {
				ix, ok := lhs.(*ast.IndexExpr)
				if !ok {
					return
				}
				tv, ok := p.Info.Types[ix.X]
				if !ok || namedTypeName(tv.Type) != queryPkg+".Cell" {
					return
				}
				if id, ok := ix.X.(*ast.Ident); ok && freshLocal(p.Info.Uses[id]) {
					return
				}
				cellw = append(cellw, awfact{file: p.base(lhs.Pos()), fn: funcLabel(fd), lhs: exprText(lhs), line: p.line(lhs.Pos()), how: "element of an existing cell assigned"})
			}
			ast.Inspect(fd.Body, func(n ast.Node) bool {
				switch x := n.(type) {
				case *ast.AssignStmt:
					for _, l := range x.Lhs {
						check(l)
						checkCell(l)
					}
				case *ast.IncDecStmt:
					check(x.X)
					checkCell(x.X)
				case *ast.CompositeLit:
					// RecordSet{liveRecord}: a new view over a record of an existing table without copying it — what the
					// view does in place (Fix, Select, ExtendRecordCapacity …) then happens to the table's own record
					if tv, ok := p.Info.Types[x]; ok {
						isRS := namedTypeName(tv.Type) == queryPkg+".RecordSet"
						if sl, ok := tv.Type.Underlying().(*types.Slice); ok && namedTypeName(sl.Elem()) == queryPkg+".Record" {
							isRS = true
						}
						if isRS {
							for _, el := range x.Elts {
								if kv, ok := el.(*ast.KeyValueExpr); ok {
									el = kv.Value
								}
								switch y := el.(type) {
								case *ast.CallExpr, *ast.CompositeLit:
									continue // Copy(), NewRecord(…), NewEmptyRecord(…), a literal record: new memory
								case *ast.Ident:
									if y.Name == "nil" || freshLocal(p.Info.Uses[y]) {
										continue
									}
								}
								cellw = append(cellw, awfact{file: p.base(x.Pos()), fn: funcLabel(fd), lhs: exprText(x), line: p.line(x.Pos()),
									how: "a record of an existing table is placed in a new record set without a copy"})
								break
							}
						}
					}
				case *ast.CallExpr:
					// in-place bulk writes: copy(dst, …) and sort.*(x) on a slice of syntax nodes
					argIsTree := func(e ast.Expr) bool {
						tv, ok := p.Info.Types[e]
						if !ok || !isParserType(tv.Type, 0) {
							return false
						}
						if id, ok := e.(*ast.Ident); ok {
							o := p.Info.Uses[id]
							return !freshLocal(o)
						}
						// a field this function re-pointed to fresh memory (x.f = make(…); copy(x.f, …)) in a block
						// that encloses the call: the bulk write goes into that fresh memory
						if _, isSel := e.(*ast.SelectorExpr); isSel {
							base := exprText(e)
							for _, r := range repoints {
								if r.path != base || r.pos > e.Pos() {
									continue
								}
								for n := ast.Node(e); n != nil; n = par[n] {
									if n == r.block {
										return false
									}
								}
							}
						}
						return true
					}
					if id, ok := x.Fun.(*ast.Ident); ok {
						if b, ok := p.Info.Uses[id].(*types.Builtin); ok && b.Name() == "copy" && len(x.Args) == 2 && argIsTree(x.Args[0]) {
							shared = append(shared, awfact{file: p.base(x.Pos()), fn: funcLabel(fd), lhs: exprText(x), line: p.line(x.Pos()), how: "copy into a slice of syntax nodes"})
						}
					}
					if sel, ok := x.Fun.(*ast.SelectorExpr); ok {
						if pid, ok := sel.X.(*ast.Ident); ok {
							if pn, ok := p.Info.Uses[pid].(*types.PkgName); ok && (pn.Imported().Path() == "sort" || pn.Imported().Path() == "slices") {
								for _, a := range x.Args {
									if argIsTree(a) {
										shared = append(shared, awfact{file: p.base(x.Pos()), fn: funcLabel(fd), lhs: exprText(x), line: p.line(x.Pos()), how: "in-place " + pn.Imported().Path() + " of a slice of syntax nodes"})
									}
								}
							}
						}
					}
				case *ast.RangeStmt:
					if x.Tok == token.ASSIGN {
						if x.Key != nil {
							check(x.Key)
						}
						if x.Value != nil {
							check(x.Value)
						}
					}
				}
				return true
			})
		}
	}
	emit := func(o *strings.Builder, name string, fs []awfact) {
		sort.SliceStable(fs, func(i, j int) bool {
			if fs[i].file != fs[j].file {
				return fs[i].file < fs[j].file
			}
			return fs[i].line < fs[j].line
		})
		fmt.Fprintf(o, "def %s : List AstWriteFact := [\n", name)
		for i, f := range fs {
			sep := ","
			if i == len(fs)-1 {
				sep = ""
			}
			fmt.Fprintf(o, "  ⟨%s, %d, %s, %s, %s⟩%s\n", leanStr(f.file), f.line, leanStr(f.fn), leanStr(f.lhs), leanStr(f.how), sep)
		}
		o.WriteString("]\n\n")
	}
	var o strings.Builder
	o.WriteString("-- GENERATED by /verif/extract/discardfacts (mode astwritefacts) from lib/query — do not edit.\n")
	o.WriteString("-- astWriteFacts: assignments that write, through a parser.* value, into memory shared with the stored\n")
	o.WriteString("-- program (slice element / map element / through a pointer).  astLocalWrites: assignments through a\n")
	o.WriteString("-- parser.* value that stay in a local struct copy or in memory made in the same function.\n")
	o.WriteString("import Csvq.Model.Pool\n\nnamespace Csvq.Gen\nopen Csvq.Pool\n\n")
	emit(&o, "astWriteFacts", shared)
	emit(&o, "astLocalWrites", local)
	o.WriteString("-- cellWriteFacts: assignments into an element of an existing query.Cell (cells are shared between a cached\n")
	o.WriteString("-- table and its shallow copies).  doubleCloseFacts: a scope block / node handed back to its pool by a\n")
	o.WriteString("-- deferred Close in a function AND in a callee that receives the same scope.\n")
	emit(&o, "cellWriteFacts", cellw)
	emit(&o, "doubleCloseFacts", doubleClose(p))
	o.WriteString("-- getterFacts: what the Get* accessors that hand out a stored view (inline tables, temporary tables, cached\n")
	o.WriteString("-- file views, stdin views) return; lhs = the returned expression, how = copy / delegated to another Get* / STORED.\n")
	emit(&o, "getterFacts", getterFacts(p))
	o.WriteString("end Csvq.Gen\n")
	fmt.Print(o.String())
}

func namedTypeName(t types.Type) string {
	if n, ok := t.(*types.Named); ok && n.Obj().Pkg() != nil {
		return n.Obj().Pkg().Path() + "." + n.Obj().Name()
	}
	return ""
}

var closeMethods = map[string]bool{"CloseCurrentBlock": true, "CloseCurrentNode": true}

// doubleClose: functions that close (hand back to the pool) the current block / node of a scope variable and
// also pass that same scope to a callee that closes it (directly, deferred or not).
func doubleClose(p *Pkg) []awfact {
	type closer struct {
		recv   bool
		params map[int]bool
	}
	decls := map[types.Object]*ast.FuncDecl{}
	closers := map[types.Object]map[string]closer{} // function → close method → which inputs it closes
	closedVars := func(fd *ast.FuncDecl) map[string]map[types.Object]token.Pos {
		out := map[string]map[types.Object]token.Pos{}
		ast.Inspect(fd.Body, func(n ast.Node) bool {
			c, ok := n.(*ast.CallExpr)
			if !ok {
				return true
			}
			sel, ok := c.Fun.(*ast.SelectorExpr)
			if !ok || !closeMethods[sel.Sel.Name] {
				return true
			}
			if id, ok := sel.X.(*ast.Ident); ok {
				if o := p.Info.Uses[id]; o != nil {
					if out[sel.Sel.Name] == nil {
						out[sel.Sel.Name] = map[types.Object]token.Pos{}
					}
					out[sel.Sel.Name][o] = c.Pos()
				}
			}
			return true
		})
		return out
	}
	for _, f := range p.Files {
		for _, d := range f.Decls {
			fd, ok := d.(*ast.FuncDecl)
			if !ok || fd.Body == nil {
				continue
			}
			fo := p.Info.Defs[fd.Name]
			decls[fo] = fd
			cv := closedVars(fd)
			for m, vars := range cv {
				cl := closer{params: map[int]bool{}}
				if fd.Recv != nil && len(fd.Recv.List[0].Names) == 1 {
					if _, ok := vars[p.Info.Defs[fd.Recv.List[0].Names[0]]]; ok {
						cl.recv = true
					}
				}
				k := 0
				for _, fld := range fd.Type.Params.List {
					for _, nm := range fld.Names {
						if _, ok := vars[p.Info.Defs[nm]]; ok {
							cl.params[k] = true
						}
						k++
					}
				}
				if cl.recv || len(cl.params) > 0 {
					if closers[fo] == nil {
						closers[fo] = map[string]closer{}
					}
					closers[fo][m] = cl
				}
			}
		}
	}
	var out []awfact
	for _, f := range p.Files {
		for _, d := range f.Decls {
			fd, ok := d.(*ast.FuncDecl)
			if !ok || fd.Body == nil {
				continue
			}
			cv := closedVars(fd)
			if len(cv) == 0 {
				continue
			}
			ast.Inspect(fd.Body, func(n ast.Node) bool {
				c, ok := n.(*ast.CallExpr)
				if !ok {
					return true
				}
				var callee types.Object
				var recvExpr ast.Expr
				switch fn := c.Fun.(type) {
				case *ast.Ident:
					callee = p.Info.Uses[fn]
				case *ast.SelectorExpr:
					callee = p.Info.Uses[fn.Sel]
					recvExpr = fn.X
				}
				cls, ok := closers[callee]
				if !ok {
					return true
				}
				for m, cl := range cls {
					mine := cv[m]
					hit := func(e ast.Expr) bool {
						id, ok := e.(*ast.Ident)
						if !ok {
							return false
						}
						_, closedHere := mine[p.Info.Uses[id]]
						return closedHere
					}
					if cl.recv && recvExpr != nil && hit(recvExpr) {
						out = append(out, awfact{file: p.base(c.Pos()), fn: funcLabel(fd), lhs: exprText(recvExpr) + "." + m, line: p.line(c.Pos()), how: "also closed by the callee " + exprText(c.Fun)})
					}
					for i, a := range c.Args {
						if cl.params[i] && hit(a) {
							out = append(out, awfact{file: p.base(c.Pos()), fn: funcLabel(fd), lhs: exprText(a) + "." + m, line: p.line(c.Pos()), how: "also closed by the callee " + exprText(c.Fun)})
						}
					}
				}
				return true
			})
		}
	}
	return out
}

// getterFacts: every function or method Get* of lib/query whose first result is *View.  A stored view must
// leave its container as a copy (view.Copy(): own record set, own records), because evaluation filters,
// sorts, projects and extends the records of the view it works on in place.  Each non-nil returned expression
// is classified: "copy" (x.Copy(), or a local defined only by that), "delegated" (the result of another Get*
// accessor), anything else "STORED".
func getterFacts(p *Pkg) []awfact {
	var out []awfact
	isViewPtr := func(t types.Type) bool {
		pt, ok := t.(*types.Pointer)
		return ok && namedTypeName(pt.Elem()) == queryPkg+".View"
	}
	for _, f := range p.Files {
		for _, d := range f.Decls {
			fd, ok := d.(*ast.FuncDecl)
			if !ok || fd.Body == nil || !strings.HasPrefix(fd.Name.Name, "Get") || fd.Type.Results == nil || len(fd.Type.Results.List) == 0 {
				continue
			}
			tv, ok := p.Info.Types[fd.Type.Results.List[0].Type]
			if !ok || !isViewPtr(tv.Type) {
				continue
			}
			defs := map[types.Object][]ast.Expr{}
			note := func(id *ast.Ident, rhs ast.Expr) {
				o := p.Info.Defs[id]
				if o == nil {
					o = p.Info.Uses[id]
				}
				if o != nil {
					defs[o] = append(defs[o], rhs)
				}
			}
			ast.Inspect(fd.Body, func(n ast.Node) bool {
				if as, ok := n.(*ast.AssignStmt); ok {
					if len(as.Lhs) == len(as.Rhs) {
						for i, l := range as.Lhs {
							if id, ok := l.(*ast.Ident); ok {
								note(id, as.Rhs[i])
							}
						}
					} else if len(as.Rhs) == 1 { // v, err := f()
						if id, ok := as.Lhs[0].(*ast.Ident); ok {
							note(id, as.Rhs[0])
						}
					}
				}
				return true
			})
			var classify func(e ast.Expr, depth int) string
			classify = func(e ast.Expr, depth int) string {
				if depth > 3 {
					return "STORED"
				}
				switch x := e.(type) {
				case *ast.ParenExpr:
					return classify(x.X, depth)
				case *ast.CallExpr:
					name := ""
					switch fn := x.Fun.(type) {
					case *ast.SelectorExpr:
						name = fn.Sel.Name
					case *ast.Ident:
						name = fn.Name
					}
					if name == "Copy" {
						return "copy"
					}
					if strings.HasPrefix(name, "Get") {
						return "delegated"
					}
					if strings.HasPrefix(name, "load") || strings.HasPrefix(name, "Load") || strings.HasPrefix(name, "New") {
						return "copy" // freshly built from a file / constructor
					}
					return "STORED"
				case *ast.Ident:
					if x.Name == "nil" {
						return ""
					}
					o := p.Info.Uses[x]
					ds := defs[o]
					if len(ds) == 0 {
						return "STORED"
					}
					res := ""
					for _, dd := range ds {
						c := classify(dd, depth+1)
						if c == "STORED" {
							return "STORED"
						}
						if c != "" {
							res = c
						}
					}
					return res
				}
				return "STORED"
			}
			named := ""
			if len(fd.Type.Results.List[0].Names) > 0 {
				named = fd.Type.Results.List[0].Names[0].Name
			}
			ast.Inspect(fd.Body, func(n ast.Node) bool {
				if _, isLit := n.(*ast.FuncLit); isLit {
					return false
				}
				r, ok := n.(*ast.ReturnStmt)
				if !ok {
					return true
				}
				var e ast.Expr
				if len(r.Results) > 0 {
					e = r.Results[0]
				} else if named != "" {
					// naked return: the named result
					var obj types.Object = p.Info.Defs[fd.Type.Results.List[0].Names[0]]
					res := ""
					for _, dd := range defs[obj] {
						c := classify(dd, 1)
						if c == "STORED" {
							res = "STORED"
							break
						}
						if c != "" {
							res = c
						}
					}
					if res != "" {
						out = append(out, awfact{file: p.base(r.Pos()), fn: funcLabel(fd), lhs: named, line: p.line(r.Pos()), how: res})
					}
					return true
				}
				if e == nil {
					return true
				}
				if c := classify(e, 0); c != "" {
					out = append(out, awfact{file: p.base(r.Pos()), fn: funcLabel(fd), lhs: exprText(e), line: p.line(r.Pos()), how: c})
				}
				return true
			})
		}
	}
	return out
}
