package main

// Mode listwritefacts — generator of lean/Csvq/Gen/ListWriteFacts.lean (property C14).
//
// "A function that receives a value list it does not own never writes into it."
//
// A VALUE LIST is a Go slice whose elements are value.Primary or value lists themselves: []value.Primary, Cell,
// Record (= []Cell), RecordSet (= []Record), [][]value.Primary, []RecordSet …  For every function and method of
// lib/query and lib/value with a parameter (or receiver) of such a type the extractor lists every WRITE THROUGH
// that parameter:
//
//	index          p[i] = …, p[i][j] = …          (also through locals derived from p: q := p[a:b], c := p[i], for _, r := range p)
//	copy           copy(p[…], …)
//	appendInPlace  append(q, …) where q is derived from p through a re-slice with an upper bound (p[:0], p[:k]): the
//	               appended elements overwrite p's own elements
//	appendBeyond   append(p, …): writes behind len(p) into the backing array when cap(p) allows
//	sort           sort.Sort / sort.Stable / sort.Slice / sort.SliceStable on it
//	via:<callee>   p (or a list derived from it) handed to a callee that writes through its own parameter (propagated
//	               to a fixed point, by declared function; calls of function values and interface methods resolve to
//	               every declared function / method of identical signature)
//	extern:<f>     handed to a function outside lib/query / lib/value that is not known to be read-only
//
// and classifies the parameter `writesInPlace` / `freshCopyFirst` (no write through the parameter; the function
// fills a list it made itself) / `reads`.  For every CALL of an in-place writer the origin of the argument is
// given: `fresh` (made in the caller: make / composite literal / append to such / result of a function that
// returns only lists it made or its own fresh arguments), `ownParam` (derived from the caller's own value-list
// parameter: the caller is then an in-place writer itself and its callers carry the obligation), `cell` (reached
// through a RecordSet: a table's / view's own record or cell), `field` (a field of a struct), `unknown`.
//
// Ownership is tracked for the list itself (the outermost slice); stores into the elements of an existing cell are
// the subject of cellWriteFacts (mode astwritefacts).  Flow-insensitive, conservative; a construct without a rule
// is reported as a write / as not fresh.

import (
	"fmt"
	"go/ast"
	"go/token"
	"go/types"
	"path/filepath"
	"sort"
	"strings"
)

type lwWrite struct {
	line       int
	kind, text string
}

type lwParam struct {
	v       *types.Var
	idx     int // index among the parameters, -1 = receiver
	derived map[types.Object]bool
	short   map[types.Object]bool
	writes  []lwWrite
}

type lwDef struct {
	rhs     ast.Expr // nil: zero value
	rangeOf ast.Expr // defined as the element variable of `range rangeOf`
	multi   bool     // one of several results of rhs (a call)
	key     bool     // the key variable of a range
}

type lwFunc struct {
	p        *Pkg
	pkgShort string
	fd       *ast.FuncDecl
	key      string
	obj      *types.Func
	sig      *types.Signature
	all      []*types.Var // parameters in order
	lists    []*lwParam
	defs     map[types.Object][]lwDef
	retAlias map[int]bool
	retOther string   // "" or why a list result is neither made here nor a parameter
	makes    bool     // writes into a list made in the function
	foreign  []lwCall // writes through a local list that is neither made here nor derived from a parameter
}

type lwCall struct {
	file           string
	line           int
	caller, callee string
	param, arg     string
	origin, detail string
}

type lwWorld struct {
	funcs  []*lwFunc
	byObj  map[*types.Func]*lwFunc
	byName map[string][]*lwFunc // "func" (functions) / "method:"+name (methods)
	byFull map[string]*lwFunc   // types.Func.FullName(): the value package seen from lib/query is another types.Package
}

func isPrimaryType(t types.Type) bool {
	n, ok := t.(*types.Named)
	return ok && n.Obj().Pkg() != nil && n.Obj().Pkg().Path() == valuePkg && n.Obj().Name() == "Primary"
}

func isListType(t types.Type) bool {
	if t == nil {
		return false
	}
	s, ok := t.Underlying().(*types.Slice)
	if !ok {
		return false
	}
	return isPrimaryType(s.Elem()) || isListType(s.Elem())
}

// functions outside the analysed packages that only read a list they are given
var lwPureExtern = map[string]bool{"len": true, "cap": true, "fmt.Sprintf": true, "fmt.Sprint": true, "fmt.Errorf": true, "reflect.DeepEqual": true}

func (w *lwWorld) load() {
	w.byObj = map[*types.Func]*lwFunc{}
	w.byName = map[string][]*lwFunc{}
	w.byFull = map[string]*lwFunc{}
	for _, pk := range []struct{ dir, path string }{{"query", queryPkg}, {"value", valuePkg}} {
		p := loadPkg(filepath.Join(repoRoot(), "lib", pk.dir), pk.path)
		for _, f := range p.Files {
			for _, decl := range f.Decls {
				fd, ok := decl.(*ast.FuncDecl)
				if !ok || fd.Body == nil {
					continue
				}
				obj, _ := p.Info.Defs[fd.Name].(*types.Func)
				if obj == nil {
					fatal("no object for %s", fd.Name.Name)
				}
				lf := &lwFunc{p: p, pkgShort: pk.dir, fd: fd, key: pk.dir + "." + funcLabel(fd), obj: obj, sig: obj.Type().(*types.Signature), retAlias: map[int]bool{}}
				if r := lf.sig.Recv(); r != nil && isListType(r.Type()) {
					if len(fd.Recv.List[0].Names) == 1 {
						if v, ok := p.Info.Defs[fd.Recv.List[0].Names[0]].(*types.Var); ok {
							lf.lists = append(lf.lists, &lwParam{v: v, idx: -1})
						}
					}
				}
				for _, fld := range fd.Type.Params.List {
					if len(fld.Names) == 0 {
						lf.all = append(lf.all, nil)
						continue
					}
					for _, nm := range fld.Names {
						v, _ := p.Info.Defs[nm].(*types.Var)
						lf.all = append(lf.all, v)
						if v != nil && isListType(v.Type()) {
							lf.lists = append(lf.lists, &lwParam{v: v, idx: len(lf.all) - 1})
						}
					}
				}
				lf.collectDefs()
				w.funcs = append(w.funcs, lf)
				w.byObj[obj] = lf
				w.byFull[obj.FullName()] = lf
				if lf.sig.Recv() == nil {
					w.byName["func"] = append(w.byName["func"], lf)
				} else {
					w.byName["method:"+fd.Name.Name] = append(w.byName["method:"+fd.Name.Name], lf)
				}
			}
		}
	}
	if len(w.funcs) < 500 {
		fatal("listwritefacts: only %d functions found", len(w.funcs))
	}
}

func (f *lwFunc) objOf(id *ast.Ident) types.Object {
	if o := f.p.Info.Defs[id]; o != nil {
		return o
	}
	return f.p.Info.Uses[id]
}

func (f *lwFunc) collectDefs() {
	f.defs = map[types.Object][]lwDef{}
	ast.Inspect(f.fd.Body, func(n ast.Node) bool {
		switch x := n.(type) {
		case *ast.AssignStmt:
			for i, l := range x.Lhs {
				id, ok := l.(*ast.Ident)
				if !ok || id.Name == "_" {
					continue
				}
				o := f.objOf(id)
				if o == nil {
					continue
				}
				if len(x.Lhs) == len(x.Rhs) {
					f.defs[o] = append(f.defs[o], lwDef{rhs: x.Rhs[i]})
				} else {
					f.defs[o] = append(f.defs[o], lwDef{rhs: x.Rhs[0], multi: true})
				}
			}
		case *ast.ValueSpec:
			for i, nm := range x.Names {
				o := f.p.Info.Defs[nm]
				if o == nil {
					continue
				}
				switch {
				case len(x.Values) == 0:
					f.defs[o] = append(f.defs[o], lwDef{})
				case len(x.Values) == len(x.Names):
					f.defs[o] = append(f.defs[o], lwDef{rhs: x.Values[i]})
				default:
					f.defs[o] = append(f.defs[o], lwDef{rhs: x.Values[0], multi: true})
				}
			}
		case *ast.RangeStmt:
			if id, ok := x.Key.(*ast.Ident); ok && id.Name != "_" {
				if o := f.objOf(id); o != nil {
					f.defs[o] = append(f.defs[o], lwDef{rangeOf: x.X, key: true})
				}
			}
			if id, ok := x.Value.(*ast.Ident); ok && id.Name != "_" {
				if o := f.objOf(id); o != nil {
					f.defs[o] = append(f.defs[o], lwDef{rangeOf: x.X})
				}
			}
		}
		return true
	})
}

// isLocal: declared inside the body (not a parameter, not a named result, not package level)
func (f *lwFunc) isLocal(o types.Object) bool {
	return o != nil && f.fd.Body.Pos() <= o.Pos() && o.Pos() < f.fd.Body.End()
}

type lwCallee struct {
	known  []*lwFunc // declared functions this call may run
	extern string    // name of a function outside the analysed packages ("" if none)
	conv   bool      // a type conversion
	bname  string    // builtin name
}

func (w *lwWorld) resolve(f *lwFunc, c *ast.CallExpr) lwCallee {
	if tv, ok := f.p.Info.Types[c.Fun]; ok && tv.IsType() {
		return lwCallee{conv: true}
	}
	var id *ast.Ident
	switch fn := c.Fun.(type) {
	case *ast.Ident:
		id = fn
	case *ast.SelectorExpr:
		id = fn.Sel
	case *ast.ParenExpr:
		if tv, ok := f.p.Info.Types[fn.X]; ok && tv.IsType() {
			return lwCallee{conv: true}
		}
	}
	if id != nil {
		switch o := f.p.Info.Uses[id].(type) {
		case *types.Builtin:
			return lwCallee{bname: o.Name()}
		case *types.Func:
			if lf := w.byObj[o]; lf != nil {
				return lwCallee{known: []*lwFunc{lf}}
			}
			if lf := w.byFull[o.FullName()]; lf != nil {
				return lwCallee{known: []*lwFunc{lf}}
			}
			sig := o.Type().(*types.Signature)
			if sig.Recv() != nil {
				if _, isIface := sig.Recv().Type().Underlying().(*types.Interface); isIface {
					var cands []*lwFunc
					for _, m := range w.byName["method:"+o.Name()] {
						if lwSameParams(m.sig, sig) {
							cands = append(cands, m)
						}
					}
					return lwCallee{known: cands, extern: "interface." + o.Name()}
				}
			}
			name := o.Name()
			if o.Pkg() != nil {
				name = o.Pkg().Name() + "." + name
			}
			if sig.Recv() != nil {
				name = "(" + types.TypeString(sig.Recv().Type(), func(p *types.Package) string { return p.Name() }) + ")." + o.Name()
			}
			return lwCallee{extern: name}
		}
	}
	// a function value: every declared function of identical signature may be behind it
	if tv, ok := f.p.Info.Types[c.Fun]; ok {
		if sig, ok := tv.Type.Underlying().(*types.Signature); ok {
			var cands []*lwFunc
			for _, m := range w.byName["func"] {
				if lwSameParams(m.sig, sig) {
					cands = append(cands, m)
				}
			}
			return lwCallee{known: cands, extern: "funcvalue:" + exprText(c.Fun)}
		}
	}
	return lwCallee{extern: "?" + exprText(c.Fun)}
}

func lwSameParams(a, b *types.Signature) bool {
	if a.Params().Len() != b.Params().Len() || a.Results().Len() != b.Results().Len() || a.Variadic() != b.Variadic() {
		return false
	}
	for i := 0; i < a.Params().Len(); i++ {
		if !types.Identical(a.Params().At(i).Type(), b.Params().At(i).Type()) {
			return false
		}
	}
	for i := 0; i < a.Results().Len(); i++ {
		if !types.Identical(a.Results().At(i).Type(), b.Results().At(i).Type()) {
			return false
		}
	}
	return true
}

// argument expression of parameter idx (-1: receiver) at a call
func lwArg(c *ast.CallExpr, idx int, nparams int, variadic bool) []ast.Expr {
	if idx == -1 {
		if s, ok := c.Fun.(*ast.SelectorExpr); ok {
			return []ast.Expr{s.X}
		}
		return nil
	}
	if variadic && idx == nparams-1 {
		if idx < len(c.Args) {
			return c.Args[idx:]
		}
		return nil
	}
	if idx < len(c.Args) {
		return []ast.Expr{c.Args[idx]}
	}
	return nil
}

// derivedExpr: may the value of e share its backing array with (a list reachable from) the parameter?
func (w *lwWorld) derivedExpr(f *lwFunc, lp *lwParam, e ast.Expr) (bool, bool) {
	switch x := e.(type) {
	case *ast.Ident:
		o := f.objOf(x)
		if o == nil {
			return false, false
		}
		if o == types.Object(lp.v) {
			return true, false
		}
		return lp.derived[o], lp.short[o]
	case *ast.ParenExpr:
		return w.derivedExpr(f, lp, x.X)
	case *ast.IndexExpr:
		d, _ := w.derivedExpr(f, lp, x.X)
		return d, false
	case *ast.SliceExpr:
		d, s := w.derivedExpr(f, lp, x.X)
		return d, d && (s || x.High != nil)
	case *ast.CompositeLit:
		for _, el := range x.Elts {
			if kv, ok := el.(*ast.KeyValueExpr); ok {
				el = kv.Value
			}
			if tv, ok := f.p.Info.Types[el]; ok && isListType(tv.Type) {
				if d, _ := w.derivedExpr(f, lp, el); d {
					return true, false
				}
			}
		}
		return false, false
	case *ast.CallExpr:
		ce := w.resolve(f, x)
		switch {
		case ce.conv:
			if len(x.Args) == 1 {
				return w.derivedExpr(f, lp, x.Args[0])
			}
		case ce.bname == "append":
			if len(x.Args) > 0 {
				return w.derivedExpr(f, lp, x.Args[0])
			}
		case ce.bname != "":
			return false, false
		default:
			for _, cf := range ce.known {
				for k := range cf.retAlias {
					for _, a := range lwArg(x, k, len(cf.all), cf.sig.Variadic()) {
						if d, s := w.derivedExpr(f, lp, a); d {
							return true, s
						}
					}
				}
			}
			if len(ce.known) == 0 && ce.extern != "" {
				// unknown callee returning a value list: assume it hands back what it was given
				if tv, ok := f.p.Info.Types[e]; ok && lwHasListResult(tv.Type) {
					for _, a := range x.Args {
						if d, s := w.derivedExpr(f, lp, a); d {
							return true, s
						}
					}
				}
			}
		}
	}
	return false, false
}

func lwHasListResult(t types.Type) bool {
	if tu, ok := t.(*types.Tuple); ok {
		for i := 0; i < tu.Len(); i++ {
			if isListType(tu.At(i).Type()) {
				return true
			}
		}
		return false
	}
	return isListType(t)
}

func (w *lwWorld) computeDerived(f *lwFunc, lp *lwParam) bool {
	changed := false
	if lp.derived == nil {
		lp.derived = map[types.Object]bool{}
		lp.short = map[types.Object]bool{}
	}
	for again := true; again; {
		again = false
		for o, ds := range f.defs {
			if !isListType(o.Type()) {
				continue
			}
			for _, d := range ds {
				var der, sh bool
				switch {
				case d.key:
				case d.rangeOf != nil:
					der, _ = w.derivedExpr(f, lp, d.rangeOf)
				case d.rhs != nil:
					der, sh = w.derivedExpr(f, lp, d.rhs)
				}
				if der && !lp.derived[o] {
					lp.derived[o] = true
					again, changed = true, true
				}
				if der && sh && !lp.short[o] {
					lp.short[o] = true
					again, changed = true, true
				}
			}
		}
	}
	return changed
}

// freshExpr: the list is made in this function (nobody else can hold it)
func (w *lwWorld) freshExpr(f *lwFunc, e ast.Expr, visiting map[types.Object]bool) bool {
	switch x := e.(type) {
	case nil:
		return true
	case *ast.Ident:
		if x.Name == "nil" {
			return true
		}
		o := f.objOf(x)
		if !f.isLocal(o) {
			return false
		}
		if visiting[o] {
			return true
		}
		ds, ok := f.defs[o]
		if !ok {
			return false
		}
		visiting[o] = true
		defer delete(visiting, o)
		for _, d := range ds {
			switch {
			case d.rangeOf != nil:
				return false
			case d.rhs == nil:
			default:
				if !w.freshExpr(f, d.rhs, visiting) {
					return false
				}
			}
		}
		return true
	case *ast.ParenExpr:
		return w.freshExpr(f, x.X, visiting)
	case *ast.SliceExpr:
		return w.freshExpr(f, x.X, visiting)
	case *ast.CompositeLit:
		return true
	case *ast.TypeAssertExpr:
		// pool.Get().(Record): a sync.Pool hands an object to one taker (the free-list model of Csvq/Model/Pool.lean)
		if c, ok := x.X.(*ast.CallExpr); ok && w.resolve(f, c).extern == "(*sync.Pool).Get" {
			return true
		}
		return false
	case *ast.CallExpr:
		ce := w.resolve(f, x)
		switch {
		case ce.conv:
			return len(x.Args) == 1 && w.freshExpr(f, x.Args[0], visiting)
		case ce.bname == "make":
			return true
		case ce.bname == "append":
			return len(x.Args) > 0 && w.freshExpr(f, x.Args[0], visiting)
		case ce.bname != "":
			return false
		case len(ce.known) == 0:
			return false
		}
		for _, cf := range ce.known {
			if cf.retOther != "" {
				return false
			}
			for k := range cf.retAlias {
				for _, a := range lwArg(x, k, len(cf.all), cf.sig.Variadic()) {
					if !w.freshExpr(f, a, visiting) {
						return false
					}
				}
			}
		}
		return true
	}
	return false
}

// the return summary of a function: which parameters a list result may alias, and whether a list result can be a
// list that is neither made in the function nor one of its parameters
func (w *lwWorld) computeReturns(f *lwFunc) bool {
	res := f.sig.Results()
	var listRes []int
	for i := 0; i < res.Len(); i++ {
		if isListType(res.At(i).Type()) {
			listRes = append(listRes, i)
		}
	}
	if len(listRes) == 0 {
		return false
	}
	changed := false
	classify := func(e ast.Expr, pos token.Pos) {
		if w.freshExpr(f, e, map[types.Object]bool{}) {
			return
		}
		found := false
		for _, lp := range f.lists {
			if d, _ := w.derivedExpr(f, lp, e); d {
				found = true
				if !f.retAlias[lp.idx] {
					f.retAlias[lp.idx] = true
					changed = true
				}
			}
		}
		if !found && f.retOther == "" {
			f.retOther = fmt.Sprintf("%s returns %s", f.p.at(pos), exprText(e))
			changed = true
		}
	}
	var walk func(n ast.Node)
	walk = func(n ast.Node) {
		ast.Inspect(n, func(n ast.Node) bool {
			if _, ok := n.(*ast.FuncLit); ok {
				return false
			}
			r, ok := n.(*ast.ReturnStmt)
			if !ok {
				return true
			}
			switch {
			case len(r.Results) == 0:
				for _, i := range listRes {
					if v := res.At(i); v.Name() != "" && v.Name() != "_" {
						id := &ast.Ident{Name: v.Name(), NamePos: v.Pos()}
						f.p.Info.Uses[id] = v
						classify(id, r.Pos())
					}
				}
			case len(r.Results) == res.Len():
				for _, i := range listRes {
					classify(r.Results[i], r.Pos())
				}
			default: // return g(…)
				classify(r.Results[0], r.Pos())
			}
			return true
		})
	}
	walk(f.fd.Body)
	return changed
}

func (w *lwWorld) addWrite(lp *lwParam, f *lwFunc, pos token.Pos, kind, text string) bool {
	wr := lwWrite{f.p.line(pos), kind, text}
	for _, o := range lp.writes {
		if o == wr {
			return false
		}
	}
	lp.writes = append(lp.writes, wr)
	return true
}

// a write whose target is not derived from a parameter: into a list made here (fine), or through a local that holds
// somebody else's list (a cell, a field, a callee's non-fresh result)
func (w *lwWorld) otherWrite(f *lwFunc, base ast.Expr, pos token.Pos, kind, text string) {
	root := base
	for {
		switch y := root.(type) {
		case *ast.ParenExpr:
			root = y.X
			continue
		case *ast.IndexExpr:
			root = y.X
			continue
		case *ast.SliceExpr:
			root = y.X
			continue
		}
		break
	}
	id, ok := root.(*ast.Ident)
	if !ok || !f.isLocal(f.objOf(id)) {
		if ok || w.freshExpr(f, root, map[types.Object]bool{}) {
			f.makes = f.makes || !ok
		}
		return
	}
	if root != base {
		// an element of a local list: the local's own freshness says nothing about its elements
		if tv, ok := f.p.Info.Types[root]; ok && isListType(tv.Type) && w.freshExpr(f, root, map[types.Object]bool{}) {
			f.makes = true
			return
		}
	}
	if w.freshExpr(f, root, map[types.Object]bool{}) {
		f.makes = true
		return
	}
	k, d := w.origin(f, root, 0)
	c := lwCall{file: f.p.base(pos), line: f.p.line(pos), caller: f.key, callee: kind, arg: text, origin: k, detail: d}
	for _, o := range f.foreign {
		if o == c {
			return
		}
	}
	f.foreign = append(f.foreign, c)
}

func (w *lwWorld) computeWrites(f *lwFunc) bool {
	changed := false
	f.foreign = nil
	ast.Inspect(f.fd.Body, func(n ast.Node) bool {
		switch x := n.(type) {
		case *ast.AssignStmt:
			for _, l := range x.Lhs {
				ix, ok := l.(*ast.IndexExpr)
				if !ok {
					continue
				}
				tv, ok := f.p.Info.Types[ix.X]
				if !ok || !isListType(tv.Type) {
					continue
				}
				hit := false
				for _, lp := range f.lists {
					if d, _ := w.derivedExpr(f, lp, ix.X); d {
						hit = true
						if w.addWrite(lp, f, l.Pos(), "index", exprText(l)) {
							changed = true
						}
					}
				}
				if !hit {
					w.otherWrite(f, ix.X, l.Pos(), "index", exprText(l))
				}
			}
		case *ast.IncDecStmt:
			// elements of a value list are interface values / lists: no ++ on them
		case *ast.CallExpr:
			ce := w.resolve(f, x)
			switch {
			case ce.conv:
			case ce.bname == "copy" && len(x.Args) == 2:
				if tv, ok := f.p.Info.Types[x.Args[0]]; ok && isListType(tv.Type) {
					hit := false
					for _, lp := range f.lists {
						if d, _ := w.derivedExpr(f, lp, x.Args[0]); d {
							hit = true
							if w.addWrite(lp, f, x.Pos(), "copy", exprText(x)) {
								changed = true
							}
						}
					}
					if !hit {
						w.otherWrite(f, x.Args[0], x.Pos(), "copy", exprText(x))
					}
				}
			case ce.bname == "append" && len(x.Args) > 0:
				if tv, ok := f.p.Info.Types[x.Args[0]]; ok && isListType(tv.Type) {
					hit := false
					for _, lp := range f.lists {
						if d, s := w.derivedExpr(f, lp, x.Args[0]); d {
							hit = true
							kind := "appendBeyond"
							if s {
								kind = "appendInPlace"
							}
							if w.addWrite(lp, f, x.Pos(), kind, exprText(x)) {
								changed = true
							}
						}
					}
					if !hit {
						if sl, ok := x.Args[0].(*ast.SliceExpr); ok && sl.High != nil {
							w.otherWrite(f, x.Args[0], x.Pos(), "appendInPlace", exprText(x))
						} else if w.freshExpr(f, x.Args[0], map[types.Object]bool{}) {
							f.makes = true
						}
					}
				}
			case ce.bname != "":
			default:
				// sort.* on a value list
				if strings.HasPrefix(ce.extern, "sort.") && len(x.Args) > 0 {
					hit := false
					for _, lp := range f.lists {
						if d, _ := w.derivedExpr(f, lp, x.Args[0]); d {
							hit = true
							if w.addWrite(lp, f, x.Pos(), "sort", exprText(x)) {
								changed = true
							}
						}
					}
					arg := x.Args[0]
					if cv, ok := arg.(*ast.CallExpr); ok && len(cv.Args) == 1 && w.resolve(f, cv).conv {
						arg = cv.Args[0]
					}
					if tv, ok := f.p.Info.Types[arg]; ok && isListType(tv.Type) && !hit {
						w.otherWrite(f, arg, x.Pos(), "sort", exprText(x))
					}
					return true
				}
				// handed on
				for _, lp := range f.lists {
					for _, cf := range ce.known {
						for _, cp := range cf.lists {
							if len(cp.writes) == 0 {
								continue
							}
							for _, a := range lwArg(x, cp.idx, len(cf.all), cf.sig.Variadic()) {
								if d, _ := w.derivedExpr(f, lp, a); d {
									if w.addWrite(lp, f, x.Pos(), "via:"+cf.key, exprText(a)) {
										changed = true
									}
								}
							}
						}
					}
					if len(ce.known) == 0 && ce.extern != "" && !lwPureExtern[ce.extern] {
						args := append([]ast.Expr{}, x.Args...)
						if s, ok := x.Fun.(*ast.SelectorExpr); ok {
							if _, isPkg := f.p.Info.Uses[lwRootIdent(s.X)].(*types.PkgName); !isPkg {
								args = append(args, s.X)
							}
						}
						for _, a := range args {
							tv, ok := f.p.Info.Types[a]
							if !ok || !isListType(tv.Type) {
								continue
							}
							if d, _ := w.derivedExpr(f, lp, a); d {
								if w.addWrite(lp, f, x.Pos(), "extern:"+ce.extern, exprText(a)) {
									changed = true
								}
							}
						}
					}
				}
			}
		}
		return true
	})
	return changed
}

func lwRootIdent(e ast.Expr) *ast.Ident {
	for {
		switch x := e.(type) {
		case *ast.Ident:
			return x
		case *ast.SelectorExpr:
			e = x.X
		case *ast.IndexExpr:
			e = x.X
		case *ast.SliceExpr:
			e = x.X
		case *ast.ParenExpr:
			e = x.X
		case *ast.StarExpr:
			e = x.X
		case *ast.CallExpr:
			e = x.Fun
		default:
			return &ast.Ident{Name: "?"}
		}
	}
}

// origin of an argument that is neither fresh nor the caller's own parameter
func (w *lwWorld) origin(f *lwFunc, e ast.Expr, depth int) (string, string) {
	text := exprText(e)
	if depth > 6 {
		return "unknown", text
	}
	switch x := e.(type) {
	case *ast.Ident:
		o := f.objOf(x)
		if f.isLocal(o) {
			for _, d := range f.defs[o] {
				switch {
				case d.key:
				case d.rangeOf != nil:
					k, t := w.origin(f, d.rangeOf, depth+1)
					return k, x.Name + " <- range " + t
				case d.rhs != nil && !w.freshExpr(f, d.rhs, map[types.Object]bool{o: true}):
					k, t := w.origin(f, d.rhs, depth+1)
					return k, x.Name + " <- " + t
				}
			}
			return "unknown", text
		}
		if _, isVar := o.(*types.Var); isVar && o.Parent() == o.Pkg().Scope() {
			return "field", "package variable " + text
		}
		return "unknown", text
	case *ast.ParenExpr:
		return w.origin(f, x.X, depth)
	case *ast.IndexExpr, *ast.SliceExpr, *ast.SelectorExpr:
		if strings.Contains(text, "RecordSet") {
			return "cell", text
		}
		var inner ast.Expr
		switch y := x.(type) {
		case *ast.IndexExpr:
			inner = y.X
		case *ast.SliceExpr:
			inner = y.X
		case *ast.SelectorExpr:
			return "field", text
		}
		if tv, ok := f.p.Info.Types[inner]; ok {
			if n, ok := tv.Type.(*types.Named); ok && (n.Obj().Name() == "RecordSet" || n.Obj().Name() == "Record") {
				return "cell", text
			}
		}
		k, t := w.origin(f, inner, depth+1)
		return k, text + " <- " + t
	case *ast.CallExpr:
		ce := w.resolve(f, x)
		if ce.conv && len(x.Args) == 1 {
			return w.origin(f, x.Args[0], depth)
		}
		if ce.bname == "append" && len(x.Args) > 0 {
			return w.origin(f, x.Args[0], depth)
		}
		for _, cf := range ce.known {
			if cf.retOther != "" {
				kind := "unknown"
				if strings.Contains(cf.retOther, "RecordSet") {
					kind = "cell"
				}
				// look at the returned expression inside the callee
				ast.Inspect(cf.fd.Body, func(n ast.Node) bool {
					if r, ok := n.(*ast.ReturnStmt); ok && kind == "unknown" {
						for _, re := range r.Results {
							if tv, ok := cf.p.Info.Types[re]; ok && isListType(tv.Type) && !w.freshExpr(cf, re, map[types.Object]bool{}) {
								if k, _ := w.origin(cf, re, depth+2); k != "unknown" {
									kind = k
								}
							}
						}
					}
					return true
				})
				return kind, text + " (" + cf.retOther + ")"
			}
			for k := range cf.retAlias {
				for _, a := range lwArg(x, k, len(cf.all), cf.sig.Variadic()) {
					if !w.freshExpr(f, a, map[types.Object]bool{}) {
						kk, t := w.origin(f, a, depth+1)
						return kk, text + " <- " + t
					}
				}
			}
		}
		return "unknown", text
	}
	return "unknown", text
}

func (w *lwWorld) calls() []lwCall {
	var out []lwCall
	for _, f := range w.funcs {
		ast.Inspect(f.fd.Body, func(n ast.Node) bool {
			x, ok := n.(*ast.CallExpr)
			if !ok {
				return true
			}
			ce := w.resolve(f, x)
			seen := map[string]bool{}
			for _, cf := range ce.known {
				for _, cp := range cf.lists {
					if len(cp.writes) == 0 {
						continue
					}
					for _, a := range lwArg(x, cp.idx, len(cf.all), cf.sig.Variadic()) {
						c := lwCall{file: f.p.base(x.Pos()), line: f.p.line(x.Pos()), caller: f.key, callee: cf.key, param: cp.v.Name(), arg: exprText(a)}
						own := ""
						for _, lp := range f.lists {
							if d, _ := w.derivedExpr(f, lp, a); d {
								own = lp.v.Name()
							}
						}
						switch {
						case w.freshExpr(f, a, map[types.Object]bool{}):
							c.origin = "fresh"
						case own != "":
							c.origin, c.detail = "ownParam", own
						default:
							c.origin, c.detail = w.origin(f, a, 0)
						}
						k := fmt.Sprintf("%s|%s|%s|%d", c.callee, c.param, c.arg, c.line)
						if !seen[k] {
							seen[k] = true
							out = append(out, c)
						}
					}
				}
			}
			return true
		})
	}
	sort.SliceStable(out, func(i, j int) bool {
		if out[i].file != out[j].file {
			return out[i].file < out[j].file
		}
		return out[i].line < out[j].line
	})
	return out
}

func genListWriteFacts() {
	w := &lwWorld{}
	w.load()
	for round := 0; ; round++ {
		if round > 50 {
			fatal("listwritefacts: no fixed point after %d rounds", round)
		}
		changed := false
		for _, f := range w.funcs {
			for _, lp := range f.lists {
				if w.computeDerived(f, lp) {
					changed = true
				}
			}
			if w.computeReturns(f) {
				changed = true
			}
			if w.computeWrites(f) {
				changed = true
			}
		}
		if !changed {
			break
		}
	}
	sort.SliceStable(w.funcs, func(i, j int) bool {
		a, b := w.funcs[i], w.funcs[j]
		if a.pkgShort != b.pkgShort {
			return a.pkgShort < b.pkgShort
		}
		fa, fb := a.p.base(a.fd.Pos()), b.p.base(b.fd.Pos())
		if fa != fb {
			return fa < fb
		}
		return a.fd.Pos() < b.fd.Pos()
	})
	var b strings.Builder
	b.WriteString("-- GENERATED by /verif/extract/discardfacts (mode listwritefacts) from lib/query and lib/value — do not edit.\n")
	b.WriteString("-- listParamFacts: one entry per value-list parameter / receiver ([]value.Primary, Cell, Record, RecordSet, lists of\n")
	b.WriteString("-- those) of every function: class reads / freshCopyFirst / writesInPlace.  listWriteSites: every write THROUGH such a\n")
	b.WriteString("-- parameter (index, copy, appendInPlace, appendBeyond, sort, via:<callee>, extern:<function>).  listWriterCalls: every call\n")
	b.WriteString("-- of an in-place writer with the origin of the argument (fresh / ownParam / cell / field / unknown).\n")
	b.WriteString("-- listReturnFacts: functions with a value-list result that may be one of their parameters (alias:<param>) or a list\n")
	b.WriteString("-- that is neither made in the function nor a parameter (other).\n")
	b.WriteString("import Csvq.Model.ListOwn\n\nnamespace Csvq.Gen\nopen Csvq.ListOwn\n\n")
	b.WriteString("def listParamFacts : List ListParamFact := [\n")
	nparams := 0
	var lines []string
	for _, f := range w.funcs {
		for _, lp := range f.lists {
			cls := "reads"
			if len(lp.writes) > 0 {
				cls = "writesInPlace"
			} else if f.makes {
				cls = "freshCopyFirst"
			}
			nparams++
			lines = append(lines, fmt.Sprintf("  ⟨%s, %d, %s, %s, %s⟩", leanStr(f.p.base(f.fd.Pos())), f.p.line(f.fd.Pos()), leanStr(f.key), leanStr(lp.v.Name()), leanStr(cls)))
		}
	}
	b.WriteString(strings.Join(lines, ",\n"))
	b.WriteString("\n]\n\ndef listWriteSites : List ListWriteSite := [\n")
	lines = nil
	for _, f := range w.funcs {
		for _, lp := range f.lists {
			ws := append([]lwWrite{}, lp.writes...)
			sort.SliceStable(ws, func(i, j int) bool { return ws[i].line < ws[j].line })
			for _, wr := range ws {
				lines = append(lines, fmt.Sprintf("  ⟨%s, %d, %s, %s, %s, %s⟩", leanStr(f.p.base(f.fd.Pos())), wr.line, leanStr(f.key), leanStr(lp.v.Name()), leanStr(wr.kind), leanStr(wr.text)))
			}
		}
	}
	b.WriteString(strings.Join(lines, ",\n"))
	b.WriteString("\n]\n\ndef listWriterCalls : List ListCallFact := [\n")
	lines = nil
	for _, c := range w.calls() {
		lines = append(lines, fmt.Sprintf("  ⟨%s, %d, %s, %s, %s, %s, %s, %s⟩", leanStr(c.file), c.line, leanStr(c.caller), leanStr(c.callee), leanStr(c.param), leanStr(c.arg), leanStr(c.origin), leanStr(c.detail)))
	}
	b.WriteString(strings.Join(lines, ",\n"))
	b.WriteString("\n]\n\n-- writes through a LOCAL that holds a list the function neither made nor received as a parameter\n")
	b.WriteString("-- (callee = kind of write, param = \"\", origin = where the local's list comes from)\n")
	b.WriteString("def listForeignWrites : List ListCallFact := [\n")
	lines = nil
	for _, f := range w.funcs {
		fw := append([]lwCall{}, f.foreign...)
		sort.SliceStable(fw, func(i, j int) bool { return fw[i].line < fw[j].line })
		for _, c := range fw {
			lines = append(lines, fmt.Sprintf("  ⟨%s, %d, %s, %s, %s, %s, %s, %s⟩", leanStr(c.file), c.line, leanStr(c.caller), leanStr(c.callee), leanStr(c.param), leanStr(c.arg), leanStr(c.origin), leanStr(c.detail)))
		}
	}
	b.WriteString(strings.Join(lines, ",\n"))
	b.WriteString("\n]\n\ndef listReturnFacts : List (String × String × String) := [\n")
	lines = nil
	for _, f := range w.funcs {
		var ks []int
		for k := range f.retAlias {
			ks = append(ks, k)
		}
		sort.Ints(ks)
		for _, k := range ks {
			name := "receiver"
			for _, lp := range f.lists {
				if lp.idx == k {
					name = lp.v.Name()
				}
			}
			lines = append(lines, fmt.Sprintf("  (%s, %s, %s)", leanStr(f.key), leanStr("alias:"+name), leanStr("")))
		}
		if f.retOther != "" {
			lines = append(lines, fmt.Sprintf("  (%s, %s, %s)", leanStr(f.key), leanStr("other"), leanStr(f.retOther)))
		}
	}
	b.WriteString(strings.Join(lines, ",\n"))
	b.WriteString("\n]\n\nend Csvq.Gen\n")
	if nparams < 100 {
		fatal("listwritefacts: only %d value-list parameters found", nparams)
	}
	fmt.Print(b.String())
}
