// discardfacts — generator of lean/Csvq/Gen/DiscardFacts.lean and lean/Csvq/Gen/AstWriteFacts.lean (property C14).
//
//	go run . discardfacts    every value.Discard(x) call site of lib/query and lib/value
//	go run . astwritefacts   every assignment of lib/query that writes through a parser.* value
//
// Source tree: $VERIF_REPO (default /repo).  Standard library only (go/ast, go/types).
// The analysis is conservative: whatever it cannot show harmless is reported (fresh=false /
// usedAfter=true / escapes=true), and a construct it has no rule for makes it exit with status 1.
package main

import (
	"fmt"
	"go/ast"
	"go/token"
	"go/types"
	"os"
	"path/filepath"
	"sort"
	"strings"
)

const (
	valuePkg  = "github.com/mithrandie/csvq/lib/value"
	queryPkg  = "github.com/mithrandie/csvq/lib/query"
	parserPkg = "github.com/mithrandie/csvq/lib/parser"
)

func main() {
	mode := "discardfacts"
	if len(os.Args) > 1 {
		mode = os.Args[1]
	}
	switch mode {
	case "discardfacts":
		genDiscardFacts()
	case "astwritefacts":
		genAstWriteFacts()
	default:
		fatal("unknown mode %q", mode)
	}
}

// parents builds the child → parent map of the subtree of root.
func parents(root ast.Node) map[ast.Node]ast.Node {
	m := map[ast.Node]ast.Node{}
	var stack []ast.Node
	ast.Inspect(root, func(n ast.Node) bool {
		if n == nil {
			stack = stack[:len(stack)-1]
			return true
		}
		if len(stack) > 0 {
			m[n] = stack[len(stack)-1]
		}
		stack = append(stack, n)
		return true
	})
	return m
}

func calleeFunc(p *Pkg, c *ast.CallExpr) *types.Func {
	var id *ast.Ident
	switch f := c.Fun.(type) {
	case *ast.Ident:
		id = f
	case *ast.SelectorExpr:
		id = f.Sel
	default:
		return nil
	}
	fn, _ := p.Info.Uses[id].(*types.Func)
	return fn
}

func isValueFunc(fn *types.Func, names ...string) bool {
	if fn == nil || fn.Pkg() == nil || fn.Pkg().Path() != valuePkg {
		return false
	}
	if sig, ok := fn.Type().(*types.Signature); ok && sig.Recv() != nil {
		return false
	}
	for _, n := range names {
		if fn.Name() == n || (strings.HasSuffix(n, "*") && strings.HasPrefix(fn.Name(), strings.TrimSuffix(n, "*"))) {
			return true
		}
	}
	return false
}

var freshNames = []string{"ToInteger", "ToIntegerStrictly", "ToFloat", "ToDatetime", "ToBoolean", "ToString", "New*"}

// read-only helpers of package value that do not keep their argument
// (conversions allocate a new object and do not keep the argument)
var pureNames = []string{"IsNull", "IsTrue", "IsFalse", "IsUnknown", "Discard", "ToInteger", "ToIntegerStrictly", "ToFloat", "ToDatetime", "ToBoolean", "ToString"}

// value getters of value.Primary and its implementations
var getterMethods = map[string]bool{"Raw": true, "Ternary": true, "String": true, "Format": true}

type dsite struct {
	file, fn, v         string
	line                int
	fresh, used, escape bool
	why                 []string
}

type danalysis struct {
	p     *Pkg
	scope ast.Node // innermost function (FuncDecl / FuncLit) containing the call
	body  *ast.BlockStmt
	par   map[ast.Node]ast.Node
	site  *dsite
}

func (d *danalysis) obj(id *ast.Ident) types.Object {
	if o := d.p.Info.Uses[id]; o != nil {
		return o
	}
	return d.p.Info.Defs[id]
}

func (d *danalysis) mentions(n ast.Node, objs map[types.Object]bool) bool {
	if n == nil {
		return false
	}
	found := false
	ast.Inspect(n, func(m ast.Node) bool {
		if id, ok := m.(*ast.Ident); ok && objs[d.obj(id)] {
			found = true
		}
		return !found
	})
	return found
}

// assignsTo: s (at statement level) assigns one of objs
func (d *danalysis) assignsTo(s ast.Stmt, objs map[types.Object]bool) (bool, []ast.Expr) {
	as, ok := s.(*ast.AssignStmt)
	if !ok {
		return false, nil
	}
	for _, l := range as.Lhs {
		if id, ok := l.(*ast.Ident); ok && objs[d.obj(id)] {
			return true, as.Rhs
		}
	}
	return false, nil
}

func blockList(n ast.Node) ([]ast.Stmt, bool) {
	switch x := n.(type) {
	case *ast.BlockStmt:
		return x.List, true
	case *ast.CaseClause:
		return x.Body, true
	case *ast.CommClause:
		return x.Body, true
	}
	return nil, false
}

// scanList scans list[from:to] in order; returns (used, pathEnded)
func (d *danalysis) scanList(list []ast.Stmt, from, to int, objs map[types.Object]bool) (bool, bool) {
	for j := from; j < to && j < len(list); j++ {
		st := list[j]
		if killed, rhs := d.assignsTo(st, objs); killed {
			for _, r := range rhs {
				if d.mentions(r, objs) {
					return true, true
				}
			}
			return false, true
		}
		if d.mentions(st, objs) {
			return true, true
		}
		switch x := st.(type) {
		case *ast.ReturnStmt:
			return false, true
		case *ast.ExprStmt:
			if c, ok := x.X.(*ast.CallExpr); ok {
				if id, ok := c.Fun.(*ast.Ident); ok && id.Name == "panic" {
					return false, true
				}
			}
		case *ast.BranchStmt:
			if x.Tok == token.GOTO || x.Tok == token.FALLTHROUGH {
				fatal("%s: goto/fallthrough after a Discard has no rule", d.p.at(x.Pos()))
			}
			return false, false // break / continue: leave this list, keep scanning outward (conservative)
		}
	}
	return false, false
}

// usedAfter: is one of objs mentioned on some path after statement s (before being reassigned)?
func (d *danalysis) usedAfter(s ast.Node, objs map[types.Object]bool) bool {
	child := s
	for n := d.par[child]; n != nil; child, n = n, d.par[n] {
		if list, ok := blockList(n); ok {
			k := -1
			for j, st := range list {
				if ast.Node(st) == child {
					k = j
				}
			}
			if k < 0 {
				fatal("%s: statement not found in its block", d.p.at(child.Pos()))
			}
			used, ended := d.scanList(list, k+1, len(list), objs)
			if used {
				return true
			}
			if ended {
				return false
			}
		}
		switch loop := n.(type) {
		case *ast.ForStmt:
			if d.mentions(loop.Cond, objs) || d.mentions(loop.Post, objs) {
				return true
			}
			// next iteration: the body from its start up to where we came from
			if child == ast.Node(loop.Body) {
				if d.loopPrefixUses(loop.Body, s, objs) {
					return true
				}
			}
		case *ast.RangeStmt:
			if child == ast.Node(loop.Body) {
				if d.loopPrefixUses(loop.Body, s, objs) {
					return true
				}
			}
		case *ast.FuncLit, *ast.FuncDecl:
			return false
		}
		if n == d.scope {
			return false
		}
	}
	return false
}

// loopPrefixUses: on the next iteration of the loop, is objs used before being (re)defined, between the
// start of the body and the statement that (transitively) contains s?
func (d *danalysis) loopPrefixUses(body *ast.BlockStmt, s ast.Node, objs map[types.Object]bool) bool {
	// variables declared inside the loop body are new on every iteration
	inside := true
	for o := range objs {
		if !(body.Pos() <= o.Pos() && o.Pos() < body.End()) {
			inside = false
		}
	}
	if inside {
		return false
	}
	k := len(body.List)
	for j, st := range body.List {
		if st.Pos() <= s.Pos() && s.End() <= st.End() {
			k = j
		}
	}
	used, _ := d.scanList(body.List, 0, k+1, objs)
	return used
}

func (d *danalysis) why(format string, a ...interface{}) {
	d.site.why = append(d.site.why, fmt.Sprintf(format, a...))
}

// checkUses classifies every mention of o (and of aliases obtained by type assertion) in the function.
func (d *danalysis) checkUses(o types.Object, objs map[types.Object]bool) {
	var idents []*ast.Ident
	ast.Inspect(d.body, func(n ast.Node) bool {
		if id, ok := n.(*ast.Ident); ok && d.obj(id) == o {
			idents = append(idents, id)
		}
		return true
	})
	for _, id := range idents {
		var n ast.Node = id
		par := d.par[n]
		for {
			if pe, ok := par.(*ast.ParenExpr); ok {
				n, par = pe, d.par[pe]
				continue
			}
			break
		}
		switch x := par.(type) {
		case *ast.AssignStmt:
			isLhs := false
			for _, l := range x.Lhs {
				if l == n {
					isLhs = true
				}
			}
			if isLhs {
				continue // a definition; checked by the freshness rule
			}
			d.site.escape = true
			d.why("%s:%d assigned to another variable or location", d.p.base(id.Pos()), d.p.line(id.Pos()))
		case *ast.ValueSpec:
			isName := false
			for _, nm := range x.Names {
				if nm == id {
					isName = true
				}
			}
			if !isName {
				d.site.escape = true
				d.why("%s:%d stored in a declared variable", d.p.base(id.Pos()), d.p.line(id.Pos()))
			}
		case *ast.CallExpr:
			if x.Fun == n {
				d.site.escape = true
				d.why("%s:%d called as a function", d.p.base(id.Pos()), d.p.line(id.Pos()))
				continue
			}
			if isValueFunc(calleeFunc(d.p, x), pureNames...) {
				continue
			}
			d.site.escape = true
			d.why("%s:%d passed to %s, which may keep it", d.p.base(id.Pos()), d.p.line(id.Pos()), exprText(x.Fun))
		case *ast.BinaryExpr:
			other := x.X
			if x.X == n {
				other = x.Y
			}
			if oid, ok := other.(*ast.Ident); ok && oid.Name == "nil" && (x.Op == token.EQL || x.Op == token.NEQ) {
				continue
			}
			d.site.escape = true
			d.why("%s:%d used in an expression", d.p.base(id.Pos()), d.p.line(id.Pos()))
		case *ast.SelectorExpr: // x.Method(...)
			if c, ok := d.par[x].(*ast.CallExpr); ok && c.Fun == ast.Expr(x) && getterMethods[x.Sel.Name] {
				continue
			}
			d.site.escape = true
			d.why("%s:%d selector .%s is not a value getter", d.p.base(id.Pos()), d.p.line(id.Pos()), x.Sel.Name)
		case *ast.TypeAssertExpr:
			d.checkAssert(x, o, objs)
		case *ast.ReturnStmt:
			// handing the object to the caller is legitimate as long as it is not discarded too:
			// a return that can follow the Discard is found by the used-after scan
			continue
		default:
			d.site.escape = true
			d.why("%s:%d used as %T (returned, stored or captured)", d.p.base(id.Pos()), d.p.line(id.Pos()), par)
		}
	}
}

func (d *danalysis) checkAssert(ta *ast.TypeAssertExpr, o types.Object, objs map[types.Object]bool) {
	var n ast.Node = ta
	par := d.par[n]
	for {
		if pe, ok := par.(*ast.ParenExpr); ok {
			n, par = pe, d.par[pe]
			continue
		}
		break
	}
	switch x := par.(type) {
	case *ast.SelectorExpr: // x.(*T).Raw()
		if c, ok := d.par[x].(*ast.CallExpr); ok && c.Fun == ast.Expr(x) && getterMethods[x.Sel.Name] {
			return
		}
		d.site.escape = true
		d.why("%s:%d .%s on the asserted value is not a value getter", d.p.base(ta.Pos()), d.p.line(ta.Pos()), x.Sel.Name)
	case *ast.ExprStmt: // switch x.(type)
		if ta.Type == nil {
			return
		}
		d.site.escape = true
		d.why("%s:%d type assertion used as a statement", d.p.base(ta.Pos()), d.p.line(ta.Pos()))
	case *ast.TypeSwitchStmt:
		return
	case *ast.AssignStmt:
		// v := x.(T) / v, ok := x.(T) / switch v := x.(type): v is another name of the same object
		if len(x.Rhs) != 1 || len(x.Lhs) < 1 {
			d.site.escape = true
			d.why("%s:%d type assertion in a multi-assignment", d.p.base(ta.Pos()), d.p.line(ta.Pos()))
			return
		}
		id, ok := x.Lhs[0].(*ast.Ident)
		if !ok {
			d.site.escape = true
			d.why("%s:%d asserted value stored in a non-variable", d.p.base(ta.Pos()), d.p.line(ta.Pos()))
			return
		}
		if id.Name == "_" {
			return
		}
		if x.Tok != token.DEFINE || d.p.Info.Defs[id] == nil {
			if _, isTS := d.par[x].(*ast.TypeSwitchStmt); isTS {
				// the per-clause objects of `switch v := x.(type)` are implicit; find their uses by name
				d.site.escape = true
				d.why("%s:%d type switch binds the value to %s", d.p.base(ta.Pos()), d.p.line(ta.Pos()), id.Name)
				return
			}
			d.site.escape = true
			d.why("%s:%d asserted value assigned to an existing variable", d.p.base(ta.Pos()), d.p.line(ta.Pos()))
			return
		}
		alias := d.p.Info.Defs[id]
		if !objs[alias] {
			objs[alias] = true
			d.checkUses(alias, objs)
		}
	default:
		d.site.escape = true
		d.why("%s:%d asserted value used as %T", d.p.base(ta.Pos()), d.p.line(ta.Pos()), par)
	}
}

func genDiscardFacts() {
	var sites []*dsite
	for _, pk := range []struct{ dir, path string }{{"query", queryPkg}, {"value", valuePkg}} {
		p := loadPkg(filepath.Join(repoRoot(), "lib", pk.dir), pk.path)
		for _, f := range p.Files {
			for _, decl := range f.Decls {
				fd, ok := decl.(*ast.FuncDecl)
				if !ok || fd.Body == nil {
					continue
				}
				if pk.path == valuePkg && fd.Name.Name == "Discard" && fd.Recv == nil {
					continue // the definition itself
				}
				par := parents(fd)
				var calls []*ast.CallExpr
				ast.Inspect(fd.Body, func(n ast.Node) bool {
					if c, ok := n.(*ast.CallExpr); ok && isValueFunc(calleeFunc(p, c), "Discard") {
						calls = append(calls, c)
					}
					return true
				})
				for _, c := range calls {
					s := &dsite{file: p.base(c.Pos()), fn: funcLabel(fd), line: p.line(c.Pos()), fresh: true}
					sites = append(sites, s)
					if len(c.Args) != 1 {
						fatal("%s: Discard with %d arguments", p.at(c.Pos()), len(c.Args))
					}
					s.v = exprText(c.Args[0])
					// innermost enclosing function
					var scope ast.Node = fd
					var body = fd.Body
					for n := par[ast.Node(c)]; n != nil; n = par[n] {
						if fl, ok := n.(*ast.FuncLit); ok {
							scope, body = fl, fl.Body
							break
						}
					}
					d := &danalysis{p: p, scope: scope, body: body, par: par, site: s}
					id, ok := c.Args[0].(*ast.Ident)
					if !ok {
						s.fresh = false
						d.why("the argument is not a local variable")
						continue
					}
					o, _ := d.obj(id).(*types.Var)
					if o == nil || o.IsField() || !(body.Pos() <= o.Pos() && o.Pos() < body.End()) {
						s.fresh = false
						d.why("the argument is a parameter, a captured or a package-level variable")
						continue
					}
					// (a) every definition of the variable in the function is a fresh-allocating call
					ndefs := 0
					ast.Inspect(body, func(n ast.Node) bool {
						switch x := n.(type) {
						case *ast.AssignStmt:
							for i, l := range x.Lhs {
								lid, ok := l.(*ast.Ident)
								if !ok || d.obj(lid) != types.Object(o) {
									continue
								}
								ndefs++
								if len(x.Lhs) != len(x.Rhs) {
									s.fresh = false
									d.why("%s:%d defined by a multi-value expression", p.base(x.Pos()), p.line(x.Pos()))
									continue
								}
								rc, ok := x.Rhs[i].(*ast.CallExpr)
								if !ok || !isValueFunc(calleeFunc(p, rc), freshNames...) || x.Tok != token.DEFINE && x.Tok != token.ASSIGN {
									s.fresh = false
									d.why("%s:%d defined as %s, not by a fresh-allocating value.To*/New* call", p.base(x.Pos()), p.line(x.Pos()), exprText(x.Rhs[i]))
								}
							}
						case *ast.ValueSpec:
							for i, nm := range x.Names {
								if p.Info.Defs[nm] != types.Object(o) {
									continue
								}
								ndefs++
								if len(x.Values) == 0 {
									continue // zero value nil: Discard(nil) does nothing
								}
								if len(x.Values) != len(x.Names) {
									s.fresh = false
									d.why("%s:%d declared with a multi-value expression", p.base(x.Pos()), p.line(x.Pos()))
									continue
								}
								rc, ok := x.Values[i].(*ast.CallExpr)
								if !ok || !isValueFunc(calleeFunc(p, rc), freshNames...) {
									s.fresh = false
									d.why("%s:%d declared as %s", p.base(x.Pos()), p.line(x.Pos()), exprText(x.Values[i]))
								}
							}
						case *ast.RangeStmt:
							for _, l := range []ast.Expr{x.Key, x.Value} {
								if lid, ok := l.(*ast.Ident); ok && d.obj(lid) == types.Object(o) {
									ndefs++
									s.fresh = false
									d.why("%s:%d is a range variable", p.base(x.Pos()), p.line(x.Pos()))
								}
							}
						}
						return true
					})
					if ndefs == 0 {
						s.fresh = false
						d.why("no definition found in the function")
					}
					// (c) escapes, (b) used after
					objs := map[types.Object]bool{types.Object(o): true}
					d.checkUses(o, objs)
					var stmt ast.Node = par[ast.Node(c)]
					if _, ok := stmt.(*ast.ExprStmt); !ok {
						s.used = true
						d.why("the Discard call is not a statement of its own")
						continue
					}
					if d.usedAfter(stmt, objs) {
						s.used = true
						d.why("mentioned again after the Discard at line %d", s.line)
					}
					// closures that mention the variable may run later
					ast.Inspect(body, func(n ast.Node) bool {
						if fl, ok := n.(*ast.FuncLit); ok && ast.Node(fl) != scope {
							if d.mentions(fl.Body, objs) && !(fl.Pos() <= c.Pos() && c.End() <= fl.End()) {
								s.used = true
								d.why("%s:%d captured by a function literal", p.base(fl.Pos()), p.line(fl.Pos()))
							}
						}
						return true
					})
				}
			}
		}
	}
	sort.SliceStable(sites, func(i, j int) bool {
		if sites[i].file != sites[j].file {
			return sites[i].file < sites[j].file
		}
		return sites[i].line < sites[j].line
	})
	var o strings.Builder
	o.WriteString("-- GENERATED by /verif/extract/discardfacts from lib/query and lib/value — do not edit.\n")
	o.WriteString("-- One entry per value.Discard(x) call site: (a) fresh: every definition of x in the function is a\n")
	o.WriteString("-- value.To*/value.New* call; (b) usedAfter: x is mentioned on some path after the Discard before being\n")
	o.WriteString("-- reassigned; (c) escapes: x is returned, stored, captured or passed to a function that may keep it.\n")
	o.WriteString("import Csvq.Model.Pool\n\nnamespace Csvq.Gen\nopen Csvq.Pool\n\n")
	o.WriteString("def discardFacts : List DiscardFact := [\n")
	for i, s := range sites {
		sep := ","
		if i == len(sites)-1 {
			sep = ""
		}
		fmt.Fprintf(&o, "  ⟨%s, %d, %s, %s, %v, %v, %v, %s⟩%s\n", leanStr(s.file), s.line, leanStr(s.fn), leanStr(s.v), s.fresh, s.used, s.escape,
			leanStr(strings.Join(s.why, "; ")), sep)
	}
	o.WriteString("]\n\nend Csvq.Gen\n")
	fmt.Print(o.String())
}
