// discardfacts — generator of lean/Csvq/Gen/DiscardFacts.lean and lean/Csvq/Gen/AstWriteFacts.lean (property C14).
//
//	go run . discardfacts    every value.Discard(x) call site of lib/query and lib/value
//	go run . astwritefacts   every assignment of lib/query that writes through a parser.* value
//	go run . listwritefacts  every write through a value-list parameter, every call of an in-place writer (listwrite.go)
//	go run . stmtkinds       statement kinds and operand positions of the grammar vs the workloads of harness/cmd/c14
//
// Source tree: $VERIF_REPO (default /repo).  Standard library only (go/ast, go/types).
// The analysis is conservative: whatever it cannot show harmless is reported (fresh=false /
// usedAfter=true / escapes=true), and a construct it has no rule for makes it exit with status 1.
package main

import (
	"fmt"
	"go/ast"
	"go/token"
	"go/types"
	"os"
	"path/filepath"
	"sort"
	"strings"
)

const (
	valuePkg  = "github.com/mithrandie/csvq/lib/value"
	queryPkg  = "github.com/mithrandie/csvq/lib/query"
	parserPkg = "github.com/mithrandie/csvq/lib/parser"
)

func main() {
	mode := "discardfacts"
	if len(os.Args) > 1 {
		mode = os.Args[1]
	}
	switch mode {
	case "discardfacts":
		genDiscardFacts()
	case "astwritefacts":
		genAstWriteFacts()
	case "stmtkinds":
		genStmtKinds()
	case "listwritefacts":
		genListWriteFacts()
	default:
		fatal("unknown mode %q", mode)
	}
}

// parents builds the child → parent map of the subtree of root.
func parents(root ast.Node) map[ast.Node]ast.Node {
	m := map[ast.Node]ast.Node{}
	var stack []ast.Node
	ast.Inspect(root, func(n ast.Node) bool {
		if n == nil {
			stack = stack[:len(stack)-1]
			return true
		}
		if len(stack) > 0 {
			m[n] = stack[len(stack)-1]
		}
		stack = append(stack, n)
		return true
	})
	return m
}

func calleeFunc(p *Pkg, c *ast.CallExpr) *types.Func {
	var id *ast.Ident
	switch f := c.Fun.(type) {
	case *ast.Ident:
		id = f
	case *ast.SelectorExpr:
		id = f.Sel
	default:
		return nil
	}
	fn, _ := p.Info.Uses[id].(*types.Func)
	return fn
}

func isValueFunc(fn *types.Func, names ...string) bool {
	if fn == nil || fn.Pkg() == nil || fn.Pkg().Path() != valuePkg {
		return false
	}
	if sig, ok := fn.Type().(*types.Signature); ok && sig.Recv() != nil {
		return false
	}
	for _, n := range names {
		if fn.Name() == n || (strings.HasSuffix(n, "*") && strings.HasPrefix(fn.Name(), strings.TrimSuffix(n, "*"))) {
			return true
		}
	}
	return false
}

var freshNames = []string{"ToInteger", "ToIntegerStrictly", "ToFloat", "ToDatetime", "ToBoolean", "ToString", "New*"}

// read-only helpers of package value that do not keep their argument
// (conversions allocate a new object and do not keep the argument)
var pureNames = []string{"IsNull", "IsTrue", "IsFalse", "IsUnknown", "Discard", "ToInteger", "ToIntegerStrictly", "ToFloat", "ToDatetime", "ToBoolean", "ToString"}

// value getters of value.Primary and its implementations
var getterMethods = map[string]bool{"Raw": true, "Ternary": true, "String": true, "Format": true}

type dsite struct {
	file, fn, v         string
	line                int
	fresh, used, escape bool
	why                 []string
}

type danalysis struct {
	p            *Pkg
	scope        ast.Node // innermost function (FuncDecl / FuncLit) containing the call
	body         *ast.BlockStmt
	onlyDiscards bool
	fnBody       *ast.BlockStmt // body of the enclosing declared function
	fnScope      ast.Node
	par          map[ast.Node]ast.Node
	site         *dsite
}

func (d *danalysis) obj(id *ast.Ident) types.Object {
	if o := d.p.Info.Uses[id]; o != nil {
		return o
	}
	return d.p.Info.Defs[id]
}

func (d *danalysis) mentions(n ast.Node, objs map[types.Object]bool) bool {
	if n == nil {
		return false
	}
	found := false
	ast.Inspect(n, func(m ast.Node) bool {
		if d.onlyDiscards {
			// only `value.Discard(x)` counts (used by the double-release scan)
			if c, ok := m.(*ast.CallExpr); ok && isValueFunc(calleeFunc(d.p, c), "Discard") && len(c.Args) == 1 {
				if id, ok := c.Args[0].(*ast.Ident); ok && objs[d.obj(id)] {
					found = true
				}
			}
			return !found
		}
		if id, ok := m.(*ast.Ident); ok && objs[d.obj(id)] {
			found = true
		}
		return !found
	})
	return found
}

// assignsTo: s (at statement level) assigns one of objs
func (d *danalysis) assignsTo(s ast.Stmt, objs map[types.Object]bool) (bool, []ast.Expr) {
	as, ok := s.(*ast.AssignStmt)
	if !ok {
		return false, nil
	}
	for _, l := range as.Lhs {
		if id, ok := l.(*ast.Ident); ok && objs[d.obj(id)] {
			return true, as.Rhs
		}
	}
	return false, nil
}

func blockList(n ast.Node) ([]ast.Stmt, bool) {
	switch x := n.(type) {
	case *ast.BlockStmt:
		return x.List, true
	case *ast.CaseClause:
		return x.Body, true
	case *ast.CommClause:
		return x.Body, true
	}
	return nil, false
}

// scanList scans list[from:to] in order; returns (used, pathEnded)
func (d *danalysis) scanList(list []ast.Stmt, from, to int, objs map[types.Object]bool) (bool, bool) {
	for j := from; j < to && j < len(list); j++ {
		st := list[j]
		if killed, rhs := d.assignsTo(st, objs); killed {
			for _, r := range rhs {
				if d.mentions(r, objs) {
					return true, true
				}
			}
			return false, true
		}
		if d.mentions(st, objs) {
			return true, true
		}
		switch x := st.(type) {
		case *ast.ReturnStmt:
			return false, true
		case *ast.ExprStmt:
			if c, ok := x.X.(*ast.CallExpr); ok {
				if id, ok := c.Fun.(*ast.Ident); ok && id.Name == "panic" {
					return false, true
				}
			}
		case *ast.BranchStmt:
			if x.Tok == token.GOTO || x.Tok == token.FALLTHROUGH {
				fatal("%s: goto/fallthrough after a Discard has no rule", d.p.at(x.Pos()))
			}
			return false, false // break / continue: leave this list, keep scanning outward (conservative)
		}
	}
	return false, false
}

// usedAfter: is one of objs mentioned on some path after statement s (before being reassigned)?
func (d *danalysis) usedAfter(s ast.Node, objs map[types.Object]bool) bool {
	child := s
	for n := d.par[child]; n != nil; child, n = n, d.par[n] {
		if list, ok := blockList(n); ok {
			k := -1
			for j, st := range list {
				if ast.Node(st) == child {
					k = j
				}
			}
			if k < 0 {
				fatal("%s: statement not found in its block", d.p.at(child.Pos()))
			}
			used, ended := d.scanList(list, k+1, len(list), objs)
			if used {
				return true
			}
			if ended {
				return false
			}
		}
		switch loop := n.(type) {
		case *ast.ForStmt:
			if d.mentions(loop.Cond, objs) || d.mentions(loop.Post, objs) {
				return true
			}
			// next iteration: the body from its start up to where we came from
			if child == ast.Node(loop.Body) {
				if d.loopPrefixUses(loop.Body, s, objs) {
					return true
				}
			}
		case *ast.RangeStmt:
			if child == ast.Node(loop.Body) {
				if d.loopPrefixUses(loop.Body, s, objs) {
					return true
				}
			}
		case *ast.FuncLit, *ast.FuncDecl:
			return false
		}
		if n == d.scope {
			return false
		}
	}
	return false
}

// loopPrefixUses: on the next iteration of the loop, is objs used before being (re)defined, between the
// start of the body and the statement that (transitively) contains s?
func (d *danalysis) loopPrefixUses(body *ast.BlockStmt, s ast.Node, objs map[types.Object]bool) bool {
	// variables declared inside the loop body are new on every iteration
	inside := true
	for o := range objs {
		if !(body.Pos() <= o.Pos() && o.Pos() < body.End()) {
			inside = false
		}
	}
	if inside {
		return false
	}
	k := len(body.List)
	for j, st := range body.List {
		if st.Pos() <= s.Pos() && s.End() <= st.End() {
			k = j
		}
	}
	used, _ := d.scanList(body.List, 0, k+1, objs)
	return used
}

func (d *danalysis) why(format string, a ...interface{}) {
	d.site.why = append(d.site.why, fmt.Sprintf(format, a...))
}

// checkUses classifies every mention of o (and of aliases obtained by type assertion) in the function.
func (d *danalysis) checkUses(o types.Object, objs map[types.Object]bool) {
	var idents []*ast.Ident
	ast.Inspect(d.body, func(n ast.Node) bool {
		if id, ok := n.(*ast.Ident); ok && d.obj(id) == o {
			idents = append(idents, id)
		}
		return true
	})
	for _, id := range idents {
		var n ast.Node = id
		par := d.par[n]
		for {
			if pe, ok := par.(*ast.ParenExpr); ok {
				n, par = pe, d.par[pe]
				continue
			}
			break
		}
		switch x := par.(type) {
		case *ast.AssignStmt:
			isLhs := false
			for _, l := range x.Lhs {
				if l == n {
					isLhs = true
				}
			}
			if isLhs {
				continue // a definition; checked by the freshness rule
			}
			d.site.escape = true
			d.why("%s:%d assigned to another variable or location", d.p.base(id.Pos()), d.p.line(id.Pos()))
		case *ast.ValueSpec:
			isName := false
			for _, nm := range x.Names {
				if nm == id {
					isName = true
				}
			}
			if !isName {
				d.site.escape = true
				d.why("%s:%d stored in a declared variable", d.p.base(id.Pos()), d.p.line(id.Pos()))
			}
		case *ast.CallExpr:
			if x.Fun == n {
				d.site.escape = true
				d.why("%s:%d called as a function", d.p.base(id.Pos()), d.p.line(id.Pos()))
				continue
			}
			if isValueFunc(calleeFunc(d.p, x), pureNames...) {
				continue
			}
			d.site.escape = true
			d.why("%s:%d passed to %s, which may keep it", d.p.base(id.Pos()), d.p.line(id.Pos()), exprText(x.Fun))
		case *ast.BinaryExpr:
			other := x.X
			if x.X == n {
				other = x.Y
			}
			if oid, ok := other.(*ast.Ident); ok && oid.Name == "nil" && (x.Op == token.EQL || x.Op == token.NEQ) {
				continue
			}
			d.site.escape = true
			d.why("%s:%d used in an expression", d.p.base(id.Pos()), d.p.line(id.Pos()))
		case *ast.SelectorExpr: // x.Method(...)
			if c, ok := d.par[x].(*ast.CallExpr); ok && c.Fun == ast.Expr(x) && getterMethods[x.Sel.Name] {
				continue
			}
			d.site.escape = true
			d.why("%s:%d selector .%s is not a value getter", d.p.base(id.Pos()), d.p.line(id.Pos()), x.Sel.Name)
		case *ast.TypeAssertExpr:
			d.checkAssert(x, o, objs)
		case *ast.ReturnStmt:
			// handing the object to the caller is legitimate as long as it is not discarded too:
			// a return that can follow the Discard is found by the used-after scan
			continue
		default:
			d.site.escape = true
			d.why("%s:%d used as %T (returned, stored or captured)", d.p.base(id.Pos()), d.p.line(id.Pos()), par)
		}
	}
}

func (d *danalysis) checkAssert(ta *ast.TypeAssertExpr, o types.Object, objs map[types.Object]bool) {
	var n ast.Node = ta
	par := d.par[n]
	for {
		if pe, ok := par.(*ast.ParenExpr); ok {
			n, par = pe, d.par[pe]
			continue
		}
		break
	}
	switch x := par.(type) {
	case *ast.SelectorExpr: // x.(*T).Raw()
		if c, ok := d.par[x].(*ast.CallExpr); ok && c.Fun == ast.Expr(x) && getterMethods[x.Sel.Name] {
			return
		}
		d.site.escape = true
		d.why("%s:%d .%s on the asserted value is not a value getter", d.p.base(ta.Pos()), d.p.line(ta.Pos()), x.Sel.Name)
	case *ast.ExprStmt: // switch x.(type)
		if ta.Type == nil {
			return
		}
		d.site.escape = true
		d.why("%s:%d type assertion used as a statement", d.p.base(ta.Pos()), d.p.line(ta.Pos()))
	case *ast.TypeSwitchStmt:
		return
	case *ast.AssignStmt:
		// v := x.(T) / v, ok := x.(T) / switch v := x.(type): v is another name of the same object
		if len(x.Rhs) != 1 || len(x.Lhs) < 1 {
			d.site.escape = true
			d.why("%s:%d type assertion in a multi-assignment", d.p.base(ta.Pos()), d.p.line(ta.Pos()))
			return
		}
		id, ok := x.Lhs[0].(*ast.Ident)
		if !ok {
			d.site.escape = true
			d.why("%s:%d asserted value stored in a non-variable", d.p.base(ta.Pos()), d.p.line(ta.Pos()))
			return
		}
		if id.Name == "_" {
			return
		}
		if x.Tok != token.DEFINE || d.p.Info.Defs[id] == nil {
			if _, isTS := d.par[x].(*ast.TypeSwitchStmt); isTS {
				// the per-clause objects of `switch v := x.(type)` are implicit; find their uses by name
				d.site.escape = true
				d.why("%s:%d type switch binds the value to %s", d.p.base(ta.Pos()), d.p.line(ta.Pos()), id.Name)
				return
			}
			d.site.escape = true
			d.why("%s:%d asserted value assigned to an existing variable", d.p.base(ta.Pos()), d.p.line(ta.Pos()))
			return
		}
		alias := d.p.Info.Defs[id]
		if !objs[alias] {
			objs[alias] = true
			d.checkUses(alias, objs)
		}
	default:
		d.site.escape = true
		d.why("%s:%d asserted value used as %T", d.p.base(ta.Pos()), d.p.line(ta.Pos()), par)
	}
}

// freshExpr: e evaluates to an object allocated for this evaluation: a value.To*/value.New* call, a
// call of a local function literal all of whose results are fresh, or a local variable all of whose
// definitions are fresh.
func (d *danalysis) freshExpr(e ast.Expr, depth int) bool {
	if depth > 3 {
		return false
	}
	switch x := e.(type) {
	case *ast.ParenExpr:
		return d.freshExpr(x.X, depth)
	case *ast.CallExpr:
		if isValueFunc(calleeFunc(d.p, x), freshNames...) {
			return true
		}
		// a local closure: conv := func(...) value.Primary { ... return <fresh> }
		if id, ok := x.Fun.(*ast.Ident); ok {
			if v, ok := d.obj(id).(*types.Var); ok && d.fnBody.Pos() <= v.Pos() && v.Pos() < d.fnBody.End() {
				var lits []*ast.FuncLit
				n := 0
				ast.Inspect(d.fnBody, func(m ast.Node) bool {
					switch y := m.(type) {
					case *ast.AssignStmt:
						for i, l := range y.Lhs {
							if lid, ok := l.(*ast.Ident); ok && d.obj(lid) == types.Object(v) {
								n++
								if len(y.Lhs) == len(y.Rhs) {
									if fl, ok := y.Rhs[i].(*ast.FuncLit); ok {
										lits = append(lits, fl)
									}
								}
							}
						}
					case *ast.ValueSpec:
						for i, nm := range y.Names {
							if d.p.Info.Defs[nm] == types.Object(v) {
								n++
								if len(y.Values) == len(y.Names) {
									if fl, ok := y.Values[i].(*ast.FuncLit); ok {
										lits = append(lits, fl)
									}
								}
							}
						}
					}
					return true
				})
				if n != 1 || len(lits) != 1 {
					return false
				}
				fl := lits[0]
				if fl.Type.Results == nil || fl.Type.Results.NumFields() != 1 {
					return false
				}
				ok := true
				sub := &danalysis{p: d.p, scope: fl, body: fl.Body, fnBody: fl.Body, par: d.par, site: &dsite{}}
				ast.Inspect(fl.Body, func(m ast.Node) bool {
					if inner, isLit := m.(*ast.FuncLit); isLit && inner != fl {
						return false
					}
					if r, isRet := m.(*ast.ReturnStmt); isRet {
						if len(r.Results) != 1 || !sub.freshExpr(r.Results[0], depth+1) {
							ok = false
						}
					}
					return true
				})
				return ok
			}
		}
		return false
	case *ast.Ident:
		v, ok := d.obj(x).(*types.Var)
		if !ok || v.IsField() || !(d.body.Pos() <= v.Pos() && v.Pos() < d.body.End()) {
			return false
		}
		fresh, n := d.defsFresh(v, nil, depth+1)
		return fresh && n > 0
	}
	return false
}

// exclusiveBranches: a and b lie in different branches of one if / switch / select (so a definition at
// a cannot reach a use at b), and no loop below the variable's declaration can carry a into b.
func (d *danalysis) exclusiveBranches(a, b ast.Node, v *types.Var) bool {
	anc := map[ast.Node]ast.Node{} // ancestor → child on the way to a
	child := a
	for n := d.par[a]; n != nil; child, n = n, d.par[n] {
		anc[n] = child
		if n == d.scope {
			break
		}
	}
	child = b
	for n := d.par[b]; n != nil; child, n = n, d.par[n] {
		if ca, ok := anc[n]; ok {
			// n is the lowest common ancestor; ca / child are the subtrees holding a / b
			excl := false
			switch x := n.(type) {
			case *ast.IfStmt:
				excl = (ca == ast.Node(x.Body) && x.Else != nil && child == ast.Node(x.Else)) || (x.Else != nil && ca == ast.Node(x.Else) && child == ast.Node(x.Body))
			case *ast.BlockStmt:
				_, c1 := ca.(*ast.CaseClause)
				_, c2 := child.(*ast.CaseClause)
				_, m1 := ca.(*ast.CommClause)
				_, m2 := child.(*ast.CommClause)
				excl = ca != child && ((c1 && c2) || (m1 && m2))
			}
			if !excl {
				return false
			}
			// a loop around the common ancestor, inside the variable's scope, could carry the definition over
			for m := n; m != nil && m != d.scope; m = d.par[m] {
				switch m.(type) {
				case *ast.ForStmt, *ast.RangeStmt:
					if v.Pos() < m.Pos() {
						return false
					}
				}
			}
			return true
		}
		if n == d.scope {
			break
		}
	}
	return false
}

// defsFresh: are all definitions of v (that can reach `use`, when given) fresh?  Returns also their number.
func (d *danalysis) defsFresh(v *types.Var, use ast.Node, depth int) (bool, int) {
	fresh, n := true, 0
	note := func(pos token.Pos, format string, a ...interface{}) {
		fresh = false
		if depth == 0 {
			d.why("%s:%d "+format, append([]interface{}{d.p.base(pos), d.p.line(pos)}, a...)...)
		}
	}
	ast.Inspect(d.body, func(m ast.Node) bool {
		switch x := m.(type) {
		case *ast.AssignStmt:
			for i, l := range x.Lhs {
				lid, ok := l.(*ast.Ident)
				if !ok || d.obj(lid) != types.Object(v) {
					continue
				}
				if use != nil && d.exclusiveBranches(x, use, v) {
					continue
				}
				n++
				if len(x.Lhs) != len(x.Rhs) {
					note(x.Pos(), "defined by a multi-value expression")
					continue
				}
				if (x.Tok != token.DEFINE && x.Tok != token.ASSIGN) || !d.freshExpr(x.Rhs[i], depth) {
					note(x.Pos(), "defined as %s, not by a fresh-allocating value.To*/New* call", exprText(x.Rhs[i]))
				}
			}
		case *ast.ValueSpec:
			for i, nm := range x.Names {
				if d.p.Info.Defs[nm] != types.Object(v) {
					continue
				}
				n++
				if len(x.Values) == 0 {
					continue // zero value nil: Discard(nil) does nothing
				}
				if len(x.Values) != len(x.Names) {
					note(x.Pos(), "declared with a multi-value expression")
					continue
				}
				if !d.freshExpr(x.Values[i], depth) {
					note(x.Pos(), "declared as %s", exprText(x.Values[i]))
				}
			}
		case *ast.RangeStmt:
			for _, l := range []ast.Expr{x.Key, x.Value} {
				if lid, ok := l.(*ast.Ident); ok && d.obj(lid) == types.Object(v) {
					n++
					note(x.Pos(), "is a range variable")
				}
			}
		}
		return true
	})
	return fresh, n
}

// localSliceSite: value.Discard(a[i]) where a is a local slice made in this function whose elements are
// only ever assigned fresh objects and only read back through value getters.
func (d *danalysis) localSliceSite(ix *ast.IndexExpr, call *ast.CallExpr) bool {
	id, ok := ix.X.(*ast.Ident)
	if !ok {
		return false
	}
	a, ok := d.obj(id).(*types.Var)
	if !ok || a.IsField() || !(d.fnBody.Pos() <= a.Pos() && a.Pos() < d.fnBody.End()) {
		return false
	}
	if _, isSlice := a.Type().Underlying().(*types.Slice); !isSlice {
		return false
	}
	// one definition, by make
	ndef, okAll := 0, true
	outer := &danalysis{p: d.p, scope: d.fnScope, body: d.fnBody, fnBody: d.fnBody, fnScope: d.fnScope, par: d.par, site: d.site}
	ast.Inspect(d.fnBody, func(m ast.Node) bool {
		idn, ok := m.(*ast.Ident)
		if !ok || d.obj(idn) != types.Object(a) {
			return true
		}
		var n ast.Node = idn
		par := d.par[n]
		switch x := par.(type) {
		case *ast.AssignStmt: // a := make(...)
			for i, l := range x.Lhs {
				if l == ast.Expr(idn) {
					ndef++
					c, isCall := x.Rhs[i].(*ast.CallExpr)
					fid, _ := func() (*ast.Ident, bool) {
						if isCall {
							f, ok := c.Fun.(*ast.Ident)
							return f, ok
						}
						return nil, false
					}()
					if len(x.Lhs) != len(x.Rhs) || !isCall || fid == nil || fid.Name != "make" {
						okAll = false
					}
					return true
				}
			}
			okAll = false // a used as a value on the right-hand side
		case *ast.IndexExpr:
			if x.X != ast.Expr(idn) {
				okAll = false
				return true
			}
			switch y := d.par[x].(type) {
			case *ast.AssignStmt:
				isLhs := false
				for i, l := range y.Lhs {
					if l == ast.Expr(x) {
						isLhs = true
						if len(y.Lhs) != len(y.Rhs) || !outer.freshExpr(y.Rhs[i], 1) {
							okAll = false
							d.why("%s:%d element assigned %s, which is not fresh", d.p.base(y.Pos()), d.p.line(y.Pos()), exprText(y.Rhs[i]))
						}
					}
				}
				if !isLhs {
					okAll = false
				}
			case *ast.BinaryExpr:
				other := y.X
				if y.X == ast.Expr(x) {
					other = y.Y
				}
				if oid, ok := other.(*ast.Ident); !ok || oid.Name != "nil" {
					okAll = false
				}
			case *ast.TypeAssertExpr:
				sel, ok := d.par[y].(*ast.SelectorExpr)
				if !ok || !getterMethods[sel.Sel.Name] {
					okAll = false
				}
			case *ast.CallExpr:
				if !isValueFunc(calleeFunc(d.p, y), pureNames...) {
					okAll = false
				}
			default:
				okAll = false
			}
		case *ast.RangeStmt:
			if x.X != ast.Expr(idn) || x.Value != nil {
				okAll = false
			}
		case *ast.CallExpr:
			if f, ok := x.Fun.(*ast.Ident); !ok || (f.Name != "len" && f.Name != "cap") {
				okAll = false
			}
		default:
			okAll = false
		}
		return true
	})
	if ndef != 1 || !okAll {
		return false
	}
	// the Discard must run when the function returns: inside a function literal that is deferred
	fl, ok := d.scope.(*ast.FuncLit)
	if !ok {
		return false
	}
	if c, ok := d.par[fl].(*ast.CallExpr); ok && c.Fun == ast.Expr(fl) {
		if _, ok := d.par[c].(*ast.DeferStmt); ok {
			return true
		}
	}
	return false
}

func genDiscardFacts() {
	var doubles []dsite
	var sites []*dsite
	for _, pk := range []struct{ dir, path string }{{"query", queryPkg}, {"value", valuePkg}} {
		p := loadPkg(filepath.Join(repoRoot(), "lib", pk.dir), pk.path)
		for _, f := range p.Files {
			for _, decl := range f.Decls {
				fd, ok := decl.(*ast.FuncDecl)
				if !ok || fd.Body == nil {
					continue
				}
				if pk.path == valuePkg && fd.Name.Name == "Discard" && fd.Recv == nil {
					continue // the definition itself
				}
				par := parents(fd)
				var calls []*ast.CallExpr
				ast.Inspect(fd.Body, func(n ast.Node) bool {
					if c, ok := n.(*ast.CallExpr); ok && isValueFunc(calleeFunc(p, c), "Discard") {
						calls = append(calls, c)
					}
					return true
				})
				// a value released twice on one path: `defer value.Discard(x)` together with an explicit Discard(x) that the
				// same execution passes, or two explicit Discards of x without a new value in between.  The object then sits
				// in the pool twice and the next two allocations of its type are ONE object.
				{
					type rel struct {
						c        *ast.CallExpr
						stmt     ast.Node
						deferred bool
						obj      types.Object
						scope    ast.Node
					}
					var rels []rel
					for _, c := range calls {
						if len(c.Args) != 1 {
							continue
						}
						id, ok := c.Args[0].(*ast.Ident)
						if !ok {
							continue
						}
						o := p.Info.Uses[id]
						if o == nil {
							continue
						}
						var scope ast.Node = fd
						for n := par[ast.Node(c)]; n != nil; n = par[n] {
							if fl, ok := n.(*ast.FuncLit); ok {
								scope = fl
								break
							}
						}
						st := par[ast.Node(c)]
						_, isDefer := st.(*ast.DeferStmt)
						rels = append(rels, rel{c, st, isDefer, o, scope})
					}
					reassignedBetween := func(o types.Object, from, to token.Pos) bool {
						found := false
						ast.Inspect(fd.Body, func(n ast.Node) bool {
							if as, ok := n.(*ast.AssignStmt); ok && from < as.Pos() && as.Pos() < to {
								for _, l := range as.Lhs {
									if id, ok := l.(*ast.Ident); ok && (p.Info.Uses[id] == o || p.Info.Defs[id] == o) {
										found = true
									}
								}
							}
							return true
						})
						return found
					}
					encloses := func(blockOf ast.Node, inner ast.Node) bool {
						blk := par[blockOf]
						for n := inner; n != nil; n = par[n] {
							if n == blk {
								return true
							}
						}
						return false
					}
					seenDouble := map[string]bool{}
					addDouble := func(a, b rel, how string) {
						k := fmt.Sprintf("%d|%d", a.c.Pos(), b.c.Pos())
						if seenDouble[k] {
							return
						}
						seenDouble[k] = true
						doubles = append(doubles, dsite{file: p.base(b.c.Pos()), fn: funcLabel(fd), v: a.obj.Name(), line: p.line(b.c.Pos()),
							why: []string{fmt.Sprintf("%s (lines %d and %d)", how, p.line(a.c.Pos()), p.line(b.c.Pos()))}})
					}
					for i, a := range rels {
						for j, b := range rels {
							if i == j || a.obj != b.obj || a.scope != b.scope || a.c.Pos() >= b.c.Pos() {
								continue
							}
							if reassignedBetween(a.obj, a.c.Pos(), b.c.Pos()) {
								continue
							}
							switch {
							case a.deferred && !b.deferred:
								// the deferred release is registered in a block that encloses the explicit one
								if encloses(a.stmt, b.stmt) {
									addDouble(a, b, "released explicitly and again by the deferred Discard registered before")
								}
							case a.deferred && b.deferred:
								if encloses(a.stmt, b.stmt) {
									addDouble(a, b, "two deferred Discards of the same value")
								}
							default:
								// a explicit: does some path from a reach b (explicit or defer registration) ?
								if _, ok := a.stmt.(*ast.ExprStmt); ok {
									var body = fd.Body
									if fl, ok := a.scope.(*ast.FuncLit); ok {
										body = fl.Body
									}
									dd := &danalysis{p: p, scope: a.scope, body: body, fnBody: fd.Body, fnScope: fd, par: par, site: &dsite{}, onlyDiscards: true}
									if dd.usedAfter(a.stmt, map[types.Object]bool{a.obj: true}) {
										addDouble(a, b, "released twice on one path without a new value in between")
									}
								}
							}
						}
					}
				}
				for _, c := range calls {
					s := &dsite{file: p.base(c.Pos()), fn: funcLabel(fd), line: p.line(c.Pos()), fresh: true}
					sites = append(sites, s)
					if len(c.Args) != 1 {
						fatal("%s: Discard with %d arguments", p.at(c.Pos()), len(c.Args))
					}
					s.v = exprText(c.Args[0])
					// innermost enclosing function
					var scope ast.Node = fd
					var body = fd.Body
					for n := par[ast.Node(c)]; n != nil; n = par[n] {
						if fl, ok := n.(*ast.FuncLit); ok {
							scope, body = fl, fl.Body
							break
						}
					}
					d := &danalysis{p: p, scope: scope, body: body, fnBody: fd.Body, fnScope: fd, par: par, site: s}
					if ix, ok := c.Args[0].(*ast.IndexExpr); ok {
						if !d.localSliceSite(ix, c) {
							s.fresh = false
							d.why("the argument is an element of a slice that is not provably local and filled with fresh objects only")
						}
						continue
					}
					id, ok := c.Args[0].(*ast.Ident)
					if !ok {
						s.fresh = false
						d.why("the argument is not a local variable")
						continue
					}
					o, _ := d.obj(id).(*types.Var)
					if o == nil || o.IsField() || !(body.Pos() <= o.Pos() && o.Pos() < body.End()) {
						s.fresh = false
						d.why("the argument is a parameter, a captured or a package-level variable")
						continue
					}
					stmt := par[ast.Node(c)]
					// (a) every definition that can reach the Discard is a fresh-allocating call
					fresh, ndefs := d.defsFresh(o, stmt, 0)
					if !fresh {
						s.fresh = false
					}
					if ndefs == 0 {
						s.fresh = false
						d.why("no definition found in the function")
					}
					// (c) escapes
					objs := map[types.Object]bool{types.Object(o): true}
					d.checkUses(o, objs)
					// (b) used after
					switch st := stmt.(type) {
					case *ast.ExprStmt:
						if d.usedAfter(st, objs) {
							s.used = true
							d.why("mentioned again after the Discard at line %d", s.line)
						}
					case *ast.DeferStmt:
						// runs when the function returns, after the results are evaluated: only a returned
						// object can still be referenced
						ast.Inspect(body, func(n ast.Node) bool {
							if r, ok := n.(*ast.ReturnStmt); ok && r.Pos() > st.Pos() && d.mentions(r, objs) {
								s.used = true
								d.why("%s:%d returned although a deferred Discard recycles it", p.base(r.Pos()), p.line(r.Pos()))
							}
							return true
						})
					default:
						s.used = true
						d.why("the Discard call is neither a statement of its own nor deferred")
					}
					// closures that mention the variable may run later
					ast.Inspect(body, func(n ast.Node) bool {
						if fl, ok := n.(*ast.FuncLit); ok && ast.Node(fl) != scope {
							if d.mentions(fl.Body, objs) && !(fl.Pos() <= c.Pos() && c.End() <= fl.End()) {
								s.used = true
								d.why("%s:%d captured by a function literal", p.base(fl.Pos()), p.line(fl.Pos()))
							}
						}
						return true
					})
				}
			}
		}
	}
	sort.SliceStable(sites, func(i, j int) bool {
		if sites[i].file != sites[j].file {
			return sites[i].file < sites[j].file
		}
		return sites[i].line < sites[j].line
	})
	// the conversions themselves: every result of value.To* is a value.New* call (never the argument)
	type ctor struct {
		name string
		ok   bool
		why  string
	}
	var ctors []ctor
	{
		p := loadPkg(filepath.Join(repoRoot(), "lib", "value"), valuePkg)
		found := map[string]bool{}
		for _, f := range p.Files {
			for _, decl := range f.Decls {
				fd, ok := decl.(*ast.FuncDecl)
				if !ok || fd.Body == nil || fd.Recv != nil {
					continue
				}
				isConv := false
				for _, n := range freshNames {
					if n == fd.Name.Name {
						isConv = true
					}
				}
				if !isConv {
					continue
				}
				found[fd.Name.Name] = true
				c := ctor{name: fd.Name.Name, ok: true}
				nret := 0
				ast.Inspect(fd.Body, func(n ast.Node) bool {
					if _, isLit := n.(*ast.FuncLit); isLit {
						return false
					}
					if r, ok := n.(*ast.ReturnStmt); ok {
						nret++
						call, isCall := func() (*ast.CallExpr, bool) {
							if len(r.Results) != 1 {
								return nil, false
							}
							c, ok := r.Results[0].(*ast.CallExpr)
							return c, ok
						}()
						if !isCall || !isValueFunc(calleeFunc(p, call), "New*") {
							c.ok = false
							c.why += fmt.Sprintf("%s:%d returns something else than a value.New* call; ", p.base(r.Pos()), p.line(r.Pos()))
						}
					}
					return true
				})
				if nret == 0 {
					c.ok = false
					c.why = "no return statement"
				}
				ctors = append(ctors, c)
			}
		}
		for _, n := range freshNames {
			if !strings.HasSuffix(n, "*") && !found[n] {
				fatal("conversion value.%s not found", n)
			}
		}
		sort.Slice(ctors, func(i, j int) bool { return ctors[i].name < ctors[j].name })
	}
	var o strings.Builder
	o.WriteString("-- GENERATED by /verif/extract/discardfacts from lib/query and lib/value — do not edit.\n")
	o.WriteString("-- One entry per value.Discard(x) call site: (a) fresh: every definition of x in the function is a\n")
	o.WriteString("-- value.To*/value.New* call; (b) usedAfter: x is mentioned on some path after the Discard before being\n")
	o.WriteString("-- reassigned; (c) escapes: x is returned, stored, captured or passed to a function that may keep it.\n")
	o.WriteString("import Csvq.Model.Pool\n\nnamespace Csvq.Gen\nopen Csvq.Pool\n\n")
	o.WriteString("def discardFacts : List DiscardFact := [\n")
	for i, s := range sites {
		sep := ","
		if i == len(sites)-1 {
			sep = ""
		}
		fmt.Fprintf(&o, "  ⟨%s, %d, %s, %s, %v, %v, %v, %s⟩%s\n", leanStr(s.file), s.line, leanStr(s.fn), leanStr(s.v), s.fresh, s.used, s.escape,
			leanStr(strings.Join(s.why, "; ")), sep)
	}
	o.WriteString("]\n\n/-- a value handed to value.Discard twice on one path (file, line, function, variable, how) -/\ndef doubleDiscardFacts : List AstWriteFact := [\n")
	for i, dd := range doubles {
		sep := ","
		if i == len(doubles)-1 {
			sep = ""
		}
		fmt.Fprintf(&o, "  ⟨%s, %d, %s, %s, %s⟩%s\n", leanStr(dd.file), dd.line, leanStr(dd.fn), leanStr(dd.v), leanStr(strings.Join(dd.why, "; ")), sep)
	}
	o.WriteString("]\n\n/-- (conversion, every return statement is a value.New* call, detail) -/\ndef conversionFacts : List (String × Bool × String) := [\n")
	for i, c := range ctors {
		sep := ","
		if i == len(ctors)-1 {
			sep = ""
		}
		fmt.Fprintf(&o, "  (%s, %v, %s)%s\n", leanStr(c.name), c.ok, leanStr(c.why), sep)
	}
	o.WriteString("]\n\nend Csvq.Gen\n")
	fmt.Print(o.String())
}
