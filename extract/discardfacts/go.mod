module discardfacts

go 1.23
