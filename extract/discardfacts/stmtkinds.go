package main

// stmtkinds — generator of lean/Csvq/Gen/StmtKinds.lean (property C14).
//
//	go run . stmtkinds
//
// What the dynamic cross-check of C14 has to execute is read off the grammar, not picked by hand:
//
//   - grammarStatementKinds: every node type that an action of lib/parser/parser.y builds (composite literal)
//     in a production whose left-hand side is declared %type<statement>;
//   - executedStatementKinds: every `case parser.X` of the type switch in Processor.ExecuteStatement
//     (lib/query/processor.go);
//   - operandSlots: every "Node.Field" that an action of parser.y fills from a grammar symbol that derives an
//     arbitrary scalar expression (the closure of `substantial_value` under productions made of such symbols and
//     commas: value, values, substantial_values, arguments, …) — the places where evaluation receives an operand
//     that may be a literal of the syntax tree, a variable, a table cell or a cursor-fetched value;
//   - workloadStatementKinds / workloadSlots: what harness/cmd/c14/workloads.go declares a workload for (the
//     `stmt:` and `slot:` strings of its `workload{…}` literals).
//
// Csvq.C14.every_statement_kind_has_workload / every_operand_slot_has_workload compare the lists by `decide`:
// a statement kind or operand position that is added to the grammar without a workload breaks the obligation.

import (
	"fmt"
	"go/ast"
	"go/parser"
	"go/token"
	"os"
	"path/filepath"
	"regexp"
	"sort"
	"strconv"
	"strings"
)

type yAlt struct {
	lhs  string
	syms []string
	act  string
}

var reDollarY = regexp.MustCompile(`\$\$|\$[0-9]+`)

// parseGrammar reads the rules section of a goyacc file: one yAlt per alternative (with its last action).
func parseGrammar(path string) (alts []yAlt, types map[string]string) {
	b, err := os.ReadFile(path)
	if err != nil {
		fatal("%v", err)
	}
	parts := strings.Split(string(b), "\n%%")
	if len(parts) < 2 {
		fatal("parser.y: no %%%% separator")
	}
	types = map[string]string{}
	for _, m := range regexp.MustCompile(`(?m)^%type<(\w+)>\s+(\w+)`).FindAllStringSubmatch(parts[0], -1) {
		types[m[2]] = m[1]
	}
	rs := []rune(parts[1])
	i := 0
	lhs := ""
	var cur *yAlt
	flush := func() {
		if cur != nil && lhs != "" {
			alts = append(alts, *cur)
		}
		cur = nil
	}
	skip := func() {
		for i < len(rs) && (rs[i] == ' ' || rs[i] == '\t' || rs[i] == '\n' || rs[i] == '\r') {
			i++
		}
	}
	word := func() string {
		j := i
		if i < len(rs) && rs[i] == '\'' {
			i++
			for i < len(rs) && rs[i] != '\'' {
				if rs[i] == '\\' {
					i++
				}
				i++
			}
			i++
			return string(rs[j:i])
		}
		for i < len(rs) && (rs[i] == '_' || rs[i] == '%' || rs[i] >= 'a' && rs[i] <= 'z' || rs[i] >= 'A' && rs[i] <= 'Z' || rs[i] >= '0' && rs[i] <= '9') {
			i++
		}
		return string(rs[j:i])
	}
	action := func() string {
		j, depth := i, 0
		for i < len(rs) {
			switch rs[i] {
			case '{':
				depth++
			case '}':
				depth--
				if depth == 0 {
					i++
					return string(rs[j:i])
				}
			case '"', '`':
				q := rs[i]
				i++
				for i < len(rs) && rs[i] != q {
					if rs[i] == '\\' && q == '"' {
						i++
					}
					i++
				}
			case '\'':
				i++
				for i < len(rs) && rs[i] != '\'' {
					if rs[i] == '\\' {
						i++
					}
					i++
				}
			}
			i++
		}
		fatal("parser.y: unterminated action")
		return ""
	}
	for {
		skip()
		if i >= len(rs) {
			break
		}
		switch {
		case rs[i] == '{':
			a := action()
			if cur == nil {
				cur = &yAlt{lhs: lhs}
			}
			cur.act = a
		case rs[i] == '|' || rs[i] == ':':
			i++
			flush()
			cur = &yAlt{lhs: lhs}
		case rs[i] == ';':
			i++
			flush()
		case rs[i] == '/' && i+1 < len(rs) && rs[i+1] == '/':
			for i < len(rs) && rs[i] != '\n' {
				i++
			}
		case rs[i] == '/' && i+1 < len(rs) && rs[i+1] == '*':
			for i+1 < len(rs) && !(rs[i] == '*' && rs[i+1] == '/') {
				i++
			}
			i += 2
		default:
			w := word()
			if w == "" {
				fatal("parser.y: unexpected %q", string(rs[i]))
			}
			if w == "%prec" {
				skip()
				word()
				continue
			}
			k := i
			skip()
			if i < len(rs) && rs[i] == ':' {
				flush()
				lhs = w
				continue
			}
			i = k
			if cur == nil {
				cur = &yAlt{lhs: lhs}
			}
			cur.syms = append(cur.syms, w)
		}
	}
	flush()
	return alts, types
}

type yLit struct {
	node   string
	fields [][2]string // field, space-separated grammar symbols its value mentions
}

// literalsOf: the keyed composite literals `T{…}` of an action, with the grammar symbols each field is filled from
func literalsOf(a yAlt) []yLit {
	if a.act == "" {
		return nil
	}
	code := reDollarY.ReplaceAllStringFunc(a.act, func(m string) string {
		if m == "$$" {
			return "yyVAL"
		}
		return "yyD" + m[1:]
	})
	fset := token.NewFileSet()
	f, err := parser.ParseFile(fset, "action.go", "package p\nfunc _() "+code, 0)
	if err != nil {
		fatal("parser.y: action of %s: %v\n%s", a.lhs, err, a.act)
	}
	var out []yLit
	re := regexp.MustCompile(`^yyD([0-9]+)$`)
	elided := map[*ast.CompositeLit]string{}
	// locals of the action that were filled from grammar symbols (`item1 = []QueryExpression{$1}`): a field set
	// from such a local is set from those symbols
	taint := map[string][]string{}
	symsOf := func(e ast.Node) []string {
		var used []string
		ast.Inspect(e, func(y ast.Node) bool {
			if yi, ok := y.(*ast.Ident); ok {
				if m := re.FindStringSubmatch(yi.Name); m != nil && m[0] == yi.Name {
					k, _ := strconv.Atoi(m[1])
					if k >= 1 && k <= len(a.syms) {
						used = append(used, a.syms[k-1])
					}
				} else if t, ok := taint[yi.Name]; ok {
					used = append(used, t...)
				}
			}
			return true
		})
		return used
	}
	for pass := 0; pass < 2; pass++ {
		ast.Inspect(f, func(x ast.Node) bool {
			as, ok := x.(*ast.AssignStmt)
			if !ok {
				return true
			}
			for i, lhs := range as.Lhs {
				li, ok := lhs.(*ast.Ident)
				if !ok || li.Name == "yyVAL" || li.Name == "_" || i >= len(as.Rhs) && len(as.Rhs) != 1 {
					continue
				}
				rhs := as.Rhs[0]
				if i < len(as.Rhs) {
					rhs = as.Rhs[i]
				}
				for _, sy := range symsOf(rhs) {
					dup := false
					for _, t := range taint[li.Name] {
						dup = dup || t == sy
					}
					if !dup {
						taint[li.Name] = append(taint[li.Name], sy)
					}
				}
			}
			return true
		})
	}
	ast.Inspect(f, func(x ast.Node) bool {
		cl, ok := x.(*ast.CompositeLit)
		if !ok {
			return true
		}
		if at, ok := cl.Type.(*ast.ArrayType); ok {
			// []ElseIf{{Condition: $2, …}}: the elements take their type from the slice literal
			if el, ok := at.Elt.(*ast.Ident); ok {
				for _, e := range cl.Elts {
					if ecl, ok := e.(*ast.CompositeLit); ok && ecl.Type == nil {
						elided[ecl] = el.Name
					}
				}
			}
			return true
		}
		name := elided[cl]
		if id, ok := cl.Type.(*ast.Ident); ok {
			name = id.Name
		}
		if name == "" {
			return true
		}
		id := &ast.Ident{Name: name}
		l := yLit{node: id.Name}
		for _, el := range cl.Elts {
			kv, ok := el.(*ast.KeyValueExpr)
			if !ok {
				fatal("parser.y: %s: %s built with positional fields", a.lhs, id.Name)
			}
			key, ok := kv.Key.(*ast.Ident)
			if !ok {
				continue
			}
			// only the symbols the field takes DIRECTLY (a nested literal of a node type is reported on its own)
			var used []string
			ast.Inspect(kv.Value, func(y ast.Node) bool {
				if ncl, nested := y.(*ast.CompositeLit); nested {
					if _, isNode := ncl.Type.(*ast.Ident); isNode {
						return false
					}
				}
				if yi, ok := y.(*ast.Ident); ok {
					if m := re.FindStringSubmatch(yi.Name); m != nil && m[0] == yi.Name {
						k, _ := strconv.Atoi(m[1])
						if k < 1 || k > len(a.syms) {
							fatal("parser.y: %s: $%d out of range", a.lhs, k)
						}
						used = append(used, a.syms[k-1])
					} else if t, ok := taint[yi.Name]; ok {
						used = append(used, t...)
					}
				}
				return true
			})
			l.fields = append(l.fields, [2]string{key.Name, strings.Join(used, " ")})
		}
		out = append(out, l)
		return true
	})
	return out
}

// executedKinds: the `case parser.X` clauses of the type switch on the statement in Processor.ExecuteStatement
func executedKinds(path string) []string {
	fset := token.NewFileSet()
	f, err := parser.ParseFile(fset, path, nil, 0)
	if err != nil {
		fatal("%v", err)
	}
	var out []string
	for _, d := range f.Decls {
		fd, ok := d.(*ast.FuncDecl)
		if !ok || fd.Name.Name != "ExecuteStatement" || fd.Recv == nil || fd.Body == nil {
			continue
		}
		ast.Inspect(fd.Body, func(x ast.Node) bool {
			ts, ok := x.(*ast.TypeSwitchStmt)
			if !ok {
				return true
			}
			for _, cc := range ts.Body.List {
				for _, e := range cc.(*ast.CaseClause).List {
					if se, ok := e.(*ast.SelectorExpr); ok {
						if pk, ok := se.X.(*ast.Ident); ok && pk.Name == "parser" {
							out = append(out, se.Sel.Name)
						}
					}
				}
			}
			return false // the outermost type switch only
		})
	}
	if len(out) < 20 {
		fatal("processor.go: the type switch of Processor.ExecuteStatement was not found (%d cases)", len(out))
	}
	return out
}

// declaredWorkloads: the `stmt:` / `slot:` strings of the workload{…} literals of the harness
func declaredWorkloads(path string) (stmts, slots []string) {
	fset := token.NewFileSet()
	f, err := parser.ParseFile(fset, path, nil, 0)
	if err != nil {
		fatal("%v", err)
	}
	ss, sl := map[string]bool{}, map[string]bool{}
	ast.Inspect(f, func(x ast.Node) bool {
		cl, ok := x.(*ast.CompositeLit)
		if !ok {
			return true
		}
		for _, el := range cl.Elts {
			kv, ok := el.(*ast.KeyValueExpr)
			if !ok {
				continue
			}
			k, ok := kv.Key.(*ast.Ident)
			if !ok || (k.Name != "stmt" && k.Name != "slot") {
				continue
			}
			bl, ok := kv.Value.(*ast.BasicLit)
			if !ok || bl.Kind != token.STRING {
				fatal("%s: %s: is not a string literal", path, k.Name)
			}
			s, _ := strconv.Unquote(bl.Value)
			for _, part := range strings.Fields(s) {
				if k.Name == "stmt" {
					ss[part] = true
				} else {
					sl[part] = true
				}
			}
		}
		return true
	})
	for s := range ss {
		stmts = append(stmts, s)
	}
	for s := range sl {
		slots = append(slots, s)
	}
	sort.Strings(stmts)
	sort.Strings(slots)
	return
}

func leanList(l []string) string {
	var b strings.Builder
	b.WriteString("[")
	for i, s := range l {
		if i > 0 {
			b.WriteString(", ")
		}
		if i > 0 && i%6 == 0 {
			b.WriteString("\n  ")
		}
		b.WriteString(strconv.Quote(s))
	}
	b.WriteString("]")
	return b.String()
}

func genStmtKinds() {
	self, _ := os.Getwd() // …/extract/discardfacts (go run -C)
	root := repoRoot()
	alts, types := parseGrammar(filepath.Join(root, "lib", "parser", "parser.y"))

	// symbols that derive an arbitrary scalar expression
	val := map[string]bool{"substantial_value": true}
	if types["substantial_value"] == "" {
		fatal("parser.y: no nonterminal substantial_value")
	}
	// (only nonterminals that carry expressions: a <statement> or <program> that may consist of a bare expression
	// is not an operand position)
	exprTyped := map[string]bool{"queryexpr": true, "queryexprs": true, "replaceval": true, "replacevals": true}
	for changed := true; changed; {
		changed = false
		for _, a := range alts {
			if val[a.lhs] || len(a.syms) == 0 || !exprTyped[types[a.lhs]] {
				continue
			}
			all := true
			for _, s := range a.syms {
				if !(val[s] || s == "','") {
					all = false
				}
			}
			if all {
				val[a.lhs] = true
				changed = true
			}
		}
	}

	kinds := map[string]bool{}
	slots := map[string]string{}
	for _, a := range alts {
		for _, l := range literalsOf(a) {
			if types[a.lhs] == "statement" && l.node != "" && l.node[0] >= 'A' && l.node[0] <= 'Z' {
				// a node built inside a statement production but nested in a field of the statement node is a
				// part of it, not a statement (SelectEntity inside SelectQuery): keep the types assigned to $$
				if regexp.MustCompile(`\$\$\s*=\s*` + l.node + `\s*\{`).MatchString(a.act) {
					kinds[l.node] = true
				}
			}
			for _, f := range l.fields {
				for _, s := range strings.Fields(f[1]) {
					if val[s] {
						key := l.node + "." + f[0]
						if !strings.Contains(slots[key], s) {
							slots[key] = strings.TrimSpace(slots[key] + " " + s)
						}
					}
				}
			}
		}
	}
	// statements a production passes on from a nonterminal that is not typed <statement> (select_query is a
	// <queryexpr> that procedure_statement uses as a statement)
	for _, a := range alts {
		if types[a.lhs] != "statement" || len(a.syms) == 0 {
			continue
		}
		if !regexp.MustCompile(`\$\$\s*=\s*\$1\s*\}`).MatchString(strings.Join(strings.Fields(a.act), " ")) {
			continue
		}
		src := a.syms[0]
		if types[src] == "statement" {
			continue
		}
		if val[src] {
			// a bare expression used as a statement (`@v := 1;`, `f(2);`): one kind of its own
			kinds["BareExpression"] = true
			continue
		}
		for _, b := range alts {
			if b.lhs != src {
				continue
			}
			for _, l := range literalsOf(b) {
				if regexp.MustCompile(`\$\$\s*=\s*` + l.node + `\s*\{`).MatchString(b.act) {
					kinds[l.node] = true
				}
			}
		}
	}
	var gk, sl, vs []string
	for k := range kinds {
		gk = append(gk, k)
	}
	for k := range slots {
		sl = append(sl, k)
	}
	for k := range val {
		vs = append(vs, k)
	}
	sort.Strings(gk)
	sort.Strings(sl)
	sort.Strings(vs)
	if len(gk) < 30 || len(sl) < 30 {
		fatal("parser.y: only %d statement kinds and %d operand slots found", len(gk), len(sl))
	}
	ek := executedKinds(filepath.Join(root, "lib", "query", "processor.go"))
	ws, wl := declaredWorkloads(filepath.Join(self, "..", "..", "harness", "cmd", "c14", "workloads.go"))

	fmt.Println("-- GENERATED by /verif/extract/discardfacts (mode stmtkinds) from lib/parser/parser.y, lib/query/processor.go and")
	fmt.Println("-- /verif/harness/cmd/c14/workloads.go — do not edit.")
	fmt.Println()
	fmt.Println("namespace Csvq.Gen")
	fmt.Println()
	fmt.Println("/-- grammar symbols that derive an arbitrary scalar expression (closure of substantial_value) -/")
	fmt.Printf("def valueSymbols : List String := %s\n\n", leanList(vs))
	fmt.Println("/-- node types assigned to `$$` in productions of parser.y typed <statement> (or passed on as a statement) -/")
	fmt.Printf("def grammarStatementKinds : List String := %s\n\n", leanList(gk))
	fmt.Println("/-- the cases of the type switch in Processor.ExecuteStatement -/")
	fmt.Printf("def executedStatementKinds : List String := %s\n\n", leanList(ek))
	fmt.Println("/-- Node.Field positions that parser.y fills from a value symbol: where evaluation receives an operand -/")
	fmt.Printf("def operandSlots : List String := %s\n\n", leanList(sl))
	fmt.Println("/-- the grammar symbols each operand slot is filled from -/")
	var pairs []string
	for _, k := range sl {
		pairs = append(pairs, fmt.Sprintf("(%s, %s)", strconv.Quote(k), strconv.Quote(slots[k])))
	}
	fmt.Printf("def operandSlotSymbols : List (String × String) := [%s]\n\n", strings.Join(pairs, ",\n  "))
	fmt.Println("/-- statement kinds the harness declares a workload for (harness/cmd/c14/workloads.go, `stmt:`) -/")
	fmt.Printf("def workloadStatementKinds : List String := %s\n\n", leanList(ws))
	fmt.Println("/-- operand slots the harness declares a workload for (`slot:`) -/")
	fmt.Printf("def workloadSlots : List String := %s\n\n", leanList(wl))
	fmt.Println("end Csvq.Gen")
}
