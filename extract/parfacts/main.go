// parfacts — generator of lean/Csvq/Gen/ParFacts.lean and lean/Csvq/Gen/RecordRange.lean (property C13).
//
//	go run . parfacts      the access facts of every fork–join region of lib/query
//	go run . recordrange   the arithmetic of GoroutineTaskManager.RecordRange as a Lean definition
//	go run . routine       the goroutine-slot bookkeeping (AssignRoutineNumber, Release, Done, SetCPU) as Lean definitions
//
// Source tree: $VERIF_REPO (default /repo).  Standard library only.  Any construct without a rule makes
// the program exit with status 1 (the check then reports an undischarged obligation, never "holds").
package main

import (
	"fmt"
	"go/ast"
	"go/token"
	"go/types"
	"os"
	"path/filepath"
	"sort"
	"strings"
)

var ipDebug bool

func main() {
	mode := "parfacts"
	if len(os.Args) > 1 {
		mode = os.Args[1]
	}
	switch mode {
	case "parfacts":
		genParFacts()
	case "ipdebug":
		ipDebug = true
		genParFacts()
	case "recordrange":
		genRecordRange()
	case "routine":
		genRoutine()
	default:
		fatal("unknown mode %q", mode)
	}
}

// enclosing returns the chain of nodes from the file down to (and including) target.
func enclosing(root ast.Node, target ast.Node) []ast.Node {
	var path, found []ast.Node
	ast.Inspect(root, func(n ast.Node) bool {
		if found != nil {
			return false
		}
		if n == nil {
			path = path[:len(path)-1]
			return true
		}
		path = append(path, n)
		if n == target {
			found = append([]ast.Node(nil), path...)
			return false
		}
		return true
	})
	return found
}

func stmtList(n ast.Node) []ast.Stmt {
	switch x := n.(type) {
	case *ast.BlockStmt:
		return x.List
	case *ast.CaseClause:
		return x.Body
	case *ast.CommClause:
		return x.Body
	}
	return nil
}

func isWaitStmt(p *Pkg, s ast.Stmt) bool {
	es, ok := s.(*ast.ExprStmt)
	if !ok {
		return false
	}
	c, ok := es.X.(*ast.CallExpr)
	if !ok {
		return false
	}
	sel, ok := c.Fun.(*ast.SelectorExpr)
	if !ok || sel.Sel.Name != "Wait" {
		return false
	}
	tv, ok := p.Info.Types[sel.X]
	if !ok {
		return false
	}
	n := namedType(tv.Type)
	return n == "sync.WaitGroup" || n == queryPkg+".GoroutineTaskManager"
}

func genParFacts() {
	p := loadPkg(filepath.Join(repoRoot(), "lib", "query"), queryPkg)
	a := &analysis{p: p, sums: newSummaries(), initLits: map[types.Object][]*ast.FuncLit{}, initOf: map[types.Object]ast.Expr{}, called: map[string]bool{},
		decls: map[types.Object]*ast.FuncDecl{}}

	// function declarations; local variables initialised with function literals
	for _, f := range p.Files {
		for _, d := range f.Decls {
			if fd, ok := d.(*ast.FuncDecl); ok {
				a.decls[p.Info.Defs[fd.Name]] = fd
			}
		}
		ast.Inspect(f, func(n ast.Node) bool {
			bind := func(id *ast.Ident, val ast.Expr) {
				o := p.Info.Defs[id]
				if o == nil || val == nil {
					return
				}
				a.initOf[o] = val
				ast.Inspect(val, func(m ast.Node) bool {
					if fl, ok := m.(*ast.FuncLit); ok {
						a.initLits[o] = append(a.initLits[o], fl)
						return false
					}
					return true
				})
			}
			switch x := n.(type) {
			case *ast.AssignStmt:
				if x.Tok == token.DEFINE && len(x.Lhs) == len(x.Rhs) {
					for i, l := range x.Lhs {
						if id, ok := l.(*ast.Ident); ok {
							bind(id, x.Rhs[i])
						}
					}
				}
			case *ast.ValueSpec:
				if len(x.Names) == len(x.Values) {
					for i, id := range x.Names {
						bind(id, x.Values[i])
					}
				}
			}
			return true
		})
	}

	nextID := 0
	newRegion := func(desc string, pos token.Pos) *region {
		nextID++
		r := &region{id: nextID, desc: desc, pos: pos, roots: map[types.Object]bool{}}
		a.regions = append(a.regions, r)
		return r
	}

	// closure worker: a function literal run by n goroutines; idxParam = position of the index parameter
	var ipRoots []ipRoot
	closureWorker := func(r *region, fd *ast.FuncDecl, fl *ast.FuncLit, idxParam int, space string, multi bool) {
		ipRoots = append(ipRoots, ipRoot{region: r.id, lit: fl, parent: fd})
		b := &wbody{label: funcLabel(fd), multi: multi}
		r.bodies = append(r.bodies, b)
		v := a.newVisitor(r, b, funcLabel(fd))
		v.top = fl
		v.localExt = [][2]token.Pos{{fl.Pos(), fl.End()}}
		if idxParam >= 0 {
			k := 0
			for _, fld := range fl.Type.Params.List {
				for _, nm := range fld.Names {
					if k == idxParam {
						v.own[p.Info.Defs[nm]] = space
					}
					k++
				}
			}
			if k <= idxParam {
				fatal("%s: worker closure lacks the index parameter", p.at(fl.Pos()))
			}
		}
		v.seenLits[fl] = true
		v.stmts(fl.Body.List)
	}

	// named worker: a declared function/method started with `go f(args)`; parameters bound to plain
	// variables of the parent are aliases of those variables, the others are shared by all workers.
	namedWorker := func(r *region, parentFd *ast.FuncDecl, callee *ast.FuncDecl, call *ast.CallExpr, loopVar types.Object, multi bool) {
		ipRoots = append(ipRoots, ipRoot{region: r.id, decl: callee, parent: parentFd})
		a.called[funcLabel(callee)] = true
		b := &wbody{label: funcLabel(callee), multi: multi}
		r.bodies = append(r.bodies, b)
		v := a.newVisitor(r, b, funcLabel(callee))
		v.named = true
		v.top = callee
		bindParam := func(po types.Object, arg ast.Expr) {
			if id, ok := arg.(*ast.Ident); ok && loopVar != nil && p.Info.Uses[id] == loopVar {
				v.own[po] = "worker"
				return
			}
			pv := a.newVisitor(r, b, "")
			pv.named = false
			if pp := pv.pathOf(arg); pp.ok && len(pp.idxs) == 0 {
				if _, isVar := pp.root.(*types.Var); isVar {
					v.alias[po] = pp
					v.shared[pp.root] = true
					return
				}
			}
			v.shared[po] = true
		}
		if callee.Recv != nil {
			sel := call.Fun.(*ast.SelectorExpr)
			if len(callee.Recv.List[0].Names) == 1 {
				bindParam(p.Info.Defs[callee.Recv.List[0].Names[0]], sel.X)
			}
		}
		k := 0
		for _, fld := range callee.Type.Params.List {
			for _, nm := range fld.Names {
				if k < len(call.Args) {
					bindParam(p.Info.Defs[nm], call.Args[k])
				}
				k++
			}
		}
		v.stmts(callee.Body.List)
	}

	for _, f := range p.Files {
		for _, d := range f.Decls {
			fd, ok := d.(*ast.FuncDecl)
			if !ok || fd.Body == nil {
				continue
			}
			// (A), (B): callbacks of Run / EvaluateSequentially
			ast.Inspect(fd.Body, func(n ast.Node) bool {
				c, ok := n.(*ast.CallExpr)
				if !ok {
					return true
				}
				switch fn := c.Fun.(type) {
				case *ast.SelectorExpr:
					if fn.Sel.Name != "Run" {
						return true
					}
					tv, ok := p.Info.Types[fn.X]
					if !ok || namedType(tv.Type) != queryPkg+".GoroutineTaskManager" {
						return true
					}
					if len(c.Args) != 2 {
						fatal("%s: Run with %d arguments", p.at(c.Pos()), len(c.Args))
					}
					fl, ok := c.Args[1].(*ast.FuncLit)
					if !ok {
						fatal("%s: the callback of GoroutineTaskManager.Run is not a function literal", p.at(c.Pos()))
					}
					r := newRegion("GoroutineTaskManager.Run callback", c.Pos())
					closureWorker(r, fd, fl, 0, "record", true)
				case *ast.Ident:
					if fn.Name != "EvaluateSequentially" {
						return true
					}
					if _, isFunc := p.Info.Uses[fn].(*types.Func); !isFunc {
						return true
					}
					if len(c.Args) != 4 {
						fatal("%s: EvaluateSequentially with %d arguments", p.at(c.Pos()), len(c.Args))
					}
					fl, ok := c.Args[3].(*ast.FuncLit)
					if !ok {
						fatal("%s: the callback of EvaluateSequentially is not a function literal", p.at(c.Pos()))
					}
					r := newRegion("EvaluateSequentially callback", c.Pos())
					closureWorker(r, fd, fl, 1, "record", true)
				}
				return true
			})

			// (C): go statements of this function (outside nested worker literals they start themselves)
			var gos []*ast.GoStmt
			ast.Inspect(fd.Body, func(n ast.Node) bool {
				if g, ok := n.(*ast.GoStmt); ok {
					gos = append(gos, g)
				}
				return true
			})
			if len(gos) == 0 {
				continue
			}
			r := newRegion("go statements of "+funcLabel(fd), gos[0].Pos())
			var firstAnchor, waitIdx = -1, -1
			var anchorList []ast.Stmt
			for _, g := range gos {
				chain := enclosing(fd.Body, g)
				if chain == nil {
					fatal("%s: go statement not found again", p.at(g.Pos()))
				}
				// loop variable of an enclosing for statement (the worker number)
				var loopVar types.Object
				multi := false
				for _, n := range chain {
					switch l := n.(type) {
					case *ast.ForStmt:
						multi = true
						if init, ok := l.Init.(*ast.AssignStmt); ok && len(init.Lhs) == 1 {
							if id, ok := init.Lhs[0].(*ast.Ident); ok {
								loopVar = p.Info.Defs[id]
							}
						}
					case *ast.RangeStmt:
						multi = true
					case *ast.FuncLit:
						fatal("%s: go statement inside a function literal", p.at(g.Pos()))
					}
				}
				// the join: a Wait() statement following, in some enclosing statement list
				found := false
				for i := len(chain) - 2; i >= 0 && !found; i-- {
					list := stmtList(chain[i])
					if list == nil {
						continue
					}
					k := -1
					for j, s := range list {
						if s == chain[i+1] {
							k = j
						}
					}
					if k < 0 {
						continue
					}
					for j := k + 1; j < len(list); j++ {
						if isWaitStmt(p, list[j]) {
							if anchorList == nil {
								anchorList, firstAnchor, waitIdx = list, k, j
							} else if len(anchorList) != len(list) || anchorList[0] != list[0] || waitIdx != j {
								fatal("%s: go statements of one function joined at different places", p.at(g.Pos()))
							} else if k < firstAnchor {
								firstAnchor = k
							}
							found = true
							break
						}
					}
				}
				if !found {
					fatal("%s: no Wait() found after this go statement (unknown join)", p.at(g.Pos()))
				}
				switch fn := g.Call.Fun.(type) {
				case *ast.FuncLit:
					if multi {
						fatal("%s: function literal started in a loop", p.at(g.Pos()))
					}
					if len(g.Call.Args) != 0 {
						fatal("%s: go func literal with arguments", p.at(g.Pos()))
					}
					closureWorker(r, fd, fn, -1, "", false)
				case *ast.Ident:
					o := p.Info.Uses[fn]
					if callee, ok := a.decls[o]; ok {
						namedWorker(r, fd, callee, g.Call, loopVar, multi)
						break
					}
					lits := a.initLits[o]
					if fl, ok := a.initOf[o].(*ast.FuncLit); ok && len(lits) == 1 {
						idx := -1
						for k, arg := range g.Call.Args {
							if id, ok := arg.(*ast.Ident); ok && loopVar != nil && p.Info.Uses[id] == loopVar {
								idx = k
							}
						}
						if multi && idx < 0 {
							fatal("%s: workers started in a loop without their loop index", p.at(g.Pos()))
						}
						if len(g.Call.Args) > 1 {
							fatal("%s: closure worker with more than the index argument", p.at(g.Pos()))
						}
						closureWorker(r, fd, fl, idx, "worker", multi)
						break
					}
					fatal("%s: cannot resolve the goroutine body %s", p.at(g.Pos()), fn.Name)
				case *ast.SelectorExpr:
					sel := p.Info.Selections[fn]
					if sel == nil || sel.Kind() != types.MethodVal {
						fatal("%s: cannot resolve the goroutine body %s", p.at(g.Pos()), exprText(fn))
					}
					callee, ok := a.decls[sel.Obj()]
					if !ok {
						fatal("%s: goroutine body %s is not declared in this package", p.at(g.Pos()), exprText(fn))
					}
					namedWorker(r, fd, callee, g.Call, loopVar, multi)
				default:
					fatal("%s: goroutine body of an unsupported form", p.at(g.Pos()))
				}
			}
			// the parent between fork and join
			pb := &wbody{label: funcLabel(fd), parent: true}
			r.bodies = append(r.bodies, pb)
			pv := a.newVisitor(r, pb, funcLabel(fd))
			pv.named = true
			pv.allowGo = true
			pv.top = fd
			for o := range r.roots {
				pv.shared[o] = true
			}
			for i := firstAnchor; i <= waitIdx; i++ {
				pv.stmt(anchorList[i])
			}
		}
	}

	// objects taken from the context (ctx.Value(key).(*T)): one object per statement execution, reachable by
	// every worker goroutine that evaluates a part of the statement — a function that writes such an object
	// (directly or through a method, see summary.go) needs a lock.  Each such function is a body that may run
	// in several goroutines at once.
	cr := newRegion("objects taken from the context (shared by all workers of a statement)", token.NoPos)
	for _, f := range p.Files {
		for _, d := range f.Decls {
			fd, ok := d.(*ast.FuncDecl)
			if !ok || fd.Body == nil {
				continue
			}
			tainted := map[types.Object]bool{}
			isCtxValue := func(e ast.Expr) bool {
				found := false
				ast.Inspect(e, func(n ast.Node) bool {
					switch x := n.(type) {
					case *ast.FuncLit:
						return false
					case *ast.CallExpr:
						if sel, ok := x.Fun.(*ast.SelectorExpr); ok && sel.Sel.Name == "Value" && len(x.Args) == 1 {
							if tv, ok := p.Info.Types[sel.X]; ok && namedType(tv.Type) == "context.Context" {
								found = true
							}
						}
					case *ast.Ident:
						if o := p.Info.Uses[x]; o != nil && tainted[o] {
							found = true
						}
					}
					return !found
				})
				return found
			}
			pure := func(e ast.Expr) bool { // the value itself, possibly asserted: not a field or a call result of it
				for {
					switch x := e.(type) {
					case *ast.ParenExpr:
						e = x.X
						continue
					case *ast.TypeAssertExpr:
						e = x.X
						continue
					case *ast.Ident:
						return true
					case *ast.CallExpr:
						sel, ok := x.Fun.(*ast.SelectorExpr)
						return ok && sel.Sel.Name == "Value"
					}
					return false
				}
			}
			for changed := true; changed; {
				changed = false
				ast.Inspect(fd.Body, func(n ast.Node) bool {
					as, ok := n.(*ast.AssignStmt)
					if !ok || len(as.Rhs) != 1 || !pure(as.Rhs[0]) || !isCtxValue(as.Rhs[0]) {
						return true
					}
					if id, ok := as.Lhs[0].(*ast.Ident); ok && id.Name != "_" {
						o := p.Info.Defs[id]
						if o == nil {
							o = p.Info.Uses[id]
						}
						if o != nil && !tainted[o] {
							tainted[o] = true
							changed = true
						}
					}
					return true
				})
			}
			if len(tainted) == 0 {
				continue
			}
			b := &wbody{label: funcLabel(fd), multi: true}
			v := a.newVisitor(cr, b, funcLabel(fd))
			v.named = true
			v.allowGo = true
			v.methodPass = true
			v.top = fd
			any := false
			for o := range tainted {
				switch o.Type().Underlying().(type) {
				case *types.Pointer, *types.Map, *types.Slice:
					v.shared[o] = true
					any = true
				}
			}
			if !any {
				continue
			}
			if cr.pos == token.NoPos {
				cr.pos = fd.Pos()
			}
			cr.bodies = append(cr.bodies, b)
			v.stmts(fd.Body.List)
		}
	}

	// methods of the manager types (goroutine_manager.go): the accesses to the receiver's fields
	type mfact struct {
		typ, method, field string
		rw                 byte
		underMutex         string
		concurrent         bool
		line               int
	}
	var mfacts []mfact
	mr := newRegion("methods of GoroutineTaskManager / GoroutineManager callable from several goroutines", token.NoPos)
	var methods []*ast.FuncDecl
	for _, f := range p.Files {
		if p.base(f.Pos()) != "goroutine_manager.go" {
			continue
		}
		mr.pos = f.Pos()
		for _, d := range f.Decls {
			if fd, ok := d.(*ast.FuncDecl); ok && fd.Recv != nil && fd.Body != nil {
				methods = append(methods, fd)
			}
		}
	}
	if len(methods) == 0 {
		fatal("no methods found in goroutine_manager.go")
	}
	// transitive closure of "called from worker code"
	for changed := true; changed; {
		changed = false
		for _, fd := range methods {
			lbl := funcLabel(fd)
			if !a.called[lbl] && !strings.HasPrefix(lbl, "GoroutineManager.") {
				continue
			}
			ast.Inspect(fd.Body, func(n ast.Node) bool {
				if c, ok := n.(*ast.CallExpr); ok {
					if sel, ok := c.Fun.(*ast.SelectorExpr); ok {
						if tv, ok := p.Info.Types[sel.X]; ok && isManagerType(namedType(tv.Type)) {
							nt := namedType(tv.Type)
							k := nt[strings.LastIndex(nt, ".")+1:] + "." + sel.Sel.Name
							if !a.called[k] {
								a.called[k] = true
								changed = true
							}
						}
					}
				}
				return true
			})
		}
	}
	recvNames := map[string]string{}
	for _, fd := range methods {
		lbl := funcLabel(fd)
		typ := lbl[:strings.Index(lbl, ".")]
		if len(fd.Recv.List[0].Names) != 1 {
			continue
		}
		rn := fd.Recv.List[0].Names[0]
		if prev, ok := recvNames[typ]; ok && prev != rn.Name {
			fatal("%s: receivers of %s have different names (%s, %s)", p.at(fd.Pos()), typ, prev, rn.Name)
		}
		recvNames[typ] = rn.Name
		conc := a.called[lbl] || typ == "GoroutineManager"
		tmp := &region{roots: map[types.Object]bool{}}
		b := &wbody{label: lbl, multi: true}
		v := a.newVisitor(tmp, b, lbl)
		v.named = true
		v.allowGo = true
		v.methodPass = true
		v.top = fd
		v.shared[p.Info.Defs[rn]] = true
		v.stmts(fd.Body.List)
		syncField := map[string]bool{}
		for _, ac := range tmp.acc {
			if ac.kind != kVar {
				syncField[ac.path] = true
			}
		}
		dup := map[string]bool{}
		for _, ac := range tmp.acc {
			if !strings.HasPrefix(ac.path, rn.Name+".") {
				continue // parameters and the receiver pointer itself
			}
			if conc {
				mr.acc = append(mr.acc, ac)
			}
			guard := ac.guard
			if ac.kind != kVar {
				guard = "(operation of a synchronisation object: " + ac.how + ")"
			} else if syncField[ac.path] {
				continue
			}
			mf := mfact{typ, fd.Name.Name, ac.path[len(rn.Name)+1:], ac.rw, guard, conc, p.line(ac.pos)}
			k := fmt.Sprintf("%s|%s|%c|%s", mf.method, mf.field, mf.rw, mf.underMutex)
			if dup[k] {
				continue
			}
			dup[k] = true
			mfacts = append(mfacts, mf)
		}
		if conc {
			mr.bodies = append(mr.bodies, b)
		}
	}

	// package-level variables of lib/query, lib/value and lib/option: every function of these packages can run on a
	// worker goroutine (the evaluation of an expression per record), so a package-level variable that some function
	// writes — by assignment, element assignment, or a method that changes its receiver (summary.go) — needs a
	// lock, a sync.Once, or a type that is safe for concurrent use.  `init` functions and declarations run before
	// any goroutine exists.
	extraPkgs := map[string]*Pkg{}
	pkgRegion := map[*Pkg]*region{}
	pkgAllAcc := map[*Pkg][]*access{}
	for _, extra := range []struct{ dir, path string }{{"query", queryPkg}, {"value", "github.com/mithrandie/csvq/lib/value"}, {"option", "github.com/mithrandie/csvq/lib/option"}} {
		pp := p
		aa := a
		if extra.path != queryPkg {
			pp = loadPkg(filepath.Join(repoRoot(), "lib", extra.dir), extra.path)
			extraPkgs[extra.path] = pp
			aa = &analysis{p: pp, sums: a.sums, initLits: map[types.Object][]*ast.FuncLit{}, initOf: map[types.Object]ast.Expr{}, called: map[string]bool{}, decls: map[types.Object]*ast.FuncDecl{}}
		}
		gr := newRegion("package-level variables of lib/"+extra.dir, token.NoPos)
		for _, f := range pp.Files {
			for _, d := range f.Decls {
				fd, ok := d.(*ast.FuncDecl)
				if !ok || fd.Body == nil || (fd.Recv == nil && fd.Name.Name == "init") {
					continue
				}
				b := &wbody{label: funcLabel(fd), multi: true}
				before := len(gr.acc)
				v := aa.newVisitor(gr, b, funcLabel(fd))
				v.named = true
				v.allowGo = true
				v.methodPass = true
				v.top = fd
				v.stmts(fd.Body.List)
				if len(gr.acc) > before {
					gr.bodies = append(gr.bodies, b)
					if gr.pos == token.NoPos {
						gr.pos = fd.Pos()
					}
				}
			}
		}
		pkgRegion[pp] = gr
		pkgAllAcc[pp] = append([]*access(nil), gr.acc...)
		// variables nobody writes are of no interest here: keep the facts of written variables only
		written := map[string]bool{}
		for _, ac := range gr.acc {
			if ac.rw == 'W' && ac.kind == kVar {
				root := ac.path
				if i := strings.Index(root, "."); i >= 0 {
					root = root[:i]
				}
				written[root] = true
			}
		}
		var kept []*access
		for _, ac := range gr.acc {
			root := ac.path
			if i := strings.Index(root, "."); i >= 0 {
				root = root[:i]
			}
			if written[root] {
				kept = append(kept, ac)
			}
		}
		gr.acc = kept
	}

	// fields and package-level variables handed to sync/atomic somewhere in the package: every other access to the
	// same memory has to be atomic too — a plain `*scope.Counter` (or `x` where `&x` goes to atomic.AddInt64) next
	// to the atomic operation is a data race whatever the surrounding code looks like.
	{
		ar := newRegion("fields and package-level variables accessed with sync/atomic", token.NoPos)
		type target struct {
			obj     types.Object
			pointer bool // the field itself is a pointer handed to atomic (X), not &X
		}
		targets := map[types.Object]target{}
		atomicArgs := map[ast.Expr]bool{}
		fieldOrGlobal := func(e ast.Expr) types.Object {
			switch x := e.(type) {
			case *ast.SelectorExpr:
				if sel := p.Info.Selections[x]; sel != nil && sel.Kind() == types.FieldVal {
					return sel.Obj()
				}
			case *ast.Ident:
				if o, ok := p.Info.Uses[x].(*types.Var); ok && o.Parent() == p.Types.Scope() {
					return o
				}
			}
			return nil
		}
		for _, f := range p.Files {
			ast.Inspect(f, func(n ast.Node) bool {
				c, ok := n.(*ast.CallExpr)
				if !ok || len(c.Args) == 0 {
					return true
				}
				sel, ok := c.Fun.(*ast.SelectorExpr)
				if !ok {
					return true
				}
				pid, ok := sel.X.(*ast.Ident)
				if !ok {
					return true
				}
				pn, ok := p.Info.Uses[pid].(*types.PkgName)
				if !ok || pn.Imported().Path() != "sync/atomic" {
					return true
				}
				a0 := c.Args[0]
				if u, ok := a0.(*ast.UnaryExpr); ok && u.Op == token.AND {
					if o := fieldOrGlobal(u.X); o != nil {
						targets[o] = target{o, false}
						atomicArgs[u.X] = true
					}
				} else if o := fieldOrGlobal(a0); o != nil {
					targets[o] = target{o, true}
					atomicArgs[a0] = true
				}
				return true
			})
		}
		for _, f := range p.Files {
			for _, d := range f.Decls {
				fd, ok := d.(*ast.FuncDecl)
				if !ok || fd.Body == nil {
					continue
				}
				b := &wbody{label: funcLabel(fd), multi: true}
				used := false
				par := map[ast.Node]ast.Node{}
				var stack []ast.Node
				ast.Inspect(fd.Body, func(n ast.Node) bool {
					if n == nil {
						stack = stack[:len(stack)-1]
						return true
					}
					if len(stack) > 0 {
						par[n] = stack[len(stack)-1]
					}
					stack = append(stack, n)
					return true
				})
				ast.Inspect(fd.Body, func(n ast.Node) bool {
					e, ok := n.(ast.Expr)
					if !ok {
						return true
					}
					o := fieldOrGlobal(e)
					if o == nil {
						return true
					}
					tg, ok := targets[o]
					if !ok {
						return true
					}
					if _, isSel := par[n].(*ast.SelectorExpr); isSel && par[n].(*ast.SelectorExpr).Sel == n {
						return true // the Sel identifier of the selector we already look at
					}
					add := func(rw byte, k akind, how string) {
						used = true
						if ar.pos == token.NoPos {
							ar.pos = e.Pos()
						}
						ar.acc = append(ar.acc, &access{pos: e.Pos(), fn: funcLabel(fd), body: b, path: o.Name(), rw: rw, kind: k, how: how})
					}
					if atomicArgs[e] {
						add('W', kSync, "atomic")
						return true
					}
					if tg.pointer {
						// the pointer itself may be copied, compared, allocated; only a plain dereference touches the counter
						if st, ok := par[n].(*ast.StarExpr); ok && st.X == e {
							rw := byte('R')
							if as, ok := par[st].(*ast.AssignStmt); ok {
								for _, l := range as.Lhs {
									if l == ast.Expr(st) {
										rw = 'W'
									}
								}
							}
							if _, ok := par[st].(*ast.IncDecStmt); ok {
								rw = 'W'
							}
							add(rw, kVar, "")
						}
						return true
					}
					// a value-typed field / variable: every mention outside sync/atomic is a plain access
					rw := byte('R')
					if as, ok := par[n].(*ast.AssignStmt); ok {
						for _, l := range as.Lhs {
							if l == e {
								rw = 'W'
							}
						}
					}
					if _, ok := par[n].(*ast.IncDecStmt); ok {
						rw = 'W'
					}
					if kv, ok := par[n].(*ast.KeyValueExpr); ok && kv.Key == e {
						return true // field name in a composite literal: initialisation before the object is shared
					}
					add(rw, kVar, "")
					return true
				})
				if used {
					ar.bodies = append(ar.bodies, b)
				}
			}
		}
		// an atomic operation conflicts with every plain access of the same memory
		for _, ac := range ar.acc {
			if ac.kind == kSync {
				ar.acc = append(ar.acc, &access{pos: ac.pos, fn: ac.fn, body: ac.body, path: ac.path, rw: 'W', kind: kVar, guard: "sync/atomic", how: ""})
			}
		}
	}

	// methods of Cursor (cursor.go): a cursor of an outer scope is reached from parallel evaluation — the cursor
	// status expressions (evalCursorStatus / evalCursorAttribute → IsOpen, IsInRange, Count, Pointer) in a WHERE
	// clause or select list, and FETCH / OPEN / CLOSE inside a user-defined function called from one.  Every
	// method may run in several goroutines at once.
	{
		cur := newRegion("methods of Cursor reachable from parallel evaluation", token.NoPos)
		for _, f := range p.Files {
			for _, d := range f.Decls {
				fd, ok := d.(*ast.FuncDecl)
				if !ok || fd.Recv == nil || fd.Body == nil || len(fd.Recv.List[0].Names) != 1 {
					continue
				}
				lbl := funcLabel(fd)
				if !strings.HasPrefix(lbl, "Cursor.") {
					continue
				}
				if _, isPtr := fd.Recv.List[0].Type.(*ast.StarExpr); !isPtr {
					continue
				}
				if cur.pos == token.NoPos {
					cur.pos = fd.Pos()
				}
				b := &wbody{label: lbl, multi: true}
				cur.bodies = append(cur.bodies, b)
				v := a.newVisitor(cur, b, lbl)
				v.named = true
				v.allowGo = true
				v.methodPass = true
				v.top = fd
				v.shared[p.Info.Defs[fd.Recv.List[0].Names[0]]] = true
				v.stmts(fd.Body.List)
			}
		}
		// keep the accesses to the receiver's fields only
		var kept []*access
		for _, ac := range cur.acc {
			if strings.Contains(ac.path, ".") {
				kept = append(kept, ac)
			}
		}
		cur.acc = kept
	}

	for _, r := range a.regions {
		classify(r)
	}

	// the callees of the worker bodies (interproc.go)
	ipPkgs := []*Pkg{p, extraPkgs[valuePkg], extraPkgs[optionPkg]}
	ipr := runInterproc(a, ipPkgs, ipRoots)
	if ipDebug {
		ipDebugPrint(ipr)
		return
	}
	calleeR := newRegion("functions reachable from the worker bodies: accesses through shared objects (interprocedural)", token.NoPos)
	calleeRegion(a, calleeR, ipr)
	pkgStates := packageStateFacts(ipPkgs, pkgRegion, pkgAllAcc)

	// ---------------- output ----------------
	var all []*access
	seen := map[string]bool{}
	for _, r := range a.regions {
		if r != calleeR {
			sortAcc(p, r.acc)
		}
		for _, ac := range r.acc {
			key := fmt.Sprintf("%d|%s|%d|%s|%v|%c|%s|%s|%v", r.id, p.base(ac.pos), p.line(ac.pos), ac.path, ac.elem, ac.rw, ac.cls, ac.how, ac.body.parent)
			if seen[key] {
				continue
			}
			seen[key] = true
			all = append(all, ac)
		}
	}
	regionOf := map[*access]*region{}
	for _, r := range a.regions {
		for _, ac := range r.acc {
			regionOf[ac] = r
		}
	}

	var o strings.Builder
	o.WriteString("-- GENERATED by /verif/extract/parfacts from lib/query — do not edit.\n")
	o.WriteString("-- One entry per access to a shared variable in a fork–join region (worker closures of\n")
	o.WriteString("-- GoroutineTaskManager.Run / EvaluateSequentially, bodies started with `go`, the parent between fork and join),\n")
	o.WriteString("-- and the field accesses of the manager types' methods.\n")
	o.WriteString("import Csvq.Model.ForkJoin\n\nnamespace Csvq.Gen\nopen Csvq.ForkJoin\n\n")
	o.WriteString("def parRegions : List (Nat × String × String) := [\n")
	for i, r := range a.regions {
		sep := ","
		if i == len(a.regions)-1 {
			sep = ""
		}
		fmt.Fprintf(&o, "  (%d, %s, %s)%s\n", r.id, leanStr(p.base(r.pos)), leanStr(r.desc), sep)
	}
	o.WriteString("]\n\n")
	var regionDefs []string
	for _, r := range a.regions {
		var mine []*access
		for _, ac := range all {
			if regionOf[ac] == r {
				mine = append(mine, ac)
			}
		}
		name := fmt.Sprintf("parFactsR%d", r.id)
		regionDefs = append(regionDefs, name)
		fmt.Fprintf(&o, "/-- region %d: %s (%s) -/\ndef %s : List ParFact := [\n", r.id, r.desc, p.base(r.pos), name)
		for j, ac := range mine {
			sep := ","
			if j == len(mine)-1 {
				sep = ""
			}
			how := ac.how
			if ac.body.parent {
				if how != "" {
					how += "; "
				}
				how += "parent between fork and join"
			}
			rw := ".r"
			if ac.rw == 'W' {
				rw = ".w"
			}
			fmt.Fprintf(&o, "  ⟨%s, %d, %s, %d, %s, %v, %s, .%s, %s, %v⟩%s\n", leanStr(p.base(ac.pos)), p.line(ac.pos), leanStr(ac.fn),
				r.id, leanStr(ac.path), ac.elem, rw, ac.cls, leanStr(how), ac.kind != kVar, sep)
		}
		o.WriteString("]\n\n")
	}
	o.WriteString("def parFactsByRegion : List (List ParFact) := [" + strings.Join(regionDefs, ", ") + "]\n\n")
	o.WriteString("def parFacts : List ParFact := parFactsByRegion.flatten\n\n")
	sort.SliceStable(mfacts, func(i, j int) bool { return mfacts[i].line < mfacts[j].line })
	o.WriteString("/-- (type, method, field, access, mutex held (\"\" = none), callable while workers run) -/\n")
	o.WriteString("def managerMethodFacts : List MethodFact := [\n")
	for i, m := range mfacts {
		sep := ","
		if i == len(mfacts)-1 {
			sep = ""
		}
		rw := ".r"
		if m.rw == 'W' {
			rw = ".w"
		}
		fmt.Fprintf(&o, "  ⟨%s, %s, %s, %s, %s, %v⟩%s\n", leanStr(m.typ), leanStr(m.method), leanStr(m.field), rw, leanStr(m.underMutex), m.concurrent, sep)
	}
	o.WriteString("]\n\n/-- reference-typed fields of the results of Copy-style methods of struct types -/\ndef copyFacts : List CopyFact := [\n")
	cfs := copyFacts(p)
	for i, c := range cfs {
		sep := ","
		if i == len(cfs)-1 {
			sep = ""
		}
		fmt.Fprintf(&o, "  ⟨%s, %d, %s, %s, %v, %s⟩%s\n", leanStr(c.file), c.line, leanStr(c.fn), leanStr(c.field), c.fresh, leanStr(c.how), sep)
	}
	o.WriteString("]\n\n")
	o.WriteString(interprocLean(ipr, calleeR, pkgStates))
	o.WriteString(poolAndHeaderFactsLean(p))
	o.WriteString("end Csvq.Gen\n")
	fmt.Print(o.String())
}
