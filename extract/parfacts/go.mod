module parfacts

go 1.23
