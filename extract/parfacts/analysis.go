package main

// Syntactic access classification of the fork–join regions of lib/query (see main.go for the output
// format).  The analysis is deliberately small and refuses (exit status 1) every construct it has no
// rule for.
//
// A *region* is one fork–join: the goroutines started by GoroutineTaskManager.Run / EvaluateSequentially
// for one callback, or the `go` statements of one function up to the matching Wait().  A *body* is the
// code one goroutine of the region executes (a function literal, a named function, or the parent's
// statements between fork and join).  For every body the analysis lists the accesses to *shared*
// variables (variables declared outside the body: captured locals, parameters handed to every worker,
// package-level variables) as access paths  root.field.field[idx]…  cut after the first index.

import (
	"go/ast"
	"go/token"
	"go/types"
	"sort"
	"strings"
)

type akind int

const (
	kVar akind = iota
	kChan
	kWG
	kSync
)

type access struct {
	pos    token.Pos
	fn     string
	body   *wbody
	path   string
	elem   bool
	own    string // index space when the first index is owned by the executing worker
	rw     byte
	guard  string
	guardR bool // the guard is held in read mode (RWMutex.RLock)
	eq     string
	kind   akind
	how    string
	cls    string
}

type wbody struct {
	label  string
	multi  bool // several goroutines may run this body at the same time
	parent bool
}

type region struct {
	id     int
	desc   string
	pos    token.Pos
	bodies []*wbody
	acc    []*access
	roots  map[types.Object]bool
}

type pth struct {
	root    types.Object
	path    string
	idxs    []ast.Expr
	mapBase bool
	ok      bool
}

var sliceMarker = &ast.BadExpr{}

type analysis struct {
	p        *Pkg
	regions  []*region
	initLits map[types.Object][]*ast.FuncLit // local variables initialised with (an expression containing) function literals
	initOf   map[types.Object]ast.Expr
	sums     *summaries
	named    []*types.Named
	called   map[string]bool // "Type.Method" of the manager types invoked from worker code
	decls    map[types.Object]*ast.FuncDecl
}

type visitor struct {
	a          *analysis
	p          *Pkg
	r          *region
	b          *wbody
	fn         string
	localExt   [][2]token.Pos
	named      bool
	shared     map[types.Object]bool
	alias      map[types.Object]pth
	own        map[types.Object]string
	rangeLo    map[types.Object]bool
	rangeHi    map[types.Object]bool
	stride     map[types.Object]string
	loopBound  map[types.Object]string
	taint      map[types.Object]bool
	guard      string
	guardR     bool
	onceAfter  string
	eq         string
	seenLits   map[*ast.FuncLit]bool
	allowGo    bool
	methodPass bool
	top        ast.Node
}

func (a *analysis) newVisitor(r *region, b *wbody, fn string) *visitor {
	return &visitor{a: a, p: a.p, r: r, b: b, fn: fn, shared: map[types.Object]bool{}, alias: map[types.Object]pth{},
		own: map[types.Object]string{}, rangeLo: map[types.Object]bool{}, rangeHi: map[types.Object]bool{},
		stride: map[types.Object]string{}, loopBound: map[types.Object]string{}, taint: map[types.Object]bool{},
		seenLits: map[*ast.FuncLit]bool{}}
}

func (v *visitor) fail(n ast.Node, msg string) {
	fatal("%s: %s (in %s) — construct outside the supported subset", v.p.at(n.Pos()), msg, v.fn)
}

func (v *visitor) obj(id *ast.Ident) types.Object {
	if o := v.p.Info.Uses[id]; o != nil {
		return o
	}
	return v.p.Info.Defs[id]
}

func (v *visitor) isShared(o types.Object) bool {
	vr, ok := o.(*types.Var)
	if !ok || vr.IsField() {
		return false
	}
	if o.Pkg() != v.p.Types {
		return false
	}
	if o.Parent() == v.p.Types.Scope() {
		return true
	}
	if v.named {
		return v.shared[o]
	}
	for _, e := range v.localExt {
		if e[0] <= o.Pos() && o.Pos() < e[1] {
			return false
		}
	}
	return true
}

func namedType(t types.Type) string {
	for {
		if p, ok := t.(*types.Pointer); ok {
			t = p.Elem()
			continue
		}
		break
	}
	if n, ok := t.(*types.Named); ok {
		if n.Obj().Pkg() != nil {
			return n.Obj().Pkg().Path() + "." + n.Obj().Name()
		}
		return n.Obj().Name()
	}
	return ""
}

const queryPkg = "github.com/mithrandie/csvq/lib/query"

func isManagerType(n string) bool {
	return n == queryPkg+".GoroutineTaskManager" || n == queryPkg+".GoroutineManager"
}

// syncObject: types whose methods are safe for concurrent use by construction.
func syncObject(t types.Type) string {
	n := namedType(t)
	switch n {
	case "sync.Pool", "sync.Map", "sync.Once", queryPkg + ".SyncMap":
		return n[strings.LastIndex(n, "/")+1:]
	}
	if strings.HasPrefix(n, "sync/atomic.") {
		return n[len("sync/"):]
	}
	// struct types embedding *SyncMap (ViewMap, …): look through one level of embedding
	for {
		if p, ok := t.(*types.Pointer); ok {
			t = p.Elem()
			continue
		}
		break
	}
	if st, ok := t.Underlying().(*types.Struct); ok {
		for i := 0; i < st.NumFields(); i++ {
			if st.Field(i).Embedded() && namedType(st.Field(i).Type()) == queryPkg+".SyncMap" && st.NumFields() == 1 {
				return "query.SyncMap"
			}
		}
	}
	return ""
}

func (v *visitor) typeOf(e ast.Expr) types.Type {
	if tv, ok := v.p.Info.Types[e]; ok {
		return tv.Type
	}
	if id, ok := e.(*ast.Ident); ok {
		if o := v.obj(id); o != nil {
			return o.Type()
		}
	}
	return nil
}

func (v *visitor) pathOf(e ast.Expr) pth {
	switch x := e.(type) {
	case *ast.Ident:
		o := v.obj(x)
		if o == nil {
			return pth{}
		}
		if a, ok := v.alias[o]; ok {
			a.idxs = append([]ast.Expr(nil), a.idxs...)
			return a
		}
		if _, ok := o.(*types.Var); !ok {
			return pth{}
		}
		return pth{root: o, path: x.Name, ok: true}
	case *ast.ParenExpr:
		return v.pathOf(x.X)
	case *ast.StarExpr:
		return v.pathOf(x.X)
	case *ast.TypeAssertExpr:
		return v.pathOf(x.X)
	case *ast.SelectorExpr:
		sel := v.p.Info.Selections[x]
		if sel == nil || sel.Kind() != types.FieldVal {
			return pth{}
		}
		p := v.pathOf(x.X)
		if !p.ok {
			return p
		}
		if len(p.idxs) == 0 {
			p.path += "." + x.Sel.Name
		}
		return p
	case *ast.IndexExpr:
		p := v.pathOf(x.X)
		if !p.ok {
			return p
		}
		if len(p.idxs) == 0 {
			if t := v.typeOf(x.X); t != nil {
				if _, ok := t.Underlying().(*types.Map); ok {
					p.mapBase = true
				}
			}
		}
		p.idxs = append(p.idxs, x.Index)
		return p
	case *ast.SliceExpr:
		p := v.pathOf(x.X)
		if !p.ok {
			return p
		}
		p.idxs = append(p.idxs, sliceMarker)
		return p
	}
	return pth{}
}

// visitIndices evaluates (as reads) the index expressions of a path expression.
func (v *visitor) visitIndices(e ast.Expr) {
	switch x := e.(type) {
	case *ast.ParenExpr:
		v.visitIndices(x.X)
	case *ast.StarExpr:
		v.visitIndices(x.X)
	case *ast.TypeAssertExpr:
		v.visitIndices(x.X)
	case *ast.SelectorExpr:
		v.visitIndices(x.X)
	case *ast.IndexExpr:
		v.visitIndices(x.X)
		v.expr(x.Index)
	case *ast.SliceExpr:
		v.visitIndices(x.X)
		v.expr(x.Low)
		v.expr(x.High)
		v.expr(x.Max)
	}
}

func (v *visitor) add(pos token.Pos, path string, elem bool, own string, rw byte, k akind, how string) {
	v.r.acc = append(v.r.acc, &access{pos: pos, fn: v.fn, body: v.b, path: path, elem: elem, own: own, rw: rw,
		guard: v.guard, guardR: v.guardR, eq: v.eq, kind: k, how: how})
}

func (v *visitor) classifyIdx(e ast.Expr) string {
	switch x := e.(type) {
	case *ast.ParenExpr:
		return v.classifyIdx(x.X)
	case *ast.Ident:
		if o := v.obj(x); o != nil {
			return v.own[o]
		}
	case *ast.BinaryExpr:
		if x.Op == token.ADD {
			s, ok1 := x.X.(*ast.Ident)
			j, ok2 := x.Y.(*ast.Ident)
			if ok1 && ok2 {
				so, jo := v.obj(s), v.obj(j)
				if st, ok := v.stride[so]; ok && st != "" && v.loopBound[jo] == st {
					return "stride"
				}
			}
		}
	}
	return ""
}

// accessPath records the access made by evaluating (mode 'R') or assigning (mode 'W') the path
// expression e.  Returns false when e is not a path expression.
func (v *visitor) accessPath(e ast.Expr, mode byte) bool {
	p := v.pathOf(e)
	if !p.ok {
		return false
	}
	v.visitIndices(e)
	if !v.isShared(p.root) {
		return true
	}
	v.r.roots[p.root] = true
	v.reach(p.root)
	if len(p.idxs) == 0 || p.mapBase {
		v.add(e.Pos(), p.path, false, "", mode, kVar, "")
		return true
	}
	v.add(e.Pos(), p.path, false, "", 'R', kVar, "")
	v.add(e.Pos(), p.path, true, v.classifyIdx(p.idxs[0]), mode, kVar, "")
	return true
}

// reach: function literals stored in a shared local (a closure variable, the New field of a
// sync.Pool, …) run on the goroutine that uses the variable: analyse them as part of this body.
func (v *visitor) reach(o types.Object) {
	if v.b.parent {
		return
	}
	for _, fl := range v.a.initLits[o] {
		if v.top != nil && fl.Pos() <= v.top.Pos() && v.top.End() <= fl.End() {
			continue
		}
		v.funcLit(fl, true)
	}
}

func (v *visitor) funcLit(fl *ast.FuncLit, resetCtx bool) {
	if v.seenLits[fl] {
		return
	}
	v.seenLits[fl] = true
	v.localExt = append(v.localExt, [2]token.Pos{fl.Pos(), fl.End()})
	g, gr, q := v.guard, v.guardR, v.eq
	if resetCtx {
		v.guard, v.guardR, v.eq = "", false, ""
	}
	v.stmts(fl.Body.List)
	v.guard, v.guardR, v.eq = g, gr, q
}

func (v *visitor) specialRecv(x ast.Expr, k akind, how string) {
	p := v.pathOf(x)
	if !p.ok {
		v.expr(x)
		return
	}
	v.visitIndices(x)
	if !v.isShared(p.root) {
		return
	}
	v.r.roots[p.root] = true
	v.reach(p.root)
	// the variable holding the object is read; the operation on the object itself is synchronising
	v.add(x.Pos(), p.path, false, "", 'R', kVar, "")
	v.add(x.Pos(), p.path, len(p.idxs) > 0 && !p.mapBase, "", 'W', k, how)
}

func (v *visitor) expr(e ast.Expr) {
	switch x := e.(type) {
	case nil:
		return
	case *ast.BasicLit:
		return
	case *ast.Ident:
		v.accessPath(x, 'R')
	case *ast.ParenExpr:
		v.expr(x.X)
	case *ast.StarExpr:
		if !v.accessPath(x, 'R') {
			v.expr(x.X)
		}
	case *ast.TypeAssertExpr:
		if !v.accessPath(x, 'R') {
			v.expr(x.X)
		}
	case *ast.SelectorExpr:
		if v.accessPath(x, 'R') {
			return
		}
		if id, ok := x.X.(*ast.Ident); ok {
			if _, isPkg := v.obj(id).(*types.PkgName); isPkg {
				return
			}
		}
		v.expr(x.X) // method value or a field of a non-path expression
	case *ast.IndexExpr:
		if !v.accessPath(x, 'R') {
			v.expr(x.X)
			v.expr(x.Index)
		}
	case *ast.SliceExpr:
		if !v.accessPath(x, 'R') {
			v.expr(x.X)
			v.expr(x.Low)
			v.expr(x.High)
			v.expr(x.Max)
		}
	case *ast.CallExpr:
		v.call(x)
	case *ast.UnaryExpr:
		switch x.Op {
		case token.ARROW:
			v.specialRecv(x.X, kChan, "receive")
		case token.AND:
			if cl, ok := x.X.(*ast.CompositeLit); ok {
				v.expr(cl)
				return
			}
			p := v.pathOf(x.X)
			if p.ok && v.isShared(p.root) {
				v.fail(x, "address of a shared variable taken: &"+exprText(x.X))
			}
			v.expr(x.X)
		default:
			v.expr(x.X)
		}
	case *ast.BinaryExpr:
		v.expr(x.X)
		v.expr(x.Y)
	case *ast.CompositeLit:
		for _, el := range x.Elts {
			if kv, ok := el.(*ast.KeyValueExpr); ok {
				if id, ok := kv.Key.(*ast.Ident); ok {
					if o, ok := v.obj(id).(*types.Var); ok && o.IsField() {
						v.expr(kv.Value)
						continue
					}
				}
				v.expr(kv.Key)
				v.expr(kv.Value)
				continue
			}
			v.expr(el)
		}
	case *ast.FuncLit:
		v.funcLit(x, false)
	case *ast.ArrayType, *ast.MapType, *ast.ChanType, *ast.StructType, *ast.InterfaceType, *ast.FuncType:
		return
	default:
		v.fail(e, "expression of an unsupported kind")
	}
}

func (v *visitor) call(c *ast.CallExpr) {
	if tv, ok := v.p.Info.Types[c.Fun]; ok && tv.IsType() {
		for _, a := range c.Args {
			v.expr(a)
		}
		return
	}
	switch f := c.Fun.(type) {
	case *ast.Ident:
		switch o := v.obj(f).(type) {
		case *types.Builtin:
			v.builtin(o.Name(), c)
			return
		case *types.Func:
		case *types.Var:
			v.accessPath(f, 'R')
		case nil:
			v.fail(c, "call of an unresolved identifier")
		default:
			v.fail(c, "call of an unsupported callee")
		}
	case *ast.SelectorExpr:
		if sel := v.p.Info.Selections[f]; sel != nil && sel.Kind() == types.MethodVal {
			rt := v.typeOf(f.X)
			n := ""
			if rt != nil {
				n = namedType(rt)
			}
			switch {
			case n == "sync.WaitGroup":
				v.specialRecv(f.X, kWG, f.Sel.Name)
			case n == "sync.Once" && f.Sel.Name == "Do" && len(c.Args) == 1:
				// the function literal runs exactly once, before any other Do of the same Once returns
				v.specialRecv(f.X, kSync, "sync.Once.Do")
				if fl, ok := c.Args[0].(*ast.FuncLit); ok {
					g, gr := v.guard, v.guardR
					v.guard, v.guardR = "sync.Once("+exprText(f.X)+")", false
					v.funcLit(fl, false)
					v.guard, v.guardR = g, gr
					// whoever returns from Do has seen the literal's effects: the rest of this statement list is ordered
					// after them
					v.onceAfter = "sync.Once(" + exprText(f.X) + ")"
					return
				}
			case rt != nil && syncObject(rt) != "":
				v.specialRecv(f.X, kSync, syncObject(rt)+"."+f.Sel.Name)
			default:
				if isManagerType(n) {
					v.a.called[n[strings.LastIndex(n, ".")+1:]+"."+f.Sel.Name] = true
					v.expr(f.X)
					break
				}
				v.expr(f.X)
				v.methodCallEffects(f, sel)
			}
		} else if id, ok := f.X.(*ast.Ident); ok {
			if pn, isPkg := v.obj(id).(*types.PkgName); isPkg {
				if pn.Imported().Path() == "sync/atomic" {
					for i, a := range c.Args {
						if u, ok := a.(*ast.UnaryExpr); ok && i == 0 && u.Op == token.AND {
							v.specialRecv(u.X, kSync, "atomic."+f.Sel.Name)
						} else if i == 0 {
							v.specialRecv(a, kSync, "atomic."+f.Sel.Name)
						} else {
							v.expr(a)
						}
					}
					return
				}
			} else {
				v.expr(f) // a func-typed field
			}
		} else {
			v.expr(f)
		}
	case *ast.FuncLit:
		v.funcLit(f, false)
	default:
		v.expr(c.Fun)
	}
	for _, a := range c.Args {
		v.expr(a)
	}
}

// methodCallEffects: a method called on a shared object touches that object's fields (see summary.go).
func (v *visitor) methodCallEffects(f *ast.SelectorExpr, sel *types.Selection) {
	p := v.pathOf(f.X)
	if !p.ok || len(p.idxs) > 0 || !v.isShared(p.root) {
		return
	}
	fn, ok := sel.Obj().(*types.Func)
	if !ok {
		return
	}
	if fn.Pkg() != nil && (strings.HasSuffix(fn.Pkg().Path(), "/lib/parser") || strings.HasSuffix(fn.Pkg().Path(), "/lib/value")) {
		return // syntax-tree nodes and values are immutable for the evaluator (property C14)
	}
	effs, ok := v.a.effectsOfCall(fn, sel.Recv())
	if !ok {
		return
	}
	for _, e := range effs {
		path := p.path + "." + e.field
		saved, savedR := v.guard, v.guardR
		if e.guard != "" {
			v.guard, v.guardR = p.path+"."+e.guard, false
		}
		v.add(f.Pos(), path, false, "", e.rw, kVar, "")
		v.r.acc[len(v.r.acc)-1].how = "via method " + fn.Name()
		v.guard, v.guardR = saved, savedR
	}
}

func (v *visitor) builtin(name string, c *ast.CallExpr) {
	switch name {
	case "copy":
		if len(c.Args) == 2 {
			p := v.pathOf(c.Args[0])
			if p.ok {
				v.visitIndices(c.Args[0])
				if v.isShared(p.root) {
					v.r.roots[p.root] = true
					v.add(c.Pos(), p.path, false, "", 'R', kVar, "")
					own := ""
					if len(p.idxs) > 0 {
						own = v.classifyIdx(p.idxs[0])
					}
					v.add(c.Pos(), p.path, true, own, 'W', kVar, "")
				}
			} else {
				v.expr(c.Args[0])
			}
			v.expr(c.Args[1])
			return
		}
	case "delete":
		if len(c.Args) == 2 {
			if !v.accessPath(c.Args[0], 'W') {
				v.expr(c.Args[0])
			}
			v.expr(c.Args[1])
			return
		}
	case "close":
		v.specialRecv(c.Args[0], kChan, "close")
		return
	case "make", "new":
		for _, a := range c.Args[1:] {
			v.expr(a)
		}
		return
	case "append", "len", "cap", "panic", "recover", "print", "println", "min", "max":
	default:
		v.fail(c, "builtin "+name+" has no rule")
	}
	for _, a := range c.Args {
		v.expr(a)
	}
}

func (v *visitor) lockCall(s ast.Stmt) (mutex string, op string, ok bool) {
	var call *ast.CallExpr
	switch x := s.(type) {
	case *ast.ExprStmt:
		call, _ = x.X.(*ast.CallExpr)
	case *ast.DeferStmt:
		call = x.Call
		op = "defer "
	}
	if call == nil {
		return "", "", false
	}
	sel, isSel := call.Fun.(*ast.SelectorExpr)
	if !isSel {
		return "", "", false
	}
	t := v.typeOf(sel.X)
	if t == nil {
		return "", "", false
	}
	n := namedType(t)
	if n != "sync.Mutex" && n != "sync.RWMutex" {
		// SyncMap.lock()/unlock() are plain wrappers of a mutex
		if n == queryPkg+".SyncMap" && (sel.Sel.Name == "lock" || sel.Sel.Name == "unlock") {
			return exprText(sel.X) + ".mtx", op + strings.Title(sel.Sel.Name), true
		}
		return "", "", false
	}
	return exprText(sel.X), op + sel.Sel.Name, true
}

func (v *visitor) stmts(list []ast.Stmt) {
	saved, savedR := v.guard, v.guardR
	for _, s := range list {
		if m, op, ok := v.lockCall(s); ok {
			switch op {
			case "Lock", "RLock":
				v.expr(s.(*ast.ExprStmt).X.(*ast.CallExpr).Fun.(*ast.SelectorExpr).X)
				v.guard, v.guardR = m, op == "RLock"
			case "Unlock", "RUnlock":
				if v.guard == m {
					v.guard, v.guardR = "", false
				}
			case "defer Unlock", "defer RUnlock":
				// the lock is held until the function returns: the guard stays for the rest of the list
			default:
				v.fail(s, "lock operation "+op+" has no rule")
			}
			continue
		}
		v.stmt(s)
		if v.onceAfter != "" {
			v.guard, v.guardR = v.onceAfter, false
			v.onceAfter = ""
		}
	}
	v.guard, v.guardR = saved, savedR
}

func (v *visitor) assignTarget(lhs ast.Expr, readToo bool) {
	if id, ok := lhs.(*ast.Ident); ok && id.Name == "_" {
		return
	}
	if readToo {
		v.expr(lhs)
	}
	if !v.accessPath(lhs, 'W') {
		v.fail(lhs, "assignment target is not an access path: "+exprText(lhs))
	}
}

func refLike(t types.Type) bool {
	if t == nil {
		return false
	}
	switch t.Underlying().(type) {
	case *types.Pointer, *types.Slice, *types.Map, *types.Chan, *types.Interface, *types.Signature:
		return true
	}
	return false
}

func (v *visitor) isTainted(e ast.Expr) bool {
	t := false
	ast.Inspect(e, func(n ast.Node) bool {
		switch x := n.(type) {
		case *ast.FuncLit:
			return false
		case *ast.IndexExpr:
			if s := v.classifyIdx(x.Index); s == "record" || s == "partition" {
				t = true
			}
		case *ast.Ident:
			if o := v.obj(x); o != nil && v.taint[o] {
				t = true
			}
		}
		return !t
	})
	return t
}

func (v *visitor) assignedElsewhere(o types.Object, def ast.Node) bool {
	found := false
	ast.Inspect(v.top, func(n ast.Node) bool {
		switch x := n.(type) {
		case *ast.AssignStmt:
			if ast.Node(x) == def {
				return true
			}
			for _, l := range x.Lhs {
				if id, ok := l.(*ast.Ident); ok && v.obj(id) == o {
					found = true
				}
			}
		case *ast.IncDecStmt:
			if id, ok := x.X.(*ast.Ident); ok && v.obj(id) == o {
				found = true
			}
		case *ast.RangeStmt:
			for _, l := range []ast.Expr{x.Key, x.Value} {
				if id, ok := l.(*ast.Ident); ok && v.obj(id) == o && x.Tok == token.ASSIGN {
					found = true
				}
			}
		case *ast.UnaryExpr:
			if id, ok := x.X.(*ast.Ident); ok && x.Op == token.AND && v.obj(id) == o {
				found = true
			}
		}
		return true
	})
	return found
}

func (v *visitor) define(s *ast.AssignStmt) {
	// start, end := gm.RecordRange(thIdx)
	if len(s.Lhs) == 2 && len(s.Rhs) == 1 {
		if c, ok := s.Rhs[0].(*ast.CallExpr); ok && len(c.Args) == 1 {
			if sel, ok := c.Fun.(*ast.SelectorExpr); ok && sel.Sel.Name == "RecordRange" {
				if t := v.typeOf(sel.X); t != nil && namedType(t) == queryPkg+".GoroutineTaskManager" {
					if v.classifyIdx(c.Args[0]) == "worker" {
						lo, ok1 := s.Lhs[0].(*ast.Ident)
						hi, ok2 := s.Lhs[1].(*ast.Ident)
						if ok1 && ok2 {
							v.rangeLo[v.obj(lo)] = true
							v.rangeHi[v.obj(hi)] = true
						}
					} else if !v.methodPass {
						v.fail(s, "RecordRange called with something else than the worker's own index")
					}
				}
			}
		}
	}
	if len(s.Lhs) == 1 && len(s.Rhs) == 1 {
		if b, ok := s.Rhs[0].(*ast.BinaryExpr); ok && b.Op == token.MUL {
			if v.classifyIdx(b.X) == "record" {
				if id, ok := s.Lhs[0].(*ast.Ident); ok && !v.assignedElsewhere(v.obj(id), s) {
					v.stride[v.obj(id)] = exprText(b.Y)
				}
			}
		}
	}
	tainted := false
	for _, r := range s.Rhs {
		if v.isTainted(r) {
			tainted = true
		}
	}
	for i, l := range s.Lhs {
		id, ok := l.(*ast.Ident)
		if !ok || id.Name == "_" || v.p.Info.Defs[id] == nil {
			continue
		}
		o := v.p.Info.Defs[id]
		if tainted {
			v.taint[o] = true
		}
		if len(s.Lhs) == len(s.Rhs) && refLike(o.Type()) {
			if p := v.pathOf(s.Rhs[i]); p.ok && v.isShared(p.root) && !v.assignedElsewhere(o, s) {
				v.alias[o] = p
			}
		}
	}
}

func isIntKind(t types.Type) bool {
	b, ok := t.Underlying().(*types.Basic)
	return ok && b.Info()&types.IsInteger != 0
}

func (v *visitor) stmt(s ast.Stmt) {
	switch x := s.(type) {
	case nil:
		return
	case *ast.BlockStmt:
		v.stmts(x.List)
	case *ast.ExprStmt:
		v.expr(x.X)
	case *ast.EmptyStmt, *ast.BranchStmt:
		return
	case *ast.LabeledStmt:
		v.stmt(x.Stmt)
	case *ast.AssignStmt:
		for _, r := range x.Rhs {
			v.expr(r)
		}
		if x.Tok == token.DEFINE {
			v.define(x)
		}
		for _, l := range x.Lhs {
			if id, ok := l.(*ast.Ident); ok && x.Tok == token.DEFINE && v.p.Info.Defs[id] != nil {
				continue
			}
			v.assignTarget(l, x.Tok != token.ASSIGN && x.Tok != token.DEFINE)
		}
	case *ast.IncDecStmt:
		v.assignTarget(x.X, true)
	case *ast.DeclStmt:
		gd, ok := x.Decl.(*ast.GenDecl)
		if !ok {
			v.fail(x, "declaration of an unsupported kind")
		}
		if gd.Tok == token.VAR {
			for _, sp := range gd.Specs {
				vs := sp.(*ast.ValueSpec)
				for _, val := range vs.Values {
					v.expr(val)
				}
				if len(vs.Names) == len(vs.Values) {
					for i, id := range vs.Names {
						o := v.p.Info.Defs[id]
						if o == nil {
							continue
						}
						if v.isTainted(vs.Values[i]) {
							v.taint[o] = true
						}
						if refLike(o.Type()) {
							if p := v.pathOf(vs.Values[i]); p.ok && v.isShared(p.root) && !v.assignedElsewhere(o, x) {
								v.alias[o] = p
							}
						}
					}
				}
			}
		}
	case *ast.IfStmt:
		v.stmt(x.Init)
		v.expr(x.Cond)
		saved := v.eq
		if b, ok := x.Cond.(*ast.BinaryExpr); ok && b.Op == token.EQL {
			if _, isLit := b.Y.(*ast.BasicLit); isLit {
				if sp := v.classifyIdx(b.X); sp == "record" || sp == "worker" {
					v.eq = exprText(x.Cond)
				}
			}
		}
		v.stmt(x.Body)
		v.eq = saved
		v.stmt(x.Else)
	case *ast.ForStmt:
		v.stmt(x.Init)
		if init, ok := x.Init.(*ast.AssignStmt); ok && init.Tok == token.DEFINE && len(init.Lhs) == 1 && len(init.Rhs) == 1 {
			if iv, ok := init.Lhs[0].(*ast.Ident); ok {
				io := v.obj(iv)
				cond, ok1 := x.Cond.(*ast.BinaryExpr)
				post, ok2 := x.Post.(*ast.IncDecStmt)
				if ok1 && ok2 && cond.Op == token.LSS && post.Tok == token.INC {
					cx, okc := cond.X.(*ast.Ident)
					px, okp := post.X.(*ast.Ident)
					if okc && okp && v.obj(cx) == io && v.obj(px) == io && !v.loopVarAssigned(x.Body, io) {
						if lo, ok := init.Rhs[0].(*ast.Ident); ok && v.rangeLo[v.obj(lo)] {
							if hi, ok := cond.Y.(*ast.Ident); ok && v.rangeHi[v.obj(hi)] {
								v.own[io] = "record"
							}
						} else if bl, ok := init.Rhs[0].(*ast.BasicLit); ok && bl.Value == "0" {
							v.loopBound[io] = exprText(cond.Y)
						}
					}
				}
			}
		}
		v.expr(x.Cond)
		v.stmt(x.Post)
		v.stmt(x.Body)
	case *ast.RangeStmt:
		t := v.typeOf(x.X)
		if t != nil {
			if _, isChan := t.Underlying().(*types.Chan); isChan {
				v.specialRecv(x.X, kChan, "range")
				t = nil
			}
		}
		if t != nil {
			if p := v.pathOf(x.X); p.ok {
				v.visitIndices(x.X)
				if v.isShared(p.root) {
					v.r.roots[p.root] = true
					v.reach(p.root)
					_, isMap := t.Underlying().(*types.Map)
					if len(p.idxs) == 0 {
						v.add(x.X.Pos(), p.path, false, "", 'R', kVar, "")
						if !isMap && x.Value != nil {
							v.add(x.X.Pos(), p.path, true, "", 'R', kVar, "")
						}
					} else if p.mapBase {
						v.add(x.X.Pos(), p.path, false, "", 'R', kVar, "")
					} else {
						v.add(x.X.Pos(), p.path, false, "", 'R', kVar, "")
						v.add(x.X.Pos(), p.path, true, v.classifyIdx(p.idxs[0]), 'R', kVar, "")
					}
				}
			} else {
				v.expr(x.X)
			}
			tainted := v.isTainted(x.X)
			for k, l := range []ast.Expr{x.Key, x.Value} {
				id, ok := l.(*ast.Ident)
				if l == nil || (ok && id.Name == "_") {
					continue
				}
				if x.Tok == token.ASSIGN {
					v.assignTarget(l, false)
					continue
				}
				if !ok {
					v.fail(x, "range variable of an unsupported form")
				}
				o := v.p.Info.Defs[id]
				if o == nil || !tainted {
					continue
				}
				v.taint[o] = true
				// indices stored in the data of the worker's own element (a partition's row numbers)
				switch u := t.Underlying().(type) {
				case *types.Slice:
					if k == 1 && isIntKind(u.Elem()) && !v.loopVarAssigned(x.Body, o) {
						v.own[o] = "partition"
					}
				case *types.Map:
					if k == 0 && isIntKind(u.Key()) && !v.loopVarAssigned(x.Body, o) {
						v.own[o] = "partition"
					}
				}
			}
		}
		v.stmt(x.Body)
	case *ast.SwitchStmt:
		v.stmt(x.Init)
		v.expr(x.Tag)
		for _, c := range x.Body.List {
			cc := c.(*ast.CaseClause)
			for _, e := range cc.List {
				v.expr(e)
			}
			v.stmts(cc.Body)
		}
	case *ast.TypeSwitchStmt:
		v.stmt(x.Init)
		switch a := x.Assign.(type) {
		case *ast.ExprStmt:
			v.expr(a.X.(*ast.TypeAssertExpr).X)
		case *ast.AssignStmt:
			v.expr(a.Rhs[0].(*ast.TypeAssertExpr).X)
		}
		for _, c := range x.Body.List {
			v.stmts(c.(*ast.CaseClause).Body)
		}
	case *ast.SelectStmt:
		for _, c := range x.Body.List {
			cc := c.(*ast.CommClause)
			v.stmt(cc.Comm)
			v.stmts(cc.Body)
		}
	case *ast.SendStmt:
		v.specialRecv(x.Chan, kChan, "send")
		v.expr(x.Value)
	case *ast.ReturnStmt:
		for _, r := range x.Results {
			v.expr(r)
		}
	case *ast.DeferStmt:
		if fl, ok := x.Call.Fun.(*ast.FuncLit); ok {
			v.funcLit(fl, true)
			for _, a := range x.Call.Args {
				v.expr(a)
			}
		} else {
			v.call(x.Call)
		}
	case *ast.GoStmt:
		if !v.allowGo {
			v.fail(x, "goroutine started inside a worker body")
		}
		if _, ok := x.Call.Fun.(*ast.FuncLit); !ok {
			v.expr(x.Call.Fun)
		}
		for _, a := range x.Call.Args {
			v.expr(a)
		}
	default:
		v.fail(s, "statement of an unsupported kind")
	}
}

func (v *visitor) loopVarAssigned(body *ast.BlockStmt, o types.Object) bool {
	found := false
	ast.Inspect(body, func(n ast.Node) bool {
		switch x := n.(type) {
		case *ast.AssignStmt:
			for _, l := range x.Lhs {
				if id, ok := l.(*ast.Ident); ok && v.obj(id) == o {
					found = true
				}
			}
		case *ast.IncDecStmt:
			if id, ok := x.X.(*ast.Ident); ok && v.obj(id) == o {
				found = true
			}
		case *ast.UnaryExpr:
			if id, ok := x.X.(*ast.Ident); ok && x.Op == token.AND && v.obj(id) == o {
				found = true
			}
		}
		return true
	})
	return found
}

// ---------------------------------------------------------------------------------------------
// classification
// ---------------------------------------------------------------------------------------------

func prefixOf(q, p string) bool { return strings.HasPrefix(p, q+".") }

// overlap: may a and b touch the same memory?
func overlap(a, b *access) bool {
	// "x.*": the whole state of object x
	if strings.HasSuffix(a.path, ".*") || strings.HasSuffix(b.path, ".*") {
		ba, bb := strings.TrimSuffix(a.path, ".*"), strings.TrimSuffix(b.path, ".*")
		if strings.HasSuffix(a.path, ".*") && (bb == ba || prefixOf(ba, bb)) {
			return true
		}
		if strings.HasSuffix(b.path, ".*") && (ba == bb || prefixOf(bb, ba)) {
			return true
		}
		return false
	}
	switch {
	case !a.elem && !b.elem:
		if a.path == b.path {
			return true
		}
		if prefixOf(a.path, b.path) && a.rw == 'W' {
			return true
		}
		if prefixOf(b.path, a.path) && b.rw == 'W' {
			return true
		}
		return false
	case a.elem && b.elem:
		return a.path == b.path
	case !a.elem && b.elem:
		return a.rw == 'W' && (a.path == b.path || prefixOf(a.path, b.path))
	default:
		return b.rw == 'W' && (a.path == b.path || prefixOf(b.path, a.path))
	}
}

func sameThread(a, b *access) bool {
	if a.body != b.body {
		return false
	}
	return !a.body.multi
}

func classify(r *region) {
	for _, a := range r.acc {
		switch a.kind {
		case kChan:
			a.cls = "chan"
			continue
		case kWG:
			a.cls = "wg"
			continue
		case kSync:
			a.cls = "guarded"
			continue
		}
		var c0, c1 []*access
		for _, b := range r.acc {
			if b.kind != kVar {
				continue
			}
			if a.rw != 'W' && b.rw != 'W' {
				continue
			}
			if !overlap(a, b) {
				continue
			}
			c0 = append(c0, b)
			if a.body == b.body && a.body.parent {
				continue
			}
			if !sameThread(a, b) {
				c1 = append(c1, b)
			}
		}
		blamed := false
		byOwn, byGuard, byEq := false, false, false
		for _, b := range c1 {
			switch {
			case a.elem && b.elem && a.own != "" && a.own == b.own && a.body == b.body:
				byOwn = true
			case a.eq != "" && a.eq == b.eq && a.body == b.body:
				byEq = true
			case a.guard != "" && a.guard == b.guard && !(a.guardR && b.guardR):
				byGuard = true
			default:
				// a conflicting pair: blame the side that lacks the protection the other side has
				if a.guard != "" && b.guard == "" {
					byGuard = true
					continue
				}
				if a.elem && b.elem && a.own != "" && b.own == "" {
					byOwn = true
					continue
				}
				if a.eq != "" && b.eq == "" {
					byEq = true
					continue
				}
				blamed = true
			}
		}
		switch {
		case blamed:
			a.cls = "unguarded"
		case len(c0) == 0:
			a.cls = "readOnly"
		case len(c1) == 0:
			a.cls, a.how = "ownIndex", "sole goroutine"
		case byOwn:
			a.cls, a.how = "ownIndex", a.own
		case byGuard:
			a.cls, a.how = "guarded", a.guard
		case byEq:
			a.cls, a.how = "ownIndex", "only under "+a.eq
		default:
			a.cls = "unguarded"
		}
		if a.cls == "ownIndex" && a.how == "" {
			a.how = a.own
		}
	}
}

func sortAcc(p *Pkg, acc []*access) {
	sort.SliceStable(acc, func(i, j int) bool {
		a, b := acc[i], acc[j]
		fa, fb := p.base(a.pos), p.base(b.pos)
		if fa != fb {
			return fa < fb
		}
		if a.pos != b.pos {
			return a.pos < b.pos
		}
		if a.path != b.path {
			return a.path < b.path
		}
		if a.elem != b.elem {
			return !a.elem
		}
		return a.rw < b.rw
	})
}
