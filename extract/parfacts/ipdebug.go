package main

import (
	"fmt"
	"os"
	"sort"
)

// ipDebugPrint: development aid (`go run . ipdebug`)
func ipDebugPrint(r *ipResult) {
	w := os.Stdout
	fmt.Fprintf(w, "functions %d, reached %d, rounds %d, core %d, roots %d\n", r.nFuncs, r.nReached, r.iterations, len(r.core), len(r.perRoot))
	fmt.Fprintf(w, "stdlib packages (%d): %v\n", len(r.stdlib), r.stdlib)
	fmt.Fprintf(w, "opaque (%d):\n", len(r.opaque))
	for _, o := range r.opaque {
		fmt.Fprintln(w, "   ", o)
	}
	for _, rr := range r.perRoot {
		fmt.Fprintf(w, "root region %d %s: reaches %d, core=%v, direct=%d %v\n", rr.region, rr.label, rr.nReached, rr.viaCore, len(rr.direct), rr.direct)
	}
	type k struct {
		path string
		elem bool
	}
	by := map[k][]*ipAccess{}
	for _, a := range r.facts {
		by[k{a.path, a.elem}] = append(by[k{a.path, a.elem}], a)
	}
	var keys []k
	for kk := range by {
		keys = append(keys, kk)
	}
	sort.Slice(keys, func(i, j int) bool {
		return keys[i].path < keys[j].path || keys[i].path == keys[j].path && !keys[i].elem && keys[j].elem
	})
	fmt.Fprintf(w, "facts %d, locations %d\n", len(r.facts), len(keys))
	for _, kk := range keys {
		nu, nw := 0, 0
		for _, a := range by[kk] {
			if a.cls == "unguarded" {
				nu++
			}
			if a.rw == 'W' {
				nw++
			}
		}
		e := ""
		if kk.elem {
			e = "[]"
		}
		fmt.Fprintf(w, "LOC %s%s: %d accesses, %d writes, %d unguarded\n", kk.path, e, len(by[kk]), nw, nu)
		for _, a := range by[kk] {
			if a.rw == 'W' || (a.cls == "unguarded" && os.Getenv("IP_READS") != "") {
				var hs []string
				for h := range a.held {
					hs = append(hs, h)
				}
				sort.Strings(hs)
				fmt.Fprintf(w, "      %c %-9s %s:%d %s held=%v %s\n", a.rw, a.cls, a.pkg.base(a.pos), a.pkg.line(a.pos), a.fn.label, hs, a.how)
			}
		}
	}
}
