package main

// Two fact families about state that is recycled or handed on between goroutines (both checked by `decide`
// against a reviewed expectation in Csvq/Props/C13.lean):
//
// (1) release facts — every object that goes back into a sync.Pool (node scopes, block scopes, merged records,
//     comparison-key buffers): per function and released object, the number of releases on ANY path through
//     the function (deferred calls included).  An object released twice sits in the pool twice and is handed to
//     two goroutines that believe it is theirs; `defer x.Close()` plus an explicit `x.Close()` on one error path
//     is the typical shape.  The releasers are found from the source: sync.Pool.Put, and every function that
//     hands its receiver / a parameter (or something reached from it) to a releaser (PutNodeScope,
//     ReferenceScope.CloseCurrentNode, Processor.Close, …).
//
// (2) header facts — a View built for one record (JSON_OBJECT, the record-evaluation scopes of joins) takes its
//     Header from the outer view: every place a View's Header is set, whether the value is made anew or is
//     another view's header (alias), and for an alias whether the function goes on to call something on the new
//     view that writes header fields (View.Select → evalColumn → Header[i].Aliases, …); plus the list of all
//     statements that write a field of a header element at all.

import (
	"fmt"
	"go/ast"
	"go/parser"
	"go/token"
	"go/types"
	"path/filepath"
	"sort"
	"strings"
)

// ---------------------------------------------------------------------------------------------
// (1) release facts
// ---------------------------------------------------------------------------------------------

type releaseFact struct {
	file           string
	line           int
	fn, key, via   string
	sites, defers  int
	minRel, maxRel int
}

type releaser struct {
	param int // -1: the receiver
	name  string
}

func isPoolPut(p *Pkg, c *ast.CallExpr) (ast.Expr, bool) {
	sel, ok := c.Fun.(*ast.SelectorExpr)
	if !ok || sel.Sel.Name != "Put" || len(c.Args) != 1 {
		return nil, false
	}
	if tv, ok := p.Info.Types[sel.X]; ok && namedType(tv.Type) == "sync.Pool" {
		return c.Args[0], true
	}
	return nil, false
}

func rootIdent(e ast.Expr) *ast.Ident {
	for {
		switch x := e.(type) {
		case *ast.Ident:
			return x
		case *ast.SelectorExpr:
			e = x.X
		case *ast.IndexExpr:
			e = x.X
		case *ast.StarExpr:
			e = x.X
		case *ast.ParenExpr:
			e = x.X
		case *ast.TypeAssertExpr:
			e = x.X
		case *ast.SliceExpr:
			e = x.X
		case *ast.CallExpr:
			// rs.CurrentBlock(): what a method hands out of its receiver
			sel, ok := x.Fun.(*ast.SelectorExpr)
			if !ok {
				return nil
			}
			e = sel.X
		default:
			return nil
		}
	}
}

func calleeFunc(p *Pkg, c *ast.CallExpr) *types.Func {
	switch f := c.Fun.(type) {
	case *ast.Ident:
		fn, _ := p.Info.Uses[f].(*types.Func)
		return fn
	case *ast.SelectorExpr:
		if sel := p.Info.Selections[f]; sel != nil {
			fn, _ := sel.Obj().(*types.Func)
			return fn
		}
		fn, _ := p.Info.Uses[f.Sel].(*types.Func)
		return fn
	}
	return nil
}

// released: the expression a call gives back to a pool (nil: the call releases nothing), and through what
func released(p *Pkg, rel map[*types.Func]releaser, c *ast.CallExpr) (ast.Expr, string) {
	if a, ok := isPoolPut(p, c); ok {
		return a, "sync.Pool.Put"
	}
	fn := calleeFunc(p, c)
	if fn == nil {
		return nil, ""
	}
	r, ok := rel[fn]
	if !ok {
		return nil, ""
	}
	if r.param < 0 {
		if sel, ok := c.Fun.(*ast.SelectorExpr); ok {
			return sel.X, r.name
		}
		return nil, ""
	}
	if r.param < len(c.Args) {
		return c.Args[r.param], r.name
	}
	return nil, ""
}

func assignedIn(p *Pkg, body *ast.BlockStmt, o types.Object) bool {
	found := false
	ast.Inspect(body, func(n ast.Node) bool {
		if as, ok := n.(*ast.AssignStmt); ok {
			for _, l := range as.Lhs {
				if id, ok := l.(*ast.Ident); ok && (p.Info.Uses[id] == o || p.Info.Defs[id] == o) {
					found = true
				}
			}
		}
		return !found
	})
	return found
}

// findReleasers: the fixpoint described above, over the declared functions of the package
func findReleasers(p *Pkg) map[*types.Func]releaser {
	rel := map[*types.Func]releaser{}
	for changed := true; changed; {
		changed = false
		for _, f := range p.Files {
			for _, d := range f.Decls {
				fd, ok := d.(*ast.FuncDecl)
				if !ok || fd.Body == nil {
					continue
				}
				self, _ := p.Info.Defs[fd.Name].(*types.Func)
				if self == nil {
					continue
				}
				if _, done := rel[self]; done {
					continue
				}
				params := map[types.Object]int{}
				if fd.Recv != nil && len(fd.Recv.List) == 1 && len(fd.Recv.List[0].Names) == 1 {
					params[p.Info.Defs[fd.Recv.List[0].Names[0]]] = -1
				}
				k := 0
				for _, fld := range fd.Type.Params.List {
					for _, nm := range fld.Names {
						params[p.Info.Defs[nm]] = k
						k++
					}
					if len(fld.Names) == 0 {
						k++
					}
				}
				ast.Inspect(fd.Body, func(n ast.Node) bool {
					if _, isLit := n.(*ast.FuncLit); isLit {
						return false
					}
					c, ok := n.(*ast.CallExpr)
					if !ok {
						return true
					}
					e, _ := released(p, rel, c)
					if e == nil {
						return true
					}
					id := rootIdent(e)
					if id == nil {
						return true
					}
					o := p.Info.Uses[id]
					idx, isParam := params[o]
					if !isParam || assignedIn(p, fd.Body, o) {
						return true
					}
					if _, done := rel[self]; !done {
						rel[self] = releaser{idx, funcLabel(fd)}
						changed = true
					}
					return true
				})
			}
		}
	}
	return rel
}

// ---- path counting

type pstate struct {
	def  bool // the object exists (receiver / parameter, or the variable has been assigned)
	n, d int  // releases so far, deferred releases registered
}

type pset map[pstate]bool

func (s pset) union(t pset) pset {
	out := pset{}
	for k := range s {
		out[k] = true
	}
	for k := range t {
		out[k] = true
	}
	return out
}

func (s pset) mapStates(f func(pstate) pstate) pset {
	out := pset{}
	for k := range s {
		out[f(k)] = true
	}
	return out
}

type pframe struct {
	label  string
	loop   bool
	breaks pset
	conts  pset
}

type pwalker struct {
	p      *Pkg
	rel    map[*types.Func]releaser
	key    string       // text of the released expression
	root   types.Object // its root variable
	exits  []int        // releases on every path that ends (return, end of body, object replaced without release)
	frames []*pframe
	fn     string
}

const relCap = 3

func (w *pwalker) isRelease(c *ast.CallExpr) bool {
	e, _ := released(w.p, w.rel, c)
	return e != nil && exprText(e) == w.key
}

func (w *pwalker) countIn(n ast.Node) int {
	k := 0
	ast.Inspect(n, func(m ast.Node) bool {
		if c, ok := m.(*ast.CallExpr); ok && w.isRelease(c) {
			k++
		}
		return true
	})
	return k
}

func (w *pwalker) exit(s pset) {
	for st := range s {
		if st.def {
			w.exits = append(w.exits, st.n+st.d)
		}
	}
}

func (w *pwalker) target(label string, wantLoop bool) *pframe {
	for i := len(w.frames) - 1; i >= 0; i-- {
		f := w.frames[i]
		if label != "" {
			if f.label == label {
				return f
			}
			continue
		}
		if !wantLoop || f.loop {
			return f
		}
	}
	fatal("%s: break/continue without a target (label %q)", w.fn, label)
	return nil
}

func (w *pwalker) block(list []ast.Stmt, in pset) pset {
	cur := in
	for _, s := range list {
		if len(cur) == 0 {
			break
		}
		cur = w.stmt(s, cur, "")
	}
	return cur
}

func (w *pwalker) definesRoot(lhs []ast.Expr, rhs []ast.Expr) bool {
	for i, l := range lhs {
		id, ok := l.(*ast.Ident)
		if !ok {
			continue
		}
		o := w.p.Info.Defs[id]
		if o == nil {
			o = w.p.Info.Uses[id]
		}
		if o != w.root {
			continue
		}
		if len(rhs) == len(lhs) {
			if r, ok := rhs[i].(*ast.Ident); ok && r.Name == "nil" {
				return false // the variable is cleared after the release: no new object
			}
		}
		return true
	}
	return false
}

func isTerminalCall(p *Pkg, s ast.Stmt) bool {
	es, ok := s.(*ast.ExprStmt)
	if !ok {
		return false
	}
	c, ok := es.X.(*ast.CallExpr)
	if !ok {
		return false
	}
	switch f := c.Fun.(type) {
	case *ast.Ident:
		if b, ok := p.Info.Uses[f].(*types.Builtin); ok && b.Name() == "panic" {
			return true
		}
	case *ast.SelectorExpr:
		if id, ok := f.X.(*ast.Ident); ok {
			if pn, ok := p.Info.Uses[id].(*types.PkgName); ok && pn.Imported().Path() == "os" && f.Sel.Name == "Exit" {
				return true
			}
		}
	}
	return false
}

func (w *pwalker) stmt(s ast.Stmt, in pset, label string) pset {
	switch x := s.(type) {
	case nil:
		return in
	case *ast.BlockStmt:
		return w.block(x.List, in)
	case *ast.LabeledStmt:
		return w.stmt(x.Stmt, in, x.Label.Name)
	case *ast.ExprStmt:
		if isTerminalCall(w.p, x) {
			return pset{}
		}
		if c, ok := x.X.(*ast.CallExpr); ok && w.isRelease(c) {
			return in.mapStates(func(st pstate) pstate {
				if st.n < relCap {
					st.n++
				}
				return st
			})
		}
		if k := w.countIn(x); k > 0 {
			fatal("%s: %s is released inside an expression the path analysis has no rule for (%s)", w.fn, w.key, w.p.at(x.Pos()))
		}
		return in
	case *ast.DeferStmt:
		k := 0
		if w.isRelease(x.Call) {
			k = 1
		} else if fl, ok := x.Call.Fun.(*ast.FuncLit); ok {
			k = w.countIn(fl.Body)
		}
		if k == 0 {
			return in
		}
		return in.mapStates(func(st pstate) pstate {
			st.d += k
			if st.d > relCap {
				st.d = relCap
			}
			return st
		})
	case *ast.AssignStmt:
		if k := w.countIn(x); k > 0 {
			fatal("%s: %s is released inside an assignment (%s)", w.fn, w.key, w.p.at(x.Pos()))
		}
		if w.definesRoot(x.Lhs, x.Rhs) {
			return in.mapStates(func(st pstate) pstate {
				if st.def && st.n == 0 && st.d == 0 {
					w.exits = append(w.exits, 0) // the previous object is dropped without a release
				}
				return pstate{def: true, n: 0, d: st.d}
			})
		}
		return in
	case *ast.DeclStmt:
		if gd, ok := x.Decl.(*ast.GenDecl); ok {
			for _, sp := range gd.Specs {
				if vs, ok := sp.(*ast.ValueSpec); ok {
					for _, nm := range vs.Names {
						if w.p.Info.Defs[nm] == w.root {
							has := len(vs.Values) > 0
							return in.mapStates(func(st pstate) pstate { return pstate{def: has, n: 0, d: st.d} })
						}
					}
				}
			}
		}
		return in
	case *ast.ReturnStmt:
		if k := w.countIn(x); k > 0 {
			fatal("%s: %s is released inside a return expression (%s)", w.fn, w.key, w.p.at(x.Pos()))
		}
		w.exit(in)
		return pset{}
	case *ast.IfStmt:
		in = w.stmt(x.Init, in, "")
		out := w.block(x.Body.List, in)
		if x.Else != nil {
			out = out.union(w.stmt(x.Else, in, ""))
		} else {
			out = out.union(in)
		}
		return out
	case *ast.ForStmt, *ast.RangeStmt:
		var body *ast.BlockStmt
		mayskip := true
		switch l := x.(type) {
		case *ast.ForStmt:
			in = w.stmt(l.Init, in, "")
			body = l.Body
			mayskip = l.Cond != nil
		case *ast.RangeStmt:
			body = l.Body
			if l.Tok == token.DEFINE || l.Tok == token.ASSIGN {
				var lhs []ast.Expr
				if l.Key != nil {
					lhs = append(lhs, l.Key)
				}
				if l.Value != nil {
					lhs = append(lhs, l.Value)
				}
				if w.definesRoot(lhs, nil) {
					// the loop variable is the released object: a new one per iteration
					fr := &pframe{label: label, loop: true, breaks: pset{}, conts: pset{}}
					w.frames = append(w.frames, fr)
					start := in.mapStates(func(st pstate) pstate { return pstate{def: true, n: 0, d: st.d} })
					out := w.block(body.List, start).union(fr.conts)
					w.frames = w.frames[:len(w.frames)-1]
					for st := range out {
						w.exits = append(w.exits, st.n+st.d)
					}
					return in.union(fr.breaks.mapStates(func(st pstate) pstate { return pstate{def: false, d: st.d} }))
				}
			}
		}
		fr := &pframe{label: label, loop: true, breaks: pset{}, conts: pset{}}
		w.frames = append(w.frames, fr)
		acc := pset{}
		if mayskip {
			acc = acc.union(in)
		}
		cur := in
		for it := 0; it < relCap+1; it++ {
			fr.conts = pset{}
			out := w.block(body.List, cur).union(fr.conts)
			if fs, ok := x.(*ast.ForStmt); ok && fs.Post != nil {
				out = w.stmt(fs.Post, out, "")
			}
			if mayskip {
				acc = acc.union(out)
			}
			cur = out
		}
		w.frames = w.frames[:len(w.frames)-1]
		return acc.union(fr.breaks)
	case *ast.SwitchStmt, *ast.TypeSwitchStmt, *ast.SelectStmt:
		var body *ast.BlockStmt
		switch sw := x.(type) {
		case *ast.SwitchStmt:
			in = w.stmt(sw.Init, in, "")
			body = sw.Body
		case *ast.TypeSwitchStmt:
			in = w.stmt(sw.Init, in, "")
			body = sw.Body
		case *ast.SelectStmt:
			body = sw.Body
		}
		fr := &pframe{label: label, breaks: pset{}, conts: pset{}}
		w.frames = append(w.frames, fr)
		out := pset{}
		hasDefault := false
		for _, cl := range body.List {
			var list []ast.Stmt
			switch c := cl.(type) {
			case *ast.CaseClause:
				list = c.Body
				if c.List == nil {
					hasDefault = true
				}
			case *ast.CommClause:
				list = c.Body
				if c.Comm == nil {
					hasDefault = true
				}
			}
			out = out.union(w.block(list, in))
		}
		if _, isSelect := x.(*ast.SelectStmt); !hasDefault && !isSelect {
			out = out.union(in)
		}
		w.frames = w.frames[:len(w.frames)-1]
		return out.union(fr.breaks)
	case *ast.BranchStmt:
		lbl := ""
		if x.Label != nil {
			lbl = x.Label.Name
		}
		switch x.Tok {
		case token.BREAK:
			f := w.target(lbl, false)
			f.breaks = f.breaks.union(in)
		case token.CONTINUE:
			f := w.target(lbl, true)
			f.conts = f.conts.union(in)
		case token.FALLTHROUGH:
			return in // the next clause starts from the same entry states anyway (clauses are joined)
		default:
			fatal("%s: goto in a function that releases pooled objects (%s)", w.fn, w.p.at(x.Pos()))
		}
		return pset{}
	case *ast.GoStmt:
		if k := w.countIn(x); k > 0 {
			if fl, ok := x.Call.Fun.(*ast.FuncLit); ok && w.countIn(fl.Body) == k {
				return in // analysed as a unit of its own
			}
			fatal("%s: %s is released by a go statement (%s)", w.fn, w.key, w.p.at(x.Pos()))
		}
		return in
	default:
		// IncDec, Send, Empty, …: a release inside them has no rule
		if k := w.countIn(x); k > 0 {
			fatal("%s: %s is released inside a statement the path analysis has no rule for (%s)", w.fn, w.key, w.p.at(x.Pos()))
		}
		return in
	}
}

// releaseFacts of one package directory
func releaseFacts(p *Pkg, rel map[*types.Func]releaser) []releaseFact {
	var out []releaseFact
	type unit struct {
		name   string
		body   *ast.BlockStmt
		params map[types.Object]bool
		pos    token.Pos
	}
	for _, f := range p.Files {
		for _, d := range f.Decls {
			fd, ok := d.(*ast.FuncDecl)
			if !ok || fd.Body == nil {
				continue
			}
			var units []unit
			mk := func(name string, body *ast.BlockStmt, recv *ast.FieldList, ft *ast.FuncType) unit {
				u := unit{name: name, body: body, params: map[types.Object]bool{}, pos: body.Pos()}
				for _, fl := range []*ast.FieldList{recv, ft.Params} {
					if fl == nil {
						continue
					}
					for _, fld := range fl.List {
						for _, nm := range fld.Names {
							u.params[p.Info.Defs[nm]] = true
						}
					}
				}
				return u
			}
			units = append(units, mk(funcLabel(fd), fd.Body, fd.Recv, fd.Type))
			nlit := 0
			ast.Inspect(fd.Body, func(n ast.Node) bool {
				if fl, ok := n.(*ast.FuncLit); ok {
					nlit++
					units = append(units, mk(fmt.Sprintf("%s.func%d", funcLabel(fd), nlit), fl.Body, nil, fl.Type))
				}
				return true
			})
			for _, u := range units {
				// release sites directly in this unit (nested literals are units of their own, except deferred ones)
				type site struct {
					key, via string
					root     types.Object
					pos      token.Pos
					deferred bool
				}
				var sites []site
				var visit func(n ast.Node, deferred bool)
				visit = func(n ast.Node, deferred bool) {
					ast.Inspect(n, func(m ast.Node) bool {
						switch y := m.(type) {
						case *ast.FuncLit:
							return false
						case *ast.DeferStmt:
							if fl, ok := y.Call.Fun.(*ast.FuncLit); ok {
								visit(fl.Body, true)
								return false
							}
							if e, via := released(p, rel, y.Call); e != nil {
								if id := rootIdent(e); id != nil {
									sites = append(sites, site{exprText(e), via, p.Info.Uses[id], y.Pos(), true})
								}
							}
							return false
						case *ast.CallExpr:
							if e, via := released(p, rel, y); e != nil {
								id := rootIdent(e)
								if id == nil {
									fatal("%s: released expression %s has no root variable", p.at(y.Pos()), exprText(e))
								}
								sites = append(sites, site{exprText(e), via, p.Info.Uses[id], y.Pos(), deferred})
							}
						}
						return true
					})
				}
				visit(u.body, false)
				if len(sites) == 0 {
					continue
				}
				keys := map[string][]site{}
				var order []string
				for _, s := range sites {
					if _, ok := keys[s.key]; !ok {
						order = append(order, s.key)
					}
					keys[s.key] = append(keys[s.key], s)
				}
				for _, k := range order {
					ss := keys[k]
					w := &pwalker{p: p, rel: rel, key: k, root: ss[0].root, fn: u.name}
					// the object exists on entry when its root is declared outside this unit (receiver, parameter,
					// captured variable, package-level variable)
					o := ss[0].root
					outside := o == nil || u.params[o] || !(u.body.Pos() <= o.Pos() && o.Pos() < u.body.End())
					end := w.block(u.body.List, pset{pstate{def: outside}: true})
					w.exit(end)
					rf := releaseFact{file: p.base(ss[0].pos), line: p.line(ss[0].pos), fn: u.name, key: k, via: ss[0].via, sites: len(ss)}
					for _, s := range ss {
						if s.deferred {
							rf.defers++
						}
					}
					if len(w.exits) == 0 {
						rf.minRel, rf.maxRel = 0, 0
					} else {
						rf.minRel, rf.maxRel = w.exits[0], w.exits[0]
						for _, e := range w.exits {
							if e < rf.minRel {
								rf.minRel = e
							}
							if e > rf.maxRel {
								rf.maxRel = e
							}
						}
					}
					out = append(out, rf)
				}
			}
		}
	}
	return out
}

// ---------------------------------------------------------------------------------------------
// (2) header facts
// ---------------------------------------------------------------------------------------------

type headerShareFact struct {
	file         string
	line         int
	fn, target   string
	source       string
	fresh        bool
	writtenAfter bool
	via          string
}

type headerWriteFact struct {
	file       string
	line       int
	fn, header string
	field      string
	local      bool // the header written is a fresh local of the function
}

func isHeaderType(t types.Type) bool {
	return t != nil && namedType(t) == queryPkg+".Header"
}

func isViewType(t types.Type) bool {
	return t != nil && namedType(t) == queryPkg+".View"
}

type hdrAnalysis struct {
	visiting map[types.Object]bool
	p        *Pkg
	decls    map[*types.Func]*ast.FuncDecl
	freshFn  map[*types.Func]bool // functions with a Header result that is made anew on every path
	writerFn map[*types.Func]int  // functions that write a header element of their receiver (-1) / parameter k (a View or a Header)
}

// headerElemWrite: lhs is `H[i]`, `H[i].F`, … with H of type Header — returns H and the field
func (h *hdrAnalysis) headerElemWrite(lhs ast.Expr) (ast.Expr, string, bool) {
	field := ""
	e := lhs
	for {
		switch x := e.(type) {
		case *ast.SelectorExpr:
			if field == "" {
				field = x.Sel.Name
			}
			e = x.X
			continue
		case *ast.ParenExpr:
			e = x.X
			continue
		case *ast.IndexExpr:
			if tv, ok := h.p.Info.Types[x.X]; ok && isHeaderType(tv.Type) {
				if field == "" {
					field = "(element)"
				}
				return x.X, field, true
			}
			e = x.X
			field = ""
			continue
		}
		return nil, "", false
	}
}

func (h *hdrAnalysis) defsOf(body *ast.BlockStmt) map[types.Object][]ast.Expr {
	defs := map[types.Object][]ast.Expr{}
	ast.Inspect(body, func(n ast.Node) bool {
		switch x := n.(type) {
		case *ast.AssignStmt:
			if len(x.Lhs) == len(x.Rhs) {
				for i, l := range x.Lhs {
					if id, ok := l.(*ast.Ident); ok {
						o := h.p.Info.Defs[id]
						if o == nil {
							o = h.p.Info.Uses[id]
						}
						if o != nil {
							defs[o] = append(defs[o], x.Rhs[i])
						}
					}
				}
			} else if len(x.Rhs) == 1 {
				// h, idx = AddHeaderField(…): every left side comes from the one call
				for _, l := range x.Lhs {
					if id, ok := l.(*ast.Ident); ok {
						o := h.p.Info.Defs[id]
						if o == nil {
							o = h.p.Info.Uses[id]
						}
						if o != nil {
							defs[o] = append(defs[o], x.Rhs[0])
						}
					}
				}
			}
		case *ast.ValueSpec:
			for i, nm := range x.Names {
				if o := h.p.Info.Defs[nm]; o != nil {
					if i < len(x.Values) {
						defs[o] = append(defs[o], x.Values[i])
					} else {
						defs[o] = append(defs[o], ast.NewIdent("nil"))
					}
				}
			}
		}
		return true
	})
	return defs
}

// fresh: the header expression denotes storage made in this function (or by a function that makes it anew)
func (h *hdrAnalysis) fresh(e ast.Expr, body *ast.BlockStmt, defs map[types.Object][]ast.Expr, depth int) bool {
	if depth > 4 {
		return false
	}
	switch x := e.(type) {
	case *ast.ParenExpr:
		return h.fresh(x.X, body, defs, depth)
	case *ast.CompositeLit:
		return true
	case *ast.SliceExpr:
		return h.fresh(x.X, body, defs, depth+1)
	case *ast.Ident:
		if x.Name == "nil" {
			return true
		}
		o := h.p.Info.Uses[x]
		if o == nil {
			o = h.p.Info.Defs[x]
		}
		ds := defs[o]
		if o == nil || len(ds) == 0 || !(body.Pos() <= o.Pos() && o.Pos() < body.End()) {
			return false
		}
		if h.visiting[o] {
			return true // h = append(h, …): the variable's other definitions decide
		}
		h.visiting[o] = true
		defer delete(h.visiting, o)
		for _, dd := range ds {
			if !h.fresh(dd, body, defs, depth+1) {
				return false
			}
		}
		return true
	case *ast.SelectorExpr:
		// v.Header of a local view v whose header is made anew wherever this function sets it
		if x.Sel.Name != "Header" {
			return false
		}
		id, ok := x.X.(*ast.Ident)
		if !ok {
			return false
		}
		o := h.p.Info.Uses[id]
		if o == nil || !(body.Pos() <= o.Pos() && o.Pos() < body.End()) || h.visiting[o] {
			return false
		}
		h.visiting[o] = true
		defer delete(h.visiting, o)
		n, all := 0, true
		ast.Inspect(body, func(m ast.Node) bool {
			as, ok := m.(*ast.AssignStmt)
			if !ok || len(as.Lhs) != len(as.Rhs) {
				return true
			}
			for i, l := range as.Lhs {
				if sel, ok := l.(*ast.SelectorExpr); ok && sel.Sel.Name == "Header" {
					if lid, ok := sel.X.(*ast.Ident); ok && h.p.Info.Uses[lid] == o {
						n++
						if !h.fresh(as.Rhs[i], body, defs, depth+1) {
							all = false
						}
					}
				}
			}
			return true
		})
		return n > 0 && all
	case *ast.CallExpr:
		if id, ok := x.Fun.(*ast.Ident); ok {
			if b, ok := h.p.Info.Uses[id].(*types.Builtin); ok {
				switch b.Name() {
				case "make", "new":
					return true
				case "append":
					return len(x.Args) > 0 && h.fresh(x.Args[0], body, defs, depth+1)
				}
				return false
			}
		}
		if tv, ok := h.p.Info.Types[x.Fun]; ok && tv.IsType() && len(x.Args) == 1 {
			return h.fresh(x.Args[0], body, defs, depth+1)
		}
		if fn := calleeFunc(h.p, x); fn != nil {
			if h.freshFn[fn] {
				return true
			}
			// a function that returns its (appended-to) argument: fresh iff that argument is
			if fn.Name() == "AddHeaderField" && len(x.Args) > 0 {
				return h.fresh(x.Args[0], body, defs, depth+1)
			}
		}
	}
	return false
}

func (h *hdrAnalysis) computeFreshFns() {
	h.freshFn = map[*types.Func]bool{}
	for changed := true; changed; {
		changed = false
		for fn, fd := range h.decls {
			if h.freshFn[fn] || fd.Type.Results == nil || fd.Type.Results.NumFields() != 1 {
				continue
			}
			if tv, ok := h.p.Info.Types[fd.Type.Results.List[0].Type]; !ok || !isHeaderType(tv.Type) {
				continue
			}
			defs := h.defsOf(fd.Body)
			all, any := true, false
			ast.Inspect(fd.Body, func(n ast.Node) bool {
				if _, isLit := n.(*ast.FuncLit); isLit {
					return false
				}
				if r, ok := n.(*ast.ReturnStmt); ok {
					any = true
					if len(r.Results) != 1 || !h.fresh(r.Results[0], fd.Body, defs, 0) {
						all = false
					}
				}
				return true
			})
			if all && any {
				h.freshFn[fn] = true
				changed = true
			}
		}
	}
}

// computeWriters: functions that write an element of a header reached from their receiver / a parameter, or hand
// it to one that does
func (h *hdrAnalysis) computeWriters() {
	h.writerFn = map[*types.Func]int{}
	for changed := true; changed; {
		changed = false
		for fn, fd := range h.decls {
			if _, done := h.writerFn[fn]; done {
				continue
			}
			params := map[types.Object]int{}
			if fd.Recv != nil && len(fd.Recv.List) == 1 && len(fd.Recv.List[0].Names) == 1 {
				params[h.p.Info.Defs[fd.Recv.List[0].Names[0]]] = -1
			}
			k := 0
			for _, fld := range fd.Type.Params.List {
				for _, nm := range fld.Names {
					params[h.p.Info.Defs[nm]] = k
					k++
				}
				if len(fld.Names) == 0 {
					k++
				}
			}
			mark := func(e ast.Expr) {
				id := rootIdent(e)
				if id == nil {
					return
				}
				if idx, ok := params[h.p.Info.Uses[id]]; ok {
					// only views and headers carry a header
					t := h.p.Info.Uses[id].Type()
					if isViewType(t) || isHeaderType(t) {
						if _, done := h.writerFn[fn]; !done {
							h.writerFn[fn] = idx
							changed = true
						}
					}
				}
			}
			ast.Inspect(fd.Body, func(n ast.Node) bool {
				switch x := n.(type) {
				case *ast.AssignStmt:
					for _, l := range x.Lhs {
						if hx, _, ok := h.headerElemWrite(l); ok {
							mark(hx)
						}
					}
				case *ast.IncDecStmt:
					if hx, _, ok := h.headerElemWrite(x.X); ok {
						mark(hx)
					}
				case *ast.CallExpr:
					if cf := calleeFunc(h.p, x); cf != nil {
						if idx, ok := h.writerFn[cf]; ok {
							if idx < 0 {
								if sel, ok := x.Fun.(*ast.SelectorExpr); ok {
									mark(sel.X)
								}
							} else if idx < len(x.Args) {
								mark(x.Args[idx])
							}
						}
					}
				}
				return true
			})
		}
	}
}

// writesVia: does node n (a statement) write the header of the view / header variable o?  Returns a description.
func (h *hdrAnalysis) writesVia(n ast.Node, o types.Object) string {
	via := ""
	ast.Inspect(n, func(m ast.Node) bool {
		if via != "" {
			return false
		}
		isO := func(e ast.Expr) bool {
			id := rootIdent(e)
			return id != nil && h.p.Info.Uses[id] == o
		}
		switch x := m.(type) {
		case *ast.AssignStmt:
			for _, l := range x.Lhs {
				if hx, f, ok := h.headerElemWrite(l); ok && isO(hx) {
					via = "writes " + exprText(hx) + "[…]." + f
				}
			}
		case *ast.CallExpr:
			if cf := calleeFunc(h.p, x); cf != nil {
				if idx, ok := h.writerFn[cf]; ok {
					if idx < 0 {
						if sel, ok := x.Fun.(*ast.SelectorExpr); ok && isO(sel.X) {
							via = "calls " + exprText(x.Fun) + " (writes header fields)"
						}
					} else if idx < len(x.Args) && isO(x.Args[idx]) {
						via = "hands it to " + exprText(x.Fun) + " (writes header fields)"
					}
				}
			}
		}
		return via == ""
	})
	return via
}

func headerFacts(p *Pkg) ([]headerShareFact, []headerWriteFact) {
	h := &hdrAnalysis{p: p, decls: map[*types.Func]*ast.FuncDecl{}, visiting: map[types.Object]bool{}}
	for _, f := range p.Files {
		for _, d := range f.Decls {
			if fd, ok := d.(*ast.FuncDecl); ok && fd.Body != nil {
				if fn, ok := p.Info.Defs[fd.Name].(*types.Func); ok {
					h.decls[fn] = fd
				}
			}
		}
	}
	h.computeFreshFns()
	h.computeWriters()
	var shares []headerShareFact
	var writes []headerWriteFact
	for _, f := range p.Files {
		for _, d := range f.Decls {
			fd, ok := d.(*ast.FuncDecl)
			if !ok || fd.Body == nil {
				continue
			}
			defs := h.defsOf(fd.Body)
			// parents, for "the statements that follow"
			par := map[ast.Node]ast.Node{}
			var stack []ast.Node
			ast.Inspect(fd.Body, func(n ast.Node) bool {
				if n == nil {
					stack = stack[:len(stack)-1]
					return true
				}
				if len(stack) > 0 {
					par[n] = stack[len(stack)-1]
				}
				stack = append(stack, n)
				return true
			})
			// what follows statement s on the way out of the function: the later statements of every enclosing
			// list; stops at an unconditional fresh re-assignment of `owner.Header`
			following := func(s ast.Node, owner types.Object) string {
				for cur := s; cur != nil && cur != ast.Node(fd.Body); cur = par[cur] {
					list := stmtList(par[cur])
					if list == nil {
						continue
					}
					idx := -1
					for i, st := range list {
						if ast.Node(st) == cur {
							idx = i
						}
					}
					for _, st := range list[idx+1:] {
						if as, ok := st.(*ast.AssignStmt); ok && len(as.Lhs) == 1 && len(as.Rhs) == 1 {
							if sel, ok := as.Lhs[0].(*ast.SelectorExpr); ok && sel.Sel.Name == "Header" {
								if id := rootIdent(sel.X); id != nil && p.Info.Uses[id] == owner && h.fresh(as.Rhs[0], fd.Body, defs, 0) {
									return "" // from here on the view has a header of its own, on every path
								}
							}
						}
						if via := h.writesVia(st, owner); via != "" {
							return via
						}
					}
					// a loop body runs again: the statements before s in the loop follow it too
					switch par[par[cur]].(type) {
					case *ast.ForStmt, *ast.RangeStmt:
						for _, st := range list[:idx+1] {
							if via := h.writesVia(st, owner); via != "" {
								return via
							}
						}
					}
				}
				return ""
			}
			ast.Inspect(fd.Body, func(n ast.Node) bool {
				switch x := n.(type) {
				case *ast.AssignStmt:
					if len(x.Lhs) == len(x.Rhs) {
						for i, l := range x.Lhs {
							sel, ok := l.(*ast.SelectorExpr)
							if !ok || sel.Sel.Name != "Header" {
								continue
							}
							if tv, ok := p.Info.Types[sel.X]; !ok || !isViewType(tv.Type) {
								continue
							}
							hs := headerShareFact{file: p.base(x.Pos()), line: p.line(x.Pos()), fn: funcLabel(fd), target: exprText(l), source: exprText(x.Rhs[i])}
							hs.fresh = h.fresh(x.Rhs[i], fd.Body, defs, 0)
							// v.Header = f(v.Header…): the view keeps (an extension of) its own header
							if id, rid := rootIdent(sel.X), rootIdent(x.Rhs[i]); !hs.fresh && id != nil && rid != nil && p.Info.Uses[id] == p.Info.Uses[rid] {
								if strings.Contains(exprText(x.Rhs[i]), exprText(l)) {
									hs.fresh = true
									hs.source += " (its own header)"
								}
							}
							if !hs.fresh {
								if id := rootIdent(sel.X); id != nil {
									if via := following(x, p.Info.Uses[id]); via != "" {
										hs.writtenAfter, hs.via = true, via
									}
								}
							}
							shares = append(shares, hs)
						}
					}
					for _, l := range x.Lhs {
						if hx, fld, ok := h.headerElemWrite(l); ok {
							hw := headerWriteFact{file: p.base(x.Pos()), line: p.line(x.Pos()), fn: funcLabel(fd), header: exprText(hx), field: fld}
							hw.local = h.fresh(hx, fd.Body, defs, 0)
							writes = append(writes, hw)
						}
					}
				case *ast.CompositeLit:
					tv, ok := p.Info.Types[x]
					if !ok || !isViewType(tv.Type) {
						return true
					}
					for _, el := range x.Elts {
						kv, ok := el.(*ast.KeyValueExpr)
						if !ok {
							continue
						}
						k, ok := kv.Key.(*ast.Ident)
						if !ok || k.Name != "Header" {
							continue
						}
						hs := headerShareFact{file: p.base(kv.Pos()), line: p.line(kv.Pos()), fn: funcLabel(fd), target: "View{Header: …}", source: exprText(kv.Value)}
						hs.fresh = h.fresh(kv.Value, fd.Body, defs, 0)
						if !hs.fresh {
							// the literal bound to a variable: v := &View{…}
							var owner types.Object
							for up := par[ast.Node(x)]; up != nil; up = par[up] {
								if as, ok := up.(*ast.AssignStmt); ok && len(as.Lhs) == 1 {
									if id, ok := as.Lhs[0].(*ast.Ident); ok {
										owner = p.Info.Defs[id]
										if owner == nil {
											owner = p.Info.Uses[id]
										}
										if via := following(as, owner); via != "" {
											hs.writtenAfter, hs.via = true, via
										}
									}
									break
								}
								if _, isStmt := up.(ast.Stmt); isStmt {
									break
								}
							}
						}
						shares = append(shares, hs)
					}
				}
				return true
			})
		}
	}
	sort.SliceStable(shares, func(i, j int) bool {
		if shares[i].file != shares[j].file {
			return shares[i].file < shares[j].file
		}
		return shares[i].line < shares[j].line
	})
	sort.SliceStable(writes, func(i, j int) bool {
		if writes[i].file != writes[j].file {
			return writes[i].file < writes[j].file
		}
		return writes[i].line < writes[j].line
	})
	return shares, writes
}

// poolAndHeaderFactsLean renders both families as Lean definitions (appended to Gen/ParFacts.lean)
func poolAndHeaderFactsLean(p *Pkg) string {
	var o strings.Builder
	rel := findReleasers(p)
	var rfs []releaseFact
	rfs = append(rfs, releaseFacts(p, rel)...)
	rfs = append(rfs, outsideScan(rel)...)
	sort.SliceStable(rfs, func(i, j int) bool {
		if rfs[i].file != rfs[j].file {
			return rfs[i].file < rfs[j].file
		}
		return rfs[i].line < rfs[j].line
	})
	var names []string
	for _, r := range rel {
		names = append(names, r.name)
	}
	sort.Strings(names)
	o.WriteString("/-- functions that give their receiver / a parameter (or something reached from it) back to a sync.Pool, found from the source -/\n")
	o.WriteString("def poolReleasers : List String := [")
	for i, n := range names {
		if i > 0 {
			o.WriteString(", ")
		}
		o.WriteString(leanStr(n))
	}
	o.WriteString("]\n\n")
	o.WriteString("/-- per function and released object: release sites, deferred ones among them, fewest and most releases on a path -/\n")
	o.WriteString("def releaseFacts : List ReleaseFact := [\n")
	for i, r := range rfs {
		sep := ","
		if i == len(rfs)-1 {
			sep = ""
		}
		fmt.Fprintf(&o, "  ⟨%s, %d, %s, %s, %s, %d, %d, %d, %d⟩%s\n", leanStr(r.file), r.line, leanStr(r.fn), leanStr(r.key), leanStr(r.via), r.sites, r.defers, r.minRel, r.maxRel, sep)
	}
	o.WriteString("]\n\n")
	o.WriteString("/-- variables of the enclosing function assigned by a goroutine literal outside lib/query: (file, function, variable) -/\n")
	o.WriteString("def outsideGoWrites : List (String × String × String) := [")
	sort.Slice(outsideGoWrites, func(i, j int) bool {
		a, b := outsideGoWrites[i], outsideGoWrites[j]
		return a[0]+a[1]+a[2] < b[0]+b[1]+b[2]
	})
	for i, w := range outsideGoWrites {
		if i > 0 {
			o.WriteString(", ")
		}
		fmt.Fprintf(&o, "(%s, %s, %s)", leanStr(w[0]), leanStr(w[1]), leanStr(w[2]))
	}
	o.WriteString("]\n\n")
	shares, writes := headerFacts(p)
	o.WriteString("/-- every place a View's Header is set: made anew, or another view's header — and then: is it written afterwards -/\n")
	o.WriteString("def headerShareFacts : List HeaderShareFact := [\n")
	for i, s := range shares {
		sep := ","
		if i == len(shares)-1 {
			sep = ""
		}
		fmt.Fprintf(&o, "  ⟨%s, %d, %s, %s, %s, %v, %v, %s⟩%s\n", leanStr(s.file), s.line, leanStr(s.fn), leanStr(s.target), leanStr(s.source), s.fresh, s.writtenAfter, leanStr(s.via), sep)
	}
	o.WriteString("]\n\n")
	o.WriteString("/-- every statement that writes a field of a header element -/\n")
	o.WriteString("def headerWriteFacts : List HeaderWriteFact := [\n")
	for i, w := range writes {
		sep := ","
		if i == len(writes)-1 {
			sep = ""
		}
		fmt.Fprintf(&o, "  ⟨%s, %d, %s, %s, %s, %v⟩%s\n", leanStr(w.file), w.line, leanStr(w.fn), leanStr(w.header), leanStr(w.field), w.local, sep)
	}
	o.WriteString("]\n\n")
	return o.String()
}

// outsideScan: the other packages under lib/ (lib/value has pools of its own, property C14).  They are only parsed:
// a call of a releaser there has no rule (the program stops), an acquisition is listed as never released.
// goroutines started OUTSIDE lib/query (the command line front end, the actions, the terminal): (file, function,
// variable) for every variable of the enclosing function that a `go func() {…}()` literal assigns — such a variable
// is written by the goroutine and read by its parent with nothing ordering the two unless the code says so; results
// are handed over through channels there.  Parse-only (identifier resolution of go/parser).
var outsideGoWrites [][3]string

func goCapturedWrites(file string, fd *ast.FuncDecl) [][3]string {
	var out [][3]string
	ast.Inspect(fd.Body, func(n ast.Node) bool {
		g, ok := n.(*ast.GoStmt)
		if !ok {
			return true
		}
		fl, ok := g.Call.Fun.(*ast.FuncLit)
		if !ok {
			return true
		}
		captured := func(e ast.Expr) string {
			id := rootIdent(e)
			if id == nil || id.Obj == nil || id.Obj.Kind != ast.Var {
				return ""
			}
			d, ok := id.Obj.Decl.(ast.Node)
			if !ok || (fl.Pos() <= d.Pos() && d.Pos() < fl.End()) {
				return ""
			}
			if !(fd.Pos() <= d.Pos() && d.Pos() < fd.End()) {
				return ""
			}
			return exprText(e)
		}
		ast.Inspect(fl.Body, func(m ast.Node) bool {
			switch x := m.(type) {
			case *ast.AssignStmt:
				if x.Tok == token.DEFINE {
					return true
				}
				for _, l := range x.Lhs {
					if v := captured(l); v != "" {
						out = append(out, [3]string{file, funcLabel(fd), v})
					}
				}
			case *ast.IncDecStmt:
				if v := captured(x.X); v != "" {
					out = append(out, [3]string{file, funcLabel(fd), v})
				}
			}
			return true
		})
		return true
	})
	return out
}

func outsideScan(rel map[*types.Func]releaser) []releaseFact {
	relNames := map[string]bool{"NewChildProcessor": true}
	for _, r := range rel {
		n := r.name
		if i := strings.LastIndex(n, "."); i >= 0 {
			n = n[i+1:]
		}
		if n != "Close" { // Processor.Close: found through NewChildProcessor
			relNames[n] = true
		}
	}
	acquirers := map[string]bool{"CreateNode": true, "CreateChild": true, "GetNodeScope": true, "GetBlockScope": true, "GetComparisonKeysBuf": true}
	var out []releaseFact
	dirs, _ := filepath.Glob(filepath.Join(repoRoot(), "lib", "*"))
	dirs = append(dirs, repoRoot())
	sort.Strings(dirs)
	for _, dir := range dirs {
		if b := filepath.Base(dir); b == "query" || b == "value" {
			continue
		}
		files, _ := filepath.Glob(filepath.Join(dir, "*.go"))
		sort.Strings(files)
		for _, fn := range files {
			if strings.HasSuffix(fn, "_test.go") {
				continue
			}
			f, err := parser.ParseFile(sharedFset, fn, nil, 0)
			if err != nil {
				fatal("parse %s: %v", fn, err)
			}
			for _, d := range f.Decls {
				fd, ok := d.(*ast.FuncDecl)
				if !ok || fd.Body == nil {
					continue
				}
				outsideGoWrites = append(outsideGoWrites, goCapturedWrites(filepath.Base(fn), fd)...)
				ast.Inspect(fd.Body, func(n ast.Node) bool {
					switch x := n.(type) {
					case *ast.SelectorExpr:
						if id, ok := x.X.(*ast.Ident); ok && id.Name == "sync" && x.Sel.Name == "Pool" {
							fatal("%s: a sync.Pool outside lib/query and lib/value (no rule)", sharedFset.Position(x.Pos()))
						}
					case *ast.CallExpr:
						name := ""
						switch fx := x.Fun.(type) {
						case *ast.Ident:
							name = fx.Name
						case *ast.SelectorExpr:
							name = fx.Sel.Name
						}
						if relNames[name] {
							fatal("%s: %s called outside lib/query (the release analysis covers lib/query only)", sharedFset.Position(x.Pos()), name)
						}
						if acquirers[name] {
							pos := sharedFset.Position(x.Pos())
							out = append(out, releaseFact{file: filepath.Base(pos.Filename), line: pos.Line, fn: funcLabel(fd), key: exprText(x), via: "never released (left to the garbage collector)"})
						}
					}
					return true
				})
			}
		}
	}
	return out
}
