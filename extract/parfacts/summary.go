package main

// Method summaries: which fields of its receiver a method reads and writes (syntactic, transitive over
// the methods of the same type and, one level down, over the methods of the receiver's fields).
//
// A method call `x.M(…)` on an object shared between goroutines is an access to that object's state:
// `reader.Read()` in one goroutine and `reader.Pos()` in another touch `reader.pos` although neither
// closure mentions the field.  The summary turns such calls into accesses `x.<field>` that take part in
// the ordinary classification.  It is computed from the source of the method, wherever it lives (the
// module under analysis, its dependencies in the module cache, the standard library).
//
// Conservative where it matters: an effect that cannot be resolved (a method of a field whose type is not
// found, an interface-typed field) counts as a WRITE of that field.  Liberal in two places, stated in the
// evidence: a receiver handed as an argument to another function is not followed, and local aliases of
// receiver fields are not tracked.

import (
	"go/ast"
	"go/build"
	"go/parser"
	"go/token"
	"go/types"
	"os"
	"path/filepath"
	"sort"
	"strings"
)

type effect struct {
	field string // first-level field of the receiver; "*" = the whole object
	rw    byte
	guard string // mutex field of the receiver held while the access happens ("" = none)
}

type pkgSrc struct {
	dir     string
	methods map[string]map[string]*ast.FuncDecl // type → method → declaration
	structs map[string]*ast.StructType
	named   map[string]ast.Expr             // other named types: their underlying type expression
	imports map[*ast.File]map[string]string // local package name → import path
	fileOf  map[*ast.FuncDecl]*ast.File
	fileOfT map[string]*ast.File
}

type summaries struct {
	srcs  map[string]*pkgSrc
	dirs  map[string]string // import path (+ "\x00" + from-dir) → directory
	cache map[string][]effect
	busy  map[string]bool
}

func newSummaries() *summaries {
	return &summaries{srcs: map[string]*pkgSrc{}, dirs: map[string]string{}, cache: map[string][]effect{}, busy: map[string]bool{}}
}

func (s *summaries) load(dir string) *pkgSrc {
	if p, ok := s.srcs[dir]; ok {
		return p
	}
	p := &pkgSrc{dir: dir, methods: map[string]map[string]*ast.FuncDecl{}, structs: map[string]*ast.StructType{}, named: map[string]ast.Expr{},
		imports: map[*ast.File]map[string]string{}, fileOf: map[*ast.FuncDecl]*ast.File{}, fileOfT: map[string]*ast.File{}}
	s.srcs[dir] = p
	fset := token.NewFileSet()
	pkgs, err := parser.ParseDir(fset, dir, func(fi os.FileInfo) bool {
		if strings.HasSuffix(fi.Name(), "_test.go") {
			return false
		}
		ok, err := build.Default.MatchFile(dir, fi.Name())
		return err == nil && ok
	}, 0)
	if err != nil {
		return p
	}
	for _, ap := range pkgs {
		for _, f := range ap.Files {
			imps := map[string]string{}
			for _, im := range f.Imports {
				path := strings.Trim(im.Path.Value, "\"`")
				name := path[strings.LastIndex(path, "/")+1:]
				if im.Name != nil {
					name = im.Name.Name
				}
				imps[name] = path
			}
			p.imports[f] = imps
			for _, d := range f.Decls {
				switch x := d.(type) {
				case *ast.FuncDecl:
					if x.Recv == nil || len(x.Recv.List) != 1 || x.Body == nil {
						continue
					}
					tn := recvTypeName(x.Recv.List[0].Type)
					if tn == "" {
						continue
					}
					if p.methods[tn] == nil {
						p.methods[tn] = map[string]*ast.FuncDecl{}
					}
					p.methods[tn][x.Name.Name] = x
					p.fileOf[x] = f
				case *ast.GenDecl:
					for _, sp := range x.Specs {
						if ts, ok := sp.(*ast.TypeSpec); ok {
							p.fileOfT[ts.Name.Name] = f
							if st, ok := ts.Type.(*ast.StructType); ok {
								p.structs[ts.Name.Name] = st
							} else {
								p.named[ts.Name.Name] = ts.Type
							}
						}
					}
				}
			}
		}
	}
	return p
}

func recvTypeName(t ast.Expr) string {
	switch x := t.(type) {
	case *ast.StarExpr:
		return recvTypeName(x.X)
	case *ast.ParenExpr:
		return recvTypeName(x.X)
	case *ast.Ident:
		return x.Name
	case *ast.IndexExpr: // generic receiver T[P]
		return recvTypeName(x.X)
	case *ast.IndexListExpr:
		return recvTypeName(x.X)
	}
	return ""
}

func (s *summaries) dirOf(importPath, fromDir string) string {
	key := importPath + "\x00" + fromDir
	if d, ok := s.dirs[key]; ok {
		return d
	}
	d := ""
	if bp, err := build.Default.Import(importPath, fromDir, build.FindOnly); err == nil {
		d = bp.Dir
	}
	s.dirs[key] = d
	return d
}

// fieldType resolves the declared type of field f of struct type tn: (directory, type name, isInterfaceOrUnknown)
func (s *summaries) fieldType(p *pkgSrc, tn, f string) (string, string, bool) {
	st := p.structs[tn]
	if st == nil {
		return "", "", true
	}
	file := p.fileOfT[tn]
	for _, fld := range st.Fields.List {
		match := false
		for _, nm := range fld.Names {
			if nm.Name == f {
				match = true
			}
		}
		if len(fld.Names) == 0 && recvTypeName(embeddedName(fld.Type)) == f {
			match = true
		}
		if !match {
			continue
		}
		t := fld.Type
		for {
			if se, ok := t.(*ast.StarExpr); ok {
				t = se.X
				continue
			}
			break
		}
		switch x := t.(type) {
		case *ast.Ident:
			if _, isStruct := p.structs[x.Name]; isStruct {
				return p.dir, x.Name, false
			}
			if _, isNamed := p.named[x.Name]; isNamed {
				return p.dir, x.Name, false
			}
			return "", "", false // basic type: no methods that matter
		case *ast.SelectorExpr:
			if pid, ok := x.X.(*ast.Ident); ok {
				if path, ok := p.imports[file][pid.Name]; ok {
					if d := s.dirOf(path, p.dir); d != "" {
						return d, x.Sel.Name, false
					}
				}
			}
			return "", "", true
		case *ast.InterfaceType:
			return "", "", true
		default:
			return "", "", false // slices, maps, funcs, channels: no methods
		}
	}
	return "", "", true
}

func embeddedName(t ast.Expr) ast.Expr {
	switch x := t.(type) {
	case *ast.StarExpr:
		return embeddedName(x.X)
	case *ast.SelectorExpr:
		return x.Sel
	}
	return t
}

// types of the standard library and of the module whose methods are safe to call from several
// goroutines, or never change their receiver
var concurrencySafe = map[string]bool{
	"context": true, "time": true, "sync": true, "sync/atomic": true, "regexp": true, "errors": true, "reflect": true,
}

// methodEffects: the effects of method `name` of type `tn` declared in directory dir.
func (s *summaries) methodEffects(dir, tn, name string, depth int) []effect {
	key := dir + "\x00" + tn + "\x00" + name
	if e, ok := s.cache[key]; ok {
		return e
	}
	if s.busy[key] || depth > 4 {
		return nil
	}
	s.busy[key] = true
	defer delete(s.busy, key)
	p := s.load(dir)
	fd := p.methods[tn][name]
	if fd == nil {
		// promoted through an embedded field, or not found: unknown
		for _, st := range []*ast.StructType{p.structs[tn]} {
			if st == nil {
				continue
			}
			for _, fld := range st.Fields.List {
				if len(fld.Names) == 0 {
					en := recvTypeName(embeddedName(fld.Type))
					d2, t2, unknown := s.fieldType(p, tn, en)
					if !unknown && t2 != "" {
						sub := s.methodEffects(d2, t2, name, depth+1)
						if s.has(d2, t2, name) {
							out := []effect{{en, 'R', ""}}
							for _, e := range sub {
								if e.rw == 'W' {
									out = []effect{{en, 'W', e.guard}}
								}
							}
							s.cache[key] = out
							return out
						}
					}
				}
			}
		}
		out := []effect{{"*", 'W', ""}}
		s.cache[key] = out
		return out
	}
	rn := ""
	if len(fd.Recv.List[0].Names) == 1 {
		rn = fd.Recv.List[0].Names[0].Name
	}
	_, ptrRecv := fd.Recv.List[0].Type.(*ast.StarExpr)
	var out []effect
	if rn == "" || rn == "_" {
		s.cache[key] = out
		return out
	}
	isRecv := func(e ast.Expr) bool {
		id, ok := e.(*ast.Ident)
		return ok && id.Name == rn && id.Obj != nil && id.Obj.Decl == ast.Node(fd.Recv.List[0])
	}
	// chain: root receiver?, first field, number of indirections after the root
	chain := func(e ast.Expr) (bool, string, int) {
		ind := 0
		first := ""
		for {
			switch x := e.(type) {
			case *ast.ParenExpr:
				e = x.X
			case *ast.StarExpr:
				ind++
				e = x.X
			case *ast.IndexExpr:
				ind++
				first = ""
				e = x.X
			case *ast.SliceExpr:
				ind++
				first = ""
				e = x.X
			case *ast.SelectorExpr:
				first = x.Sel.Name
				if !isRecv(x.X) {
					// deeper than one field: the indirections so far stay, the field name is re-taken below
					ind++
				}
				e = x.X
			case *ast.TypeAssertExpr:
				e = x.X
			default:
				if isRecv(e) {
					return true, first, ind
				}
				return false, "", 0
			}
		}
	}
	// guard: position ranges during which a mutex field of the receiver is held
	type held struct {
		from, to token.Pos
		m        string
	}
	var locks []held
	ast.Inspect(fd.Body, func(n ast.Node) bool {
		es, ok := n.(*ast.ExprStmt)
		if !ok {
			return true
		}
		c, ok := es.X.(*ast.CallExpr)
		if !ok {
			return true
		}
		sel, ok := c.Fun.(*ast.SelectorExpr)
		if !ok || (sel.Sel.Name != "Lock" && sel.Sel.Name != "RLock") {
			return true
		}
		if inner, ok := sel.X.(*ast.SelectorExpr); ok && isRecv(inner.X) {
			h := held{from: es.End(), to: fd.Body.End(), m: inner.Sel.Name}
			// a non-deferred Unlock of the same mutex later in the body ends the region
			ast.Inspect(fd.Body, func(m ast.Node) bool {
				if es2, ok := m.(*ast.ExprStmt); ok && es2.Pos() > es.End() {
					if c2, ok := es2.X.(*ast.CallExpr); ok {
						if s2, ok := c2.Fun.(*ast.SelectorExpr); ok && (s2.Sel.Name == "Unlock" || s2.Sel.Name == "RUnlock") {
							if i2, ok := s2.X.(*ast.SelectorExpr); ok && isRecv(i2.X) && i2.Sel.Name == inner.Sel.Name && es2.Pos() < h.to {
								h.to = es2.Pos()
							}
						}
					}
				}
				return true
			})
			locks = append(locks, h)
		}
		return true
	})
	guardAt := func(pos token.Pos) string {
		for _, h := range locks {
			if h.from <= pos && pos < h.to {
				return h.m
			}
		}
		return ""
	}
	add := func(pos token.Pos, field string, rw byte) {
		if field == "" {
			field = "*"
		}
		out = append(out, effect{field, rw, guardAt(pos)})
	}
	write := func(lhs ast.Expr) {
		isR, first, ind := chain(lhs)
		if !isR {
			return
		}
		if first == "" || isRecv(lhs) {
			if ptrRecv || ind > 0 {
				add(lhs.Pos(), "*", 'W')
			}
			return
		}
		// first = the field next to the receiver when the chain is r.f…; for deeper chains chain() leaves the
		// outermost field name: find the one adjacent to the receiver
		add(lhs.Pos(), adjacentField(lhs, isRecv), 'W')
		_ = ind
	}
	ast.Inspect(fd.Body, func(n ast.Node) bool {
		switch x := n.(type) {
		case *ast.AssignStmt:
			for _, l := range x.Lhs {
				if !ptrRecv {
					// value receiver: a plain field assignment changes the copy only
					if _, _, ind := chain(l); ind == 0 {
						continue
					}
				}
				write(l)
			}
		case *ast.IncDecStmt:
			if !ptrRecv {
				if _, _, ind := chain(x.X); ind == 0 {
					return true
				}
			}
			write(x.X)
		case *ast.RangeStmt:
			if x.Tok == token.ASSIGN {
				if x.Key != nil {
					write(x.Key)
				}
				if x.Value != nil {
					write(x.Value)
				}
			}
		case *ast.UnaryExpr:
			if x.Op == token.AND {
				if isR, _, _ := chain(x.X); isR {
					add(x.Pos(), adjacentField(x.X, isRecv), 'W')
				}
			}
		case *ast.SelectorExpr:
			if isRecv(x.X) {
				if _, isMethod := p.methods[tn][x.Sel.Name]; !isMethod {
					add(x.Pos(), x.Sel.Name, 'R')
				}
			}
		case *ast.CallExpr:
			if id, ok := x.Fun.(*ast.Ident); ok && id.Obj == nil {
				switch id.Name {
				case "delete", "copy", "clear":
					if len(x.Args) > 0 {
						if isR, _, _ := chain(x.Args[0]); isR {
							add(x.Pos(), adjacentField(x.Args[0], isRecv), 'W')
						}
					}
				}
			}
			for _, a := range x.Args {
				if se, ok := a.(*ast.SliceExpr); ok {
					if isR, _, _ := chain(se); isR {
						add(a.Pos(), adjacentField(se, isRecv), 'W') // a sub-slice of a receiver buffer handed out: written by the callee
					}
				}
			}
			sel, ok := x.Fun.(*ast.SelectorExpr)
			if !ok {
				return true
			}
			if isRecv(sel.X) {
				if _, isMethod := p.methods[tn][sel.Sel.Name]; isMethod {
					out = append(out, s.methodEffects(dir, tn, sel.Sel.Name, depth+1)...)
				}
				return true
			}
			if inner, ok := sel.X.(*ast.SelectorExpr); ok && isRecv(inner.X) {
				// r.f.M(…): a method of a field
				d2, t2, unknown := s.fieldType(p, tn, inner.Sel.Name)
				switch {
				case unknown:
					add(x.Pos(), inner.Sel.Name, 'W')
				case t2 == "":
					// no methods that matter
				default:
					if ip := importPathOfDir(d2); concurrencySafe[ip] {
						return true
					}
					sub := s.methodEffects(d2, t2, sel.Sel.Name, depth+1)
					w, g := false, ""
					for _, e := range sub {
						if e.rw == 'W' {
							w = true
							g = e.guard
						}
					}
					if w {
						out = append(out, effect{inner.Sel.Name, 'W', firstNonEmpty(guardAt(x.Pos()), prefixed(g, inner.Sel.Name))})
					}
				}
			}
		}
		return true
	})
	// dedupe
	seen := map[effect]bool{}
	var uniq []effect
	for _, e := range out {
		if !seen[e] {
			seen[e] = true
			uniq = append(uniq, e)
		}
	}
	sort.Slice(uniq, func(i, j int) bool {
		if uniq[i].field != uniq[j].field {
			return uniq[i].field < uniq[j].field
		}
		if uniq[i].rw != uniq[j].rw {
			return uniq[i].rw < uniq[j].rw
		}
		return uniq[i].guard < uniq[j].guard
	})
	s.cache[key] = uniq
	return uniq
}

func (s *summaries) has(dir, tn, name string) bool {
	p := s.load(dir)
	return p.methods[tn][name] != nil
}

func firstNonEmpty(a, b string) string {
	if a != "" {
		return a
	}
	return b
}

func prefixed(g, field string) string {
	if g == "" {
		return ""
	}
	return field + "." + g
}

// adjacentField: the field selected directly on the receiver in the chain e (r.f.g[i] → f)
func adjacentField(e ast.Expr, isRecv func(ast.Expr) bool) string {
	for {
		switch x := e.(type) {
		case *ast.ParenExpr:
			e = x.X
		case *ast.StarExpr:
			e = x.X
		case *ast.IndexExpr:
			e = x.X
		case *ast.SliceExpr:
			e = x.X
		case *ast.TypeAssertExpr:
			e = x.X
		case *ast.SelectorExpr:
			if isRecv(x.X) {
				return x.Sel.Name
			}
			e = x.X
		default:
			return "*"
		}
	}
}

func importPathOfDir(dir string) string {
	goroot := filepath.Join(build.Default.GOROOT, "src") + string(filepath.Separator)
	if strings.HasPrefix(dir, goroot) {
		return filepath.ToSlash(strings.TrimPrefix(dir, goroot))
	}
	return ""
}

// effectsOfCall: the effects of calling method fn (resolved by go/types) on its receiver; for a method of
// an interface the union over every implementing type known to the type checker.
func (a *analysis) effectsOfCall(fn *types.Func, recv types.Type) ([]effect, bool) {
	sig, ok := fn.Type().(*types.Signature)
	if !ok || sig.Recv() == nil {
		return nil, false
	}
	rt := sig.Recv().Type()
	for {
		if p, ok := rt.(*types.Pointer); ok {
			rt = p.Elem()
			continue
		}
		break
	}
	if n, ok := rt.(*types.Named); ok {
		if _, isIface := n.Underlying().(*types.Interface); !isIface {
			if n.Obj().Pkg() == nil {
				return nil, false
			}
			if concurrencySafe[n.Obj().Pkg().Path()] {
				return nil, true
			}
			file := a.p.Fset.Position(fn.Pos()).Filename
			if file == "" {
				return []effect{{"*", 'W', ""}}, true
			}
			return a.sums.methodEffects(filepath.Dir(file), n.Obj().Name(), fn.Name(), 0), true
		}
	}
	// interface method: every implementer
	iface, ok := rt.Underlying().(*types.Interface)
	if !ok {
		return nil, false
	}
	if n, ok := rt.(*types.Named); ok && n.Obj().Pkg() != nil && concurrencySafe[n.Obj().Pkg().Path()] {
		return nil, true
	}
	if iface.NumMethods() == 0 {
		return nil, true
	}
	var out []effect
	found := 0
	for _, nt := range a.allNamed() {
		if _, isIface := nt.Underlying().(*types.Interface); isIface {
			continue
		}
		var impl types.Type
		switch {
		case types.Implements(nt, iface):
			impl = nt
		case types.Implements(types.NewPointer(nt), iface):
			impl = types.NewPointer(nt)
		default:
			continue
		}
		obj, _, _ := types.LookupFieldOrMethod(impl, true, nt.Obj().Pkg(), fn.Name())
		mf, ok := obj.(*types.Func)
		if !ok {
			continue
		}
		found++
		sub, _ := a.effectsOfCall(mf, impl)
		out = append(out, sub...)
	}
	if found == 0 {
		return []effect{{"*", 'W', ""}}, true
	}
	return out, true
}

func (a *analysis) allNamed() []*types.Named {
	if a.named != nil {
		return a.named
	}
	seen := map[*types.Package]bool{}
	var walk func(p *types.Package)
	walk = func(p *types.Package) {
		if p == nil || seen[p] {
			return
		}
		seen[p] = true
		// only the module under analysis and its non-standard dependencies can implement its interfaces
		if strings.Contains(p.Path(), ".") || p == a.p.Types {
			sc := p.Scope()
			for _, nm := range sc.Names() {
				if tn, ok := sc.Lookup(nm).(*types.TypeName); ok {
					if n, ok := tn.Type().(*types.Named); ok {
						a.named = append(a.named, n)
					}
				}
			}
		}
		for _, im := range p.Imports() {
			walk(im)
		}
	}
	walk(a.p.Types)
	return a.named
}
