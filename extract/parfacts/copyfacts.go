package main

// Copy-style methods of struct types (Copy, Clone…): a copy handed to another goroutine's scope must not
// share reference-typed state (maps, slices, pointers, channels, functions) with the original, or two
// goroutines end up mutating one map through two "private" objects.  For every reference-typed field of the
// result the analysis says where its value comes from:
//
//	fresh   make / composite literal / new / append to a fresh or nil slice / a Copy() of the field / nil
//	shared  anything else — in particular the receiver's own field (also via a whole-struct copy `cp := *c`
//	        that is not followed by an UNCONDITIONAL fresh re-assignment of the field)

import (
	"go/ast"
	"go/token"
	"go/types"
	"sort"
	"strings"
)

type copyFact struct {
	file, fn, field string
	line            int
	fresh           bool
	how             string
}

func refTyped(t types.Type) bool {
	switch t.Underlying().(type) {
	case *types.Map, *types.Slice, *types.Pointer, *types.Chan, *types.Signature, *types.Interface:
		return true
	}
	return false
}

func copyFacts(p *Pkg) []copyFact {
	var out []copyFact
	for _, f := range p.Files {
		for _, d := range f.Decls {
			fd, ok := d.(*ast.FuncDecl)
			if !ok || fd.Body == nil || fd.Recv == nil || len(fd.Recv.List[0].Names) != 1 {
				continue
			}
			if !strings.HasPrefix(fd.Name.Name, "Copy") && !strings.HasPrefix(fd.Name.Name, "Clone") {
				continue
			}
			recvObj := p.Info.Defs[fd.Recv.List[0].Names[0]]
			if recvObj == nil {
				continue
			}
			rt := recvObj.Type()
			if pt, ok := rt.(*types.Pointer); ok {
				rt = pt.Elem()
			}
			st, ok := rt.Underlying().(*types.Struct)
			if !ok || fd.Type.Results == nil || fd.Type.Results.NumFields() != 1 {
				continue
			}
			// the result must be of the receiver's type
			resT := p.Info.Types[fd.Type.Results.List[0].Type].Type
			if pt, ok := resT.(*types.Pointer); ok {
				resT = pt.Elem()
			}
			if !types.Identical(resT, rt) {
				continue
			}
			isRecv := func(e ast.Expr) bool {
				for {
					switch x := e.(type) {
					case *ast.ParenExpr:
						e = x.X
						continue
					case *ast.StarExpr:
						e = x.X
						continue
					}
					break
				}
				id, ok := e.(*ast.Ident)
				return ok && p.Info.Uses[id] == recvObj
			}
			// single definitions of locals
			defs := map[types.Object][]ast.Expr{}
			ast.Inspect(fd.Body, func(n ast.Node) bool {
				if as, ok := n.(*ast.AssignStmt); ok && len(as.Lhs) == len(as.Rhs) {
					for i, l := range as.Lhs {
						if id, ok := l.(*ast.Ident); ok {
							o := p.Info.Defs[id]
							if o == nil {
								o = p.Info.Uses[id]
							}
							if o != nil {
								defs[o] = append(defs[o], as.Rhs[i])
							}
						}
					}
				}
				return true
			})
			var freshExpr func(e ast.Expr, depth int) bool
			freshExpr = func(e ast.Expr, depth int) bool {
				if depth > 3 {
					return false
				}
				switch x := e.(type) {
				case *ast.ParenExpr:
					return freshExpr(x.X, depth)
				case *ast.CompositeLit:
					return true
				case *ast.UnaryExpr:
					_, isLit := x.X.(*ast.CompositeLit)
					return x.Op == token.AND && isLit
				case *ast.Ident:
					if x.Name == "nil" {
						return true
					}
					o := p.Info.Uses[x]
					ds := defs[o]
					if o == nil || len(ds) == 0 || !(fd.Body.Pos() <= o.Pos() && o.Pos() < fd.Body.End()) {
						return false
					}
					for _, dd := range ds {
						if !freshExpr(dd, depth+1) {
							return false
						}
					}
					return true
				case *ast.CallExpr:
					if id, ok := x.Fun.(*ast.Ident); ok {
						if b, ok := p.Info.Uses[id].(*types.Builtin); ok {
							switch b.Name() {
							case "make", "new":
								return true
							case "append":
								return len(x.Args) > 0 && freshExpr(x.Args[0], depth+1)
							}
							return false
						}
					}
					if tv, ok := p.Info.Types[x.Fun]; ok && tv.IsType() && len(x.Args) == 1 {
						return freshExpr(x.Args[0], depth+1) // conversion []T(nil)
					}
					// x.f.Copy() / New…(…) constructors of this package
					if sel, ok := x.Fun.(*ast.SelectorExpr); ok && (strings.HasPrefix(sel.Sel.Name, "Copy") || strings.HasPrefix(sel.Sel.Name, "Clone")) {
						return true
					}
					if id, ok := x.Fun.(*ast.Ident); ok && strings.HasPrefix(id.Name, "New") {
						return true
					}
				}
				return false
			}
			// the returned object
			var results []ast.Expr
			ast.Inspect(fd.Body, func(n ast.Node) bool {
				if _, isLit := n.(*ast.FuncLit); isLit {
					return false
				}
				if r, ok := n.(*ast.ReturnStmt); ok && len(r.Results) == 1 {
					results = append(results, r.Results[0])
				}
				return true
			})
			status := map[string]string{} // field → "" (never set: nil) | "fresh" | "shared: why"
			set := func(field, val string) {
				if strings.HasPrefix(status[field], "shared") {
					return
				}
				status[field] = val
			}
			analyseLit := func(cl *ast.CompositeLit) {
				for _, el := range cl.Elts {
					kv, ok := el.(*ast.KeyValueExpr)
					if !ok {
						// positional literal: give up on precision
						for i := 0; i < st.NumFields(); i++ {
							set(st.Field(i).Name(), "shared: positional composite literal")
						}
						return
					}
					k, ok := kv.Key.(*ast.Ident)
					if !ok {
						continue
					}
					if freshExpr(kv.Value, 0) {
						set(k.Name, "fresh")
					} else {
						set(k.Name, "shared: set to "+exprText(kv.Value))
					}
				}
			}
			okShape := true
			for _, res := range results {
				e := res
				if u, ok := e.(*ast.UnaryExpr); ok && u.Op == token.AND {
					e = u.X
				}
				switch x := e.(type) {
				case *ast.CompositeLit:
					analyseLit(x)
				case *ast.Ident:
					o := p.Info.Uses[x]
					if o == recvObj {
						for i := 0; i < st.NumFields(); i++ {
							set(st.Field(i).Name(), "shared: the receiver itself is returned")
						}
						continue
					}
					for _, dd := range defs[o] {
						de := dd
						if u, ok := de.(*ast.UnaryExpr); ok && u.Op == token.AND {
							de = u.X
						}
						switch y := de.(type) {
						case *ast.CompositeLit:
							analyseLit(y)
						default:
							if isRecv(de) {
								// cp := *c : every field starts as the receiver's
								for i := 0; i < st.NumFields(); i++ {
									if status[st.Field(i).Name()] == "" {
										status[st.Field(i).Name()] = "wholecopy"
									}
								}
							} else if !freshExpr(de, 0) {
								okShape = false
							}
						}
					}
					// field assignments cp.f = e
					ast.Inspect(fd.Body, func(n ast.Node) bool {
						as, ok := n.(*ast.AssignStmt)
						if !ok || len(as.Lhs) != len(as.Rhs) {
							return true
						}
						for i, l := range as.Lhs {
							sel, ok := l.(*ast.SelectorExpr)
							if !ok {
								continue
							}
							id, ok := sel.X.(*ast.Ident)
							if !ok || p.Info.Uses[id] != o {
								continue
							}
							unconditional := false
							for _, top := range fd.Body.List {
								if top == ast.Stmt(as) {
									unconditional = true
								}
							}
							fr := freshExpr(as.Rhs[i], 0)
							switch {
							case !fr:
								status[sel.Sel.Name] = "shared: set to " + exprText(as.Rhs[i])
							case status[sel.Sel.Name] == "wholecopy" && !unconditional:
								status[sel.Sel.Name] = "shared: whole-struct copy of the receiver; the fresh value is assigned only conditionally"
							case status[sel.Sel.Name] == "wholecopy" || status[sel.Sel.Name] == "":
								status[sel.Sel.Name] = "fresh"
							}
						}
						return true
					})
				default:
					okShape = false
				}
			}
			for i := 0; i < st.NumFields(); i++ {
				fld := st.Field(i)
				if !refTyped(fld.Type()) {
					continue
				}
				s := status[fld.Name()]
				cf := copyFact{file: p.base(fd.Pos()), fn: funcLabel(fd), field: fld.Name(), line: p.line(fd.Pos())}
				switch {
				case !okShape || len(results) == 0:
					cf.how = "shared: the result is built in a way the analysis has no rule for"
				case s == "" || s == "fresh":
					cf.fresh = true
					cf.how = "fresh or nil"
				case s == "wholecopy":
					cf.how = "shared: whole-struct copy of the receiver, field not re-assigned"
				default:
					cf.how = s
				}
				out = append(out, cf)
			}
		}
	}
	sort.SliceStable(out, func(i, j int) bool {
		if out[i].file != out[j].file {
			return out[i].file < out[j].file
		}
		if out[i].line != out[j].line {
			return out[i].line < out[j].line
		}
		return out[i].field < out[j].field
	})
	return out
}
