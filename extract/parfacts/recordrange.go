package main

// Translation of GoroutineTaskManager.RecordRange (straight-line integer code: definitions, one
// early return, if/else assigning locals, + - * /, comparisons) into a Lean definition over Int.
// Go's `/` on int truncates toward zero: Int.tdiv.  Overflow of the 64-bit int is not modelled (every
// intermediate value is bounded by recordLen; stated as an assumption of C13).

import (
	"fmt"
	"go/ast"
	"go/parser"
	"go/token"
	"path/filepath"
	"sort"
	"strings"
)

type rrTr struct {
	fset   *token.FileSet
	recv   string
	fields map[string]string // receiver field → Lean parameter
	params map[string]string
	locals map[string]bool
	// extensions used by routine.go (all empty for RecordRange)
	what   string            // name used in messages
	funcs  map[string]int    // local closures → arity
	state  map[string]string // mutable receiver field → Lean local holding its current value
	guard  string            // mutex field that must be held when a state field is touched ("" = none)
	locked bool
	calls  map[string]string // `pkg.Fn()` → Lean parameter (e.g. runtime.NumCPU)
	nret   int               // results of a return statement (0 = two, as in RecordRange)
	tail   string            // appended to every returned tuple / returned at the end of the body
}

func (t *rrTr) fail(n ast.Node, msg string) {
	p := t.fset.Position(n.Pos())
	what := t.what
	if what == "" {
		what = "RecordRange"
	}
	fatal("%s:%d: %s: %s — outside the translated subset", filepath.Base(p.Filename), p.Line, what, msg)
}

func (t *rrTr) expr(e ast.Expr) string {
	switch x := e.(type) {
	case *ast.ParenExpr:
		return "(" + t.expr(x.X) + ")"
	case *ast.BasicLit:
		if x.Kind != token.INT {
			t.fail(e, "non-integer literal")
		}
		return x.Value
	case *ast.Ident:
		if p, ok := t.params[x.Name]; ok && !t.locals[x.Name] {
			return p
		}
		if t.locals[x.Name] {
			return "v_" + x.Name
		}
		t.fail(e, "unknown identifier "+x.Name)
	case *ast.SelectorExpr:
		if id, ok := x.X.(*ast.Ident); ok && id.Name == t.recv {
			if p, ok := t.fields[x.Sel.Name]; ok {
				return p
			}
			if p, ok := t.state[x.Sel.Name]; ok {
				if t.guard != "" && !t.locked {
					t.fail(e, "field "+x.Sel.Name+" touched without holding "+t.guard)
				}
				return p
			}
			t.fail(e, "receiver field "+x.Sel.Name+" is not one of recordLen, Number")
		}
		t.fail(e, "selector")
	case *ast.BinaryExpr:
		a, b := t.expr(x.X), t.expr(x.Y)
		switch x.Op {
		case token.ADD:
			return "(" + a + " + " + b + ")"
		case token.SUB:
			return "(" + a + " - " + b + ")"
		case token.MUL:
			return "(" + a + " * " + b + ")"
		case token.QUO:
			return "(Int.tdiv " + a + " " + b + ")"
		}
		t.fail(e, "operator "+x.Op.String())
	case *ast.CallExpr:
		return t.call(x)
	}
	t.fail(e, "expression")
	return ""
}

func (t *rrTr) cond(e ast.Expr) string {
	b, ok := e.(*ast.BinaryExpr)
	if !ok {
		t.fail(e, "condition")
	}
	ops := map[token.Token]string{token.LEQ: "≤", token.LSS: "<", token.EQL: "=", token.NEQ: "≠", token.GEQ: "≥", token.GTR: ">"}
	op, ok := ops[b.Op]
	if !ok {
		t.fail(e, "comparison "+b.Op.String())
	}
	return t.expr(b.X) + " " + op + " " + t.expr(b.Y)
}

func (t *rrTr) assigns(b *ast.BlockStmt) map[string]string {
	out := map[string]string{}
	if b == nil {
		return out
	}
	for _, s := range b.List {
		as, ok := s.(*ast.AssignStmt)
		if !ok || as.Tok != token.ASSIGN || len(as.Lhs) != 1 || len(as.Rhs) != 1 {
			t.fail(s, "branch statement other than `x = e`")
		}
		id, ok := as.Lhs[0].(*ast.Ident)
		if !ok || !t.locals[id.Name] {
			t.fail(s, "assignment to something else than a local")
		}
		if _, dup := out[id.Name]; dup {
			t.fail(s, "local assigned twice in one branch")
		}
		out[id.Name] = t.expr(as.Rhs[0])
	}
	return out
}

func (t *rrTr) stmts(list []ast.Stmt, ind string) string {
	if len(list) == 0 {
		fatal("RecordRange: control reaches the end of a block without return")
	}
	s, rest := list[0], list[1:]
	switch x := s.(type) {
	case *ast.ReturnStmt:
		if len(x.Results) != 2 {
			t.fail(s, "return without two results")
		}
		return ind + "(" + t.expr(x.Results[0]) + ", " + t.expr(x.Results[1]) + ")"
	case *ast.AssignStmt:
		if len(x.Lhs) != 1 || len(x.Rhs) != 1 || (x.Tok != token.DEFINE && x.Tok != token.ASSIGN) {
			t.fail(s, "assignment form")
		}
		id, ok := x.Lhs[0].(*ast.Ident)
		if !ok {
			t.fail(s, "assignment target")
		}
		rhs := t.expr(x.Rhs[0])
		if x.Tok == token.ASSIGN && !t.locals[id.Name] {
			t.fail(s, "assignment to a non-local")
		}
		t.locals[id.Name] = true
		return ind + "let v_" + id.Name + " := " + rhs + "\n" + t.stmts(rest, ind)
	case *ast.DeclStmt:
		gd := x.Decl.(*ast.GenDecl)
		if gd.Tok != token.VAR || len(gd.Specs) != 1 {
			t.fail(s, "declaration")
		}
		vs := gd.Specs[0].(*ast.ValueSpec)
		if len(vs.Names) != 1 || len(vs.Values) > 1 {
			t.fail(s, "declaration form")
		}
		rhs := "0"
		if len(vs.Values) == 1 {
			rhs = t.expr(vs.Values[0])
		} else if id, ok := vs.Type.(*ast.Ident); !ok || id.Name != "int" {
			t.fail(s, "zero value of a non-int")
		}
		t.locals[vs.Names[0].Name] = true
		return ind + "let v_" + vs.Names[0].Name + " := " + rhs + "\n" + t.stmts(rest, ind)
	case *ast.IfStmt:
		if x.Init != nil {
			t.fail(s, "if with init")
		}
		c := t.cond(x.Cond)
		if n := len(x.Body.List); n > 0 {
			if _, ret := x.Body.List[n-1].(*ast.ReturnStmt); ret {
				if x.Else != nil {
					t.fail(s, "returning branch with else")
				}
				saved := map[string]bool{}
				for k, v := range t.locals {
					saved[k] = v
				}
				body := t.stmts(x.Body.List, ind+"  ")
				t.locals = saved
				return ind + "if " + c + " then\n" + body + "\n" + ind + "else\n" + t.stmts(rest, ind)
			}
		}
		var eb *ast.BlockStmt
		if x.Else != nil {
			var ok bool
			if eb, ok = x.Else.(*ast.BlockStmt); !ok {
				t.fail(s, "else-if chain")
			}
		}
		th, el := t.assigns(x.Body), t.assigns(eb)
		names := map[string]bool{}
		for k := range th {
			names[k] = true
		}
		for k := range el {
			names[k] = true
		}
		var ns []string
		for k := range names {
			ns = append(ns, k)
		}
		sort.Strings(ns)
		if len(ns) > 1 {
			t.fail(s, "more than one local assigned in an if/else")
		}
		out := ""
		for _, k := range ns {
			a, ok := th[k]
			if !ok {
				a = "v_" + k
			}
			b, ok := el[k]
			if !ok {
				b = "v_" + k
			}
			out += ind + "let v_" + k + " := if " + c + " then " + a + " else " + b + "\n"
		}
		return out + t.stmts(rest, ind)
	}
	t.fail(s, "statement")
	return ""
}

func genRecordRange() {
	fset := token.NewFileSet()
	src := filepath.Join(repoRoot(), "lib", "query", "goroutine_manager.go")
	f, err := parser.ParseFile(fset, src, nil, 0)
	if err != nil {
		fatal("parse: %v", err)
	}
	var fd *ast.FuncDecl
	for _, d := range f.Decls {
		if x, ok := d.(*ast.FuncDecl); ok && x.Name.Name == "RecordRange" && x.Recv != nil && funcLabel(x) == "GoroutineTaskManager.RecordRange" {
			fd = x
		}
	}
	if fd == nil {
		fatal("GoroutineTaskManager.RecordRange not found in %s", src)
	}
	if len(fd.Recv.List[0].Names) != 1 || fd.Type.Params.NumFields() != 1 || fd.Type.Results.NumFields() != 2 {
		fatal("RecordRange: signature changed")
	}
	t := &rrTr{fset: fset, recv: fd.Recv.List[0].Names[0].Name,
		fields: map[string]string{"recordLen": "recordLen", "Number": "number"},
		params: map[string]string{fd.Type.Params.List[0].Names[0].Name: "routineIndex"}, locals: map[string]bool{}}
	body := t.stmts(fd.Body.List, "  ")
	var o strings.Builder
	o.WriteString("-- GENERATED by /verif/extract/parfacts (mode recordrange) from lib/query/goroutine_manager.go — do not edit.\n")
	o.WriteString("-- Go's int `/` is Int.tdiv; 64-bit overflow is not modelled.\n\nnamespace Csvq.Gen\n\n")
	o.WriteString("/-- `GoroutineTaskManager.RecordRange`: (m.recordLen, m.Number, routineIndex) ↦ (start, end) -/\n")
	o.WriteString("def recordRange (recordLen number routineIndex : Int) : Int × Int :=\n")
	o.WriteString(body)
	o.WriteString("\n\nend Csvq.Gen\n")
	fmt.Print(o.String())
}
