package main

import (
	"fmt"
	"testing"
)

func TestDbg(t *testing.T) {
	s := newSummaries()
	for _, m := range []string{"Read", "parseRecord", "Pos"} {
		fmt.Println(m, s.methodEffects("/root/go/pkg/mod/github.com/mithrandie/go-text@v1.6.0/csv", "Reader", m, 0))
	}
	fmt.Println(s.methodEffects("/root/go/pkg/mod/github.com/mithrandie/go-text@v1.6.0/jsonl", "Reader", "Read", 0))
	fmt.Println(s.methodEffects("/root/go/pkg/mod/github.com/mithrandie/go-text@v1.6.0/jsonl", "Reader", "Pos", 0))
}
