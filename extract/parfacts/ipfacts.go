package main

// Rendering of the interprocedural results (interproc.go) as Lean definitions, and the package-level state family.

import (
	"fmt"
	"go/types"
	"sort"
	"strings"
)

// calleeRegion turns the classified callee accesses into a region of the closure-fact vocabulary: one fact per
// (function, location, element?, read/write, class)
func calleeRegion(a *analysis, r *region, ipr *ipResult) {
	type gk struct {
		path string
		elem bool
	}
	// one lock name per location: a lock every guarded plain access of the location holds
	common := map[gk]map[string]bool{}
	for _, f := range ipr.facts {
		if f.cls != "guarded" || f.sync {
			continue
		}
		k := gk{f.path, f.elem}
		hs := map[string]bool{}
		for h := range f.held {
			hs[lockBase(h)] = true
		}
		if common[k] == nil {
			common[k] = hs
		} else {
			for h := range common[k] {
				if !hs[h] {
					delete(common[k], h)
				}
			}
		}
	}
	seen := map[string]bool{}
	body := &wbody{label: "callees", multi: true}
	r.bodies = append(r.bodies, body)
	for _, f := range ipr.facts {
		heldNow := ""
		if f.cls == "unguarded" {
			// the locks this access does hold (a known finding pins them: a writer that loses its lock is a new fact)
			var hs []string
			for h := range f.held {
				hs = append(hs, h)
			}
			sort.Strings(hs)
			heldNow = strings.Join(hs, " + ")
		}
		key := fmt.Sprintf("%s|%s|%v|%c|%s|%v|%s", f.fn.label, f.path, f.elem, f.rw, f.cls, f.sync, heldNow)
		if seen[key] {
			continue
		}
		seen[key] = true
		ac := &access{pos: f.pos, fn: f.fn.label, body: body, path: f.path, elem: f.elem, rw: f.rw, cls: f.cls, kind: kVar}
		switch {
		case f.sync:
			ac.kind = kSync
			ac.how = f.how
		case f.cls == "guarded":
			var ls []string
			for h := range common[gk{f.path, f.elem}] {
				ls = append(ls, h)
			}
			sort.Strings(ls)
			if len(ls) > 0 {
				ac.how = ls[0]
			} else {
				ac.how = f.guard
			}
		default:
			ac.how = heldNow
		}
		r.acc = append(r.acc, ac)
	}
	// ordered by location, function, access, lock: the order does not depend on where the functions stand in their files
	sort.SliceStable(r.acc, func(i, j int) bool {
		a, b := r.acc[i], r.acc[j]
		if a.path != b.path {
			return a.path < b.path
		}
		if a.elem != b.elem {
			return !a.elem
		}
		if a.fn != b.fn {
			return a.fn < b.fn
		}
		if a.rw != b.rw {
			return a.rw < b.rw
		}
		if a.cls != b.cls {
			return a.cls < b.cls
		}
		return a.how < b.how
	})
	if len(ipr.facts) > 0 {
		r.pos = ipr.facts[0].pos
	}
}

type pkgStateFact struct {
	pkg, name, typ string
	written        bool   // some function assigns it / an element of it / changes it through a method
	guard          string // what makes that safe ("" = nothing found)
}

// packageStateFacts: every package-level variable of the analysed packages with what guards it
func packageStateFacts(pkgs []*Pkg, regions map[*Pkg]*region, all map[*Pkg][]*access) []pkgStateFact {
	var out []pkgStateFact
	for _, p := range pkgs {
		sc := p.Types.Scope()
		written := map[string]bool{}
		syncUsed := map[string]string{}
		for _, ac := range all[p] {
			root := ac.path
			if i := strings.Index(root, "."); i >= 0 {
				root = root[:i]
			}
			if ac.rw == 'W' && ac.kind == kVar {
				written[root] = true
			}
			if ac.kind == kSync {
				syncUsed[root] = ac.how
			}
		}
		cls := map[string]map[string]bool{}
		hows := map[string]map[string]bool{}
		if r := regions[p]; r != nil {
			for _, ac := range r.acc {
				root := ac.path
				if i := strings.Index(root, "."); i >= 0 {
					root = root[:i]
				}
				if cls[root] == nil {
					cls[root], hows[root] = map[string]bool{}, map[string]bool{}
				}
				cls[root][ac.cls] = true
				if ac.cls == "guarded" && ac.how != "" {
					hows[root][ac.how] = true
				}
			}
		}
		for _, nm := range sc.Names() {
			v, ok := sc.Lookup(nm).(*types.Var)
			if !ok {
				continue
			}
			f := pkgStateFact{pkg: p.Types.Name(), name: nm, typ: types.TypeString(v.Type(), func(tp *types.Package) string { return tp.Name() })}
			safeType := syncObject(v.Type())
			if safeType == "" {
				// a struct that carries its own lock / a sync.Map
				t := v.Type()
				if pt, ok := t.(*types.Pointer); ok {
					t = pt.Elem()
				}
				if st, ok := t.Underlying().(*types.Struct); ok {
					hasLock, hasSync := false, false
					for i := 0; i < st.NumFields(); i++ {
						switch namedType(st.Field(i).Type()) {
						case "sync.Mutex", "sync.RWMutex":
							hasLock = true
						case "sync.Map":
							hasSync = true
						}
					}
					if hasLock || hasSync {
						safeType = "struct with its own lock / sync.Map"
					}
				}
			}
			switch {
			case written[nm]:
				f.written = true
				switch {
				case cls[nm]["unguarded"]:
					f.guard = ""
				case len(hows[nm]) > 0:
					var hs []string
					for h := range hows[nm] {
						hs = append(hs, h)
					}
					sort.Strings(hs)
					f.guard = strings.Join(hs, " / ")
				default:
					f.guard = "no two goroutines (sole writer before any reader starts)"
				}
			case safeType != "":
				f.written = syncUsed[nm] != ""
				f.guard = safeType
			case syncUsed[nm] != "":
				f.written = true
				f.guard = syncUsed[nm]
			default:
				f.guard = "never written after initialisation"
			}
			out = append(out, f)
		}
	}
	return out
}

func leanList(xs []string) string {
	var b strings.Builder
	b.WriteString("[")
	for i, x := range xs {
		if i > 0 {
			b.WriteString(", ")
		}
		if i > 0 && i%6 == 0 {
			b.WriteString("\n  ")
		}
		b.WriteString(leanStr(x))
	}
	b.WriteString("]")
	return b.String()
}

func interprocLean(ipr *ipResult, r *region, states []pkgStateFact) string {
	var o strings.Builder
	regionID := r.id
	// the lock of every location with guarded plain accesses; the functions that write through shared objects
	type lk struct {
		v string
		e bool
	}
	locks := map[lk]string{}
	var lockKeys []lk
	writers := map[string]bool{}
	for _, ac := range r.acc {
		if ac.rw == 'W' {
			writers[ac.fn] = true
		}
		if ac.cls == "guarded" && ac.kind == kVar {
			k := lk{ac.path, ac.elem}
			if _, ok := locks[k]; !ok {
				locks[k] = ac.how
				lockKeys = append(lockKeys, k)
			}
		}
	}
	sort.Slice(lockKeys, func(i, j int) bool {
		if lockKeys[i].v != lockKeys[j].v {
			return lockKeys[i].v < lockKeys[j].v
		}
		return !lockKeys[i].e && lockKeys[j].e
	})
	var ws []string
	for w := range writers {
		ws = append(ws, w)
	}
	sort.Strings(ws)
	outside := map[string]bool{}
	for _, rr := range ipr.perRoot {
		if rr.viaCore {
			continue
		}
		for _, g := range rr.direct {
			if writers[g] {
				outside[g] = true
			}
		}
	}
	var os []string
	for w := range outside {
		os = append(os, w)
	}
	sort.Strings(os)
	o.WriteString("/-- the lock of every location of the callee region that has guarded plain accesses: (location, element?, lock) -/\ndef calleeLocks : List (String × Bool × String) := [\n")
	for i, k := range lockKeys {
		sep := ","
		if i == len(lockKeys)-1 {
			sep = ""
		}
		fmt.Fprintf(&o, "  (%s, %v, %s)%s\n", leanStr(k.v), k.e, leanStr(locks[k]), sep)
	}
	o.WriteString("]\n\n")
	o.WriteString("/-- the functions that write through a shared object at all (guarded or not) -/\ndef sharedStateWriters : List String := " + leanList(ws) + "\n\n")
	o.WriteString("/-- those of them that a worker body reaches without going through `Evaluate` -/\ndef writersOutsideCore : List String := " + leanList(os) + "\n\n")
	fmt.Fprintf(&o, "/-- the region of the interprocedural facts: accesses through shared objects in the functions the worker bodies reach -/\ndef calleeRegion : Nat := %d\n\n", regionID)
	o.WriteString("/-- functions of lib/query, lib/value, lib/option reachable from `Evaluate` (what nearly every worker body reaches) -/\n")
	o.WriteString("def reachableCore : List String := " + leanList(ipr.core) + "\n\n")
	o.WriteString("/-- where some functions stand in `reachableCore` (so that membership is checked by position) -/\ndef coreWitnesses : List (Nat × String) := [")
	nw := 0
	for i, n := range ipr.core {
		switch n {
		case "selectQuery", "Select", "UserDefinedFunction.Execute", "Processor.ExecuteStatement", "JsonObject", "option.Flags.SetDatetimeFormat", "value.Compare", "evalFunction", "SetFlag", "FetchCursor":
			if nw > 0 {
				o.WriteString(", ")
			}
			nw++
			fmt.Fprintf(&o, "(%d, %s)", i, leanStr(n))
		}
	}
	o.WriteString("]\n\n")
	o.WriteString("/-- per worker body: (region, body, reaches `Evaluate` and with it `reachableCore`, the other functions it reaches) -/\n")
	o.WriteString("def closureReach : List ClosureReach := [\n")
	for i, rr := range ipr.perRoot {
		sep := ","
		if i == len(ipr.perRoot)-1 {
			sep = ""
		}
		fmt.Fprintf(&o, "  ⟨%d, %s, %v, %s⟩%s\n", rr.region, leanStr(rr.label), rr.viaCore, leanList(rr.direct), sep)
	}
	o.WriteString("]\n\n")
	o.WriteString("/-- calls that leave the analysed packages (other than into the standard library) or that cannot be resolved -/\n")
	o.WriteString("def opaqueCalls : List String := " + leanList(ipr.opaque) + "\n\n")
	o.WriteString("/-- packages of the standard library the reachable functions call into -/\n")
	o.WriteString("def stdlibPackages : List String := " + leanList(ipr.stdlib) + "\n\n")
	o.WriteString("/-- package-level variables of lib/query, lib/value, lib/option: (package, name, type, changed after initialisation, guard) -/\n")
	o.WriteString("def packageLevelState : List PackageState := [\n")
	for i, s := range states {
		sep := ","
		if i == len(states)-1 {
			sep = ""
		}
		fmt.Fprintf(&o, "  ⟨%s, %s, %s, %v, %s⟩%s\n", leanStr(s.pkg), leanStr(s.name), leanStr(s.typ), s.written, leanStr(s.guard), sep)
	}
	o.WriteString("]\n\n")
	fmt.Fprintf(&o, "/-- size of the call graph: functions, reachable from a worker body, rounds to the fixpoint -/\ndef interprocStats : Nat × Nat × Nat := (%d, %d, %d)\n\n", ipr.nFuncs, ipr.nReached, ipr.iterations)
	return o.String()
}
