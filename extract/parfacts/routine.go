package main

// Translation of the goroutine-slot bookkeeping into Lean definitions over Int (mode "routine"):
//
//	GoroutineManager.AssignRoutineNumber   (recordLen, minimumRequiredPerCore, cpuNum, m.Count, m.MinimumRequiredPerCore) ↦ (number, m.Count')
//	GoroutineManager.Release               m.Count ↦ m.Count'
//	GoroutineTaskManager.Done              (m.grCount, global Count) ↦ (m.grCount', global Count')
//	NewGoroutineTaskManager                the Number / grCount fields of the literal
//	Flags.SetCPU                           (i, runtime.NumCPU()) ↦ f.CPU
//	MinimumRequiredPerCPUCore              the constant
//
// Subset: local closures of the form `func(int…) int { if c { return e }; return e }`, assignments to
// locals / parameters / the listed receiver fields (=, :=, +=, -=, ++, --), `if` with assignment-only
// branches, early returns, Lock()/Unlock()/defer Unlock() of the listed mutex (dropped, but a listed
// field touched outside the locked region is refused), and the one floating-point idiom
// `int(math.Floor(float64(a) / float64(b)))`, rendered as `Int.fdiv a b` (exact for |a|,|b| < 2^53 and
// b ≠ 0; stated in the trusted base).  Anything else makes the extractor exit with status 1.

import (
	"fmt"
	"go/ast"
	"go/parser"
	"go/token"
	"path/filepath"
	"sort"
	"strings"
)

func selIs(e ast.Expr, a, b string) bool {
	s, ok := e.(*ast.SelectorExpr)
	if !ok || s.Sel.Name != b {
		return false
	}
	id, ok := s.X.(*ast.Ident)
	return ok && id.Name == a
}

func (t *rrTr) call(c *ast.CallExpr) string {
	// closure call
	if id, ok := c.Fun.(*ast.Ident); ok {
		if n, ok := t.funcs[id.Name]; ok {
			if len(c.Args) != n {
				t.fail(c, "closure arity")
			}
			out := "(f_" + id.Name
			for _, a := range c.Args {
				out += " " + t.expr(a)
			}
			return out + ")"
		}
		// int(math.Floor(float64(a) / float64(b)))
		if id.Name == "int" && len(c.Args) == 1 {
			if fl, ok := c.Args[0].(*ast.CallExpr); ok && selIs(fl.Fun, "math", "Floor") && len(fl.Args) == 1 {
				if q, ok := fl.Args[0].(*ast.BinaryExpr); ok && q.Op == token.QUO {
					a, aok := q.X.(*ast.CallExpr)
					b, bok := q.Y.(*ast.CallExpr)
					if aok && bok && isIdent(a.Fun, "float64") && isIdent(b.Fun, "float64") && len(a.Args) == 1 && len(b.Args) == 1 {
						return "(Int.fdiv " + t.expr(a.Args[0]) + " " + t.expr(b.Args[0]) + ")"
					}
				}
			}
		}
	}
	// pkg.Fn() bound to a parameter
	if s, ok := c.Fun.(*ast.SelectorExpr); ok && len(c.Args) == 0 {
		if id, ok := s.X.(*ast.Ident); ok {
			if p, ok := t.calls[id.Name+"."+s.Sel.Name]; ok {
				return p
			}
		}
	}
	t.fail(c, "call")
	return ""
}

func isIdent(e ast.Expr, name string) bool {
	id, ok := e.(*ast.Ident)
	return ok && id.Name == name
}

// mutexCall: m.<guard>.Lock() / Unlock()
func (t *rrTr) mutexCall(e ast.Expr) string {
	c, ok := e.(*ast.CallExpr)
	if !ok || len(c.Args) != 0 {
		return ""
	}
	s, ok := c.Fun.(*ast.SelectorExpr)
	if !ok || (s.Sel.Name != "Lock" && s.Sel.Name != "Unlock") {
		return ""
	}
	if t.guard != "" && selIs(s.X, t.recv, t.guard) {
		return s.Sel.Name
	}
	return ""
}

// target of an assignment: a local / parameter (→ v_name) or a state field (→ its Lean local)
func (t *rrTr) target(e ast.Expr, define bool) string {
	switch x := e.(type) {
	case *ast.Ident:
		if define {
			t.locals[x.Name] = true
			return "v_" + x.Name
		}
		if t.locals[x.Name] {
			return "v_" + x.Name
		}
		if _, ok := t.params[x.Name]; ok { // parameters are re-bound as locals at the top of the definition
			t.fail(e, "parameter "+x.Name+" not re-bound")
		}
	case *ast.SelectorExpr:
		if id, ok := x.X.(*ast.Ident); ok && id.Name == t.recv {
			if p, ok := t.state[x.Sel.Name]; ok {
				if t.guard != "" && !t.locked {
					t.fail(e, "field "+x.Sel.Name+" written without holding "+t.guard)
				}
				return p
			}
		}
	}
	t.fail(e, "assignment target")
	return ""
}

// one simple statement as `name := rhs` (name is the Lean local that changes)
func (t *rrTr) simple(s ast.Stmt) (string, string) {
	switch x := s.(type) {
	case *ast.AssignStmt:
		if len(x.Lhs) != 1 || len(x.Rhs) != 1 {
			t.fail(s, "assignment form")
		}
		rhs := t.expr(x.Rhs[0])
		switch x.Tok {
		case token.DEFINE:
			return t.target(x.Lhs[0], true), rhs
		case token.ASSIGN:
			return t.target(x.Lhs[0], false), rhs
		case token.ADD_ASSIGN:
			n := t.target(x.Lhs[0], false)
			return n, "(" + n + " + " + rhs + ")"
		case token.SUB_ASSIGN:
			n := t.target(x.Lhs[0], false)
			return n, "(" + n + " - " + rhs + ")"
		}
	case *ast.IncDecStmt:
		n := t.target(x.X, false)
		if x.Tok == token.INC {
			return n, "(" + n + " + 1)"
		}
		return n, "(" + n + " - 1)"
	}
	t.fail(s, "statement inside a branch")
	return "", ""
}

// extra: statements of callee bodies inlined by name (GetGoroutineManager().Release() inside Done)
type inlineFn func(t *rrTr, s ast.Stmt) (string, string, bool)

func (t *rrTr) rstmts(list []ast.Stmt, ind string, inl inlineFn) string {
	if len(list) == 0 {
		if t.tail == "" {
			fatal("%s: control reaches the end of the body without return", t.what)
		}
		return ind + t.tail
	}
	s, rest := list[0], list[1:]
	switch x := s.(type) {
	case *ast.ReturnStmt:
		var parts []string
		for _, r := range x.Results {
			parts = append(parts, t.expr(r))
		}
		if len(parts) != t.nret {
			t.fail(s, "number of results")
		}
		if t.tail != "" {
			parts = append(parts, t.tail)
		}
		if len(parts) == 1 {
			return ind + parts[0]
		}
		return ind + "(" + strings.Join(parts, ", ") + ")"
	case *ast.ExprStmt:
		switch t.mutexCall(x.X) {
		case "Lock":
			t.locked = true
			return t.rstmts(rest, ind, inl)
		case "Unlock":
			t.locked = false
			return t.rstmts(rest, ind, inl)
		}
		t.fail(s, "expression statement")
	case *ast.DeferStmt:
		if t.mutexCall(x.Call) == "Unlock" && t.locked {
			return t.rstmts(rest, ind, inl) // held until the function returns
		}
		t.fail(s, "defer")
	case *ast.DeclStmt:
		gd := x.Decl.(*ast.GenDecl)
		if gd.Tok != token.VAR || len(gd.Specs) != 1 {
			t.fail(s, "declaration")
		}
		vs := gd.Specs[0].(*ast.ValueSpec)
		if len(vs.Names) != 1 || len(vs.Values) != 1 {
			t.fail(s, "declaration form")
		}
		if fl, ok := vs.Values[0].(*ast.FuncLit); ok {
			return ind + t.closure(vs.Names[0].Name, fl, ind) + "\n" + t.rstmts(rest, ind, inl)
		}
		t.locals[vs.Names[0].Name] = true
		return ind + "let v_" + vs.Names[0].Name + " := " + t.expr(vs.Values[0]) + "\n" + t.rstmts(rest, ind, inl)
	case *ast.AssignStmt, *ast.IncDecStmt:
		n, rhs := t.simple(s)
		return ind + "let " + n + " := " + rhs + "\n" + t.rstmts(rest, ind, inl)
	case *ast.IfStmt:
		if x.Init != nil {
			t.fail(s, "if with init")
		}
		c := t.cond(x.Cond)
		if n := len(x.Body.List); n > 0 {
			if _, ret := x.Body.List[n-1].(*ast.ReturnStmt); ret {
				if x.Else != nil {
					t.fail(s, "returning branch with else")
				}
				saved := map[string]bool{}
				for k, v := range t.locals {
					saved[k] = v
				}
				body := t.rstmts(x.Body.List, ind+"  ", inl)
				t.locals = saved
				return ind + "if " + c + " then\n" + body + "\n" + ind + "else\n" + t.rstmts(rest, ind, inl)
			}
		}
		if x.Else != nil {
			t.fail(s, "else branch")
		}
		// assignment-only branch: each changed local becomes `if c then new else old`, in order
		var names []string
		vals := map[string]string{}
		for _, bs := range x.Body.List {
			var n, rhs string
			if inl != nil {
				if a, b, ok := inl(t, bs); ok {
					n, rhs = a, b
				}
			}
			if n == "" {
				n, rhs = t.simple(bs)
			}
			if old, dup := vals[n]; dup {
				rhs = strings.ReplaceAll(rhs, n, old) // sequential composition inside the branch
			} else {
				names = append(names, n)
			}
			vals[n] = rhs
		}
		out := ""
		if len(names) == 1 {
			n := names[0]
			out = ind + "let " + n + " := if " + c + " then " + vals[n] + " else " + n + "\n"
		} else if len(names) > 1 {
			sort.Strings(names)
			var news []string
			for _, n := range names {
				news = append(news, vals[n])
			}
			tup := "(" + strings.Join(names, ", ") + ")"
			out = ind + "let " + tup + " := if " + c + " then (" + strings.Join(news, ", ") + ") else " + tup + "\n"
		}
		return out + t.rstmts(rest, ind, inl)
	}
	t.fail(s, "statement")
	return ""
}

// `var name = func(a int, b int) int { if c { return e1 }; return e2 }` → `let f_name := fun (a b : Int) => …`
func (t *rrTr) closure(name string, fl *ast.FuncLit, ind string) string {
	var ps []string
	sub := &rrTr{fset: t.fset, what: t.what + "." + name, params: map[string]string{}, locals: map[string]bool{}, nret: 1}
	for _, f := range fl.Type.Params.List {
		if !isIdent(f.Type, "int") {
			t.fail(fl, "closure parameter type")
		}
		for _, n := range f.Names {
			ps = append(ps, n.Name)
			sub.params[n.Name] = n.Name
		}
	}
	if fl.Type.Results.NumFields() != 1 || !isIdent(fl.Type.Results.List[0].Type, "int") {
		t.fail(fl, "closure result type")
	}
	body := sub.rstmts(fl.Body.List, ind+"    ", nil)
	if t.funcs == nil {
		t.funcs = map[string]int{}
	}
	t.funcs[name] = len(ps)
	return "let f_" + name + " := fun (" + strings.Join(ps, " ") + " : Int) =>\n" + body
}

func findFunc(f *ast.File, label string) *ast.FuncDecl {
	for _, d := range f.Decls {
		if x, ok := d.(*ast.FuncDecl); ok && funcLabel(x) == label {
			return x
		}
	}
	fatal("%s not found", label)
	return nil
}

func recvName(fd *ast.FuncDecl) string {
	if fd.Recv == nil || len(fd.Recv.List) != 1 || len(fd.Recv.List[0].Names) != 1 {
		fatal("%s: receiver", fd.Name.Name)
	}
	return fd.Recv.List[0].Names[0].Name
}

func intParams(fd *ast.FuncDecl) []string {
	var ps []string
	for _, f := range fd.Type.Params.List {
		if !isIdent(f.Type, "int") {
			fatal("%s: parameter type changed", fd.Name.Name)
		}
		for _, n := range f.Names {
			ps = append(ps, n.Name)
		}
	}
	return ps
}

func genRoutine() {
	fset := token.NewFileSet()
	src := filepath.Join(repoRoot(), "lib", "query", "goroutine_manager.go")
	f, err := parser.ParseFile(fset, src, nil, 0)
	if err != nil {
		fatal("parse: %v", err)
	}
	var o strings.Builder
	o.WriteString("-- GENERATED by /verif/extract/parfacts (mode routine) from lib/query/goroutine_manager.go and lib/option/flags.go — do not edit.\n")
	o.WriteString("-- Go's int is rendered as Int (64-bit overflow not modelled); int(math.Floor(float64(a)/float64(b))) as Int.fdiv a b.\n\nset_option linter.unusedVariables false\n\nnamespace Csvq.Gen\n\n")

	// the constant
	found := false
	for _, d := range f.Decls {
		gd, ok := d.(*ast.GenDecl)
		if !ok || gd.Tok != token.CONST {
			continue
		}
		for _, sp := range gd.Specs {
			vs := sp.(*ast.ValueSpec)
			for i, n := range vs.Names {
				if n.Name == "MinimumRequiredPerCPUCore" && i < len(vs.Values) {
					if bl, ok := vs.Values[i].(*ast.BasicLit); ok && bl.Kind == token.INT {
						o.WriteString("def minimumRequiredPerCPUCore : Int := " + bl.Value + "\n\n")
						found = true
					}
				}
			}
		}
	}
	if !found {
		fatal("constant MinimumRequiredPerCPUCore not found as an integer literal")
	}

	// GetGoroutineManager: the initial Count and MinimumRequiredPerCore of the singleton
	{
		fd := findFunc(f, "GetGoroutineManager")
		var lit *ast.CompositeLit
		ast.Inspect(fd, func(n ast.Node) bool {
			if cl, ok := n.(*ast.CompositeLit); ok && isIdent(cl.Type, "GoroutineManager") {
				lit = cl
			}
			return true
		})
		if lit == nil {
			fatal("GetGoroutineManager: literal not found")
		}
		vals := map[string]string{}
		for _, el := range lit.Elts {
			kv := el.(*ast.KeyValueExpr)
			k := kv.Key.(*ast.Ident).Name
			switch v := kv.Value.(type) {
			case *ast.BasicLit:
				vals[k] = v.Value
			case *ast.Ident:
				if v.Name == "MinimumRequiredPerCPUCore" {
					vals[k] = "minimumRequiredPerCPUCore"
				}
			}
		}
		if vals["Count"] == "" || vals["MinimumRequiredPerCore"] == "" {
			fatal("GetGoroutineManager: Count / MinimumRequiredPerCore of the singleton not recognised")
		}
		o.WriteString("/-- the singleton made by `GetGoroutineManager`: (Count, MinimumRequiredPerCore) -/\n")
		o.WriteString("def managerInit : Int × Int := (" + vals["Count"] + ", " + vals["MinimumRequiredPerCore"] + ")\n\n")
	}

	// AssignRoutineNumber
	{
		fd := findFunc(f, "GoroutineManager.AssignRoutineNumber")
		ps := intParams(fd)
		if len(ps) != 3 || fd.Type.Results.NumFields() != 1 {
			fatal("AssignRoutineNumber: signature changed")
		}
		t := &rrTr{fset: fset, what: "AssignRoutineNumber", recv: recvName(fd),
			fields: map[string]string{"MinimumRequiredPerCore": "minPerCoreField"},
			state:  map[string]string{"Count": "v_Count"}, guard: "CountMutex",
			params: map[string]string{}, locals: map[string]bool{}, nret: 1, tail: "v_Count"}
		o.WriteString("/-- `GoroutineManager.AssignRoutineNumber`: the result and `m.Count` afterwards -/\n")
		o.WriteString("def assignRoutineNumber (" + strings.Join(ps, " ") + " count minPerCoreField : Int) : Int × Int :=\n")
		o.WriteString("  let v_Count := count\n")
		for _, p := range ps {
			o.WriteString("  let v_" + p + " := " + p + "\n")
			t.locals[p] = true
		}
		t.tail = "" // every path must end in a return; the count is appended there
		body := func() string {
			t.tail = "v_Count"
			defer func() { t.tail = "" }()
			return t.rstmts(fd.Body.List, "  ", nil)
		}()
		o.WriteString(body + "\n\n")
	}

	// Release
	{
		fd := findFunc(f, "GoroutineManager.Release")
		if fd.Type.Params.NumFields() != 0 || fd.Type.Results.NumFields() != 0 {
			fatal("Release: signature changed")
		}
		t := &rrTr{fset: fset, what: "Release", recv: recvName(fd), state: map[string]string{"Count": "v_Count"}, guard: "CountMutex",
			params: map[string]string{}, locals: map[string]bool{}, tail: "v_Count"}
		o.WriteString("/-- `GoroutineManager.Release`: `m.Count` afterwards -/\n")
		o.WriteString("def release (count : Int) : Int :=\n  let v_Count := count\n")
		o.WriteString(t.rstmts(fd.Body.List, "  ", nil) + "\n\n")
	}

	// Done: grCount and the global count (the wait-group call is not bookkeeping)
	{
		fd := findFunc(f, "GoroutineTaskManager.Done")
		t := &rrTr{fset: fset, what: "Done", recv: recvName(fd), state: map[string]string{"grCount": "v_grCount"}, guard: "grTaskMutex",
			params: map[string]string{}, locals: map[string]bool{}, tail: "(v_grCount, v_Count)"}
		inl := func(t *rrTr, s ast.Stmt) (string, string, bool) {
			es, ok := s.(*ast.ExprStmt)
			if !ok {
				return "", "", false
			}
			c, ok := es.X.(*ast.CallExpr)
			if !ok {
				return "", "", false
			}
			sel, ok := c.Fun.(*ast.SelectorExpr)
			if !ok || sel.Sel.Name != "Release" {
				return "", "", false
			}
			in, ok := sel.X.(*ast.CallExpr)
			if !ok || !isIdent(in.Fun, "GetGoroutineManager") {
				return "", "", false
			}
			return "v_Count", "(release v_Count)", true
		}
		body := fd.Body.List
		// the trailing m.waitGroup.Done() is dropped; anything else unknown is refused by rstmts
		if n := len(body); n > 0 {
			if es, ok := body[n-1].(*ast.ExprStmt); ok {
				if c, ok := es.X.(*ast.CallExpr); ok {
					if sel, ok := c.Fun.(*ast.SelectorExpr); ok && sel.Sel.Name == "Done" && selIs(sel.X, t.recv, "waitGroup") {
						body = body[:n-1]
					}
				}
			}
		}
		o.WriteString("/-- `GoroutineTaskManager.Done`: (`m.grCount`, global `Count`) afterwards -/\n")
		o.WriteString("def taskDone (grCount count : Int) : Int × Int :=\n  let v_grCount := grCount\n  let v_Count := count\n")
		o.WriteString(t.rstmts(body, "  ", inl) + "\n\n")
	}

	// NewGoroutineTaskManager: Number and grCount of the literal, as functions of the assigned number
	{
		fd := findFunc(f, "NewGoroutineTaskManager")
		var lit *ast.CompositeLit
		ast.Inspect(fd, func(n ast.Node) bool {
			if cl, ok := n.(*ast.CompositeLit); ok && isIdent(cl.Type, "GoroutineTaskManager") {
				lit = cl
			}
			return true
		})
		if lit == nil {
			fatal("NewGoroutineTaskManager: literal not found")
		}
		// `number := GetGoroutineManager().AssignRoutineNumber(recordLen, minimumRequiredPerCore, cpuNum)` must be the source of `number`
		okAssign := false
		ps := intParams(fd)
		ast.Inspect(fd, func(n ast.Node) bool {
			as, ok := n.(*ast.AssignStmt)
			if !ok || len(as.Lhs) != 1 || len(as.Rhs) != 1 || !isIdent(as.Lhs[0], "number") {
				return true
			}
			c, ok := as.Rhs[0].(*ast.CallExpr)
			if !ok || len(c.Args) != len(ps) {
				return true
			}
			sel, ok := c.Fun.(*ast.SelectorExpr)
			if !ok || sel.Sel.Name != "AssignRoutineNumber" {
				return true
			}
			same := true
			for i, a := range c.Args {
				if !isIdent(a, ps[i]) {
					same = false
				}
			}
			okAssign = same
			return true
		})
		if !okAssign {
			fatal("NewGoroutineTaskManager: `number` is no longer AssignRoutineNumber(recordLen, minimumRequiredPerCore, cpuNum)")
		}
		t := &rrTr{fset: fset, what: "NewGoroutineTaskManager", params: map[string]string{"number": "number", "recordLen": "recordLen"}, locals: map[string]bool{}}
		vals := map[string]string{}
		for _, el := range lit.Elts {
			kv := el.(*ast.KeyValueExpr)
			k := kv.Key.(*ast.Ident).Name
			if k == "Number" || k == "grCount" || k == "recordLen" {
				vals[k] = t.expr(kv.Value)
			}
		}
		if vals["Number"] == "" || vals["grCount"] == "" || vals["recordLen"] == "" {
			fatal("NewGoroutineTaskManager: Number / grCount / recordLen of the literal not recognised")
		}
		o.WriteString("/-- the literal of `NewGoroutineTaskManager`: (Number, grCount, recordLen) from the assigned number -/\n")
		o.WriteString("def taskManagerFields (number recordLen : Int) : Int × Int × Int := (" + vals["Number"] + ", " + vals["grCount"] + ", " + vals["recordLen"] + ")\n\n")
	}

	// Flags.SetCPU
	{
		fsrc := filepath.Join(repoRoot(), "lib", "option", "flags.go")
		ff, err := parser.ParseFile(fset, fsrc, nil, 0)
		if err != nil {
			fatal("parse: %v", err)
		}
		fd := findFunc(ff, "Flags.SetCPU")
		ps := intParams(fd)
		if len(ps) != 1 {
			fatal("SetCPU: signature changed")
		}
		t := &rrTr{fset: fset, what: "SetCPU", recv: recvName(fd), state: map[string]string{"CPU": "v_CPU"},
			calls:  map[string]string{"runtime.NumCPU": "numCPU"},
			params: map[string]string{}, locals: map[string]bool{ps[0]: true}, tail: "v_CPU"}
		o.WriteString("/-- `Flags.SetCPU`: `f.CPU` afterwards (`numCPU` = runtime.NumCPU()) -/\n")
		o.WriteString("def setCPU (" + ps[0] + " numCPU cpu0 : Int) : Int :=\n  let v_CPU := cpu0\n  let v_" + ps[0] + " := " + ps[0] + "\n")
		o.WriteString(t.rstmts(fd.Body.List, "  ", nil) + "\n\n")
	}

	o.WriteString("end Csvq.Gen\n")
	fmt.Print(o.String())
}
