package main

// Interprocedural part of the access facts: what the functions CALLED from the worker closures do.
//
// The closure analysis (analysis.go) looks at the statements of a worker body only.  This file follows the calls:
//
//   - a call graph of lib/query, lib/value and lib/option resolved with go/types: static calls, methods of concrete
//     types, interface methods by the implementing types of these packages (class hierarchy), calls of function
//     values by signature among the functions and function literals whose value is taken somewhere.  Calls that
//     leave the three packages stop there: the standard library by package (stdlibPackages), everything else and
//     whatever cannot be resolved as `opaque(<callee>)` — both pinned against reviewed lists in Csvq/Props/C13.lean;
//   - for every worker body (roots: callbacks of Run / EvaluateSequentially, goroutine bodies) the set of functions
//     reachable from it;
//   - a "who can see this object" abstraction (one abstract object per variable / allocation site with fields and
//     elements, inclusion-based, context-insensitive, flow-insensitive): an object is SHARED when it may be reached
//     from a variable a worker closure captures, from a parameter of a goroutine body, or from a package-level
//     variable; it is OWN when the executing goroutine made it (composite literal, make, new, a constructor that
//     returns such, sync.Pool.Get, a Copy()).  Own objects may hold shared ones in their fields (a per-worker
//     ReferenceScope points at the shared Transaction);
//   - every write through a shared object in a reachable function — field assignment, element assignment, map
//     write / delete, copy, method of a non-concurrency-safe foreign type — and every read of a location so written,
//     with the locks held (Lock … Unlock regions of the function, locks held at every call site of the function,
//     functions that return holding a lock), as facts of the vocabulary of the closure facts.  Locations are named
//     by type and field (`Flags.DatetimeFormat`, `ReferenceScope.cachedFilePath[]`).
//
// Trusted (named in the evidence): the abstraction is syntactic and may both over- and under-approximate — an own
// object stored into a shared structure is still treated as own afterwards, the effects of a callee on the fields of
// an own object of its caller are seen only through what it returns, reflection and unsafe are not followed; the
// race detector cross-checks (a report at a location these facts call safe is a violation of its own).

import (
	"fmt"
	"go/ast"
	"go/token"
	"go/types"
	"os"
	"sort"
	"strings"
)

// ---------------------------------------------------------------------------------------------
// abstract objects
// ---------------------------------------------------------------------------------------------

type ipNode struct {
	shared    bool
	defShared bool // fields / elements never stored into are shared (shallow copy of a shared struct)
	fields    map[string]*ipNode
	elem      *ipNode
	elem0     *ipNode
	depth     int
	why       string // development aid: where the object became shared
}

var ipShared = &ipNode{shared: true}

type ipState struct {
	ctx     string
	srcWhy  string
	changed bool
	flowing map[[2]*ipNode]bool
}

func (st *ipState) newNode(depth int, shared bool) *ipNode {
	return &ipNode{depth: depth, shared: shared}
}

func (st *ipState) markShared(n *ipNode) {
	if n == nil || n.shared {
		return
	}
	n.shared = true
	st.changed = true
	if ipDebug {
		n.why = st.ctx
		if st.srcWhy != "" {
			n.why += " <= " + st.srcWhy
		}
		if len(n.why) > 600 {
			n.why = n.why[:600]
		}
	}
	for _, c := range n.fields {
		st.markShared(c)
	}
	st.markShared(n.elem)
	st.markShared(n.elem0)
}

func (st *ipState) child(n *ipNode, slot **ipNode) *ipNode {
	if n == nil {
		return nil
	}
	if n.shared {
		if ipDebug && n != ipShared {
			return &ipNode{shared: true, why: n.why}
		}
		return ipShared
	}
	if *slot == nil {
		if n.depth >= 7 {
			*slot = n // deep structures fold onto themselves
		} else {
			*slot = st.newNode(n.depth+1, n.defShared)
		}
	}
	return *slot
}

func (st *ipState) field(n *ipNode, f string) *ipNode {
	if n == nil {
		return nil
	}
	if n.shared {
		if ipDebug && n != ipShared {
			return &ipNode{shared: true, why: n.why}
		}
		return ipShared
	}
	if n.fields == nil {
		n.fields = map[string]*ipNode{}
	}
	c := n.fields[f]
	if c == nil {
		if n.depth >= 7 {
			c = n
		} else {
			c = st.newNode(n.depth+1, n.defShared)
		}
		n.fields[f] = c
	}
	return c
}

func (st *ipState) elemOf(n *ipNode) *ipNode  { return st.child(n, &n.elem) }
func (st *ipState) elem0Of(n *ipNode) *ipNode { return st.child(n, &n.elem0) }

// anyElem: an element read with an unknown index: the rest, which then also holds what element 0 holds
func (st *ipState) anyElem(n *ipNode) *ipNode {
	if n == nil {
		return nil
	}
	if n.shared {
		if ipDebug && n != ipShared {
			return &ipNode{shared: true, why: n.why}
		}
		return ipShared
	}
	e := st.elemOf(n)
	if n.elem0 != nil {
		st.flow(e, n.elem0)
	}
	return e
}

// flow: dst may hold whatever src holds
func (st *ipState) flow(dst, src *ipNode) {
	if dst == nil || src == nil || dst == src || dst == ipShared {
		return
	}
	if src.shared {
		if ipDebug && !dst.shared {
			saved := st.srcWhy
			st.srcWhy = src.why
			st.markShared(dst)
			st.srcWhy = saved
			return
		}
		st.markShared(dst)
		return
	}
	if dst.shared {
		return
	}
	key := [2]*ipNode{dst, src}
	if st.flowing[key] {
		return
	}
	st.flowing[key] = true
	defer delete(st.flowing, key)
	if src.defShared && !dst.defShared {
		dst.defShared = true
		st.changed = true
	}
	for f, c := range src.fields {
		had := dst.fields != nil && dst.fields[f] != nil
		d := st.field(dst, f)
		if !had {
			st.changed = true
		}
		st.flow(d, c)
	}
	if src.elem != nil {
		if dst.elem == nil {
			st.changed = true
		}
		st.flow(st.elemOf(dst), src.elem)
	}
	if src.elem0 != nil {
		if dst.elem0 == nil {
			st.changed = true
		}
		st.flow(st.elem0Of(dst), src.elem0)
	}
}

// ---------------------------------------------------------------------------------------------
// functions
// ---------------------------------------------------------------------------------------------

type ipFunc struct {
	key     string
	label   string
	pkg     *Pkg
	decl    *ast.FuncDecl
	lit     *ast.FuncLit // a root literal (worker closure), analysed apart from the function around it
	body    *ast.BlockStmt
	ftype   *ast.FuncType
	params  []types.Object // receiver first
	results []*ipNode
	named   []types.Object           // named results
	vars    map[types.Object]*ipNode // the current binding of every variable (flow-sensitive for plain locals)
	base    map[types.Object]*ipNode // parameters, captured / address-taken variables: one object for the whole function
	weak    map[types.Object]bool    // variables used inside function literals or whose address is taken
	root    bool
	regions []int
	reached bool
	callees map[string]bool
	ext     map[string]bool // calls that leave the analysed packages
	// locks
	entryKnown bool
	entryHeld  map[string]bool
	netAcq     map[string]bool // held at every return, not at entry: the function returns holding them
	netRel     map[string]bool // released although not taken here (unlock wrappers)
	netKnown   bool
	exitSeen   bool
	exitAcq    map[string]bool
	exitRel    map[string]bool
	startHeld  map[string]bool
	deferred   map[string]bool // unlocked by a deferred call
	scanned    bool
}

type ipAccess struct {
	pos   token.Pos
	pkg   *Pkg
	fn    *ipFunc
	path  string
	elem  bool
	rw    byte
	held  map[string]bool
	sync  bool
	how   string
	cls   string
	guard string
}

type interproc struct {
	st        ipState
	pkgs      []*Pkg
	funcs     map[string]*ipFunc
	order     []*ipFunc
	roots     []*ipFunc
	alloc     map[ast.Node]*ipNode
	allocIdx  map[[2]interface{}]*ipNode
	rootLits  map[*ast.FuncLit]*ipFunc
	bySig     map[string][]*ipFunc // functions whose value is taken somewhere, by signature
	litsBySig map[string][]*ast.FuncLit
	litOwner  map[*ast.FuncLit]*ipFunc
	litParams map[*ast.FuncLit][]types.Object
	vers      map[verKey]*ipNode
	fieldExcl map[ast.Expr]map[string]bool
	curStmt   ast.Node
	record    bool
	acc       []*ipAccess
	opaque    map[string]bool
	stdlib    map[string]bool
	a         *analysis
	named     map[*Pkg][]*types.Named
	// current function
	cur      *ipFunc
	held     map[string]bool
	litStack []*ast.FuncLit
}

const (
	valuePkg  = "github.com/mithrandie/csvq/lib/value"
	optionPkg = "github.com/mithrandie/csvq/lib/option"
)

func analysedPkg(path string) bool { return path == queryPkg || path == valuePkg || path == optionPkg }

func sigString(t types.Type) string {
	s, ok := t.Underlying().(*types.Signature)
	if !ok {
		return ""
	}
	// parameter and result types only: no receiver, no names
	var b strings.Builder
	b.WriteString("func(")
	for i := 0; i < s.Params().Len(); i++ {
		if i > 0 {
			b.WriteString(", ")
		}
		if s.Variadic() && i == s.Params().Len()-1 {
			b.WriteString("...")
		}
		b.WriteString(types.TypeString(s.Params().At(i).Type(), nil))
	}
	b.WriteString(") (")
	for i := 0; i < s.Results().Len(); i++ {
		if i > 0 {
			b.WriteString(", ")
		}
		b.WriteString(types.TypeString(s.Results().At(i).Type(), nil))
	}
	b.WriteString(")")
	return b.String()
}

func (ip *interproc) addFunc(p *Pkg, fd *ast.FuncDecl) {
	fn, ok := p.Info.Defs[fd.Name].(*types.Func)
	if !ok || fd.Body == nil {
		return
	}
	f := &ipFunc{key: fn.FullName(), label: funcLabel(fd), pkg: p, decl: fd, body: fd.Body, ftype: fd.Type, vars: map[types.Object]*ipNode{},
		base: map[types.Object]*ipNode{}, weak: map[types.Object]bool{}, callees: map[string]bool{}, ext: map[string]bool{}}
	if p.Types.Path() != queryPkg {
		f.label = p.Types.Name() + "." + f.label
	}
	if fd.Recv != nil && len(fd.Recv.List) == 1 {
		if len(fd.Recv.List[0].Names) == 1 {
			f.params = append(f.params, p.Info.Defs[fd.Recv.List[0].Names[0]])
		} else {
			f.params = append(f.params, nil)
		}
	}
	ip.fillSig(f, p, fd.Type)
	ip.funcs[f.key] = f
	ip.order = append(ip.order, f)
}

func (ip *interproc) fillSig(f *ipFunc, p *Pkg, ft *ast.FuncType) {
	for _, fld := range ft.Params.List {
		if len(fld.Names) == 0 {
			f.params = append(f.params, nil)
		}
		for _, nm := range fld.Names {
			f.params = append(f.params, p.Info.Defs[nm])
		}
	}
	if ft.Results != nil {
		for _, fld := range ft.Results.List {
			n := len(fld.Names)
			if n == 0 {
				n = 1
			}
			for i := 0; i < n; i++ {
				f.results = append(f.results, ip.st.newNode(0, false))
				if len(fld.Names) > 0 {
					f.named = append(f.named, p.Info.Defs[fld.Names[i]])
				} else {
					f.named = append(f.named, nil)
				}
			}
		}
	}
}

// ---------------------------------------------------------------------------------------------
// naming of locations and locks
// ---------------------------------------------------------------------------------------------

func shortType(t types.Type) string {
	for {
		if p, ok := t.(*types.Pointer); ok {
			t = p.Elem()
			continue
		}
		break
	}
	if n, ok := t.(*types.Named); ok {
		if n.Obj().Pkg() != nil && n.Obj().Pkg().Path() != queryPkg {
			return n.Obj().Pkg().Name() + "." + n.Obj().Name()
		}
		return n.Obj().Name()
	}
	return types.TypeString(t, func(p *types.Package) string { return p.Name() })
}

// fieldOwner: the struct type a selected field is declared in
func fieldOwner(sel *types.Selection) string {
	t := sel.Recv()
	idx := sel.Index()
	for i, k := range idx {
		for {
			if p, ok := t.(*types.Pointer); ok {
				t = p.Elem()
				continue
			}
			break
		}
		st, ok := t.Underlying().(*types.Struct)
		if !ok {
			return shortType(t)
		}
		if i == len(idx)-1 {
			return shortType(t)
		}
		t = st.Field(k).Type()
	}
	return shortType(t)
}

func (ip *interproc) info() *types.Info { return ip.cur.pkg.Info }

func (ip *interproc) typeOf(e ast.Expr) types.Type {
	if tv, ok := ip.info().Types[e]; ok {
		return tv.Type
	}
	if id, ok := e.(*ast.Ident); ok {
		if o := ip.obj(id); o != nil {
			return o.Type()
		}
	}
	return nil
}

func (ip *interproc) obj(id *ast.Ident) types.Object {
	if o := ip.info().Uses[id]; o != nil {
		return o
	}
	return ip.info().Defs[id]
}

// locName: type-and-field name of the memory an lvalue / rvalue expression denotes
func (ip *interproc) locName(e ast.Expr) string {
	switch x := e.(type) {
	case *ast.ParenExpr:
		return ip.locName(x.X)
	case *ast.StarExpr:
		return ip.locName(x.X) + "*"
	case *ast.TypeAssertExpr:
		return ip.locName(x.X)
	case *ast.SelectorExpr:
		if sel := ip.info().Selections[x]; sel != nil && sel.Kind() == types.FieldVal {
			return fieldOwner(sel) + "." + x.Sel.Name
		}
		if id, ok := x.X.(*ast.Ident); ok {
			if pn, ok := ip.obj(id).(*types.PkgName); ok {
				return pn.Imported().Name() + "." + x.Sel.Name
			}
		}
	case *ast.IndexExpr:
		return ip.locName(x.X)
	case *ast.SliceExpr:
		return ip.locName(x.X)
	case *ast.Ident:
		if o, ok := ip.obj(x).(*types.Var); ok && o.Pkg() != nil && o.Parent() == o.Pkg().Scope() {
			if o.Pkg().Path() == queryPkg {
				return x.Name
			}
			return o.Pkg().Name() + "." + x.Name
		}
	case *ast.CallExpr:
		// what a method hands out of its receiver (rs.CurrentBlock())
		if t := ip.typeOf(x); t != nil {
			return shortType(t)
		}
	}
	if t := ip.typeOf(e); t != nil {
		return shortType(t)
	}
	return exprText(e)
}

func isBasic(t types.Type) bool {
	if t == nil {
		return true
	}
	switch u := t.Underlying().(type) {
	case *types.Basic:
		return true
	case *types.Tuple:
		return u.Len() == 0
	}
	return false
}

// ---------------------------------------------------------------------------------------------
// evaluation of expressions to abstract objects
// ---------------------------------------------------------------------------------------------

func (ip *interproc) varNode(o types.Object) *ipNode {
	if o == nil {
		return nil
	}
	f := ip.cur
	if n, ok := f.vars[o]; ok {
		return n
	}
	if n, ok := f.base[o]; ok {
		f.vars[o] = n
		return n
	}
	v, isVar := o.(*types.Var)
	if !isVar {
		return nil
	}
	var n *ipNode
	switch {
	case v.Pkg() != nil && v.Parent() == v.Pkg().Scope():
		n = ipShared // package-level variable
	case f.lit != nil && !(f.lit.Pos() <= o.Pos() && o.Pos() < f.lit.End()):
		n = ipShared // captured by a worker closure
	case f.root && f.decl != nil && ip.isParam(f, o):
		n = ipShared // parameter of a goroutine body
	default:
		n = ip.st.newNode(0, false)
	}
	f.base[o] = n
	f.vars[o] = n
	return n
}

// baseNode: the object a parameter names on entry
func (ip *interproc) baseNode(f *ipFunc, o types.Object) *ipNode {
	if n, ok := f.base[o]; ok {
		return n
	}
	saved, savedVars := ip.cur, f.vars
	ip.cur = f
	f.vars = map[types.Object]*ipNode{}
	n := ip.varNode(o)
	f.vars = savedVars
	ip.cur = saved
	return n
}

func (ip *interproc) isParam(f *ipFunc, o types.Object) bool {
	for _, p := range f.params {
		if p == o {
			return true
		}
	}
	return false
}

func (ip *interproc) allocNode(key ast.Node) *ipNode {
	if n, ok := ip.alloc[key]; ok {
		return n
	}
	n := ip.st.newNode(0, false)
	ip.alloc[key] = n
	return n
}

func (ip *interproc) allocIdxNode(key ast.Node, i int) *ipNode {
	k := [2]interface{}{key, i}
	if n, ok := ip.allocIdx[k]; ok {
		return n
	}
	n := ip.st.newNode(0, false)
	ip.allocIdx[k] = n
	return n
}

// localStructVar: e is a plain local variable (not captured by a literal, address not taken, not a parameter of a
// goroutine body) holding a struct value
func (ip *interproc) localStructVar(e ast.Expr) types.Object {
	id, ok := e.(*ast.Ident)
	if !ok {
		return nil
	}
	o, ok := ip.obj(id).(*types.Var)
	if !ok || o.IsField() || o.Pkg() == nil || o.Parent() == o.Pkg().Scope() {
		return nil
	}
	if _, isStruct := o.Type().Underlying().(*types.Struct); !isStruct {
		return nil
	}
	if ip.cur.weak[o] {
		return nil
	}
	if n := ip.varNode(o); n == nil || n.shared {
		return nil
	}
	if ip.cur.lit != nil && !(ip.cur.lit.Pos() <= o.Pos() && o.Pos() < ip.cur.lit.End()) {
		return nil
	}
	return o
}

// withField: the struct value of variable o with field f replaced by val
func (ip *interproc) withField(at ast.Node, o types.Object, f string, val *ipNode) *ipNode {
	old := ip.varNode(o)
	nv := ip.allocVer(at, o)
	if nv.shared {
		return nv
	}
	st, _ := o.Type().Underlying().(*types.Struct)
	if nv.fields == nil {
		nv.fields = map[string]*ipNode{}
	}
	for i := 0; st != nil && i < st.NumFields(); i++ {
		g := st.Field(i)
		if isBasic(g.Type()) {
			continue
		}
		var c *ipNode
		if g.Name() == f {
			c = ip.allocIdxNode(at, 7000+i)
			ip.st.flow(c, val)
		} else {
			c = ip.st.field(old, g.Name())
		}
		switch cur := nv.fields[g.Name()]; {
		case cur == nil:
			nv.fields[g.Name()] = c
			ip.st.changed = true
		case cur != c && !(cur.shared && c != nil && c.shared):
			ip.st.flow(cur, c)
		}
	}
	return nv
}

type verKey struct {
	at ast.Node
	o  types.Object
}

func (ip *interproc) allocVer(at ast.Node, o types.Object) *ipNode {
	k := verKey{at, o}
	if n, ok := ip.vers[k]; ok {
		return n
	}
	n := ip.st.newNode(0, false)
	ip.vers[k] = n
	return n
}

func (ip *interproc) verCount(o types.Object) int { return 0 }

func cloneEnv(m map[types.Object]*ipNode) map[types.Object]*ipNode {
	out := make(map[types.Object]*ipNode, len(m))
	for k, v := range m {
		out[k] = v
	}
	return out
}

// joinEnvs: after a branching statement a variable names what it named at the end of any branch that falls through
func (ip *interproc) joinEnvs(at ast.Node, before map[types.Object]*ipNode, envs []map[types.Object]*ipNode) map[types.Object]*ipNode {
	if len(envs) == 0 {
		return before
	}
	out := map[types.Object]*ipNode{}
	for o, b := range before {
		same := true
		first := envs[0][o]
		for _, e := range envs {
			if e[o] != first {
				same = false
			}
		}
		if same && first != nil {
			out[o] = first
			continue
		}
		j := ip.allocVer(at, o)
		for _, e := range envs {
			if n := e[o]; n != nil {
				ip.st.flow(j, n)
			} else {
				ip.st.flow(j, b)
			}
		}
		out[o] = j
	}
	// variables first bound inside every branch are out of scope afterwards, except named results / function-level ones
	for _, e := range envs {
		for o, n := range e {
			if _, ok := out[o]; !ok {
				if _, ok := before[o]; !ok {
					if prev, seen := out[o]; !seen {
						out[o] = n
					} else if prev != n {
						j := ip.allocVer(at, o)
						ip.st.flow(j, prev)
						ip.st.flow(j, n)
						out[o] = j
					}
				}
			}
		}
	}
	return out
}

func terminates(list []ast.Stmt) bool {
	if len(list) == 0 {
		return false
	}
	switch x := list[len(list)-1].(type) {
	case *ast.ReturnStmt:
		return true
	case *ast.BranchStmt:
		return x.Tok != token.FALLTHROUGH
	case *ast.ExprStmt:
		if c, ok := x.X.(*ast.CallExpr); ok {
			if id, ok := c.Fun.(*ast.Ident); ok && id.Name == "panic" {
				return true
			}
		}
	case *ast.BlockStmt:
		return terminates(x.List)
	}
	return false
}

type idxClass int

const (
	idxZero idxClass = iota
	idxNonZero
	idxUnknown
)

func classifyIndex(e ast.Expr) idxClass {
	switch x := e.(type) {
	case *ast.ParenExpr:
		return classifyIndex(x.X)
	case *ast.BasicLit:
		if x.Kind == token.INT {
			if x.Value == "0" {
				return idxZero
			}
			return idxNonZero
		}
	case *ast.BinaryExpr:
		if x.Op == token.ADD {
			if bl, ok := x.Y.(*ast.BasicLit); ok && bl.Kind == token.INT && bl.Value != "0" {
				return idxNonZero
			}
			if bl, ok := x.X.(*ast.BasicLit); ok && bl.Kind == token.INT && bl.Value != "0" {
				return idxNonZero
			}
		}
	}
	return idxUnknown
}

func (ip *interproc) isSliceLike(t types.Type) bool {
	if t == nil {
		return false
	}
	switch t.Underlying().(type) {
	case *types.Slice, *types.Array:
		return true
	case *types.Pointer:
		return ip.isSliceLike(t.Underlying().(*types.Pointer).Elem())
	}
	return false
}

// load records a read of the location e denotes when its base is shared
func (ip *interproc) noteRead(base *ipNode, e ast.Expr, elem bool) {
	if ip.record && base != nil && base.shared {
		ip.addAccess(e.Pos(), ip.locName(e), elem, 'R', false, "")
	}
}

func (ip *interproc) noteWrite(base *ipNode, e ast.Expr, elem bool, how string) {
	if ip.record && base != nil && base.shared {
		if ipDebug {
			how += " WHY: " + base.why
		}
		ip.addAccess(e.Pos(), ip.locName(e), elem, 'W', false, how)
	}
}

func (ip *interproc) addAccess(pos token.Pos, path string, elem bool, rw byte, sync bool, how string) {
	h := map[string]bool{}
	for k := range ip.held {
		h[k] = true
	}
	ip.acc = append(ip.acc, &ipAccess{pos: pos, pkg: ip.cur.pkg, fn: ip.cur, path: path, elem: elem, rw: rw, held: h, sync: sync, how: how})
}

// eval: the abstract object an expression denotes (nil: a value without references)
func (ip *interproc) eval(e ast.Expr) *ipNode {
	switch x := e.(type) {
	case nil:
		return nil
	case *ast.Ident:
		if x.Name == "nil" || x.Name == "_" {
			return nil
		}
		o := ip.obj(x)
		if _, ok := o.(*types.Var); !ok {
			if _, isFunc := o.(*types.Func); isFunc {
				return nil
			}
			return nil
		}
		return ip.varNode(o)
	case *ast.ParenExpr:
		return ip.eval(x.X)
	case *ast.BasicLit:
		return nil
	case *ast.StarExpr:
		return ip.eval(x.X)
	case *ast.UnaryExpr:
		switch x.Op {
		case token.AND:
			return ip.eval(x.X)
		case token.ARROW:
			ch := ip.eval(x.X)
			return ip.st.elemOf(ch)
		}
		ip.eval(x.X)
		return nil
	case *ast.BinaryExpr:
		ip.eval(x.X)
		ip.eval(x.Y)
		return nil
	case *ast.KeyValueExpr:
		ip.eval(x.Key)
		return ip.eval(x.Value)
	case *ast.TypeAssertExpr:
		return ip.eval(x.X)
	case *ast.SelectorExpr:
		if sel := ip.info().Selections[x]; sel != nil {
			switch sel.Kind() {
			case types.FieldVal:
				base := ip.eval(x.X)
				ip.noteRead(base, x, false)
				n := base
				// promoted fields: through the embedded ones
				t := sel.Recv()
				for i, k := range sel.Index() {
					for {
						if p, ok := t.(*types.Pointer); ok {
							t = p.Elem()
							continue
						}
						break
					}
					st, ok := t.Underlying().(*types.Struct)
					if !ok {
						break
					}
					n = ip.st.field(n, st.Field(k).Name())
					t = st.Field(k).Type()
					_ = i
				}
				if isBasic(sel.Type()) {
					return nil
				}
				return n
			default:
				// method value
				ip.eval(x.X)
				return nil
			}
		}
		// qualified identifier
		if id, ok := x.X.(*ast.Ident); ok {
			if _, isPkg := ip.obj(id).(*types.PkgName); isPkg {
				if v, ok := ip.info().Uses[x.Sel].(*types.Var); ok && !isBasic(v.Type()) {
					return ipShared
				}
				return nil
			}
		}
		ip.eval(x.X)
		return nil
	case *ast.IndexExpr:
		if tv, ok := ip.info().Types[x.X]; ok && tv.IsType() {
			return nil // generic instantiation
		}
		base := ip.eval(x.X)
		ip.eval(x.Index)
		ip.noteRead(base, x, true)
		if isBasic(ip.typeOf(x)) {
			return nil
		}
		if ip.isSliceLike(ip.typeOf(x.X)) {
			switch classifyIndex(x.Index) {
			case idxZero:
				if base != nil && !base.shared && base.elem0 == nil && base.elem != nil {
					return ip.st.anyElem(base)
				}
				return ip.st.elem0Of(base)
			case idxNonZero:
				return ip.st.elemOf(base)
			}
		}
		return ip.st.anyElem(base)
	case *ast.SliceExpr:
		ip.eval(x.Low)
		ip.eval(x.High)
		ip.eval(x.Max)
		return ip.eval(x.X)
	case *ast.CompositeLit:
		n := ip.allocNode(x)
		t := ip.typeOf(x)
		var st *types.Struct
		if t != nil {
			st, _ = t.Underlying().(*types.Struct)
		}
		for i, el := range x.Elts {
			if kv, ok := el.(*ast.KeyValueExpr); ok {
				if st != nil {
					if id, ok := kv.Key.(*ast.Ident); ok {
						ip.st.flow(ip.st.field(n, id.Name), ip.eval(kv.Value))
						continue
					}
				}
				ip.eval(kv.Key)
				ip.st.flow(ip.st.elemOf(n), ip.eval(kv.Value))
				continue
			}
			v := ip.eval(el)
			if st != nil && i < st.NumFields() {
				ip.st.flow(ip.st.field(n, st.Field(i).Name()), v)
			} else if i == 0 && ip.isSliceLike(t) {
				ip.st.flow(ip.st.elem0Of(n), v)
			} else {
				ip.st.flow(ip.st.elemOf(n), v)
			}
		}
		return n
	case *ast.FuncLit:
		ip.walkLit(x)
		return nil
	case *ast.CallExpr:
		rs := ip.call(x)
		if len(rs) > 0 {
			return rs[0]
		}
		return nil
	case *ast.ArrayType, *ast.MapType, *ast.ChanType, *ast.StructType, *ast.InterfaceType, *ast.FuncType, *ast.Ellipsis:
		return nil
	}
	return nil
}

// valueOf: assigning a struct VALUE makes a new object whose reference-typed fields point where the source's do
func (ip *interproc) valueOf(e ast.Expr) *ipNode {
	n := ip.eval(e)
	if n == nil {
		return nil
	}
	t := ip.typeOf(e)
	if t == nil {
		return n
	}
	if _, isStruct := t.Underlying().(*types.Struct); !isStruct {
		return n
	}
	switch e.(type) {
	case *ast.CompositeLit, *ast.CallExpr:
		return n
	}
	return ip.copyStruct(e, n, t, ip.fieldExcl[e])
}

// copyStruct: a copy of a struct held somewhere else; excl: fields the copy does not take over (they are nil in the
// source or overwritten right after, see stmts).  Struct-valued fields are copied with it, reference-typed fields
// point where the source's do.
func (ip *interproc) copyStruct(key ast.Node, src *ipNode, t types.Type, excl map[string]bool) *ipNode {
	return ip.copyStructAt(ip.allocNode(key), key, 0, src, t, excl)
}

func (ip *interproc) copyStructAt(cp *ipNode, key ast.Node, level int, src *ipNode, t types.Type, excl map[string]bool) *ipNode {
	st, ok := t.Underlying().(*types.Struct)
	if !ok || src == nil {
		return src
	}
	if cp.shared {
		return cp
	}
	for i := 0; i < st.NumFields(); i++ {
		f := st.Field(i)
		if isBasic(f.Type()) || excl[f.Name()] {
			continue
		}
		var c *ipNode
		if src.shared {
			c = ipShared
			if ipDebug {
				c = &ipNode{shared: true, why: "copy of a shared " + shortType(t) + " at " + ip.st.ctx + " <= " + src.why}
			}
		} else {
			c = ip.st.field(src, f.Name())
		}
		if _, nested := f.Type().Underlying().(*types.Struct); nested && level < 3 {
			sub := ip.allocIdxNode(key, 5000+level*100+i)
			c = ip.copyStructAt(sub, key, level+1, c, f.Type(), nil)
		}
		if cp.fields == nil {
			cp.fields = map[string]*ipNode{}
		}
		switch cur := cp.fields[f.Name()]; {
		case cur == nil:
			cp.fields[f.Name()] = c
			ip.st.changed = true
		case cur != c && !(cur.shared && c.shared):
			ip.st.flow(cur, c)
		}
	}
	return cp
}

// ---------------------------------------------------------------------------------------------
// assignments
// ---------------------------------------------------------------------------------------------

func (ip *interproc) assign(lhs ast.Expr, val *ipNode, define bool, rmw bool) {
	switch x := lhs.(type) {
	case *ast.ParenExpr:
		ip.assign(x.X, val, define, rmw)
	case *ast.Ident:
		if x.Name == "_" {
			return
		}
		o := ip.obj(x)
		if o == nil {
			return
		}
		v, ok := o.(*types.Var)
		if !ok {
			return
		}
		if v.Pkg() != nil && v.Parent() == v.Pkg().Scope() {
			return // package-level variables: the closure analysis has a region of its own for them
		}
		if isBasic(v.Type()) {
			return
		}
		if ip.cur.weak[o] || ip.isParam(ip.cur, o) && ip.cur.root {
			n := ip.varNode(o)
			if n != ipShared {
				ip.st.flow(n, val)
			}
			return
		}
		if cur, ok := ip.cur.vars[o]; ok && cur == ipShared {
			return // a captured variable assigned by a worker: the closure analysis reports it
		}
		if b, ok := ip.cur.base[o]; ok && b == ipShared {
			return
		}
		if ip.cur.lit != nil && !(ip.cur.lit.Pos() <= o.Pos() && o.Pos() < ip.cur.lit.End()) {
			return
		}
		// a plain local: from here on the variable names what was assigned
		if val == nil {
			val = ip.allocIdxNode(ip.curStmt, -1-ip.verCount(o))
		}
		if define && ip.info().Defs[x] != nil {
			ip.cur.vars[o] = val
			return
		}
		ver := ip.allocVer(ip.curStmt, o)
		ip.st.flow(ver, val)
		ip.cur.vars[o] = ver
	case *ast.SelectorExpr:
		sel := ip.info().Selections[x]
		if sel == nil || sel.Kind() != types.FieldVal {
			return
		}
		if o := ip.localStructVar(x.X); o != nil && len(sel.Index()) == 1 && !rmw {
			// x.f = v on a struct VALUE held in a plain local variable: nobody else names the object
			if isBasic(sel.Type()) {
				return
			}
			ip.cur.vars[o] = ip.withField(ip.curStmt, o, x.Sel.Name, val)
			return
		}
		base := ip.eval(x.X)
		if rmw {
			ip.noteRead(base, x, false)
		}
		ip.noteWrite(base, x, false, "")
		if base == nil || base.shared {
			return
		}
		n := base
		t := sel.Recv()
		for _, k := range sel.Index() {
			for {
				if p, ok := t.(*types.Pointer); ok {
					t = p.Elem()
					continue
				}
				break
			}
			st, ok := t.Underlying().(*types.Struct)
			if !ok {
				break
			}
			n = ip.st.field(n, st.Field(k).Name())
			t = st.Field(k).Type()
		}
		ip.st.flow(n, val)
	case *ast.IndexExpr:
		base := ip.eval(x.X)
		ip.eval(x.Index)
		if rmw {
			ip.noteRead(base, x, true)
		}
		ip.noteWrite(base, x, true, "")
		if base == nil || base.shared {
			return
		}
		if ip.isSliceLike(ip.typeOf(x.X)) {
			switch classifyIndex(x.Index) {
			case idxZero:
				ip.st.flow(ip.st.elem0Of(base), val)
				return
			case idxNonZero:
				ip.st.flow(ip.st.elemOf(base), val)
				return
			}
			ip.st.flow(ip.st.elemOf(base), val)
			if base.elem0 != nil {
				ip.st.flow(base.elem0, val)
			}
			return
		}
		ip.st.flow(ip.st.elemOf(base), val)
	case *ast.StarExpr:
		base := ip.eval(x.X)
		ip.noteWrite(base, x, false, "")
		if base != nil && !base.shared {
			ip.st.flow(base, val)
		}
	}
}

// ---------------------------------------------------------------------------------------------
// calls
// ---------------------------------------------------------------------------------------------

func (ip *interproc) namedTypes() []*types.Named {
	p := ip.cur.pkg
	if ns, ok := ip.named[p]; ok {
		return ns
	}
	var out []*types.Named
	seen := map[*types.Package]bool{}
	var walk func(tp *types.Package)
	walk = func(tp *types.Package) {
		if tp == nil || seen[tp] {
			return
		}
		seen[tp] = true
		if analysedPkg(tp.Path()) {
			sc := tp.Scope()
			for _, nm := range sc.Names() {
				if tn, ok := sc.Lookup(nm).(*types.TypeName); ok {
					if n, ok := tn.Type().(*types.Named); ok {
						if _, isIface := n.Underlying().(*types.Interface); !isIface {
							out = append(out, n)
						}
					}
				}
			}
		}
		for _, im := range tp.Imports() {
			walk(im)
		}
	}
	walk(p.Types)
	ip.named[p] = out
	return out
}

type callTarget struct {
	f    *ipFunc
	lit  *ast.FuncLit
	ext  *types.Func
	desc string
}

// resolve the callees of a call expression
func (ip *interproc) resolve(c *ast.CallExpr) (targets []callTarget, recv ast.Expr) {
	fun := c.Fun
	for {
		if p, ok := fun.(*ast.ParenExpr); ok {
			fun = p.X
			continue
		}
		break
	}
	var fn *types.Func
	switch f := fun.(type) {
	case *ast.Ident:
		fn, _ = ip.obj(f).(*types.Func)
	case *ast.SelectorExpr:
		if sel := ip.info().Selections[f]; sel != nil {
			if sel.Kind() == types.MethodVal {
				fn, _ = sel.Obj().(*types.Func)
				recv = f.X
				if fn != nil && types.IsInterface(sel.Recv()) {
					// class hierarchy: the types of the analysed packages that implement the interface
					iface, _ := sel.Recv().Underlying().(*types.Interface)
					found := false
					for _, nt := range ip.namedTypes() {
						var impl types.Type
						switch {
						case iface != nil && types.Implements(nt, iface):
							impl = nt
						case iface != nil && types.Implements(types.NewPointer(nt), iface):
							impl = types.NewPointer(nt)
						default:
							continue
						}
						obj, _, _ := types.LookupFieldOrMethod(impl, true, nt.Obj().Pkg(), fn.Name())
						if mf, ok := obj.(*types.Func); ok {
							if tf := ip.funcs[mf.FullName()]; tf != nil {
								targets = append(targets, callTarget{f: tf})
								found = true
							}
						}
					}
					ifaceName := shortType(sel.Recv())
					declaredHere := false
					if n, ok := sel.Recv().(*types.Named); ok && n.Obj().Pkg() != nil && analysedPkg(n.Obj().Pkg().Path()) {
						declaredHere = true
					}
					if !found || !declaredHere {
						targets = append(targets, callTarget{desc: "interface " + ifaceName + "." + fn.Name()})
					}
					return targets, recv
				}
			} else if sel.Kind() == types.FieldVal {
				fn = nil // a func-typed field: function value
			}
		} else {
			fn, _ = ip.info().Uses[f.Sel].(*types.Func) // pkg.Func
		}
	case *ast.FuncLit:
		return []callTarget{{lit: f}}, nil
	}
	if fn != nil {
		if tf := ip.funcs[fn.FullName()]; tf != nil {
			return []callTarget{{f: tf}}, recv
		}
		return []callTarget{{ext: fn}}, recv
	}
	// a function value: by signature
	t := ip.typeOf(fun)
	if t == nil {
		return nil, nil
	}
	sg := sigString(t)
	if sg == "" {
		return nil, nil
	}
	for _, tf := range ip.bySig[sg] {
		targets = append(targets, callTarget{f: tf})
	}
	for _, fl := range ip.litsBySig[sg] {
		targets = append(targets, callTarget{lit: fl})
	}
	if len(targets) == 0 && ipDebug {
		fmt.Fprintf(os.Stderr, "UNRESOLVED sig %q; known lit sigs: %d fn sigs: %d\n", sg, len(ip.litsBySig), len(ip.bySig))
		for k := range ip.litsBySig {
			if strings.Contains(k, "ReferenceScope") {
				fmt.Fprintf(os.Stderr, "   lit sig %q\n", k)
			}
		}
	}
	if len(targets) == 0 {
		targets = append(targets, callTarget{desc: "function value " + exprText(fun) + " of type " + types.TypeString(t, func(p *types.Package) string { return p.Name() })})
	}
	return targets, nil
}

// opaqueName: methods by receiver type (`methods of parser.Identifier`), plain functions by name
func opaqueName(fn *types.Func) string {
	short := func(s string) string {
		s = strings.ReplaceAll(s, "github.com/mithrandie/csvq/lib/", "")
		s = strings.ReplaceAll(s, "github.com/mithrandie/", "")
		return strings.ReplaceAll(s, "github.com/", "")
	}
	if sig, ok := fn.Type().(*types.Signature); ok && sig.Recv() != nil {
		t := sig.Recv().Type()
		if p, ok := t.(*types.Pointer); ok {
			t = p.Elem()
		}
		tn := short(types.TypeString(t, nil))
		if strings.HasPrefix(tn, "parser.") {
			return "methods of the syntax-tree nodes of lib/parser"
		}
		return "methods of " + tn
	}
	return short(fn.FullName())
}

func stdlibPath(path string) bool {
	first := path
	if i := strings.Index(path, "/"); i >= 0 {
		first = path[:i]
	}
	return !strings.Contains(first, ".")
}

func (ip *interproc) lockOf(c *ast.CallExpr) (name string, op string) {
	sel, ok := c.Fun.(*ast.SelectorExpr)
	if !ok {
		return "", ""
	}
	switch sel.Sel.Name {
	case "Lock", "Unlock", "RLock", "RUnlock":
	default:
		return "", ""
	}
	t := ip.typeOf(sel.X)
	if t == nil {
		return "", ""
	}
	if n := namedType(t); n != "sync.Mutex" && n != "sync.RWMutex" {
		return "", ""
	}
	return ip.locName(sel.X), sel.Sel.Name
}

func (ip *interproc) call(c *ast.CallExpr) []*ipNode {
	// conversions
	if tv, ok := ip.info().Types[c.Fun]; ok && tv.IsType() {
		var n *ipNode
		for _, a := range c.Args {
			n = ip.eval(a)
		}
		if isBasic(tv.Type) {
			return nil
		}
		return []*ipNode{n}
	}
	if id, ok := c.Fun.(*ast.Ident); ok {
		if b, ok := ip.obj(id).(*types.Builtin); ok {
			return ip.builtin(b.Name(), c)
		}
	}
	if name, op := ip.lockOf(c); name != "" {
		ip.eval(c.Fun.(*ast.SelectorExpr).X)
		switch op {
		case "Lock":
			ip.held[name] = true
		case "RLock":
			ip.held[name+" (read)"] = true
		case "Unlock":
			if !ip.held[name] && len(ip.litStack) == 0 {
				ip.cur.exitRel[name] = true
			}
			delete(ip.held, name)
		case "RUnlock":
			if !ip.held[name+" (read)"] && len(ip.litStack) == 0 {
				ip.cur.exitRel[name+" (read)"] = true
			}
			delete(ip.held, name+" (read)")
		}
		return nil
	}
	targets, recv := ip.resolve(c)
	var recvNode *ipNode
	if recv != nil {
		recvNode = ip.eval(recv)
		// a promoted method: its receiver is the embedded field
		if sel, ok := c.Fun.(*ast.SelectorExpr); ok {
			if sl := ip.info().Selections[sel]; sl != nil && len(sl.Index()) > 1 {
				t := sl.Recv()
				for _, k := range sl.Index()[:len(sl.Index())-1] {
					for {
						if p, ok := t.(*types.Pointer); ok {
							t = p.Elem()
							continue
						}
						break
					}
					st, ok := t.Underlying().(*types.Struct)
					if !ok {
						break
					}
					recvNode = ip.st.field(recvNode, st.Field(k).Name())
					t = st.Field(k).Type()
				}
			}
		}
		// a method with a value receiver works on a copy
		if sel, ok := c.Fun.(*ast.SelectorExpr); ok {
			if fn, ok := ip.info().Uses[sel.Sel].(*types.Func); ok {
				if sig, ok := fn.Type().(*types.Signature); ok && sig.Recv() != nil {
					if _, isStruct := sig.Recv().Type().Underlying().(*types.Struct); isStruct {
						recvNode = ip.copyStruct(c.Fun, recvNode, sig.Recv().Type(), nil)
					}
				}
			}
		}
	} else if sel, ok := c.Fun.(*ast.SelectorExpr); ok {
		ip.eval(sel) // field holding a function value, or a package
	} else if _, isLit := c.Fun.(*ast.FuncLit); !isLit {
		ip.eval(c.Fun)
	}
	args := make([]*ipNode, len(c.Args))
	for i, a := range c.Args {
		args[i] = ip.valueOf(a)
	}
	// results of this call site
	nres := 0
	var rtypes []types.Type
	if t := ip.typeOf(c); t != nil {
		if tup, ok := t.(*types.Tuple); ok {
			nres = tup.Len()
			for i := 0; i < nres; i++ {
				rtypes = append(rtypes, tup.At(i).Type())
			}
		} else {
			nres = 1
			rtypes = []types.Type{t}
		}
	}
	res := make([]*ipNode, nres)
	for i := range res {
		if !isBasic(rtypes[i]) {
			res[i] = ip.allocIdxNode(c, i)
		}
	}
	anyShared := recvNode != nil && recvNode.shared
	for _, a := range args {
		if a != nil && a.shared {
			anyShared = true
		}
	}
	for _, tg := range targets {
		switch {
		case tg.f != nil:
			ip.cur.callees[tg.f.key] = true
			ip.reach(tg.f)
			ip.bind(tg.f.params, tg.f, nil, recvNode, recv != nil, args, c)
			for i := range res {
				if i < len(tg.f.results) {
					ip.st.flow(res[i], tg.f.results[i])
				}
			}
			ip.noteCallLocks(tg.f)
		case tg.lit != nil:
			owner := ip.litOwner[tg.lit]
			if rf := ip.rootLits[tg.lit]; rf != nil {
				ip.cur.callees[rf.key] = true
				ip.bind(rf.params, rf, nil, nil, false, args, c)
				for i := range res {
					if i < len(rf.results) {
						ip.st.flow(res[i], rf.results[i])
					}
				}
			} else if owner != nil {
				if owner != ip.cur {
					ip.cur.callees[owner.key] = true
					ip.reach(owner)
				}
				ip.bind(ip.litParams[tg.lit], owner, tg.lit, nil, false, args, c)
				for i := range res {
					ip.st.flow(res[i], ip.litResult(tg.lit, i))
				}
			}
		case tg.ext != nil:
			path := ""
			if tg.ext.Pkg() != nil {
				path = tg.ext.Pkg().Path()
			}
			name := tg.ext.FullName()
			if stdlibPath(path) {
				ip.stdlib[path] = true
			} else {
				ip.opaque[opaqueName(tg.ext)] = true
				ip.cur.ext[name] = true
			}
			ip.external(tg.ext, c, recv, recvNode, args, res, anyShared)
		default:
			ip.opaque[tg.desc] = true
			for i := range res {
				if anyShared {
					ip.st.markShared(res[i])
				}
			}
		}
	}
	return res
}

func (ip *interproc) litResult(fl *ast.FuncLit, i int) *ipNode {
	return ip.allocIdxNode(fl, 1000+i)
}

func (ip *interproc) bind(params []types.Object, callee *ipFunc, lit *ast.FuncLit, recvNode *ipNode, hasRecv bool, args []*ipNode, c *ast.CallExpr) {
	saved := ip.cur
	k := 0
	var vals []*ipNode
	if hasRecv {
		vals = append(vals, recvNode)
	} else if callee != nil && lit == nil && callee.decl != nil && callee.decl.Recv != nil {
		// method expression / value: receiver unknown
		vals = append(vals, nil)
	}
	vals = append(vals, args...)
	// the callee's variables live in the callee
	ip.cur = callee
	variadic := false
	var ft *ast.FuncType
	if lit != nil {
		ft = lit.Type
	} else if callee != nil {
		ft = callee.ftype
	}
	if ft != nil && len(ft.Params.List) > 0 {
		if _, ok := ft.Params.List[len(ft.Params.List)-1].Type.(*ast.Ellipsis); ok {
			variadic = true
		}
	}
	for i, v := range vals {
		k = i
		if k >= len(params) {
			if variadic && len(params) > 0 {
				k = len(params) - 1
			} else {
				break
			}
		}
		po := params[k]
		if po == nil || v == nil {
			continue
		}
		pn := ip.baseNode(callee, po)
		if pn == ipShared {
			continue
		}
		if variadic && k == len(params)-1 && c.Ellipsis == token.NoPos {
			ip.st.flow(ip.st.elemOf(pn), v)
		} else {
			ip.st.flow(pn, v)
		}
	}
	ip.cur = saved
}

func (ip *interproc) reach(f *ipFunc) {
	if !f.reached {
		f.reached = true
		ip.st.changed = true
	}
}

// noteCallLocks: the locks held here are held on entry of the callee (intersection over the call sites); a callee
// that returns holding a lock hands it to the caller
func (ip *interproc) noteCallLocks(f *ipFunc) {
	if !f.root {
		if !f.entryKnown {
			f.entryKnown = true
			f.entryHeld = map[string]bool{}
			for k := range ip.held {
				f.entryHeld[k] = true
			}
			ip.st.changed = true
		} else {
			for k := range f.entryHeld {
				if !ip.held[k] {
					delete(f.entryHeld, k)
					ip.st.changed = true
				}
			}
		}
	}
	if f.netKnown {
		for k := range f.netAcq {
			ip.held[k] = true
		}
		for k := range f.netRel {
			delete(ip.held, k)
		}
	}
}

func (ip *interproc) external(fn *types.Func, c *ast.CallExpr, recv ast.Expr, recvNode *ipNode, args []*ipNode, res []*ipNode, anyShared bool) {
	full := fn.FullName()
	path := ""
	if fn.Pkg() != nil {
		path = fn.Pkg().Path()
	}
	// results
	for i := range res {
		switch {
		case full == "(*sync.Pool).Get":
			// the object belongs to whoever took it (release facts: nothing is in the pool twice)
		case full == "(context.Context).Value":
			ip.st.markShared(res[i])
		case recvNode != nil && recvNode.shared:
			ip.st.markShared(res[i]) // what a method hands out of a shared object
		case anyShared || recvNode != nil && recvNode.defShared:
			// a new object that may keep the shared arguments inside (bufio.NewWriter(file), exec.Command(…))
			if res[i] != nil && !res[i].shared && !res[i].defShared {
				res[i].defShared = true
				ip.st.changed = true
				for _, c := range res[i].fields {
					ip.st.markShared(c)
				}
				ip.st.markShared(res[i].elem)
				ip.st.markShared(res[i].elem0)
			}
		}
	}
	// effects on a shared receiver
	if recv != nil && recvNode != nil && recvNode.shared && ip.record {
		rt := ip.typeOf(recv)
		if rt != nil && syncObject(rt) != "" {
			ip.addAccess(c.Pos(), ip.locName(recv)+"*", false, 'W', true, syncObject(rt)+"."+fn.Name())
			return
		}
		if concurrencySafe[path] || namedType(rt) == "os.File" {
			return // (os.File serialises its operations with its own lock)
		}
		if strings.HasSuffix(path, "/lib/parser") {
			return // syntax-tree nodes are immutable for the evaluator (property C14, AstWriteFacts)
		}
		if ip.a != nil {
			sig, _ := fn.Type().(*types.Signature)
			if sig != nil && sig.Recv() != nil {
				if effs, ok := ip.a.effectsOfCall(fn, rt); ok {
					for _, e := range effs {
						saved := ip.held
						if e.guard != "" {
							ip.held = map[string]bool{}
							for k := range saved {
								ip.held[k] = true
							}
							ip.held[shortType(rt)+"."+e.guard] = true
						}
						ip.addAccess(c.Pos(), shortType(rt)+"."+e.field, false, e.rw, false, "via method "+fn.Name())
						ip.held = saved
					}
					return
				}
			}
		}
		ip.addAccess(c.Pos(), shortType(rt)+".*", false, 'W', false, "via method "+fn.Name()+" (no summary)")
	}
	// sync/atomic on a shared word
	if path == "sync/atomic" && len(c.Args) > 0 && ip.record {
		a0 := c.Args[0]
		suffix := "*"
		if u, ok := a0.(*ast.UnaryExpr); ok && u.Op == token.AND {
			a0 = u.X
			suffix = ""
		}
		if n := ip.eval(a0); n != nil && n.shared || ip.baseShared(a0) {
			ip.addAccess(c.Pos(), ip.locName(a0)+suffix, false, 'W', true, "atomic."+fn.Name())
		}
	}
}

// baseShared: is the object holding the (basic-typed) location e shared?
func (ip *interproc) baseShared(e ast.Expr) bool {
	switch x := e.(type) {
	case *ast.ParenExpr:
		return ip.baseShared(x.X)
	case *ast.StarExpr:
		n := ip.eval(x.X)
		return n != nil && n.shared
	case *ast.SelectorExpr:
		n := ip.eval(x.X)
		return n != nil && n.shared
	case *ast.IndexExpr:
		n := ip.eval(x.X)
		return n != nil && n.shared
	case *ast.Ident:
		n := ip.eval(x)
		return n != nil && n.shared
	}
	return false
}

func (ip *interproc) builtin(name string, c *ast.CallExpr) []*ipNode {
	switch name {
	case "make", "new":
		for _, a := range c.Args[1:] {
			ip.eval(a)
		}
		return []*ipNode{ip.allocNode(c)}
	case "append":
		if len(c.Args) == 0 {
			return nil
		}
		base := ip.eval(c.Args[0])
		r := ip.allocNode(c)
		ip.st.flow(r, base)
		for i, a := range c.Args[1:] {
			v := ip.valueOf(a)
			if c.Ellipsis != token.NoPos && i == len(c.Args)-2 {
				ip.st.flow(ip.st.elemOf(r), ip.st.anyElem(v))
			} else {
				ip.st.flow(ip.st.elemOf(r), v)
				if r.elem0 != nil {
					ip.st.flow(r.elem0, v)
				}
			}
		}
		return []*ipNode{r}
	case "copy":
		if len(c.Args) == 2 {
			dst := ip.eval(c.Args[0])
			src := ip.eval(c.Args[1])
			ip.noteWrite(dst, c.Args[0], true, "copy")
			if dst != nil && !dst.shared {
				ip.st.flow(ip.st.elemOf(dst), ip.st.anyElem(src))
				if dst.elem0 != nil {
					ip.st.flow(dst.elem0, ip.st.anyElem(src))
				}
			}
		}
		return nil
	case "delete":
		if len(c.Args) == 2 {
			m := ip.eval(c.Args[0])
			ip.eval(c.Args[1])
			ip.noteWrite(m, c.Args[0], true, "delete")
		}
		return nil
	case "clear":
		if len(c.Args) == 1 {
			m := ip.eval(c.Args[0])
			ip.noteWrite(m, c.Args[0], true, "clear")
		}
		return nil
	case "close":
		ip.eval(c.Args[0])
		return nil
	}
	for _, a := range c.Args {
		ip.eval(a)
	}
	return nil
}

// ---------------------------------------------------------------------------------------------
// statements
// ---------------------------------------------------------------------------------------------

func (ip *interproc) walkLit(fl *ast.FuncLit) {
	if ip.rootLits[fl] != nil {
		return // a worker body: analysed on its own, its captured variables shared
	}
	ip.litStack = append(ip.litStack, fl)
	saved := copyHeld(ip.held)
	ip.stmts(fl.Body.List)
	ip.held = saved
	ip.litStack = ip.litStack[:len(ip.litStack)-1]
}

func copyHeld(h map[string]bool) map[string]bool {
	out := map[string]bool{}
	for k := range h {
		out[k] = true
	}
	return out
}

func (ip *interproc) stmts(list []ast.Stmt) {
	for i, s := range list {
		ip.noteGuardedDeepCopy(s, list[i+1:])
		ip.stmt(s)
	}
}

// noteGuardedDeepCopy:   dst = src            (a struct value)
//
//	if src.f != nil { dst.f = …made anew… }
//
// the copy takes the field f over only as nil: the source's f is not reachable through dst
func (ip *interproc) noteGuardedDeepCopy(s ast.Stmt, rest []ast.Stmt) {
	as, ok := s.(*ast.AssignStmt)
	if !ok || len(as.Lhs) != 1 || len(as.Rhs) != 1 {
		return
	}
	t := ip.typeOf(as.Rhs[0])
	if t == nil {
		return
	}
	if _, isStruct := t.Underlying().(*types.Struct); !isStruct {
		return
	}
	dst, src := exprText(as.Lhs[0]), exprText(as.Rhs[0])
	for _, r := range rest {
		ifs, ok := r.(*ast.IfStmt)
		if !ok || ifs.Init != nil || ifs.Else != nil {
			return
		}
		cond, ok := ifs.Cond.(*ast.BinaryExpr)
		if !ok || cond.Op != token.NEQ {
			return
		}
		if id, ok := cond.Y.(*ast.Ident); !ok || id.Name != "nil" {
			return
		}
		sel, ok := cond.X.(*ast.SelectorExpr)
		if !ok || exprText(sel.X) != src {
			return
		}
		assigned := false
		for _, b := range ifs.Body.List {
			if ba, ok := b.(*ast.AssignStmt); ok && len(ba.Lhs) == 1 && ba.Tok == token.ASSIGN && exprText(ba.Lhs[0]) == dst+"."+sel.Sel.Name {
				assigned = true
			}
			break
		}
		if !assigned {
			return
		}
		if ip.fieldExcl[as.Rhs[0]] == nil {
			ip.fieldExcl[as.Rhs[0]] = map[string]bool{}
		}
		ip.fieldExcl[as.Rhs[0]][sel.Sel.Name] = true
	}
}

// block: locks taken inside a block and not released there are dropped at its end (conservative); the variables
// bound inside go out of scope
func (ip *interproc) block(list []ast.Stmt) {
	saved := copyHeld(ip.held)
	ip.stmts(list)
	for k := range ip.held {
		if !saved[k] {
			delete(ip.held, k)
		}
	}
}

// branches: every branch starts from the bindings before the statement; afterwards a variable names what it named at
// the end of any branch that falls through (mayskip: or what it named before)
func (ip *interproc) branches(at ast.Node, lists [][]ast.Stmt, mayskip bool) {
	before := ip.cur.vars
	heldBefore := copyHeld(ip.held)
	var envs []map[types.Object]*ipNode
	var helds []map[string]bool
	for _, l := range lists {
		ip.cur.vars = cloneEnv(before)
		ip.held = copyHeld(heldBefore)
		ip.stmts(l)
		if !terminates(l) {
			envs = append(envs, ip.cur.vars)
			helds = append(helds, ip.held)
		}
	}
	if mayskip || len(envs) == 0 {
		envs = append(envs, before)
		helds = append(helds, heldBefore)
	}
	// a lock is held afterwards when it is held at the end of every branch that falls through
	out := copyHeld(helds[0])
	for _, h := range helds[1:] {
		for k := range out {
			if !h[k] {
				delete(out, k)
			}
		}
	}
	ip.held = out
	env := ip.joinEnvs(at, before, envs)
	// variables declared inside the branches are gone
	for o := range env {
		if _, ok := before[o]; !ok {
			if _, isBase := ip.cur.base[o]; !isBase {
				delete(env, o)
			}
		}
	}
	ip.cur.vars = env
}

// loop: the variables assigned in the body name, at its head, what they named before the loop or at the end of the body
func (ip *interproc) loop(at ast.Node, body []ast.Stmt, post ast.Stmt) {
	before := ip.cur.vars
	assigned := map[types.Object]bool{}
	ast.Inspect(&ast.BlockStmt{List: body}, func(n ast.Node) bool {
		switch x := n.(type) {
		case *ast.FuncLit:
			return false
		case *ast.AssignStmt:
			for _, l := range x.Lhs {
				if id, ok := l.(*ast.Ident); ok {
					if o := ip.info().Uses[id]; o != nil {
						assigned[o] = true
					}
				}
			}
		case *ast.RangeStmt:
			for _, l := range []ast.Expr{x.Key, x.Value} {
				if id, ok := l.(*ast.Ident); ok && x.Tok == token.ASSIGN {
					if o := ip.info().Uses[id]; o != nil {
						assigned[o] = true
					}
				}
			}
		}
		return true
	})
	head := cloneEnv(before)
	for o := range assigned {
		if b, ok := before[o]; ok {
			j := ip.allocVer(at, o)
			ip.st.flow(j, b)
			head[o] = j
		}
	}
	ip.cur.vars = cloneEnv(head)
	ip.block(body)
	if post != nil {
		ip.stmt(post)
	}
	for o := range assigned {
		if j, ok := head[o]; ok {
			if n := ip.cur.vars[o]; n != nil && n != j {
				ip.st.flow(j, n)
			}
		}
	}
	out := cloneEnv(head)
	ip.cur.vars = out
}

func (ip *interproc) stmt(s ast.Stmt) {
	if ipDebug && s != nil {
		ip.st.ctx = fmt.Sprintf("%s %s:%d", ip.cur.label, ip.cur.pkg.base(s.Pos()), ip.cur.pkg.line(s.Pos()))
	}
	if s != nil {
		ip.curStmt = s
	}
	switch x := s.(type) {
	case nil:
	case *ast.BlockStmt:
		ip.block(x.List)
	case *ast.ExprStmt:
		ip.eval(x.X)
	case *ast.EmptyStmt, *ast.BranchStmt:
	case *ast.LabeledStmt:
		ip.stmt(x.Stmt)
	case *ast.AssignStmt:
		define := x.Tok == token.DEFINE
		rmw := x.Tok != token.ASSIGN && x.Tok != token.DEFINE
		if len(x.Lhs) == len(x.Rhs) {
			vals := make([]*ipNode, len(x.Rhs))
			for i, r := range x.Rhs {
				vals[i] = ip.valueOf(r)
			}
			for i, l := range x.Lhs {
				ip.assign(l, vals[i], define, rmw)
			}
		} else if len(x.Rhs) == 1 {
			var vals []*ipNode
			switch r := x.Rhs[0].(type) {
			case *ast.CallExpr:
				vals = ip.call(r)
			case *ast.TypeAssertExpr:
				v := ip.eval(r.X)
				if r.Type != nil {
					if tv, ok := ip.info().Types[r.Type]; ok {
						if _, isStruct := tv.Type.Underlying().(*types.Struct); isStruct {
							v = ip.copyStruct(r, v, tv.Type, nil)
						}
					}
				}
				vals = []*ipNode{v, nil}
			case *ast.IndexExpr:
				vals = []*ipNode{ip.eval(r), nil}
			case *ast.UnaryExpr:
				vals = []*ipNode{ip.eval(r), nil}
			default:
				vals = []*ipNode{ip.eval(r)}
			}
			for i, l := range x.Lhs {
				var v *ipNode
				if i < len(vals) {
					v = vals[i]
				}
				ip.assign(l, v, define, rmw)
			}
		}
	case *ast.IncDecStmt:
		ip.assign(x.X, nil, false, true)
	case *ast.DeclStmt:
		if gd, ok := x.Decl.(*ast.GenDecl); ok && gd.Tok == token.VAR {
			for _, sp := range gd.Specs {
				vs := sp.(*ast.ValueSpec)
				if len(vs.Values) == len(vs.Names) {
					for i, id := range vs.Names {
						ip.assign(id, ip.valueOf(vs.Values[i]), true, false)
					}
				} else if len(vs.Values) == 1 {
					if c, ok := vs.Values[0].(*ast.CallExpr); ok {
						vals := ip.call(c)
						for i, id := range vs.Names {
							if i < len(vals) {
								ip.assign(id, vals[i], true, false)
							}
						}
					}
				}
			}
		}
	case *ast.IfStmt:
		ip.stmt(x.Init)
		ip.eval(x.Cond)
		lists := [][]ast.Stmt{x.Body.List}
		switch e := x.Else.(type) {
		case nil:
		case *ast.BlockStmt:
			lists = append(lists, e.List)
		default:
			lists = append(lists, []ast.Stmt{e})
		}
		if x.Else == nil {
			if b, ok := x.Cond.(*ast.BinaryExpr); ok && b.Op == token.NEQ {
				if id, ok := b.Y.(*ast.Ident); ok && id.Name == "nil" {
					if sel, ok := b.X.(*ast.SelectorExpr); ok {
						if o := ip.localStructVar(sel.X); o != nil {
							// when the branch is skipped the field is nil
							before := ip.cur.vars
							ip.cur.vars = cloneEnv(before)
							heldBefore := copyHeld(ip.held)
							ip.stmts(x.Body.List)
							if terminates(x.Body.List) {
								ip.held = heldBefore
							} else {
								for k := range ip.held {
									if !heldBefore[k] {
										delete(ip.held, k)
									}
								}
							}
							after := ip.cur.vars
							skip := cloneEnv(before)
							skip[o] = ip.withField(x.Cond, o, sel.Sel.Name, nil)
							envs := []map[types.Object]*ipNode{skip}
							if !terminates(x.Body.List) {
								envs = append(envs, after)
							}
							out := ip.joinEnvs(x, before, envs)
							for v := range out {
								if _, ok := before[v]; !ok {
									if _, isBase := ip.cur.base[v]; !isBase {
										delete(out, v)
									}
								}
							}
							ip.cur.vars = out
							return
						}
					}
				}
			}
		}
		ip.branches(x, lists, x.Else == nil)
	case *ast.ForStmt:
		ip.stmt(x.Init)
		ip.eval(x.Cond)
		ip.loop(x, x.Body.List, x.Post)
	case *ast.RangeStmt:
		base := ip.eval(x.X)
		t := ip.typeOf(x.X)
		ip.noteRead(base, x.X, true)
		var kv, vv *ipNode
		if t != nil {
			switch u := t.Underlying().(type) {
			case *types.Map:
				if !isBasic(u.Elem()) {
					vv = ip.st.anyElem(base)
				}
				if !isBasic(u.Key()) {
					kv = ipShared
					if base == nil || !base.shared {
						kv = nil
					}
				}
			case *types.Chan:
				if !isBasic(u.Elem()) {
					kv = ip.st.elemOf(base)
				}
			case *types.Slice:
				if !isBasic(u.Elem()) {
					vv = ip.st.anyElem(base)
				}
			case *types.Array:
				if !isBasic(u.Elem()) {
					vv = ip.st.anyElem(base)
				}
			case *types.Pointer:
				vv = ip.st.anyElem(base)
			}
		}
		define := x.Tok == token.DEFINE
		if x.Key != nil {
			ip.assign(x.Key, kv, define, false)
		}
		if x.Value != nil {
			// the value variable is a copy of the element
			if vv != nil && t != nil {
				var et types.Type
				switch u := t.Underlying().(type) {
				case *types.Slice:
					et = u.Elem()
				case *types.Array:
					et = u.Elem()
				case *types.Map:
					et = u.Elem()
				}
				if et != nil {
					if _, isStruct := et.Underlying().(*types.Struct); isStruct {
						vv = ip.copyStruct(x, vv, et, nil)
					}
				}
			}
			ip.curStmt = x
			ip.assign(x.Value, vv, define, false)
		}
		ip.loop(x, x.Body.List, nil)
	case *ast.SwitchStmt:
		ip.stmt(x.Init)
		ip.eval(x.Tag)
		var lists [][]ast.Stmt
		hasDefault := false
		for _, c := range x.Body.List {
			cc := c.(*ast.CaseClause)
			for _, e := range cc.List {
				ip.eval(e)
			}
			if cc.List == nil {
				hasDefault = true
			}
			lists = append(lists, cc.Body)
		}
		ip.branches(x, lists, !hasDefault)
	case *ast.TypeSwitchStmt:
		ip.stmt(x.Init)
		var src *ipNode
		switch a := x.Assign.(type) {
		case *ast.ExprStmt:
			src = ip.eval(a.X.(*ast.TypeAssertExpr).X)
		case *ast.AssignStmt:
			src = ip.eval(a.Rhs[0].(*ast.TypeAssertExpr).X)
		}
		var lists [][]ast.Stmt
		hasDefault := false
		for _, c := range x.Body.List {
			cc := c.(*ast.CaseClause)
			if o := ip.info().Implicits[cc]; o != nil && src != nil {
				ip.cur.base[o] = src
			}
			if cc.List == nil {
				hasDefault = true
			}
			lists = append(lists, cc.Body)
		}
		ip.branches(x, lists, !hasDefault)
	case *ast.SelectStmt:
		var lists [][]ast.Stmt
		for _, c := range x.Body.List {
			cc := c.(*ast.CommClause)
			lists = append(lists, append([]ast.Stmt{cc.Comm}, cc.Body...))
		}
		ip.branches(x, lists, false)
	case *ast.SendStmt:
		ch := ip.eval(x.Chan)
		v := ip.valueOf(x.Value)
		if ch != nil && !ch.shared {
			ip.st.flow(ip.st.elemOf(ch), v)
		}
	case *ast.ReturnStmt:
		f := ip.cur
		res := f.results
		if n := len(ip.litStack); n > 0 {
			fl := ip.litStack[n-1]
			for i, r := range x.Results {
				ip.st.flow(ip.litResult(fl, i), ip.valueOf(r))
			}
			return
		}
		if len(x.Results) == len(res) {
			for i, r := range x.Results {
				ip.st.flow(res[i], ip.valueOf(r))
			}
		} else if len(x.Results) == 1 {
			if c, ok := x.Results[0].(*ast.CallExpr); ok {
				vals := ip.call(c)
				for i := range res {
					if i < len(vals) {
						ip.st.flow(res[i], vals[i])
					}
				}
			}
		} else if len(x.Results) == 0 {
			for i, o := range f.named {
				if o != nil && i < len(res) {
					ip.st.flow(res[i], ip.varNode(o))
				}
			}
		}
		// a lock a function returns holding is the one it holds on its SUCCESS path: `return …, err` hands nothing on
		// (callers leave at once when they get an error)
		if n := len(x.Results); n > 0 && len(f.results) == n {
			if sig := ip.funcSig(f); sig != nil && sig.Results().Len() == n && types.TypeString(sig.Results().At(n-1).Type(), nil) == "error" {
				if id, ok := x.Results[n-1].(*ast.Ident); !ok || id.Name != "nil" {
					return
				}
			}
		}
		ip.noteReturn()
	case *ast.DeferStmt:
		if name, op := ip.lockOf(x.Call); name != "" && (op == "Unlock" || op == "RUnlock") {
			ip.eval(x.Call.Fun.(*ast.SelectorExpr).X)
			if op == "RUnlock" {
				name += " (read)"
			}
			if len(ip.litStack) == 0 {
				ip.cur.deferred[name] = true
			}
			return // held until the function returns
		}
		// defer unlock() of a function value handed out by a function that returns holding a lock: stays held
		if id, ok := x.Call.Fun.(*ast.Ident); ok && len(x.Call.Args) == 0 {
			if v, ok := ip.obj(id).(*types.Var); ok && sigString(v.Type()) == "func() ()" {
				return
			}
		}
		if fl, ok := x.Call.Fun.(*ast.FuncLit); ok {
			ip.walkLit(fl)
			for _, a := range x.Call.Args {
				ip.eval(a)
			}
			return
		}
		ip.call(x.Call)
	case *ast.GoStmt:
		if fl, ok := x.Call.Fun.(*ast.FuncLit); ok {
			if ip.rootLits[fl] == nil {
				ip.walkLit(fl)
			}
			for _, a := range x.Call.Args {
				ip.eval(a)
			}
			return
		}
		ip.call(x.Call)
	}
}

func (ip *interproc) funcSig(f *ipFunc) *types.Signature {
	if f.decl != nil {
		if fn, ok := f.pkg.Info.Defs[f.decl.Name].(*types.Func); ok {
			sig, _ := fn.Type().(*types.Signature)
			return sig
		}
	}
	if f.lit != nil {
		if tv, ok := f.pkg.Info.Types[f.lit]; ok {
			sig, _ := tv.Type.(*types.Signature)
			return sig
		}
	}
	return nil
}

func (ip *interproc) noteReturn() {
	f := ip.cur
	if len(ip.litStack) > 0 {
		return
	}
	acq := map[string]bool{}
	for k := range ip.held {
		if !f.startHeld[k] && !f.deferred[k] {
			acq[k] = true
		}
	}
	if !f.exitSeen {
		f.exitSeen = true
		f.exitAcq = acq
	} else {
		for k := range f.exitAcq {
			if !acq[k] {
				delete(f.exitAcq, k)
			}
		}
	}
}

func sameSet(a, b map[string]bool) bool {
	if len(a) != len(b) {
		return false
	}
	for k := range a {
		if !b[k] {
			return false
		}
	}
	return true
}

func (ip *interproc) walkFunc(f *ipFunc) {
	ip.cur = f
	if !f.scanned {
		f.scanned = true
		// variables a function literal uses, or whose address is taken: one object for all their assignments
		ast.Inspect(f.body, func(n ast.Node) bool {
			switch x := n.(type) {
			case *ast.FuncLit:
				if f.lit == x {
					return true
				}
				ast.Inspect(x.Body, func(m ast.Node) bool {
					if id, ok := m.(*ast.Ident); ok {
						if o, ok := f.pkg.Info.Uses[id].(*types.Var); ok && !(x.Pos() <= o.Pos() && o.Pos() < x.End()) {
							f.weak[o] = true
						}
					}
					return true
				})
			case *ast.UnaryExpr:
				if x.Op == token.AND {
					if id, ok := x.X.(*ast.Ident); ok {
						if o, ok := f.pkg.Info.Uses[id].(*types.Var); ok {
							f.weak[o] = true
						}
					}
				}
			}
			return true
		})
		for _, o := range f.named {
			if o != nil {
				f.weak[o] = true
			}
		}
	}
	f.vars = cloneEnv(f.base)
	ip.held = map[string]bool{}
	if !f.root && f.entryKnown {
		ip.held = copyHeld(f.entryHeld)
	}
	f.startHeld = copyHeld(ip.held)
	f.exitSeen, f.exitAcq, f.exitRel, f.deferred = false, nil, map[string]bool{}, map[string]bool{}
	ip.litStack = nil
	ip.stmts(f.body.List)
	// falling off the end
	if n := len(f.body.List); n == 0 || !isReturn(f.body.List[n-1]) {
		ip.noteReturn()
	}
	if f.exitAcq == nil {
		f.exitAcq = map[string]bool{}
	}
	if !f.netKnown || !sameSet(f.netAcq, f.exitAcq) || !sameSet(f.netRel, f.exitRel) {
		f.netKnown = true
		f.netAcq, f.netRel = f.exitAcq, f.exitRel
		ip.st.changed = true
	}
}

func isReturn(s ast.Stmt) bool {
	_, ok := s.(*ast.ReturnStmt)
	return ok
}

// ---------------------------------------------------------------------------------------------
// driver
// ---------------------------------------------------------------------------------------------

type ipRoot struct {
	region int
	lit    *ast.FuncLit
	decl   *ast.FuncDecl
	parent *ast.FuncDecl
}

type ipResult struct {
	facts      []*ipAccess // classified, locations with a write only
	core       []string    // functions reachable from Evaluate (nearly every closure reaches it)
	perRoot    []ipRootReach
	opaque     []string
	stdlib     []string
	nReached   int
	nFuncs     int
	iterations int
}

type ipRootReach struct {
	region   int
	label    string
	viaCore  bool
	direct   []string // reachable functions outside the core
	nReached int
}

func runInterproc(a *analysis, pkgs []*Pkg, roots []ipRoot) *ipResult {
	ip := &interproc{funcs: map[string]*ipFunc{}, alloc: map[ast.Node]*ipNode{}, allocIdx: map[[2]interface{}]*ipNode{}, rootLits: map[*ast.FuncLit]*ipFunc{},
		vers: map[verKey]*ipNode{}, fieldExcl: map[ast.Expr]map[string]bool{}, bySig: map[string][]*ipFunc{}, litsBySig: map[string][]*ast.FuncLit{}, litOwner: map[*ast.FuncLit]*ipFunc{}, litParams: map[*ast.FuncLit][]types.Object{},
		opaque: map[string]bool{}, stdlib: map[string]bool{}, a: a, named: map[*Pkg][]*types.Named{}, pkgs: pkgs}
	ip.st.flowing = map[[2]*ipNode]bool{}
	declOf := map[*ast.FuncDecl]*ipFunc{}
	for _, p := range pkgs {
		for _, f := range p.Files {
			for _, d := range f.Decls {
				if fd, ok := d.(*ast.FuncDecl); ok && fd.Body != nil {
					ip.addFunc(p, fd)
					if fn, ok := p.Info.Defs[fd.Name].(*types.Func); ok {
						declOf[fd] = ip.funcs[fn.FullName()]
					}
				}
			}
		}
	}
	// roots
	q := pkgs[0]
	nlit := map[*ast.FuncDecl]int{}
	for _, r := range roots {
		switch {
		case r.lit != nil:
			if rf := ip.rootLits[r.lit]; rf != nil {
				rf.regions = append(rf.regions, r.region)
				continue
			}
			nlit[r.parent]++
			pf := declOf[r.parent]
			f := &ipFunc{key: pf.key + "$worker" + fmt.Sprint(nlit[r.parent]), label: pf.label + " (worker closure)", pkg: q, lit: r.lit, body: r.lit.Body, ftype: r.lit.Type,
				vars: map[types.Object]*ipNode{}, base: map[types.Object]*ipNode{}, weak: map[types.Object]bool{}, callees: map[string]bool{}, ext: map[string]bool{}, root: true, reached: true, regions: []int{r.region}}
			ip.fillSig(f, q, r.lit.Type)
			ip.funcs[f.key] = f
			ip.order = append(ip.order, f)
			ip.rootLits[r.lit] = f
			ip.roots = append(ip.roots, f)
			ip.litsBySig[sigString(q.Info.Types[r.lit].Type)] = append(ip.litsBySig[sigString(q.Info.Types[r.lit].Type)], r.lit)
		case r.decl != nil:
			f := declOf[r.decl]
			if f == nil {
				continue
			}
			if !f.root {
				f.root, f.reached = true, true
				ip.roots = append(ip.roots, f)
			}
			f.regions = append(f.regions, r.region)
		}
	}
	// function literals and functions used as values
	for _, f := range append([]*ipFunc(nil), ip.order...) {
		if f.lit != nil {
			continue
		}
		p := f.pkg
		calls := map[ast.Expr]bool{}
		ast.Inspect(f.body, func(n ast.Node) bool {
			if c, ok := n.(*ast.CallExpr); ok {
				fun := c.Fun
				for {
					if pe, ok := fun.(*ast.ParenExpr); ok {
						fun = pe.X
						continue
					}
					break
				}
				calls[fun] = true
			}
			return true
		})
		ast.Inspect(f.body, func(n ast.Node) bool {
			switch x := n.(type) {
			case *ast.FuncLit:
				if ip.rootLits[x] == nil {
					ip.litOwner[x] = f
					var ps []types.Object
					for _, fld := range x.Type.Params.List {
						if len(fld.Names) == 0 {
							ps = append(ps, nil)
						}
						for _, nm := range fld.Names {
							ps = append(ps, p.Info.Defs[nm])
						}
					}
					ip.litParams[x] = ps
					if tv, ok := p.Info.Types[x]; ok {
						sg := sigString(tv.Type)
						ip.litsBySig[sg] = append(ip.litsBySig[sg], x)
					}
				}
			case *ast.SelectorExpr:
				if !calls[x] {
					if fn, ok := p.Info.Uses[x.Sel].(*types.Func); ok {
						if tf := ip.funcs[fn.FullName()]; tf != nil {
							ip.bySig[sigString(fn.Type())] = append(ip.bySig[sigString(fn.Type())], tf)
						}
					}
				}
				ast.Inspect(x.X, func(m ast.Node) bool { return true })
			case *ast.Ident:
				if !calls[x] {
					if fn, ok := p.Info.Uses[x].(*types.Func); ok {
						if tf := ip.funcs[fn.FullName()]; tf != nil {
							ip.bySig[sigString(fn.Type())] = append(ip.bySig[sigString(fn.Type())], tf)
						}
					}
				}
			}
			return true
		})
	}
	// package-level composite literals hold function values too (the Functions map)
	for _, p := range pkgs {
		for _, file := range p.Files {
			for _, d := range file.Decls {
				gd, ok := d.(*ast.GenDecl)
				if !ok || gd.Tok != token.VAR {
					continue
				}
				ast.Inspect(gd, func(n ast.Node) bool {
					if id, ok := n.(*ast.Ident); ok {
						if fn, ok := p.Info.Uses[id].(*types.Func); ok {
							if tf := ip.funcs[fn.FullName()]; tf != nil {
								ip.bySig[sigString(fn.Type())] = append(ip.bySig[sigString(fn.Type())], tf)
							}
						}
					}
					return true
				})
			}
		}
	}
	for sg, fs := range ip.bySig {
		seen := map[*ipFunc]bool{}
		var out []*ipFunc
		for _, f := range fs {
			if !seen[f] {
				seen[f] = true
				out = append(out, f)
			}
		}
		sort.Slice(out, func(i, j int) bool { return out[i].key < out[j].key })
		ip.bySig[sg] = out
	}

	// fixpoint
	res := &ipResult{}
	for iter := 0; iter < 60; iter++ {
		ip.st.changed = false
		for i := 0; i < len(ip.order); i++ {
			if f := ip.order[i]; f.reached {
				ip.walkFunc(f)
			}
		}
		res.iterations = iter + 1
		if !ip.st.changed {
			break
		}
	}
	if ip.st.changed {
		fatal("interprocedural analysis: no fixpoint after %d rounds", res.iterations)
	}
	// the recording pass
	ip.record = true
	for _, f := range ip.order {
		if f.reached {
			ip.walkFunc(f)
		}
	}
	ip.record = false

	res.nFuncs = len(ip.order)
	for _, f := range ip.order {
		if f.reached {
			res.nReached++
		}
	}
	// reachability per root; the core = what Evaluate reaches
	reachFrom := func(start *ipFunc) map[string]bool {
		seen := map[string]bool{start.key: true}
		work := []*ipFunc{start}
		for len(work) > 0 {
			f := work[len(work)-1]
			work = work[:len(work)-1]
			for k := range f.callees {
				if !seen[k] {
					seen[k] = true
					if g := ip.funcs[k]; g != nil {
						work = append(work, g)
					}
				}
			}
		}
		return seen
	}
	label := func(k string) string {
		if f := ip.funcs[k]; f != nil {
			return f.label
		}
		return k
	}
	var core map[string]bool
	if ev := ip.funcs[queryPkg+".Evaluate"]; ev != nil {
		core = reachFrom(ev)
		for k := range core {
			if f := ip.funcs[k]; f != nil && f.lit == nil {
				res.core = append(res.core, label(k))
			}
		}
		sort.Strings(res.core)
	}
	for _, r := range ip.roots {
		seen := reachFrom(r)
		rr := ipRootReach{label: r.label, nReached: len(seen) - 1}
		if len(r.regions) > 0 {
			rr.region = r.regions[0]
		}
		evalKey := queryPkg + ".Evaluate"
		rr.viaCore = seen[evalKey]
		for k := range seen {
			if k == r.key {
				continue
			}
			if rr.viaCore && core[k] {
				continue
			}
			if f := ip.funcs[k]; f != nil && f.lit == nil {
				rr.direct = append(rr.direct, label(k))
			}
		}
		sort.Strings(rr.direct)
		for _, rg := range r.regions {
			c := rr
			c.region = rg
			res.perRoot = append(res.perRoot, c)
		}
	}
	sort.SliceStable(res.perRoot, func(i, j int) bool { return res.perRoot[i].region < res.perRoot[j].region })
	for k := range ip.opaque {
		res.opaque = append(res.opaque, k)
	}
	sort.Strings(res.opaque)
	for k := range ip.stdlib {
		res.stdlib = append(res.stdlib, k)
	}
	sort.Strings(res.stdlib)
	res.facts = ip.classify()
	return res
}

func lockBase(k string) string { return strings.TrimSuffix(k, " (read)") }

// commonLock: a lock both accesses hold, at least one of them exclusively
func commonLock(a, b *ipAccess) string {
	best := ""
	for k := range a.held {
		for l := range b.held {
			if lockBase(k) != lockBase(l) {
				continue
			}
			if strings.HasSuffix(k, " (read)") && strings.HasSuffix(l, " (read)") {
				continue
			}
			if best == "" || lockBase(k) < best {
				best = lockBase(k)
			}
		}
	}
	return best
}

func (ip *interproc) classify() []*ipAccess {
	type lkey struct {
		path string
		elem bool
	}
	byLoc := map[lkey][]*ipAccess{}
	for _, a := range ip.acc {
		if a.fn.root && a.fn.lit != nil {
			continue // the statements of the worker closures themselves: closure facts
		}
		k := lkey{a.path, a.elem}
		byLoc[k] = append(byLoc[k], a)
	}
	var out []*ipAccess
	for _, as := range byLoc {
		var writes []*ipAccess
		for _, a := range as {
			if a.rw == 'W' {
				writes = append(writes, a)
			}
		}
		if len(writes) == 0 {
			continue
		}
		for _, a := range as {
			if a.sync {
				a.cls, a.guard = "guarded", a.how
				out = append(out, a)
				continue
			}
			blamed := false
			lock := ""
			for _, w := range writes {
				if w.sync {
					blamed = true // a plain access next to an atomic / synchronised one
					continue
				}
				if l := commonLock(a, w); l != "" {
					if lock == "" {
						lock = l
					}
					continue
				}
				if len(a.held) > 0 && len(w.held) == 0 && w != a {
					continue // the other side lacks the protection this side has
				}
				blamed = true
			}
			switch {
			case blamed:
				a.cls = "unguarded"
			default:
				a.cls, a.guard = "guarded", lock
			}
			out = append(out, a)
		}
	}
	sort.SliceStable(out, func(i, j int) bool {
		a, b := out[i], out[j]
		fa, fb := a.pkg.base(a.pos), b.pkg.base(b.pos)
		if fa != fb {
			return fa < fb
		}
		if a.pos != b.pos {
			return a.pos < b.pos
		}
		if a.path != b.path {
			return a.path < b.path
		}
		if a.elem != b.elem {
			return !a.elem
		}
		return a.rw < b.rw
	})
	// one fact per (position, location, access)
	var dedup []*ipAccess
	seen := map[string]bool{}
	for _, a := range out {
		k := fmt.Sprintf("%s|%d|%s|%v|%c|%s", a.pkg.base(a.pos), a.pkg.line(a.pos), a.path, a.elem, a.rw, a.cls)
		if !seen[k] {
			seen[k] = true
			dedup = append(dedup, a)
		}
	}
	return dedup
}
